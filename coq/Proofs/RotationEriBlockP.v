(* Proofs/RotationEriBlockP.v — GENERAL ROTATIONS for EVERY ENTRY of the model's electron-repulsion block (C12).

   TwoElecP.two_elec_correct: every entry of [eri_block s1 s2 s3 s4] (ElectronRepulsionIntegral.construct_array_
   contraction) is
        sum over the primitive quartets (weights norm_rad x coefficient, independent of the components)
          of  eri_quartet_spec(alpha beta gamma delta; c1 c2 c3 c4)   x  prod_k 1/sqrt((2c_k - 1)!!),
   and RotationEriP.eri_spec_rotation_covariant_shells is the covariance of the quartet specification.  Collecting the
   entries of (R^T u)^a into the representation matrices [rep_mat] (RotationBlockP) and using the linearity of the
   contraction:

     eri_block_rotation_law :  for every orthogonal R (proper or improper) and all l1..l4 there are matrices M1..M4
        representing R on the monomials of degree l1..l4 such that for all Cartesian shells of these angular momenta
        in the default component order (any centres, exponents with non-zero pair sums, generalized contractions)
           prod_k dfnorm(j_k) * G[m1, j1, m2, j2, m3, j3, m4, j4]
             = sum_{i1 i2 i3 i4} prod_k M_k[i_k, j_k] dfnorm(i_k) * G'[m1, i1, m2, i2, m3, i3, m4, i4]
        G = eri_block s1 s2 s3 s4, G' = eri_block of the four rotated shells.
   Hypotheses: fapx = id, characteristic 0, dfnorm <> 0. *)
From Coq Require Import List Arith Lia Field Bool.
From GB Require Import Base.Field Base.FNum Base.Tables Gauss.Moment1D Gauss.SPoly Gauss.Poly3 Gauss.Wick2D Gauss.Poly6
  Model.Shell Model.MomentInt Model.OneElec Model.TwoElec Proofs.CoreSumP Proofs.OneElecP Proofs.TwoElecP Proofs.EriOrientP
  Proofs.RigidP Proofs.RotationP Proofs.RotationBlockP Proofs.RotationMoreP Proofs.RotationEriP.
Import ListNotations.

Section EriBlock.
Context {F : Type} (K : Fops F) (Kf : is_field K).
Add Field KFreb : Kf.
Local Open Scope F_scope.
Notation "0" := (f0 K) : F_scope.
Notation "1" := (f1 K) : F_scope.
Infix "+" := (fadd K) : F_scope.
Infix "*" := (fmul K) : F_scope.
Infix "-" := (fsub K) : F_scope.
Infix "/" := (fdiv K) : F_scope.
Notation "# n" := (ofnat K n) (at level 5) : F_scope.
Notation fsum := (FNum.fsum K).
Notation centre := RotationMoreP.centre.

Hypothesis Hapx : forall x : F, fapx K x = x.
Hypothesis char0 : forall n, #(S n) <> 0.
Hypothesis Hdf : forall c, dfnorm K c <> 0.

Lemma H2 : 1 + 1 <> 0.
Proof. apply (two_nz K Kf char0). Qed.

Lemma dfnorm_inv_sqrt_df c : dfnorm K c * inv_sqrt_df K c = 1.
Proof.
  destruct c as [[x y] z]. pose proof (Hdf (x, y, z)) as H. unfold dfnorm, inv_sqrt_df in *. cbn [fst snd] in *.
  field. exact H.
Qed.

Lemma fsum_cons' x l : fsum (x :: l) = x + fsum l.
Proof. reflexivity. Qed.
Lemma fsum_ext' {A} (f g : A -> F) L : (forall x, In x L -> f x = g x) -> fsum (map f L) = fsum (map g L).
Proof. intro H. f_equal. now apply map_ext_in. Qed.
Lemma fsum_scale' {A} c (f : A -> F) (L : list A) : c * fsum (map f L) = fsum (map (fun x => c * f x) L).
Proof. induction L as [|x L IH]; cbn [map]; rewrite ?fsum_cons'; [cbn; ring|]. rewrite <- IH. ring. Qed.

(* the contraction is linear in the quantity summed *)
Lemma csum_fsum {A B} ws m (xs : list A) (L : list B) (c : B -> F) (f : B -> A -> F) :
  csum K ws m xs (fun x => fsum (map (fun i => c i * f i x) L))
  = fsum (map (fun i => c i * csum K ws m xs (f i)) L).
Proof.
  induction L as [|i L IH]; cbn [map].
  - apply (csum_zero K Kf).
  - rewrite fsum_cons', <- IH.
    rewrite (csum_ext K ws m xs _ (fun x => f i x * c i + fsum (map (fun i0 => c i0 * f i0 x) L)))
      by (intro x; rewrite fsum_cons'; ring).
    rewrite (csum_add K Kf), (csum_scale_r K Kf). ring.
Qed.

(* the four-fold contraction over the primitives of four shells *)
Definition Q4 (s1 s2 s3 s4 : shell F) (m1 m2 m3 m4 : nat) (spec : F -> F -> F -> F -> F) : F :=
  csum K (wts K s1) m1 (s_exps s1) (fun alpha => csum K (wts K s2) m2 (s_exps s2) (fun beta =>
    csum K (wts K s3) m3 (s_exps s3) (fun gamma => csum K (wts K s4) m4 (s_exps s4) (fun delta =>
      spec alpha beta gamma delta)))).

Lemma Q4_ext_in s1 s2 s3 s4 m1 m2 m3 m4 f g :
  (forall a b c d, In a (s_exps s1) -> In b (s_exps s2) -> In c (s_exps s3) -> In d (s_exps s4) ->
     f a b c d = g a b c d) ->
  Q4 s1 s2 s3 s4 m1 m2 m3 m4 f = Q4 s1 s2 s3 s4 m1 m2 m3 m4 g.
Proof.
  intro H. unfold Q4. apply (csum_ext_in K); intros a Ha. apply (csum_ext_in K); intros b Hb.
  apply (csum_ext_in K); intros c Hc. apply (csum_ext_in K); intros d Hd. now apply H.
Qed.
Lemma Q4_fsum {B} s1 s2 s3 s4 m1 m2 m3 m4 (L : list B) (c : B -> F) (f : B -> F -> F -> F -> F -> F) :
  Q4 s1 s2 s3 s4 m1 m2 m3 m4 (fun a b g d => fsum (map (fun i => c i * f i a b g d) L))
  = fsum (map (fun i => c i * Q4 s1 s2 s3 s4 m1 m2 m3 m4 (f i)) L).
Proof.
  unfold Q4. rewrite <- csum_fsum. apply (csum_ext K); intro a.
  rewrite <- csum_fsum. apply (csum_ext K); intro b.
  rewrite <- csum_fsum. apply (csum_ext K); intro g. apply csum_fsum.
Qed.

(* ---- the primitive law in matrix form ---- *)
Lemma fsum_Jsum_rot_expand (J : mon -> F) R l j : In j (default_comps l) ->
  Poly3.Jsum K J (rot_expand K R j) = fsum (map (fun i => rep_mat K R i j * J i) (default_comps l)).
Proof. apply (Jsum_rot_expand K Kf). Qed.

Section Law.
Variable R : @mat3 F.
Hypothesis HO : orthogonal K R.
Variables (s1 s2 s3 s4 : shell F).
Hypothesis Hc1 : s_comps s1 = []. Hypothesis Hc2 : s_comps s2 = [].
Hypothesis Hc3 : s_comps s3 = []. Hypothesis Hc4 : s_comps s4 = [].
Hypothesis Hp : forall alpha beta, In alpha (s_exps s1) -> In beta (s_exps s2) -> alpha + beta <> 0.
Hypothesis Hq : forall gamma delta, In gamma (s_exps s3) -> In delta (s_exps s4) -> gamma + delta <> 0.
Hypothesis Hpq : forall alpha beta gamma delta, In alpha (s_exps s1) -> In beta (s_exps s2) ->
  In gamma (s_exps s3) -> In delta (s_exps s4) -> (alpha + beta) + (gamma + delta) <> 0.
Let l1 := s_l s1. Let l2 := s_l s2. Let l3 := s_l s3. Let l4 := s_l s4.
Let cmp (l i : nat) : comp := nth i (default_comps l) (0, 0, 0)%nat.
Let r1 := rot_shell K R s1. Let r2 := rot_shell K R s2. Let r3 := rot_shell K R s3. Let r4 := rot_shell K R s4.

Definition spec_of (t1 t2 t3 t4 : shell F) (c1 c2 c3 c4 : comp) : F -> F -> F -> F -> F :=
  fun alpha beta gamma delta =>
    eri_quartet_spec K alpha beta gamma delta (centre t1) (centre t2) (centre t3) (centre t4) c1 c2 c3 c4.

Lemma compsum_default l i : (i < length (default_comps l))%nat -> compsum (cmp l i) = l.
Proof.
  intro H. unfold compsum, cmp. apply default_comps_degree. now apply nth_In.
Qed.

(* every entry of the block of four Cartesian default-order shells, through two_elec_correct *)
Lemma eri_entry (t1 t2 t3 t4 : shell F) m1 i1 m2 i2 m3 i3 m4 i4 :
  s_comps t1 = [] -> s_comps t2 = [] -> s_comps t3 = [] -> s_comps t4 = [] ->
  (forall alpha beta, In alpha (s_exps t1) -> In beta (s_exps t2) -> alpha + beta <> 0) ->
  (forall gamma delta, In gamma (s_exps t3) -> In delta (s_exps t4) -> gamma + delta <> 0) ->
  (forall alpha beta gamma delta, In alpha (s_exps t1) -> In beta (s_exps t2) ->
     In gamma (s_exps t3) -> In delta (s_exps t4) -> (alpha + beta) + (gamma + delta) <> 0) ->
  (m1 < nseg t1)%nat -> (m2 < nseg t2)%nat -> (m3 < nseg t3)%nat -> (m4 < nseg t4)%nat ->
  (i1 < length (default_comps (s_l t1)))%nat -> (i2 < length (default_comps (s_l t2)))%nat ->
  (i3 < length (default_comps (s_l t3)))%nat -> (i4 < length (default_comps (s_l t4)))%nat ->
  dfnorm K (cmp (s_l t1) i1) * dfnorm K (cmp (s_l t2) i2) * dfnorm K (cmp (s_l t3) i3) * dfnorm K (cmp (s_l t4) i4)
  * nth i4 (nth m4 (nth i3 (nth m3 (nth i2 (nth m2 (nth i1 (nth m1 (eri_block K t1 t2 t3 t4) []) []) []) []) []) []) []) 0
  = Q4 t1 t2 t3 t4 m1 m2 m3 m4
      (spec_of t1 t2 t3 t4 (cmp (s_l t1) i1) (cmp (s_l t2) i2) (cmp (s_l t3) i3) (cmp (s_l t4) i4)).
Proof.
  intros C1 C2 C3 C4 P Qh PQ Hm1 Hm2 Hm3 Hm4 Hi1 Hi2 Hi3 Hi4.
  assert (E1 : comps_of t1 = default_comps (s_l t1)) by (unfold comps_of; now rewrite C1).
  assert (E2 : comps_of t2 = default_comps (s_l t2)) by (unfold comps_of; now rewrite C2).
  assert (E3 : comps_of t3 = default_comps (s_l t3)) by (unfold comps_of; now rewrite C3).
  assert (E4 : comps_of t4 = default_comps (s_l t4)) by (unfold comps_of; now rewrite C4).
  pose proof (two_elec_correct K Kf t1 t2 t3 t4 m1 i1 m2 i2 m3 i3 m4 i4 Hapx H2 P Qh PQ Hm1 Hm2 Hm3 Hm4) as T.
  rewrite E1, E2, E3, E4 in T. specialize (T Hi1 Hi2 Hi3 Hi4).
  fold (cmp (s_l t1) i1) (cmp (s_l t2) i2) (cmp (s_l t3) i3) (cmp (s_l t4) i4) in T.
  rewrite !compsum_default in T by assumption.
  destruct (T (le_n _) (le_n _) (le_n _) (le_n _)) as [T1 _]. rewrite T1. clear T T1.
  transitivity (Q4 t1 t2 t3 t4 m1 m2 m3 m4
      (spec_of t1 t2 t3 t4 (cmp (s_l t1) i1) (cmp (s_l t2) i2) (cmp (s_l t3) i3) (cmp (s_l t4) i4))
    * ((dfnorm K (cmp (s_l t1) i1) * inv_sqrt_df K (cmp (s_l t1) i1))
       * (dfnorm K (cmp (s_l t2) i2) * inv_sqrt_df K (cmp (s_l t2) i2))
       * (dfnorm K (cmp (s_l t3) i3) * inv_sqrt_df K (cmp (s_l t3) i3))
       * (dfnorm K (cmp (s_l t4) i4) * inv_sqrt_df K (cmp (s_l t4) i4)))).
  - unfold Q4, spec_of.
    rewrite (csum_ext_in K _ _ _ _ (fun alpha => csum K (wts K t2) m2 (s_exps t2) (fun beta =>
               csum K (wts K t3) m3 (s_exps t3) (fun gamma => csum K (wts K t4) m4 (s_exps t4) (fun delta =>
                 eri_quartet_spec K alpha beta gamma delta (centre t1) (centre t2) (centre t3) (centre t4)
                   (cmp (s_l t1) i1) (cmp (s_l t2) i2) (cmp (s_l t3) i3) (cmp (s_l t4) i4)))))).
    + ring.
    + intros alpha _. apply (csum_ext K); intro beta. apply (csum_ext K); intro gamma.
      apply (csum_ext K); intro delta.
      rewrite (two_elec_summand_is_spec K). rewrite E1, E2, E3, E4. reflexivity.
  - rewrite !dfnorm_inv_sqrt_df. ring.
Qed.

Theorem eri_block_rotation_law_fixed m1 m2 m3 m4 j1 j2 j3 j4 :
  (m1 < nseg s1)%nat -> (m2 < nseg s2)%nat -> (m3 < nseg s3)%nat -> (m4 < nseg s4)%nat ->
  (j1 < length (default_comps l1))%nat -> (j2 < length (default_comps l2))%nat ->
  (j3 < length (default_comps l3))%nat -> (j4 < length (default_comps l4))%nat ->
  dfnorm K (cmp l1 j1) * dfnorm K (cmp l2 j2) * dfnorm K (cmp l3 j3) * dfnorm K (cmp l4 j4)
  * nth j4 (nth m4 (nth j3 (nth m3 (nth j2 (nth m2 (nth j1 (nth m1 (eri_block K s1 s2 s3 s4) []) []) []) []) []) []) []) 0
  = fsum (map (fun i1 => fsum (map (fun i2 => fsum (map (fun i3 => fsum (map (fun i4 =>
      rep_mat K R (cmp l1 i1) (cmp l1 j1) * rep_mat K R (cmp l2 i2) (cmp l2 j2)
      * rep_mat K R (cmp l3 i3) (cmp l3 j3) * rep_mat K R (cmp l4 i4) (cmp l4 j4)
      * (dfnorm K (cmp l1 i1) * dfnorm K (cmp l2 i2) * dfnorm K (cmp l3 i3) * dfnorm K (cmp l4 i4)
         * nth i4 (nth m4 (nth i3 (nth m3 (nth i2 (nth m2 (nth i1 (nth m1 (eri_block K r1 r2 r3 r4)
             []) []) []) []) []) []) []) 0))
      (seq 0 (length (default_comps l4))))) (seq 0 (length (default_comps l3)))))
      (seq 0 (length (default_comps l2))))) (seq 0 (length (default_comps l1)))).
Proof.
  intros Hm1 Hm2 Hm3 Hm4 Hj1 Hj2 Hj3 Hj4.
  pose proof (eri_entry s1 s2 s3 s4 m1 j1 m2 j2 m3 j3 m4 j4 Hc1 Hc2 Hc3 Hc4 Hp Hq Hpq Hm1 Hm2 Hm3 Hm4
                Hj1 Hj2 Hj3 Hj4) as E0.
  fold l1 l2 l3 l4 in E0. rewrite E0. clear E0.
  (* the primitive law, collected *)
  rewrite (Q4_ext_in s1 s2 s3 s4 m1 m2 m3 m4 _ (fun a b g d =>
     fsum (map (fun i1 => rep_mat K R (cmp l1 i1) (cmp l1 j1) * (fun i1 a b g d =>
       fsum (map (fun i2 => rep_mat K R (cmp l2 i2) (cmp l2 j2) * (fun i2 a b g d =>
         fsum (map (fun i3 => rep_mat K R (cmp l3 i3) (cmp l3 j3) * (fun i3 a b g d =>
           fsum (map (fun i4 => rep_mat K R (cmp l4 i4) (cmp l4 j4) * (fun i4 a b g d =>
             spec_of r1 r2 r3 r4 (cmp l1 i1) (cmp l2 i2) (cmp l3 i3) (cmp l4 i4) a b g d) i4 a b g d)
             (seq 0 (length (default_comps l4))))) i3 a b g d)
           (seq 0 (length (default_comps l3))))) i2 a b g d)
         (seq 0 (length (default_comps l2))))) i1 a b g d)
       (seq 0 (length (default_comps l1)))))).
  2:{ intros a b g d Ha Hb Hg Hd. cbv beta. unfold spec_of.
      rewrite <- (eri_spec_rotation_covariant_shells K Kf R s1 s2 s3 s4 a b g d
                    (cmp l1 j1) (cmp l2 j2) (cmp l3 j3) (cmp l4 j4) HO (Hp _ _ Ha Hb) (Hq _ _ Hg Hd)
                    (Hpq _ _ _ _ Ha Hb Hg Hd) H2 char0).
      rewrite (fsum_Jsum_rot_expand _ R l1 (cmp l1 j1)) by (apply nth_In; exact Hj1).
      rewrite (map_as_mk _ (default_comps l1) (0, 0, 0)%nat). unfold mk. apply fsum_ext'. intros i1 _.
      fold (cmp l1 i1). f_equal.
      rewrite (fsum_Jsum_rot_expand _ R l2 (cmp l2 j2)) by (apply nth_In; exact Hj2).
      rewrite (map_as_mk _ (default_comps l2) (0, 0, 0)%nat). unfold mk. apply fsum_ext'. intros i2 _.
      fold (cmp l2 i2). f_equal.
      rewrite (fsum_Jsum_rot_expand _ R l3 (cmp l3 j3)) by (apply nth_In; exact Hj3).
      rewrite (map_as_mk _ (default_comps l3) (0, 0, 0)%nat). unfold mk. apply fsum_ext'. intros i3 _.
      fold (cmp l3 i3). f_equal.
      rewrite (fsum_Jsum_rot_expand _ R l4 (cmp l4 j4)) by (apply nth_In; exact Hj4).
      rewrite (map_as_mk _ (default_comps l4) (0, 0, 0)%nat). unfold mk. apply fsum_ext'. intros i4 _.
      fold (cmp l4 i4). reflexivity. }
  (* linearity of the contraction, four times *)
  rewrite Q4_fsum. apply fsum_ext'. intros i1 Hi1. apply in_seq in Hi1. cbv beta.
  rewrite Q4_fsum, !fsum_scale'. apply fsum_ext'. intros i2 Hi2. apply in_seq in Hi2. cbv beta.
  rewrite Q4_fsum, !fsum_scale'. apply fsum_ext'. intros i3 Hi3. apply in_seq in Hi3. cbv beta.
  rewrite Q4_fsum, !fsum_scale'. apply fsum_ext'. intros i4 Hi4. apply in_seq in Hi4. cbv beta.
  assert (Hi1' : (i1 < length (default_comps (s_l r1)))%nat) by (change (i1 < length (default_comps l1))%nat; lia).
  assert (Hi2' : (i2 < length (default_comps (s_l r2)))%nat) by (change (i2 < length (default_comps l2))%nat; lia).
  assert (Hi3' : (i3 < length (default_comps (s_l r3)))%nat) by (change (i3 < length (default_comps l3))%nat; lia).
  assert (Hi4' : (i4 < length (default_comps (s_l r4)))%nat) by (change (i4 < length (default_comps l4))%nat; lia).
  pose proof (eri_entry r1 r2 r3 r4 m1 i1 m2 i2 m3 i3 m4 i4 Hc1 Hc2 Hc3 Hc4 Hp Hq Hpq Hm1 Hm2 Hm3 Hm4
                Hi1' Hi2' Hi3' Hi4') as E1.
  change (Q4 r1 r2 r3 r4) with (Q4 s1 s2 s3 s4) in E1.
  change (s_l r1) with l1 in E1. change (s_l r2) with l2 in E1. change (s_l r3) with l3 in E1.
  change (s_l r4) with l4 in E1.
  rewrite E1.
  change (fun a b g d : F => spec_of r1 r2 r3 r4 (cmp l1 i1) (cmp l2 i2) (cmp l3 i3) (cmp l4 i4) a b g d)
    with (spec_of r1 r2 r3 r4 (cmp l1 i1) (cmp l2 i2) (cmp l3 i3) (cmp l4 i4)).
  ring.
Qed.
End Law.

Theorem eri_block_rotation_law :
  forall R, orthogonal K R -> forall l1 l2 l3 l4, exists M1 M2 M3 M4 : comp -> comp -> F,
    mono_rep K R l1 M1 /\ mono_rep K R l2 M2 /\ mono_rep K R l3 M3 /\ mono_rep K R l4 M4 /\
    forall s1 s2 s3 s4 : shell F,
      s_l s1 = l1 -> s_l s2 = l2 -> s_l s3 = l3 -> s_l s4 = l4 ->
      s_comps s1 = [] -> s_comps s2 = [] -> s_comps s3 = [] -> s_comps s4 = [] ->
      (forall alpha beta, In alpha (s_exps s1) -> In beta (s_exps s2) -> alpha + beta <> 0) ->
      (forall gamma delta, In gamma (s_exps s3) -> In delta (s_exps s4) -> gamma + delta <> 0) ->
      (forall alpha beta gamma delta, In alpha (s_exps s1) -> In beta (s_exps s2) ->
         In gamma (s_exps s3) -> In delta (s_exps s4) -> (alpha + beta) + (gamma + delta) <> 0) ->
      forall m1 m2 m3 m4 j1 j2 j3 j4,
      (m1 < nseg s1)%nat -> (m2 < nseg s2)%nat -> (m3 < nseg s3)%nat -> (m4 < nseg s4)%nat ->
      (j1 < length (default_comps l1))%nat -> (j2 < length (default_comps l2))%nat ->
      (j3 < length (default_comps l3))%nat -> (j4 < length (default_comps l4))%nat ->
      let cmp l i := nth i (default_comps l) (0, 0, 0)%nat in
      dfnorm K (cmp l1 j1) * dfnorm K (cmp l2 j2) * dfnorm K (cmp l3 j3) * dfnorm K (cmp l4 j4)
      * nth j4 (nth m4 (nth j3 (nth m3 (nth j2 (nth m2 (nth j1 (nth m1 (eri_block K s1 s2 s3 s4)
          []) []) []) []) []) []) []) 0
      = fsum (map (fun i1 => fsum (map (fun i2 => fsum (map (fun i3 => fsum (map (fun i4 =>
          M1 (cmp l1 i1) (cmp l1 j1) * M2 (cmp l2 i2) (cmp l2 j2)
          * M3 (cmp l3 i3) (cmp l3 j3) * M4 (cmp l4 i4) (cmp l4 j4)
          * (dfnorm K (cmp l1 i1) * dfnorm K (cmp l2 i2) * dfnorm K (cmp l3 i3) * dfnorm K (cmp l4 i4)
             * nth i4 (nth m4 (nth i3 (nth m3 (nth i2 (nth m2 (nth i1 (nth m1
                 (eri_block K (rot_shell K R s1) (rot_shell K R s2) (rot_shell K R s3) (rot_shell K R s4))
                 []) []) []) []) []) []) []) 0))
          (seq 0 (length (default_comps l4))))) (seq 0 (length (default_comps l3)))))
          (seq 0 (length (default_comps l2))))) (seq 0 (length (default_comps l1)))).
Proof.
  intros R HO l1 l2 l3 l4. exists (rep_mat K R), (rep_mat K R), (rep_mat K R), (rep_mat K R).
  split; [apply (rep_mat_mono_rep K Kf)|]. split; [apply (rep_mat_mono_rep K Kf)|].
  split; [apply (rep_mat_mono_rep K Kf)|]. split; [apply (rep_mat_mono_rep K Kf)|].
  intros s1 s2 s3 s4 <- <- <- <- C1 C2 C3 C4 P Qh PQ m1 m2 m3 m4 j1 j2 j3 j4 Hm1 Hm2 Hm3 Hm4 Hj1 Hj2 Hj3 Hj4.
  exact (eri_block_rotation_law_fixed R HO s1 s2 s3 s4 C1 C2 C3 C4 P Qh PQ m1 m2 m3 m4 j1 j2 j3 j4
           Hm1 Hm2 Hm3 Hm4 Hj1 Hj2 Hj3 Hj4).
Qed.

End EriBlock.

(* ==================================================================================================== *)
(* Examples over Qc (sqrt = 1, exp = identity, a stand-in Boys function): the hypotheses are satisfiable, and the block
   law is re-evaluated through the list-level model for a (p s | p s) block with a contracted two-segment p shell. *)
From Coq Require Import ZArith QArith Qcanon.
Definition ebKQ : Fops Qc := QcK true (Q2Qc 3) (fun _ => Q2Qc 1) (fun x => x) (fun x => x) exBoys.
Section Examples.
Let KQ : Fops Qc := ebKQ.
Let KQf : is_field KQ := QcK_field _ _ _ _ _ _.
Let q (n : Z) (d : positive) : Qc := qc_of n d.
Definition ebP1 : shell Qc :=
  mkShell Qc 1 (q 1 2) (q (-1) 1) (q 2 1) [q 3 2; q 1 4] [[q 1 1; q 2 1]; [q (-1) 3; q 1 2]] false [] [].
Definition ebS2 : shell Qc := mkShell Qc 0 (q 0 1) (q 1 3) (q (-1) 1) [q 2 3] [[q 5 7]] false [] [].
Definition ebP3 : shell Qc := mkShell Qc 1 (q 1 4) (q (-2) 1) (q 1 3) [q 1 2] [[q 1 1]] false [] [].
Definition ebS4 : shell Qc := mkShell Qc 0 (q (-1) 1) (q 1 2) (q 0 1) [q 5 4] [[q 1 1]] false [] [].

Lemma ebKQ_hyps :
  (forall x, fapx KQ x = x) /\ (forall n, ofnat KQ (S n) <> f0 KQ) /\ (forall c, dfnorm KQ c <> f0 KQ).
Proof.
  split; [reflexivity|]. split; [apply QcK_char0|].
  intros c H. apply (f_equal this) in H. vm_compute in H. discriminate H.
Qed.
Lemma ebKQ_exps :
  (forall a b, In a (s_exps ebP1) -> In b (s_exps ebS2) -> fadd KQ a b <> f0 KQ)
  /\ (forall g d, In g (s_exps ebP3) -> In d (s_exps ebS4) -> fadd KQ g d <> f0 KQ)
  /\ (forall a b g d, In a (s_exps ebP1) -> In b (s_exps ebS2) -> In g (s_exps ebP3) -> In d (s_exps ebS4) ->
        fadd KQ (fadd KQ a b) (fadd KQ g d) <> f0 KQ).
Proof.
  split; [|split].
  - intros a b Ha Hb. cbn [ebP1 ebS2 s_exps In] in Ha, Hb.
    destruct Ha as [<-|[<-|[]]]; destruct Hb as [<-|[]]; intro H; apply (f_equal this) in H;
      vm_compute in H; discriminate H.
  - intros g d Hg Hd. cbn [ebP3 ebS4 s_exps In] in Hg, Hd.
    destruct Hg as [<-|[]]; destruct Hd as [<-|[]]; intro H; apply (f_equal this) in H;
      vm_compute in H; discriminate H.
  - intros a b g d Ha Hb Hg Hd. cbn [ebP1 ebS2 ebP3 ebS4 s_exps In] in Ha, Hb, Hg, Hd.
    destruct Ha as [<-|[<-|[]]]; destruct Hb as [<-|[]]; destruct Hg as [<-|[]]; destruct Hd as [<-|[]];
      intro H; apply (f_equal this) in H; vm_compute in H; discriminate H.
Qed.

(* the block law evaluated on the model (vm_compute, independent of the proof): every segment and component of the
   (p s | p s) block, both rotations; the blocks are evaluated once per rotation *)
Definition eb_get (G : list (list (list (list (list (list (list (list Qc)))))))) (m1 i1 i3 : nat) : Qc :=
  nth 0 (nth 0 (nth i3 (nth 0 (nth 0 (nth 0 (nth i1 (nth m1 G []) []) []) []) []) []) []) (f0 KQ).
Definition eb_check (R : @mat3 Qc) : bool :=
  let G := eri_block KQ ebP1 ebS2 ebP3 ebS4 in
  let G' := eri_block KQ (rot_shell KQ R ebP1) (rot_shell KQ R ebS2) (rot_shell KQ R ebP3) (rot_shell KQ R ebS4) in
  let cmp i := nth i (default_comps 1) (0, 0, 0)%nat in
  forallb (fun m1 => forallb (fun j1 => forallb (fun j3 =>
    Qeq_bool
      (fmul KQ (fmul KQ (dfnorm KQ (cmp j1)) (dfnorm KQ (cmp j3))) (eb_get G m1 j1 j3))
      (FNum.fsum KQ (map (fun i1 => FNum.fsum KQ (map (fun i3 =>
         fmul KQ (fmul KQ (rep_mat KQ R (cmp i1) (cmp j1)) (rep_mat KQ R (cmp i3) (cmp j3)))
                 (fmul KQ (fmul KQ (dfnorm KQ (cmp i1)) (dfnorm KQ (cmp i3))) (eb_get G' m1 i1 i3)))
         (seq 0 3))) (seq 0 3)))) (seq 0 3)) (seq 0 3)) (seq 0 2).
Example eri_block_law_computed : forallb eb_check [R345; Rimp] = true.
Proof. vm_compute. reflexivity. Qed.
End Examples.

Lemma eri_block_law_hypotheses_satisfiable :
  exists (F : Type) (K : Fops F) (R1 R2 : @mat3 F) (s1 s2 s3 s4 : shell F),
    is_field K /\ (forall x, fapx K x = x) /\ (forall n, ofnat K (S n) <> f0 K) /\ (forall c, dfnorm K c <> f0 K)
    /\ orthogonal K R1 /\ orthogonal K R2
    /\ s_comps s1 = [] /\ s_comps s2 = [] /\ s_comps s3 = [] /\ s_comps s4 = []
    /\ (forall a b, In a (s_exps s1) -> In b (s_exps s2) -> fadd K a b <> f0 K)
    /\ (forall g d, In g (s_exps s3) -> In d (s_exps s4) -> fadd K g d <> f0 K)
    /\ (forall a b g d, In a (s_exps s1) -> In b (s_exps s2) -> In g (s_exps s3) -> In d (s_exps s4) ->
          fadd K (fadd K a b) (fadd K g d) <> f0 K).
Proof.
  exists Qc, ebKQ, R345, Rimp, ebP1, ebS2, ebP3, ebS4.
  split; [apply QcK_field|]. destruct ebKQ_hyps as (A & B & C). split; [exact A|]. split; [exact B|].
  split; [exact C|]. split; [exact orthogonal_R345|]. split; [exact orthogonal_Rimp|].
  split; [reflexivity|]. split; [reflexivity|]. split; [reflexivity|]. split; [reflexivity|].
  exact ebKQ_exps.
Qed.
