(* Proofs/EspFullP.v — the SHAPE of the model's point-charge integral array, for every basis of shells with at
   least one contraction and component / label lists of the size their angular momentum demands (in
   particular the default orders), any assignment of coordinate types, any number of shells / points:

     point_charge_integral_shape_none   point_charge_integral K pts basis None  is  [n][n][N],
                                        n = Esp.nfun_basis basis (the number of contractions the code's size check
                                        computes), N = number of points;  as a Prop and as [squareb .. = true]
     point_charge_integral_shape_T      with transform = Some t, t of S rows and n columns (S, n > 0): [S][S][N]
     esp_transform_is_backtransformed_full
                                        Proofs/EspP.esp_transform_is_backtransformed WITHOUT its [squareb] hypothesis.

   Everything is structural (no field law): the blocks are built by [mk], the processed blocks are described
   entry by entry by Proofs/AssembledSphP.two_symm_mixed_entry (tsum of scaled block entries), the final
   transformation by Proofs/AssembledLincombP.lincomb2_entry; a sum [asum vzero vadd] of at least one vector
   of length N has length N although the zero of the module is the EMPTY vector. *)
From Coq Require Import List Arith Lia Bool.
From GB Require Import Base.Field Base.FNum Base.Tables Base.Blocks Model.Shell Model.MomentInt
  Model.Spherical Model.Assembly Model.Overlap Model.DiffOp Model.OneElec Model.OneBody Model.Esp
  Proofs.BlockP Proofs.CoreSumP Proofs.CoreBlockP Proofs.CoreDiffP Proofs.AssemblyP Proofs.OverlapP
  Proofs.BlockMatP Proofs.AssembledP Proofs.AssembledSphP Proofs.AssembledLincombP Proofs.SphExactP
  Proofs.EspP.
Import ListNotations.

Section VecLen.
Context {F : Type} (K : Fops F).

Lemma vadd_length (x y : list F) N : length x = N -> (y = [] \/ length y = N) -> length (vadd K x y) = N.
Proof.
  intros Hx Hy. unfold vadd. destruct x as [|a x]; [cbn in Hx; subst N; destruct Hy as [->|Hy]; [reflexivity|exact Hy]|].
  destruct y as [|b y]; [exact Hx|]. destruct Hy as [Hy|Hy]; [discriminate|].
  rewrite map_length, combine_length, Hx, Hy. apply Nat.min_id.
Qed.

Lemma vscale_length t (x : list F) : length (vscale K t x) = length x.
Proof. unfold vscale. apply map_length. Qed.

Lemma vsum_length (l : list (list F)) N :
  Forall (fun v => length v = N) l -> l <> [] -> length (asum vzero (vadd K) l) = N.
Proof.
  intros H. induction H as [|v l Hv Hl IH]; intros Hne; [congruence|]. cbn [asum fold_right].
  apply vadd_length; [exact Hv|]. destruct l as [|v' l']; [left; reflexivity|right].
  apply IH. discriminate.
Qed.

Lemma vsum_mk_length L (f : nat -> list F) N :
  0 < L -> (forall c, c < L -> length (f c) = N) -> length (asum vzero (vadd K) (mk L f)) = N.
Proof.
  intros HL Hf. apply vsum_length; [|now apply mk_nonempty].
  apply (Forall_of_nth _ _ []). rewrite mk_length. intros c Hc. rewrite nth_mk by exact Hc. now apply Hf.
Qed.

Lemma tsum_vec_length sph T L q (f : nat -> list F) N :
  0 < L -> (sph = false -> q < L) -> (forall c, c < L -> length (f c) = N) ->
  length (tsum K vzero (vadd K) (vscale K) sph T L q f) = N.
Proof.
  intros HL Hq Hf. unfold tsum. destruct sph; [|apply Hf; now apply Hq].
  apply vsum_mk_length; [exact HL|]. intros c Hc. rewrite vscale_length. now apply Hf.
Qed.
End VecLen.

Section Shape.
Context {F : Type} (K : Fops F).

(* what the size check of electrostatic_potential (and NumPy's shapes) presuppose of a shell *)
Definition esp_wf_shell (s : shell F) : Prop :=
  0 < nseg s /\ osize s = if s_sph s then num_sph (s_l s) else num_cart (s_l s).
Definition esp_wf_basis (bs : list (shell F)) : Prop := forall s, In s bs -> esp_wf_shell s.

Lemma esp_wf_default (s : shell F) : s_comps s = [] -> s_labels s = [] -> 0 < nseg s -> esp_wf_shell s.
Proof.
  intros Hc Hl Hn. split; [exact Hn|]. unfold osize, nlab, ncomp, labels_of, comps_of. rewrite Hc, Hl.
  destruct (s_sph s).
  - rewrite default_labels_length. unfold num_sph. lia.
  - rewrite default_comps_length. reflexivity.
Qed.

Lemma nfun_shell_odim (s : shell F) : esp_wf_shell s -> nfun_shell s = odim s.
Proof. intros [_ E]. unfold nfun_shell, odim. rewrite E. apply Nat.mul_comm. Qed.

Lemma offs_fold_app (bs : list (shell F)) :
  offs (fun t => odim (nth t bs (dshell K))) (length bs) = fold_right Nat.add 0 (map odim bs).
Proof.
  induction bs as [|s bs IH] using rev_ind; [reflexivity|].
  rewrite app_length. cbn [length]. rewrite Nat.add_1_r. cbn [offs].
  rewrite app_nth2 by lia. rewrite Nat.sub_diag. cbn [nth].
  rewrite (offs_ext _ (fun t => odim (nth t bs (dshell K)))) by (intros k Hk; now rewrite app_nth1).
  rewrite IH, map_app, fold_right_app. cbn [map fold_right].
  generalize (map odim bs). intros l. induction l as [|a l IHl]; cbn [fold_right]; lia.
Qed.

Lemma nfun_is_ototal (bs : list (shell F)) : esp_wf_basis bs -> nfun_basis bs = ototal K bs.
Proof.
  intros W. unfold ototal, ooff, sh_at. rewrite offs_fold_app. unfold nfun_basis. f_equal.
  apply map_ext_in. intros s Hs. apply nfun_shell_odim. now apply W.
Qed.

Lemma esp_wf_seg (bs : list (shell F)) : esp_wf_basis bs -> seg_basis bs.
Proof. intros W s Hs. exact (proj1 (W s Hs)). Qed.

(* ---- the blocks ---- *)
Variable points : list (F * F * F * F).
Notation PCB := (point_charge_block K points).
Notation N := (length points).

Lemma pc_block_shape (sa sb : shell F) : shape4 (nseg sa) (ncomp sa) (nseg sb) (ncomp sb) (PCB sa sb).
Proof.
  unfold point_charge_block, ncomp. cbv zeta. split; [apply mk_length|]. intros ma Hma.
  rewrite nth_mk by exact Hma. split; [apply mk_length|]. intros ia Hia.
  rewrite nth_mk by exact Hia. split; [apply mk_length|]. intros mb Hmb.
  rewrite nth_mk by exact Hmb. apply mk_length.
Qed.

Lemma pc_blocks_shaped b1 b2 : blocks_shaped PCB b1 b2.
Proof. intros sa sb _ _. apply pc_block_shape. Qed.

Lemma pc_block_entry_length (sa sb : shell F) ma ia mb ib :
  ma < nseg sa -> ia < ncomp sa -> mb < nseg sb -> ib < ncomp sb ->
  length (get4 (@vzero F) ma ia mb ib (PCB sa sb)) = N.
Proof.
  intros Hma Hia Hmb Hib. unfold get4, point_charge_block, ncomp in *. cbv zeta.
  rewrite nth_mk by exact Hma. rewrite nth_mk by exact Hia. rewrite nth_mk by exact Hmb.
  rewrite nth_mk by exact Hib. now rewrite !map_length.
Qed.

Lemma Emix_pc_length (a b : shell F) m1 q1 m2 q2 :
  m1 < nseg a -> q1 < osize a -> m2 < nseg b -> q2 < osize b ->
  length (Emix K vzero (vadd K) (vscale K) PCB a b m1 q1 m2 q2) = N.
Proof.
  intros H1 H2 H3 H4. unfold Emix.
  apply tsum_vec_length; [apply ncomp_pos | intros E; unfold osize in H4; now rewrite E in H4 |].
  intros c2 Hc2.
  apply tsum_vec_length; [apply ncomp_pos | intros E; unfold osize in H2; now rewrite E in H2 |].
  intros c1 Hc1. rewrite vscale_length. now apply pc_block_entry_length.
Qed.

Definition arr_shape (n np : nat) (V : list (list (list F))) : Prop :=
  length V = n /\ (forall I, I < n -> length (nth I V []) = n) /\
  forall I J, I < n -> J < n -> length (nth J (nth I V []) []) = np.

Lemma arr_shape_squareb n np V : arr_shape n np V -> squareb n np V = true.
Proof.
  intros (HL & HR & HE). unfold squareb. rewrite andb_true_iff, Nat.eqb_eq. split; [exact HL|].
  apply forallb_forall. intros row Hrow. destruct (In_nth V row [] Hrow) as (I & HI & <-).
  rewrite HL in HI. rewrite andb_true_iff, Nat.eqb_eq. split; [now apply HR|].
  apply forallb_forall. intros v Hv. destruct (In_nth _ v [] Hv) as (J & HJ & <-).
  rewrite HR in HJ by exact HI. apply Nat.eqb_eq. now apply HE.
Qed.

Lemma squareb_arr_shape n np V : squareb n np V = true -> arr_shape n np V.
Proof.
  unfold squareb. rewrite andb_true_iff, Nat.eqb_eq, forallb_forall. intros [HL H].
  assert (Hrow : forall I, I < n -> length (nth I V []) = n /\
             forall J, J < n -> length (nth J (nth I V []) []) = np).
  { intros I HI. specialize (H (nth I V []) ltac:(apply nth_In; lia)).
    rewrite andb_true_iff, Nat.eqb_eq, forallb_forall in H. destruct H as [Hr Hv].
    split; [exact Hr|]. intros J HJ. apply Nat.eqb_eq. apply Hv. apply nth_In. lia. }
  split; [exact HL|]. split.
  - intros I HI. exact (proj1 (Hrow I HI)).
  - intros I J HI HJ. exact (proj2 (Hrow I HI) J HJ).
Qed.

(* ---- no transform ---- *)
Theorem point_charge_integral_shape_none (bs : list (shell F)) :
  esp_wf_basis bs -> arr_shape (nfun_basis bs) N (point_charge_integral K points bs None).
Proof.
  intros W. destruct bs as [|s0 bs0] eqn:Ebs.
  { unfold arr_shape. cbn. split; [reflexivity|]. split; intros; lia. }
  rewrite <- Ebs in *. assert (Hn : 0 < length bs) by (rewrite Ebs; cbn; lia). clear Ebs s0 bs0.
  rewrite (nfun_is_ototal bs W). unfold point_charge_integral.
  destruct (two_symm_mixed_shape K vzero (vadd K) (vscale K) PCB bs (esp_wf_seg bs W) (pc_blocks_shaped bs bs) Hn)
    as [SL SR].
  split; [exact SL|]. split; [exact SR|]. intros I J HI HJ.
  destruct (oidx_surj K bs I HI) as (i & m & q & Hi & Hm & Hq & ->).
  destruct (oidx_surj K bs J HJ) as (j & m' & q' & Hj & Hm' & Hq' & ->).
  change (@nil F) with (@vzero F).
  rewrite (two_symm_mixed_entry K vzero (vadd K) (vscale K) PCB bs (esp_wf_seg bs W) (pc_blocks_shaped bs bs)
             i j m q m' q' Hi Hj Hm Hq Hm' Hq').
  destruct (Nat.leb i j); now apply Emix_pc_length.
Qed.

Theorem point_charge_integral_squareb (bs : list (shell F)) :
  esp_wf_basis bs -> squareb (nfun_basis bs) N (point_charge_integral K points bs None) = true.
Proof. intros W. apply arr_shape_squareb. now apply point_charge_integral_shape_none. Qed.

(* ---- with a transform: S rows, one column per contraction ---- *)
Theorem point_charge_integral_shape_T (bs : list (shell F)) (t : list (list F)) S :
  esp_wf_basis bs -> bs <> [] -> mat_shape S (nfun_basis bs) t ->
  arr_shape S N (point_charge_integral K points bs (Some t)).
Proof.
  intros W Hne Ht. set (n := nfun_basis bs) in *.
  pose proof (point_charge_integral_shape_none bs W) as (ML & MR & ME). fold n in ML, MR, ME.
  set (M := point_charge_integral K points bs None) in *.
  assert (Hn : 0 < n).
  { unfold n. rewrite (nfun_is_ototal bs W). destruct bs as [|s0 r]; [congruence|].
    pose proof (oidx_lt K (s0 :: r) 0 0 0 ltac:(cbn; lia)) as H.
    pose proof (proj1 (W s0 (or_introl eq_refl))). pose proof (osize_pos s0).
    specialize (H ltac:(assumption) ltac:(assumption)). lia. }
  assert (HM : mat_shape n n M).
  { split; [exact ML|]. apply (Forall_of_nth _ _ []). rewrite ML. exact MR. }
  change (point_charge_integral K points bs (Some t)) with (lincomb2 vzero (vadd K) (vscale K) t t M).
  destruct (lincomb2_shape K vzero (vadd K) (vscale K) t t M n n S S HM Hn Hn Ht Ht) as [LL LR].
  split; [exact LL|]. split.
  - intros I HI. apply (Forall_nth_in _ _ [] I LR). now rewrite LL.
  - intros a b Ha Hb. change (@nil F) with (@vzero F).
    rewrite (AssembledLincombP.lincomb2_entry K vzero (vadd K) (vscale K) t t M n n S S a b HM Hn Hn Ht Ht Ha Hb).
    apply vsum_mk_length; [exact Hn|]. intros l Hl. rewrite vscale_length.
    apply vsum_mk_length; [exact Hn|]. intros k Hk. rewrite vscale_length. now apply ME.
Qed.
End Shape.

(* ---- the transform theorem of electrostatic_potential without the shape hypothesis ---- *)
Section EspFull.
Context {F : Type} (K : Fops F) (Kf : is_field K).

Theorem esp_transform_is_backtransformed_full basis P points ncoords ncharges T thr v :
  esp_wf_basis basis ->
  esp K basis P points ncoords ncharges (Some T) thr = Some v ->
  v = esp_values K (point_charge_integral K (unit_neg_points K points) basis None)
        (backtransform K T P (nfun_basis basis)) points (combine ncoords ncharges) thr
  /\ ((forall x y, feqb K x y = true <-> x = y) ->
      esp K basis (backtransform K T P (nfun_basis basis)) points ncoords ncharges None thr = Some v).
Proof.
  intros W E. apply (esp_transform_is_backtransformed K Kf); [|exact E].
  replace (length points) with (length (unit_neg_points K points))
    by (unfold unit_neg_points; apply map_length).
  now apply point_charge_integral_squareb.
Qed.
End EspFull.

(* ---- the hypotheses are satisfiable ---- *)
Lemma esp_wf_example {F} (K : Fops F) (x y : F) :
  esp_wf_basis [mkShell F 0 x x x [y] [[y]] false [] [];
                mkShell F 1 y x y [x; y] [[x; y]; [y; x]] true [] []].
Proof.
  intros s [<-|[<-|[]]]; (apply esp_wf_default; [reflexivity|reflexivity|cbn; lia]).
Qed.

(* a call with a rectangular transform (2 rows, 4 contractions: an s shell and a Cartesian p shell) that the
   model accepts, over Qc with stand-in oracles: the hypotheses of [esp_transform_is_backtransformed_full]
   hold together *)
From Coq Require Import QArith Qcanon.
Definition exK : Fops Qc := QcK true (Q2Qc 3) (fun x => x) (fun x => x) (fun x => x) (fun _ x => x).
Definition ex_basis : list (shell Qc) :=
  [mkShell Qc 0 (Q2Qc 0) (Q2Qc 0) (Q2Qc 0) [Q2Qc 1] [[Q2Qc 1]] false [] [];
   mkShell Qc 1 (Q2Qc 1) (Q2Qc 0) (Q2Qc 0) [Q2Qc 2] [[Q2Qc 1]] false [] []].
Definition ex_T : list (list Qc) :=
  [[Q2Qc 1; Q2Qc 0; Q2Qc 2; Q2Qc 0]; [Q2Qc 0; Q2Qc 1; Q2Qc 0; Q2Qc (-1)]].
Definition ex_P : list (list Qc) := [[Q2Qc 1; Q2Qc 2]; [Q2Qc 2; Q2Qc 3]].
Definition ex_points : list (Qc * Qc * Qc) := [(Q2Qc 0, Q2Qc 1, Q2Qc 0); (Q2Qc 2, Q2Qc 0, Q2Qc 1)].

Lemma esp_full_example :
  esp_wf_basis ex_basis /\
  exists v, esp exK ex_basis ex_P ex_points [(Q2Qc 0, Q2Qc 0, Q2Qc 0)] [Q2Qc 1] (Some ex_T) (Q2Qc 0) = Some v.
Proof.
  split.
  - intros s [<-|[<-|[]]]; (apply esp_wf_default; [reflexivity|reflexivity|cbn; lia]).
  - eexists. vm_compute. reflexivity.
Qed.
