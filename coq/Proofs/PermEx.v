(* Proofs/PermEx.v — concrete instances for the theorems of Proofs/PermP.v: the hypotheses
   (block shapes, block symmetry, eight-fold symmetry) are satisfiable on non-trivial data
   (three shells of different sizes, Cartesian and spherical, several segments) and the
   conclusions hold there by evaluation.  The instance of the number interface is the ring of
   integers with constant stand-ins for division / square root (the permutation theorems
   assume nothing about the numbers), so that everything reduces by vm_compute. *)
From Coq Require Import List Arith Lia Bool ZArith Permutation.
From GB Require Import Base.Field Base.Tables Base.Blocks Model.Shell Model.Spherical Model.Assembly
  Model.Assembly14 Model.Overlap Model.OneBody Proofs.PermP.
Import ListNotations.

Definition ZK : Fops Z :=
  mkFops Z 0%Z 1%Z Z.add Z.mul Z.sub Z.opp (fun _ _ => 2%Z) (fun _ => 1%Z) Z.leb Z.eqb 3%Z
         (fun _ => 1%Z) (fun _ => 1%Z) (fun _ => 0%Z) (fun _ _ => 1%Z) (fun x => x).

Ltac cases3 i Hi := destruct i as [|[|[|i]]]; [ | | | exfalso; cbn in Hi; lia ].

(* ---- blocks: three shells with 1, 2 and 3 functions, new order (2, 0, 1) ---- *)
Definition r3 (i : nat) : nat := match i with 0 => 1 | 1 => 2 | _ => 3 end.
Definition p3 : list nat := [2; 0; 1].
(* a symmetric "integral" g(x, y) of two global function indices *)
Definition g2 (x y : nat) : nat := (x + 1) * (y + 1) + 10 * (x + y).
Definition g2z (x y : nat) : Z := ((Z.of_nat x + 1) * (Z.of_nat y + 1) + 10 * (Z.of_nat x + Z.of_nat y))%Z.
Definition Bex (i j : nat) : list (list nat) :=
  mk (r3 i) (fun a => mk (r3 j) (fun b => g2 (off r3 i + a) (off r3 j + b))).
(* an ASYMMETRIC block function for the asymmetric class *)
Definition Bas (i j : nat) : list (list nat) :=
  mk (r3 i) (fun a => mk (r3 j) (fun b => 100 * (off r3 i + a) + (off r3 j + b))).

Lemma ex_iperm : iperm r3 p3 = [3; 4; 5; 0; 1; 2] /\ Permutation p3 (seq 0 3).
Proof. split; [reflexivity|]. unfold p3. cbn [seq].
  apply (Permutation_cons_app [0; 1] [] 2). cbn. apply Permutation_refl. Qed.

Lemma ex_shape_sym : shape2 3 3 r3 r3 Bex /\ bsym 0 3 Bex.
Proof.
  split.
  - intros i j Hi Hj. cases3 i Hi; cases3 j Hj; (split; [reflexivity|vm_compute; repeat constructor]).
  - intros i j Hi Hj. cases3 i Hi; cases3 j Hj; vm_compute; reflexivity.
Qed.

Lemma ex_symm_blocks_perm :
  two_symm_blocks 0 (length p3) (fun k l => Bex (nth k p3 0) (nth l p3 0))
  = sel2 0 (iperm r3 p3) (iperm r3 p3) (two_symm_blocks 0 3 Bex)
  /\ two_symm_blocks 0 (length p3) (fun k l => Bex (nth k p3 0) (nth l p3 0)) <> two_symm_blocks 0 3 Bex.
Proof. split; [vm_compute; reflexivity|vm_compute; discriminate]. Qed.

Lemma ex_blocks_perm :
  shape2 3 3 r3 r3 Bas /\
  two_asymm_blocks 3 2 (fun k l => Bas (nth k p3 0) (nth l [1; 2] 0))
  = sel2 0 (iperm r3 p3) (iperm r3 [1; 2]) (two_asymm_blocks 3 3 Bas).
Proof.
  split; [|vm_compute; reflexivity].
  intros i j Hi Hj. cases3 i Hi; cases3 j Hj; (split; [reflexivity|vm_compute; repeat constructor]).
Qed.

(* Hermitian class: antisymmetric real part, aconj = negation *)
Definition Bh (i j : nat) : list (list Z) :=
  mk (r3 i) (fun a => mk (r3 j) (fun b =>
    (Z.of_nat (off r3 i + a) * Z.of_nat (off r3 i + a) - Z.of_nat (off r3 j + b) * Z.of_nat (off r3 j + b))%Z)).
Lemma ex_herm : shape2 3 3 r3 r3 Bh /\ bsym_h 0%Z Z.opp 3 Bh /\
  two_symm_blocks_h 0%Z Z.opp (length p3) (fun k l => Bh (nth k p3 0) (nth l p3 0))
  = sel2 0%Z (iperm r3 p3) (iperm r3 p3) (two_symm_blocks_h 0%Z Z.opp 3 Bh).
Proof.
  split; [|split].
  - intros i j Hi Hj. cases3 i Hi; cases3 j Hj; (split; [reflexivity|vm_compute; repeat constructor]).
  - intros i j Hi Hj. cases3 i Hi; cases3 j Hj; vm_compute; reflexivity.
  - vm_compute. reflexivity.
Qed.

(* symmetric_output: the mirrored assembly of an ASYMMETRIC block function is still symmetric
   across shells - the copy hides the asymmetry (entry (0,1) of the block matrix is Bas 0 1,
   entry (1,0) is its copy, not Bas 1 0) *)
Lemma ex_copy_hides_asymmetry :
  ent 0 (two_symm_blocks_t 0 3 Bas) 0 2 = ent 0 (two_symm_blocks_t 0 3 Bas) 2 0 /\
  ent 0 (Bas 0 1) 0 1 <> ent 0 (Bas 1 0) 1 0.
Proof. split; [vm_compute; reflexivity|vm_compute; discriminate]. Qed.

(* ---- one index ---- *)
Definition sh_a : @sh Z := mkSh false [] [[2%Z]].                                  (* 1 function *)
Definition sh_b : @sh Z := mkSh false [] [[1%Z; 2%Z; 3%Z]; [1%Z; 1%Z; 1%Z]].        (* M=2, L=3: 6 *)
Definition sh_c : @sh Z := mkSh true [[1%Z; 0%Z; 1%Z]; [0%Z; 2%Z; (-1)%Z]] [[1%Z; 1%Z; 2%Z]].  (* sph 2x3 *)
Definition l1 : list (@sh Z * list (list Z)) :=
  [ (sh_a, [[5%Z]]); (sh_b, [[1%Z; 2%Z; 3%Z]; [4%Z; 5%Z; 6%Z]]); (sh_c, [[7%Z; 8%Z; 9%Z]]) ].
Lemma ex_one_mix_perm :
  one_mix 0%Z Z.add Z.mul (sel (sh_a, []) p3 l1)
  = sel1 0%Z (iperm (fun k => length (one_piece 0%Z Z.add Z.mul (nth k l1 (sh_a, [])))) p3)
         (one_mix 0%Z Z.add Z.mul l1)
  /\ one_mix 0%Z Z.add Z.mul (sel (sh_a, []) p3 l1) = [25; (-2); 10; 1; 4; 9; 4; 5; 6]%Z.
Proof. split; vm_compute; reflexivity. Qed.

(* ---- two indices, Assembly14 (labels), mixed types, M > 1 ---- *)
Definition ss3 : list (@sh Z) := [sh_a; sh_b; sh_c].
Definition nM (i : nat) : nat := match i with 1 => 2 | _ => 1 end.
Definition nL (i : nat) : nat := match i with 0 => 1 | _ => 3 end.
(* raw blocks [m1][c1][m2][c2], symmetric under exchange of the two shells *)
Definition raw2 (i j : nat) : list (list (list (list Z))) :=
  mk (nM i) (fun m1 => mk (nL i) (fun c1 => mk (nM j) (fun m2 => mk (nL j) (fun c2 =>
    g2z (100 * i + 10 * m1 + c1) (100 * j + 10 * m2 + c2))))).
Definition w14 (i : nat) : nat := match i with 0 => 1 | 1 => 6 | _ => 2 end.
Lemma ex_two_symm_n :
  shape2 3 3 w14 w14 (B14 0%Z Z.add Z.mul 2 ss3 ss3 raw2) /\ bsym 0%Z 3 (B14 0%Z Z.add Z.mul 2 ss3 ss3 raw2) /\
  two_symm_n 0%Z Z.add Z.mul 2 (sel (mkSh false [] []) p3 ss3) (fun k l => raw2 (nth k p3 0) (nth l p3 0))
  = sel2 0%Z (iperm w14 p3) (iperm w14 p3) (two_symm_n 0%Z Z.add Z.mul 2 ss3 raw2).
Proof.
  split; [|split].
  - intros i j Hi Hj. cases3 i Hi; cases3 j Hj; (split; [reflexivity|vm_compute; repeat constructor]).
  - intros i j Hi Hj. cases3 i Hi; cases3 j Hj; vm_compute; reflexivity.
  - vm_compute. reflexivity.
Qed.

(* ---- the whole-basis model Overlap.two_symm_integral with shells s, p (2 segments), d (spherical) ---- *)
Definition shl (l : nat) (nseg : nat) (sph : bool) : shell Z :=
  mkShell Z l 0%Z 1%Z 2%Z [1%Z; 2%Z] [repeat 1%Z nseg; repeat 2%Z nseg] sph [] [].
Definition basis3 : list (shell Z) := [shl 0 1 false; shl 1 2 false; shl 2 1 true].
Definition blockf_ex (s1 s2 : shell Z) : list (list (list (list Z))) :=
  mk (nseg s1) (fun m1 => mk (length (comps_of s1)) (fun c1 =>
  mk (nseg s2) (fun m2 => mk (length (comps_of s2)) (fun c2 =>
    g2z (100 * s_l s1 + 10 * m1 + c1) (100 * s_l s2 + 10 * m2 + c2))))).
Definition wb (i : nat) : nat := match i with 0 => 1 | 1 => 6 | _ => 5 end.
Lemma ex_two_symm_integral :
  shape2 3 3 wb wb (Bfun ZK 0%Z Z.add Z.mul blockf_ex basis3 basis3 (shl 0 1 false)) /\
  bsym 0%Z 3 (Bfun ZK 0%Z Z.add Z.mul blockf_ex basis3 basis3 (shl 0 1 false)) /\
  two_symm_integral ZK 0%Z Z.add Z.mul blockf_ex (sel (shl 0 1 false) p3 basis3) None
  = sel2 0%Z (iperm wb p3) (iperm wb p3) (two_symm_integral ZK 0%Z Z.add Z.mul blockf_ex basis3 None).
Proof.
  split; [|split].
  - intros i j Hi Hj. cases3 i Hi; cases3 j Hj; (split; [vm_compute; reflexivity|vm_compute; repeat constructor]).
  - intros i j Hi Hj. cases3 i Hi; cases3 j Hj; vm_compute; reflexivity.
  - vm_compute. reflexivity.
Qed.

(* ---- four indices (Assembly14.four_symm): shells with 1, 2 (two segments) and 2 (spherical, from 3
   Cartesian components) functions ---- *)
Definition sh_b2 : @sh Z := mkSh false [] [[1%Z]; [3%Z]].
Definition ss4 : list (@sh Z) := [sh_a; sh_b2; sh_c].
Definition nL4 (i : nat) : nat := match i with 2 => 3 | _ => 1 end.
Definition w4 (i : nat) : nat := match i with 0 => 1 | _ => 2 end.
Definition v4 (a b c d : nat) : Z := (g2z a b * g2z c d + g2z a b + g2z c d)%Z.
Definition raw4 (i j k l : nat) : list (list (list (list (list (list (list (list Z))))))) :=
  mk (nM i) (fun m1 => mk (nL4 i) (fun c1 => mk (nM j) (fun m2 => mk (nL4 j) (fun c2 =>
  mk (nM k) (fun m3 => mk (nL4 k) (fun c3 => mk (nM l) (fun m4 => mk (nL4 l) (fun c4 =>
    v4 (100 * i + 10 * m1 + c1) (100 * j + 10 * m2 + c2)
       (100 * k + 10 * m3 + c3) (100 * l + 10 * m4 + c4))))))))).
Definition sel4 (ip : list nat) (m : list (list (list (list Z)))) : list (list (list (list Z))) :=
  map (fun x1 => map (fun x2 => map (fun x3 => map (fun x4 => get4 0%Z m x1 x2 x3 x4) ip) ip) ip) ip.


Lemma ex_shape4 : shape4 3 w4 (B4f 0%Z Z.add Z.mul 2 ss4 raw4).
Proof.
  intros i j k l Hi Hj Hk Hl. cases3 i Hi; cases3 j Hj; cases3 k Hk; cases3 l Hl;
    (split; [vm_compute; reflexivity|vm_compute; repeat constructor]).
Qed.
Lemma ex_sym8 : sym8 0%Z 3 (B4f 0%Z Z.add Z.mul 2 ss4 raw4).
Proof.
  intros i j k l Hi Hj Hk Hl. cases3 i Hi; cases3 j Hj; cases3 k Hk; cases3 l Hl;
    vm_compute; repeat split; reflexivity.
Qed.
Lemma ex_four_symm_perm :
  four_symm 0%Z Z.add Z.mul 2 (sel (mkSh false [] []) p3 ss4)
    (fun a b c d => raw4 (nth a p3 0) (nth b p3 0) (nth c p3 0) (nth d p3 0))
  = sel4 (iperm w4 p3) (four_symm 0%Z Z.add Z.mul 2 ss4 raw4)
  /\ iperm w4 p3 = [3; 4; 0; 1; 2].
Proof. split; vm_compute; reflexivity. Qed.

(* the hypotheses of the orientation theorems (a field; alpha + beta <> 0; 2 <> 0) hold at the
   executable rational instance *)
From Coq Require Import QArith Qcanon.
From GB Require Import Model.MomentInt.
Definition QK : Fops Qc := QcK true (Q2Qc 3) (fun x => x) (fun x => x) (fun x => x) (fun _ x => x).
Lemma ex_orient_hyps :
  is_field QK /\ psum QK (f1 QK) (fadd QK (f1 QK) (f1 QK)) <> f0 QK /\ fadd QK (f1 QK) (f1 QK) <> f0 QK.
Proof.
  split; [apply QcK_field|]. split; intro H; apply (f_equal (fun q : Qc => Qnum (this q))) in H;
    vm_compute in H; discriminate.
Qed.
