(* Proofs/RotationEvalP.v — GENERAL ROTATIONS (proper and improper) for the EVALUATIONS (property C12).

   The evaluation model (Model/Eval.v, general back-end) returns for a Cartesian primitive of a shell centred at A
        (r - A)^a exp(-alpha |r - A|^2)                                          ([gauss_prim]),
   and for the derivative order o the polynomial u(alpha, a, o) times the same Gaussian ([gauss_prim_deriv],
   the very expression inside SameFunP.raw_entry / SameFunP.term_val).

     eval_prim_rotation_covariant :  for every orthogonal R
        sum_{a'} D(R)[a,a'] * (value of component a' of the shell centred at R A, at the point R r)
          = value of component a of the shell centred at A, at r
        with D(R)[a,a'] the entries of [rot_expand R a] = (R^T u)^a multiplied out (Proofs/RotationP.v).  Proof:
        R r - R A = R (r - A); |R d|^2 = |d|^2, so the ARGUMENT of exp is the same term (no property of exp is used);
        [rot_expand_eval] and R^T R d = d.
     eval_prim_gradient_rotation_covariant :  the three first derivatives rotate as a vector,
        sum_{a'} D(R)[a,a'] (d_i g'_{a'})(R r) = sum_k R[i][k] (d_k g_a)(r);
        the polynomial part of d_k is  dv k - 2 alpha y_k  and  d_i (f o Q) = sum_j Q j i ((d_j f) o Q)
        (Poly3.dv_subst_mon).
     eval_block_rotation_law / eval_block_gradient_rotation_law :  lifted through the contraction and the
        normalisation constants to every entry of [eval_block] (EvalDeriv.construct_array_contraction, general
        back-end), Cartesian shells of any l in the default component order, any number of primitives and segments,
        any list of points:
           dfnorm(j) E[m, j, p] = sum_i rep_mat[i, j] dfnorm(i) E'[m, i, p]
        E = eval_block s pts, E' = eval_block (rot_shell R s) (map (mapply R) pts).
     eval_spec_rotation_law : the same for [SameFunP.eval_spec] of the Cartesian descriptors with the contraction
        norm [ncf] divided out (that is: for the weights coefficient * norm_prim).
   Any field; hypotheses: R orthogonal; for the block laws fapx = id and dfnorm <> 0 (as in RotationBlockP). *)
From Coq Require Import List Arith Lia Field Bool.
From GB Require Import Base.Field Base.FNum Base.Tables Gauss.Moment1D Gauss.Poly3 Model.Shell Model.MomentInt
  Model.Overlap Model.Eval Proofs.CoreSumP Proofs.CoreBlockP Proofs.EvalP Proofs.SameFunP Proofs.RigidP
  Proofs.RotationP Proofs.RotationBlockP.
Import ListNotations.

Section RotEval.
Context {F : Type} (K : Fops F) (Kf : is_field K).
Add Field KFrev : Kf.
Local Open Scope F_scope.
Notation "0" := (f0 K) : F_scope.
Notation "1" := (f1 K) : F_scope.
Infix "+" := (fadd K) : F_scope.
Infix "*" := (fmul K) : F_scope.
Infix "-" := (fsub K) : F_scope.
Infix "/" := (fdiv K) : F_scope.
Notation "- x" := (fopp K x) : F_scope.
Notation "# n" := (ofnat K n) (at level 5) : F_scope.
Notation fpow := (FNum.fpow K).
Notation fsum := (FNum.fsum K).

(* ------------------------------------------------------------------ *)
(* 1. vectors                                                           *)
Definition vsub (r A : @vec3 F) : @vec3 F :=
  (fst (fst r) - fst (fst A), snd (fst r) - snd (fst A), snd r - snd A).
Definition nrm2 (d : @vec3 F) : F :=
  fst (fst d) * fst (fst d) + snd (fst d) * snd (fst d) + snd d * snd d.

Lemma mapply_vsub R r A : vsub (mapply K R r) (mapply K R A) = mapply K R (vsub r A).
Proof.
  destruct r as [[r0 r1] r2], A as [[a0 a1] a2]. unfold vsub, mapply, dot3. cbn [fst snd].
  f_equal; [f_equal|]; ring.
Qed.

Ltac orth_cols R HO :=
  destruct R as [[[[a00 a01] a02] [[a10 a11] a12]] [[a20 a21] a22]];
  pose proof (proj2 (HO 0%nat 0%nat ltac:(lia) ltac:(lia))) as H00;
  pose proof (proj2 (HO 0%nat 1%nat ltac:(lia) ltac:(lia))) as H01;
  pose proof (proj2 (HO 0%nat 2%nat ltac:(lia) ltac:(lia))) as H02;
  pose proof (proj2 (HO 1%nat 0%nat ltac:(lia) ltac:(lia))) as H10;
  pose proof (proj2 (HO 1%nat 1%nat ltac:(lia) ltac:(lia))) as H11;
  pose proof (proj2 (HO 1%nat 2%nat ltac:(lia) ltac:(lia))) as H12;
  pose proof (proj2 (HO 2%nat 0%nat ltac:(lia) ltac:(lia))) as H20;
  pose proof (proj2 (HO 2%nat 1%nat ltac:(lia) ltac:(lia))) as H21;
  pose proof (proj2 (HO 2%nat 2%nat ltac:(lia) ltac:(lia))) as H22;
  unfold mapply_t, mapply, dot3, mcol, mrow, vget, delta in *; cbn [fst snd Nat.eqb] in *.

(* R^T (R d) = d *)
Lemma mapply_t_mapply R d : orthogonal K R -> mapply_t K R (mapply K R d) = d.
Proof.
  intros HO. destruct d as [[d0 d1] d2]. orth_cols R HO.
  f_equal; [f_equal|].
  - transitivity ((a00 * a00 + a10 * a10 + a20 * a20) * d0 + (a00 * a01 + a10 * a11 + a20 * a21) * d1
                  + (a00 * a02 + a10 * a12 + a20 * a22) * d2); [ring|]. rewrite H00, H01, H02. ring.
  - transitivity ((a01 * a00 + a11 * a10 + a21 * a20) * d0 + (a01 * a01 + a11 * a11 + a21 * a21) * d1
                  + (a01 * a02 + a11 * a12 + a21 * a22) * d2); [ring|]. rewrite H10, H11, H12. ring.
  - transitivity ((a02 * a00 + a12 * a10 + a22 * a20) * d0 + (a02 * a01 + a12 * a11 + a22 * a21) * d1
                  + (a02 * a02 + a12 * a12 + a22 * a22) * d2); [ring|]. rewrite H20, H21, H22. ring.
Qed.

(* |R d|^2 = |d|^2 *)
Lemma nrm2_mapply R d : orthogonal K R -> nrm2 (mapply K R d) = nrm2 d.
Proof.
  intros HO. destruct d as [[d0 d1] d2]. unfold nrm2. orth_cols R HO.
  transitivity ((a00 * a00 + a10 * a10 + a20 * a20) * (d0 * d0) + (a00 * a01 + a10 * a11 + a20 * a21) * (d0 * d1)
                + (a00 * a02 + a10 * a12 + a20 * a22) * (d0 * d2)
                + (a01 * a00 + a11 * a10 + a21 * a20) * (d1 * d0) + (a01 * a01 + a11 * a11 + a21 * a21) * (d1 * d1)
                + (a01 * a02 + a11 * a12 + a21 * a22) * (d1 * d2)
                + (a02 * a00 + a12 * a10 + a22 * a20) * (d2 * d0) + (a02 * a01 + a12 * a11 + a22 * a21) * (d2 * d1)
                + (a02 * a02 + a12 * a12 + a22 * a22) * (d2 * d2)); [ring|].
  rewrite H00, H01, H02, H10, H11, H12, H20, H21, H22. ring.
Qed.

(* ------------------------------------------------------------------ *)
(* 2. the primitive and its derivatives, as the evaluation model computes them *)
(* (r - A)^c exp(-alpha |r - A|^2) *)
Definition gauss_prim (A : @vec3 F) (alpha : F) (c : comp) (r : @vec3 F) : F :=
  monomial K (vsub r A) c * fexp K (- (alpha * nrm2 (vsub r A))).
(* derivative of order o: the polynomials [u] of Model/Eval.v (C05: [general_correct]) times the same Gaussian *)
Definition gauss_prim_deriv (o : comp) (A : @vec3 F) (alpha : F) (c : comp) (r : @vec3 F) : F :=
  let d := vsub r A in
  (u K alpha (fst (fst c)) (fst (fst o)) (fst (fst d)) * u K alpha (snd (fst c)) (snd (fst o)) (snd (fst d))
   * u K alpha (snd c) (snd o) (snd d))
  * fexp K (- (alpha * nrm2 d)).
Definition eax (k : axis) : comp :=
  match k with AX => (1, 0, 0)%nat | AY => (0, 1, 0)%nat | AZ => (0, 0, 1)%nat end.

Lemma gauss_prim_deriv_0 A alpha c r : gauss_prim_deriv (0, 0, 0)%nat A alpha c r = gauss_prim A alpha c r.
Proof. reflexivity. Qed.

(* GENERAL ROTATIONS, value of a primitive *)
Theorem eval_prim_rotation_covariant R A alpha a r : orthogonal K R ->
  Jsum K (fun a' => gauss_prim (mapply K R A) alpha a' (mapply K R r)) (rot_expand K R a)
  = gauss_prim A alpha a r.
Proof.
  intros HO. unfold gauss_prim. rewrite mapply_vsub, (nrm2_mapply R _ HO).
  set (e := fexp K (- (alpha * nrm2 (vsub r A)))).
  rewrite (Jsum_ext K _ (fun a' => e * monomial K (mapply K R (vsub r A)) a')) by (intro a'; ring).
  rewrite (Jsum_Jscale K Kf), (rot_expand_eval K Kf), (mapply_t_mapply R _ HO). ring.
Qed.

(* ---- the gradient ---- *)
(* polynomial part of d/dy_k [f(y) exp(-alpha y^2)] *)
Definition grad_poly (alpha : F) (k : axis) (f : poly3 (F:=F)) : poly3 (F:=F) :=
  dv K k f ++ pscale3 K (- ((1 + 1) * alpha)) (mulv k f).
Definition gradT (alpha : F) (k : axis) (J : mon -> F) : mon -> F :=
  fun m => dvT K k J m + (- ((1 + 1) * alpha)) * mulvT k J m.
Lemma Jsum_grad_poly alpha k J f : Jsum K J (grad_poly alpha k f) = Jsum K (gradT alpha k J) f.
Proof.
  unfold grad_poly, gradT. rewrite (Jsum_app K Kf), (Jsum_pscale3 K Kf), (Jsum_dv K Kf), (Jsum_mulv K).
  now rewrite (Jsum_Jadd K Kf), (Jsum_Jscale K Kf).
Qed.

Lemma monoval_ext (d d' : axis -> F) m : (forall i, d i = d' i) -> monoval K d m = monoval K d' m.
Proof. intro H. unfold monoval. now rewrite (H AX), (H AY), (H AZ). Qed.

(* the value of the gradient polynomial of the monomial y^c at d *)
Lemma gradT_monoval alpha k (d : axis -> F) c :
  gradT alpha k (monoval K d) c
  = #(expo k c) * monoval K d (mlower k c) - (1 + 1) * alpha * d k * monoval K d c.
Proof.
  destruct c as [[a b] e]. unfold gradT, dvT, mulvT, monoval.
  destruct k; cbn [expo mlower bump fst snd FNum.fpow]; ring.
Qed.

(* [gauss_prim_deriv] of first order is the gradient polynomial *)
Lemma gauss_prim_deriv_grad k A alpha c r :
  gauss_prim_deriv (eax k) A alpha c r
  = gradT alpha k (monoval K (vecf (vsub r A))) c * fexp K (- (alpha * nrm2 (vsub r A))).
Proof.
  unfold gauss_prim_deriv. cbv zeta. f_equal. rewrite gradT_monoval.
  destruct c as [[a b] e]. set (d := vsub r A). unfold monoval, vecf, vget.
  destruct k; cbn [eax expo mlower fst snd u ax2nat Nat.pred].
  - destruct a as [|a]; cbn [Nat.pred ofnat FNum.fpow]; ring.
  - destruct b as [|b]; cbn [Nat.pred ofnat FNum.fpow]; ring.
  - destruct e as [|e]; cbn [Nat.pred ofnat FNum.fpow]; ring.
Qed.

(* values of (Q u)^m' at u = R d for Q = R^T: d^m' *)
Lemma monoval_rot_back R d m : orthogonal K R ->
  Jsum K (monoval K (vecf (mapply K R d))) (subst_mon K (transpose (matf R)) m) = monoval K (vecf d) m.
Proof.
  intros HO. pose proof (peval_subst_mon K Kf (vecf (mapply K R d)) (transpose (matf R)) m) as H.
  unfold peval in H. rewrite H. apply monoval_ext. intro i.
  pose proof (mapply_t_mapply R d HO) as E.
  destruct d as [[d0 d1] d2]. destruct R as [[[[a00 a01] a02] [[a10 a11] a12]] [[a20 a21] a22]].
  unfold mapply_t, mapply, dot3, mcol, mrow, vget in E. cbn [fst snd] in E.
  injection E as E0 E1 E2.
  unfold dot, sum3, transpose, matf, vecf, mapply, dot3, mrow, vget.
  destruct i; cbn [ax2nat fst snd]; (etransitivity; [|first [exact E0|exact E1|exact E2]]); ring.
Qed.

Lemma vecf_mapply R d i : vecf (mapply K R d) i = sum3 K (fun k => matf R i k * vecf d k).
Proof.
  destruct d as [[d0 d1] d2]. destruct R as [[[[a00 a01] a02] [[a10 a11] a12]] [[a20 a21] a22]].
  unfold sum3, matf, vecf, mapply, dot3, mrow, vget. destruct i; cbn [ax2nat fst snd]; ring.
Qed.

(* GENERAL ROTATIONS, gradient of a primitive: the first derivatives rotate as a vector *)
Theorem eval_prim_gradient_rotation_covariant R A alpha a r i : orthogonal K R ->
  Jsum K (fun a' => gauss_prim_deriv (eax i) (mapply K R A) alpha a' (mapply K R r)) (rot_expand K R a)
  = sum3 K (fun k => matf R i k * gauss_prim_deriv (eax k) A alpha a r).
Proof.
  intros HO.
  rewrite (Jsum_ext K _ (fun a' => fexp K (- (alpha * nrm2 (vsub r A)))
             * gradT alpha i (monoval K (vecf (mapply K R (vsub r A)))) a')).
  2:{ intro a'. rewrite gauss_prim_deriv_grad, mapply_vsub, (nrm2_mapply R _ HO). ring. }
  rewrite (Jsum_Jscale K Kf). unfold sum3. rewrite !gauss_prim_deriv_grad.
  set (e := fexp K (- (alpha * nrm2 (vsub r A)))). set (d := vsub r A).
  rewrite <- Jsum_grad_poly. unfold grad_poly.
  rewrite (Jsum_app K Kf), (Jsum_pscale3 K Kf). unfold rot_expand.
  rewrite (dv_subst_mon K Kf), (Jsum_mulv K).
  rewrite (Jsum_ext K (mulvT i (monoval K (vecf (mapply K R d))))
             (fun m => vecf (mapply K R d) i * monoval K (vecf (mapply K R d)) m)).
  2:{ intros [[x y] z]. unfold mulvT, monoval. destruct i; cbn [bump fst snd FNum.fpow]; ring. }
  rewrite (Jsum_Jscale K Kf). unfold sum3. rewrite !(monoval_rot_back R d _ HO), vecf_mapply.
  rewrite !gradT_monoval. unfold sum3, transpose. ring.
Qed.

(* ------------------------------------------------------------------ *)
(* 3. lifting through contraction and normalisation                    *)
Hypothesis Hapx : forall x : F, fapx K x = x.
Hypothesis Hdf : forall c, dfnorm K c <> 0.

Definition gnorm1 (l : nat) (alpha : F) : F :=
  pow34 K ((1 + 1) * alpha / fpi K) * fsqrt K (fpow ((1 + 1 + 1 + 1) * alpha) l).
Lemma dfnorm_norm_prim1 l c alpha : dfnorm K c * norm_prim K l c alpha = gnorm1 l alpha.
Proof.
  destruct c as [[ax ay] az]. pose proof (Hdf (ax, ay, az)) as Hc.
  unfold norm_prim, dfnorm, gnorm1 in *. cbn [fst snd] in *. rewrite Hapx. field. exact Hc.
Qed.

Lemma fsum_scale_l {A} c (f : A -> F) (L : list A) : c * fsum (map f L) = fsum (map (fun x => c * f x) L).
Proof. induction L as [|x L IH]; cbn [map FNum.fsum fold_right]; [ring|].
  fold (fsum (map f L)) (fsum (map (fun x => c * f x) L)). rewrite <- IH. ring. Qed.
Lemma fsum_ext_in' {A} (f g : A -> F) L : (forall x, In x L -> f x = g x) -> fsum (map f L) = fsum (map g L).
Proof. intro H. f_equal. now apply map_ext_in. Qed.
Lemma fsum_swap' {A B} (g : A -> B -> F) la lb :
  fsum (map (fun a => fsum (map (fun b => g a b) lb)) la)
  = fsum (map (fun b => fsum (map (fun a => g a b) la)) lb).
Proof. apply (fsum_swap K Kf). Qed.

(* a contracted, normalised one-index quantity: sum_k coeff[k][m] * norm_prim(l, c, alpha_k) * P c alpha_k *)
Definition contracted1 (l m : nat) (L : list (F * list F)) (c : comp) (P : comp -> F -> F) : F :=
  fsum (map (fun ae => nth m (snd ae) 0 * (norm_prim K l c (fst ae) * P c (fst ae))) L).

Lemma contracted1_law (M : comp -> comp -> F) (comps : list comp) l m L j (P P' : comp -> F -> F) :
  (forall ae, In ae L -> fsum (map (fun i => M i j * P' i (fst ae)) comps) = P j (fst ae)) ->
  dfnorm K j * contracted1 l m L j P
  = fsum (map (fun i => M i j * dfnorm K i * contracted1 l m L i P') comps).
Proof.
  intros H. unfold contracted1.
  transitivity (fsum (map (fun ae => fsum (map (fun i =>
     nth m (snd ae) 0 * gnorm1 l (fst ae) * (M i j * P' i (fst ae))) comps)) L)).
  - rewrite fsum_scale_l. apply fsum_ext_in'. intros ae Hae.
    rewrite <- fsum_scale_l, (H ae Hae), <- (dfnorm_norm_prim1 l j). ring.
  - rewrite fsum_swap'. apply fsum_ext_in'. intros i _. rewrite fsum_scale_l.
    apply fsum_ext_in'. intros ae _. rewrite <- (dfnorm_norm_prim1 l i). ring.
Qed.

(* linearity in P *)
Lemma contracted1_sum3 l m L c (w : axis -> F) (P : axis -> comp -> F -> F) :
  contracted1 l m L c (fun c a => sum3 K (fun k => w k * P k c a))
  = sum3 K (fun k => w k * contracted1 l m L c (P k)).
Proof.
  unfold contracted1, sum3. rewrite !fsum_scale_l, <- !(fsum_add K Kf).
  apply fsum_ext_in'. intros ae _. ring.
Qed.

(* the un-normalised entry of the evaluation block (SameFunP.raw_entry) as such a quantity *)
Lemma raw_entry_contracted1 o (s : shell F) m ic (p : point (F:=F)) :
  raw_entry K o s m ic p
  = contracted1 (s_l s) m (combine (s_exps s) (s_coeffs s)) (compi s ic)
      (fun c alpha => gauss_prim_deriv o (s_x s, s_y s, s_z s) alpha c p).
Proof.
  unfold raw_entry, contracted1. apply fsum_ext_in'. intros [alpha crow] _.
  unfold gauss_prim_deriv, vsub, nrm2, SameFunP.cx, SameFunP.cy, SameFunP.cz. cbn [fst snd]. ring.
Qed.

Lemma eval_block_entry (s : shell F) pts o blk m j p :
  s_comps s = [] -> eval_block K s pts o General = Some blk ->
  (m < nseg s)%nat -> (j < length (default_comps (s_l s)))%nat -> (p < length pts)%nat ->
  nth p (nth j (nth m blk []) []) 0 = raw_entry K o s m j (nth p pts (0, 0, 0)).
Proof.
  intros Hc Hb Hm Hj Hp. unfold eval_block in Hb. cbn [accepts mode_of] in Hb. injection Hb as <-.
  rewrite (block_general_mk K Kf o pts s (default_comps_ok s Hc)).
  assert (Hn : ncomp s = length (default_comps (s_l s))) by (unfold ncomp, comps_of; now rewrite Hc).
  rewrite nth_mk by exact Hm. rewrite nth_mk by (rewrite Hn; exact Hj).
  rewrite (nth_indep _ 0 (raw_entry K o s m j (0, 0, 0))) by (now rewrite map_length).
  apply (map_nth (raw_entry K o s m j)).
Qed.

Section Law.
Variable R : @mat3 F.
Hypothesis HO : orthogonal K R.
Variables (s : shell F) (pts : list (point (F:=F))).
Hypothesis Hc : s_comps s = [].
Let l := s_l s.
Let cmp (i : nat) : comp := nth i (default_comps l) (0, 0, 0)%nat.
Let s' := rot_shell K R s.
Let pts' := map (mapply K R) pts.

Lemma compi_default i : compi s i = cmp i.
Proof. unfold compi, comps_of, cmp, l. now rewrite Hc. Qed.
Lemma compi_default' i : compi s' i = cmp i.
Proof. unfold compi, comps_of, cmp, l, s'. cbn [rot_shell s_comps s_l]. now rewrite Hc. Qed.

Lemma centre_rot : (s_x s', s_y s', s_z s') = mapply K R (s_x s, s_y s, s_z s).
Proof. unfold s'. cbn [rot_shell s_x s_y s_z]. now destruct (mapply K R (s_x s, s_y s, s_z s)) as [[x y] z]. Qed.

Lemma nth_pts' p : (p < length pts)%nat -> nth p pts' (0, 0, 0) = mapply K R (nth p pts (0, 0, 0)).
Proof.
  intro Hp. unfold pts'. rewrite (nth_indep _ (0, 0, 0) (mapply K R (0, 0, 0))) by (now rewrite map_length).
  apply map_nth.
Qed.

(* EVERY ENTRY OF THE EVALUATION BLOCK, function values *)
Theorem eval_block_rotation_law_fixed blk blk' :
  eval_block K s pts (0, 0, 0)%nat General = Some blk ->
  eval_block K s' pts' (0, 0, 0)%nat General = Some blk' ->
  forall m j p, (m < nseg s)%nat -> (j < length (default_comps l))%nat -> (p < length pts)%nat ->
    dfnorm K (cmp j) * nth p (nth j (nth m blk []) []) 0
    = fsum (map (fun i => rep_mat K R (cmp i) (cmp j) * dfnorm K (cmp i) * nth p (nth i (nth m blk' []) []) 0)
                (seq 0 (length (default_comps l)))).
Proof.
  intros Hb Hb' m j p Hm Hj Hp.
  rewrite (eval_block_entry s pts _ blk m j p Hc Hb Hm Hj Hp), raw_entry_contracted1, compi_default.
  rewrite (contracted1_law (rep_mat K R) (default_comps l) _ _ _ (cmp j) _
             (fun c alpha => gauss_prim_deriv (0, 0, 0)%nat (s_x s', s_y s', s_z s') alpha c (nth p pts' (0, 0, 0)))).
  2:{ intros ae _. rewrite centre_rot, (nth_pts' p Hp).
      rewrite <- (Jsum_rot_expand K Kf _ R l (cmp j)) by (apply nth_In; exact Hj).
      apply eval_prim_rotation_covariant, HO. }
  rewrite (map_as_mk _ (default_comps l) (0, 0, 0)%nat). unfold mk. apply fsum_ext_in'. intros i Hi.
  apply in_seq in Hi. fold (cmp i).
  assert (Hp' : (p < length pts')%nat) by (unfold pts'; now rewrite map_length).
  assert (Hi' : (i < length (default_comps (s_l s')))%nat) by (change (i < length (default_comps l))%nat; lia).
  rewrite (eval_block_entry s' pts' _ blk' m i p Hc Hb' Hm Hi' Hp').
  rewrite raw_entry_contracted1, compi_default'. reflexivity.
Qed.

(* EVERY ENTRY OF THE FIRST-DERIVATIVE BLOCKS: the gradient rotates as a vector *)
Theorem eval_block_gradient_rotation_law_fixed (i : axis) (gx gy gz blk' : list (list (list F))) :
  eval_block K s pts (eax AX) General = Some gx -> eval_block K s pts (eax AY) General = Some gy ->
  eval_block K s pts (eax AZ) General = Some gz ->
  eval_block K s' pts' (eax i) General = Some blk' ->
  forall m j p, (m < nseg s)%nat -> (j < length (default_comps l))%nat -> (p < length pts)%nat ->
    dfnorm K (cmp j) * (matf R i AX * nth p (nth j (nth m gx []) []) 0
                        + matf R i AY * nth p (nth j (nth m gy []) []) 0
                        + matf R i AZ * nth p (nth j (nth m gz []) []) 0)
    = fsum (map (fun i' => rep_mat K R (cmp i') (cmp j) * dfnorm K (cmp i') * nth p (nth i' (nth m blk' []) []) 0)
                (seq 0 (length (default_comps l)))).
Proof.
  intros Hx Hy Hz Hb' m j p Hm Hj Hp.
  rewrite (eval_block_entry s pts _ gx m j p Hc Hx Hm Hj Hp), (eval_block_entry s pts _ gy m j p Hc Hy Hm Hj Hp),
    (eval_block_entry s pts _ gz m j p Hc Hz Hm Hj Hp), !raw_entry_contracted1, compi_default.
  set (L := combine (s_exps s) (s_coeffs s)).
  pose proof (contracted1_sum3 l m L (cmp j) (matf R i)
     (fun k c alpha => gauss_prim_deriv (eax k) (s_x s, s_y s, s_z s) alpha c (nth p pts (0, 0, 0)))) as E.
  unfold sum3 in E at 2. fold l. rewrite <- E.
  rewrite (contracted1_law (rep_mat K R) (default_comps l) _ _ _ (cmp j) _
             (fun c alpha => gauss_prim_deriv (eax i) (s_x s', s_y s', s_z s') alpha c (nth p pts' (0, 0, 0)))).
  2:{ intros ae _. rewrite centre_rot, (nth_pts' p Hp).
      rewrite <- (Jsum_rot_expand K Kf _ R l (cmp j)) by (apply nth_In; exact Hj).
      apply eval_prim_gradient_rotation_covariant, HO. }
  rewrite (map_as_mk _ (default_comps l) (0, 0, 0)%nat). unfold mk. apply fsum_ext_in'. intros i' Hi.
  apply in_seq in Hi. fold (cmp i').
  assert (Hp' : (p < length pts')%nat) by (unfold pts'; now rewrite map_length).
  assert (Hi' : (i' < length (default_comps (s_l s')))%nat) by (change (i' < length (default_comps l))%nat; lia).
  rewrite (eval_block_entry s' pts' _ blk' m i' p Hc Hb' Hm Hi' Hp').
  rewrite raw_entry_contracted1, compi_default'. reflexivity.
Qed.
End Law.

End RotEval.

(* ------------------------------------------------------------------ *)
(* 4. the laws in the form of RigidP.rotation_law_overlap (one representation matrix per angular momentum), and the
      descriptor form *)
Section Closed.
Context {F : Type} (K : Fops F) (Kf : is_field K).
Add Field KFrev2 : Kf.
Local Open Scope F_scope.
Notation "0" := (f0 K) : F_scope.
Infix "+" := (fadd K) : F_scope.
Infix "*" := (fmul K) : F_scope.
Notation fsum := (FNum.fsum K).
Hypothesis Hapx : forall x : F, fapx K x = x.
Hypothesis Hdf : forall c, dfnorm K c <> 0.

Theorem eval_block_rotation_law :
  forall R, orthogonal K R -> forall l, exists M : comp -> comp -> F, mono_rep K R l M /\
    forall (s : shell F) (pts : list (point (F:=F))), s_l s = l -> s_comps s = [] ->
    forall blk blk',
      eval_block K s pts (0, 0, 0)%nat General = Some blk ->
      eval_block K (rot_shell K R s) (map (mapply K R) pts) (0, 0, 0)%nat General = Some blk' ->
      forall m j p, (m < nseg s)%nat -> (j < length (default_comps l))%nat -> (p < length pts)%nat ->
        let cmp i := nth i (default_comps l) (0, 0, 0)%nat in
        dfnorm K (cmp j) * nth p (nth j (nth m blk []) []) 0
        = fsum (map (fun i => M (cmp i) (cmp j) * dfnorm K (cmp i) * nth p (nth i (nth m blk' []) []) 0)
                    (seq 0 (length (default_comps l)))).
Proof.
  intros R HO l. exists (rep_mat K R). split; [apply (rep_mat_mono_rep K Kf)|].
  intros s pts <- Hc blk blk' Hb Hb' m j p Hm Hj Hp.
  exact (eval_block_rotation_law_fixed K Kf Hapx Hdf R HO s pts Hc blk blk' Hb Hb' m j p Hm Hj Hp).
Qed.

Theorem eval_block_gradient_rotation_law :
  forall R, orthogonal K R -> forall l, exists M : comp -> comp -> F, mono_rep K R l M /\
    forall (s : shell F) (pts : list (point (F:=F))), s_l s = l -> s_comps s = [] ->
    forall (i : axis) gx gy gz blk',
      eval_block K s pts (eax AX) General = Some gx -> eval_block K s pts (eax AY) General = Some gy ->
      eval_block K s pts (eax AZ) General = Some gz ->
      eval_block K (rot_shell K R s) (map (mapply K R) pts) (eax i) General = Some blk' ->
      forall m j p, (m < nseg s)%nat -> (j < length (default_comps l))%nat -> (p < length pts)%nat ->
        let cmp i := nth i (default_comps l) (0, 0, 0)%nat in
        dfnorm K (cmp j) * (matf R i AX * nth p (nth j (nth m gx []) []) 0
                            + matf R i AY * nth p (nth j (nth m gy []) []) 0
                            + matf R i AZ * nth p (nth j (nth m gz []) []) 0)
        = fsum (map (fun i' => M (cmp i') (cmp j) * dfnorm K (cmp i') * nth p (nth i' (nth m blk' []) []) 0)
                    (seq 0 (length (default_comps l)))).
Proof.
  intros R HO l. exists (rep_mat K R). split; [apply (rep_mat_mono_rep K Kf)|].
  intros s pts <- Hc i gx gy gz blk' Hx Hy Hz Hb' m j p Hm Hj Hp.
  exact (eval_block_gradient_rotation_law_fixed K Kf Hapx Hdf R HO s pts Hc i gx gy gz blk' Hx Hy Hz Hb'
           m j p Hm Hj Hp).
Qed.

(* descriptor form: the Cartesian function (segment m, component ic) of SameFunP.cart_desc without the contraction
   norm ncf = norm_cont[m][ic] (weights coefficient * norm_prim) *)
Definition cart_desc_raw (s : shell F) (m ic : nat) : fdesc (F:=F) :=
  map (fun ae => mkT (nth m (snd ae) 0 * norm_prim K (s_l s) (compi s ic) (fst ae))
                     (mkG (s_x s) (s_y s) (s_z s) (fst ae) (compi s ic)))
      (combine (s_exps s) (s_coeffs s)).

Lemma cart_desc_raw_entry o (s : shell F) m ic p :
  deriv_spec K o (cart_desc_raw s m ic) p = raw_entry K o s m ic p.
Proof.
  unfold raw_entry, deriv_spec, cart_desc_raw. rewrite map_map.
  f_equal. apply map_ext. intros [alpha crow]. unfold term_val, t_x, t_y, t_z, t_a, t_c.
  cbn [fst snd t_w t_g g_x g_y g_z g_a g_c]. ring.
Qed.
Lemma cart_desc_is_scaled_raw o (s : shell F) m ic p :
  deriv_spec K o (cart_desc K s m ic) p = ncf K s m ic * deriv_spec K o (cart_desc_raw s m ic) p.
Proof. now rewrite cart_desc_raw_entry, (cart_entry K Kf). Qed.

Theorem eval_spec_rotation_law :
  forall R, orthogonal K R -> forall (s : shell F), s_comps s = [] ->
  forall m j (r : point (F:=F)), (j < length (default_comps (s_l s)))%nat ->
    let cmp i := nth i (default_comps (s_l s)) (0, 0, 0)%nat in
    dfnorm K (cmp j) * eval_spec K (cart_desc_raw s m j) r
    = fsum (map (fun i => rep_mat K R (cmp i) (cmp j) * dfnorm K (cmp i)
                          * eval_spec K (cart_desc_raw (rot_shell K R s) m i) (mapply K R r))
                (seq 0 (length (default_comps (s_l s))))).
Proof.
  intros R HO s Hc m j r Hj cmp. unfold eval_spec. rewrite cart_desc_raw_entry, (raw_entry_contracted1 K Kf).
  assert (Ci : forall i, compi s i = cmp i) by (intro i; unfold compi, comps_of, cmp; now rewrite Hc).
  assert (Ci' : forall i, compi (rot_shell K R s) i = cmp i)
    by (intro i; unfold compi, comps_of, cmp; cbn [rot_shell s_comps s_l]; now rewrite Hc).
  rewrite Ci.
  rewrite (contracted1_law K Kf Hapx Hdf (rep_mat K R) (default_comps (s_l s)) _ _ _ (cmp j) _
             (fun c alpha => gauss_prim_deriv K (0, 0, 0)%nat (mapply K R (s_x s, s_y s, s_z s)) alpha c
                               (mapply K R r))).
  2:{ intros ae _. rewrite <- (Jsum_rot_expand K Kf _ R (s_l s) (cmp j)) by (apply nth_In; exact Hj).
      apply (eval_prim_rotation_covariant K Kf), HO. }
  rewrite (map_as_mk _ (default_comps (s_l s)) (0, 0, 0)%nat). unfold mk.
  f_equal. apply map_ext. intro i. fold (cmp i).
  rewrite cart_desc_raw_entry, (raw_entry_contracted1 K Kf), Ci'.
  replace (s_x (rot_shell K R s), s_y (rot_shell K R s), s_z (rot_shell K R s))
    with (mapply K R (s_x s, s_y s, s_z s)); [reflexivity|].
  cbn [rot_shell s_x s_y s_z]. now destruct (mapply K R (s_x s, s_y s, s_z s)) as [[x y] z].
Qed.
End Closed.

(* ------------------------------------------------------------------ *)
(* Examples over Qc.  exp is the IDENTITY stand-in (so the argument of exp is visible in the value; nothing is assumed
   about exp), sqrt = 1. *)
From Coq Require Import ZArith QArith Qcanon.
Definition evKQ : Fops Qc := QcK true (Q2Qc 3) (fun _ => Q2Qc 1) (fun x => x) (fun x => x) (fun _ x => x).
Section Examples.
Let KQ : Fops Qc := evKQ.
Let KQf : is_field KQ := QcK_field _ _ _ _ _ _.
Let q (n : Z) (d : positive) : Qc := qc_of n d.
Definition evP : shell Qc :=
  mkShell Qc 1 (q 1 2) (q (-1) 1) (q 2 1) [q 3 2; q 1 4] [[q 1 1; q 2 1]; [q (-1) 3; q 1 2]] false [] [].
Definition evD : shell Qc :=
  mkShell Qc 2 (q 0 1) (q 1 3) (q (-1) 1) [q 2 3] [[q 5 7]] false [] [].
Definition evpts : list (Qc * Qc * Qc) := [(q 1 3, q 1 2, q (-1) 4); (q (-2) 1, q 0 1, q 1 5)].

Lemma evKQ_hyps : (forall x, fapx KQ x = x) /\ (forall c, dfnorm KQ c <> f0 KQ).
Proof.
  split; [reflexivity|]. intros c H. apply (f_equal this) in H. vm_compute in H. discriminate H.
Qed.
Lemma orthogonal_R345_ev : orthogonal KQ R345.
Proof.
  intros i j Hi Hj. destruct i as [|[|[|i]]]; try lia; destruct j as [|[|[|j]]]; try lia;
    split; apply Qc_is_canon; vm_compute; reflexivity.
Qed.
Lemma orthogonal_Rimp_ev : orthogonal KQ Rimp.
Proof.
  intros i j Hi Hj. destruct i as [|[|[|i]]]; try lia; destruct j as [|[|[|j]]]; try lia;
    split; apply Qc_is_canon; vm_compute; reflexivity.
Qed.

(* the primitive theorem instantiated (improper rotation): nothing left to assume *)
Example eval_prim_rotation_improper :
  forall A alpha a r,
  Jsum KQ (fun a' => gauss_prim KQ (mapply KQ Rimp A) alpha a' (mapply KQ Rimp r)) (rot_expand KQ Rimp a)
  = gauss_prim KQ A alpha a r.
Proof. intros. apply (eval_prim_rotation_covariant KQ KQf), orthogonal_Rimp_ev. Qed.

(* the statements re-evaluated by computation, independent of the proof *)
Definition prim_cov_check (R : @mat3 Qc) (a : comp) : bool :=
  let A := (q 1 2, q (-1) 1, q 2 1) in let r := (q 1 3, q 1 2, q (-1) 4) in
  Qeq_bool (Jsum KQ (fun a' => gauss_prim KQ (mapply KQ R A) (q 3 2) a' (mapply KQ R r)) (rot_expand KQ R a))
           (gauss_prim KQ A (q 3 2) a r).
Definition grad_cov_check (R : @mat3 Qc) (i : axis) (a : comp) : bool :=
  let A := (q 1 2, q (-1) 1, q 2 1) in let r := (q 1 3, q 1 2, q (-1) 4) in
  Qeq_bool (Jsum KQ (fun a' => gauss_prim_deriv KQ (eax i) (mapply KQ R A) (q 3 2) a' (mapply KQ R r))
              (rot_expand KQ R a))
           (sum3 KQ (fun k => fmul KQ (matf R i k) (gauss_prim_deriv KQ (eax k) A (q 3 2) a r))).
Example eval_prim_rotation_computed :
  forallb (fun R => forallb (prim_cov_check R) (default_comps 0 ++ default_comps 1 ++ default_comps 2))
    [R345; Rimp] = true.
Proof. vm_compute. reflexivity. Qed.
Example eval_prim_gradient_rotation_computed :
  forallb (fun R => forallb (fun i => forallb (grad_cov_check R i) (default_comps 1 ++ [(1, 1, 0)%nat; (0, 0, 2)%nat]))
    [AX; AY; AZ]) [R345; Rimp] = true.
Proof. vm_compute. reflexivity. Qed.
(* not vacuous: a p_x value does change under the rotation *)
Example eval_prim_not_invariant :
  Qeq_bool (gauss_prim KQ (mapply KQ R345 (q 1 2, q (-1) 1, q 2 1)) (q 3 2) (1, 0, 0)%nat
              (mapply KQ R345 (q 1 3, q 1 2, q (-1) 4)))
           (gauss_prim KQ (q 1 2, q (-1) 1, q 2 1) (q 3 2) (1, 0, 0)%nat (q 1 3, q 1 2, q (-1) 4)) = false.
Proof. vm_compute. reflexivity. Qed.

(* block law through the list-level model: contracted two-segment p shell and a d shell, two points, both rotations *)
Definition eval_law_check (R : @mat3 Qc) (l : nat) (E E' : list (list (list Qc))) (m j p : nat) : bool :=
  let cmp i := nth i (default_comps l) (0, 0, 0)%nat in
  Qeq_bool (fmul KQ (dfnorm KQ (cmp j)) (nth p (nth j (nth m E []) []) (f0 KQ)))
    (FNum.fsum KQ (map (fun i => fmul KQ (fmul KQ (rep_mat KQ R (cmp i) (cmp j)) (dfnorm KQ (cmp i)))
                                   (nth p (nth i (nth m E' []) []) (f0 KQ)))
       (seq 0 (length (default_comps l))))).
Definition eval_law_all (s : shell Qc) (nseg_ : nat) : bool :=
  forallb (fun R =>
    match eval_block KQ s evpts (0, 0, 0)%nat General,
          eval_block KQ (rot_shell KQ R s) (map (mapply KQ R) evpts) (0, 0, 0)%nat General with
    | Some E, Some E' =>
        forallb (fun m => forallb (fun j => forallb (fun p => eval_law_check R (s_l s) E E' m j p) (seq 0 2))
          (seq 0 (length (default_comps (s_l s))))) (seq 0 nseg_)
    | _, _ => false
    end) [R345; Rimp].
Example eval_block_law_computed : eval_law_all evP 2 && eval_law_all evD 1 = true.
Proof. vm_compute. reflexivity. Qed.
End Examples.

Lemma eval_rotation_hypotheses_satisfiable :
  exists (F : Type) (K : Fops F) (R1 R2 : @mat3 F) (s : shell F),
    is_field K /\ (forall x, fapx K x = x) /\ (forall c, dfnorm K c <> f0 K)
    /\ orthogonal K R1 /\ orthogonal K R2 /\ s_comps s = [].
Proof.
  exists Qc, evKQ, R345, Rimp, evP.
  split; [apply QcK_field|]. destruct evKQ_hyps as [A B]. split; [exact A|]. split; [exact B|].
  split; [apply orthogonal_R345_ev|]. split; [apply orthogonal_Rimp_ev|reflexivity].
Qed.
