(* Proofs/CoreSumP.v — finite sums [fsum (mk n f)] in a field (linearity, exchange of two sums),
   the index form of the double sum [entry_sum] of Proofs/BlockP.v, and the generic block theorem
   [block_of_contracted]: every entry of a block built by [block_of] from a (K_b, K_a) array of
   primitive values h(alpha_k, beta_k') is the contraction
       sum_{k < K_a} sum_{k' < K_b}  d_a[k][ma] d_b[k'][mb] N_a(alpha_k) N_b(beta_k') h(alpha_k, beta_k'). *)
From Coq Require Import List Arith Lia Field.
From GB Require Import Base.Field Base.FNum Base.Tables Model.Shell Model.MomentInt Model.Overlap
  Proofs.BlockP.
Import ListNotations.

Section Sums.
Context {F : Type} (K : Fops F) (Kf : is_field K).
Add Field KFs1 : Kf.
Local Open Scope F_scope.
Notation "0" := (f0 K) : F_scope.
Notation "1" := (f1 K) : F_scope.
Infix "+" := (fadd K) : F_scope.
Infix "*" := (fmul K) : F_scope.
Infix "-" := (fsub K) : F_scope.
Notation "- x" := (fopp K x) : F_scope.
Notation fsum := (FNum.fsum K).

Lemma mk_S {A} n (f : nat -> A) : mk (S n) f = mk n f ++ [f n].
Proof. unfold mk. rewrite seq_S, map_app. reflexivity. Qed.

Lemma fsum_app l1 l2 : fsum (l1 ++ l2) = fsum l1 + fsum l2.
Proof. unfold FNum.fsum. induction l1 as [|x l1 IH]; cbn [app fold_right].
  - ring.
  - rewrite IH. ring. Qed.

Lemma fsum_mk_S n f : fsum (mk (S n) f) = fsum (mk n f) + f n.
Proof. rewrite mk_S, fsum_app. unfold FNum.fsum. cbn [fold_right]. ring. Qed.

Lemma fsum_mk_0 f : fsum (mk 0 f) = 0.
Proof. reflexivity. Qed.

Lemma fsum_mk_ext n f g : (forall i, i < n -> f i = g i) -> fsum (mk n f) = fsum (mk n g).
Proof. intros H. f_equal. now apply mk_ext. Qed.

Lemma fsum_mk_add n f g : fsum (mk n f) + fsum (mk n g) = fsum (mk n (fun i => f i + g i)).
Proof. induction n as [|n IH]; [rewrite !fsum_mk_0; ring|]. rewrite !fsum_mk_S, <- IH. ring. Qed.

Lemma fsum_mk_scale_r n f c : fsum (mk n f) * c = fsum (mk n (fun i => f i * c)).
Proof. induction n as [|n IH]; [rewrite !fsum_mk_0; ring|]. rewrite !fsum_mk_S, <- IH. ring. Qed.

Lemma fsum_mk_scale_l n f c : c * fsum (mk n f) = fsum (mk n (fun i => c * f i)).
Proof. induction n as [|n IH]; [rewrite !fsum_mk_0; ring|]. rewrite !fsum_mk_S, <- IH. ring. Qed.

Lemma fsum_mk_opp n f : - fsum (mk n f) = fsum (mk n (fun i => - f i)).
Proof. induction n as [|n IH]; [rewrite !fsum_mk_0; ring|]. rewrite !fsum_mk_S, <- IH. ring. Qed.

Lemma fsum_mk_zero n : fsum (mk n (fun _ => 0)) = 0.
Proof. induction n as [|n IH]; [reflexivity|]. rewrite fsum_mk_S, IH. ring. Qed.

(* exchange of two finite sums *)
Lemma fsum_mk_swap n m (f : nat -> nat -> F) :
  fsum (mk n (fun i => fsum (mk m (fun j => f i j))))
  = fsum (mk m (fun j => fsum (mk n (fun i => f i j)))).
Proof.
  induction n as [|n IH].
  - rewrite fsum_mk_0. symmetry. rewrite <- (fsum_mk_zero m). apply fsum_mk_ext. intros; apply fsum_mk_0.
  - rewrite fsum_mk_S, IH, fsum_mk_add. apply fsum_mk_ext. intros j _. now rewrite fsum_mk_S.
Qed.

(* a list is the table of its entries *)
Lemma list_as_mk {A} (l : list A) d : l = mk (length l) (fun k => nth k l d).
Proof.
  apply (nth_ext _ _ d d); [now rewrite mk_length|].
  intros k Hk. now rewrite nth_mk.
Qed.

Lemma map_as_mk {A B} (f : A -> B) (l : list A) d : map f l = mk (length l) (fun k => f (nth k l d)).
Proof.
  rewrite (list_as_mk l d) at 1. unfold mk. rewrite map_map. reflexivity.
Qed.

Lemma combine_as_mk {A B} (l1 : list A) (l2 : list B) d1 d2 :
  length l2 = length l1 -> combine l1 l2 = mk (length l1) (fun k => (nth k l1 d1, nth k l2 d2)).
Proof.
  intros Hl. apply (nth_ext _ _ (d1, d2) (d1, d2)).
  - rewrite combine_length, mk_length. lia.
  - intros k Hk. rewrite combine_length in Hk. rewrite combine_nth by (symmetry; exact Hl).
    rewrite nth_mk by lia. reflexivity.
Qed.

Lemma map_mk {A B} (g : A -> B) n (f : nat -> A) : map g (mk n f) = mk n (fun k => g (f k)).
Proof. unfold mk. now rewrite map_map. Qed.

(* ---- index form of the double sum of Proofs/BlockP.v ---- *)
Lemma entry_sum_index (sa sb : shell F) (P : list (list F)) (na nb : list F) ma mb
      (Ka Kb : nat) (h : nat -> nat -> F) (NA NB : nat -> F) :
  length (s_coeffs sa) = Ka -> length (s_coeffs sb) = Kb ->
  length P = Kb -> (forall kb, kb < Kb -> length (nth kb P []) = Ka) ->
  (forall kb ka, kb < Kb -> ka < Ka -> nth ka (nth kb P []) 0 = h ka kb) ->
  length na = Ka -> (forall ka, ka < Ka -> nth ka na 0 = NA ka) ->
  length nb = Kb -> (forall kb, kb < Kb -> nth kb nb 0 = NB kb) ->
  entry_sum K sa sb P na nb ma mb
  = fsum (mk Kb (fun kb =>
      fsum (mk Ka (fun ka => h ka kb * NA ka * nth ma (nth ka (s_coeffs sa) []) 0))
      * NB kb * nth mb (nth kb (s_coeffs sb) []) 0)).
Proof.
  intros Hca Hcb HP HPr HPe Hna Hnae Hnb Hnbe. unfold entry_sum.
  rewrite (combine_as_mk nb (s_coeffs sb) 0 []) by congruence.
  rewrite (combine_as_mk P (mk (length nb) _) [] (0, [])) by (rewrite mk_length; congruence).
  rewrite map_mk. rewrite HP. apply fsum_mk_ext. intros kb Hkb. cbn [fst snd].
  rewrite nth_mk by congruence. cbn [fst snd].
  rewrite Hnbe by exact Hkb. f_equal. f_equal.
  rewrite (combine_as_mk na (s_coeffs sa) 0 []) by congruence.
  rewrite (combine_as_mk (nth kb P []) (mk (length na) _) 0 (0, []))
    by (rewrite mk_length, HPr by exact Hkb; congruence).
  rewrite map_mk. rewrite HPr by exact Hkb. apply fsum_mk_ext. intros ka Hka. cbn [fst snd].
  rewrite nth_mk by congruence. cbn [fst snd].
  rewrite HPe by assumption. rewrite Hnae by exact Hka. reflexivity.
Qed.

End Sums.

(* ------------------------------------------------------------------ *)
(* The contraction a block entry stands for                            *)
(* ------------------------------------------------------------------ *)
Section Contracted.
Context {F : Type} (K : Fops F) (Kf : is_field K).
Add Field KFs2 : Kf.
Local Open Scope F_scope.
Notation "0" := (f0 K) : F_scope.
Infix "+" := (fadd K) : F_scope.
Infix "*" := (fmul K) : F_scope.
Notation "- x" := (fopp K x) : F_scope.
Notation fsum := (FNum.fsum K).

(* a shell whose coefficient matrix has one row per exponent *)
Definition wf_coeffs (s : shell F) : Prop := length (s_coeffs s) = length (s_exps s).

(* sum over the primitives k of a and k' of b of
   d_a[k][ma] d_b[k'][mb] N(alpha_k, ca) N(beta_k', cb) prim(alpha_k, beta_k') *)
Definition contracted (sa sb : shell F) (ca cb : comp) (ma mb : nat) (prim : F -> F -> F) : F :=
  fsum (mk (length (s_exps sa)) (fun ka => fsum (mk (length (s_exps sb)) (fun kb =>
    nth ma (nth ka (s_coeffs sa) []) 0 * nth mb (nth kb (s_coeffs sb) []) 0
    * norm_prim K (s_l sa) ca (nth ka (s_exps sa) 0) * norm_prim K (s_l sb) cb (nth kb (s_exps sb) 0)
    * prim (nth ka (s_exps sa) 0) (nth kb (s_exps sb) 0))))).

Lemma contracted_ext sa sb ca cb ma mb p q :
  (forall alpha beta, In alpha (s_exps sa) -> In beta (s_exps sb) -> p alpha beta = q alpha beta) ->
  contracted sa sb ca cb ma mb p = contracted sa sb ca cb ma mb q.
Proof.
  intros H. unfold contracted. apply fsum_mk_ext; intros ka Hka. apply fsum_mk_ext; intros kb Hkb.
  rewrite H by (apply nth_In; assumption). reflexivity.
Qed.

Lemma contracted_opp sa sb ca cb ma mb p :
  contracted sa sb ca cb ma mb (fun x y => - p x y) = - contracted sa sb ca cb ma mb p.
Proof.
  unfold contracted. rewrite (fsum_mk_opp K Kf). apply fsum_mk_ext; intros ka _.
  rewrite (fsum_mk_opp K Kf). apply fsum_mk_ext; intros kb _. ring.
Qed.

Lemma contracted_add sa sb ca cb ma mb p q :
  contracted sa sb ca cb ma mb (fun x y => p x y + q x y)
  = contracted sa sb ca cb ma mb p + contracted sa sb ca cb ma mb q.
Proof.
  unfold contracted. rewrite (fsum_mk_add K Kf). apply fsum_mk_ext; intros ka _.
  rewrite (fsum_mk_add K Kf). apply fsum_mk_ext; intros kb _. ring.
Qed.

Lemma contracted_scale sa sb ca cb ma mb c p :
  contracted sa sb ca cb ma mb (fun x y => c * p x y) = c * contracted sa sb ca cb ma mb p.
Proof.
  unfold contracted. rewrite (fsum_mk_scale_l K Kf). apply fsum_mk_ext; intros ka _.
  rewrite (fsum_mk_scale_l K Kf). apply fsum_mk_ext; intros kb _. ring.
Qed.

(* exchanging the two shells: the same sum with the roles of the primitives exchanged *)
Lemma contracted_swap sa sb ca cb ma mb p :
  contracted sb sa cb ca mb ma (fun beta alpha => p alpha beta) = contracted sa sb ca cb ma mb p.
Proof.
  unfold contracted. rewrite (fsum_mk_swap K Kf). apply fsum_mk_ext; intros ka _.
  apply fsum_mk_ext; intros kb _. ring.
Qed.

(* ---- the generic block theorem ----
   [pf ca cb] is the (K_b, K_a) array of primitive values handed to [block_of]; it only has to have the
   form h(alpha_k, beta_k') for the pair of components that is looked at. *)
Theorem block_of_contracted (sa sb : shell F) (pf : comp -> comp -> list (list F)) (h : F -> F -> F) ma ia mb ib :
  wf_coeffs sa -> wf_coeffs sb ->
  ma < nseg sa -> ia < length (comps_of sa) -> mb < nseg sb -> ib < length (comps_of sb) ->
  pf (nth ia (comps_of sa) (0, 0, 0)%nat) (nth ib (comps_of sb) (0, 0, 0)%nat)
    = map (fun beta => map (fun alpha => h alpha beta) (s_exps sa)) (s_exps sb) ->
  nth4 K ma ia mb ib (block_of K sa sb pf)
  = contracted sa sb (nth ia (comps_of sa) (0, 0, 0)%nat) (nth ib (comps_of sb) (0, 0, 0)%nat) ma mb h.
Proof.
  intros Wa Wb Hma Hia Hmb Hib Hpf. unfold nth4.
  rewrite (block_of_entry K sa sb _ ma ia mb ib Hma Hia Hmb Hib). rewrite Hpf.
  set (ca := nth ia (comps_of sa) (0, 0, 0)%nat). set (cb := nth ib (comps_of sb) (0, 0, 0)%nat).
  assert (Ena : nth ia (norms K sa) [] = map (norm_prim K (s_l sa) ca) (s_exps sa)).
  { unfold norms. rewrite (nth_indep _ [] (map (norm_prim K (s_l sa) (0,0,0)%nat) (s_exps sa)))
      by (now rewrite map_length).
    now rewrite (map_nth (fun c => map (norm_prim K (s_l sa) c) (s_exps sa))). }
  assert (Enb : nth ib (norms K sb) [] = map (norm_prim K (s_l sb) cb) (s_exps sb)).
  { unfold norms. rewrite (nth_indep _ [] (map (norm_prim K (s_l sb) (0,0,0)%nat) (s_exps sb)))
      by (now rewrite map_length).
    now rewrite (map_nth (fun c => map (norm_prim K (s_l sb) c) (s_exps sb))). }
  rewrite Ena, Enb.
  rewrite (entry_sum_index K sa sb _ _ _ ma mb (length (s_exps sa)) (length (s_exps sb))
             (fun ka kb => h (nth ka (s_exps sa) 0) (nth kb (s_exps sb) 0))
             (fun ka => norm_prim K (s_l sa) ca (nth ka (s_exps sa) 0))
             (fun kb => norm_prim K (s_l sb) cb (nth kb (s_exps sb) 0))).
  - unfold contracted. rewrite (fsum_mk_swap K Kf). apply fsum_mk_ext; intros kb _.
    rewrite (fsum_mk_scale_r K Kf), (fsum_mk_scale_r K Kf). apply fsum_mk_ext; intros ka _. ring.
  - exact Wa.
  - exact Wb.
  - now rewrite map_length.
  - intros kb Hkb. rewrite (map_as_mk _ (s_exps sb) 0), nth_mk by exact Hkb. now rewrite map_length.
  - intros kb ka Hkb Hka. rewrite (map_as_mk _ (s_exps sb) 0), nth_mk by exact Hkb.
    rewrite (map_as_mk _ (s_exps sa) 0), nth_mk by exact Hka. reflexivity.
  - now rewrite map_length.
  - intros ka Hka. rewrite (map_as_mk _ (s_exps sa) 0), nth_mk by exact Hka. reflexivity.
  - now rewrite map_length.
  - intros kb Hkb. rewrite (map_as_mk _ (s_exps sb) 0), nth_mk by exact Hkb. reflexivity.
Qed.

(* shape of a block *)
Lemma block_of_shape (sa sb : shell F) pf :
  length (block_of K sa sb pf) = nseg sa /\
  (forall ma, ma < nseg sa -> length (nth ma (block_of K sa sb pf) []) = length (comps_of sa) /\
   forall ia, ia < length (comps_of sa) ->
     length (nth ia (nth ma (block_of K sa sb pf) []) []) = nseg sb /\
     forall mb, mb < nseg sb ->
       length (nth mb (nth ia (nth ma (block_of K sa sb pf) []) []) []) = length (comps_of sb)).
Proof.
  unfold block_of. cbv zeta. rewrite !combine_length, !length_norms, !Nat.min_id.
  split; [apply mk_length|]. intros ma Hma. rewrite nth_mk by exact Hma.
  split; [apply mk_length|]. intros ia Hia. rewrite nth_mk by exact Hia.
  split; [apply mk_length|]. intros mb Hmb. rewrite nth_mk by exact Hmb. apply mk_length.
Qed.

End Contracted.
