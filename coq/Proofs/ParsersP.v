(* Proofs/ParsersP.v — lemmas about Model/Parsers.v: the printers are inverted by the parsers
   (any number of elements, blocks, primitives, columns; any layout), and make_contractions. *)
From Coq Require Import List String Ascii Bool Arith Lia.
From GB Require Import Model.Parsers.
Import ListNotations.
Open Scope string_scope.
Open Scope list_scope.
Open Scope nat_scope.

(* ------------------------------------------------------------------ characters *)
Ltac all_chars c :=
  destruct c as [[|] [|] [|] [|] [|] [|] [|] [|]]; vm_compute; intros; try reflexivity; try discriminate.

Lemma class_nospace c : is_class c = true -> is_space c = false.
Proof. all_chars c. Qed.
Lemma class_printable c : is_class c = true -> printable c = true.
Proof. all_chars c. Qed.
Lemma word_nospace c : is_word c = true -> is_space c = false.
Proof. all_chars c. Qed.
Lemma word_printable c : is_word c = true -> printable c = true.
Proof. all_chars c. Qed.
Lemma letter_word c : is_letter c = true -> is_word c = true.
Proof. all_chars c. Qed.
Lemma space_printable c : is_space c = true -> printable c = true.
Proof. all_chars c. Qed.

(* ------------------------------------------------------------------ strings *)
Lemma sapp_nil_r s : s +++ "" = s.
Proof. induction s; simpl; congruence. Qed.
Lemma sapp_assoc a b c : (a +++ b) +++ c = a +++ (b +++ c).
Proof. induction a; simpl; congruence. Qed.
Lemma forall_s_app p a b : forall_s p (a +++ b) = forall_s p a && forall_s p b.
Proof. induction a; simpl; auto. rewrite IHa, andb_assoc. reflexivity. Qed.
Lemma forall_s_imp (p q : ascii -> bool) s :
  (forall c, p c = true -> q c = true) -> forall_s p s = true -> forall_s q s = true.
Proof.
  intros Hpq. induction s; simpl; auto. intros H. apply andb_true_iff in H as [H1 H2].
  rewrite (Hpq _ H1), IHs; auto.
Qed.
Lemma forall_s_spaces p n : p " "%char = true -> forall_s p (spaces n) = true.
Proof. intros Hp. induction n; simpl; auto. rewrite Hp, IHn. reflexivity. Qed.

(* a token: non-empty, no blank *)
Definition tok_ok (t : string) : bool := nonempty t && nospace t.

Lemma split_ws_nonnil s : split_ws s <> [].
Proof. destruct s; simpl; try discriminate. destruct (is_space a); try discriminate.
  destruct (split_ws s); discriminate. Qed.

Lemma split_ws_nospace_app t s :
  nospace t = true ->
  split_ws (t +++ s) = (t +++ hd "" (split_ws s)) :: tl (split_ws s).
Proof.
  induction t as [|c t IH]; simpl; intros H.
  - destruct (split_ws s) eqn:E; [exfalso; eapply split_ws_nonnil; eauto | reflexivity].
  - unfold nospace in H. simpl in H. apply andb_true_iff in H as [H1 H2].
    apply negb_true_iff in H1. rewrite H1. rewrite IH by exact H2. reflexivity.
Qed.

Lemma tokens_space s : tokens (String " " s) = tokens s.
Proof. reflexivity. Qed.
Lemma tokens_spaces_app n s : tokens (spaces n +++ s) = tokens s.
Proof. induction n; simpl; auto. Qed.
Lemma tokens_spaces n : tokens (spaces n) = [].
Proof. induction n; simpl; auto. Qed.
Lemma nonempty_app t s : nonempty t = true -> nonempty (t +++ s) = true.
Proof. destruct t; simpl; [discriminate | auto]. Qed.
Lemma tokens_tok_space t s : tok_ok t = true -> tokens (t +++ String " " s) = t :: tokens s.
Proof.
  intros H. apply andb_true_iff in H as [H1 H2]. unfold tokens.
  rewrite split_ws_nospace_app by exact H2. simpl. rewrite sapp_nil_r.
  rewrite H1. reflexivity.
Qed.
Lemma tokens_tok t : tok_ok t = true -> tokens t = [t].
Proof.
  intros H. apply andb_true_iff in H as [H1 H2]. unfold tokens.
  rewrite <- (sapp_nil_r t) at 1. rewrite split_ws_nospace_app by exact H2. simpl.
  rewrite sapp_nil_r, H1. reflexivity.
Qed.
Lemma tokens_tok_spaces t n : tok_ok t = true -> tokens (t +++ spaces n) = [t].
Proof.
  intros H. destruct n; simpl.
  - rewrite sapp_nil_r. apply tokens_tok; auto.
  - rewrite tokens_tok_space by auto. rewrite tokens_spaces. reflexivity.
Qed.

Lemma tokens_join toks : forall n k,
  forallb tok_ok toks = true -> tokens (join (S n) toks +++ spaces k) = toks.
Proof.
  induction toks as [|t r IH]; intros n k H.
  - simpl. apply tokens_spaces.
  - simpl in H. apply andb_true_iff in H as [Ht Hr].
    destruct r as [|t2 r2].
    + simpl. apply tokens_tok_spaces; auto.
    + change (join (S n) (t :: t2 :: r2)) with (t +++ spaces (S n) +++ join (S n) (t2 :: r2)).
      rewrite !sapp_assoc. simpl spaces.
      change (String " " (spaces n) +++ (join (S n) (t2 :: r2) +++ spaces k))
        with (String " " (spaces n +++ (join (S n) (t2 :: r2) +++ spaces k))).
      rewrite tokens_tok_space by auto. rewrite tokens_spaces_app.
      rewrite IH by auto. reflexivity.
Qed.

Lemma tokens_render p toks : forallb tok_ok toks = true -> tokens (render p toks) = toks.
Proof.
  destruct p as [[ind sep] trail]. intros H. unfold render.
  rewrite tokens_spaces_app. apply tokens_join; auto.
Qed.

Lemma printable_join toks : forall n,
  forallb (forall_s printable) toks = true -> forall_s printable (join n toks) = true.
Proof.
  induction toks as [|t r IH]; intros n H; simpl; auto.
  simpl in H. apply andb_true_iff in H as [Ht Hr]. destruct r as [|t2 r2]; auto.
  rewrite !forall_s_app, Ht, forall_s_spaces by reflexivity. simpl. apply IH; auto.
Qed.
Lemma printable_render p toks :
  forallb (forall_s printable) toks = true -> forall_s printable (render p toks) = true.
Proof.
  destruct p as [[ind sep] trail]. intros H. unfold render.
  rewrite !forall_s_app, !forall_s_spaces by reflexivity. rewrite printable_join; auto.
Qed.

(* ------------------------------------------------------------------ generic list facts *)
Lemma forallb_nth {A} (p : A -> bool) l k d :
  forallb p l = true -> k < List.length l -> p (nth k l d) = true.
Proof.
  revert k. induction l; simpl; intros k H Hk; [lia|].
  apply andb_true_iff in H as [H1 H2]. destruct k; auto. apply IHl; auto; lia.
Qed.
Lemma map_nth_seq {A} (l : list A) d : map (fun k => nth k l d) (seq 0 (List.length l)) = l.
Proof.
  induction l; simpl; auto. f_equal. rewrite <- seq_shift, map_map. exact IHl.
Qed.
Lemma forallb_mapi_from {A B} (p : B -> bool) (f : nat -> A -> list B) l : forall n,
  (forall k x, In x l -> forallb p (f k x) = true) -> forallb p (mapi_from n f l) = true.
Proof.
  induction l; simpl; intros n H; auto. rewrite forallb_app, H by auto. simpl. apply IHl. auto.
Qed.
Lemma filter_map_app {A B} (f : A -> option B) l1 l2 :
  filter_map f (l1 ++ l2) = filter_map f l1 ++ filter_map f l2.
Proof. induction l1; simpl; auto. destruct (f a); simpl; congruence. Qed.
Lemma filter_map_none {A B} (f : A -> option B) l :
  Forall (fun x => f x = None) l -> filter_map f l = [].
Proof. induction 1; simpl; auto. rewrite H. auto. Qed.

(* ------------------------------------------------------------------ tokens of the AST *)
Lemma wf_lit_tok s : wf_lit s = true -> tok_ok s = true.
Proof.
  unfold wf_lit, class_tok, tok_ok. intros H.
  apply andb_true_iff in H as [H _]. apply andb_true_iff in H as [H _].
  apply andb_true_iff in H as [H1 H2]. rewrite H1. simpl.
  eapply forall_s_imp; [|exact H2]. intros c Hc. rewrite (class_nospace c Hc). reflexivity.
Qed.
Lemma wf_lit_class s : wf_lit s = true -> class_tok s = true.
Proof. unfold wf_lit. intros H. apply andb_true_iff in H as [H _]. apply andb_true_iff in H as [H _]. exact H. Qed.
Lemma wf_lit_float s : wf_lit s = true -> float_ok s = true.
Proof. unfold wf_lit. intros H. apply andb_true_iff in H as [H _]. apply andb_true_iff in H as [_ H]. exact H. Qed.
Lemma wf_lit_notword s : wf_lit s = true -> pure_word s = false.
Proof. unfold wf_lit. intros H. apply andb_true_iff in H as [_ H]. apply negb_true_iff in H. exact H. Qed.
Lemma wf_lit_printable s : wf_lit s = true -> forall_s printable s = true.
Proof.
  intros H. apply wf_lit_class in H. unfold class_tok in H. apply andb_true_iff in H as [_ H].
  eapply forall_s_imp; [|exact H]. apply class_printable.
Qed.

Lemma pure_word_tok s : pure_word s = true -> tok_ok s = true.
Proof.
  unfold pure_word, tok_ok. intros H. apply andb_true_iff in H as [H1 H2]. rewrite H1. simpl.
  eapply forall_s_imp; [|exact H2]. intros c Hc. rewrite (word_nospace c Hc). reflexivity.
Qed.
Lemma pure_word_printable s : pure_word s = true -> forall_s printable s = true.
Proof.
  unfold pure_word. intros H. apply andb_true_iff in H as [_ H].
  eapply forall_s_imp; [|exact H]. apply word_printable.
Qed.
Lemma wf_sym_short s : wf_sym s = true -> short_word s = true.
Proof.
  unfold wf_sym, short_word, pure_word. intros H.
  apply andb_true_iff in H as [H H3]. apply andb_true_iff in H as [H1 H2].
  rewrite H1, H3. rewrite (forall_s_imp _ _ _ letter_word H2). reflexivity.
Qed.
Lemma short_pure s : short_word s = true -> pure_word s = true.
Proof. unfold short_word. intros H. apply andb_true_iff in H as [H _]. exact H. Qed.

Lemma letter_facts b l : l <= 7 ->
  is_word (letter_of b l) = true /\ angmom_of_char (letter_of b l) = Some l.
Proof.
  intros H. destruct b; do 8 (destruct l as [|l]; [vm_compute; auto|]); lia.
Qed.
Lemma letters_facts b ls : forallb (fun l => l <=? 7) ls = true ->
  forall_s is_word (letters b ls) = true /\ map_opt angmom_of_char (chars (letters b ls)) = Some ls.
Proof.
  induction ls as [|l r IH]; simpl; intros H; auto.
  apply andb_true_iff in H as [H1 H2]. apply Nat.leb_le in H1.
  destruct (letter_facts b l H1) as [Hw Ha]. destruct (IH H2) as [Hw' Ha'].
  rewrite Hw, Hw', Ha, Ha'. auto.
Qed.
Lemma letters_nonempty b ls : nonempty (letters false ls) = true -> nonempty (letters b ls) = true.
Proof. destruct ls; simpl; auto. Qed.

(* ------------------------------------------------------------------ wf_block unpacked *)
Record wfb (b : block) : Prop := {
  wfb_ne : nonempty (letters false (b_ls b)) = true;
  wfb_l7 : forallb (fun l => l <=? 7) (b_ls b) = true;
  wfb_k : 1 <= List.length (b_exps b);
  wfb_m : 1 <= List.length (b_cols b);
  wfb_exps : forallb wf_lit (b_exps b) = true;
  wfb_cols : forallb (fun col => (List.length col =? List.length (b_exps b)) && forallb wf_lit col) (b_cols b) = true;
  wfb_lm : List.length (b_ls b) = 1 \/ List.length (b_ls b) = List.length (b_cols b)
}.
Lemma wf_block_wfb b : wf_block b = true -> wfb b.
Proof.
  unfold wf_block. intros H. repeat (apply andb_true_iff in H as [H ?]).
  constructor; auto; try (apply Nat.leb_le; auto).
  apply orb_true_iff in H0 as [H0|H0]; apply Nat.eqb_eq in H0; auto.
Qed.

(* the tokens of row k are literals *)
Lemma row_toks_lits b k : wfb b -> k < List.length (b_exps b) ->
  forallb wf_lit (row_toks b k) = true /\ 2 <= List.length (row_toks b k).
Proof.
  intros W Hk. unfold row_toks. split.
  - simpl. rewrite (forallb_nth _ _ _ _ (wfb_exps b W) Hk). simpl.
    rewrite forallb_forall. intros x Hx. apply in_map_iff in Hx as [col [<- Hc]].
    pose proof (wfb_cols b W) as HC. rewrite forallb_forall in HC. specialize (HC col Hc).
    apply andb_true_iff in HC as [HC1 HC2]. apply Nat.eqb_eq in HC1.
    apply forallb_nth; auto. lia.
  - simpl. rewrite map_length. pose proof (wfb_m b W). lia.
Qed.

(* ------------------------------------------------------------------ classification of a printed row *)
Section RowLine.
  Variables (p : nat * nat * nat) (toks : list string).
  Hypothesis Hl : forallb wf_lit toks = true.
  Hypothesis H2 : 2 <= List.length toks.

  Lemma lits_tok_ok : forallb tok_ok toks = true.
  Proof. rewrite forallb_forall in *. intros x Hx. apply wf_lit_tok; auto. Qed.
  Lemma row_tokens : tokens (render p toks) = toks.
  Proof. apply tokens_render, lits_tok_ok. Qed.
  Lemma row_row_of : row_of (render p toks) = Some (hd "" toks, tl toks).
  Proof.
    unfold row_of. rewrite row_tokens. destruct toks as [|e [|c cs]]; simpl in H2; try lia.
    assert (forallb class_tok (e :: c :: cs) = true) as ->; auto.
    rewrite forallb_forall in *. intros x Hx. apply wf_lit_class; auto.
  Qed.
  Lemma row_not_blank : is_blank (render p toks) = false.
  Proof. unfold is_blank. rewrite row_tokens. destruct toks; simpl in H2; [lia|reflexivity]. Qed.
  Lemma row_first_notword : pure_word (hd "" toks) = false.
  Proof.
    destruct toks; simpl in *; [lia|]. apply andb_true_iff in Hl as [Hs _]. apply wf_lit_notword; auto.
  Qed.
  Lemma row_header_nw : header_nw (render p toks) = None.
  Proof.
    unfold header_nw. rewrite row_tokens. pose proof row_first_notword as Hw.
    destruct toks as [|e [|c [|c2 cs]]]; auto. simpl in Hw. unfold short_word. rewrite Hw. reflexivity.
  Qed.
  Lemma row_header_gbs : header_gbs (render p toks) = None.
  Proof.
    unfold header_gbs. rewrite row_tokens. pose proof row_first_notword as Hw.
    destruct toks as [|e [|c [|c2 cs]]]; auto. simpl in Hw. unfold short_word. rewrite Hw. reflexivity.
  Qed.
  Lemma row_sheader_gbs : sheader_gbs (render p toks) = None.
  Proof.
    unfold sheader_gbs. rewrite row_tokens. pose proof row_first_notword as Hw.
    destruct toks as [|e [|c [|c2 [|c3 cs]]]]; auto. simpl in Hw. rewrite Hw. reflexivity.
  Qed.
  Lemma row_not_bad : bad_gbs_line (render p toks) = false.
  Proof.
    unfold bad_gbs_line. rewrite row_tokens.
    destruct (rev toks) as [|c [|b rest]] eqn:E; auto.
    - apply (f_equal (@List.length string)) in E. rewrite rev_length in E. simpl in E. lia.
    - assert (In b toks) as Hb. { apply in_rev. rewrite E. simpl. auto. }
      rewrite forallb_forall in Hl. rewrite (wf_lit_notword b (Hl b Hb)).
      rewrite andb_false_r. reflexivity.
  Qed.
  Lemma row_printable : forall_s printable (render p toks) = true.
  Proof.
    apply printable_render. rewrite forallb_forall in *. intros x Hx. apply wf_lit_printable; auto.
  Qed.
End RowLine.

(* ------------------------------------------------------------------ re.split at line level *)
Section SplitP.
  Context {H : Type} (hdr : string -> option H).

  Lemma segs_nohdr_false B rest :
    Forall (fun l => hdr l = None) B ->
    segs hdr false (B ++ rest) = (B ++ fst (segs hdr false rest), snd (segs hdr false rest)).
  Proof.
    induction 1 as [|l B Hl HB IH]; simpl.
    - destruct (segs hdr false rest); reflexivity.
    - rewrite IH, Hl. destruct (is_blank l); reflexivity.
  Qed.
  Lemma segs_nohdr_true B rest :
    Forall (fun l => hdr l = None) B ->
    existsb (fun l => negb (is_blank l)) B = true ->
    segs hdr true (B ++ rest) = (B ++ fst (segs hdr false rest), snd (segs hdr false rest)).
  Proof.
    induction 1 as [|l B Hl HB IH]; simpl; [discriminate|].
    intros Hex. destruct (is_blank l) eqn:E; simpl in Hex.
    - rewrite IH by auto. reflexivity.
    - rewrite segs_nohdr_false by auto. reflexivity.
  Qed.
  Lemma segs_hdr l h r :
    is_blank l = false -> hdr l = Some h ->
    segs hdr false (l :: r) = ([], (h, fst (segs hdr true r)) :: snd (segs hdr true r)).
  Proof.
    intros Hb Hh. simpl. rewrite Hb, Hh. destruct (segs hdr true r); reflexivity.
  Qed.
  (* a header line, its body (no header lines, at least one non-blank line), then anything *)
  Lemma segs_block F l h B rest :
    Forall (fun l => hdr l = None) F ->
    is_blank l = false -> hdr l = Some h ->
    Forall (fun l => hdr l = None) B ->
    existsb (fun l => negb (is_blank l)) B = true ->
    segs hdr false ((F ++ [l] ++ B) ++ rest)
    = (F, (h, B ++ fst (segs hdr false rest)) :: snd (segs hdr false rest)).
  Proof.
    intros HF Hb Hh HB Hex. rewrite <- !app_assoc. rewrite segs_nohdr_false by auto.
    change ([l] ++ B ++ rest) with (l :: (B ++ rest)).
    rewrite (segs_hdr l h) by auto. rewrite segs_nohdr_true by auto. cbn [fst snd].
    rewrite app_nil_r. reflexivity.
  Qed.
End SplitP.

(* ------------------------------------------------------------------ the rows of a block *)
Lemma Forall_mapi_from {A B} (P : B -> Prop) (f : nat -> A -> list B) l : forall n,
  (forall k x, In x l -> Forall P (f k x)) -> Forall P (mapi_from n f l).
Proof.
  induction l; simpl; intros n Hf; auto. apply Forall_app. split; auto.
Qed.

Definition good_rows (rows : list (list string)) : Prop :=
  forall row, In row rows -> forallb wf_lit row = true /\ 2 <= List.length row.

Section Rows.
  Variables (L : layout) (pos : list nat) (rows : list (list string)).
  Hypothesis Hrows : good_rows rows.

  (* any property that holds of filler lines and of rendered rows holds of every printed line *)
  Lemma print_rows_Forall (P : string -> Prop) :
    (forall q, Forall P (lay_fill L q)) ->
    (forall q row, forallb wf_lit row = true -> 2 <= List.length row -> P (render q row)) ->
    Forall P (print_rows L pos rows).
  Proof.
    intros Hf Hr. unfold print_rows. apply Forall_mapi_from. intros k row Hin.
    apply Forall_app. split; auto. constructor; auto. destruct (Hrows row Hin). apply Hr; auto.
  Qed.

  Lemma print_rows_rows :
    (forall q, Forall (fun l => row_of l = None) (lay_fill L q)) ->
    filter_map row_of (print_rows L pos rows) = map (fun row => (hd "" row, tl row)) rows.
  Proof.
    intros Hf. unfold print_rows. generalize 0. revert Hrows.
    induction rows as [|row r IH]; intros Hg n; simpl; auto.
    rewrite <- app_assoc, !filter_map_app. rewrite filter_map_none by auto. simpl.
    destruct (Hg row) as [G1 G2]; [left; auto|]. rewrite row_row_of by auto.
    cbn [app]. f_equal. apply IH. intros x Hx. apply Hg. right; auto.
  Qed.

  Lemma print_rows_nonblank :
    rows <> [] -> existsb (fun l => negb (is_blank l)) (print_rows L pos rows) = true.
  Proof.
    intros Hne. unfold print_rows. generalize 0. destruct rows as [|row r]; [congruence|]. intros n.
    simpl. rewrite !existsb_app. simpl.
    destruct (Hrows row) as [G1 G2]; [left; auto|]. rewrite row_not_blank by auto.
    simpl. rewrite orb_true_r. reflexivity.
  Qed.
End Rows.

Lemma block_rows_good b : wfb b -> good_rows (block_rows b).
Proof.
  intros W row Hin. unfold block_rows in Hin. apply in_map_iff in Hin as [k [<- Hk]].
  apply in_seq in Hk. apply row_toks_lits; auto. lia.
Qed.
Lemma block_rows_ne b : wfb b -> block_rows b <> [].
Proof.
  intros W. unfold block_rows. pose proof (wfb_k b W). destruct (b_exps b); simpl in *; [lia|discriminate].
Qed.

(* what the parsers recover from the rows of a block *)
Lemma block_rows_exps b :
  map fst (map (fun row => (hd "" row, tl row)) (block_rows b)) = b_exps b.
Proof.
  unfold block_rows. rewrite !map_map. simpl. apply map_nth_seq.
Qed.
Lemma block_rows_coefs b :
  map snd (map (fun row => (hd "" row, tl row)) (block_rows b))
  = map (fun k => map (fun col => nth k col "") (b_cols b)) (seq 0 (List.length (b_exps b))).
Proof. unfold block_rows. rewrite !map_map. reflexivity. Qed.

Lemma nth_map_default {A B} (f : A -> B) l k d d' :
  k < List.length l -> nth k (map f l) d' = f (nth k l d).
Proof. revert k. induction l; simpl; intros k Hk; [lia|]. destruct k; auto. apply IHl. lia. Qed.

Lemma transpose_some rows M :
  rows <> [] -> Forall (fun r : list string => List.length r = M) rows ->
  transpose rows = Some (cols_of_rows M rows).
Proof.
  intros Hne HF. destruct rows as [|r0 rs]; [congruence|]. unfold transpose.
  assert (List.length r0 = M) as H0 by (inversion HF; auto).
  assert (forallb (fun r : list string => List.length r =? List.length r0) (r0 :: rs) = true) as ->.
  { rewrite forallb_forall. intros r Hr. rewrite Forall_forall in HF. rewrite (HF r Hr), H0.
    apply Nat.eqb_refl. }
  rewrite H0. reflexivity.
Qed.

Lemma transpose_rows (cols : list (list string)) K :
  1 <= K -> Forall (fun col => List.length col = K) cols ->
  transpose (map (fun k => map (fun col => nth k col "") cols) (seq 0 K)) = Some cols.
Proof.
  intros HK Hc. rewrite (transpose_some _ (List.length cols)).
  - f_equal. unfold cols_of_rows.
    rewrite <- (map_nth_seq cols []) at 2.
    apply map_ext_in. intros j Hj. apply in_seq in Hj. rewrite map_map.
    rewrite Forall_forall in Hc. assert (In (nth j cols []) cols) as Hin by (apply nth_In; lia).
    rewrite <- (map_nth_seq (nth j cols []) "") at 1. rewrite (Hc _ Hin).
    apply map_ext_in. intros k Hk. rewrite (nth_map_default _ cols j [] ""); auto. lia.
  - destruct K; [lia|]. simpl. discriminate.
  - rewrite Forall_forall. intros r Hr. apply in_map_iff in Hr as [k [<- _]]. apply map_length.
Qed.

Lemma good_rows_float rows : good_rows rows ->
  rows_float_ok (map (fun row => (hd "" row, tl row)) rows) = true.
Proof.
  intros Hg. unfold rows_float_ok. rewrite forallb_forall. intros r Hr.
  apply in_map_iff in Hr as [row [<- Hin]]. destruct (Hg row Hin) as [G1 G2].
  destruct row as [|e cs]; simpl in *; [lia|]. apply andb_true_iff in G1 as [Ge Gc].
  rewrite (wf_lit_float e Ge). simpl. rewrite forallb_forall in *. intros x Hx. apply wf_lit_float; auto.
Qed.

Lemma wfb_cols_len b : wfb b -> Forall (fun col => List.length col = List.length (b_exps b)) (b_cols b).
Proof.
  intros W. rewrite Forall_forall. intros col Hc. pose proof (wfb_cols b W) as HC.
  rewrite forallb_forall in HC. specialize (HC col Hc). apply andb_true_iff in HC as [HC _].
  apply Nat.eqb_eq; auto.
Qed.

(* the rows of a block (followed by lines that are not rows), as seen by both parsers *)
Lemma body_rows L pos b B' : wfb b ->
  (forall q, Forall (fun l => row_of l = None) (lay_fill L q)) ->
  Forall (fun l => row_of l = None) B' ->
  rows_of_body (print_rows L pos (block_rows b) ++ B')
  = map (fun row => (hd "" row, tl row)) (block_rows b).
Proof.
  intros W Hf HB. unfold rows_of_body. rewrite filter_map_app, (filter_map_none _ B') by auto.
  rewrite app_nil_r. apply print_rows_rows; auto. apply block_rows_good; auto.
Qed.

(* parsers.py:69-70, one column per letter *)
Lemma combined_columns (exps : list string) (cols : list (list string)) ls : forall n,
  n + List.length ls <= List.length cols ->
  map_opt (fun il : nat * nat => match nth_error cols (fst il) with
                                 | Some col => Some (snd il, exps, [col])
                                 | None => None
                                 end) (enumerate_from n ls)
  = Some (map (fun lc => (fst lc, exps, [snd lc])) (combine ls (skipn n cols))).
Proof.
  induction ls as [|l r IH]; intros n Hn; simpl; auto.
  simpl in Hn. assert (n < List.length cols) as Hlt by lia.
  destruct (nth_error cols n) as [c|] eqn:E; [|apply nth_error_None in E; lia].
  rewrite IH by lia.
  assert (skipn n cols = c :: skipn (S n) cols) as ->.
  { clear -E. revert cols E. induction n; intros [|x xs] E; simpl in *; try discriminate.
    - congruence.
    - apply IHn; auto. }
  reflexivity.
Qed.

Lemma process_nw_block L pos b lo B' : wfb b ->
  (forall q, Forall (fun l => row_of l = None) (lay_fill L q)) ->
  Forall (fun l => row_of l = None) B' ->
  process_nw (letters lo (b_ls b)) (print_rows L pos (block_rows b) ++ B') = Some (expected_block b).
Proof.
  intros W Hf HB. unfold process_nw.
  destruct (letters_facts lo (b_ls b) (wfb_l7 b W)) as [_ ->].
  rewrite body_rows by auto. rewrite good_rows_float by (apply block_rows_good; auto). simpl negb. cbv iota.
  rewrite block_rows_exps, block_rows_coefs.
  rewrite transpose_rows; [| exact (wfb_k b W) | apply wfb_cols_len; auto].
  unfold expected_block. pose proof (wfb_ne b W) as Hne. pose proof (wfb_lm b W) as Hlm.
  destruct (b_ls b) as [|l [|l2 r]] eqn:E; simpl in Hne; try discriminate; auto.
  destruct Hlm as [Hlm|Hlm]; [simpl in Hlm; lia|].
  rewrite combined_columns by (rewrite Hlm; lia). reflexivity.
Qed.

(* ------------------------------------------------------------------ the dict *)
Lemma dict_get_set d a v : dict_get (dict_set d a v) a = v.
Proof.
  induction d as [|[k w] r IH]; simpl.
  - rewrite String.eqb_refl. reflexivity.
  - destruct (String.eqb k a) eqn:E; simpl; rewrite E; auto.
Qed.
Lemma dict_set_set d a v w : dict_set (dict_set d a v) a w = dict_set d a w.
Proof.
  induction d as [|[k u] r IH]; simpl.
  - rewrite String.eqb_refl. reflexivity.
  - destruct (String.eqb k a) eqn:E; simpl; rewrite E; congruence.
Qed.
Lemma dict_append_append d a s1 s2 :
  dict_append (dict_append d a s1) a s2 = dict_append d a (s1 ++ s2).
Proof. unfold dict_append. rewrite dict_get_set, dict_set_set, app_assoc. reflexivity. Qed.
Lemma dict_get_absent d a : ~ In a (keys d) -> dict_get d a = [].
Proof.
  induction d as [|[k w] r IH]; simpl; auto. intros H.
  destruct (String.eqb k a) eqn:E; [apply String.eqb_eq in E; tauto | apply IH; tauto].
Qed.
Lemma dict_set_absent d a v : ~ In a (keys d) -> dict_set d a v = d ++ [(a, v)].
Proof.
  induction d as [|[k w] r IH]; simpl; auto. intros H.
  destruct (String.eqb k a) eqn:E; [apply String.eqb_eq in E; tauto | rewrite IH; tauto].
Qed.
Lemma dict_append_absent d a s : ~ In a (keys d) -> dict_append d a s = d ++ [(a, s)].
Proof. intros H. unfold dict_append. rewrite dict_get_absent, dict_set_absent; auto. Qed.

Lemma nodupb_NoDup l : nodupb l = true -> NoDup l.
Proof.
  induction l as [|a r IH]; simpl; intros H; constructor.
  - apply andb_true_iff in H as [H _]. apply negb_true_iff in H. intros Hin.
    assert (existsb (String.eqb a) r = true); [|congruence].
    apply existsb_exists. exists a. split; auto. apply String.eqb_refl.
  - apply IH. apply andb_true_iff in H as [_ H]. exact H.
Qed.

(* appending the expected shells of the elements one after the other gives [expected] *)
Lemma fold_expected (a : ast) : forall d,
  NoDup (keys d ++ map fst a) ->
  fold_left (fun d e => dict_append d (fst e) (expected_shells (snd e))) a d = d ++ expected a.
Proof.
  induction a as [|e r IH]; intros d Hnd; simpl.
  - rewrite app_nil_r. reflexivity.
  - simpl in Hnd. rewrite dict_append_absent.
    + rewrite IH.
      * rewrite <- app_assoc. reflexivity.
      * unfold keys in *. rewrite map_app. simpl. rewrite <- app_assoc. exact Hnd.
    + apply NoDup_remove_2 in Hnd. intros Hin. apply Hnd. apply in_or_app. left. exact Hin.
Qed.

(* ================================================================== NWChem round trip *)
Section NW.
  Variable L : layout.
  Hypothesis HL : layout_ok_nw L.

  Lemma filler_nw_facts s : filler_nw s = true ->
    forall_s printable s = true /\ header_nw s = None /\ row_of s = None.
  Proof.
    unfold filler_nw. intros H. apply andb_true_iff in H as [H H3]. apply andb_true_iff in H as [H1 H2].
    destruct (header_nw s); try discriminate. destruct (row_of s); try discriminate. auto.
  Qed.
  Lemma fillers_nw_Forall (P : string -> Prop) fs :
    (forall s, filler_nw s = true -> P s) -> forallb filler_nw fs = true -> Forall P fs.
  Proof. intros HP H. rewrite forallb_forall in H. apply Forall_forall. auto. Qed.
  Lemma fill_nw (P : string -> Prop) q :
    (forall s, filler_nw s = true -> P s) -> Forall P (lay_fill L q).
  Proof. intros HP. destruct HL as (_ & _ & H). eapply fillers_nw_Forall; eauto. Qed.
  Lemma fill_nw_row q : Forall (fun l => row_of l = None) (lay_fill L q).
  Proof. apply fill_nw. intros s Hs. apply filler_nw_facts in Hs. tauto. Qed.
  Lemma fill_nw_hdr q : Forall (fun l => header_nw l = None) (lay_fill L q).
  Proof. apply fill_nw. intros s Hs. apply filler_nw_facts in Hs. tauto. Qed.

  (* lines of [rest] that come before its first header are not rows *)
  Definition tail_ok (rest : list string) : Prop :=
    Forall (fun l => row_of l = None) (fst (segs header_nw false rest)).

  Lemma nw_header_line q sym lo ls :
    wf_sym sym = true -> nonempty (letters false ls) = true -> forallb (fun l => l <=? 7) ls = true ->
    let l := render q [sym; letters lo ls] in
    is_blank l = false /\ header_nw l = Some (sym, letters lo ls) /\ forall_s printable l = true.
  Proof.
    intros Hs Hne H7. cbv zeta.
    assert (pure_word (letters lo ls) = true) as Hpw.
    { unfold pure_word. rewrite letters_nonempty by auto. destruct (letters_facts lo ls H7) as [-> _]. reflexivity. }
    pose proof (wf_sym_short sym Hs) as Hsh.
    assert (tokens (render q [sym; letters lo ls]) = [sym; letters lo ls]) as Ht.
    { apply tokens_render. simpl. rewrite (pure_word_tok _ (short_pure _ Hsh)), (pure_word_tok _ Hpw). reflexivity. }
    unfold is_blank, header_nw. rewrite Ht, Hsh, Hpw. repeat split.
    apply printable_render. simpl.
    rewrite (pure_word_printable _ (short_pure _ Hsh)), (pure_word_printable _ Hpw). reflexivity.
  Qed.

  Lemma nw_block i sym j b rest d :
    wf_sym sym = true -> wfb b -> tail_ok rest ->
    parse_nw_from d (print_block_nw L i sym j b ++ rest)
      = parse_nw_from (dict_append d sym (expected_block b)) rest
    /\ tail_ok (print_block_nw L i sym j b ++ rest).
  Proof.
    intros Hs W Ht. unfold print_block_nw.
    destruct (nw_header_line (lay_pad L [i; j]) sym (lay_lower L [i; j]) (b_ls b) Hs (wfb_ne b W) (wfb_l7 b W))
      as (Hb & Hh & _).
    pose proof (block_rows_good b W) as Hg.
    assert (Forall (fun l => header_nw l = None) (print_rows L [i; j] (block_rows b))) as Hnh.
    { apply print_rows_Forall; auto. apply fill_nw_hdr. intros. apply row_header_nw; auto. }
    pose proof (print_rows_nonblank L [i; j] (block_rows b) Hg (block_rows_ne b W)) as Hex.
    unfold parse_nw_from, tail_ok.
    rewrite (segs_block header_nw _ _ _ _ rest (fill_nw_hdr [i; j]) Hb Hh Hnh Hex).
    cbn [fst snd]. split; [|apply fill_nw_row].
    cbn [fold_opt step_nw]. rewrite process_nw_block; auto. apply fill_nw_row.
  Qed.

  Lemma nw_blocks i sym bs : forall j rest d,
    wf_sym sym = true -> Forall wfb bs -> tail_ok rest ->
    parse_nw_from d (mapi_from j (print_block_nw L i sym) bs ++ rest)
      = parse_nw_from (fold_left (fun d b => dict_append d sym (expected_block b)) bs d) rest
    /\ tail_ok (mapi_from j (print_block_nw L i sym) bs ++ rest).
  Proof.
    induction bs as [|b r IH]; intros j rest d Hs HW Ht; simpl; auto.
    inversion HW as [|? ? Wb Wr]; subst. rewrite <- app_assoc.
    destruct (IH (S j) rest (dict_append d sym (expected_block b)) Hs Wr Ht) as [E1 T1].
    destruct (nw_block i sym j b _ d Hs Wb T1) as [E2 T2]. rewrite E2, E1. auto.
  Qed.

  Lemma fold_blocks sym bs : forall d, bs <> [] ->
    fold_left (fun d b => dict_append d sym (expected_block b)) bs d
    = dict_append d sym (expected_shells bs).
  Proof.
    intros d Hne. destruct bs as [|b r]; [congruence|]. clear Hne. simpl.
    unfold expected_shells. simpl. generalize (expected_block b) as s. revert d.
    induction r as [|b2 r IH]; intros d s; simpl.
    - rewrite app_nil_r. reflexivity.
    - rewrite dict_append_append, IH, app_assoc. reflexivity.
  Qed.

  Definition wfe (e : string * list block) : Prop :=
    wf_sym (fst e) = true /\ snd e <> [] /\ Forall wfb (snd e).

  Lemma nw_elems (a : ast) : forall i rest d,
    Forall wfe a -> tail_ok rest ->
    parse_nw_from d (mapi_from i (print_elem_nw L) a ++ rest)
      = parse_nw_from (fold_left (fun d e => dict_append d (fst e) (expected_shells (snd e))) a d) rest
    /\ tail_ok (mapi_from i (print_elem_nw L) a ++ rest).
  Proof.
    induction a as [|e r IH]; intros i rest d HW Ht; simpl; auto.
    inversion HW as [|? ? We Wr]; subst. destruct We as (Hs & Hne & Wb). rewrite <- app_assoc.
    destruct (IH (S i) rest (dict_append d (fst e) (expected_shells (snd e))) Wr Ht) as [E1 T1].
    unfold print_elem_nw at 1 3.
    destruct (nw_blocks i (fst e) (snd e) 0 _ d Hs Wb T1) as [E2 T2].
    rewrite E2, fold_blocks by auto. auto.
  Qed.

  Lemma nw_post d : parse_nw_from d (lay_post L) = Some d /\ tail_ok (lay_post L).
  Proof.
    destruct HL as (_ & Hpost & _).
    assert (Forall (fun l => header_nw l = None) (lay_post L)) as Hh.
    { eapply fillers_nw_Forall; eauto. intros s Hs. apply filler_nw_facts in Hs. tauto. }
    assert (Forall (fun l => row_of l = None) (lay_post L)) as Hr.
    { eapply fillers_nw_Forall; eauto. intros s Hs. apply filler_nw_facts in Hs. tauto. }
    unfold parse_nw_from, tail_ok. rewrite <- (app_nil_r (lay_post L)).
    rewrite segs_nohdr_false by auto. simpl. rewrite app_nil_r. auto.
  Qed.

  Lemma nw_printable (a : ast) : Forall wfe a -> nw_fragment (print_nwchem a L) = true.
  Proof.
    intros HW. unfold nw_fragment, print_nwchem. destruct HL as (Hpre & Hpost & Hfill).
    assert (forall fs, forallb filler_nw fs = true -> forallb (forall_s printable) fs = true) as Hfp.
    { intros fs H. rewrite forallb_forall in *. intros s Hs. specialize (H s Hs).
      apply filler_nw_facts in H. tauto. }
    rewrite !forallb_app, (Hfp _ Hpre), (Hfp _ Hpost), andb_true_r. simpl.
    apply forallb_mapi_from. intros i e He. rewrite Forall_forall in HW. destruct (HW e He) as (Hs & _ & Wb).
    unfold print_elem_nw. apply forallb_mapi_from. intros j b Hb. rewrite Forall_forall in Wb.
    specialize (Wb b Hb). unfold print_block_nw. rewrite !forallb_app, (Hfp _ (Hfill _)). simpl.
    destruct (nw_header_line (lay_pad L [i; j]) (fst e) (lay_lower L [i; j]) (b_ls b) Hs (wfb_ne b Wb) (wfb_l7 b Wb))
      as (_ & _ & ->). simpl.
    apply forallb_forall. apply Forall_forall. apply print_rows_Forall.
    - apply block_rows_good; auto.
    - intros q. apply Forall_forall. intros s Hs'. pose proof (Hfp _ (Hfill q)) as H. rewrite forallb_forall in H. auto.
    - intros. apply row_printable; auto.
  Qed.

  Lemma wf_ast_wfe a : wf_ast a = true -> Forall wfe a /\ NoDup (map fst a).
  Proof.
    unfold wf_ast. intros H. apply andb_true_iff in H as [H1 H2]. split; [|apply nodupb_NoDup; auto].
    rewrite forallb_forall in H1. apply Forall_forall. intros e He. specialize (H1 e He).
    apply andb_true_iff in H1 as [H1 H3]. apply andb_true_iff in H1 as [H1 H4]. apply Nat.leb_le in H4.
    repeat split; auto.
    - destruct (snd e); simpl in *; [lia|discriminate].
    - rewrite forallb_forall in H3. apply Forall_forall. intros b Hb. apply wf_block_wfb; auto.
  Qed.

  Theorem roundtrip_nwchem (a : ast) :
    wf_ast a = true -> parse_nwchem_model (print_nwchem a L) = Some (expected a).
  Proof.
    intros Hwf. destruct (wf_ast_wfe a Hwf) as [HW Hnd].
    unfold parse_nwchem_model. rewrite nw_printable by auto.
    unfold print_nwchem. destruct HL as (Hpre & _ & _).
    assert (Forall (fun l => header_nw l = None) (lay_pre L)) as Hh.
    { eapply fillers_nw_Forall; eauto. intros s Hs. apply filler_nw_facts in Hs. tauto. }
    unfold parse_nw_from. rewrite segs_nohdr_false by auto. cbn [snd].
    destruct (nw_post (fold_left (fun d e => dict_append d (fst e) (expected_shells (snd e))) a [])) as [Ep Tp].
    destruct (nw_elems a 0 (lay_post L) [] HW Tp) as [E _]. unfold parse_nw_from in E, Ep.
    rewrite E, Ep. rewrite fold_expected by (simpl; auto). reflexivity.
  Qed.
End NW.

(* ================================================================== Gaussian94 round trip *)
Definition dotword (c : ascii) : bool := is_word c || (code c =? 46).
Lemma dotword_nospace c : dotword c = true -> is_space c = false.
Proof. all_chars c. Qed.
Lemma dotword_printable c : dotword c = true -> printable c = true.
Proof. all_chars c. Qed.
Lemma word_notdot c : is_word c = true -> (code c =? 46) = false.
Proof. all_chars c. Qed.
Lemma word_dotword c : is_word c = true -> dotword c = true.
Proof. unfold dotword. intros ->. reflexivity. Qed.

Lemma ww_tail_dotword s : ww_tail s = true -> forall_s dotword s = true.
Proof.
  induction s as [|c r IH]; simpl; auto. destruct (code c =? 46) eqn:E.
  - intros H. unfold dotword at 1. rewrite E, orb_true_r. simpl.
    unfold pure_word in H. apply andb_true_iff in H as [_ H].
    eapply forall_s_imp; [|exact H]. apply word_dotword.
  - intros H. apply andb_true_iff in H as [H1 H2]. rewrite (word_dotword c H1). simpl. auto.
Qed.
Lemma is_ww_dotword s : is_ww s = true -> nonempty s = true /\ forall_s dotword s = true.
Proof.
  destruct s as [|c r]; simpl; [discriminate|]. intros H. apply andb_true_iff in H as [H1 H2].
  rewrite (word_dotword c H1), (ww_tail_dotword r H2). auto.
Qed.
Lemma is_ww_tok s : is_ww s = true -> tok_ok s = true.
Proof.
  intros H. destruct (is_ww_dotword s H) as [H1 H2]. unfold tok_ok. rewrite H1. simpl.
  eapply forall_s_imp; [|exact H2]. intros c Hc. rewrite (dotword_nospace c Hc). reflexivity.
Qed.
Lemma is_ww_printable s : is_ww s = true -> forall_s printable s = true.
Proof.
  intros H. destruct (is_ww_dotword s H) as [_ H2]. eapply forall_s_imp; [|exact H2]. apply dotword_printable.
Qed.
Lemma words_not_ww_tail s : forall_s is_word s = true -> ww_tail s = false.
Proof.
  induction s as [|c r IH]; simpl; auto. intros H. apply andb_true_iff in H as [H1 H2].
  rewrite (word_notdot c H1), (IH H2), andb_false_r. reflexivity.
Qed.
Lemma pure_word_not_ww s : pure_word s = true -> is_ww s = false.
Proof.
  unfold pure_word. intros H. apply andb_true_iff in H as [_ H]. destruct s as [|c r]; simpl in *; auto.
  apply andb_true_iff in H as [H1 H2]. rewrite (words_not_ww_tail r H2), andb_false_r. reflexivity.
Qed.

Lemma ssegs_nosh final B rest :
  Forall (fun l => sheader_gbs l = None) B ->
  ssegs final (B ++ rest) = (B ++ fst (ssegs final rest), snd (ssegs final rest)).
Proof.
  induction 1 as [|l B Hl HB IH]; simpl.
  - destruct (ssegs final rest); reflexivity.
  - rewrite IH, Hl. reflexivity.
Qed.
Lemma ssegs_sh final l g r :
  sheader_gbs l = Some g -> existsb (fun x => negb (is_blank x)) r = true ->
  ssegs final (l :: r) = ([], (g, fst (ssegs final r)) :: snd (ssegs final r)).
Proof.
  intros Hl Hex. simpl. rewrite Hl, Hex, orb_true_r. destruct (ssegs final r); reflexivity.
Qed.
Lemma ssegs_block final F l g B rest :
  Forall (fun l => sheader_gbs l = None) F ->
  sheader_gbs l = Some g ->
  Forall (fun l => sheader_gbs l = None) B ->
  existsb (fun x => negb (is_blank x)) B = true ->
  ssegs final ((F ++ [l] ++ B) ++ rest)
  = (F, (g, B ++ fst (ssegs final rest)) :: snd (ssegs final rest)).
Proof.
  intros HF Hl HB Hex. rewrite <- !app_assoc. rewrite ssegs_nosh by auto.
  change ([l] ++ B ++ rest) with (l :: (B ++ rest)).
  rewrite (ssegs_sh final l g) by (auto; rewrite existsb_app, Hex; reflexivity).
  rewrite ssegs_nosh by auto. cbn [fst snd]. rewrite app_nil_r. reflexivity.
Qed.

(* one unit per letter: the slices coeffs_seg[:, i:i+1] *)
Definition units (sb : block) : list shell :=
  map (fun lc => (fst lc, b_exps sb, [snd lc])) (combine (b_ls sb) (b_cols sb)).

Lemma sliced_columns (exps : list string) (cols : list (list string)) ls : forall n,
  n + List.length ls <= List.length cols ->
  map (fun il : nat * nat => (snd il, exps, match nth_error cols (fst il) with
                                            | Some col => [col]
                                            | None => []
                                            end)) (enumerate_from n ls)
  = map (fun lc => (fst lc, exps, [snd lc])) (combine ls (skipn n cols)).
Proof.
  induction ls as [|l r IH]; intros n Hn; simpl; auto.
  simpl in Hn. assert (n < List.length cols) as Hlt by lia.
  destruct (nth_error cols n) as [c|] eqn:E; [|apply nth_error_None in E; lia].
  rewrite IH by lia.
  assert (skipn n cols = c :: skipn (S n) cols) as ->.
  { clear -E. revert cols E. induction n; intros [|x xs] E; simpl in *; try discriminate.
    - congruence.
    - apply IHn; auto. }
  reflexivity.
Qed.

Lemma block_units_sub L pos sb lo B' : wfb sb -> List.length (b_ls sb) = List.length (b_cols sb) ->
  (forall q, Forall (fun l => row_of l = None) (lay_fill L q)) ->
  Forall (fun l => row_of l = None) B' ->
  block_units (letters lo (b_ls sb), print_rows L pos (block_rows sb) ++ B') = Some (units sb).
Proof.
  intros W Hlm Hf HB. unfold block_units.
  destruct (letters_facts lo (b_ls sb) (wfb_l7 sb W)) as [_ ->].
  rewrite body_rows by auto. rewrite good_rows_float by (apply block_rows_good; auto). simpl negb. cbv iota.
  destruct (map (fun row => (hd "" row, tl row)) (block_rows sb)) eqn:E.
  { exfalso. apply (block_rows_ne sb W). destruct (block_rows sb); [reflexivity|discriminate]. }
  rewrite <- E. clear E.
  rewrite block_rows_exps, block_rows_coefs.
  rewrite transpose_rows; [| exact (wfb_k sb W) | apply wfb_cols_len; auto].
  rewrite sliced_columns by (rewrite Hlm; lia). reflexivity.
Qed.

Lemma concat_map_single {A B} (f : A -> B) l : List.concat (map (fun x => [f x]) l) = map f l.
Proof. induction l; simpl; congruence. Qed.

Section GBS.
  Variable close : string -> string -> bool.
  Hypothesis close_refl : forall s, close s s = true.
  Variable L : layout.
  Hypothesis HL : layout_ok_gbs L.

  Lemma filler_gbs_facts s : filler_gbs s = true ->
    forall_s printable s = true /\ bad_gbs_line s = false /\
    header_gbs s = None /\ sheader_gbs s = None /\ row_of s = None.
  Proof.
    unfold filler_gbs. intros H. apply andb_true_iff in H as [H H5]. apply andb_true_iff in H as [H H4].
    apply andb_true_iff in H as [H H3]. apply andb_true_iff in H as [H1 H2].
    apply negb_true_iff in H2.
    destruct (header_gbs s); try discriminate. destruct (sheader_gbs s); try discriminate.
    destruct (row_of s); try discriminate. auto.
  Qed.
  Lemma fillers_gbs_Forall (P : string -> Prop) fs :
    (forall s, filler_gbs s = true -> P s) -> forallb filler_gbs fs = true -> Forall P fs.
  Proof. intros HP H. rewrite forallb_forall in H. apply Forall_forall. auto. Qed.
  Lemma fill_gbs (P : string -> Prop) q :
    (forall s, filler_gbs s = true -> P s) -> Forall P (lay_fill L q).
  Proof. intros HP. destruct HL as (_ & _ & H & _). eapply fillers_gbs_Forall; eauto. Qed.
  Lemma fill_gbs_row q : Forall (fun l => row_of l = None) (lay_fill L q).
  Proof. apply fill_gbs. intros s Hs. apply filler_gbs_facts in Hs. tauto. Qed.
  Lemma fill_gbs_sh q : Forall (fun l => sheader_gbs l = None) (lay_fill L q).
  Proof. apply fill_gbs. intros s Hs. apply filler_gbs_facts in Hs. tauto. Qed.
  Lemma fill_gbs_hdr q : Forall (fun l => header_gbs l = None) (lay_fill L q).
  Proof. apply fill_gbs. intros s Hs. apply filler_gbs_facts in Hs. tauto. Qed.
  Lemma tok2_ok q : pure_word (lay_tok2 L q) = true.
  Proof. destruct HL as (_ & _ & _ & H & _). auto. Qed.
  Lemma tok3_ok q : is_ww (lay_tok3 L q) = true.
  Proof. destruct HL as (_ & _ & _ & _ & H). auto. Qed.

  (* the shell header line *)
  Lemma gbs_sheader_line q lo ls t2 t3 :
    nonempty (letters false ls) = true -> forallb (fun l => l <=? 7) ls = true ->
    pure_word t2 = true -> is_ww t3 = true ->
    let l := render q [letters lo ls; t2; t3] in
    sheader_gbs l = Some (letters lo ls) /\ header_gbs l = None /\
    forall_s printable l = true /\ bad_gbs_line l = false.
  Proof.
    intros Hne H7 H2 H3. cbv zeta.
    assert (pure_word (letters lo ls) = true) as Hpw.
    { unfold pure_word. rewrite letters_nonempty by auto. destruct (letters_facts lo ls H7) as [-> _]. reflexivity. }
    assert (tokens (render q [letters lo ls; t2; t3]) = [letters lo ls; t2; t3]) as Ht.
    { apply tokens_render. simpl. rewrite (pure_word_tok _ Hpw), (pure_word_tok _ H2), (is_ww_tok _ H3). reflexivity. }
    unfold sheader_gbs, header_gbs, bad_gbs_line. rewrite Ht. simpl rev. rewrite Hpw, H2, H3. repeat split.
    - apply printable_render. simpl.
      rewrite (pure_word_printable _ Hpw), (pure_word_printable _ H2), (is_ww_printable _ H3). reflexivity.
    - rewrite Hpw. reflexivity.
  Qed.
  (* the element header line *)
  Lemma gbs_header_line q sym t2 :
    wf_sym sym = true -> pure_word t2 = true ->
    let l := render q [sym; t2] in
    is_blank l = false /\ header_gbs l = Some sym /\ forall_s printable l = true /\ bad_gbs_line l = false.
  Proof.
    intros Hs H2. cbv zeta. pose proof (wf_sym_short sym Hs) as Hsh.
    assert (tokens (render q [sym; t2]) = [sym; t2]) as Ht.
    { apply tokens_render. simpl. rewrite (pure_word_tok _ (short_pure _ Hsh)), (pure_word_tok _ H2). reflexivity. }
    unfold is_blank, header_gbs, bad_gbs_line. rewrite Ht. simpl rev. rewrite Hsh, H2.
    rewrite (pure_word_not_ww _ H2). repeat split.
    apply printable_render. simpl.
    rewrite (pure_word_printable _ (short_pure _ Hsh)), (pure_word_printable _ H2). reflexivity.
  Qed.

  (* ---- inside one element: the shell split *)
  Definition stail_ok (final : bool) (rest : list string) : Prop :=
    Forall (fun l => row_of l = None) (fst (ssegs final rest)).

  Definition subb (sb : block) : Prop := wfb sb /\ List.length (b_ls sb) = List.length (b_cols sb).

  Lemma gbs_sub final i j m sb rest :
    subb sb -> stail_ok final rest ->
    chunk_units final (print_sub_gbs L i j m sb ++ rest)
      = option_map (app (units sb)) (chunk_units final rest)
    /\ stail_ok final (print_sub_gbs L i j m sb ++ rest).
  Proof.
    intros [W Hlm] Ht. unfold print_sub_gbs.
    destruct (gbs_sheader_line (lay_pad L [i; j; m]) (lay_lower L [i; j; m]) (b_ls sb)
                (lay_tok2 L [i; j; m]) (lay_tok3 L [i; j; m]) (wfb_ne sb W) (wfb_l7 sb W) (tok2_ok _) (tok3_ok _))
      as (Hh & _).
    pose proof (block_rows_good sb W) as Hg.
    assert (Forall (fun l => sheader_gbs l = None) (print_rows L [i; j; m] (block_rows sb))) as Hnh.
    { apply print_rows_Forall; auto. apply fill_gbs_sh. intros. apply row_sheader_gbs; auto. }
    pose proof (print_rows_nonblank L [i; j; m] (block_rows sb) Hg (block_rows_ne sb W)) as Hex.
    unfold chunk_units, stail_ok.
    rewrite (ssegs_block final _ _ _ _ rest (fill_gbs_sh [i; j; m]) Hh Hnh Hex).
    cbn [fst snd]. split; [|apply fill_gbs_row].
    cbn [map concat_opt]. rewrite (block_units_sub L _ sb _ _ W Hlm fill_gbs_row Ht).
    destruct (concat_opt (map block_units (snd (ssegs final rest)))); reflexivity.
  Qed.

  Lemma option_map_app_app {A} (x y : list A) o :
    option_map (app x) (option_map (app y) o) = option_map (app (x ++ y)) o.
  Proof. destruct o; simpl; auto. rewrite app_assoc. reflexivity. Qed.

  Lemma gbs_subs final i j subs : forall m rest,
    Forall subb subs -> stail_ok final rest ->
    chunk_units final (mapi_from m (print_sub_gbs L i j) subs ++ rest)
      = option_map (app (List.concat (map units subs))) (chunk_units final rest)
    /\ stail_ok final (mapi_from m (print_sub_gbs L i j) subs ++ rest).
  Proof.
    induction subs as [|sb r IH]; intros m rest HW Ht; simpl.
    - split; auto. destruct (chunk_units final rest); reflexivity.
    - inversion HW as [|? ? Ws Wr]; subst. rewrite <- app_assoc.
      destruct (IH (S m) rest Wr Ht) as [E1 T1].
      destruct (gbs_sub final i j m sb _ Ws T1) as [E2 T2].
      rewrite E2, E1, option_map_app_app. auto.
  Qed.

  Definition U (b : block) : list shell := List.concat (map units (gbs_subblocks b)).

  Lemma subblocks_subb b : wfb b -> Forall subb (gbs_subblocks b).
  Proof.
    intros W. unfold gbs_subblocks. pose proof (wfb_ne b W) as Hne. pose proof (wfb_lm b W) as Hlm.
    destruct (b_ls b) as [|l [|l2 r]] eqn:E; simpl in Hne; try discriminate.
    - apply Forall_forall. intros sb Hsb. apply in_map_iff in Hsb as [col [<- Hc]].
      pose proof (wfb_cols b W) as HC. rewrite forallb_forall in HC. specialize (HC col Hc).
      apply andb_true_iff in HC as [HC1 HC2].
      split; [|reflexivity]. constructor; simpl; auto.
      + pose proof (wfb_l7 b W) as H7. rewrite E in H7. exact H7.
      + exact (wfb_k b W).
      + exact (wfb_exps b W).
      + rewrite HC1, HC2. reflexivity.
    - constructor; [|constructor]. split; auto. destruct Hlm as [Hlm|Hlm]; simpl in Hlm; [lia|].
      rewrite E. exact Hlm.
  Qed.

  Lemma gbs_blocks final i bs : forall j rest,
    Forall wfb bs -> stail_ok final rest ->
    chunk_units final (mapi_from j (print_block_gbs L i) bs ++ rest)
      = option_map (app (List.concat (map U bs))) (chunk_units final rest)
    /\ stail_ok final (mapi_from j (print_block_gbs L i) bs ++ rest).
  Proof.
    induction bs as [|b r IH]; intros j rest HW Ht; simpl.
    - split; auto. destruct (chunk_units final rest); reflexivity.
    - inversion HW as [|? ? Wb Wr]; subst. rewrite <- app_assoc.
      destruct (IH (S j) rest Wr Ht) as [E1 T1]. unfold print_block_gbs at 1 3.
      destruct (gbs_subs final i j (gbs_subblocks b) 0 _ (subblocks_subb b Wb) T1) as [E2 T2].
      rewrite E2, E1, option_map_app_app. auto.
  Qed.

  Lemma chunk_units_fillers final T :
    Forall (fun l => sheader_gbs l = None) T -> Forall (fun l => row_of l = None) T ->
    chunk_units final T = Some [] /\ stail_ok final T.
  Proof.
    intros H1 H2. unfold chunk_units, stail_ok. rewrite <- (app_nil_r T). rewrite ssegs_nosh by auto.
    simpl. rewrite app_nil_r. auto.
  Qed.

  (* ---- the merge rule *)
  Definition nf_after (acc S : list shell) : Prop :=
    no_fuse close (match rev acc with x :: _ => x :: S | [] => S end) = true.

  Lemma push_nofuse acc u S :
    nf_after acc (u :: S) -> push close acc u = acc ++ [u] /\ nf_after (acc ++ [u]) S.
  Proof.
    unfold nf_after, push. intros H. rewrite rev_app_distr. change (rev [u]) with [u]. cbn [app].
    destruct (rev acc) as [|x init].
    - split; auto.
    - cbn [no_fuse] in H. apply andb_true_iff in H as [H1 H2]. apply negb_true_iff in H1. rewrite H1. split; auto.
  Qed.

  Lemma push_list S : forall acc S',
    nf_after acc (S ++ S') -> fold_left (push close) S acc = acc ++ S /\ nf_after (acc ++ S) S'.
  Proof.
    induction S as [|u r IH]; intros acc S' H; simpl.
    - rewrite app_nil_r. auto.
    - simpl in H. destruct (push_nofuse acc u (r ++ S') H) as [-> H'].
      destruct (IH (acc ++ [u]) S' H') as [-> H'']. rewrite <- app_assoc in *. auto.
  Qed.

  Lemma forall2b_refl e : forall2b close e e = true.
  Proof. induction e; simpl; auto. rewrite close_refl, IHe. reflexivity. Qed.

  Lemma push_fuse acc l e cs c :
    push close (acc ++ [(l, e, cs)]) (l, e, [c]) = acc ++ [(l, e, cs ++ [c])].
  Proof.
    unfold push. rewrite rev_app_distr. simpl rev at 1. cbn [app]. unfold fuses.
    rewrite Nat.eqb_refl, Nat.eqb_refl, forall2b_refl. simpl. rewrite rev_involutive. reflexivity.
  Qed.
  Lemma push_columns l e r : forall acc cs,
    fold_left (push close) (map (fun c => (l, e, [c])) r) (acc ++ [(l, e, cs)]) = acc ++ [(l, e, cs ++ r)].
  Proof.
    induction r as [|c r IH]; intros acc cs; simpl.
    - rewrite app_nil_r. reflexivity.
    - rewrite push_fuse, IH, <- app_assoc. reflexivity.
  Qed.

  Lemma nf_after_cols acc l e cs cs' S :
    nf_after acc ((l, e, cs) :: S) -> nf_after acc ((l, e, cs') :: S).
  Proof.
    unfold nf_after. destruct (rev acc) as [|[[l0 e0] c0] init]; destruct S as [|[[l1 e1] c1] S]; simpl; auto.
  Qed.
  Lemma nf_after_last acc l e cs cs' S :
    nf_after (acc ++ [(l, e, cs)]) S -> nf_after (acc ++ [(l, e, cs')]) S.
  Proof.
    unfold nf_after. rewrite !rev_app_distr. simpl. destruct S as [|[[l1 e1] c1] S]; simpl; auto.
  Qed.

  Lemma push_block b acc S' : wfb b ->
    nf_after acc (expected_block b ++ S') ->
    fold_left (push close) (U b) acc = acc ++ expected_block b /\ nf_after (acc ++ expected_block b) S'.
  Proof.
    intros W. unfold U, expected_block, gbs_subblocks.
    pose proof (wfb_ne b W) as Hne. pose proof (wfb_m b W) as Hm.
    destruct (b_ls b) as [|l [|l2 r]] eqn:E; simpl in Hne; try discriminate.
    - (* one letter: M one-column blocks, fused back *)
      intros H. rewrite map_map. unfold units. simpl.
      rewrite (concat_map_single (fun c : list string => ((l, b_exps b, [c]) : shell))).
      destruct (b_cols b) as [|c0 cs]; simpl in Hm; [lia|]. simpl map. simpl fold_left.
      simpl app in H. apply (nf_after_cols acc l (b_exps b) _ [c0]) in H.
      destruct (push_nofuse acc _ _ H) as [-> H'].
      rewrite push_columns. simpl. split; auto. eapply nf_after_last; eauto.
    - (* combined block: one unit per letter, nothing fuses *)
      intros H. simpl map. cbn [List.concat]. rewrite app_nil_r. unfold units. rewrite E.
      apply push_list. exact H.
  Qed.

  Lemma push_blocks bs : forall acc,
    Forall wfb bs -> nf_after acc (expected_shells bs) ->
    fold_left (push close) (List.concat (map U bs)) acc = acc ++ expected_shells bs.
  Proof.
    induction bs as [|b r IH]; intros acc HW H; simpl.
    - unfold expected_shells. simpl. rewrite app_nil_r. reflexivity.
    - inversion HW as [|? ? Wb Wr]; subst. rewrite fold_left_app.
      unfold expected_shells in *. simpl in *.
      destruct (push_block b acc _ Wb H) as [-> H']. rewrite IH by auto. rewrite app_assoc. reflexivity.
  Qed.

  (* ---- every printed line of an element body / of the file satisfies P *)
  Section LinesForall.
    Variable P : string -> Prop.
    Hypothesis HPf : forall s, filler_gbs s = true -> P s.
    Hypothesis HPs : forall q lo ls p2 p3, nonempty (letters false ls) = true ->
      forallb (fun l => l <=? 7) ls = true -> P (render q [letters lo ls; lay_tok2 L p2; lay_tok3 L p3]).
    Hypothesis HPr : forall q row, forallb wf_lit row = true -> 2 <= List.length row -> P (render q row).

    Lemma gbs_sub_Forall i j m sb : subb sb -> Forall P (print_sub_gbs L i j m sb).
    Proof.
      intros [W _]. unfold print_sub_gbs. apply Forall_app. split; [apply fill_gbs; auto|].
      apply Forall_app. split.
      - constructor; auto. apply HPs; [exact (wfb_ne sb W) | exact (wfb_l7 sb W)].
      - apply print_rows_Forall; auto. apply block_rows_good; auto. intros q. apply fill_gbs; auto.
    Qed.
    Lemma gbs_body_Forall i bs : forall j, Forall wfb bs -> Forall P (mapi_from j (print_block_gbs L i) bs).
    Proof.
      intros j HW. apply Forall_mapi_from. intros k b Hb. rewrite Forall_forall in HW.
      unfold print_block_gbs. apply Forall_mapi_from. intros m sb Hsb.
      pose proof (subblocks_subb b (HW b Hb)) as Hs. rewrite Forall_forall in Hs. apply gbs_sub_Forall; auto.
    Qed.
  End LinesForall.

  Lemma sheader_not_blank l g : sheader_gbs l = Some g -> is_blank l = false.
  Proof. unfold sheader_gbs, is_blank. destruct (tokens l); [discriminate|reflexivity]. Qed.

  Lemma existsb_mapi_from_first {A B} (p : B -> bool) (f : nat -> A -> list B) l n :
    l <> [] -> (forall k x, In x l -> existsb p (f k x) = true) -> existsb p (mapi_from n f l) = true.
  Proof.
    intros Hne H. destruct l as [|a r]; [congruence|]. simpl. rewrite existsb_app, H by (left; auto). reflexivity.
  Qed.

  Lemma gbs_body_nonblank i bs j : bs <> [] -> Forall wfb bs ->
    existsb (fun l => negb (is_blank l)) (mapi_from j (print_block_gbs L i) bs) = true.
  Proof.
    intros Hne HW. apply existsb_mapi_from_first; auto. intros k b Hb. rewrite Forall_forall in HW.
    specialize (HW b Hb). unfold print_block_gbs. apply existsb_mapi_from_first.
    - unfold gbs_subblocks. pose proof (wfb_m b HW). destruct (b_ls b) as [|l [|l2 r]]; try discriminate.
      destruct (b_cols b); simpl in *; [lia|discriminate].
    - intros m sb Hsb. pose proof (subblocks_subb b HW) as Hs. rewrite Forall_forall in Hs.
      destruct (Hs sb Hsb) as [W _]. unfold print_sub_gbs. rewrite !existsb_app. simpl.
      destruct (gbs_sheader_line (lay_pad L [i; k; m]) (lay_lower L [i; k; m]) (b_ls sb)
                  (lay_tok2 L [i; k; m]) (lay_tok3 L [i; k; m]) (wfb_ne sb W) (wfb_l7 sb W) (tok2_ok _) (tok3_ok _))
        as (Hh & _).
      rewrite (sheader_not_blank _ _ Hh). simpl. rewrite orb_true_r. reflexivity.
  Qed.

  (* ---- the element split *)
  Definition etail_ok (rest : list string) : Prop :=
    Forall (fun l => sheader_gbs l = None) (fst (segs header_gbs false rest)) /\
    Forall (fun l => row_of l = None) (fst (segs header_gbs false rest)).

  Lemma gbs_elem i e rest d :
    wfe e -> no_fuse close (expected_shells (snd e)) = true -> ~ In (fst e) (keys d) -> etail_ok rest ->
    parse_gbs_from close d (print_elem_gbs L i e ++ rest)
      = parse_gbs_from close (d ++ [(fst e, expected_shells (snd e))]) rest
    /\ etail_ok (print_elem_gbs L i e ++ rest).
  Proof.
    intros (Hs & Hne & HW) Hnf Hnin [Ht1 Ht2]. unfold print_elem_gbs.
    destruct (gbs_header_line (lay_pad L [i]) (fst e) (lay_tok2 L [i]) Hs (tok2_ok _)) as (Hb & Hh & _).
    assert (Forall (fun l => header_gbs l = None) (mapi_from 0 (print_block_gbs L i) (snd e))) as Hnh.
    { apply gbs_body_Forall; auto.
      - intros s Hf. apply filler_gbs_facts in Hf. tauto.
      - intros q lo ls p2 p3 H1 H2.
        destruct (gbs_sheader_line q lo ls (lay_tok2 L p2) (lay_tok3 L p3) H1 H2 (tok2_ok _) (tok3_ok _)); tauto.
      - intros. apply row_header_gbs; auto. }
    pose proof (gbs_body_nonblank i (snd e) 0 Hne HW) as Hex.
    unfold parse_gbs_from, etail_ok.
    rewrite (segs_block header_gbs _ _ _ _ rest (fill_gbs_hdr [i]) Hb Hh Hnh Hex).
    cbn [fst snd]. split; [|split; [apply fill_gbs_sh | apply fill_gbs_row]].
    cbn [run_chunks].
    set (final := match snd (segs header_gbs false rest) with [] => true | _ :: _ => false end).
    destruct (chunk_units_fillers final _ Ht1 Ht2) as [Ec Tc].
    destruct (gbs_blocks final i (snd e) 0 _ HW Tc) as [Eb _].
    rewrite Eb, Ec. cbn [option_map]. rewrite app_nil_r.
    rewrite dict_get_absent, dict_set_absent by auto.
    rewrite push_blocks by auto. reflexivity.
  Qed.

  Definition wfe_gbs (e : string * list block) : Prop :=
    wfe e /\ no_fuse close (expected_shells (snd e)) = true.

  Lemma gbs_elems (a : ast) : forall i rest d,
    Forall wfe_gbs a -> NoDup (keys d ++ map fst a) -> etail_ok rest ->
    parse_gbs_from close d (mapi_from i (print_elem_gbs L) a ++ rest)
      = parse_gbs_from close (d ++ expected a) rest
    /\ etail_ok (mapi_from i (print_elem_gbs L) a ++ rest).
  Proof.
    induction a as [|e r IH]; intros i rest d HW Hnd Ht; simpl.
    - rewrite app_nil_r. auto.
    - inversion HW as [|? ? [We Wn] Wr]; subst. rewrite <- app_assoc. simpl in Hnd.
      assert (~ In (fst e) (keys d)) as Hnin.
      { apply NoDup_remove_2 in Hnd. intros Hin. apply Hnd. apply in_or_app. left. exact Hin. }
      assert (NoDup (keys (d ++ [(fst e, expected_shells (snd e))]) ++ map fst r)) as Hnd'.
      { unfold keys in *. rewrite map_app. simpl. rewrite <- app_assoc. exact Hnd. }
      destruct (IH (S i) rest _ Wr Hnd' Ht) as [E1 T1].
      destruct (gbs_elem i e _ d We Wn Hnin T1) as [E2 T2].
      rewrite E2, E1, <- app_assoc. auto.
  Qed.

  Lemma gbs_post d : parse_gbs_from close d (lay_post L) = Some d /\ etail_ok (lay_post L).
  Proof.
    destruct HL as (_ & Hpost & _).
    assert (Forall (fun l => header_gbs l = None) (lay_post L)) as Hh.
    { eapply fillers_gbs_Forall; eauto. intros s Hs. apply filler_gbs_facts in Hs. tauto. }
    assert (Forall (fun l => row_of l = None) (lay_post L)) as Hr.
    { eapply fillers_gbs_Forall; eauto. intros s Hs. apply filler_gbs_facts in Hs. tauto. }
    assert (Forall (fun l => sheader_gbs l = None) (lay_post L)) as Hsh.
    { eapply fillers_gbs_Forall; eauto. intros s Hs. apply filler_gbs_facts in Hs. tauto. }
    unfold parse_gbs_from, etail_ok. rewrite <- (app_nil_r (lay_post L)).
    rewrite segs_nohdr_false by auto. simpl. rewrite app_nil_r. auto.
  Qed.

  Lemma gbs_in_fragment (a : ast) : Forall wfe a -> gbs_fragment (print_gbs a L) = true.
  Proof.
    intros HW. unfold gbs_fragment, print_gbs. destruct HL as (Hpre & Hpost & Hfill & _).
    set (P := fun l => forall_s printable l && negb (bad_gbs_line l) = true).
    assert (forall s, filler_gbs s = true -> P s) as HPf.
    { intros s Hs. apply filler_gbs_facts in Hs. destruct Hs as (H1 & H2 & _). unfold P. rewrite H1, H2. reflexivity. }
    apply forallb_forall. apply Forall_forall.
    apply Forall_app. split; [eapply fillers_gbs_Forall; eauto|].
    apply Forall_app. split; [|eapply fillers_gbs_Forall; eauto].
    apply Forall_mapi_from. intros i e He. rewrite Forall_forall in HW. destruct (HW e He) as (Hs & _ & Wb).
    unfold print_elem_gbs. apply Forall_app. split; [apply fill_gbs; auto|].
    apply Forall_app. split.
    - constructor; auto.
      destruct (gbs_header_line (lay_pad L [i]) (fst e) (lay_tok2 L [i]) Hs (tok2_ok _)) as (_ & _ & H1 & H2).
      unfold P. rewrite H1, H2. reflexivity.
    - apply gbs_body_Forall; auto.
      + intros q lo ls p2 p3 H1 H2.
        destruct (gbs_sheader_line q lo ls (lay_tok2 L p2) (lay_tok3 L p3) H1 H2 (tok2_ok _) (tok3_ok _))
          as (_ & _ & H3 & H4).
        unfold P. rewrite H3, H4. reflexivity.
      + intros q row H1 H2. unfold P. rewrite row_printable, row_not_bad by auto. reflexivity.
  Qed.

  Theorem roundtrip_gbs (a : ast) :
    wf_ast_gbs close a = true -> parse_gbs_model close (print_gbs a L) = Some (expected a).
  Proof.
    intros Hwf. unfold wf_ast_gbs in Hwf. apply andb_true_iff in Hwf as [Hwf Hnf].
    destruct (wf_ast_wfe a Hwf) as [HW Hnd].
    unfold parse_gbs_model. rewrite gbs_in_fragment by auto.
    assert (Forall wfe_gbs a) as HWg.
    { rewrite forallb_forall in Hnf. rewrite Forall_forall in *. intros e He. split; auto. }
    unfold print_gbs. destruct HL as (Hpre & _ & _).
    assert (Forall (fun l => header_gbs l = None) (lay_pre L)) as Hh.
    { eapply fillers_gbs_Forall; eauto. intros s Hs. apply filler_gbs_facts in Hs. tauto. }
    unfold parse_gbs_from. rewrite segs_nohdr_false by auto. cbn [snd].
    destruct (gbs_post (expected a)) as [Ep Tp].
    destruct (gbs_elems a 0 (lay_post L) [] HWg Hnd Tp) as [E _]. unfold parse_gbs_from in E, Ep.
    rewrite E. simpl app. exact Ep.
  Qed.
End GBS.

(* ================================================================== make_contractions *)
Section MC.
  Context {C : Type}.
  Notation contraction := (@contraction C).

  Definition c_place (c : contraction) : nat * C * shell := fst c.
  Definition c_type (c : contraction) : string := snd c.

  (* where the shells must go: atom after atom, each atom's shells in the order of the dict *)
  Fixpoint placed_from (d : dict) (ic : nat) (ats : list (string * C)) : list (nat * C * shell) :=
    match ats with
    | [] => []
    | (a, co) :: r =>
        map (fun sh => (ic, co, sh)) (match dict_find d a with Some s => s | None => [] end)
        ++ placed_from d (S ic) r
    end.
  Definition expand (ct : ctypes) (n : nat) : list string :=
    match ct with CStr s => repeat s n | CList l => l | CTuple l => l end.

  Lemma place_spec ic co shells : forall types out rest,
    place ic co shells types = Some (out, rest) ->
    exists ts, types = ts ++ rest /\ List.length ts = List.length shells /\
               map c_place out = map (fun sh => (ic, co, sh)) shells /\
               map (fun c => Some (c_type c)) out = map norm_type ts.
  Proof.
    induction shells as [|sh r IH]; intros types out rest H; simpl in H.
    - inversion H; subst. exists []. auto.
    - destruct types as [|t ts]; [discriminate|].
      destruct (norm_type t) as [t'|] eqn:Et; [|discriminate].
      destruct (place ic co r ts) as [[out' rest']|] eqn:Ep; [|discriminate].
      inversion H; subst. destruct (IH ts out' rest Ep) as (ts' & -> & Hl & Hp & Hty).
      exists (t :: ts'). simpl. rewrite Et. unfold c_place, c_type in *. simpl. repeat split; congruence.
  Qed.

  Lemma place_all_spec d ats : forall ic types out,
    place_all d ic ats types = Some out ->
    exists ts rest, types = ts ++ rest /\ List.length ts = List.length out /\
                    map c_place out = placed_from d ic ats /\
                    map (fun c => Some (c_type c)) out = map norm_type ts.
  Proof.
    induction ats as [|[a co] r IH]; intros ic types out H; simpl in H.
    - inversion H; subst. exists [], types. auto.
    - simpl. destruct (dict_find d a) as [shells|]; [|discriminate].
      destruct (place ic co shells types) as [[o1 rest1]|] eqn:Ep; [|discriminate].
      destruct (place_all d (S ic) r rest1) as [o2|] eqn:Ea; [|discriminate].
      inversion H; subst.
      destruct (place_spec _ _ _ _ _ _ Ep) as (ts1 & -> & Hl1 & Hp1 & Ht1).
      destruct (IH _ _ _ Ea) as (ts2 & rest & -> & Hl2 & Hp2 & Ht2).
      assert (List.length o1 = List.length ts1) as Hlo.
      { rewrite <- (map_length c_place o1), Hp1, map_length. auto. }
      exists (ts1 ++ ts2), rest. rewrite !map_app, !app_length, Hp1, Hp2, Ht1, Ht2, Hl2, Hlo, <- app_assoc.
      repeat split; auto.
  Qed.

  Lemma placed_length d ats : forall ic,
    List.length (placed_from d ic ats)
    = list_sum (map (fun ac : string * C => List.length (match dict_find d (fst ac) with Some s => s | None => [] end)) ats).
  Proof.
    induction ats as [|[a co] r IH]; intros ic; simpl; auto. rewrite app_length, map_length, IH. reflexivity.
  Qed.

  Lemma total_shells_sum d atoms (coords : list C) n :
    List.length atoms = List.length coords -> total_shells d atoms = Some n ->
    n = list_sum (map (fun ac : string * C => List.length (match dict_find d (fst ac) with Some s => s | None => [] end))
                      (combine atoms coords)).
  Proof.
    unfold total_shells. revert coords n. induction atoms as [|a r IH]; intros coords n Hl H; simpl in *.
    - inversion H; auto.
    - destruct coords as [|co cs]; [discriminate|]. simpl in *.
      destruct (dict_find d a) as [s|]; [|discriminate].
      destruct (map_opt (dict_find d) r) as [ss|] eqn:E; [|discriminate].
      inversion H; subst. simpl. f_equal. apply IH; auto.
  Qed.

  (* atom order, shells of each atom in dict order at that atom's coordinates, icenter = atom index,
     types assigned shell by shell in order, as many contractions as shells *)
  Theorem mc_spec d atoms (coords : list C) ct res :
    fst (make_contractions_model (d, atoms, coords, ct)) = Some res ->
    List.length atoms = List.length coords /\
    map c_place res = placed_from d 0 (combine atoms coords) /\
    map (fun c => Some (c_type c)) res = map norm_type (expand ct (List.length res)) /\
    total_shells d atoms = Some (List.length res).
  Proof.
    unfold make_contractions_model. cbn [fst].
    destruct (List.length atoms =? List.length coords) eqn:El; [|discriminate]. apply Nat.eqb_eq in El.
    cbn [negb]. destruct (total_shells d atoms) as [n|] eqn:Et; [|discriminate].
    assert (forall tl, List.length tl = n -> place_all d 0 (combine atoms coords) tl = Some res ->
            tl = expand ct (List.length res) ->
            List.length atoms = List.length coords /\
            map c_place res = placed_from d 0 (combine atoms coords) /\
            map (fun c => Some (c_type c)) res = map norm_type (expand ct (List.length res)) /\
            Some n = Some (List.length res)) as Hmain.
    { intros tl Hn Hp Hex. destruct (place_all_spec _ _ _ _ _ Hp) as (ts & rest & -> & Hl & Hpl & Hty).
      assert (List.length res = n) as Hres.
      { rewrite <- (map_length c_place res), Hpl, placed_length. symmetry. apply total_shells_sum; auto. }
      assert (rest = []) as ->.
      { rewrite app_length in Hn. destruct rest; auto. simpl in Hn. lia. }
      rewrite app_nil_r in *. rewrite <- Hex, Hres. auto. }
    destruct ct as [s|l|l]; cbn [expand].
    - destruct (norm_type s) eqn:En; [|discriminate]. rewrite repeat_length, Nat.eqb_refl. cbn [negb].
      intros Hp. assert (List.length res = n) as Hres.
      { destruct (place_all_spec _ _ _ _ _ Hp) as (ts & rest & _ & _ & Hpl & _).
        rewrite <- (map_length c_place res), Hpl, placed_length. symmetry. apply total_shells_sum; auto. }
      apply (Hmain (repeat s n)); auto; try apply repeat_length; try (rewrite Hres; reflexivity).
    - destruct (List.length l =? n) eqn:E; [|discriminate]. apply Nat.eqb_eq in E. cbn [negb].
      intros Hp. apply (Hmain l); auto.
    - destruct (List.length l =? n) eqn:E; [|discriminate]. apply Nat.eqb_eq in E. cbn [negb].
      intros Hp. apply (Hmain l); auto.
  Qed.

  (* valid arguments are accepted: list, tuple or string alike *)
  Definition valid_type (t : string) : Prop := norm_type t <> None.

  Lemma place_accepts ic (co : C) shells : forall types rest,
    List.length types = List.length shells -> Forall valid_type types ->
    exists out, place ic co shells (types ++ rest) = Some (out, rest).
  Proof.
    induction shells as [|sh r IH]; intros types rest Hl Hv; destruct types as [|t ts]; simpl in Hl; try discriminate.
    - exists []. reflexivity.
    - inversion Hv as [|? ? Ht Hts]; subst. simpl. unfold valid_type in Ht.
      destruct (norm_type t) as [t'|]; [|congruence].
      destruct (IH ts rest) as [out ->]; auto. eexists. reflexivity.
  Qed.

  Lemma place_all_accepts d ats : forall ic types,
    Forall (fun ac : string * C => dict_find d (fst ac) <> None) ats ->
    List.length types
    = list_sum (map (fun ac : string * C => List.length (match dict_find d (fst ac) with Some s => s | None => [] end)) ats) ->
    Forall valid_type types ->
    exists out, place_all d ic ats types = Some out.
  Proof.
    induction ats as [|[a co] r IH]; intros ic types Hd Hl Hv; simpl.
    - eexists. reflexivity.
    - inversion Hd as [|? ? Ha Hr]; subst. simpl in Ha, Hl.
      destruct (dict_find d a) as [shells|]; [|congruence].
      rewrite <- (firstn_skipn (List.length shells) types) in Hv |- *.
      apply Forall_app in Hv as [Hv1 Hv2].
      assert (List.length (firstn (List.length shells) types) = List.length shells) as Hf.
      { rewrite firstn_length. lia. }
      destruct (place_accepts ic co shells _ (skipn (List.length shells) types) Hf Hv1) as [o1 ->].
      destruct (IH (S ic) (skipn (List.length shells) types) Hr) as [o2 ->]; auto.
      + rewrite skipn_length. lia.
      + eexists. reflexivity.
  Qed.

  Theorem mc_accepts d atoms (coords : list C) ct n :
    List.length atoms = List.length coords ->
    total_shells d atoms = Some n ->
    List.length (expand ct n) = n -> Forall valid_type (expand ct n) ->
    (match ct with CStr s => valid_type s | _ => True end) ->
    exists res, fst (make_contractions_model (d, atoms, coords, ct)) = Some res.
  Proof.
    intros Hl Ht Hn Hv Hs. unfold make_contractions_model. cbn [fst].
    rewrite Hl, Nat.eqb_refl, Ht. cbn [negb].
    assert (exists res, place_all d 0 (combine atoms coords) (expand ct n) = Some res) as [res Hres].
    { apply place_all_accepts; auto.
      - clear -Hl Ht. unfold total_shells in Ht. revert coords n Hl Ht.
        induction atoms as [|a r IH]; intros [|co cs] n Hl Ht; simpl in *; try discriminate; constructor.
        + simpl. destruct (dict_find d a); discriminate.
        + destruct (dict_find d a); [|discriminate].
          destruct (map_opt (dict_find d) r) eqn:E; [|discriminate]. eapply IH; eauto.
      - rewrite Hn. apply total_shells_sum; auto. }
    exists res. destruct ct as [s|l|l]; cbn [expand] in *.
    - unfold valid_type in Hs. destruct (norm_type s); [|congruence]. rewrite Hn, Nat.eqb_refl. exact Hres.
    - rewrite Hn, Nat.eqb_refl. exact Hres.
    - rewrite Hn, Nat.eqb_refl. exact Hres.
  Qed.

  Theorem mc_args_untouched (args : @mc_args C) : snd (make_contractions_model args) = args.
  Proof. destruct args as [[[d atoms] coords] ct]. reflexivity. Qed.

  Theorem mc_repeatable (args : @mc_args C) :
    make_contractions_model (snd (make_contractions_model args)) = make_contractions_model args.
  Proof. rewrite mc_args_untouched. reflexivity. Qed.

  (* a list and a tuple with the same entries give the same contractions *)
  Theorem mc_list_tuple d atoms (coords : list C) l :
    fst (make_contractions_model (d, atoms, coords, CList l))
    = fst (make_contractions_model (d, atoms, coords, CTuple l)).
  Proof. reflexivity. Qed.
End MC.

(* ================================================================== the hypotheses are satisfiable *)
(* a 6-31G-like lithium (S, SP, S, P), a two-column generalized D shell and a K shell, D/E/plain literals *)
Definition ex_ast : ast :=
  [("Li", [ {| b_ls := [0]; b_exps := ["0.6424189150D+03"; "0.9679851530D+02"; "0.2209112120D+02"];
               b_cols := [["0.2142607810D-02"; "0.1620887150D-01"; "0.7731557250D-01"]] |};
            {| b_ls := [0; 1]; b_exps := ["2.324918408"; "0.6324303556"; "0.07905343475"];
               b_cols := [["-0.03509174574"; "-0.1912328431"; "1.083987795"];
                          ["0.008941508043"; "0.1410094640"; "0.9453636953"]] |};
            {| b_ls := [0]; b_exps := ["0.3596197175E-01"]; b_cols := [["0.1000000000E+01"]] |};
            {| b_ls := [2]; b_exps := ["1.8190000"; "0.7276000"];
               b_cols := [["0.27051341"; "0.55101250"]; ["-0.7938035"; "-0.0914252"]] |} ]);
   ("H",  [ {| b_ls := [0]; b_exps := ["18.73113696"; "2.825394365"; "0.6401216923"];
               b_cols := [["0.03349460434"; "0.2347269535"; "0.8137573261"]] |};
            {| b_ls := [0]; b_exps := ["0.1612777588"]; b_cols := [["1.0000000"]] |};
            {| b_ls := [7]; b_exps := ["1.5E+00"]; b_cols := [["1."]] |} ])].

Definition ex_layout_nw : layout :=
  {| lay_pre := ["#  6-31G  EMSL  Basis Set Exchange Library"; ""; "BASIS ""ao basis"" PRINT"];
     lay_post := ["END"; ""];
     lay_fill := fun pos => match pos with
                            | [_; 0] => ["#BASIS SET: (10s,4p,2d) -> [3s,2p,1d]"]
                            | [_; _; 1] => ["   "]
                            | _ => []
                            end;
     lay_pad := fun pos => match pos with [_; _] => (0, 3, 0) | _ => (6, 11, 1) end;
     lay_lower := fun pos => match pos with [_; 2] => true | _ => false end;
     lay_tok2 := fun _ => "0"; lay_tok3 := fun _ => "1.00" |}.
Definition ex_layout_gbs : layout :=
  {| lay_pre := ["!----------------------------------------"; "! Basis Set Exchange"; ""];
     lay_post := ["****"];
     lay_fill := fun pos => match pos with
                            | [S _] => ["****"]
                            | [_; _; _; 1] => ["! a comment between two rows"]
                            | _ => []
                            end;
     lay_pad := fun pos => match pos with [_] => (0, 4, 0) | [_; _; _] => (0, 2, 0) | _ => (6, 6, 0) end;
     lay_lower := fun _ => false;
     lay_tok2 := fun pos => match pos with [_] => "0" | _ => "3" end;
     lay_tok3 := fun _ => "1.00" |}.
(* no preamble at all, no filler, minimal blanks *)
Definition ex_layout_bare : layout :=
  {| lay_pre := []; lay_post := []; lay_fill := fun _ => []; lay_pad := fun _ => (0, 0, 0);
     lay_lower := fun _ => false; lay_tok2 := fun _ => "0"; lay_tok3 := fun _ => "1.00" |}.

Lemma close_lit_refl s : close_lit s s = true.
Proof. apply String.eqb_refl. Qed.
Lemma ex_ast_wf : wf_ast ex_ast = true /\ wf_ast_gbs close_lit ex_ast = true.
Proof. split; vm_compute; reflexivity. Qed.
Ltac by_cases_on_pos :=
  intros pos; cbn [lay_fill lay_tok2 lay_tok3 ex_layout_nw ex_layout_gbs ex_layout_bare];
  repeat match goal with
         | |- context [match ?x with _ => _ end] => is_var x; destruct x
         end; reflexivity.
Lemma ex_layout_nw_ok : layout_ok_nw ex_layout_nw /\ layout_ok_nw ex_layout_bare.
Proof.
  split; (split; [vm_compute; reflexivity | split; [vm_compute; reflexivity|]]); by_cases_on_pos.
Qed.
Lemma ex_layout_gbs_ok : layout_ok_gbs ex_layout_gbs /\ layout_ok_gbs ex_layout_bare.
Proof.
  split; (split; [vm_compute; reflexivity | split; [vm_compute; reflexivity|]]);
    (split; [|split]); by_cases_on_pos.
Qed.
(* the theorems, instantiated, agree with direct evaluation *)
Lemma ex_roundtrips :
  parse_nwchem_model (print_nwchem ex_ast ex_layout_nw) = Some (expected ex_ast) /\
  parse_nwchem_model (print_nwchem ex_ast ex_layout_bare) = Some (expected ex_ast) /\
  parse_gbs_model close_lit (print_gbs ex_ast ex_layout_gbs) = Some (expected ex_ast) /\
  parse_gbs_model close_lit (print_gbs ex_ast ex_layout_bare) = Some (expected ex_ast) /\
  List.length (expected_shells (snd (hd ("", []) ex_ast))) = 5.
Proof. repeat split; vm_compute; reflexivity. Qed.

(* make_contractions on the example: H Li H, types given as a tuple in mixed spellings *)
Lemma ex_make_contractions :
  exists res,
    fst (make_contractions_model (C := nat)
           (expected ex_ast, ["H"; "Li"; "H"], [10; 11; 12],
            CTuple ["c"; "p"; "spherical"; "cartesian"; "c"; "p"; "p"; "c"; "spherical"; "p"; "c"])) = Some res /\
    List.length res = 11 /\
    map (fun c => fst (fst (fst c))) res = [0; 0; 0; 1; 1; 1; 1; 1; 2; 2; 2] /\
    map (fun c => snd (fst (fst c))) res = [10; 10; 10; 11; 11; 11; 11; 11; 12; 12; 12] /\
    map snd res = ["cartesian"; "spherical"; "spherical"; "cartesian"; "cartesian"; "spherical"; "spherical";
                   "cartesian"; "spherical"; "spherical"; "cartesian"].
Proof. eexists. repeat split; vm_compute; reflexivity. Qed.
