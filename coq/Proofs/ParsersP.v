(* Proofs/ParsersP.v — lemmas about Model/Parsers.v: the printers are inverted by the parsers
   (any number of elements, blocks, primitives, columns; any layout), and make_contractions. *)
From Coq Require Import List String Ascii Bool Arith Lia.
From GB Require Import Model.Parsers.
Import ListNotations.
Open Scope string_scope.
Open Scope list_scope.
Open Scope nat_scope.

(* ------------------------------------------------------------------ characters *)
Ltac all_chars c :=
  destruct c as [[|] [|] [|] [|] [|] [|] [|] [|]]; vm_compute; intros; try reflexivity; try discriminate.

Lemma class_nospace c : is_class c = true -> is_space c = false.
Proof. all_chars c. Qed.
Lemma class_printable c : is_class c = true -> printable c = true.
Proof. all_chars c. Qed.
Lemma word_nospace c : is_word c = true -> is_space c = false.
Proof. all_chars c. Qed.
Lemma word_printable c : is_word c = true -> printable c = true.
Proof. all_chars c. Qed.
Lemma letter_word c : is_letter c = true -> is_word c = true.
Proof. all_chars c. Qed.
Lemma space_printable c : is_space c = true -> printable c = true.
Proof. all_chars c. Qed.

(* ------------------------------------------------------------------ strings *)
Lemma sapp_nil_r s : s +++ "" = s.
Proof. induction s; simpl; congruence. Qed.
Lemma sapp_assoc a b c : (a +++ b) +++ c = a +++ (b +++ c).
Proof. induction a; simpl; congruence. Qed.
Lemma forall_s_app p a b : forall_s p (a +++ b) = forall_s p a && forall_s p b.
Proof. induction a; simpl; auto. rewrite IHa, andb_assoc. reflexivity. Qed.
Lemma forall_s_imp (p q : ascii -> bool) s :
  (forall c, p c = true -> q c = true) -> forall_s p s = true -> forall_s q s = true.
Proof.
  intros Hpq. induction s; simpl; auto. intros H. apply andb_true_iff in H as [H1 H2].
  rewrite (Hpq _ H1), IHs; auto.
Qed.
Lemma forall_s_spaces p n : p " "%char = true -> forall_s p (spaces n) = true.
Proof. intros Hp. induction n; simpl; auto. rewrite Hp, IHn. reflexivity. Qed.

(* a token: non-empty, no blank *)
Definition tok_ok (t : string) : bool := nonempty t && nospace t.

Lemma split_ws_nonnil s : split_ws s <> [].
Proof. destruct s; simpl; try discriminate. destruct (is_space a); try discriminate.
  destruct (split_ws s); discriminate. Qed.

Lemma split_ws_nospace_app t s :
  nospace t = true ->
  split_ws (t +++ s) = (t +++ hd "" (split_ws s)) :: tl (split_ws s).
Proof.
  induction t as [|c t IH]; simpl; intros H.
  - destruct (split_ws s) eqn:E; [exfalso; eapply split_ws_nonnil; eauto | reflexivity].
  - unfold nospace in H. simpl in H. apply andb_true_iff in H as [H1 H2].
    apply negb_true_iff in H1. rewrite H1. rewrite IH by exact H2. reflexivity.
Qed.

Lemma tokens_space s : tokens (String " " s) = tokens s.
Proof. reflexivity. Qed.
Lemma tokens_spaces_app n s : tokens (spaces n +++ s) = tokens s.
Proof. induction n; simpl; auto. Qed.
Lemma tokens_spaces n : tokens (spaces n) = [].
Proof. induction n; simpl; auto. Qed.
Lemma nonempty_app t s : nonempty t = true -> nonempty (t +++ s) = true.
Proof. destruct t; simpl; [discriminate | auto]. Qed.
Lemma tokens_tok_space t s : tok_ok t = true -> tokens (t +++ String " " s) = t :: tokens s.
Proof.
  intros H. apply andb_true_iff in H as [H1 H2]. unfold tokens.
  rewrite split_ws_nospace_app by exact H2. simpl. rewrite sapp_nil_r.
  rewrite H1. reflexivity.
Qed.
Lemma tokens_tok t : tok_ok t = true -> tokens t = [t].
Proof.
  intros H. apply andb_true_iff in H as [H1 H2]. unfold tokens.
  rewrite <- (sapp_nil_r t) at 1. rewrite split_ws_nospace_app by exact H2. simpl.
  rewrite sapp_nil_r, H1. reflexivity.
Qed.
Lemma tokens_tok_spaces t n : tok_ok t = true -> tokens (t +++ spaces n) = [t].
Proof.
  intros H. destruct n; simpl.
  - rewrite sapp_nil_r. apply tokens_tok; auto.
  - rewrite tokens_tok_space by auto. rewrite tokens_spaces. reflexivity.
Qed.

Lemma tokens_join toks : forall n k,
  forallb tok_ok toks = true -> tokens (join (S n) toks +++ spaces k) = toks.
Proof.
  induction toks as [|t r IH]; intros n k H.
  - simpl. apply tokens_spaces.
  - simpl in H. apply andb_true_iff in H as [Ht Hr].
    destruct r as [|t2 r2].
    + simpl. apply tokens_tok_spaces; auto.
    + change (join (S n) (t :: t2 :: r2)) with (t +++ spaces (S n) +++ join (S n) (t2 :: r2)).
      rewrite !sapp_assoc. simpl spaces.
      change (String " " (spaces n) +++ (join (S n) (t2 :: r2) +++ spaces k))
        with (String " " (spaces n +++ (join (S n) (t2 :: r2) +++ spaces k))).
      rewrite tokens_tok_space by auto. rewrite tokens_spaces_app.
      rewrite IH by auto. reflexivity.
Qed.

Lemma tokens_render p toks : forallb tok_ok toks = true -> tokens (render p toks) = toks.
Proof.
  destruct p as [[ind sep] trail]. intros H. unfold render.
  rewrite tokens_spaces_app. apply tokens_join; auto.
Qed.

Lemma printable_join toks : forall n,
  forallb (forall_s printable) toks = true -> forall_s printable (join n toks) = true.
Proof.
  induction toks as [|t r IH]; intros n H; simpl; auto.
  simpl in H. apply andb_true_iff in H as [Ht Hr]. destruct r as [|t2 r2]; auto.
  rewrite !forall_s_app, Ht, forall_s_spaces by reflexivity. simpl. apply IH; auto.
Qed.
Lemma printable_render p toks :
  forallb (forall_s printable) toks = true -> forall_s printable (render p toks) = true.
Proof.
  destruct p as [[ind sep] trail]. intros H. unfold render.
  rewrite !forall_s_app, !forall_s_spaces by reflexivity. rewrite printable_join; auto.
Qed.

(* ------------------------------------------------------------------ generic list facts *)
Lemma forallb_nth {A} (p : A -> bool) l k d :
  forallb p l = true -> k < List.length l -> p (nth k l d) = true.
Proof.
  revert k. induction l; simpl; intros k H Hk; [lia|].
  apply andb_true_iff in H as [H1 H2]. destruct k; auto. apply IHl; auto; lia.
Qed.
Lemma map_nth_seq {A} (l : list A) d : map (fun k => nth k l d) (seq 0 (List.length l)) = l.
Proof.
  induction l; simpl; auto. f_equal. rewrite <- seq_shift, map_map. exact IHl.
Qed.
Lemma forallb_mapi_from {A B} (p : B -> bool) (f : nat -> A -> list B) l : forall n,
  (forall k x, In x l -> forallb p (f k x) = true) -> forallb p (mapi_from n f l) = true.
Proof.
  induction l; simpl; intros n H; auto. rewrite forallb_app, H by auto. simpl. apply IHl. auto.
Qed.
Lemma filter_map_app {A B} (f : A -> option B) l1 l2 :
  filter_map f (l1 ++ l2) = filter_map f l1 ++ filter_map f l2.
Proof. induction l1; simpl; auto. destruct (f a); simpl; congruence. Qed.
Lemma filter_map_none {A B} (f : A -> option B) l :
  Forall (fun x => f x = None) l -> filter_map f l = [].
Proof. induction 1; simpl; auto. rewrite H. auto. Qed.

(* ------------------------------------------------------------------ tokens of the AST *)
Lemma wf_lit_tok s : wf_lit s = true -> tok_ok s = true.
Proof.
  unfold wf_lit, class_tok, tok_ok. intros H.
  apply andb_true_iff in H as [H _]. apply andb_true_iff in H as [H _].
  apply andb_true_iff in H as [H1 H2]. rewrite H1. simpl.
  eapply forall_s_imp; [|exact H2]. intros c Hc. rewrite (class_nospace c Hc). reflexivity.
Qed.
Lemma wf_lit_class s : wf_lit s = true -> class_tok s = true.
Proof. unfold wf_lit. intros H. apply andb_true_iff in H as [H _]. apply andb_true_iff in H as [H _]. exact H. Qed.
Lemma wf_lit_float s : wf_lit s = true -> float_ok s = true.
Proof. unfold wf_lit. intros H. apply andb_true_iff in H as [H _]. apply andb_true_iff in H as [_ H]. exact H. Qed.
Lemma wf_lit_notword s : wf_lit s = true -> pure_word s = false.
Proof. unfold wf_lit. intros H. apply andb_true_iff in H as [_ H]. apply negb_true_iff in H. exact H. Qed.
Lemma wf_lit_printable s : wf_lit s = true -> forall_s printable s = true.
Proof.
  intros H. apply wf_lit_class in H. unfold class_tok in H. apply andb_true_iff in H as [_ H].
  eapply forall_s_imp; [|exact H]. apply class_printable.
Qed.

Lemma pure_word_tok s : pure_word s = true -> tok_ok s = true.
Proof.
  unfold pure_word, tok_ok. intros H. apply andb_true_iff in H as [H1 H2]. rewrite H1. simpl.
  eapply forall_s_imp; [|exact H2]. intros c Hc. rewrite (word_nospace c Hc). reflexivity.
Qed.
Lemma pure_word_printable s : pure_word s = true -> forall_s printable s = true.
Proof.
  unfold pure_word. intros H. apply andb_true_iff in H as [_ H].
  eapply forall_s_imp; [|exact H]. apply word_printable.
Qed.
Lemma wf_sym_short s : wf_sym s = true -> short_word s = true.
Proof.
  unfold wf_sym, short_word, pure_word. intros H.
  apply andb_true_iff in H as [H H3]. apply andb_true_iff in H as [H1 H2].
  rewrite H1, H3. rewrite (forall_s_imp _ _ _ letter_word H2). reflexivity.
Qed.
Lemma short_pure s : short_word s = true -> pure_word s = true.
Proof. unfold short_word. intros H. apply andb_true_iff in H as [H _]. exact H. Qed.

Lemma letter_facts b l : l <= 7 ->
  is_word (letter_of b l) = true /\ angmom_of_char (letter_of b l) = Some l.
Proof.
  intros H. destruct b; do 8 (destruct l as [|l]; [vm_compute; auto|]); lia.
Qed.
Lemma letters_facts b ls : forallb (fun l => l <=? 7) ls = true ->
  forall_s is_word (letters b ls) = true /\ map_opt angmom_of_char (chars (letters b ls)) = Some ls.
Proof.
  induction ls as [|l r IH]; simpl; intros H; auto.
  apply andb_true_iff in H as [H1 H2]. apply Nat.leb_le in H1.
  destruct (letter_facts b l H1) as [Hw Ha]. destruct (IH H2) as [Hw' Ha'].
  rewrite Hw, Hw', Ha, Ha'. auto.
Qed.
Lemma letters_nonempty b ls : nonempty (letters false ls) = true -> nonempty (letters b ls) = true.
Proof. destruct ls; simpl; auto. Qed.

(* ------------------------------------------------------------------ wf_block unpacked *)
Record wfb (b : block) : Prop := {
  wfb_ne : nonempty (letters false (b_ls b)) = true;
  wfb_l7 : forallb (fun l => l <=? 7) (b_ls b) = true;
  wfb_k : 1 <= List.length (b_exps b);
  wfb_m : 1 <= List.length (b_cols b);
  wfb_exps : forallb wf_lit (b_exps b) = true;
  wfb_cols : forallb (fun col => (List.length col =? List.length (b_exps b)) && forallb wf_lit col) (b_cols b) = true;
  wfb_lm : List.length (b_ls b) = 1 \/ List.length (b_ls b) = List.length (b_cols b)
}.
Lemma wf_block_wfb b : wf_block b = true -> wfb b.
Proof.
  unfold wf_block. intros H. repeat (apply andb_true_iff in H as [H ?]).
  constructor; auto; try (apply Nat.leb_le; auto).
  apply orb_true_iff in H0 as [H0|H0]; apply Nat.eqb_eq in H0; auto.
Qed.

(* the tokens of row k are literals *)
Lemma row_toks_lits b k : wfb b -> k < List.length (b_exps b) ->
  forallb wf_lit (row_toks b k) = true /\ 2 <= List.length (row_toks b k).
Proof.
  intros W Hk. unfold row_toks. split.
  - simpl. rewrite (forallb_nth _ _ _ _ (wfb_exps b W) Hk). simpl.
    rewrite forallb_forall. intros x Hx. apply in_map_iff in Hx as [col [<- Hc]].
    pose proof (wfb_cols b W) as HC. rewrite forallb_forall in HC. specialize (HC col Hc).
    apply andb_true_iff in HC as [HC1 HC2]. apply Nat.eqb_eq in HC1.
    apply forallb_nth; auto. lia.
  - simpl. rewrite map_length. pose proof (wfb_m b W). lia.
Qed.

(* ------------------------------------------------------------------ classification of a printed row *)
Section RowLine.
  Variables (p : nat * nat * nat) (toks : list string).
  Hypothesis Hl : forallb wf_lit toks = true.
  Hypothesis H2 : 2 <= List.length toks.

  Lemma lits_tok_ok : forallb tok_ok toks = true.
  Proof. rewrite forallb_forall in *. intros x Hx. apply wf_lit_tok; auto. Qed.
  Lemma row_tokens : tokens (render p toks) = toks.
  Proof. apply tokens_render, lits_tok_ok. Qed.
  Lemma row_row_of : row_of (render p toks) = Some (hd "" toks, tl toks).
  Proof.
    unfold row_of. rewrite row_tokens. destruct toks as [|e [|c cs]]; simpl in H2; try lia.
    assert (forallb class_tok (e :: c :: cs) = true) as ->; auto.
    rewrite forallb_forall in *. intros x Hx. apply wf_lit_class; auto.
  Qed.
  Lemma row_not_blank : is_blank (render p toks) = false.
  Proof. unfold is_blank. rewrite row_tokens. destruct toks; simpl in H2; [lia|reflexivity]. Qed.
  Lemma row_first_notword : pure_word (hd "" toks) = false.
  Proof.
    destruct toks; simpl in *; [lia|]. apply andb_true_iff in Hl as [Hs _]. apply wf_lit_notword; auto.
  Qed.
  Lemma row_header_nw : header_nw (render p toks) = None.
  Proof.
    unfold header_nw. rewrite row_tokens. pose proof row_first_notword as Hw.
    destruct toks as [|e [|c [|c2 cs]]]; auto. simpl in Hw. unfold short_word. rewrite Hw. reflexivity.
  Qed.
  Lemma row_header_gbs : header_gbs (render p toks) = None.
  Proof.
    unfold header_gbs. rewrite row_tokens. pose proof row_first_notword as Hw.
    destruct toks as [|e [|c [|c2 cs]]]; auto. simpl in Hw. unfold short_word. rewrite Hw. reflexivity.
  Qed.
  Lemma row_sheader_gbs : sheader_gbs (render p toks) = None.
  Proof.
    unfold sheader_gbs. rewrite row_tokens. pose proof row_first_notword as Hw.
    destruct toks as [|e [|c [|c2 [|c3 cs]]]]; auto. simpl in Hw. rewrite Hw. reflexivity.
  Qed.
  Lemma row_not_bad : bad_gbs_line (render p toks) = false.
  Proof.
    unfold bad_gbs_line. rewrite row_tokens.
    destruct (rev toks) as [|c [|b rest]] eqn:E; auto.
    - apply (f_equal (@List.length string)) in E. rewrite rev_length in E. simpl in E. lia.
    - assert (In b toks) as Hb. { apply in_rev. rewrite E. simpl. auto. }
      rewrite forallb_forall in Hl. rewrite (wf_lit_notword b (Hl b Hb)).
      rewrite andb_false_r. reflexivity.
  Qed.
  Lemma row_printable : forall_s printable (render p toks) = true.
  Proof.
    apply printable_render. rewrite forallb_forall in *. intros x Hx. apply wf_lit_printable; auto.
  Qed.
End RowLine.

(* ------------------------------------------------------------------ re.split at line level *)
Section SplitP.
  Context {H : Type} (hdr : string -> option H).

  Lemma segs_nohdr_false B rest :
    Forall (fun l => hdr l = None) B ->
    segs hdr false (B ++ rest) = (B ++ fst (segs hdr false rest), snd (segs hdr false rest)).
  Proof.
    induction 1 as [|l B Hl HB IH]; simpl.
    - destruct (segs hdr false rest); reflexivity.
    - rewrite IH, Hl. destruct (is_blank l); reflexivity.
  Qed.
  Lemma segs_nohdr_true B rest :
    Forall (fun l => hdr l = None) B ->
    existsb (fun l => negb (is_blank l)) B = true ->
    segs hdr true (B ++ rest) = (B ++ fst (segs hdr false rest), snd (segs hdr false rest)).
  Proof.
    induction 1 as [|l B Hl HB IH]; simpl; [discriminate|].
    intros Hex. destruct (is_blank l) eqn:E; simpl in Hex.
    - rewrite IH by auto. reflexivity.
    - rewrite segs_nohdr_false by auto. reflexivity.
  Qed.
  Lemma segs_hdr l h r :
    is_blank l = false -> hdr l = Some h ->
    segs hdr false (l :: r) = ([], (h, fst (segs hdr true r)) :: snd (segs hdr true r)).
  Proof.
    intros Hb Hh. simpl. rewrite Hb, Hh. destruct (segs hdr true r); reflexivity.
  Qed.
  (* a header line, its body (no header lines, at least one non-blank line), then anything *)
  Lemma segs_block F l h B rest :
    Forall (fun l => hdr l = None) F ->
    is_blank l = false -> hdr l = Some h ->
    Forall (fun l => hdr l = None) B ->
    existsb (fun l => negb (is_blank l)) B = true ->
    segs hdr false ((F ++ [l] ++ B) ++ rest)
    = (F, (h, B ++ fst (segs hdr false rest)) :: snd (segs hdr false rest)).
  Proof.
    intros HF Hb Hh HB Hex. rewrite <- !app_assoc. rewrite segs_nohdr_false by auto.
    change ([l] ++ B ++ rest) with (l :: (B ++ rest)).
    rewrite (segs_hdr l h) by auto. rewrite segs_nohdr_true by auto. cbn [fst snd].
    rewrite app_nil_r. reflexivity.
  Qed.
End SplitP.

(* ------------------------------------------------------------------ the rows of a block *)
Lemma Forall_mapi_from {A B} (P : B -> Prop) (f : nat -> A -> list B) l : forall n,
  (forall k x, In x l -> Forall P (f k x)) -> Forall P (mapi_from n f l).
Proof.
  induction l; simpl; intros n Hf; auto. apply Forall_app. split; auto.
Qed.

Definition good_rows (rows : list (list string)) : Prop :=
  forall row, In row rows -> forallb wf_lit row = true /\ 2 <= List.length row.

Section Rows.
  Variables (L : layout) (pos : list nat) (rows : list (list string)).
  Hypothesis Hrows : good_rows rows.

  (* any property that holds of filler lines and of rendered rows holds of every printed line *)
  Lemma print_rows_Forall (P : string -> Prop) :
    (forall q, Forall P (lay_fill L q)) ->
    (forall q row, forallb wf_lit row = true -> 2 <= List.length row -> P (render q row)) ->
    Forall P (print_rows L pos rows).
  Proof.
    intros Hf Hr. unfold print_rows. apply Forall_mapi_from. intros k row Hin.
    apply Forall_app. split; auto. constructor; auto. destruct (Hrows row Hin). apply Hr; auto.
  Qed.

  Lemma print_rows_rows :
    (forall q, Forall (fun l => row_of l = None) (lay_fill L q)) ->
    filter_map row_of (print_rows L pos rows) = map (fun row => (hd "" row, tl row)) rows.
  Proof.
    intros Hf. unfold print_rows. generalize 0. revert Hrows.
    induction rows as [|row r IH]; intros Hg n; simpl; auto.
    rewrite <- app_assoc, !filter_map_app. rewrite filter_map_none by auto. simpl.
    destruct (Hg row) as [G1 G2]; [left; auto|]. rewrite row_row_of by auto.
    cbn [app]. f_equal. apply IH. intros x Hx. apply Hg. right; auto.
  Qed.

  Lemma print_rows_nonblank :
    rows <> [] -> existsb (fun l => negb (is_blank l)) (print_rows L pos rows) = true.
  Proof.
    intros Hne. unfold print_rows. generalize 0. destruct rows as [|row r]; [congruence|]. intros n.
    simpl. rewrite !existsb_app. simpl.
    destruct (Hrows row) as [G1 G2]; [left; auto|]. rewrite row_not_blank by auto.
    simpl. rewrite orb_true_r. reflexivity.
  Qed.
End Rows.

Lemma block_rows_good b : wfb b -> good_rows (block_rows b).
Proof.
  intros W row Hin. unfold block_rows in Hin. apply in_map_iff in Hin as [k [<- Hk]].
  apply in_seq in Hk. apply row_toks_lits; auto. lia.
Qed.
Lemma block_rows_ne b : wfb b -> block_rows b <> [].
Proof.
  intros W. unfold block_rows. pose proof (wfb_k b W). destruct (b_exps b); simpl in *; [lia|discriminate].
Qed.

(* what the parsers recover from the rows of a block *)
Lemma block_rows_exps b :
  map fst (map (fun row => (hd "" row, tl row)) (block_rows b)) = b_exps b.
Proof.
  unfold block_rows. rewrite !map_map. simpl. apply map_nth_seq.
Qed.
Lemma block_rows_coefs b :
  map snd (map (fun row => (hd "" row, tl row)) (block_rows b))
  = map (fun k => map (fun col => nth k col "") (b_cols b)) (seq 0 (List.length (b_exps b))).
Proof. unfold block_rows. rewrite !map_map. reflexivity. Qed.

Lemma nth_map_default {A B} (f : A -> B) l k d d' :
  k < List.length l -> nth k (map f l) d' = f (nth k l d).
Proof. revert k. induction l; simpl; intros k Hk; [lia|]. destruct k; auto. apply IHl. lia. Qed.

Lemma transpose_some rows M :
  rows <> [] -> Forall (fun r : list string => List.length r = M) rows ->
  transpose rows = Some (cols_of_rows M rows).
Proof.
  intros Hne HF. destruct rows as [|r0 rs]; [congruence|]. unfold transpose.
  assert (List.length r0 = M) as H0 by (inversion HF; auto).
  assert (forallb (fun r : list string => List.length r =? List.length r0) (r0 :: rs) = true) as ->.
  { rewrite forallb_forall. intros r Hr. rewrite Forall_forall in HF. rewrite (HF r Hr), H0.
    apply Nat.eqb_refl. }
  rewrite H0. reflexivity.
Qed.

Lemma transpose_rows (cols : list (list string)) K :
  1 <= K -> Forall (fun col => List.length col = K) cols ->
  transpose (map (fun k => map (fun col => nth k col "") cols) (seq 0 K)) = Some cols.
Proof.
  intros HK Hc. rewrite (transpose_some _ (List.length cols)).
  - f_equal. unfold cols_of_rows.
    rewrite <- (map_nth_seq cols []) at 2.
    apply map_ext_in. intros j Hj. apply in_seq in Hj. rewrite map_map.
    rewrite Forall_forall in Hc. assert (In (nth j cols []) cols) as Hin by (apply nth_In; lia).
    rewrite <- (map_nth_seq (nth j cols []) "") at 1. rewrite (Hc _ Hin).
    apply map_ext_in. intros k Hk. rewrite (nth_map_default _ cols j [] ""); auto. lia.
  - destruct K; [lia|]. simpl. discriminate.
  - rewrite Forall_forall. intros r Hr. apply in_map_iff in Hr as [k [<- _]]. apply map_length.
Qed.

Lemma good_rows_float rows : good_rows rows ->
  rows_float_ok (map (fun row => (hd "" row, tl row)) rows) = true.
Proof.
  intros Hg. unfold rows_float_ok. rewrite forallb_forall. intros r Hr.
  apply in_map_iff in Hr as [row [<- Hin]]. destruct (Hg row Hin) as [G1 G2].
  destruct row as [|e cs]; simpl in *; [lia|]. apply andb_true_iff in G1 as [Ge Gc].
  rewrite (wf_lit_float e Ge). simpl. rewrite forallb_forall in *. intros x Hx. apply wf_lit_float; auto.
Qed.

Lemma wfb_cols_len b : wfb b -> Forall (fun col => List.length col = List.length (b_exps b)) (b_cols b).
Proof.
  intros W. rewrite Forall_forall. intros col Hc. pose proof (wfb_cols b W) as HC.
  rewrite forallb_forall in HC. specialize (HC col Hc). apply andb_true_iff in HC as [HC _].
  apply Nat.eqb_eq; auto.
Qed.

(* the rows of a block (followed by lines that are not rows), as seen by both parsers *)
Lemma body_rows L pos b B' : wfb b ->
  (forall q, Forall (fun l => row_of l = None) (lay_fill L q)) ->
  Forall (fun l => row_of l = None) B' ->
  rows_of_body (print_rows L pos (block_rows b) ++ B')
  = map (fun row => (hd "" row, tl row)) (block_rows b).
Proof.
  intros W Hf HB. unfold rows_of_body. rewrite filter_map_app, (filter_map_none _ B') by auto.
  rewrite app_nil_r. apply print_rows_rows; auto. apply block_rows_good; auto.
Qed.

(* parsers.py:69-70, one column per letter *)
Lemma combined_columns (exps : list string) (cols : list (list string)) ls : forall n,
  n + List.length ls <= List.length cols ->
  map_opt (fun il : nat * nat => match nth_error cols (fst il) with
                                 | Some col => Some (snd il, exps, [col])
                                 | None => None
                                 end) (enumerate_from n ls)
  = Some (map (fun lc => (fst lc, exps, [snd lc])) (combine ls (skipn n cols))).
Proof.
  induction ls as [|l r IH]; intros n Hn; simpl; auto.
  simpl in Hn. assert (n < List.length cols) as Hlt by lia.
  destruct (nth_error cols n) as [c|] eqn:E; [|apply nth_error_None in E; lia].
  rewrite IH by lia.
  assert (skipn n cols = c :: skipn (S n) cols) as ->.
  { clear -E. revert cols E. induction n; intros [|x xs] E; simpl in *; try discriminate.
    - congruence.
    - apply IHn; auto. }
  reflexivity.
Qed.

Lemma process_nw_block L pos b lo B' : wfb b ->
  (forall q, Forall (fun l => row_of l = None) (lay_fill L q)) ->
  Forall (fun l => row_of l = None) B' ->
  process_nw (letters lo (b_ls b)) (print_rows L pos (block_rows b) ++ B') = Some (expected_block b).
Proof.
  intros W Hf HB. unfold process_nw.
  destruct (letters_facts lo (b_ls b) (wfb_l7 b W)) as [_ ->].
  rewrite body_rows by auto. rewrite good_rows_float by (apply block_rows_good; auto). simpl negb. cbv iota.
  rewrite block_rows_exps, block_rows_coefs.
  rewrite transpose_rows; [| exact (wfb_k b W) | apply wfb_cols_len; auto].
  unfold expected_block. pose proof (wfb_ne b W) as Hne. pose proof (wfb_lm b W) as Hlm.
  destruct (b_ls b) as [|l [|l2 r]] eqn:E; simpl in Hne; try discriminate; auto.
  destruct Hlm as [Hlm|Hlm]; [simpl in Hlm; lia|].
  rewrite combined_columns by (rewrite Hlm; lia). reflexivity.
Qed.

(* ------------------------------------------------------------------ the dict *)
Lemma dict_get_set d a v : dict_get (dict_set d a v) a = v.
Proof.
  induction d as [|[k w] r IH]; simpl.
  - rewrite String.eqb_refl. reflexivity.
  - destruct (String.eqb k a) eqn:E; simpl; rewrite E; auto.
Qed.
Lemma dict_set_set d a v w : dict_set (dict_set d a v) a w = dict_set d a w.
Proof.
  induction d as [|[k u] r IH]; simpl.
  - rewrite String.eqb_refl. reflexivity.
  - destruct (String.eqb k a) eqn:E; simpl; rewrite E; congruence.
Qed.
Lemma dict_append_append d a s1 s2 :
  dict_append (dict_append d a s1) a s2 = dict_append d a (s1 ++ s2).
Proof. unfold dict_append. rewrite dict_get_set, dict_set_set, app_assoc. reflexivity. Qed.
Lemma dict_get_absent d a : ~ In a (keys d) -> dict_get d a = [].
Proof.
  induction d as [|[k w] r IH]; simpl; auto. intros H.
  destruct (String.eqb k a) eqn:E; [apply String.eqb_eq in E; tauto | apply IH; tauto].
Qed.
Lemma dict_set_absent d a v : ~ In a (keys d) -> dict_set d a v = d ++ [(a, v)].
Proof.
  induction d as [|[k w] r IH]; simpl; auto. intros H.
  destruct (String.eqb k a) eqn:E; [apply String.eqb_eq in E; tauto | rewrite IH; tauto].
Qed.
Lemma dict_append_absent d a s : ~ In a (keys d) -> dict_append d a s = d ++ [(a, s)].
Proof. intros H. unfold dict_append. rewrite dict_get_absent, dict_set_absent; auto. Qed.

Lemma nodupb_NoDup l : nodupb l = true -> NoDup l.
Proof.
  induction l as [|a r IH]; simpl; intros H; constructor.
  - apply andb_true_iff in H as [H _]. apply negb_true_iff in H. intros Hin.
    assert (existsb (String.eqb a) r = true); [|congruence].
    apply existsb_exists. exists a. split; auto. apply String.eqb_refl.
  - apply IH. apply andb_true_iff in H as [_ H]. exact H.
Qed.

(* appending the expected shells of the elements one after the other gives [expected] *)
Lemma fold_expected (a : ast) : forall d,
  NoDup (keys d ++ map fst a) ->
  fold_left (fun d e => dict_append d (fst e) (expected_shells (snd e))) a d = d ++ expected a.
Proof.
  induction a as [|e r IH]; intros d Hnd; simpl.
  - rewrite app_nil_r. reflexivity.
  - simpl in Hnd. rewrite dict_append_absent.
    + rewrite IH.
      * rewrite <- app_assoc. reflexivity.
      * unfold keys in *. rewrite map_app. simpl. rewrite <- app_assoc. exact Hnd.
    + apply NoDup_remove_2 in Hnd. intros Hin. apply Hnd. apply in_or_app. left. exact Hin.
Qed.

(* ================================================================== NWChem round trip *)
Section NW.
  Variable L : layout.
  Hypothesis HL : layout_ok_nw L.

  Lemma filler_nw_facts s : filler_nw s = true ->
    forall_s printable s = true /\ header_nw s = None /\ row_of s = None.
  Proof.
    unfold filler_nw. intros H. apply andb_true_iff in H as [H H3]. apply andb_true_iff in H as [H1 H2].
    destruct (header_nw s); try discriminate. destruct (row_of s); try discriminate. auto.
  Qed.
  Lemma fillers_nw_Forall (P : string -> Prop) fs :
    (forall s, filler_nw s = true -> P s) -> forallb filler_nw fs = true -> Forall P fs.
  Proof. intros HP H. rewrite forallb_forall in H. apply Forall_forall. auto. Qed.
  Lemma fill_nw (P : string -> Prop) q :
    (forall s, filler_nw s = true -> P s) -> Forall P (lay_fill L q).
  Proof. intros HP. destruct HL as (_ & _ & H). eapply fillers_nw_Forall; eauto. Qed.
  Lemma fill_nw_row q : Forall (fun l => row_of l = None) (lay_fill L q).
  Proof. apply fill_nw. intros s Hs. apply filler_nw_facts in Hs. tauto. Qed.
  Lemma fill_nw_hdr q : Forall (fun l => header_nw l = None) (lay_fill L q).
  Proof. apply fill_nw. intros s Hs. apply filler_nw_facts in Hs. tauto. Qed.

  (* lines of [rest] that come before its first header are not rows *)
  Definition tail_ok (rest : list string) : Prop :=
    Forall (fun l => row_of l = None) (fst (segs header_nw false rest)).

  Lemma nw_header_line q sym lo ls :
    wf_sym sym = true -> nonempty (letters false ls) = true -> forallb (fun l => l <=? 7) ls = true ->
    let l := render q [sym; letters lo ls] in
    is_blank l = false /\ header_nw l = Some (sym, letters lo ls) /\ forall_s printable l = true.
  Proof.
    intros Hs Hne H7. cbv zeta.
    assert (pure_word (letters lo ls) = true) as Hpw.
    { unfold pure_word. rewrite letters_nonempty by auto. destruct (letters_facts lo ls H7) as [-> _]. reflexivity. }
    pose proof (wf_sym_short sym Hs) as Hsh.
    assert (tokens (render q [sym; letters lo ls]) = [sym; letters lo ls]) as Ht.
    { apply tokens_render. simpl. rewrite (pure_word_tok _ (short_pure _ Hsh)), (pure_word_tok _ Hpw). reflexivity. }
    unfold is_blank, header_nw. rewrite Ht, Hsh, Hpw. repeat split.
    apply printable_render. simpl.
    rewrite (pure_word_printable _ (short_pure _ Hsh)), (pure_word_printable _ Hpw). reflexivity.
  Qed.

  Lemma nw_block i sym j b rest d :
    wf_sym sym = true -> wfb b -> tail_ok rest ->
    parse_nw_from d (print_block_nw L i sym j b ++ rest)
      = parse_nw_from (dict_append d sym (expected_block b)) rest
    /\ tail_ok (print_block_nw L i sym j b ++ rest).
  Proof.
    intros Hs W Ht. unfold print_block_nw.
    destruct (nw_header_line (lay_pad L [i; j]) sym (lay_lower L [i; j]) (b_ls b) Hs (wfb_ne b W) (wfb_l7 b W))
      as (Hb & Hh & _).
    pose proof (block_rows_good b W) as Hg.
    assert (Forall (fun l => header_nw l = None) (print_rows L [i; j] (block_rows b))) as Hnh.
    { apply print_rows_Forall; auto. apply fill_nw_hdr. intros. apply row_header_nw; auto. }
    pose proof (print_rows_nonblank L [i; j] (block_rows b) Hg (block_rows_ne b W)) as Hex.
    unfold parse_nw_from, tail_ok.
    rewrite (segs_block header_nw _ _ _ _ rest (fill_nw_hdr [i; j]) Hb Hh Hnh Hex).
    cbn [fst snd]. split; [|apply fill_nw_row].
    cbn [fold_opt step_nw]. rewrite process_nw_block; auto. apply fill_nw_row.
  Qed.

  Lemma nw_blocks i sym bs : forall j rest d,
    wf_sym sym = true -> Forall wfb bs -> tail_ok rest ->
    parse_nw_from d (mapi_from j (print_block_nw L i sym) bs ++ rest)
      = parse_nw_from (fold_left (fun d b => dict_append d sym (expected_block b)) bs d) rest
    /\ tail_ok (mapi_from j (print_block_nw L i sym) bs ++ rest).
  Proof.
    induction bs as [|b r IH]; intros j rest d Hs HW Ht; simpl; auto.
    inversion HW as [|? ? Wb Wr]; subst. rewrite <- app_assoc.
    destruct (IH (S j) rest (dict_append d sym (expected_block b)) Hs Wr Ht) as [E1 T1].
    destruct (nw_block i sym j b _ d Hs Wb T1) as [E2 T2]. rewrite E2, E1. auto.
  Qed.

  Lemma fold_blocks sym bs : forall d, bs <> [] ->
    fold_left (fun d b => dict_append d sym (expected_block b)) bs d
    = dict_append d sym (expected_shells bs).
  Proof.
    intros d Hne. destruct bs as [|b r]; [congruence|]. clear Hne. simpl.
    unfold expected_shells. simpl. generalize (expected_block b) as s. revert d.
    induction r as [|b2 r IH]; intros d s; simpl.
    - rewrite app_nil_r. reflexivity.
    - rewrite dict_append_append, IH, app_assoc. reflexivity.
  Qed.

  Definition wfe (e : string * list block) : Prop :=
    wf_sym (fst e) = true /\ snd e <> [] /\ Forall wfb (snd e).

  Lemma nw_elems (a : ast) : forall i rest d,
    Forall wfe a -> tail_ok rest ->
    parse_nw_from d (mapi_from i (print_elem_nw L) a ++ rest)
      = parse_nw_from (fold_left (fun d e => dict_append d (fst e) (expected_shells (snd e))) a d) rest
    /\ tail_ok (mapi_from i (print_elem_nw L) a ++ rest).
  Proof.
    induction a as [|e r IH]; intros i rest d HW Ht; simpl; auto.
    inversion HW as [|? ? We Wr]; subst. destruct We as (Hs & Hne & Wb). rewrite <- app_assoc.
    destruct (IH (S i) rest (dict_append d (fst e) (expected_shells (snd e))) Wr Ht) as [E1 T1].
    unfold print_elem_nw at 1 3.
    destruct (nw_blocks i (fst e) (snd e) 0 _ d Hs Wb T1) as [E2 T2].
    rewrite E2, fold_blocks by auto. auto.
  Qed.

  Lemma nw_post d : parse_nw_from d (lay_post L) = Some d /\ tail_ok (lay_post L).
  Proof.
    destruct HL as (_ & Hpost & _).
    assert (Forall (fun l => header_nw l = None) (lay_post L)) as Hh.
    { eapply fillers_nw_Forall; eauto. intros s Hs. apply filler_nw_facts in Hs. tauto. }
    assert (Forall (fun l => row_of l = None) (lay_post L)) as Hr.
    { eapply fillers_nw_Forall; eauto. intros s Hs. apply filler_nw_facts in Hs. tauto. }
    unfold parse_nw_from, tail_ok. rewrite <- (app_nil_r (lay_post L)).
    rewrite segs_nohdr_false by auto. simpl. rewrite app_nil_r. auto.
  Qed.

  Lemma nw_printable (a : ast) : Forall wfe a -> nw_fragment (print_nwchem a L) = true.
  Proof.
    intros HW. unfold nw_fragment, print_nwchem. destruct HL as (Hpre & Hpost & Hfill).
    assert (forall fs, forallb filler_nw fs = true -> forallb (forall_s printable) fs = true) as Hfp.
    { intros fs H. rewrite forallb_forall in *. intros s Hs. specialize (H s Hs).
      apply filler_nw_facts in H. tauto. }
    rewrite !forallb_app, (Hfp _ Hpre), (Hfp _ Hpost), andb_true_r. simpl.
    apply forallb_mapi_from. intros i e He. rewrite Forall_forall in HW. destruct (HW e He) as (Hs & _ & Wb).
    unfold print_elem_nw. apply forallb_mapi_from. intros j b Hb. rewrite Forall_forall in Wb.
    specialize (Wb b Hb). unfold print_block_nw. rewrite !forallb_app, (Hfp _ (Hfill _)). simpl.
    destruct (nw_header_line (lay_pad L [i; j]) (fst e) (lay_lower L [i; j]) (b_ls b) Hs (wfb_ne b Wb) (wfb_l7 b Wb))
      as (_ & _ & ->). simpl.
    apply forallb_forall. apply Forall_forall. apply print_rows_Forall.
    - apply block_rows_good; auto.
    - intros q. apply Forall_forall. intros s Hs'. pose proof (Hfp _ (Hfill q)) as H. rewrite forallb_forall in H. auto.
    - intros. apply row_printable; auto.
  Qed.

  Lemma wf_ast_wfe a : wf_ast a = true -> Forall wfe a /\ NoDup (map fst a).
  Proof.
    unfold wf_ast. intros H. apply andb_true_iff in H as [H1 H2]. split; [|apply nodupb_NoDup; auto].
    rewrite forallb_forall in H1. apply Forall_forall. intros e He. specialize (H1 e He).
    apply andb_true_iff in H1 as [H1 H3]. apply andb_true_iff in H1 as [H1 H4]. apply Nat.leb_le in H4.
    repeat split; auto.
    - destruct (snd e); simpl in *; [lia|discriminate].
    - rewrite forallb_forall in H3. apply Forall_forall. intros b Hb. apply wf_block_wfb; auto.
  Qed.

  Theorem roundtrip_nwchem (a : ast) :
    wf_ast a = true -> parse_nwchem_model (print_nwchem a L) = Some (expected a).
  Proof.
    intros Hwf. destruct (wf_ast_wfe a Hwf) as [HW Hnd].
    unfold parse_nwchem_model. rewrite nw_printable by auto.
    unfold print_nwchem. destruct HL as (Hpre & _ & _).
    assert (Forall (fun l => header_nw l = None) (lay_pre L)) as Hh.
    { eapply fillers_nw_Forall; eauto. intros s Hs. apply filler_nw_facts in Hs. tauto. }
    unfold parse_nw_from. rewrite segs_nohdr_false by auto. cbn [snd].
    destruct (nw_post (fold_left (fun d e => dict_append d (fst e) (expected_shells (snd e))) a [])) as [Ep Tp].
    destruct (nw_elems a 0 (lay_post L) [] HW Tp) as [E _]. unfold parse_nw_from in E, Ep.
    rewrite E, Ep. rewrite fold_expected by (simpl; auto). reflexivity.
  Qed.
End NW.
