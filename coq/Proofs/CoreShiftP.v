(* Proofs/CoreShiftP.v — moving the origin of a multipole moment changes the 1-D moment integrals by the
   binomial expansion in lower moments:
       T3 v a b (c + delta) k i j = sum_{m <= k} binom(k, m) delta^(k-m) T3 v a b c m i j
   ((y + c + delta)^k = sum_m binom(k,m) delta^(k-m) (y + c)^m under the Gaussian moment functional),
   for every k, i, j and every ring element; [binom] is Pascal's triangle on nat, and [binom_fact]
   ties it to factorials:  binom(n,k) k! (n-k)! = n!  in the field. *)
(* NOT proved (full-strength statement, for the record): at block level, for C' = C - (dx, dy, dz),
     entry(mm_block C' [o]) = sum_{m <= o, componentwise} prod_axes binom(o_axis, m_axis) d_axis^(o_axis - m_axis)
                              * entry(mm_block C [m])
   i.e. the product of three per-axis binomial sums pushed through the contraction.  What is proved is the
   per-axis law ([T3_origin_shift], [T1_origin_shift]) from which it follows by linearity of [contracted]
   (Proofs/CoreSumP.v: contracted_add, contracted_scale); missing: the bookkeeping of the triple sum. *)
From Coq Require Import List Arith Lia Field.
From GB Require Import Base.Field Base.FNum Base.Tables Gauss.Moment1D Model.MomentInt
  Proofs.CoreSumP Proofs.CoreBlockP.
Import ListNotations.

Fixpoint binom (n k : nat) : nat :=
  match n, k with
  | _, O => 1
  | O, S _ => 0
  | S n', S k' => binom n' k' + binom n' (S k')
  end.

Lemma binom_0_r n : binom n 0 = 1.
Proof. destruct n; reflexivity. Qed.
Lemma binom_gt n : forall k, n < k -> binom n k = 0.
Proof. induction n as [|n IH]; intros [|k] H; try lia; cbn [binom]; [reflexivity|].
  rewrite !IH by lia. reflexivity. Qed.
Lemma binom_nn n : binom n n = 1.
Proof. induction n as [|n IH]; [reflexivity|]. cbn [binom]. rewrite IH, binom_gt by lia. lia. Qed.

Section P.
Context {F : Type} (K : Fops F) (Kf : is_field K).
Add Field KFsh : Kf.
Local Open Scope F_scope.
Notation "0" := (f0 K) : F_scope.
Notation "1" := (f1 K) : F_scope.
Infix "+" := (fadd K) : F_scope.
Infix "*" := (fmul K) : F_scope.
Infix "-" := (fsub K) : F_scope.
Infix "/" := (fdiv K) : F_scope.
Notation "# n" := (ofnat K n) (at level 5) : F_scope.
Notation fsum := (FNum.fsum K).
Notation fpow := (FNum.fpow K).

Lemma ofnat_add x y : #(x + y) = #x + #y.
Proof. induction x as [|x IH]; cbn [Nat.add ofnat]; [ring|]. rewrite IH. ring. Qed.

Lemma ofnat_mul x y : #(x * y) = #x * #y.
Proof. induction x as [|x IH]; cbn [Nat.mul ofnat]; [ring|]. rewrite ofnat_add, IH. ring. Qed.

(* sum split at the front *)
Lemma fsum_mk_S_front n (f : nat -> F) : fsum (mk (S n) f) = f 0%nat + fsum (mk n (fun m => f (S m))).
Proof.
  induction n as [|n IH].
  - rewrite (fsum_mk_S K Kf), !(fsum_mk_0 K). ring.
  - rewrite (fsum_mk_S K Kf), IH, (fsum_mk_S K Kf). ring.
Qed.

Variable delta : F.

(* binomial transform of a sequence *)
Definition bsum (k : nat) (f : nat -> F) : F :=
  fsum (mk (S k) (fun m => #(binom k m) * fpow delta (k - m) * f m)).

Lemma bsum_pascal k f : bsum (S k) f = delta * bsum k f + bsum k (fun m => f (S m)).
Proof.
  unfold bsum.
  assert (L : fsum (mk (S (S k)) (fun m => #(binom (S k) m) * fpow delta (S k - m) * f m))
            = delta * fpow delta k * f 0%nat
              + (fsum (mk (S k) (fun m => #(binom k m) * fpow delta (k - m) * f (S m)))
                 + fsum (mk (S k) (fun m => #(binom k (S m)) * fpow delta (k - m) * f (S m))))).
  { rewrite fsum_mk_S_front. rewrite (fsum_mk_add K Kf). f_equal.
    - cbn [binom Nat.sub FNum.fpow ofnat]. ring.
    - apply fsum_mk_ext. intros m Hm. cbn [binom Nat.sub]. rewrite ofnat_add. ring. }
  assert (R1 : delta * fsum (mk (S k) (fun m => #(binom k m) * fpow delta (k - m) * f m))
            = delta * fpow delta k * f 0%nat
              + fsum (mk k (fun m => #(binom k (S m)) * fpow delta (k - m) * f (S m)))).
  { rewrite (fsum_mk_scale_l K Kf), fsum_mk_S_front. f_equal.
    - rewrite binom_0_r, Nat.sub_0_r. cbn [ofnat]. ring.
    - apply fsum_mk_ext. intros m Hm. replace (k - m)%nat with (S (k - S m)) by lia.
      cbn [FNum.fpow]. ring. }
  assert (R2 : fsum (mk (S k) (fun m => #(binom k (S m)) * fpow delta (k - m) * f (S m)))
            = fsum (mk k (fun m => #(binom k (S m)) * fpow delta (k - m) * f (S m)))).
  { rewrite (fsum_mk_S K Kf). rewrite (binom_gt k (S k)) by lia. cbn [ofnat]. ring. }
  rewrite L, R1, R2. ring.
Qed.

Lemma bsum_ext k f g : (forall m, m <= k -> f m = g m) -> bsum k f = bsum k g.
Proof. intros H. unfold bsum. apply fsum_mk_ext. intros m Hm. rewrite H by lia. reflexivity. Qed.

Lemma bsum_add k f g : bsum k (fun m => f m + g m) = bsum k f + bsum k g.
Proof. unfold bsum. rewrite (fsum_mk_add K Kf). apply fsum_mk_ext. intros; ring. Qed.

Lemma bsum_scale k c f : bsum k (fun m => c * f m) = c * bsum k f.
Proof. unfold bsum. rewrite (fsum_mk_scale_l K Kf). apply fsum_mk_ext. intros; ring. Qed.

Variables v a b c : F.

Lemma S3_shift k : forall n i j,
  S3 K v a b (c + delta) n k i j = bsum k (fun m => S3 K v a b c n m i j).
Proof.
  induction k as [|k IH]; intros n i j.
  - unfold bsum. rewrite (fsum_mk_S K Kf), (fsum_mk_0 K). cbn [binom Nat.sub FNum.fpow ofnat].
    rewrite (S3_0_indep_c K v a b (c + delta)), <- (S3_0_indep_c K v a b c). ring.
  - rewrite (S3_Sk K Kf), (IH n), (IH (S n)). rewrite bsum_pascal.
    rewrite <- !bsum_scale, <- !bsum_add. apply bsum_ext. intros m _.
    rewrite (S3_Sk K Kf v a b c n m). ring.
Qed.

(* origin_shift_binomial, on the moment functional *)
Theorem T3_origin_shift k i j :
  T3 K v a b (c + delta) k i j
  = fsum (mk (S k) (fun m => #(binom k m) * fpow delta (k - m) * T3 K v a b c m i j)).
Proof. apply S3_shift. Qed.

End P.

Section P2.
Context {F : Type} (K : Fops F) (Kf : is_field K).
Add Field KFsh2 : Kf.
Local Open Scope F_scope.
Notation "0" := (f0 K) : F_scope.
Notation "1" := (f1 K) : F_scope.
Infix "+" := (fadd K) : F_scope.
Infix "*" := (fmul K) : F_scope.
Infix "-" := (fsub K) : F_scope.
Infix "/" := (fdiv K) : F_scope.
Notation "# n" := (ofnat K n) (at level 5) : F_scope.

(* ... and on the 1-D integral of a primitive pair: the moment about the origin C' in terms of the
   moments about C (the Gaussian prefactor does not depend on the origin) *)
Theorem T1_origin_shift (A B C C' alpha beta : F) k i j :
  T1 K A B C' alpha beta k i j
  = FNum.fsum K (mk (S k) (fun m => #(binom k m) * FNum.fpow K (C - C') (k - m) * T1 K A B C alpha beta m i j)).
Proof.
  unfold T1. rewrite <- (T3_origin_shift K Kf).
  f_equal. unfold PC. ring.
Qed.

(* binom is the binomial coefficient: binom(n,k) k! (n-k)! = n! *)
Lemma binom_fact n : forall k, k <= n -> #(binom n k) * ffact K k * ffact K (n - k) = ffact K n.
Proof.
  induction n as [|n IH]; intros k Hk.
  - assert (k = 0%nat) by lia. subst. cbn [binom ofnat ffact Nat.sub]. ring.
  - destruct k as [|k].
    + rewrite binom_0_r, Nat.sub_0_r. cbn [ofnat ffact]. ring.
    + cbn [binom]. rewrite (ofnat_add K Kf). cbn [Nat.sub].
      destruct (Nat.eq_dec k n) as [E|NE].
      * subst k. rewrite (binom_gt n (S n)) by lia. rewrite binom_nn, Nat.sub_diag.
        cbn [ofnat ffact]. ring.
      * pose proof (IH k ltac:(lia)) as H1. pose proof (IH (S k) ltac:(lia)) as H2.
        replace (n - k)%nat with (S (n - S k)) in * by lia.
        assert (Es : #(S n) = #(S k) + #(S (n - S k))).
        { rewrite <- (ofnat_add K Kf). f_equal. lia. }
        cbn [ffact] in H1, H2 |- *. rewrite Es.
        transitivity (#(S k) * ffact K n + #(S (n - S k)) * ffact K n); [|ring].
        rewrite <- H1 at 1. rewrite <- H2. ring.
Qed.

End P2.
