(* Proofs/RotationMoreP.v — GENERAL ROTATION covariance (property C12), continued: the POINT-CHARGE (Boys-type
   one-electron) integral and the MOMENTUM operator, primitive level.  Vocabulary and conventions of
   Proofs/RotationP.v: R : mat3 (rows), [orthogonal] = R R^T = R^T R = 1 (proper or improper), [rot_shell R s],
   [rot_expand R a] = (R^T u)^a multiplied out; Jsum J (rot_expand R a) = sum_{a'} D(R)[a,a'] J a'.

   1. POINT CHARGE.  Proofs/OneElecP.v: the model's primitive value is [prim_val] = Phi_0 (prim_poly) with the sequence
      beta_m = (2 pi / p) K_AB F_m(p |PC|^2) ([boys_seq]), and for every s
         peval (prim_poly) s = prod over the axes of E_{v(1-s)} [(y + PA_i - s PC_i)^(a_i) (y + PB_i - s PC_i)^(b_i)].
      The three 1-D functionals have the SAME variance v (1 - s), so the product is the isotropic functional
      E3 (v (1 - s)) of the product polynomial ([prim_poly_is_E3]); the displacement vectors PA - s PC, PB - s PC
      rotate with R when A, B, C do; hence for every s the values of the s-polynomials are covariant
      ([prim_poly_rotation_covariant_eval]); the D-combination of the s-polynomials of the rotated system is again a
      coefficient list ([Jpoly]), Phi is linear, and two coefficient lists with the same values have the same Phi
      ([OneElecP.Phi_unique], characteristic 0) for ANY sequence beta ([Phi_prim_poly_rotation_covariant]); finally the
      Boys argument p |PC|^2 and K_AB are invariant ([boys_seq_rot]):

        point_charge_prim_rotation_covariant :
          sum_{a'} sum_{b'} D(R)[a,a'] D(R)[b,b'] prim_val(R C; R A, R B; a', b') = prim_val(C; A, B; a, b).

      No property of the Boys function is used (fboys is an arbitrary function of the field record).

   2. MOMENTUM.  [mom_x_prim] ... of Proofs/CoreDiffP.v are the first-derivative operator
         grad_k = e^{beta u^2} d/du_k (. e^{-beta u^2}) = d_k - 2 beta u_k            (u = r - B)
      acting on the index b of the overlap ([mom_prim_is_gradT]); for Q with orthonormal columns
         grad_k (f o Q) = sum_i Q i k ((grad_i f) o Q)                                 ([gradop_subst])
      (chain rule [Poly3.dv_subst] + [subst_mulv]); with Q = R^T:

        momentum_prim_rotation_covariant :
          sum_{a'} sum_{b'} D(R)[a,a'] D(R)[b,b'] mom_k(R A, R B; a', b') = sum_i R[k][i] mom_i(A, B; a, b)

      (k = x, y, z; R[k][i] = row k, column i): the D-contracted momentum integrals of the rotated system are the
      ROTATED VECTOR R (mom_x, mom_y, mom_z) of the original one.  Equivalent inverse form
      [momentum_prim_rotation_covariant_inv]:  sum_k R[k][j] (D-contracted mom'_k) = mom_j. *)
From Coq Require Import List Arith Lia Field.
From GB Require Import Base.Field Base.FNum Base.Tables Gauss.Moment1D Gauss.SPoly Gauss.Poly3 Model.Shell
  Model.MomentInt Model.OneElec Proofs.DiffOpP Proofs.CoreSumP Proofs.CoreBlockP Proofs.CoreDiffP Proofs.OneElecP
  Proofs.RigidP Proofs.RotationP.
Import ListNotations.

Section PointCharge.
Context {F : Type} (K : Fops F) (Kf : is_field K).
Add Field KFrm : Kf.
Local Open Scope F_scope.
Notation "0" := (f0 K) : F_scope.
Notation "1" := (f1 K) : F_scope.
Infix "+" := (fadd K) : F_scope.
Infix "*" := (fmul K) : F_scope.
Infix "-" := (fsub K) : F_scope.
Infix "/" := (fdiv K) : F_scope.
Notation "- x" := (fopp K x) : F_scope.
Notation "# n" := (ofnat K n) (at level 5) : F_scope.
Notation speval := (SPoly.peval K).
Notation Phi := (SPoly.Phi K).
Notation padd := (Moment1D.padd K).
Notation pscale := (Moment1D.pscale K).

(* ---- vectors as functions of the axis ---- *)
Definition rotv (R : axis -> axis -> F) (A : axis -> F) : axis -> F := fun i => dot K (R i) A.
Definition Pv (A B : axis -> F) (alpha beta : F) : axis -> F :=
  fun i => (alpha * A i + beta * B i) / (alpha + beta).
(* PA - s PC and PB - s PC *)
Definition dAs (C A B : axis -> F) (alpha beta s : F) : axis -> F :=
  fun i => Pv A B alpha beta i - A i - s * (Pv A B alpha beta i - C i).
Definition dBs (C A B : axis -> F) (alpha beta s : F) : axis -> F :=
  fun i => Pv A B alpha beta i - B i - s * (Pv A B alpha beta i - C i).

Definition prim_poly_v (C A B : axis -> F) (alpha beta : F) (ca cb : comp) : list F :=
  prim_poly K (C AX) (C AY) (C AZ) (A AX) (A AY) (A AZ) (B AX) (B AY) (B AZ) alpha beta ca cb.
Definition pc_var (alpha beta s : F) : F := 1 / ((1 + 1) * (alpha + beta)) * (1 - s).

(* for every s the value of the s-polynomial is the ISOTROPIC 3-D functional (variance v (1 - s)) of
   (y + PA - s PC)^a (y + PB - s PC)^b *)
Theorem prim_poly_is_E3 (C A B : axis -> F) alpha beta ca cb s :
  speval (prim_poly_v C A B alpha beta ca cb) s
  = E3 K (pc_var alpha beta s)
      (smono K (dAs C A B alpha beta s) ca (smono K (dBs C A B alpha beta s) cb (one3 K))).
Proof.
  unfold prim_poly_v. rewrite (prim_poly_eval K Kf). cbv zeta. symmetry.
  rewrite (factors_E3 K _ _ _ _ _
             (factors_smono K Kf _ _ _ _ _ _ _
                (factors_smono K Kf _ _ _ _ _ _ _ (factors_one3 K Kf _)))).
  reflexivity.
Qed.

Lemma dAs_rot (R : axis -> axis -> F) C A B alpha beta s : alpha + beta <> 0 ->
  forall i, dAs (rotv R C) (rotv R A) (rotv R B) alpha beta s i = dot K (R i) (dAs C A B alpha beta s).
Proof. intros Hp i. unfold dAs, Pv, rotv, dot, sum3. field. exact Hp. Qed.
Lemma dBs_rot (R : axis -> axis -> F) C A B alpha beta s : alpha + beta <> 0 ->
  forall i, dBs (rotv R C) (rotv R A) (rotv R B) alpha beta s i = dot K (R i) (dBs C A B alpha beta s).
Proof. intros Hp i. unfold dBs, Pv, rotv, dot, sum3. field. exact Hp. Qed.

(* per s: the values of the s-polynomials are covariant *)
Theorem prim_poly_rotation_covariant_eval (R : axis -> axis -> F) C A B alpha beta ca cb s :
  orth_rows K (transpose R) -> alpha + beta <> 0 ->
  Jsum K (fun a' => Jsum K (fun b' =>
      speval (prim_poly_v (rotv R C) (rotv R A) (rotv R B) alpha beta a' b') s)
    (subst_mon K (transpose R) cb)) (subst_mon K (transpose R) ca)
  = speval (prim_poly_v C A B alpha beta ca cb) s.
Proof.
  intros HO Hp. rewrite prim_poly_is_E3.
  rewrite (Jsum_ext K _ (fun a' => Jsum K (fun b' => E3 K (pc_var alpha beta s)
             (smono K (dAs (rotv R C) (rotv R A) (rotv R B) alpha beta s) a'
                (smono K (dBs (rotv R C) (rotv R A) (rotv R B) alpha beta s) b' (one3 K))))
             (subst_mon K (transpose R) cb))).
  2:{ intro a'. apply Jsum_ext. intro b'. apply prim_poly_is_E3. }
  apply (rotated_product2_E3 K Kf _ R (dAs C A B alpha beta s) (dBs C A B alpha beta s)).
  - exact HO.
  - now apply dAs_rot.
  - now apply dBs_rot.
Qed.

(* ---- the D-combination of a family of s-polynomials is a coefficient list ---- *)
Fixpoint Jpoly (G : mon -> list F) (f : poly3 (F:=F)) : list F :=
  match f with [] => [] | mc :: f' => padd (pscale (snd mc) (G (fst mc))) (Jpoly G f') end.

Lemma speval_Jpoly G f s : speval (Jpoly G f) s = Jsum K (fun m => speval (G m) s) f.
Proof.
  induction f as [|mc f IH]; cbn [Jpoly Jsum]; [reflexivity|].
  now rewrite (peval_padd K Kf), (peval_pscale K Kf), IH.
Qed.
Lemma Phi_Jpoly bet m G f : Phi bet m (Jpoly G f) = Jsum K (fun m' => Phi bet m (G m')) f.
Proof.
  induction f as [|mc f IH]; cbn [Jpoly Jsum]; [reflexivity|].
  now rewrite (Phi_padd K Kf), (Phi_pscale K Kf), IH.
Qed.

Hypothesis char0 : forall n, #(S n) <> 0.

(* through the linear functional Phi_m of ANY sequence *)
Theorem Phi_prim_poly_rotation_covariant (R : axis -> axis -> F) C A B alpha beta ca cb bet m :
  orth_rows K (transpose R) -> alpha + beta <> 0 ->
  Jsum K (fun a' => Jsum K (fun b' =>
      Phi bet m (prim_poly_v (rotv R C) (rotv R A) (rotv R B) alpha beta a' b'))
    (subst_mon K (transpose R) cb)) (subst_mon K (transpose R) ca)
  = Phi bet m (prim_poly_v C A B alpha beta ca cb).
Proof.
  intros HO Hp.
  set (G := fun a' b' => prim_poly_v (rotv R C) (rotv R A) (rotv R B) alpha beta a' b').
  rewrite (Jsum_ext K _ (fun a' => Phi bet m (Jpoly (G a') (subst_mon K (transpose R) cb))))
    by (intro a'; now rewrite Phi_Jpoly).
  rewrite <- Phi_Jpoly.
  apply (Phi_unique K Kf char0). intro s.
  rewrite speval_Jpoly.
  rewrite (Jsum_ext K _ (fun a' => Jsum K (fun b' => speval (G a' b') s) (subst_mon K (transpose R) cb)))
    by (intro a'; apply speval_Jpoly).
  now apply prim_poly_rotation_covariant_eval.
Qed.

(* ---- the Boys sequence sees the centres through |A - B|^2 and |P - C|^2 only ---- *)
Definition boys_seq_v (C A B : axis -> F) (alpha beta : F) : nat -> F :=
  boys_seq K (A AX) (A AY) (A AZ) (B AX) (B AY) (B AZ) (C AX) (C AY) (C AZ) alpha beta.

Lemma boys_seq_rot (R : axis -> axis -> F) C A B alpha beta m :
  orth_rows K (transpose R) -> alpha + beta <> 0 ->
  boys_seq_v (rotv R C) (rotv R A) (rotv R B) alpha beta m = boys_seq_v C A B alpha beta m.
Proof.
  intros HO Hp. unfold boys_seq_v, boys_seq. cbv zeta.
  pose proof (norm_rot K Kf R (fun i => A i - B i) HO) as NAB.
  pose proof (norm_rot K Kf R (fun i => (alpha * A i + beta * B i) / (alpha + beta) - C i) HO) as NPC.
  unfold sum3 in NAB, NPC.
  assert (EAB : forall i, rotv R A i - rotv R B i = dot K (R i) (fun j => A j - B j))
    by (intro i; unfold rotv, dot, sum3; ring).
  assert (EPC : forall i, (alpha * rotv R A i + beta * rotv R B i) / (alpha + beta) - rotv R C i
                          = dot K (R i) (fun j => (alpha * A j + beta * B j) / (alpha + beta) - C j))
    by (intro i; unfold rotv, dot, sum3; field; exact Hp).
  rewrite !EAB, !EPC, NAB, NPC. reflexivity.
Qed.

Definition prim_val_v (C A B : axis -> F) (alpha beta : F) (ca cb : comp) : F :=
  prim_val K (C AX) (C AY) (C AZ) (A AX) (A AY) (A AZ) (B AX) (B AY) (B AZ) alpha beta ca cb.

Theorem prim_val_rotation_covariant_v (R : axis -> axis -> F) C A B alpha beta ca cb :
  orth_rows K (transpose R) -> alpha + beta <> 0 ->
  Jsum K (fun a' => Jsum K (fun b' => prim_val_v (rotv R C) (rotv R A) (rotv R B) alpha beta a' b')
    (subst_mon K (transpose R) cb)) (subst_mon K (transpose R) ca)
  = prim_val_v C A B alpha beta ca cb.
Proof.
  intros HO Hp. unfold prim_val_v, prim_val.
  fold (boys_seq_v C A B alpha beta) (prim_poly_v C A B alpha beta ca cb).
  rewrite <- (Phi_prim_poly_rotation_covariant R C A B alpha beta ca cb _ 0%nat HO Hp).
  apply Jsum_ext. intro a'. apply Jsum_ext. intro b'.
  fold (boys_seq_v (rotv R C) (rotv R A) (rotv R B) alpha beta)
       (prim_poly_v (rotv R C) (rotv R A) (rotv R B) alpha beta a' b').
  apply Phi_ext. intro k. now apply boys_seq_rot.
Qed.

(* ---- in the vocabulary of RigidP / RotationP: shells, vec3, mat3 ---- *)
Definition centre (s : shell F) : axis -> F := vecf (s_x s, s_y s, s_z s).
Definition pc_prim (C : @vec3 F) (sa sb : shell F) (ca cb : comp) (alpha beta : F) : F :=
  prim_val K (vget C 0) (vget C 1) (vget C 2) (s_x sa) (s_y sa) (s_z sa) (s_x sb) (s_y sb) (s_z sb)
           alpha beta ca cb.

Lemma centre_rot R s i : centre (rot_shell K R s) i = rotv (matf R) (centre s) i.
Proof. destruct i; reflexivity. Qed.
Lemma vecf_mapply R C i : vecf (mapply K R C) i = rotv (matf R) (vecf C) i.
Proof. destruct C as [[c0 c1] c2]. destruct i; reflexivity. Qed.

Lemma pc_prim_as_v C sa sb ca cb alpha beta :
  pc_prim C sa sb ca cb alpha beta = prim_val_v (vecf C) (centre sa) (centre sb) alpha beta ca cb.
Proof. destruct C as [[c0 c1] c2]. reflexivity. Qed.

Lemma prim_val_v_ext C A B C' A' B' alpha beta ca cb :
  (forall i, C i = C' i) -> (forall i, A i = A' i) -> (forall i, B i = B' i) ->
  prim_val_v C A B alpha beta ca cb = prim_val_v C' A' B' alpha beta ca cb.
Proof. intros HC HA HB. unfold prim_val_v. now rewrite !HC, !HA, !HB. Qed.

(* GENERAL ROTATIONS, point-charge (nuclear-attraction type) integral of two primitives, the charge at C *)
Theorem point_charge_prim_rotation_covariant R (C : @vec3 F) sa sb ca cb alpha beta :
  orthogonal K R -> psum K alpha beta <> 0 ->
  Jsum K (fun a' => Jsum K (fun b' =>
       pc_prim (mapply K R C) (rot_shell K R sa) (rot_shell K R sb) a' b' alpha beta)
     (rot_expand K R cb)) (rot_expand K R ca)
  = pc_prim C sa sb ca cb alpha beta.
Proof.
  intros HO Hp. rewrite pc_prim_as_v.
  rewrite <- (prim_val_rotation_covariant_v (matf R) (vecf C) (centre sa) (centre sb) alpha beta ca cb
                (orthogonal_cols K R HO) Hp).
  unfold rot_expand. apply Jsum_ext. intro a'. apply Jsum_ext. intro b'.
  rewrite pc_prim_as_v. apply prim_val_v_ext; intro i;
    [apply vecf_mapply|apply centre_rot|apply centre_rot].
Qed.

End PointCharge.

(* ==================================================================================================== *)
(* 2. MOMENTUM: the first-derivative operator on polynomial x Gaussian and its behaviour under substitution *)
Section Grad.
Context {F : Type} (K : Fops F) (Kf : is_field K).
Add Field KFrmg : Kf.
Local Open Scope F_scope.
Notation "0" := (f0 K) : F_scope.
Notation "1" := (f1 K) : F_scope.
Infix "+" := (fadd K) : F_scope.
Infix "*" := (fmul K) : F_scope.
Infix "-" := (fsub K) : F_scope.
Infix "/" := (fdiv K) : F_scope.
Notation "- x" := (fopp K x) : F_scope.
Notation "# n" := (ofnat K n) (at level 5) : F_scope.

(* grad_k f = e^{beta u^2} d/du_k (f e^{-beta u^2}) = d_k f - 2 beta u_k f *)
Definition gradop (k : axis) (beta : F) (f : poly3 (F:=F)) : poly3 (F:=F) :=
  dv K k f ++ pscale3 K (- ((1 + 1) * beta)) (mulv k f).
Definition gradT (k : axis) (beta : F) (J : mon -> F) : mon -> F := fun b => Jsum K J (gradop k beta (mono3 K b)).

Lemma gradop_adjoint k beta :
  adjoint K (gradop k beta) (fun J m => dvT K k J m + (- ((1 + 1) * beta)) * mulvT k J m).
Proof.
  unfold gradop.
  apply (adjoint_app2 K Kf (dv K k) (dvT K k) (fun f => pscale3 K (- ((1 + 1) * beta)) (mulv k f))
           (fun J m => (- ((1 + 1) * beta)) * mulvT k J m)).
  - apply (Jsum_dv K Kf).
  - apply (adjoint_scale K Kf _ (mulv k) (mulvT k)). apply (Jsum_mulv K).
Qed.
Lemma gradop_cong k beta f g : Poly3.peq K f g -> Poly3.peq K (gradop k beta f) (gradop k beta g).
Proof. apply (adjoint_cong K _ _ (gradop_adjoint k beta)). Qed.
Lemma Jsum_gradop k beta J f : Jsum K J (gradop k beta f) = Jsum K (gradT k beta J) f.
Proof.
  rewrite (gradop_adjoint k beta). apply Jsum_ext. intro b. unfold gradT.
  rewrite (gradop_adjoint k beta). unfold mono3. cbn [Jsum fst snd]. ring.
Qed.

(* chain rule for the Gaussian-weighted derivative: Q^T Q = 1 (columns of Q orthonormal) *)
Theorem gradop_subst (Q : axis -> axis -> F) k beta f J : orth_rows K (transpose Q) ->
  Jsum K J (gradop k beta (subst K Q f))
  = sum3 K (fun i => Q i k * Jsum K J (subst K Q (gradop i beta f))).
Proof.
  intros HO. unfold gradop. rewrite (Jsum_app K Kf), (dv_subst K Kf), (Jsum_pscale3 K Kf). unfold sum3.
  rewrite !subst_app, !(Jsum_app K Kf), !(subst_pscale3 K Kf), !(Jsum_pscale3 K Kf), !(subst_mulv K Kf),
    !(Jsum_mullin_exp K Kf).
  pose proof (HO k AX) as H1. pose proof (HO k AY) as H2. pose proof (HO k AZ) as H3.
  unfold sum3, transpose in H1, H2, H3.
  set (c := - ((1 + 1) * beta)).
  generalize (Jsum K J (subst K Q (dv K AX f))) (Jsum K J (subst K Q (dv K AY f)))
    (Jsum K J (subst K Q (dv K AZ f))).
  intros dx dy dz.
  set (X := Jsum K J (mulv AX (subst K Q f))). set (Y := Jsum K J (mulv AY (subst K Q f))).
  set (Z := Jsum K J (mulv AZ (subst K Q f))).
  transitivity (Q AX k * dx + Q AY k * dy + Q AZ k * dz
                + c * ((Q AX k * Q AX AX + Q AY k * Q AY AX + Q AZ k * Q AZ AX) * X
                       + (Q AX k * Q AX AY + Q AY k * Q AY AY + Q AZ k * Q AZ AY) * Y
                       + (Q AX k * Q AX AZ + Q AY k * Q AY AZ + Q AZ k * Q AZ AZ) * Z)); [|ring].
  rewrite H1, H2, H3. unfold delta3, X, Y, Z. destruct k; cbn [axis_eqb]; ring.
Qed.

(* a covariant bilinear form B(a, b): when grad_k acts on the second index the result transforms as D x D on the
   indices and as a VECTOR on k *)
Theorem gradT_covariant (Q : axis -> axis -> F) beta (B B' : mon -> mon -> F) :
  orth_rows K (transpose Q) ->
  (forall a b, Jsum K (fun a' => Jsum K (fun b' => B' a' b') (subst_mon K Q b)) (subst_mon K Q a) = B a b) ->
  forall k a b, Jsum K (fun a' => Jsum K (fun b' => gradT k beta (B' a') b') (subst_mon K Q b)) (subst_mon K Q a)
                = sum3 K (fun i => Q i k * gradT i beta (B a) b).
Proof.
  intros HC Hcov k a b.
  set (T := fun i a' => Jsum K (fun m => Jsum K (B' a') (subst_mon K Q m)) (gradop i beta (mono3 K b))).
  rewrite (Jsum_ext K _ (fun a' => Q AX k * T AX a' + Q AY k * T AY a' + Q AZ k * T AZ a')).
  2:{ intro a'. rewrite <- Jsum_gradop.
      rewrite (gradop_cong k beta _ _ (Poly3.peq_sym K _ _ (subst_mono3 K Kf Q b))).
      rewrite (gradop_subst Q k beta (mono3 K b) _ HC). unfold sum3, T, subst.
      now rewrite !(Jsum_lift K Kf). }
  rewrite !(Jsum_Jadd K Kf), !(Jsum_Jscale K Kf). unfold sum3.
  assert (E : forall i, Jsum K (T i) (subst_mon K Q a) = gradT i beta (B a) b).
  { intro i. unfold T. rewrite (Jsum_swap K Kf). unfold gradT. apply Jsum_ext. intro m. apply Hcov. }
  now rewrite !E.
Qed.

End Grad.

Section Momentum.
Context {F : Type} (K : Fops F) (Kf : is_field K).
Add Field KFrmm : Kf.
Local Open Scope F_scope.
Notation "0" := (f0 K) : F_scope.
Notation "1" := (f1 K) : F_scope.
Infix "+" := (fadd K) : F_scope.
Infix "*" := (fmul K) : F_scope.
Infix "-" := (fsub K) : F_scope.
Infix "/" := (fdiv K) : F_scope.
Notation "- x" := (fopp K x) : F_scope.
Notation "# n" := (ofnat K n) (at level 5) : F_scope.

(* the real matrix M_k of the momentum integral -i M_k, component k = x, y, z *)
Definition momk (k : axis) : shell F -> shell F -> comp -> comp -> F -> F -> F :=
  match k with AX => mom_x_prim K | AY => mom_y_prim K | AZ => mom_z_prim K end.

Lemma Bop1_explicit beta (T : tfun (F:=F)) i j :
  iterop (Bop K beta) 1 T i j = #j * T i (Nat.pred j) - (1 + 1) * beta * T i (S j).
Proof. cbn [iterop]. unfold Bop. destruct j; cbn [Nat.sub Nat.pred]; rewrite ?Nat.sub_0_r; reflexivity. Qed.

(* [mom_x_prim] ... of Proofs/CoreDiffP.v are the Gaussian-weighted derivative acting on the index of the right
   function of the overlap *)
Theorem mom_prim_is_gradT k sa sb ca cb alpha beta :
  momk k sa sb ca cb alpha beta = gradT K k beta (fun b => ovl_prim K sa sb ca b alpha beta) cb.
Proof.
  destruct ca as [[ax ay] az]. destruct cb as [[bx by_] bz].
  destruct k; unfold momk, mom_x_prim, mom_y_prim, mom_z_prim, D1; rewrite Bop1_explicit;
    unfold gradT, gradop, mono3, S1, Sfun, ovl_prim, mom_prim, KAB, T1, cx, cy, cz;
    cbn [fst snd dv mulv map app pscale3 Jsum bump mlower expo];
    rewrite !(T3_c_irrelevant K _ _ _ (PC K _ _ _ _ _)); ring.
Qed.

Hypothesis Hexp : forall x y, fexp K (x + y) = fexp K x * fexp K y.

(* GENERAL ROTATIONS, momentum of two primitives: D x D on the function indices, a VECTOR on the component *)
Theorem momentum_prim_rotation_covariant R k sa sb ca cb alpha beta :
  orthogonal K R -> psum K alpha beta <> 0 ->
  Jsum K (fun a' => Jsum K (fun b' =>
       momk k (rot_shell K R sa) (rot_shell K R sb) a' b' alpha beta)
     (rot_expand K R cb)) (rot_expand K R ca)
  = sum3 K (fun i => matf R k i * momk i sa sb ca cb alpha beta).
Proof.
  intros HO Hp.
  rewrite (Jsum_ext K _ (fun a' => Jsum K (fun b' =>
             gradT K k beta (fun b => ovl_prim K (rot_shell K R sa) (rot_shell K R sb) a' b alpha beta) b')
             (rot_expand K R cb))).
  2:{ intro a'. apply Jsum_ext. intro b'. apply mom_prim_is_gradT. }
  unfold rot_expand.
  rewrite (gradT_covariant K Kf (transpose (matf R)) beta
           (fun a b => ovl_prim K sa sb a b alpha beta)
           (fun a b => ovl_prim K (rot_shell K R sa) (rot_shell K R sb) a b alpha beta)).
  - unfold sum3, transpose. now rewrite !mom_prim_is_gradT.
  - exact (orthogonal_rows K R HO).
  - intros a b. now apply (overlap_prim_rotation_covariant K Kf Hexp).
Qed.

(* the inverse form: the vector of D-contracted integrals of the rotated system, rotated back *)
Corollary momentum_prim_rotation_covariant_inv R j sa sb ca cb alpha beta :
  orthogonal K R -> psum K alpha beta <> 0 ->
  sum3 K (fun k => matf R k j *
    Jsum K (fun a' => Jsum K (fun b' =>
         momk k (rot_shell K R sa) (rot_shell K R sb) a' b' alpha beta)
       (rot_expand K R cb)) (rot_expand K R ca))
  = momk j sa sb ca cb alpha beta.
Proof.
  intros HO Hp. unfold sum3 at 1. rewrite !(momentum_prim_rotation_covariant R _ sa sb ca cb alpha beta HO Hp).
  pose proof (orthogonal_cols K R HO j AX) as H1. pose proof (orthogonal_cols K R HO j AY) as H2.
  pose proof (orthogonal_cols K R HO j AZ) as H3. unfold sum3, transpose in *.
  set (mx := momk AX sa sb ca cb alpha beta). set (my := momk AY sa sb ca cb alpha beta).
  set (mz := momk AZ sa sb ca cb alpha beta).
  transitivity ((matf R AX j * matf R AX AX + matf R AY j * matf R AY AX + matf R AZ j * matf R AZ AX) * mx
              + (matf R AX j * matf R AX AY + matf R AY j * matf R AY AY + matf R AZ j * matf R AZ AY) * my
              + (matf R AX j * matf R AX AZ + matf R AY j * matf R AY AZ + matf R AZ j * matf R AZ AZ) * mz);
    [ring|].
  rewrite H1, H2, H3. unfold delta3, mx, my, mz. destruct j; cbn [axis_eqb]; ring.
Qed.

End Momentum.

(* ==================================================================================================== *)
(* Examples over Qc: the hypotheses are satisfiable and the STATEMENTS are re-checked by computation (vm_compute,
   independent of the proofs) with the proper 3-4-5 rotation R345 and the improper Rimp of Proofs/RotationP.v.
   The transcendental closures are stand-ins: sqrt = id, exp = 1, and a "Boys function" that depends on m and on its
   argument (the theorems assume nothing about fboys). *)
From Coq Require Import ZArith QArith Qcanon.
Definition exBoys (m : nat) (x : Qc) : Qc := Qcplus (Qcmult x x) (qc_of (Z.of_nat (S m)) 1).
Definition exKQm : Fops Qc := QcK true (Q2Qc 3) (fun x => x) (fun _ => Q2Qc 1) (fun x => x) exBoys.
Section Examples.
Let KQ : Fops Qc := exKQm.
Let KQf : is_field KQ := QcK_field _ _ _ _ _ _.
Let q (n : Z) (d : positive) : Qc := qc_of n d.

Lemma exKQm_char0 : forall n, ofnat KQ (S n) <> f0 KQ.
Proof. apply QcK_char0. Qed.
Lemma exKQm_exp_hom : forall x y, fexp KQ (fadd KQ x y) = fmul KQ (fexp KQ x) (fexp KQ y).
Proof. intros x y. apply Qc_is_canon. vm_compute. reflexivity. Qed.
Lemma exKQm_R345 : orthogonal KQ R345. Proof. exact orthogonal_R345. Qed.
Lemma exKQm_Rimp : orthogonal KQ Rimp. Proof. exact orthogonal_Rimp. Qed.
Lemma exKQm_psum : psum KQ (q 3 2) (q 2 3) <> f0 KQ. Proof. exact ex_psum. Qed.

(* the theorems instantiated: nothing left to assume *)
Example point_charge_rotation_345 :
  forall ca cb,
  Jsum KQ (fun a' => Jsum KQ (fun b' =>
       pc_prim KQ (mapply KQ R345 exC) (rot_shell KQ R345 exA) (rot_shell KQ R345 exB) a' b' (q 3 2) (q 2 3))
     (rot_expand KQ R345 cb)) (rot_expand KQ R345 ca)
  = pc_prim KQ exC exA exB ca cb (q 3 2) (q 2 3).
Proof.
  intros. apply (point_charge_prim_rotation_covariant KQ KQf exKQm_char0 R345 exC exA exB ca cb _ _
                   exKQm_R345 exKQm_psum).
Qed.
Example momentum_rotation_improper :
  forall k ca cb,
  Jsum KQ (fun a' => Jsum KQ (fun b' =>
       momk KQ k (rot_shell KQ Rimp exA) (rot_shell KQ Rimp exB) a' b' (q 3 2) (q 2 3))
     (rot_expand KQ Rimp cb)) (rot_expand KQ Rimp ca)
  = sum3 KQ (fun i => fmul KQ (matf Rimp k i) (momk KQ i exA exB ca cb (q 3 2) (q 2 3))).
Proof.
  intros. apply (momentum_prim_rotation_covariant KQ KQf exKQm_exp_hom Rimp k exA exB ca cb _ _
                   exKQm_Rimp exKQm_psum).
Qed.

(* the statements re-evaluated numerically *)
Definition pc_cov_check (R : @mat3 Qc) (ca cb : comp) : bool :=
  Qeq_bool
    (Jsum KQ (fun a' => Jsum KQ (fun b' =>
         pc_prim KQ (mapply KQ R exC) (rot_shell KQ R exA) (rot_shell KQ R exB) a' b' (q 3 2) (q 2 3))
       (rot_expand KQ R cb)) (rot_expand KQ R ca))
    (pc_prim KQ exC exA exB ca cb (q 3 2) (q 2 3)).
Definition mom_vec_check (R : @mat3 Qc) (k : axis) (ca cb : comp) : bool :=
  Qeq_bool
    (Jsum KQ (fun a' => Jsum KQ (fun b' =>
         momk KQ k (rot_shell KQ R exA) (rot_shell KQ R exB) a' b' (q 3 2) (q 2 3))
       (rot_expand KQ R cb)) (rot_expand KQ R ca))
    (sum3 KQ (fun i => fmul KQ (matf R k i) (momk KQ i exA exB ca cb (q 3 2) (q 2 3)))).
Definition ex_pairs : list (comp * comp) :=
  [((1, 0, 0), (0, 1, 0)); ((0, 1, 1), (1, 0, 0)); ((2, 0, 0), (1, 1, 0)); ((0, 0, 0), (0, 0, 1));
   ((0, 1, 0), (1, 0, 1))]%nat.

Example point_charge_rotation_computed :
  forallb (fun R => forallb (fun t => pc_cov_check R (fst t) (snd t)) ex_pairs) [R345; Rimp] = true.
Proof. vm_compute. reflexivity. Qed.
(* not vacuous: without the representation matrices the p-p value DOES change *)
Example point_charge_rotation_not_invariant :
  Qeq_bool (pc_prim KQ (mapply KQ R345 exC) (rot_shell KQ R345 exA) (rot_shell KQ R345 exB)
              (1, 0, 0)%nat (0, 1, 0)%nat (q 3 2) (q 2 3))
           (pc_prim KQ exC exA exB (1, 0, 0)%nat (0, 1, 0)%nat (q 3 2) (q 2 3)) = false.
Proof. vm_compute. reflexivity. Qed.
Example momentum_rotation_computed :
  forallb (fun R => forallb (fun k => forallb (fun t => mom_vec_check R k (fst t) (snd t)) ex_pairs)
     [AX; AY; AZ]) [R345; Rimp] = true.
Proof. vm_compute. reflexivity. Qed.
(* the component index transforms with R, not with R^T: the transposed law fails for the (non-symmetric) R345 *)
Example momentum_rotation_transposed_law_fails :
  Qeq_bool
    (Jsum KQ (fun a' => Jsum KQ (fun b' =>
         momk KQ AX (rot_shell KQ R345 exA) (rot_shell KQ R345 exB) a' b' (q 3 2) (q 2 3))
       (rot_expand KQ R345 (0, 1, 0)%nat)) (rot_expand KQ R345 (1, 0, 0)%nat))
    (sum3 KQ (fun i => fmul KQ (matf R345 i AX) (momk KQ i exA exB (1, 0, 0)%nat (0, 1, 0)%nat (q 3 2) (q 2 3))))
  = false.
Proof. vm_compute. reflexivity. Qed.
End Examples.

Lemma rotation_more_hypotheses_satisfiable :
  exists (F : Type) (K : Fops F) (R1 R2 : @mat3 F) (alpha beta : F),
    is_field K /\ (forall n, ofnat K (S n) <> f0 K)
    /\ (forall x y, fexp K (fadd K x y) = fmul K (fexp K x) (fexp K y))
    /\ orthogonal K R1 /\ orthogonal K R2 /\ psum K alpha beta <> f0 K.
Proof.
  exists Qc, exKQm, R345, Rimp, (qc_of 3 2), (qc_of 2 3).
  split; [apply QcK_field|]. split; [apply exKQm_char0|]. split; [apply exKQm_exp_hom|].
  split; [apply exKQm_R345|]. split; [apply exKQm_Rimp|apply exKQm_psum].
Qed.
