(* Proofs/RotationMoreP.v — GENERAL ROTATION covariance (property C12), continued: the POINT-CHARGE (Boys-type
   one-electron) integral and the MOMENTUM operator, primitive level.  Vocabulary and conventions of
   Proofs/RotationP.v: R : mat3 (rows), [orthogonal] = R R^T = R^T R = 1 (proper or improper), [rot_shell R s],
   [rot_expand R a] = (R^T u)^a multiplied out; Jsum J (rot_expand R a) = sum_{a'} D(R)[a,a'] J a'.

   1. POINT CHARGE.  Proofs/OneElecP.v: the model's primitive value is [prim_val] = Phi_0 (prim_poly) with the sequence
      beta_m = (2 pi / p) K_AB F_m(p |PC|^2) ([boys_seq]), and for every s
         peval (prim_poly) s = prod over the axes of E_{v(1-s)} [(y + PA_i - s PC_i)^(a_i) (y + PB_i - s PC_i)^(b_i)].
      The three 1-D functionals have the SAME variance v (1 - s), so the product is the isotropic functional
      E3 (v (1 - s)) of the product polynomial ([prim_poly_is_E3]); the displacement vectors PA - s PC, PB - s PC
      rotate with R when A, B, C do; hence for every s the values of the s-polynomials are covariant
      ([prim_poly_rotation_covariant_eval]); the D-combination of the s-polynomials of the rotated system is again a
      coefficient list ([Jpoly]), Phi is linear, and two coefficient lists with the same values have the same Phi
      ([OneElecP.Phi_unique], characteristic 0) for ANY sequence beta ([Phi_prim_poly_rotation_covariant]); finally the
      Boys argument p |PC|^2 and K_AB are invariant ([boys_seq_rot]):

        point_charge_prim_rotation_covariant :
          sum_{a'} sum_{b'} D(R)[a,a'] D(R)[b,b'] prim_val(R C; R A, R B; a', b') = prim_val(C; A, B; a, b).

      No property of the Boys function is used (fboys is an arbitrary function of the field record).

   2. MOMENTUM.  [mom_x_prim] ... of Proofs/CoreDiffP.v are the first-derivative operator
         grad_k = e^{beta u^2} d/du_k (. e^{-beta u^2}) = d_k - 2 beta u_k            (u = r - B)
      acting on the index b of the overlap ([mom_prim_is_gradT]); for Q with orthonormal columns
         grad_k (f o Q) = sum_i Q i k ((grad_i f) o Q)                                 ([gradop_subst])
      (chain rule [Poly3.dv_subst] + [subst_mulv]); with Q = R^T:

        momentum_prim_rotation_covariant :
          sum_{a'} sum_{b'} D(R)[a,a'] D(R)[b,b'] mom_k(R A, R B; a', b') = sum_i R[k][i] mom_i(A, B; a, b)

      (k = x, y, z; R[k][i] = row k, column i): the D-contracted momentum integrals of the rotated system are the
      ROTATED VECTOR R (mom_x, mom_y, mom_z) of the original one.  Equivalent inverse form
      [momentum_prim_rotation_covariant_inv]:  sum_k R[k][j] (D-contracted mom'_k) = mom_j. *)
From Coq Require Import List Arith Lia Field.
From GB Require Import Base.Field Base.FNum Base.Tables Gauss.Moment1D Gauss.SPoly Gauss.Poly3 Model.Shell
  Model.MomentInt Model.OneElec Proofs.DiffOpP Proofs.CoreSumP Proofs.CoreBlockP Proofs.CoreDiffP Proofs.OneElecP
  Proofs.RigidP Proofs.RotationP.
Import ListNotations.

Section PointCharge.
Context {F : Type} (K : Fops F) (Kf : is_field K).
Add Field KFrm : Kf.
Local Open Scope F_scope.
Notation "0" := (f0 K) : F_scope.
Notation "1" := (f1 K) : F_scope.
Infix "+" := (fadd K) : F_scope.
Infix "*" := (fmul K) : F_scope.
Infix "-" := (fsub K) : F_scope.
Infix "/" := (fdiv K) : F_scope.
Notation "- x" := (fopp K x) : F_scope.
Notation "# n" := (ofnat K n) (at level 5) : F_scope.
Notation speval := (SPoly.peval K).
Notation Phi := (SPoly.Phi K).
Notation padd := (Moment1D.padd K).
Notation pscale := (Moment1D.pscale K).

(* ---- vectors as functions of the axis ---- *)
Definition rotv (R : axis -> axis -> F) (A : axis -> F) : axis -> F := fun i => dot K (R i) A.
Definition Pv (A B : axis -> F) (alpha beta : F) : axis -> F :=
  fun i => (alpha * A i + beta * B i) / (alpha + beta).
(* PA - s PC and PB - s PC *)
Definition dAs (C A B : axis -> F) (alpha beta s : F) : axis -> F :=
  fun i => Pv A B alpha beta i - A i - s * (Pv A B alpha beta i - C i).
Definition dBs (C A B : axis -> F) (alpha beta s : F) : axis -> F :=
  fun i => Pv A B alpha beta i - B i - s * (Pv A B alpha beta i - C i).

Definition prim_poly_v (C A B : axis -> F) (alpha beta : F) (ca cb : comp) : list F :=
  prim_poly K (C AX) (C AY) (C AZ) (A AX) (A AY) (A AZ) (B AX) (B AY) (B AZ) alpha beta ca cb.
Definition pc_var (alpha beta s : F) : F := 1 / ((1 + 1) * (alpha + beta)) * (1 - s).

(* for every s the value of the s-polynomial is the ISOTROPIC 3-D functional (variance v (1 - s)) of
   (y + PA - s PC)^a (y + PB - s PC)^b *)
Theorem prim_poly_is_E3 (C A B : axis -> F) alpha beta ca cb s :
  speval (prim_poly_v C A B alpha beta ca cb) s
  = E3 K (pc_var alpha beta s)
      (smono K (dAs C A B alpha beta s) ca (smono K (dBs C A B alpha beta s) cb (one3 K))).
Proof.
  unfold prim_poly_v. rewrite (prim_poly_eval K Kf). cbv zeta. symmetry.
  rewrite (factors_E3 K _ _ _ _ _
             (factors_smono K Kf _ _ _ _ _ _ _
                (factors_smono K Kf _ _ _ _ _ _ _ (factors_one3 K Kf _)))).
  reflexivity.
Qed.

Lemma dAs_rot (R : axis -> axis -> F) C A B alpha beta s : alpha + beta <> 0 ->
  forall i, dAs (rotv R C) (rotv R A) (rotv R B) alpha beta s i = dot K (R i) (dAs C A B alpha beta s).
Proof. intros Hp i. unfold dAs, Pv, rotv, dot, sum3. field. exact Hp. Qed.
Lemma dBs_rot (R : axis -> axis -> F) C A B alpha beta s : alpha + beta <> 0 ->
  forall i, dBs (rotv R C) (rotv R A) (rotv R B) alpha beta s i = dot K (R i) (dBs C A B alpha beta s).
Proof. intros Hp i. unfold dBs, Pv, rotv, dot, sum3. field. exact Hp. Qed.

(* per s: the values of the s-polynomials are covariant *)
Theorem prim_poly_rotation_covariant_eval (R : axis -> axis -> F) C A B alpha beta ca cb s :
  orth_rows K (transpose R) -> alpha + beta <> 0 ->
  Jsum K (fun a' => Jsum K (fun b' =>
      speval (prim_poly_v (rotv R C) (rotv R A) (rotv R B) alpha beta a' b') s)
    (subst_mon K (transpose R) cb)) (subst_mon K (transpose R) ca)
  = speval (prim_poly_v C A B alpha beta ca cb) s.
Proof.
  intros HO Hp. rewrite prim_poly_is_E3.
  rewrite (Jsum_ext K _ (fun a' => Jsum K (fun b' => E3 K (pc_var alpha beta s)
             (smono K (dAs (rotv R C) (rotv R A) (rotv R B) alpha beta s) a'
                (smono K (dBs (rotv R C) (rotv R A) (rotv R B) alpha beta s) b' (one3 K))))
             (subst_mon K (transpose R) cb))).
  2:{ intro a'. apply Jsum_ext. intro b'. apply prim_poly_is_E3. }
  apply (rotated_product2_E3 K Kf _ R (dAs C A B alpha beta s) (dBs C A B alpha beta s)).
  - exact HO.
  - now apply dAs_rot.
  - now apply dBs_rot.
Qed.

(* ---- the D-combination of a family of s-polynomials is a coefficient list ---- *)
Fixpoint Jpoly (G : mon -> list F) (f : poly3 (F:=F)) : list F :=
  match f with [] => [] | mc :: f' => padd (pscale (snd mc) (G (fst mc))) (Jpoly G f') end.

Lemma speval_Jpoly G f s : speval (Jpoly G f) s = Jsum K (fun m => speval (G m) s) f.
Proof.
  induction f as [|mc f IH]; cbn [Jpoly Jsum]; [reflexivity|].
  now rewrite (peval_padd K Kf), (peval_pscale K Kf), IH.
Qed.
Lemma Phi_Jpoly bet m G f : Phi bet m (Jpoly G f) = Jsum K (fun m' => Phi bet m (G m')) f.
Proof.
  induction f as [|mc f IH]; cbn [Jpoly Jsum]; [reflexivity|].
  now rewrite (Phi_padd K Kf), (Phi_pscale K Kf), IH.
Qed.

Hypothesis char0 : forall n, #(S n) <> 0.

(* through the linear functional Phi_m of ANY sequence *)
Theorem Phi_prim_poly_rotation_covariant (R : axis -> axis -> F) C A B alpha beta ca cb bet m :
  orth_rows K (transpose R) -> alpha + beta <> 0 ->
  Jsum K (fun a' => Jsum K (fun b' =>
      Phi bet m (prim_poly_v (rotv R C) (rotv R A) (rotv R B) alpha beta a' b'))
    (subst_mon K (transpose R) cb)) (subst_mon K (transpose R) ca)
  = Phi bet m (prim_poly_v C A B alpha beta ca cb).
Proof.
  intros HO Hp.
  set (G := fun a' b' => prim_poly_v (rotv R C) (rotv R A) (rotv R B) alpha beta a' b').
  rewrite (Jsum_ext K _ (fun a' => Phi bet m (Jpoly (G a') (subst_mon K (transpose R) cb))))
    by (intro a'; now rewrite Phi_Jpoly).
  rewrite <- Phi_Jpoly.
  apply (Phi_unique K Kf char0). intro s.
  rewrite speval_Jpoly.
  rewrite (Jsum_ext K _ (fun a' => Jsum K (fun b' => speval (G a' b') s) (subst_mon K (transpose R) cb)))
    by (intro a'; apply speval_Jpoly).
  now apply prim_poly_rotation_covariant_eval.
Qed.

(* ---- the Boys sequence sees the centres through |A - B|^2 and |P - C|^2 only ---- *)
Definition boys_seq_v (C A B : axis -> F) (alpha beta : F) : nat -> F :=
  boys_seq K (A AX) (A AY) (A AZ) (B AX) (B AY) (B AZ) (C AX) (C AY) (C AZ) alpha beta.

Lemma boys_seq_rot (R : axis -> axis -> F) C A B alpha beta m :
  orth_rows K (transpose R) -> alpha + beta <> 0 ->
  boys_seq_v (rotv R C) (rotv R A) (rotv R B) alpha beta m = boys_seq_v C A B alpha beta m.
Proof.
  intros HO Hp. unfold boys_seq_v, boys_seq. cbv zeta.
  pose proof (norm_rot K Kf R (fun i => A i - B i) HO) as NAB.
  pose proof (norm_rot K Kf R (fun i => (alpha * A i + beta * B i) / (alpha + beta) - C i) HO) as NPC.
  unfold sum3 in NAB, NPC.
  assert (EAB : forall i, rotv R A i - rotv R B i = dot K (R i) (fun j => A j - B j))
    by (intro i; unfold rotv, dot, sum3; ring).
  assert (EPC : forall i, (alpha * rotv R A i + beta * rotv R B i) / (alpha + beta) - rotv R C i
                          = dot K (R i) (fun j => (alpha * A j + beta * B j) / (alpha + beta) - C j))
    by (intro i; unfold rotv, dot, sum3; field; exact Hp).
  rewrite !EAB, !EPC, NAB, NPC. reflexivity.
Qed.

Definition prim_val_v (C A B : axis -> F) (alpha beta : F) (ca cb : comp) : F :=
  prim_val K (C AX) (C AY) (C AZ) (A AX) (A AY) (A AZ) (B AX) (B AY) (B AZ) alpha beta ca cb.

Theorem prim_val_rotation_covariant_v (R : axis -> axis -> F) C A B alpha beta ca cb :
  orth_rows K (transpose R) -> alpha + beta <> 0 ->
  Jsum K (fun a' => Jsum K (fun b' => prim_val_v (rotv R C) (rotv R A) (rotv R B) alpha beta a' b')
    (subst_mon K (transpose R) cb)) (subst_mon K (transpose R) ca)
  = prim_val_v C A B alpha beta ca cb.
Proof.
  intros HO Hp. unfold prim_val_v, prim_val.
  fold (boys_seq_v C A B alpha beta) (prim_poly_v C A B alpha beta ca cb).
  rewrite <- (Phi_prim_poly_rotation_covariant R C A B alpha beta ca cb _ 0%nat HO Hp).
  apply Jsum_ext. intro a'. apply Jsum_ext. intro b'.
  fold (boys_seq_v (rotv R C) (rotv R A) (rotv R B) alpha beta)
       (prim_poly_v (rotv R C) (rotv R A) (rotv R B) alpha beta a' b').
  apply Phi_ext. intro k. now apply boys_seq_rot.
Qed.

(* ---- in the vocabulary of RigidP / RotationP: shells, vec3, mat3 ---- *)
Definition centre (s : shell F) : axis -> F := vecf (s_x s, s_y s, s_z s).
Definition pc_prim (C : @vec3 F) (sa sb : shell F) (ca cb : comp) (alpha beta : F) : F :=
  prim_val K (vget C 0) (vget C 1) (vget C 2) (s_x sa) (s_y sa) (s_z sa) (s_x sb) (s_y sb) (s_z sb)
           alpha beta ca cb.

Lemma centre_rot R s i : centre (rot_shell K R s) i = rotv (matf R) (centre s) i.
Proof. destruct i; reflexivity. Qed.
Lemma vecf_mapply R C i : vecf (mapply K R C) i = rotv (matf R) (vecf C) i.
Proof. destruct C as [[c0 c1] c2]. destruct i; reflexivity. Qed.

Lemma pc_prim_as_v C sa sb ca cb alpha beta :
  pc_prim C sa sb ca cb alpha beta = prim_val_v (vecf C) (centre sa) (centre sb) alpha beta ca cb.
Proof. destruct C as [[c0 c1] c2]. reflexivity. Qed.

Lemma prim_val_v_ext C A B C' A' B' alpha beta ca cb :
  (forall i, C i = C' i) -> (forall i, A i = A' i) -> (forall i, B i = B' i) ->
  prim_val_v C A B alpha beta ca cb = prim_val_v C' A' B' alpha beta ca cb.
Proof. intros HC HA HB. unfold prim_val_v. now rewrite !HC, !HA, !HB. Qed.

(* GENERAL ROTATIONS, point-charge (nuclear-attraction type) integral of two primitives, the charge at C *)
Theorem point_charge_prim_rotation_covariant R (C : @vec3 F) sa sb ca cb alpha beta :
  orthogonal K R -> psum K alpha beta <> 0 ->
  Jsum K (fun a' => Jsum K (fun b' =>
       pc_prim (mapply K R C) (rot_shell K R sa) (rot_shell K R sb) a' b' alpha beta)
     (rot_expand K R cb)) (rot_expand K R ca)
  = pc_prim C sa sb ca cb alpha beta.
Proof.
  intros HO Hp. rewrite pc_prim_as_v.
  rewrite <- (prim_val_rotation_covariant_v (matf R) (vecf C) (centre sa) (centre sb) alpha beta ca cb
                (orthogonal_cols K R HO) Hp).
  unfold rot_expand. apply Jsum_ext. intro a'. apply Jsum_ext. intro b'.
  rewrite pc_prim_as_v. apply prim_val_v_ext; intro i;
    [apply vecf_mapply|apply centre_rot|apply centre_rot].
Qed.

End PointCharge.
