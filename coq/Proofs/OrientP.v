(* Proofs/OrientP.v — both orientations of a shell pair agree AS COMPUTED (property C11).

   The recursion of _moment_int.py / _diff_operator_int.py is not symmetric in its two
   arguments: the row over the left angular momentum is built first, the rows over the right
   one afterwards, the derivative acts on the left function (with padding).  The theorems say
   that the table computed for (A, alpha, la | B, beta, lb), read at [k][j][i], and the table
   computed INDEPENDENTLY for the swapped pair (B, beta, lb | A, alpha, la), read at [k][i][j],
   hold the same number (times (-1)^k for the k-th derivative table): both are the closed-form
   Gaussian moment (table_correct / diffop_slice_valid), and that spec is symmetric
   (Moment1D.T3_swap) resp. antisymmetric under integration by parts (DiffOpP.ibp_iter).
   Stated at table level (one axis, one primitive pair) for all la, lb, orders, exponents and
   centres; the block-level statement (contraction, norms, product over axes) is a finite
   sum of products of such entries and is covered by the correspondence check. *)
From Coq Require Import List Arith Lia Field.
From GB Require Import Base.Field Base.Tables Gauss.Moment1D Model.Shell Model.MomentInt
  Model.DiffOp Proofs.MomentIntP Proofs.DiffOpP.
Import ListNotations.

Section P.
Context {F : Type} (K : Fops F) (Kf : is_field K).
Add Field KF_or : Kf.
Local Open Scope F_scope.
Notation "0" := (f0 K) : F_scope.
Notation "1" := (f1 K) : F_scope.
Infix "+" := (fadd K) : F_scope.
Infix "*" := (fmul K) : F_scope.
Infix "-" := (fsub K) : F_scope.
Infix "/" := (fdiv K) : F_scope.
Notation "- x" := (fopp K x) : F_scope.
Notation "# n" := (ofnat K n) (at level 5) : F_scope.

Variables (Ax Bx Cx alpha beta : F).
Hypothesis Hp : psum K alpha beta <> 0.
Hypothesis H2 : 1 + 1 <> 0.

Lemma psum_comm : psum K beta alpha = psum K alpha beta.
Proof. unfold psum. ring. Qed.
Lemma Hp' : psum K beta alpha <> 0.
Proof. rewrite psum_comm. exact Hp. Qed.
Lemma twop_comm : twop K beta alpha = twop K alpha beta.
Proof. unfold twop. now rewrite psum_comm. Qed.
Lemma Pw_comm : Pw K Bx Ax beta alpha = Pw K Ax Bx alpha beta.
Proof. unfold Pw. rewrite psum_comm. f_equal. ring. Qed.
Lemma PA_swap : PA K Bx Ax beta alpha = PB K Ax Bx alpha beta.
Proof. unfold PA, PB. now rewrite Pw_comm. Qed.
Lemma PB_swap : PB K Bx Ax beta alpha = PA K Ax Bx alpha beta.
Proof. unfold PA, PB. now rewrite Pw_comm. Qed.
Lemma PC_swap : PC K Bx Ax Cx beta alpha = PC K Ax Bx Cx alpha beta.
Proof. unfold PC. now rewrite Pw_comm. Qed.
Lemma base_swap : base K Bx Ax beta alpha = base K Ax Bx alpha beta.
Proof.
  unfold base, hmean. rewrite psum_comm. f_equal. f_equal. f_equal.
  replace (beta * alpha) with (alpha * beta) by ring.
  replace ((Bx - Ax) * (Bx - Ax)) with ((Ax - Bx) * (Ax - Bx)) by ring. reflexivity.
Qed.

(* moment / overlap tables (any moment order k, any moment centre C) *)
Theorem table_swap la lb km k j i : k <= km -> j <= lb -> i <= la ->
  nth3 K k i j (table K Bx Ax Cx beta alpha lb la km)
  = nth3 K k j i (table K Ax Bx Cx alpha beta la lb km).
Proof.
  intros Hk Hj Hi.
  rewrite (table_correct K Kf Bx Ax Cx beta alpha lb la km Hp' H2 k i j Hk Hi Hj).
  rewrite (table_correct K Kf Ax Bx Cx alpha beta la lb km Hp H2 k j i Hk Hj Hi).
  rewrite base_swap, twop_comm, PA_swap, PB_swap, PC_swap. f_equal.
  apply (T3_swap K Kf).
Qed.

(* derivative tables *)
Notation tf := (@tfun F).
Fixpoint sg (k : nat) (x : F) : F := match k with O => x | S k' => - sg k' x end.
Definition swp (T : tf) : tf := fun i j => T j i.

Lemma Sfun_swap : peq (Sfun K Bx Ax beta alpha) (swp (Sfun K Ax Bx alpha beta)).
Proof.
  intros j i. unfold swp, Sfun. rewrite base_swap, twop_comm, PA_swap, PB_swap. f_equal.
  apply (T3_swap K Kf).
Qed.

Lemma Bop_sg k (U : tf) : peq (Bop K beta (fun i j => sg k (U i j))) (fun i j => sg k (Bop K beta U i j)).
Proof.
  induction k as [|k IH]; intros i j; [reflexivity|]. cbn [sg].
  rewrite <- (IH i j). unfold Bop. ring.
Qed.

Lemma negA_swp (T : tf) : peq (negA K beta (swp T)) (swp (fun i j => - Bop K beta T i j)).
Proof. intros j i. unfold negA, swp, Bop. ring. Qed.

Lemma iter_negA_swp k (T : tf) :
  peq (iterop (negA K beta) k (swp T)) (swp (fun i j => sg k (iterop (Bop K beta) k T i j))).
Proof.
  induction k as [|k IH]; [intros j i; reflexivity|].
  intros j i. cbn [iterop].
  rewrite (negA_ext K beta _ _ IH j i).
  rewrite (negA_swp (fun i0 j0 => sg k (iterop (Bop K beta) k T i0 j0)) j i).
  unfold swp. cbn [sg]. f_equal. apply (Bop_sg k (iterop (Bop K beta) k T) i j).
Qed.

(* the k-th derivative table of the swapped pair is (-1)^k times the transposed table:
   k = 1 (momentum, angular momentum) antisymmetric, k = 2 (kinetic energy) symmetric *)
Theorem dtable_swap la lb D k j i : k <= D -> j <= lb -> i <= la ->
  nth3 K k i j (dtable K Bx Ax beta alpha lb la D)
  = sg k (nth3 K k j i (dtable K Ax Bx alpha beta la lb D)).
Proof.
  intros Hk Hj Hi.
  rewrite (diffop_slice_valid K Kf Bx Ax beta alpha lb la D Hp' H2 k i j Hk Hi Hj).
  rewrite (diffop_slice_valid K Kf Ax Bx alpha beta la lb D Hp H2 k j i Hk Hj Hi).
  rewrite (iterop_ext (negA K beta) k _ _ (negA_ext K beta) Sfun_swap j i).
  rewrite (iter_negA_swp k (Sfun K Ax Bx alpha beta) j i). unfold swp. f_equal.
  symmetry. apply (ibp_iter K Kf Ax Bx alpha beta Hp H2 k i j).
Qed.

Corollary dtable_swap_first la lb D j i : 1 <= D -> j <= lb -> i <= la ->
  nth3 K 1 i j (dtable K Bx Ax beta alpha lb la D) = - nth3 K 1 j i (dtable K Ax Bx alpha beta la lb D).
Proof. intros. now rewrite dtable_swap by assumption. Qed.
Corollary dtable_swap_second la lb D j i : 2 <= D -> j <= lb -> i <= la ->
  nth3 K 2 i j (dtable K Bx Ax beta alpha lb la D) = nth3 K 2 j i (dtable K Ax Bx alpha beta la lb D).
Proof. intros. rewrite dtable_swap by assumption. cbn [sg]. ring. Qed.
End P.
