(* Proofs/RotationAngP.v — GENERAL ROTATIONS (C12): the ANGULAR MOMENTUM about the coordinate origin is a PSEUDO-VECTOR.

   [ang_x_prim] ... of Proofs/CoreDiffP.v (x component: S_x (M_y D_z - M_z D_y), M the first moment about the
   coordinate origin, D the first derivative of the right function) are the operator
        L_k = sum_{m n} eps_{kmn} X_m G_n,     X_m = u_m + B_m  (multiplication by the coordinate r_m, u = r - B),
                                               G_n = e^{beta u^2} d/du_n (. e^{-beta u^2})   ([RotationMoreP.gradop])
   acting on the index b of the overlap ([ang_prim_is_LT]).  For Q with orthonormal columns and B' = Q^T B
        X'_m G'_n (f o Q) = sum_{i j} Q i m Q j n ((X_i G_j f) o Q)                      ([XG_subst])
   and  (row_i Q) x (row_j Q) = det Q * eps_{ijl} row_l Q                                ([cross_xy] ...), hence
        L'_k (f o Q) = det Q * sum_l Q l k ((L_l f) o Q)                                 ([Lop_subst]).
   With Q = R^T (the coordinate origin is fixed by R):

     angular_momentum_prim_rotation_covariant :
        sum_{a'} sum_{b'} D(R)[a,a'] D(R)[b,b'] ang_k(R A, R B; a', b') = det R * sum_l R[k][l] ang_l(A, B; a, b)

   for every orthogonal R; det R * det R = 1 ([det3_sq]); for an improper R the extra sign is -1.
   Block level: [angmom_block_rotation_law] for every entry of [angmom_block_re]
   (= AngularMomentumIntegral.construct_array_contraction, real matrix of the value -i M). *)
From Coq Require Import List Arith Lia Field.
From GB Require Import Base.Field Base.FNum Base.Tables Gauss.Moment1D Gauss.Poly3 Model.Shell Model.MomentInt
  Model.DiffOp Proofs.DiffOpP Proofs.CoreSumP Proofs.CoreBlockP Proofs.CoreDiffP Proofs.RigidP Proofs.RotationP
  Proofs.RotationBlockP Proofs.RotationMoreP Proofs.RotationMoreBlockP.
Import ListNotations.

Definition nxt (k : axis) : axis := match k with AX => AY | AY => AZ | AZ => AX end.

Section Ang.
Context {F : Type} (K : Fops F) (Kf : is_field K).
Add Field KFang : Kf.
Local Open Scope F_scope.
Notation "0" := (f0 K) : F_scope.
Notation "1" := (f1 K) : F_scope.
Infix "+" := (fadd K) : F_scope.
Infix "*" := (fmul K) : F_scope.
Infix "-" := (fsub K) : F_scope.
Infix "/" := (fdiv K) : F_scope.
Notation "- x" := (fopp K x) : F_scope.
Notation "# n" := (ofnat K n) (at level 5) : F_scope.

(* ---- determinant and cross products of the rows ---- *)
Definition det3 (M : axis -> axis -> F) : F :=
  M AX AX * (M AY AY * M AZ AZ - M AY AZ * M AZ AY)
  + M AX AY * (M AY AZ * M AZ AX - M AY AX * M AZ AZ)
  + M AX AZ * (M AY AX * M AZ AY - M AY AY * M AZ AX).
(* component k of (row i) x (row j) *)
Definition cross (M : axis -> axis -> F) (i j k : axis) : F :=
  M i (nxt k) * M j (nxt (nxt k)) - M i (nxt (nxt k)) * M j (nxt k).

Lemma det3_transpose M : det3 (transpose M) = det3 M.
Proof. unfold det3, transpose. ring. Qed.

(* w_k = sum_l (w . row_l) M l k  when the columns of M are orthonormal *)
Lemma expand_in_rows (M : axis -> axis -> F) (w : axis -> F) k : orth_rows K (transpose M) ->
  w k = sum3 K (fun l => dot K w (M l) * M l k).
Proof.
  intro HC. pose proof (HC AX k) as H1. pose proof (HC AY k) as H2. pose proof (HC AZ k) as H3.
  unfold dot, sum3, transpose in *.
  transitivity (w AX * (M AX AX * M AX k + M AY AX * M AY k + M AZ AX * M AZ k)
                + w AY * (M AX AY * M AX k + M AY AY * M AY k + M AZ AY * M AZ k)
                + w AZ * (M AX AZ * M AX k + M AY AZ * M AY k + M AZ AZ * M AZ k)); [|ring].
  rewrite H1, H2, H3. unfold delta3. destruct k; cbn [axis_eqb]; ring.
Qed.

Lemma cross_xy M k : orth_rows K (transpose M) -> cross M AX AY k = det3 M * M AZ k.
Proof.
  intro HC. rewrite (expand_in_rows M (cross M AX AY) k HC).
  unfold sum3, dot, sum3, cross, det3. cbn [nxt]. ring.
Qed.
Lemma cross_yz M k : orth_rows K (transpose M) -> cross M AY AZ k = det3 M * M AX k.
Proof.
  intro HC. rewrite (expand_in_rows M (cross M AY AZ) k HC).
  unfold sum3, dot, sum3, cross, det3. cbn [nxt]. ring.
Qed.
Lemma cross_zx M k : orth_rows K (transpose M) -> cross M AZ AX k = det3 M * M AY k.
Proof.
  intro HC. rewrite (expand_in_rows M (cross M AZ AX) k HC).
  unfold sum3, dot, sum3, cross, det3. cbn [nxt]. ring.
Qed.

(* det R = +1 or -1, in the form det^2 = 1 *)
Lemma det3_sq M : orth_rows K M -> det3 M * det3 M = 1.
Proof.
  intro HO.
  pose proof (HO AX AX) as H00. pose proof (HO AX AY) as H01. pose proof (HO AX AZ) as H02.
  pose proof (HO AY AX) as H10. pose proof (HO AY AY) as H11. pose proof (HO AY AZ) as H12.
  pose proof (HO AZ AX) as H20. pose proof (HO AZ AY) as H21. pose proof (HO AZ AZ) as H22.
  unfold sum3, delta3 in *. cbn [axis_eqb] in *.
  set (g := fun i k => M i AX * M k AX + M i AY * M k AY + M i AZ * M k AZ).
  transitivity (g AX AX * (g AY AY * g AZ AZ - g AY AZ * g AZ AY)
                + g AX AY * (g AY AZ * g AZ AX - g AY AX * g AZ AZ)
                + g AX AZ * (g AY AX * g AZ AY - g AY AY * g AZ AX)); [unfold g, det3; ring|].
  unfold g. rewrite H00, H01, H02, H10, H11, H12, H20, H21, H22. ring.
Qed.

(* ---- the operators ---- *)
(* X_m G_n : multiplication by the coordinate r_m = u_m + B_m after the Gaussian-weighted derivative along n *)
Definition XG (Bv : axis -> F) (beta : F) (m n : axis) (f : poly3 (F:=F)) : poly3 (F:=F) :=
  plin3 K m (Bv m) (gradop K n beta f).
Definition Lop (Bv : axis -> F) (beta : F) (k : axis) (f : poly3 (F:=F)) : poly3 (F:=F) :=
  XG Bv beta (nxt k) (nxt (nxt k)) f ++ pscale3 K (- (1)) (XG Bv beta (nxt (nxt k)) (nxt k) f).
Definition LT (Bv : axis -> F) (beta : F) (k : axis) (J : mon -> F) : mon -> F :=
  fun b => Jsum K J (Lop Bv beta k (mono3 K b)).

Lemma XG_adjoint Bv beta m n : exists opT, adjoint K (XG Bv beta m n) opT.
Proof.
  eexists. unfold XG.
  apply (adjoint_comp K (plin3 K m (Bv m)) _ (gradop K n beta) _ (Jsum_plin3 K Kf m (Bv m)) (gradop_adjoint K Kf n beta)).
Qed.
Lemma Lop_adjoint Bv beta k : exists opT, adjoint K (Lop Bv beta k) opT.
Proof.
  destruct (XG_adjoint Bv beta (nxt k) (nxt (nxt k))) as [T1 A1].
  destruct (XG_adjoint Bv beta (nxt (nxt k)) (nxt k)) as [T2 A2].
  eexists. unfold Lop.
  apply (adjoint_app2 K Kf _ T1 (fun f => pscale3 K (- (1)) (XG Bv beta (nxt (nxt k)) (nxt k) f))
           (fun J m => (- (1)) * T2 J m) A1).
  apply (adjoint_scale K Kf (- (1)) _ T2 A2).
Qed.
Lemma Lop_cong Bv beta k f g : Poly3.peq K f g -> Poly3.peq K (Lop Bv beta k f) (Lop Bv beta k g).
Proof. destruct (Lop_adjoint Bv beta k) as [opT A]. apply (adjoint_cong K _ _ A). Qed.
Lemma Jsum_Lop Bv beta k J f : Jsum K J (Lop Bv beta k f) = Jsum K (LT Bv beta k J) f.
Proof.
  destruct (Lop_adjoint Bv beta k) as [opT A]. rewrite A.
  apply Jsum_ext. intro b. unfold LT. rewrite A. unfold mono3. cbn [Jsum fst snd]. ring.
Qed.

(* multiplication by a coordinate, B' = Q^T B *)
Lemma X_subst (Q : axis -> axis -> F) (Bv Bv' : axis -> F) m g J :
  orth_rows K (transpose Q) -> (forall n, Bv' n = sum3 K (fun i => Q i n * Bv i)) ->
  Jsum K J (plin3 K m (Bv' m) (subst K Q g))
  = sum3 K (fun i => Q i m * Jsum K J (subst K Q (plin3 K i (Bv i) g))).
Proof.
  intros HC HB. unfold sum3. rewrite !(subst_plin3 K Kf), !(Jsum_mulaff_exp K Kf), !(Jsum_mullin_exp K Kf),
    (Jsum_plin3_exp K Kf), (HB m). unfold sum3.
  pose proof (HC m AX) as H1. pose proof (HC m AY) as H2. pose proof (HC m AZ) as H3.
  unfold sum3, transpose in H1, H2, H3.
  set (G0 := Jsum K J (subst K Q g)).
  set (X := Jsum K J (mulv AX (subst K Q g))). set (Y := Jsum K J (mulv AY (subst K Q g))).
  set (Z := Jsum K J (mulv AZ (subst K Q g))).
  transitivity ((Q AX m * Bv AX + Q AY m * Bv AY + Q AZ m * Bv AZ) * G0
                + ((Q AX m * Q AX AX + Q AY m * Q AY AX + Q AZ m * Q AZ AX) * X
                   + (Q AX m * Q AX AY + Q AY m * Q AY AY + Q AZ m * Q AZ AY) * Y
                   + (Q AX m * Q AX AZ + Q AY m * Q AY AZ + Q AZ m * Q AZ AZ) * Z)); [|ring].
  rewrite H1, H2, H3. unfold delta3, X, Y, Z. destruct m; cbn [axis_eqb]; ring.
Qed.

Theorem XG_subst (Q : axis -> axis -> F) (Bv Bv' : axis -> F) beta m n f J :
  orth_rows K (transpose Q) -> (forall n, Bv' n = sum3 K (fun i => Q i n * Bv i)) ->
  Jsum K J (XG Bv' beta m n (subst K Q f))
  = sum3 K (fun i => sum3 K (fun j => Q i m * Q j n * Jsum K J (subst K Q (XG Bv beta i j f)))).
Proof.
  intros HC HB. unfold XG.
  rewrite (Jsum_plin3 K Kf), (gradop_subst K Kf Q n beta f _ HC). unfold sum3 at 1.
  rewrite <- !(Jsum_plin3 K Kf m (Bv' m) J).
  rewrite !(X_subst Q Bv Bv' m _ J HC HB). unfold sum3. ring.
Qed.

(* THE ANGULAR-MOMENTUM OPERATOR UNDER AN ORTHOGONAL SUBSTITUTION: a pseudo-vector *)
Theorem Lop_subst (Q : axis -> axis -> F) (Bv Bv' : axis -> F) beta k f J :
  orth_rows K (transpose Q) -> (forall n, Bv' n = sum3 K (fun i => Q i n * Bv i)) ->
  Jsum K J (Lop Bv' beta k (subst K Q f))
  = det3 Q * sum3 K (fun l => Q l k * Jsum K J (subst K Q (Lop Bv beta l f))).
Proof.
  intros HC HB. unfold Lop.
  rewrite (Jsum_app K Kf), (Jsum_pscale3 K Kf), !(XG_subst Q Bv Bv' beta _ _ f J HC HB).
  unfold sum3. rewrite !subst_app, !(Jsum_app K Kf), !(subst_pscale3 K Kf), !(Jsum_pscale3 K Kf). cbn [nxt].
  pose proof (cross_xy Q k HC) as Cxy. pose proof (cross_yz Q k HC) as Cyz. pose proof (cross_zx Q k HC) as Czx.
  generalize (Jsum K J (subst K Q (XG Bv beta AX AX f))) (Jsum K J (subst K Q (XG Bv beta AX AY f)))
    (Jsum K J (subst K Q (XG Bv beta AX AZ f))) (Jsum K J (subst K Q (XG Bv beta AY AX f)))
    (Jsum K J (subst K Q (XG Bv beta AY AY f))) (Jsum K J (subst K Q (XG Bv beta AY AZ f)))
    (Jsum K J (subst K Q (XG Bv beta AZ AX f))) (Jsum K J (subst K Q (XG Bv beta AZ AY f)))
    (Jsum K J (subst K Q (XG Bv beta AZ AZ f))).
  intros xx xy xz yx yy yz zx zy zz.
  transitivity (cross Q AX AY k * (xy - yx) + cross Q AY AZ k * (yz - zy) + cross Q AZ AX k * (zx - xz)).
  - unfold cross. destruct k; cbn [nxt]; ring.
  - rewrite Cxy, Cyz, Czx. ring.
Qed.

(* a covariant bilinear form B(a, b): when L_k acts on the second index the result transforms as D x D on the
   indices and as a PSEUDO-VECTOR on k *)
Theorem LT_covariant (Q : axis -> axis -> F) (Bv Bv' : axis -> F) beta (B B' : mon -> mon -> F) :
  orth_rows K (transpose Q) -> (forall n, Bv' n = sum3 K (fun i => Q i n * Bv i)) ->
  (forall a b, Jsum K (fun a' => Jsum K (fun b' => B' a' b') (subst_mon K Q b)) (subst_mon K Q a) = B a b) ->
  forall k a b, Jsum K (fun a' => Jsum K (fun b' => LT Bv' beta k (B' a') b') (subst_mon K Q b)) (subst_mon K Q a)
                = det3 Q * sum3 K (fun l => Q l k * LT Bv beta l (B a) b).
Proof.
  intros HC HB Hcov k a b.
  set (T := fun l a' => Jsum K (fun m => Jsum K (B' a') (subst_mon K Q m)) (Lop Bv beta l (mono3 K b))).
  rewrite (Jsum_ext K _ (fun a' => det3 Q * (Q AX k * T AX a' + Q AY k * T AY a' + Q AZ k * T AZ a'))).
  2:{ intro a'. rewrite <- Jsum_Lop.
      rewrite (Lop_cong Bv' beta k _ _ (Poly3.peq_sym K _ _ (subst_mono3 K Kf Q b))).
      rewrite (Lop_subst Q Bv Bv' beta k (mono3 K b) _ HC HB). unfold sum3, T, subst.
      now rewrite !(Jsum_lift K Kf). }
  rewrite (Jsum_Jscale K Kf), !(Jsum_Jadd K Kf), !(Jsum_Jscale K Kf). unfold sum3.
  assert (E : forall l, Jsum K (T l) (subst_mon K Q a) = LT Bv beta l (B a) b).
  { intro l. unfold T. rewrite (Jsum_swap K Kf). unfold LT. apply Jsum_ext. intro m. apply Hcov. }
  now rewrite !E.
Qed.

(* ---- the primitive specification of CoreDiffP ---- *)
(* the real matrix M_k of the angular-momentum integral -i M_k about the coordinate origin, component k *)
Definition angk (k : axis) : shell F -> shell F -> comp -> comp -> F -> F -> F :=
  match k with AX => ang_x_prim K | AY => ang_y_prim K | AZ => ang_z_prim K end.

(* the first moment about the coordinate origin raises the index of the right function: r = (r - B) + B *)
Lemma T3_k1 v a b c i j : T3 K v a b c 1 i j = T3 K v a b 0 0 i (S j) + (c - b) * T3 K v a b 0 0 i j.
Proof.
  unfold T3. rewrite (S3_Sk K Kf), (S3_Sj K Kf).
  change (S3 K v a b c 0 0 i j) with (S3 K v a b 0 0 0 i j).
  change (S3 K v a b c 1 0 i j) with (S3 K v a b 0 1 0 i j). ring.
Qed.

Theorem ang_prim_is_LT k sa sb ca cb alpha beta :
  angk k sa sb ca cb alpha beta
  = LT (centre sb) beta k (fun b => ovl_prim K sa sb ca b alpha beta) cb.
Proof.
  destruct ca as [[ax ay] az]. destruct cb as [[bx by_] bz].
  destruct k; unfold angk, ang_x_prim, ang_y_prim, ang_z_prim, D1, M1o; rewrite !Bop1_explicit;
    unfold LT, Lop, XG, gradop, mono3, S1, Sfun, ovl_prim, mom_prim, KAB, T1, cx, cy, cz, centre, vecf;
    cbn [nxt fst snd dv mulv map app pscale3 plin3 Jsum bump mlower expo ax2nat vget];
    rewrite !T3_k1; rewrite !(T3_c_irrelevant K _ _ _ (PC K _ _ _ _ _)); unfold PC, PB; ring.
Qed.

Hypothesis Hexp : forall x y, fexp K (x + y) = fexp K x * fexp K y.

(* GENERAL ROTATIONS, angular momentum of two primitives about the coordinate origin: D x D on the function indices,
   a PSEUDO-VECTOR (factor det R) on the component *)
Theorem angular_momentum_prim_rotation_covariant R k sa sb ca cb alpha beta :
  orthogonal K R -> psum K alpha beta <> 0 ->
  Jsum K (fun a' => Jsum K (fun b' =>
       angk k (rot_shell K R sa) (rot_shell K R sb) a' b' alpha beta)
     (rot_expand K R cb)) (rot_expand K R ca)
  = det3 (matf R) * sum3 K (fun l => matf R k l * angk l sa sb ca cb alpha beta).
Proof.
  intros HO Hp.
  rewrite (Jsum_ext K _ (fun a' => Jsum K (fun b' =>
             LT (centre (rot_shell K R sb)) beta k
                (fun b => ovl_prim K (rot_shell K R sa) (rot_shell K R sb) a' b alpha beta) b')
             (rot_expand K R cb))).
  2:{ intro a'. apply Jsum_ext. intro b'. apply ang_prim_is_LT. }
  unfold rot_expand.
  rewrite (LT_covariant (transpose (matf R)) (centre sb) (centre (rot_shell K R sb)) beta
           (fun a b => ovl_prim K sa sb a b alpha beta)
           (fun a b => ovl_prim K (rot_shell K R sa) (rot_shell K R sb) a b alpha beta)).
  - rewrite det3_transpose. unfold sum3, transpose. now rewrite !ang_prim_is_LT.
  - exact (orthogonal_rows K R HO).
  - intro n. rewrite centre_rot. unfold rotv, dot, sum3, transpose. reflexivity.
  - intros a b. now apply (overlap_prim_rotation_covariant K Kf Hexp).
Qed.

Lemma orthogonal_det_sq R : orthogonal K R -> det3 (matf R) * det3 (matf R) = 1.
Proof. intro HO. apply det3_sq. exact (orthogonal_rows K R HO). Qed.

(* ---- block level ---- *)
Hypothesis Hapx : forall x : F, fapx K x = x.
Hypothesis Hdf : forall c, dfnorm K c <> 0.
Hypothesis H2 : 1 + 1 <> 0.

(* component k of an entry of [angmom_block_re] *)
Definition ang_ent (k : axis) : entry_fun (F:=F) := fun sa sb ma ia mb ib =>
  nth (ax2nat k) (nth ib (nth mb (nth ia (nth ma (angmom_block_re K sa sb) []) []) []) []) 0.

Lemma ang_entries_are k la lb : entries_are K la lb (ang_ent k) (angk k).
Proof.
  intros sa sb G ma ia mb ib Hma Hmb Hia Hib.
  destruct (good_pair_wf K la lb sa sb G) as (WSa & WSb & He & Ca & Cb).
  pose proof (angmom_block_correct K Kf Hapx H2 sa sb ma ia mb ib WSa WSb He Hma) as Hc.
  rewrite Ca, Cb in Hc. specialize (Hc Hia Hmb Hib). cbv zeta in Hc.
  unfold ang_ent. change (nth (ax2nat k) (CoreDiffP.get4 [] ma ia mb ib (angmom_block_re K sa sb)) 0
    = contracted K sa sb (cmpd la ia) (cmpd lb ib) ma mb (angk k sa sb (cmpd la ia) (cmpd lb ib))).
  rewrite Hc. fold (cmpd la ia) (cmpd lb ib). destruct k; reflexivity.
Qed.

(* GENERAL ROTATIONS, AngularMomentumIntegral.construct_array_contraction: det R times the rotated vector of the three
   component blocks of the original system obeys the two-index law against component k of the rotated system *)
Theorem angmom_block_rotation_law R k la lb : orthogonal K R ->
  block_law2 K R la lb
    (fun sa sb ma ia mb ib => det3 (matf R) * sum3 K (fun l => matf R k l * ang_ent l sa sb ma ia mb ib))
    (ang_ent k).
Proof.
  intro HO.
  apply (block_rotation_law_generic2 K Kf Hapx Hdf R la lb _ _
           (fun sa sb ca cb x y => det3 (matf R) * sum3 K (fun l => matf R k l * angk l sa sb ca cb x y)) (angk k)).
  - unfold sum3.
    apply (entries_are_scale K Kf la lb (det3 (matf R))
             (fun sa sb ma ia mb ib => matf R k AX * ang_ent AX sa sb ma ia mb ib
                + matf R k AY * ang_ent AY sa sb ma ia mb ib + matf R k AZ * ang_ent AZ sa sb ma ia mb ib)
             (fun sa sb ca cb x y => matf R k AX * angk AX sa sb ca cb x y
                + matf R k AY * angk AY sa sb ca cb x y + matf R k AZ * angk AZ sa sb ca cb x y)).
    apply (entries_are_add K Kf la lb
             (fun sa sb ma ia mb ib => matf R k AX * ang_ent AX sa sb ma ia mb ib
                                       + matf R k AY * ang_ent AY sa sb ma ia mb ib)
             (fun sa sb ca cb x y => matf R k AX * angk AX sa sb ca cb x y
                                     + matf R k AY * angk AY sa sb ca cb x y)).
    + apply (entries_are_add K Kf la lb (fun sa sb ma ia mb ib => matf R k AX * ang_ent AX sa sb ma ia mb ib)
               (fun sa sb ca cb x y => matf R k AX * angk AX sa sb ca cb x y));
        apply (entries_are_scale K Kf), ang_entries_are.
    + apply (entries_are_scale K Kf), ang_entries_are.
  - apply ang_entries_are.
  - apply (prim_law_of_Jsum K Kf). intros sa sb ja jb alpha beta Hp.
    now apply angular_momentum_prim_rotation_covariant.
Qed.

End Ang.

(* ==================================================================================================== *)
(* Examples over Qc (stand-ins of Proofs/RotationMoreP.v / RotationMoreBlockP.v): det R345 = 1, det Rimp = -1 *)
From Coq Require Import ZArith QArith Qcanon.
Section Examples.
Let KQ : Fops Qc := exKQm.
Let KQf : is_field KQ := QcK_field _ _ _ _ _ _.
Let KB : Fops Qc := exKQb.
Let q (n : Z) (d : positive) : Qc := qc_of n d.

Example det_R345_Rimp :
  Qeq_bool (det3 KQ (matf R345)) (q 1 1) = true /\ Qeq_bool (det3 KQ (matf Rimp)) (q (-1) 1) = true.
Proof. split; vm_compute; reflexivity. Qed.

(* the theorem instantiated with the improper rotation: nothing left to assume *)
Example angular_momentum_rotation_improper :
  forall k ca cb,
  Jsum KQ (fun a' => Jsum KQ (fun b' =>
       angk KQ k (rot_shell KQ Rimp exA) (rot_shell KQ Rimp exB) a' b' (q 3 2) (q 2 3))
     (rot_expand KQ Rimp cb)) (rot_expand KQ Rimp ca)
  = fmul KQ (det3 KQ (matf Rimp))
      (sum3 KQ (fun l => fmul KQ (matf Rimp k l) (angk KQ l exA exB ca cb (q 3 2) (q 2 3)))).
Proof.
  intros. apply (angular_momentum_prim_rotation_covariant KQ KQf exKQm_exp_hom Rimp k exA exB ca cb _ _
                   exKQm_Rimp exKQm_psum).
Qed.

Definition ang_vec_check (R : @mat3 Qc) (k : axis) (ca cb : comp) : bool :=
  Qeq_bool
    (Jsum KQ (fun a' => Jsum KQ (fun b' =>
         angk KQ k (rot_shell KQ R exA) (rot_shell KQ R exB) a' b' (q 3 2) (q 2 3))
       (rot_expand KQ R cb)) (rot_expand KQ R ca))
    (fmul KQ (det3 KQ (matf R))
       (sum3 KQ (fun l => fmul KQ (matf R k l) (angk KQ l exA exB ca cb (q 3 2) (q 2 3))))).
Example angular_momentum_rotation_computed :
  forallb (fun R => forallb (fun k => forallb (fun t => ang_vec_check R k (fst t) (snd t)) ex_pairs)
     [AX; AY; AZ]) [R345; Rimp] = true.
Proof. vm_compute. reflexivity. Qed.
(* the factor det R is needed: without it the law fails for the improper rotation *)
Example angular_momentum_vector_law_fails_improper :
  Qeq_bool
    (Jsum KQ (fun a' => Jsum KQ (fun b' =>
         angk KQ AX (rot_shell KQ Rimp exA) (rot_shell KQ Rimp exB) a' b' (q 3 2) (q 2 3))
       (rot_expand KQ Rimp (0, 1, 0)%nat)) (rot_expand KQ Rimp (1, 0, 0)%nat))
    (sum3 KQ (fun l => fmul KQ (matf Rimp AX l) (angk KQ l exA exB (1, 0, 0)%nat (0, 1, 0)%nat (q 3 2) (q 2 3))))
  = false.
Proof. vm_compute. reflexivity. Qed.

(* block level through the list-level model: contracted p (2 segments) x d *)
Definition exb_angmom_block : bool :=
  forallb (fun R =>
    let S := angmom_block_re KB exP exD in
    let S' := angmom_block_re KB (rot_shell KB R exP) (rot_shell KB R exD) in
    forallb (fun k => blk2_all R 2
      (fun ma ia mb ib => fmul KB (det3 KB (matf R))
         (sum3 KB (fun l => fmul KB (matf R k l) (e5 S (ax2nat l) ma ia mb ib))))
      (e5 S' (ax2nat k))) [AX; AY; AZ]) [R345; Rimp].
Example angmom_block_law_computed : exb_angmom_block = true.
Proof. vm_compute. reflexivity. Qed.
End Examples.
