(* Proofs/ContractionP.v — C13: contractions behave as the linear combinations they denote.

   Every block model contracts primitive quantities with the (K, M) coefficient matrix by finite
   sums over the list of (exponent, coefficient-row) pairs of a shell ([prims]).  All statements
   reduce to facts about one such sum, [ssum f ps m] = sum over (alpha, row) in ps of f alpha * row[m]:
     - it only reads column m                                  (generalized = segmented),
     - it is invariant under Permutation of the pairs           (order of primitives),
     - (alpha, r1), (alpha, r2) can be merged into (alpha, r1 + r2) (splitting a primitive),
     - it is additive and homogeneous in the rows               (un-normalised linearity),
   and the contraction norm 1/sqrt(self-overlap) turns a column factor k into k/|k| (column scale).
   The facts are lifted to the two-index blocks built by [block_of] (overlap, multipole moments,
   differential operators, angular momentum), to the evaluation block, to the contracted cubes of
   the one- and two-electron Boys-type kernels, and to the assembled matrices. *)
From Coq Require Import List Arith Lia Bool Field Permutation.
From GB Require Import Base.Field Base.FNum Base.Tables Base.Blocks Model.Shell Model.MomentInt
  Model.Spherical Model.Assembly Model.Overlap Model.DiffOp Model.OneElec Model.TwoElec Model.Eval
  Proofs.BlockP Proofs.OverlapP.
Import ListNotations.

(* ------------------------------------------------------------------ *)
(* rewrites of a shell that keep its frame (l, centre, type, conventions) *)
(* ------------------------------------------------------------------ *)
Section Rewrites.
Context {F : Type}.
Definition prim := (F * list F)%type.
Definition prims (s : shell F) : list prim := combine (s_exps s) (s_coeffs s).
Definition set_prims (s : shell F) (ps : list prim) : shell F :=
  mkShell F (s_l s) (s_x s) (s_y s) (s_z s) (map fst ps) (map snd ps) (s_sph s) (s_comps s) (s_labels s).
Definition set_coeffs (s : shell F) (C : list (list F)) : shell F :=
  mkShell F (s_l s) (s_x s) (s_y s) (s_z s) (s_exps s) C (s_sph s) (s_comps s) (s_labels s).

Lemma combine_fst_snd {A B} (l : list (A * B)) : combine (map fst l) (map snd l) = l.
Proof. induction l as [|[a b] l IH]; cbn; [reflexivity|]. now rewrite IH. Qed.

Lemma prims_set_prims s ps : prims (set_prims s ps) = ps.
Proof. unfold prims, set_prims. cbn [s_exps s_coeffs]. apply combine_fst_snd. Qed.

Lemma prims_set_coeffs s C : prims (set_coeffs s C) = combine (s_exps s) C.
Proof. reflexivity. Qed.

(* a shell is well formed when it has as many coefficient rows as exponents *)
Definition wf_shell (s : shell F) : Prop := length (s_coeffs s) = length (s_exps s).

Lemma set_prims_prims s : wf_shell s -> set_prims s (prims s) = s.
Proof.
  intros H. destruct s as [l x y z es cs sph comps labels]. unfold set_prims, prims, wf_shell in *.
  cbn [s_l s_x s_y s_z s_exps s_coeffs s_sph s_comps s_labels] in *.
  f_equal.
  - revert cs H. induction es as [|e es IH]; intros [|c cs] H; cbn in *; try lia; [reflexivity|].
    now rewrite IH by lia.
  - revert cs H. induction es as [|e es IH]; intros [|c cs] H; cbn in *; try lia; [reflexivity|].
    now rewrite IH by lia.
Qed.

(* the single-column shell holding column m of a generalized shell (same primitives) *)
Definition col_rows (m : nat) (d : F) (C : list (list F)) : list (list F) :=
  map (fun row => [nth m row d]) C.
End Rewrites.

Section P.
Context {F : Type} (K : Fops F) (Kf : is_field K).
Add Field KF : Kf.
Local Open Scope F_scope.
Notation "0" := (f0 K) : F_scope.
Notation "1" := (f1 K) : F_scope.
Infix "+" := (fadd K) : F_scope.
Infix "*" := (fmul K) : F_scope.
Infix "-" := (fsub K) : F_scope.
Infix "/" := (fdiv K) : F_scope.
Notation "- x" := (fopp K x) : F_scope.
Notation fsum := (FNum.fsum K).

Definition col_shell (s : shell F) (m : nat) : shell F := set_coeffs s (col_rows m 0 (s_coeffs s)).

(* ---------------- finite sums ---------------- *)
Lemma fsum_cons x l : fsum (x :: l) = x + fsum l.
Proof. reflexivity. Qed.

Lemma fsum_app l1 l2 : fsum (l1 ++ l2) = fsum l1 + fsum l2.
Proof. induction l1 as [|x l1 IH]; cbn [app]; rewrite ?fsum_cons; [cbn; ring|]. rewrite IH. ring. Qed.

Lemma fsum_perm l l' : Permutation l l' -> fsum l = fsum l'.
Proof.
  induction 1 as [|x l l' _ IH|x y l|l l' l'' _ IH1 _ IH2]; rewrite ?fsum_cons.
  - reflexivity.
  - now rewrite IH.
  - ring.
  - now rewrite IH1.
Qed.

Lemma fsum_map_add {A} (f g : A -> F) l :
  fsum (map (fun x => f x + g x) l) = fsum (map f l) + fsum (map g l).
Proof. induction l as [|x l IH]; cbn [map]; rewrite ?fsum_cons; [cbn; ring|]. rewrite IH. ring. Qed.

Lemma fsum_map_scale {A} k (f : A -> F) l : fsum (map (fun x => k * f x) l) = k * fsum (map f l).
Proof. induction l as [|x l IH]; cbn [map]; rewrite ?fsum_cons; [cbn; ring|]. rewrite IH. ring. Qed.

Lemma fsum_map_scale_r {A} k (f : A -> F) l : fsum (map (fun x => f x * k) l) = fsum (map f l) * k.
Proof. induction l as [|x l IH]; cbn [map]; rewrite ?fsum_cons; [cbn; ring|]. rewrite IH. ring. Qed.

Lemma fsum_map_ext {A} (f g : A -> F) l : (forall x, f x = g x) -> fsum (map f l) = fsum (map g l).
Proof. intros H. f_equal. now apply map_ext. Qed.

(* ---------------- the contraction sum over one shell ---------------- *)
Definition ssum (f : F -> F) (ps : list (@prim F)) (m : nat) : F :=
  fsum (map (fun q : prim => f (fst q) * nth m (snd q) 0) ps).

Lemma ssum_ext f g ps m : (forall a, f a = g a) -> ssum f ps m = ssum g ps m.
Proof. intros H. unfold ssum. apply fsum_map_ext. intros q. now rewrite H. Qed.

Lemma ssum_app f p1 p2 m : ssum f (p1 ++ p2) m = ssum f p1 m + ssum f p2 m.
Proof. unfold ssum. now rewrite map_app, fsum_app. Qed.

(* 1. only column m is read *)
Lemma ssum_col f es C m : ssum f (combine es (col_rows m 0 C)) 0 = ssum f (combine es C) m.
Proof.
  unfold ssum, col_rows. revert C. induction es as [|e es IH]; intros [|row C]; cbn [combine map]; try reflexivity.
  rewrite !fsum_cons, IH. reflexivity.
Qed.

(* 2. order of the primitives *)
Lemma ssum_perm f ps ps' m : Permutation ps ps' -> ssum f ps m = ssum f ps' m.
Proof. intros H. unfold ssum. apply fsum_perm. now apply Permutation_map. Qed.

(* 3. splitting a primitive *)
Lemma ssum_split f l1 l2 a r r1 r2 m :
  nth m r 0 = nth m r1 0 + nth m r2 0 ->
  ssum f (l1 ++ (a, r1) :: (a, r2) :: l2) m = ssum f (l1 ++ (a, r) :: l2) m.
Proof.
  intros H. rewrite !ssum_app. unfold ssum. cbn [map fst snd]. rewrite !fsum_cons, H. ring.
Qed.

(* 4. linearity in the rows *)
Definition rows_add (C1 C2 : list (list F)) : list (list F) := map2 (map2 (fadd K)) C1 C2.
Definition rows_scale (k : F) (C : list (list F)) : list (list F) := map (map (fmul K k)) C.

Lemma nth_map2_add r1 r2 m : length r1 = length r2 ->
  nth m (map2 (fadd K) r1 r2) 0 = nth m r1 0 + nth m r2 0.
Proof.
  revert r2 m. induction r1 as [|x r1 IH]; intros [|y r2] m H; cbn in H; try lia.
  - destruct m; cbn; ring.
  - destruct m; cbn [map2 nth]; [reflexivity|]. apply IH. lia.
Qed.

Lemma nth_map_scale k r m : nth m (map (fmul K k) r) 0 = k * nth m r 0.
Proof.
  revert m. induction r as [|x r IH]; intros [|m]; cbn [map nth]; try ring; try reflexivity. apply IH.
Qed.

Definition same_shape (C1 C2 : list (list F)) : Prop :=
  Forall2 (fun r1 r2 : list F => length r1 = length r2) C1 C2.

Lemma ssum_add f es C1 C2 m : same_shape C1 C2 ->
  ssum f (combine es (rows_add C1 C2)) m = ssum f (combine es C1) m + ssum f (combine es C2) m.
Proof.
  intros H. revert es. unfold ssum, rows_add.
  induction H as [|r1 r2 C1 C2 Hr _ IH]; intros [|e es]; cbn [map2 combine map]; try (cbn; ring).
  rewrite !fsum_cons, IH. cbn [fst snd]. rewrite nth_map2_add by exact Hr. ring.
Qed.

Lemma ssum_scale f es k C m :
  ssum f (combine es (rows_scale k C)) m = k * ssum f (combine es C) m.
Proof.
  unfold ssum, rows_scale. revert C. induction es as [|e es IH]; intros [|r C]; cbn [map combine]; try (cbn; ring).
  rewrite !fsum_cons, IH. cbn [fst snd]. rewrite nth_map_scale. ring.
Qed.

(* 5. one column multiplied by k *)
Definition scale_col_rows (m0 : nat) (k : F) (C : list (list F)) : list (list F) :=
  map (fun row => mk (length row) (fun j => if Nat.eqb j m0 then k * nth j row 0 else nth j row 0)) C.
Definition colfac (m0 : nat) (k : F) (m : nat) : F := if Nat.eqb m m0 then k else 1.

Lemma nth_scale_col_row m0 k row m :
  nth m (mk (length row) (fun j => if Nat.eqb j m0 then k * nth j row 0 else nth j row 0)) 0
  = colfac m0 k m * nth m row 0.
Proof.
  unfold colfac. destruct (Nat.ltb_spec m (length row)) as [Hlt|Hge].
  - rewrite nth_mk by exact Hlt. destruct (Nat.eqb m m0); ring.
  - rewrite !nth_overflow by (rewrite ?mk_length; lia). ring.
Qed.

Lemma ssum_scale_col f es m0 k C m :
  ssum f (combine es (scale_col_rows m0 k C)) m = colfac m0 k m * ssum f (combine es C) m.
Proof.
  unfold ssum, scale_col_rows. revert C. induction es as [|e es IH]; intros [|r C]; cbn [map combine]; try (cbn; ring).
  rewrite !fsum_cons, IH. cbn [fst snd]. rewrite nth_scale_col_row. ring.
Qed.

Lemma length_scale_col_rows m0 k C : length (scale_col_rows m0 k C) = length C.
Proof. apply map_length. Qed.

(* ---------------- the double sum of a two-index block ---------------- *)
(* h alpha beta: primitive quantity; wa, wb: primitive norms *)
Definition dsum (h : F -> F -> F) (wa wb : F -> F) (pa pb : list (@prim F)) (ma mb : nat) : F :=
  ssum (fun beta => ssum (fun alpha => h alpha beta * wa alpha) pa ma * wb beta) pb mb.

Lemma combine3_map {A B} (f w : A -> F) (e : list A) (C : list B) :
  combine (map f e) (combine (map w e) C)
  = map (fun q : A * B => (f (fst q), (w (fst q), snd q))) (combine e C).
Proof. revert C; induction e as [|a e IH]; intros [|c C]; cbn; try reflexivity. now rewrite IH. Qed.

Lemma combine3_map' {A B X} (f : A -> X) (w : A -> F) (e : list A) (C : list B) :
  combine (map f e) (combine (map w e) C)
  = map (fun q : A * B => (f (fst q), (w (fst q), snd q))) (combine e C).
Proof. revert C; induction e as [|a e IH]; intros [|c C]; cbn; try reflexivity. now rewrite IH. Qed.

(* a block function given by a primitive kernel g alpha beta ca cb *)
Definition pf_of (g : F -> F -> comp -> comp -> F) (ea eb : list F) (ca cb : comp) : list (list F) :=
  map (fun beta => map (fun alpha => g alpha beta ca cb) ea) eb.

Lemma entry_sum_dsum sa sb (h : F -> F -> F) (wa wb : F -> F) ma mb :
  entry_sum K sa sb (map (fun beta => map (fun alpha => h alpha beta) (s_exps sa)) (s_exps sb))
            (map wa (s_exps sa)) (map wb (s_exps sb)) ma mb
  = dsum h wa wb (prims sa) (prims sb) ma mb.
Proof.
  unfold entry_sum, dsum, ssum, prims.
  rewrite (combine3_map' (fun beta => map (fun alpha => h alpha beta) (s_exps sa)) wb).
  rewrite map_map. apply fsum_map_ext. intros [beta rowb]. cbn [fst snd].
  rewrite (combine3_map (fun alpha => h alpha beta) wa). rewrite map_map. reflexivity.
Qed.

Definition ncomp (s : shell F) : nat := length (comps_of s).
Definition cnth (s : shell F) (i : nat) : comp := nth i (comps_of s) (0, 0, 0)%nat.

Lemma block_of_ext sa sb pf pf' : (forall ca cb, pf ca cb = pf' ca cb) ->
  block_of K sa sb pf = block_of K sa sb pf'.
Proof.
  intros H. unfold block_of. cbv zeta.
  replace (map (fun '(ca, na) => map (fun '(cb, nb) => contract_b K sa sb (contract_a K sa (pf ca cb) na) nb)
              (combine (comps_of sb) (norms K sb))) (combine (comps_of sa) (norms K sa)))
    with (map (fun '(ca, na) => map (fun '(cb, nb) => contract_b K sa sb (contract_a K sa (pf' ca cb) na) nb)
              (combine (comps_of sb) (norms K sb))) (combine (comps_of sa) (norms K sa))); [reflexivity|].
  apply map_ext. intros [ca na]. apply map_ext. intros [cb nb]. now rewrite H.
Qed.

Lemma nth_norms s i : i < ncomp s ->
  nth i (norms K s) [] = map (norm_prim K (s_l s) (cnth s i)) (s_exps s).
Proof.
  intros Hi. unfold norms, cnth.
  rewrite (nth_indep _ [] (map (norm_prim K (s_l s) (0, 0, 0)%nat) (s_exps s)))
    by (rewrite map_length; exact Hi).
  exact (map_nth (fun c => map (norm_prim K (s_l s) c) (s_exps s)) (comps_of s) (0, 0, 0)%nat i).
Qed.

Definition nth4' (ma ia mb ib : nat) (blk : list (list (list (list F)))) : F :=
  nth ib (nth mb (nth ia (nth ma blk []) []) []) 0.

(* the kernel form of a block: every entry is the double sum over the (exponent, row) pairs *)
Definition kentry (g : F -> F -> comp -> comp -> F) (sa sb : shell F) (ma ia mb ib : nat) : F :=
  dsum (fun a b => g a b (cnth sa ia) (cnth sb ib))
       (norm_prim K (s_l sa) (cnth sa ia)) (norm_prim K (s_l sb) (cnth sb ib))
       (prims sa) (prims sb) ma mb.

Definition mk4 (n1 n2 n3 n4 : nat) (f : nat -> nat -> nat -> nat -> F) : list (list (list (list F))) :=
  mk n1 (fun a => mk n2 (fun b => mk n3 (fun c => mk n4 (fun d => f a b c d)))).

Lemma mk4_ext n1 n2 n3 n4 f g :
  (forall a b c d, a < n1 -> b < n2 -> c < n3 -> d < n4 -> f a b c d = g a b c d) ->
  mk4 n1 n2 n3 n4 f = mk4 n1 n2 n3 n4 g.
Proof.
  intros H. unfold mk4. apply mk_ext; intros a Ha. apply mk_ext; intros b Hb.
  apply mk_ext; intros c Hc. apply mk_ext; intros d Hd. now apply H.
Qed.

Lemma nth4_mk4 n1 n2 n3 n4 f a b c d : a < n1 -> b < n2 -> c < n3 -> d < n4 ->
  nth4' a b c d (mk4 n1 n2 n3 n4 f) = f a b c d.
Proof.
  intros Ha Hb Hc Hd. unfold nth4', mk4.
  rewrite nth_mk by exact Ha. rewrite nth_mk by exact Hb. rewrite nth_mk by exact Hc. now rewrite nth_mk by exact Hd.
Qed.

Definition kblock (g : F -> F -> comp -> comp -> F) (sa sb : shell F) : list (list (list (list F))) :=
  block_of K sa sb (pf_of g (s_exps sa) (s_exps sb)).

Lemma block_of_eta sa sb pf :
  block_of K sa sb pf = mk4 (nseg sa) (ncomp sa) (nseg sb) (ncomp sb)
                          (fun ma ia mb ib => nth4' ma ia mb ib (block_of K sa sb pf)).
Proof.
  unfold block_of at 1. cbv zeta. rewrite !combine_length, !length_norms, !Nat.min_id.
  apply mk4_ext. intros ma ia mb ib Hma Hia Hmb Hib.
  unfold nth4', block_of. cbv zeta. rewrite !combine_length, !length_norms, !Nat.min_id.
  rewrite nth_mk by exact Hma. rewrite nth_mk by exact Hia. rewrite nth_mk by exact Hmb.
  now rewrite nth_mk by exact Hib.
Qed.

Theorem kblock_form g sa sb :
  kblock g sa sb = mk4 (nseg sa) (ncomp sa) (nseg sb) (ncomp sb) (kentry g sa sb).
Proof.
  unfold kblock. rewrite block_of_eta. apply mk4_ext. intros ma ia mb ib Hma Hia Hmb Hib.
  unfold nth4'. rewrite (block_of_entry K sa sb _ ma ia mb ib Hma Hia Hmb Hib).
  rewrite (nth_norms sa ia Hia), (nth_norms sb ib Hib).
  unfold pf_of, kentry. fold (cnth sa ia) (cnth sb ib).
  apply (entry_sum_dsum sa sb (fun a b => g a b (cnth sa ia) (cnth sb ib))).
Qed.


(* ------------------------------------------------------------------ *)
(* the five laws for kernel blocks (any primitive kernel g)             *)
(* ------------------------------------------------------------------ *)
Lemma nseg_pos_coeffs (s : shell F) m : m < nseg s -> s_coeffs s <> [].
Proof. unfold nseg. destruct (s_coeffs s); cbn; [lia|discriminate]. Qed.

Lemma nseg_col_shell s m : m < nseg s -> nseg (col_shell s m) = 1%nat.
Proof.
  intros H. apply nseg_pos_coeffs in H. unfold nseg, col_shell, set_coeffs, col_rows. cbn [s_coeffs].
  destruct (s_coeffs s); [congruence|reflexivity].
Qed.

Lemma kentry_col g sa sb ma ia mb ib :
  kentry g (col_shell sa ma) (col_shell sb mb) 0 ia 0 ib = kentry g sa sb ma ia mb ib.
Proof.
  unfold kentry, dsum. change (prims (col_shell sb mb)) with (combine (s_exps sb) (col_rows mb 0 (s_coeffs sb))).
  rewrite ssum_col. apply ssum_ext. intros beta. f_equal.
  change (prims (col_shell sa ma)) with (combine (s_exps sa) (col_rows ma 0 (s_coeffs sa))).
  apply ssum_col.
Qed.

Lemma kentry_col_a g sa sb ma ia mb ib :
  kentry g (col_shell sa ma) sb 0 ia mb ib = kentry g sa sb ma ia mb ib.
Proof.
  unfold kentry, dsum. apply ssum_ext. intros beta. f_equal.
  change (prims (col_shell sa ma)) with (combine (s_exps sa) (col_rows ma 0 (s_coeffs sa))).
  apply ssum_col.
Qed.

Lemma kentry_col_b g sa sb ma ia mb ib :
  kentry g sa (col_shell sb mb) ma ia 0 ib = kentry g sa sb ma ia mb ib.
Proof.
  unfold kentry, dsum. change (prims (col_shell sb mb)) with (combine (s_exps sb) (col_rows mb 0 (s_coeffs sb))).
  apply ssum_col.
Qed.

(* 1. generalized = segmented, block level: the block of the two single-column shells is the
      (ma, mb) slice of the block of the generalized shells *)
Theorem kblock_segmented g sa sb ma mb : ma < nseg sa -> mb < nseg sb ->
  kblock g (col_shell sa ma) (col_shell sb mb)
  = mk4 1 (ncomp sa) 1 (ncomp sb) (fun _ ia _ ib => nth4' ma ia mb ib (kblock g sa sb)).
Proof.
  intros Hma Hmb. rewrite !kblock_form. rewrite (nseg_col_shell sa ma Hma), (nseg_col_shell sb mb Hmb).
  change (ncomp (col_shell sa ma)) with (ncomp sa). change (ncomp (col_shell sb mb)) with (ncomp sb).
  apply mk4_ext. intros a ia b ib Ha Hia Hb Hib.
  assert (a = 0%nat) by lia. assert (b = 0%nat) by lia. subst a b.
  rewrite nth4_mk4 by assumption. apply kentry_col.
Qed.

Theorem kblock_segmented_entry g sa sb ma ia mb ib :
  ma < nseg sa -> ia < ncomp sa -> mb < nseg sb -> ib < ncomp sb ->
  nth4' ma ia mb ib (kblock g sa sb) = nth4' 0 ia 0 ib (kblock g (col_shell sa ma) (col_shell sb mb)).
Proof.
  intros Hma Hia Hmb Hib. rewrite (kblock_segmented g sa sb ma mb Hma Hmb).
  now rewrite nth4_mk4 by (assumption || lia).
Qed.

(* 2. order of the primitives *)
Lemma kentry_perm g sa sb psa psb ma ia mb ib :
  Permutation (prims sa) psa -> Permutation (prims sb) psb ->
  kentry g (set_prims sa psa) (set_prims sb psb) ma ia mb ib = kentry g sa sb ma ia mb ib.
Proof.
  intros Ha Hb. unfold kentry, dsum. rewrite !prims_set_prims.
  rewrite <- (ssum_perm _ _ _ mb Hb). apply ssum_ext. intros beta. f_equal.
  symmetry. apply (ssum_perm _ _ _ ma Ha).
Qed.

Theorem kblock_perm g sa sb psa psb :
  Permutation (prims sa) psa -> Permutation (prims sb) psb ->
  nseg (set_prims sa psa) = nseg sa -> nseg (set_prims sb psb) = nseg sb ->
  kblock g (set_prims sa psa) (set_prims sb psb) = kblock g sa sb.
Proof.
  intros Ha Hb Na Nb. rewrite !kblock_form, Na, Nb.
  change (ncomp (set_prims sa psa)) with (ncomp sa). change (ncomp (set_prims sb psb)) with (ncomp sb).
  apply mk4_ext. intros. now apply kentry_perm.
Qed.

(* rows of equal length: a permutation of the primitives keeps the number of columns *)
Definition rect_rows (M : nat) (C : list (list F)) : Prop := Forall (fun r => length r = M) C.

Lemma nseg_perm s ps M : rect_rows M (s_coeffs s) -> wf_shell s -> s_coeffs s <> [] ->
  Permutation (prims s) ps -> nseg (set_prims s ps) = nseg s.
Proof.
  intros HR Hwf Hne HP. unfold nseg, set_prims. cbn [s_coeffs].
  assert (HM : forall q, In q (prims s) -> length (snd q) = M).
  { intros [a r] Hin. apply in_combine_r in Hin. unfold rect_rows in HR. rewrite Forall_forall in HR. now apply HR. }
  assert (E1 : length (hd [] (s_coeffs s)) = M).
  { destruct (s_coeffs s) as [|r C]; [congruence|]. inversion HR; subst. reflexivity. }
  rewrite E1. destruct ps as [|q ps].
  - apply Permutation_sym, Permutation_nil in HP. unfold prims, wf_shell in *.
    destruct (s_exps s), (s_coeffs s); cbn in *; try congruence; try lia; try discriminate.
  - cbn [map hd]. apply HM. apply (Permutation_in _ (Permutation_sym HP)). now left.
Qed.

(* 3. splitting a primitive *)
Lemma kentry_split_a g sa sb l1 l2 a r r1 r2 ma ia mb ib :
  prims sa = l1 ++ (a, r) :: l2 -> r = map2 (fadd K) r1 r2 -> length r1 = length r2 ->
  kentry g (set_prims sa (l1 ++ (a, r1) :: (a, r2) :: l2)) sb ma ia mb ib = kentry g sa sb ma ia mb ib.
Proof.
  intros Hp Hr Hl. unfold kentry, dsum. rewrite prims_set_prims. apply ssum_ext. intros beta. f_equal.
  rewrite Hp. apply ssum_split. subst r. now apply nth_map2_add.
Qed.

Lemma kentry_split_b g sa sb l1 l2 a r r1 r2 ma ia mb ib :
  prims sb = l1 ++ (a, r) :: l2 -> r = map2 (fadd K) r1 r2 -> length r1 = length r2 ->
  kentry g sa (set_prims sb (l1 ++ (a, r1) :: (a, r2) :: l2)) ma ia mb ib = kentry g sa sb ma ia mb ib.
Proof.
  intros Hp Hr Hl. unfold kentry, dsum. rewrite prims_set_prims. rewrite Hp.
  apply ssum_split. subst r. now apply nth_map2_add.
Qed.

Lemma hd_coeffs_of_prims (s : shell F) q l : prims s = q :: l -> hd [] (s_coeffs s) = snd q.
Proof. unfold prims. destruct (s_exps s), (s_coeffs s); cbn; try discriminate. intros H. now inversion H. Qed.

Lemma nseg_split s l1 l2 a r r1 r2 :
  prims s = l1 ++ (a, r) :: l2 -> r = map2 (fadd K) r1 r2 -> length r1 = length r2 ->
  nseg (set_prims s (l1 ++ (a, r1) :: (a, r2) :: l2)) = nseg s.
Proof.
  intros Hp Hr Hl. unfold nseg at 2. unfold nseg, set_prims. cbn [s_coeffs].
  destruct l1 as [|q l1]; cbn [app] in *.
  - rewrite (hd_coeffs_of_prims s _ _ Hp). cbn [map hd snd]. subst r. now rewrite map2_length.
  - rewrite (hd_coeffs_of_prims s _ _ Hp). reflexivity.
Qed.

Theorem kblock_split_a g sa sb l1 l2 a r r1 r2 :
  prims sa = l1 ++ (a, r) :: l2 -> r = map2 (fadd K) r1 r2 -> length r1 = length r2 ->
  kblock g (set_prims sa (l1 ++ (a, r1) :: (a, r2) :: l2)) sb = kblock g sa sb.
Proof.
  intros Hp Hr Hl. rewrite !kblock_form, (nseg_split sa l1 l2 a r r1 r2 Hp Hr Hl).
  change (ncomp (set_prims sa (l1 ++ (a, r1) :: (a, r2) :: l2))) with (ncomp sa).
  apply mk4_ext. intros. now apply (kentry_split_a g sa sb l1 l2 a r r1 r2).
Qed.

Theorem kblock_split_b g sa sb l1 l2 a r r1 r2 :
  prims sb = l1 ++ (a, r) :: l2 -> r = map2 (fadd K) r1 r2 -> length r1 = length r2 ->
  kblock g sa (set_prims sb (l1 ++ (a, r1) :: (a, r2) :: l2)) = kblock g sa sb.
Proof.
  intros Hp Hr Hl. rewrite !kblock_form, (nseg_split sb l1 l2 a r r1 r2 Hp Hr Hl).
  change (ncomp (set_prims sb (l1 ++ (a, r1) :: (a, r2) :: l2))) with (ncomp sb).
  apply mk4_ext. intros. now apply (kentry_split_b g sa sb l1 l2 a r r1 r2).
Qed.

(* 4. un-normalised linearity in the coefficient matrix of either shell *)
Lemma kentry_add_a g sa sb C1 C2 ma ia mb ib : same_shape C1 C2 ->
  kentry g (set_coeffs sa (rows_add C1 C2)) sb ma ia mb ib
  = kentry g (set_coeffs sa C1) sb ma ia mb ib + kentry g (set_coeffs sa C2) sb ma ia mb ib.
Proof.
  intros H. unfold kentry, dsum. rewrite !prims_set_coeffs.
  change (s_l (set_coeffs sa ?C)) with (s_l sa). change (cnth (set_coeffs sa ?C) ia) with (cnth sa ia).
  change (s_exps (set_coeffs sa ?C)) with (s_exps sa).
  unfold ssum at 1 3 5. rewrite <- fsum_map_add. apply fsum_map_ext. intros [beta rb]. cbn [fst snd].
  rewrite (ssum_add _ _ _ _ _ H). ring.
Qed.

Lemma kentry_scale_a g sa sb k C ma ia mb ib :
  kentry g (set_coeffs sa (rows_scale k C)) sb ma ia mb ib = k * kentry g (set_coeffs sa C) sb ma ia mb ib.
Proof.
  unfold kentry, dsum. rewrite !prims_set_coeffs.
  change (s_l (set_coeffs sa ?C)) with (s_l sa). change (cnth (set_coeffs sa ?C) ia) with (cnth sa ia).
  change (s_exps (set_coeffs sa ?C)) with (s_exps sa).
  unfold ssum at 1 3. rewrite <- fsum_map_scale. apply fsum_map_ext. intros [beta rb]. cbn [fst snd].
  rewrite ssum_scale. ring.
Qed.

Lemma kentry_add_b g sa sb C1 C2 ma ia mb ib : same_shape C1 C2 ->
  kentry g sa (set_coeffs sb (rows_add C1 C2)) ma ia mb ib
  = kentry g sa (set_coeffs sb C1) ma ia mb ib + kentry g sa (set_coeffs sb C2) ma ia mb ib.
Proof.
  intros H. unfold kentry, dsum. rewrite !prims_set_coeffs.
  change (s_l (set_coeffs sb ?C)) with (s_l sb). change (cnth (set_coeffs sb ?C) ib) with (cnth sb ib).
  change (s_exps (set_coeffs sb ?C)) with (s_exps sb).
  now apply ssum_add.
Qed.

Lemma kentry_scale_b g sa sb k C ma ia mb ib :
  kentry g sa (set_coeffs sb (rows_scale k C)) ma ia mb ib = k * kentry g sa (set_coeffs sb C) ma ia mb ib.
Proof.
  unfold kentry, dsum. rewrite !prims_set_coeffs.
  change (s_l (set_coeffs sb ?C)) with (s_l sb). change (cnth (set_coeffs sb ?C) ib) with (cnth sb ib).
  change (s_exps (set_coeffs sb ?C)) with (s_exps sb).
  apply ssum_scale.
Qed.

(* 5a. one column of each shell scaled: the un-normalised entry picks up the factors *)
Definition scale_col (s : shell F) (m0 : nat) (k : F) : shell F :=
  set_coeffs s (scale_col_rows m0 k (s_coeffs s)).

Lemma kentry_scale_col g sa sb m0a ka m0b kb ma ia mb ib :
  kentry g (scale_col sa m0a ka) (scale_col sb m0b kb) ma ia mb ib
  = colfac m0a ka ma * colfac m0b kb mb * kentry g sa sb ma ia mb ib.
Proof.
  unfold kentry, dsum, scale_col. rewrite !prims_set_coeffs.
  change (s_l (set_coeffs ?s ?C)) with (s_l s). change (cnth (set_coeffs ?s ?C) ?i) with (cnth s i).
  change (s_exps (set_coeffs ?s ?C)) with (s_exps s).
  rewrite ssum_scale_col. fold (prims sb).
  transitivity (colfac m0b kb mb * ssum (fun beta => colfac m0a ka ma *
     (ssum (fun alpha => g alpha beta (cnth sa ia) (cnth sb ib) * norm_prim K (s_l sa) (cnth sa ia) alpha) (prims sa) ma
      * norm_prim K (s_l sb) (cnth sb ib) beta)) (prims sb) mb).
  - f_equal. apply ssum_ext. intros beta. rewrite ssum_scale_col. fold (prims sa). ring.
  - unfold ssum at 1 3.
    rewrite (fsum_map_ext _ (fun q : prim => colfac m0a ka ma *
       (ssum (fun alpha => g alpha (fst q) (cnth sa ia) (cnth sb ib) * norm_prim K (s_l sa) (cnth sa ia) alpha) (prims sa) ma
        * norm_prim K (s_l sb) (cnth sb ib) (fst q) * nth mb (snd q) 0))) by (intros q; ring).
    rewrite fsum_map_scale. ring.
Qed.

Lemma nseg_scale_col s m0 k : nseg (scale_col s m0 k) = nseg s.
Proof.
  unfold nseg, scale_col, set_coeffs, scale_col_rows. cbn [s_coeffs].
  destruct (s_coeffs s) as [|r C]; [reflexivity|]. cbn [map hd]. apply mk_length.
Qed.


(* ------------------------------------------------------------------ *)
(* the block models are kernel blocks                                   *)
(* ------------------------------------------------------------------ *)
(* multipole moments / overlap: _moment_int.py *)
Definition mm_kern (Cx Cy Cz : F) (km : nat) (sa sb : shell F) (o : comp) (alpha beta : F) (ca cb : comp) : F :=
  prim3 K (table K (s_x sa) (s_x sb) Cx alpha beta (s_l sa) (s_l sb) km,
           table K (s_y sa) (s_y sb) Cy alpha beta (s_l sa) (s_l sb) km,
           table K (s_z sa) (s_z sb) Cz alpha beta (s_l sa) (s_l sb) km) o ca cb.

Lemma mm_block_kernel Cx Cy Cz orders sa sb :
  mm_block K Cx Cy Cz orders sa sb
  = map (fun o => kblock (mm_kern Cx Cy Cz (omax orders) sa sb o) sa sb) orders.
Proof.
  unfold mm_block. cbv zeta. apply map_ext. intros o. unfold kblock. apply block_of_ext. intros ca cb.
  unfold tabs, pf_of, mm_kern. rewrite map_map. apply map_ext. intros beta. now rewrite map_map.
Qed.

(* differential operators (kinetic energy, momentum): _diff_operator_int.py *)
Definition do_kern (D : nat) (sa sb : shell F) (o : comp) (alpha beta : F) (ca cb : comp) : F :=
  prim3 K (dtable K (s_x sa) (s_x sb) alpha beta (s_l sa) (s_l sb) D,
           dtable K (s_y sa) (s_y sb) alpha beta (s_l sa) (s_l sb) D,
           dtable K (s_z sa) (s_z sb) alpha beta (s_l sa) (s_l sb) D) o ca cb.

Lemma diffop_block_kernel orders sa sb :
  diffop_block K orders sa sb = map (fun o => kblock (do_kern (omax orders) sa sb o) sa sb) orders.
Proof.
  unfold diffop_block. cbv zeta. apply map_ext. intros o. unfold kblock. apply block_of_ext. intros ca cb.
  unfold dtabs, pf_of, do_kern. rewrite map_map. apply map_ext. intros beta. now rewrite map_map.
Qed.

(* angular momentum: component c of angular_momentum.py's integrand *)
Definition am_kern (c : nat) (sa sb : shell F) (alpha beta : F) (ca cb : comp) : F :=
  nth c (angmom_prim K
           (dtable K (s_x sa) (s_x sb) alpha beta (s_l sa) (s_l sb) 1,
            dtable K (s_y sa) (s_y sb) alpha beta (s_l sa) (s_l sb) 1,
            dtable K (s_z sa) (s_z sb) alpha beta (s_l sa) (s_l sb) 1)
           (table K (s_x sa) (s_x sb) 0 alpha beta (s_l sa) (s_l sb) (omax [(1, 0, 0)%nat]),
            table K (s_y sa) (s_y sb) 0 alpha beta (s_l sa) (s_l sb) (omax [(1, 0, 0)%nat]),
            table K (s_z sa) (s_z sb) 0 alpha beta (s_l sa) (s_l sb) (omax [(1, 0, 0)%nat])) ca cb) 0.

Lemma combine_map_same {A B C} (f : A -> B) (g : A -> C) (l : list A) :
  combine (map f l) (map g l) = map (fun x => (f x, g x)) l.
Proof. induction l as [|x l IH]; cbn; [reflexivity|]. now rewrite IH. Qed.

Lemma angmom_block_kernel sa sb :
  angmom_block_re K sa sb
  = zip4 (fun xy z => xy ++ [z]) (zip4 (fun x y => [x; y]) (kblock (am_kern 0 sa sb) sa sb) (kblock (am_kern 1 sa sb) sa sb))
         (kblock (am_kern 2 sa sb) sa sb).
Proof.
  unfold angmom_block_re. cbv zeta.
  assert (E : forall c, block_of K sa sb (fun ca cb =>
              map (fun '(drow, mrow) => map (fun '(d, m) => nth c (angmom_prim K d m ca cb) 0) (combine drow mrow))
                  (combine (dtabs K 1 sa sb) (tabs K 0 0 0 [(1, 0, 0)%nat] sa sb)))
            = kblock (am_kern c sa sb) sa sb).
  { intros c. unfold kblock. apply block_of_ext. intros ca cb. unfold dtabs, tabs, pf_of, am_kern.
    rewrite combine_map_same, map_map. apply map_ext. intros beta.
    rewrite combine_map_same, map_map. reflexivity. }
  now rewrite !E.
Qed.

(* frame lemmas: the kernels only read l and the centre of the shells *)
Lemma mm_kern_frame Cx Cy Cz km sa sb psa psb o :
  mm_kern Cx Cy Cz km (set_prims sa psa) (set_prims sb psb) o = mm_kern Cx Cy Cz km sa sb o.
Proof. reflexivity. Qed.
Lemma mm_kern_frame_c Cx Cy Cz km sa sb Ca Cb o :
  mm_kern Cx Cy Cz km (set_coeffs sa Ca) (set_coeffs sb Cb) o = mm_kern Cx Cy Cz km sa sb o.
Proof. reflexivity. Qed.

(* ---- the laws for the multipole-moment block (all orders at once), hence overlap ---- *)
Section MM.
Variables (Cx Cy Cz : F) (orders : list comp).
Notation MM := (mm_block K Cx Cy Cz orders).

(* 1. for every order: entry (ma, ia, mb, ib) of the generalized block = entry (0, ia, 0, ib) of the
      block of the single-column shells holding columns ma and mb *)
Theorem mm_generalized_is_segmented sa sb ma mb : ma < nseg sa -> mb < nseg sb ->
  MM (col_shell sa ma) (col_shell sb mb)
  = map (fun blk => mk4 1 (ncomp sa) 1 (ncomp sb) (fun _ ia _ ib => nth4' ma ia mb ib blk)) (MM sa sb).
Proof.
  intros Hma Hmb. rewrite !mm_block_kernel, map_map. apply map_ext. intros o.
  change (mm_kern Cx Cy Cz (omax orders) (col_shell sa ma) (col_shell sb mb) o)
    with (mm_kern Cx Cy Cz (omax orders) sa sb o).
  now apply kblock_segmented.
Qed.

Theorem mm_prim_perm_invariant sa sb psa psb :
  Permutation (prims sa) psa -> Permutation (prims sb) psb ->
  nseg (set_prims sa psa) = nseg sa -> nseg (set_prims sb psb) = nseg sb ->
  MM (set_prims sa psa) (set_prims sb psb) = MM sa sb.
Proof.
  intros Ha Hb Na Nb. rewrite !mm_block_kernel. apply map_ext. intros o.
  rewrite mm_kern_frame. now apply kblock_perm.
Qed.

Theorem mm_prim_split_a sa sb l1 l2 a r r1 r2 :
  prims sa = l1 ++ (a, r) :: l2 -> r = map2 (fadd K) r1 r2 -> length r1 = length r2 ->
  MM (set_prims sa (l1 ++ (a, r1) :: (a, r2) :: l2)) sb = MM sa sb.
Proof.
  intros Hp Hr Hl. rewrite !mm_block_kernel. apply map_ext. intros o.
  change (mm_kern Cx Cy Cz (omax orders) (set_prims sa (l1 ++ (a, r1) :: (a, r2) :: l2)) sb o)
    with (mm_kern Cx Cy Cz (omax orders) sa sb o).
  now apply (kblock_split_a _ sa sb l1 l2 a r r1 r2).
Qed.

Theorem mm_prim_split_b sa sb l1 l2 a r r1 r2 :
  prims sb = l1 ++ (a, r) :: l2 -> r = map2 (fadd K) r1 r2 -> length r1 = length r2 ->
  MM sa (set_prims sb (l1 ++ (a, r1) :: (a, r2) :: l2)) = MM sa sb.
Proof.
  intros Hp Hr Hl. rewrite !mm_block_kernel. apply map_ext. intros o.
  change (mm_kern Cx Cy Cz (omax orders) sa (set_prims sb (l1 ++ (a, r1) :: (a, r2) :: l2)) o)
    with (mm_kern Cx Cy Cz (omax orders) sa sb o).
  now apply (kblock_split_b _ sa sb l1 l2 a r r1 r2).
Qed.

(* entries of the block of order number d *)
Definition mm_entry' (sa sb : shell F) (d ma ia mb ib : nat) : F := nth4' ma ia mb ib (nth d (MM sa sb) []).

Lemma nth4_nil a b c d : nth4' a b c d [] = 0.
Proof. unfold nth4'. now destruct a, b, c, d. Qed.

Lemma mm_entry_kentry sa sb d ma ia mb ib :
  d < length orders -> ma < nseg sa -> ia < ncomp sa -> mb < nseg sb -> ib < ncomp sb ->
  mm_entry' sa sb d ma ia mb ib
  = kentry (mm_kern Cx Cy Cz (omax orders) sa sb (nth d orders (0, 0, 0)%nat)) sa sb ma ia mb ib.
Proof.
  intros Hd Hma Hia Hmb Hib. unfold mm_entry'. rewrite mm_block_kernel.
  rewrite (nth_indep _ [] (kblock (mm_kern Cx Cy Cz (omax orders) sa sb (0, 0, 0)%nat) sa sb))
    by (now rewrite map_length).
  rewrite (map_nth (fun o => kblock (mm_kern Cx Cy Cz (omax orders) sa sb o) sa sb)).
  rewrite kblock_form. now apply nth4_mk4.
Qed.

Lemma nseg_rows_add (s : shell F) C1 C2 : same_shape C1 C2 ->
  nseg (set_coeffs s (rows_add C1 C2)) = nseg (set_coeffs s C1) /\
  nseg (set_coeffs s C2) = nseg (set_coeffs s C1).
Proof.
  intros H. unfold nseg, set_coeffs, rows_add. cbn [s_coeffs].
  destruct H as [|r1 r2 C1 C2 Hr _]; [split; reflexivity|]. cbn [map2 hd]. split; [now apply map2_length|now symmetry].
Qed.

Lemma nseg_rows_scale (s : shell F) k C : nseg (set_coeffs s (rows_scale k C)) = nseg (set_coeffs s C).
Proof. unfold nseg, set_coeffs, rows_scale. cbn [s_coeffs]. destruct C; [reflexivity|]. cbn [map hd]. apply map_length. Qed.

(* 4. un-normalised linearity, every order d, every in-range entry *)
Theorem mm_unnormalised_additive_a sa sb C1 C2 d ma ia mb ib : same_shape C1 C2 ->
  d < length orders -> ma < nseg (set_coeffs sa C1) -> ia < ncomp sa -> mb < nseg sb -> ib < ncomp sb ->
  mm_entry' (set_coeffs sa (rows_add C1 C2)) sb d ma ia mb ib
  = mm_entry' (set_coeffs sa C1) sb d ma ia mb ib + mm_entry' (set_coeffs sa C2) sb d ma ia mb ib.
Proof.
  intros HS Hd Hma Hia Hmb Hib. destruct (nseg_rows_add sa C1 C2 HS) as [N1 N2].
  rewrite !mm_entry_kentry by (assumption || (rewrite ?N1, ?N2; assumption)).
  change (mm_kern Cx Cy Cz (omax orders) (set_coeffs sa ?C) sb ?o) with (mm_kern Cx Cy Cz (omax orders) sa sb o).
  now apply kentry_add_a.
Qed.

Theorem mm_unnormalised_homogeneous_a sa sb k C d ma ia mb ib :
  d < length orders -> ma < nseg (set_coeffs sa C) -> ia < ncomp sa -> mb < nseg sb -> ib < ncomp sb ->
  mm_entry' (set_coeffs sa (rows_scale k C)) sb d ma ia mb ib = k * mm_entry' (set_coeffs sa C) sb d ma ia mb ib.
Proof.
  intros Hd Hma Hia Hmb Hib.
  rewrite !mm_entry_kentry by (assumption || (rewrite ?nseg_rows_scale; assumption)).
  change (mm_kern Cx Cy Cz (omax orders) (set_coeffs sa ?C) sb ?o) with (mm_kern Cx Cy Cz (omax orders) sa sb o).
  apply kentry_scale_a.
Qed.

Theorem mm_unnormalised_additive_b sa sb C1 C2 d ma ia mb ib : same_shape C1 C2 ->
  d < length orders -> ma < nseg sa -> ia < ncomp sa -> mb < nseg (set_coeffs sb C1) -> ib < ncomp sb ->
  mm_entry' sa (set_coeffs sb (rows_add C1 C2)) d ma ia mb ib
  = mm_entry' sa (set_coeffs sb C1) d ma ia mb ib + mm_entry' sa (set_coeffs sb C2) d ma ia mb ib.
Proof.
  intros HS Hd Hma Hia Hmb Hib. destruct (nseg_rows_add sb C1 C2 HS) as [N1 N2].
  rewrite !mm_entry_kentry by (assumption || (rewrite ?N1, ?N2; assumption)).
  change (mm_kern Cx Cy Cz (omax orders) sa (set_coeffs sb ?C) ?o) with (mm_kern Cx Cy Cz (omax orders) sa sb o).
  now apply kentry_add_b.
Qed.

Theorem mm_unnormalised_homogeneous_b sa sb k C d ma ia mb ib :
  d < length orders -> ma < nseg sa -> ia < ncomp sa -> mb < nseg (set_coeffs sb C) -> ib < ncomp sb ->
  mm_entry' sa (set_coeffs sb (rows_scale k C)) d ma ia mb ib = k * mm_entry' sa (set_coeffs sb C) d ma ia mb ib.
Proof.
  intros Hd Hma Hia Hmb Hib.
  rewrite !mm_entry_kentry by (assumption || (rewrite ?nseg_rows_scale; assumption)).
  change (mm_kern Cx Cy Cz (omax orders) sa (set_coeffs sb ?C) ?o) with (mm_kern Cx Cy Cz (omax orders) sa sb o).
  apply kentry_scale_b.
Qed.

(* 5a. a column of each shell scaled: the un-normalised entries pick up the factors *)
Theorem mm_scale_col_unnormalised sa sb m0a ka m0b kb d ma ia mb ib :
  d < length orders -> ma < nseg sa -> ia < ncomp sa -> mb < nseg sb -> ib < ncomp sb ->
  mm_entry' (scale_col sa m0a ka) (scale_col sb m0b kb) d ma ia mb ib
  = colfac m0a ka ma * colfac m0b kb mb * mm_entry' sa sb d ma ia mb ib.
Proof.
  intros Hd Hma Hia Hmb Hib.
  rewrite !mm_entry_kentry by (assumption || (rewrite ?nseg_scale_col; assumption)).
  change (mm_kern Cx Cy Cz (omax orders) (scale_col sa m0a ka) (scale_col sb m0b kb) ?o)
    with (mm_kern Cx Cy Cz (omax orders) sa sb o).
  apply kentry_scale_col.
Qed.

End MM.


(* ------------------------------------------------------------------ *)
(* overlap, contraction norms and the column-scale law                  *)
(* ------------------------------------------------------------------ *)
Definition ov_kern (sa sb : shell F) : F -> F -> comp -> comp -> F :=
  mm_kern 0 0 0 (omax [(0, 0, 0)%nat]) sa sb (0, 0, 0)%nat.

Lemma overlap_block_kernel sa sb : overlap_block K sa sb = kblock (ov_kern sa sb) sa sb.
Proof. unfold overlap_block. rewrite mm_block_kernel. reflexivity. Qed.

(* self-overlap of function (m, c) of a shell: what assign_norm_cont reads *)
Definition selfov (s : shell F) (m c : nat) : F := nth4' m c m c (overlap_block K s s).

Lemma norm_cont_form s :
  norm_cont K s = mk (nseg s) (fun m => mk (ncomp s) (fun c => fapx K (1 / fsqrt K (selfov s m c)))).
Proof. reflexivity. Qed.

Lemma selfov_scale_col s m0 k m c : m < nseg s -> c < ncomp s ->
  selfov (scale_col s m0 k) m c = colfac m0 k m * colfac m0 k m * selfov s m c.
Proof.
  intros Hm Hc. unfold selfov. rewrite !overlap_block_kernel, !kblock_form.
  rewrite !nth4_mk4 by (rewrite ?nseg_scale_col; assumption).
  change (ov_kern (scale_col s m0 k) (scale_col s m0 k)) with (ov_kern s s).
  apply kentry_scale_col.
Qed.

Definition ncget (n : list (list F)) (m c : nat) : F := nth c (nth m n []) 0.

(* 5b. the contraction norm of a scaled column: divided by |k| (here [ka], any number with
       sqrt(k^2 x) = ka sqrt x on the self-overlaps of that column) *)
Theorem norm_cont_scale_col s m0 k ka :
  (forall x, fapx K x = x) -> ka <> 0 ->
  (m0 < nseg s -> forall c, c < ncomp s -> fsqrt K (k * k * selfov s m0 c) = ka * fsqrt K (selfov s m0 c)) ->
  (m0 < nseg s -> forall c, c < ncomp s -> fsqrt K (selfov s m0 c) <> 0) ->
  norm_cont K (scale_col s m0 k)
  = mk (nseg s) (fun m => mk (ncomp s) (fun c => colfac m0 (1 / ka) m * ncget (norm_cont K s) m c)).
Proof.
  intros Hapx Hka Hsq Hnz. rewrite !norm_cont_form, nseg_scale_col.
  change (ncomp (scale_col s m0 k)) with (ncomp s).
  apply mk_ext. intros m Hm. apply mk_ext. intros c Hc.
  unfold ncget. rewrite nth_mk by exact Hm. rewrite nth_mk by exact Hc. rewrite !Hapx.
  rewrite selfov_scale_col by assumption. unfold colfac.
  destruct (Nat.eqb_spec m m0) as [->|Hne].
  - rewrite (Hsq Hm c Hc). field. split; [apply (Hnz Hm c Hc)|exact Hka].
  - replace (1 * 1 * selfov s m c) with (selfov s m c) by ring. rewrite !(Fdiv_def Kf). ring.
Qed.

(* one-sided versions of 5a *)
Lemma kentry_scale_col_a g sa sb m0 k ma ia mb ib :
  kentry g (scale_col sa m0 k) sb ma ia mb ib = colfac m0 k ma * kentry g sa sb ma ia mb ib.
Proof.
  unfold kentry, dsum, scale_col. rewrite !prims_set_coeffs.
  change (s_l (set_coeffs ?s ?C)) with (s_l s). change (cnth (set_coeffs ?s ?C) ?i) with (cnth s i).
  change (s_exps (set_coeffs ?s ?C)) with (s_exps s).
  unfold ssum at 1 3.
  rewrite <- fsum_map_scale. apply fsum_map_ext. intros q. rewrite ssum_scale_col. fold (prims sa). ring.
Qed.

Lemma kentry_scale_col_b g sa sb m0 k ma ia mb ib :
  kentry g sa (scale_col sb m0 k) ma ia mb ib = colfac m0 k mb * kentry g sa sb ma ia mb ib.
Proof.
  unfold kentry, dsum, scale_col. rewrite !prims_set_coeffs.
  change (s_l (set_coeffs ?s ?C)) with (s_l s). change (cnth (set_coeffs ?s ?C) ?i) with (cnth s i).
  change (s_exps (set_coeffs ?s ?C)) with (s_exps s).
  apply ssum_scale_col.
Qed.

(* ---- normalised blocks: step 1 of the assembly (block *= norm_cont_a x norm_cont_b) ---- *)
Lemma combine_mk {A B} n (f : nat -> A) (g : nat -> B) : combine (mk n f) (mk n g) = mk n (fun i => (f i, g i)).
Proof. unfold mk. rewrite combine_map_same. reflexivity. Qed.

Lemma map_mk' {A B} (h : A -> B) n f : map h (mk n f) = mk n (fun i => h (f i)).
Proof. unfold mk. now rewrite map_map. Qed.

Lemma normalise_mk4 M1 L1 M2 L2 (N1 N2 : nat -> nat -> F) f :
  normalise K (fmul K) (mk M1 (fun m => mk L1 (N1 m))) (mk M2 (fun m => mk L2 (N2 m))) (mk4 M1 L1 M2 L2 f)
  = mk4 M1 L1 M2 L2 (fun ma ia mb ib => (N1 ma ia * N2 mb ib) * f ma ia mb ib).
Proof.
  unfold normalise, mk4. rewrite combine_mk, map_mk'. apply mk_ext. intros ma _.
  rewrite combine_mk, map_mk'. apply mk_ext. intros ia _.
  rewrite combine_mk, map_mk'. apply mk_ext. intros mb _.
  rewrite combine_mk, map_mk'. reflexivity.
Qed.

Definition nblock (g : F -> F -> comp -> comp -> F) (sa sb : shell F) : list (list (list (list F))) :=
  normalise K (fmul K) (norm_cont K sa) (norm_cont K sb) (kblock g sa sb).
Definition nentry (g : F -> F -> comp -> comp -> F) (sa sb : shell F) (ma ia mb ib : nat) : F :=
  (ncget (norm_cont K sa) ma ia * ncget (norm_cont K sb) mb ib) * kentry g sa sb ma ia mb ib.

Lemma ncget_norm_cont s m c : m < nseg s -> c < ncomp s ->
  ncget (norm_cont K s) m c = fapx K (1 / fsqrt K (selfov s m c)).
Proof. intros Hm Hc. unfold ncget. rewrite norm_cont_form. rewrite nth_mk by exact Hm. now rewrite nth_mk by exact Hc. Qed.

Lemma nblock_form g sa sb : nblock g sa sb = mk4 (nseg sa) (ncomp sa) (nseg sb) (ncomp sb) (nentry g sa sb).
Proof.
  unfold nblock. rewrite kblock_form, !norm_cont_form, normalise_mk4. apply mk4_ext.
  intros ma ia mb ib Hma Hia Hmb Hib. unfold nentry.
  now rewrite !ncget_norm_cont by assumption.
Qed.

(* 5. column scale on the normalised block: with [kaa], [kba] standing for |ka|, |kb| *)
Definition scale_hyps (s : shell F) (m0 : nat) (k kabs : F) : Prop :=
  kabs <> 0 /\
  (m0 < nseg s -> forall c, c < ncomp s -> fsqrt K (k * k * selfov s m0 c) = kabs * fsqrt K (selfov s m0 c)) /\
  (m0 < nseg s -> forall c, c < ncomp s -> fsqrt K (selfov s m0 c) <> 0).

Lemma ncget_scale_col s m0 k kabs m c : (forall x, fapx K x = x) -> scale_hyps s m0 k kabs ->
  m < nseg s -> c < ncomp s ->
  ncget (norm_cont K (scale_col s m0 k)) m c = colfac m0 (1 / kabs) m * ncget (norm_cont K s) m c.
Proof.
  intros Hapx [H1 [H2 H3]] Hm Hc. rewrite (norm_cont_scale_col s m0 k kabs Hapx H1 H2 H3).
  unfold ncget at 1. rewrite nth_mk by exact Hm. now rewrite nth_mk by exact Hc.
Qed.

Lemma colfac_mul m0 a b m : colfac m0 a m * colfac m0 b m = colfac m0 (a * b) m.
Proof. unfold colfac. destruct (Nat.eqb m m0); ring. Qed.

Theorem nblock_scale_col g sa sb m0a ka kaa m0b kb kba :
  (forall x, fapx K x = x) -> scale_hyps sa m0a ka kaa -> scale_hyps sb m0b kb kba ->
  nblock g (scale_col sa m0a ka) (scale_col sb m0b kb)
  = mk4 (nseg sa) (ncomp sa) (nseg sb) (ncomp sb)
      (fun ma ia mb ib => colfac m0a (ka / kaa) ma * colfac m0b (kb / kba) mb * nth4' ma ia mb ib (nblock g sa sb)).
Proof.
  intros Hapx Ha Hb. rewrite !nblock_form, !nseg_scale_col.
  change (ncomp (scale_col sa m0a ka)) with (ncomp sa). change (ncomp (scale_col sb m0b kb)) with (ncomp sb).
  apply mk4_ext. intros ma ia mb ib Hma Hia Hmb Hib. rewrite nth4_mk4 by assumption.
  unfold nentry. rewrite kentry_scale_col.
  rewrite (ncget_scale_col sa m0a ka kaa ma ia Hapx Ha Hma Hia).
  rewrite (ncget_scale_col sb m0b kb kba mb ib Hapx Hb Hmb Hib).
  destruct Ha as [Ha _]. destruct Hb as [Hb _].
  unfold colfac. destruct (Nat.eqb ma m0a), (Nat.eqb mb m0b); field; auto.
Qed.

(* k > 0 (|k| = k): the normalised block does not change *)
Theorem nblock_scale_col_pos g sa sb m0a ka m0b kb :
  (forall x, fapx K x = x) -> scale_hyps sa m0a ka ka -> scale_hyps sb m0b kb kb ->
  nblock g (scale_col sa m0a ka) (scale_col sb m0b kb) = nblock g sa sb.
Proof.
  intros Hapx Ha Hb. rewrite (nblock_scale_col g sa sb m0a ka ka m0b kb kb Hapx Ha Hb).
  rewrite (nblock_form g sa sb). apply mk4_ext. intros ma ia mb ib Hma Hia Hmb Hib.
  rewrite nth4_mk4 by assumption. destruct Ha as [Ha _]. destruct Hb as [Hb _].
  unfold colfac. destruct (Nat.eqb ma m0a), (Nat.eqb mb m0b); field; auto.
Qed.

(* k < 0 (|k| = -k) on shell a only: function m0 of shell a changes sign, nothing else does *)
Theorem nblock_scale_col_neg_a g sa sb m0 k :
  (forall x, fapx K x = x) -> scale_hyps sa m0 k (- k) ->
  nblock g (scale_col sa m0 k) sb
  = mk4 (nseg sa) (ncomp sa) (nseg sb) (ncomp sb)
      (fun ma ia mb ib => colfac m0 (- (1)) ma * nth4' ma ia mb ib (nblock g sa sb)).
Proof.
  intros Hapx Ha. rewrite !nblock_form, !nseg_scale_col.
  change (ncomp (scale_col sa m0 k)) with (ncomp sa).
  apply mk4_ext. intros ma ia mb ib Hma Hia Hmb Hib. rewrite nth4_mk4 by assumption.
  unfold nentry. rewrite kentry_scale_col_a.
  rewrite (ncget_scale_col sa m0 k (- k) ma ia Hapx Ha Hma Hia).
  destruct Ha as [Ha _]. unfold colfac. destruct (Nat.eqb ma m0); field; auto.
Qed.


(* ---- assembled level: positive rescaling of any columns of any shells leaves the overlap
        matrices unchanged (base_two_symm / base_two_asymm with Overlap) ---- *)
Lemma mk_nth_id {A} (l : list A) d : mk (length l) (fun j => nth j l d) = l.
Proof.
  apply (nth_ext _ _ d d); [apply mk_length|]. intros n Hn. rewrite mk_length in Hn. now rewrite nth_mk by exact Hn.
Qed.

Lemma scale_col_rows_one m0 C : scale_col_rows m0 1 C = C.
Proof.
  unfold scale_col_rows. induction C as [|r C IH]; cbn [map]; [reflexivity|]. rewrite IH. f_equal.
  transitivity (mk (length r) (fun j => nth j r 0)); [|apply mk_nth_id].
  apply mk_ext. intros j _. destruct (Nat.eqb j m0); [ring|reflexivity].
Qed.

Lemma scale_col_one s m0 : scale_col s m0 1 = s.
Proof. unfold scale_col, set_coeffs. rewrite scale_col_rows_one. now destruct s. Qed.

Definition pos_rescaled (s s' : shell F) : Prop :=
  exists m0 k, s' = scale_col s m0 k /\ scale_hyps s m0 k k.

Lemma pos_rescaled_refl s : pos_rescaled s s.
Proof.
  exists (nseg s), 1. split; [symmetry; apply scale_col_one|].
  split; [exact (F_1_neq_0 Kf)|]. split; intros H; lia.
Qed.

Lemma pblock_overlap_pos s1 s1' s2 s2' : (forall x, fapx K x = x) ->
  pos_rescaled s1 s1' -> pos_rescaled s2 s2' ->
  pblock K 0 (fadd K) (fmul K) (overlap_block K) (prep K s1') (prep K s2')
  = pblock K 0 (fadd K) (fmul K) (overlap_block K) (prep K s1) (prep K s2).
Proof.
  intros Hapx [m1 [k1 [-> H1]]] [m2 [k2 [-> H2]]]. unfold pblock, prep. cbn [p_shell p_norm p_T].
  change (shell_transform K (scale_col ?s ?m ?k)) with (shell_transform K s).
  change (s_sph (scale_col ?s ?m ?k)) with (s_sph s).
  unfold shell_block. cbv zeta. rewrite !overlap_block_kernel.
  change (ov_kern (scale_col s1 m1 k1) (scale_col s2 m2 k2)) with (ov_kern s1 s2).
  change (normalise K (fmul K) (norm_cont K ?a) (norm_cont K ?b) (kblock ?g ?a ?b)) with (nblock g a b).
  now rewrite (nblock_scale_col_pos (ov_kern s1 s2) s1 s2 m1 k1 m2 k2 Hapx H1 H2).
Qed.

Lemma Forall2_nth' {A B} (R : A -> B -> Prop) l l' da db i :
  Forall2 R l l' -> i < length l -> R (nth i l da) (nth i l' db).
Proof.
  intros H. revert i. induction H as [|x y l l' Hxy _ IH]; intros [|i] Hi; cbn in *; try lia; [exact Hxy|].
  apply IH. lia.
Qed.

Lemma Forall2_length' {A B} (R : A -> B -> Prop) l l' : Forall2 R l l' -> length l' = length l.
Proof. induction 1; cbn; congruence. Qed.

Section AsmExt.
Context {A : Type} (azero : A) (aadd : A -> A -> A) (ascale : F -> A -> A).
Variable blockf : shell F -> shell F -> list (list (list (list A))).
Variable R : shell F -> shell F -> Prop.
Hypothesis HR : forall s1 s1' s2 s2', R s1 s1' -> R s2 s2' ->
  pblock K azero aadd ascale blockf (prep K s1') (prep K s2')
  = pblock K azero aadd ascale blockf (prep K s1) (prep K s2).

Lemma nth_map_prep (b : list (shell F)) i d : i < length b ->
  nth i (map (prep K) b) (dummy_p K) = prep K (nth i b d).
Proof.
  intros Hi. rewrite (nth_indep _ (dummy_p K) (prep K d)) by (now rewrite map_length). apply map_nth.
Qed.

Lemma two_symm_integral_rel b b' T : Forall2 R b b' ->
  two_symm_integral K azero aadd ascale blockf b' T = two_symm_integral K azero aadd ascale blockf b T.
Proof.
  intros H. rewrite !two_symm_integral_unfold. cbv zeta. rewrite !map_length, (Forall2_length' R b b' H).
  set (d := mkShell F 0 0 0 0 [] [] false [] []).
  rewrite (two_symm_blocks_ext_le azero (length b) _
            (fun i j => pblock K azero aadd ascale blockf (nth i (map (prep K) b) (dummy_p K))
                               (nth j (map (prep K) b) (dummy_p K)))); [reflexivity|].
  intros i j Hi Hj _.
  rewrite !(nth_map_prep b' _ d) by (rewrite (Forall2_length' R b b' H); assumption).
  rewrite !(nth_map_prep b _ d) by assumption.
  apply HR; apply Forall2_nth'; assumption.
Qed.

Lemma two_asymm_integral_rel b1 b1' b2 b2' T1 T2 : Forall2 R b1 b1' -> Forall2 R b2 b2' ->
  two_asymm_integral K azero aadd ascale blockf b1' b2' T1 T2
  = two_asymm_integral K azero aadd ascale blockf b1 b2 T1 T2.
Proof.
  intros H1 H2. unfold two_asymm_integral. cbv zeta.
  rewrite !map_length, (Forall2_length' R b1 b1' H1), (Forall2_length' R b2 b2' H2).
  set (d := mkShell F 0 0 0 0 [] [] false [] []).
  assert (E : two_asymm_blocks (length b1) (length b2)
                (fun i j => pblock K azero aadd ascale blockf (nth i (map (prep K) b1') (dummy_p K))
                                   (nth j (map (prep K) b2') (dummy_p K)))
              = two_asymm_blocks (length b1) (length b2)
                (fun i j => pblock K azero aadd ascale blockf (nth i (map (prep K) b1) (dummy_p K))
                                   (nth j (map (prep K) b2) (dummy_p K)))).
  { unfold two_asymm_blocks. f_equal. apply mk_ext. intros i Hi. f_equal. apply mk_ext. intros j Hj.
    rewrite (nth_map_prep b1' _ d) by (rewrite (Forall2_length' R b1 b1' H1); assumption).
    rewrite (nth_map_prep b2' _ d) by (rewrite (Forall2_length' R b2 b2' H2); assumption).
    rewrite (nth_map_prep b1 _ d), (nth_map_prep b2 _ d) by assumption.
    apply HR; apply Forall2_nth'; assumption. }
  now rewrite E.
Qed.
End AsmExt.

Theorem overlap_integral_scale_pos basis basis' T : (forall x, fapx K x = x) ->
  Forall2 pos_rescaled basis basis' ->
  overlap_integral K basis' T = overlap_integral K basis T.
Proof.
  intros Hapx H. unfold overlap_integral.
  apply (two_symm_integral_rel 0 (fadd K) (fmul K) (overlap_block K) pos_rescaled); [|exact H].
  intros. now apply pblock_overlap_pos.
Qed.

Theorem overlap_integral_asymm_scale_pos b1 b1' b2 b2' T1 T2 : (forall x, fapx K x = x) ->
  Forall2 pos_rescaled b1 b1' -> Forall2 pos_rescaled b2 b2' ->
  overlap_integral_asymm K b1' b2' T1 T2 = overlap_integral_asymm K b1 b2 T1 T2.
Proof.
  intros Hapx H1 H2. unfold overlap_integral_asymm.
  apply (two_asymm_integral_rel 0 (fadd K) (fmul K) (overlap_block K) pos_rescaled); [|exact H1|exact H2].
  intros. now apply pblock_overlap_pos.
Qed.


(* ------------------------------------------------------------------ *)
(* evaluation block (evals/_deriv.py, eval.py, eval_deriv.py)           *)
(* ------------------------------------------------------------------ *)
Section EvalBlock.
Variables (md : rowmode (F:=F)) (ef : F -> F) (o : comp).

(* value contributed by one primitive alpha to component c at point p (norm x polynomial x Gaussian) *)
Definition eval_kern (s : shell F) (p : point (F:=F)) (c : comp) (alpha : F) : F :=
  let '(ax, ay, az) := c in
  let '(e, (rx, ry, rz)) := prim_data K md ef s o p alpha in
  norm_prim K (s_l s) c alpha * (nth ax rx 0 * nth ay ry 0 * nth az rz 0) * e.

Lemma combine_map_r_prims {B} (phi : F -> B) (es : list F) (C : list (list F)) :
  combine C (map phi es) = map (fun q : prim => (snd q, phi (fst q))) (combine es C).
Proof. revert C; induction es as [|e es IH]; intros [|c C]; cbn; try reflexivity. now rewrite IH. Qed.

Definition eval_entry (s : shell F) (p : point (F:=F)) (m c : nat) : F :=
  ssum (eval_kern s p (cnth s c)) (prims s) m.

Theorem eval_block_form s pts :
  block_with K md (fun x => x) ef s o pts
  = mk (nseg s) (fun m => mk (ncomp s) (fun c => map (fun p => eval_entry s p m c) pts)).
Proof.
  unfold block_with. cbv zeta. apply mk_ext. intros m Hm. apply mk_ext. intros c Hc.
  rewrite map_map. apply map_ext. intros p. unfold pt_mat. cbv zeta. rewrite nth_mk by exact Hm.
  set (G := fun vals : list F => fsum (map (fun '(crow, x) => nth m crow 0 * x) (combine (s_coeffs s) vals))).
  assert (Hlen : length (pt_vals K md ef s o (norms K s) p) = ncomp s).
  { unfold pt_vals. cbv zeta. rewrite map_length, combine_length, length_norms. apply Nat.min_id. }
  rewrite (nth_indep _ 0 (G [])) by (rewrite map_length, Hlen; exact Hc).
  rewrite (map_nth G). unfold pt_vals. cbv zeta.
  rewrite (nth_map_combine _ (comps_of s) (norms K s) c (0, 0, 0)%nat [] [])
    by (rewrite ?length_norms; auto).
  fold (cnth s c). rewrite (nth_norms s c Hc). unfold eval_entry, eval_kern, ssum.
  destruct (cnth s c) as [[ax ay] az]. rewrite combine_map_same, map_map.
  unfold G. rewrite combine_map_r_prims, map_map. fold (prims s).
  apply fsum_map_ext. intros [alpha row]. cbn [fst snd].
  destruct (prim_data K md ef s o p alpha) as [e [[rx ry] rz]]. ring.
Qed.

Lemma mk1 {A} (f : nat -> A) : mk 1 f = [f 0%nat].
Proof. reflexivity. Qed.

(* 1. generalized = segmented *)
Theorem eval_generalized_is_segmented s pts m : m < nseg s ->
  block_with K md (fun x => x) ef (col_shell s m) o pts = [nth m (block_with K md (fun x => x) ef s o pts) []].
Proof.
  intros Hm. rewrite !eval_block_form, (nseg_col_shell s m Hm), mk1. rewrite nth_mk by exact Hm.
  change (ncomp (col_shell s m)) with (ncomp s). f_equal. apply mk_ext. intros c Hc. apply map_ext. intros p.
  unfold eval_entry. change (prims (col_shell s m)) with (combine (s_exps s) (col_rows m 0 (s_coeffs s))).
  apply ssum_col.
Qed.

(* 2. order of the primitives *)
Theorem eval_prim_perm_invariant s ps pts : Permutation (prims s) ps -> nseg (set_prims s ps) = nseg s ->
  block_with K md (fun x => x) ef (set_prims s ps) o pts = block_with K md (fun x => x) ef s o pts.
Proof.
  intros HP HN. rewrite !eval_block_form, HN. change (ncomp (set_prims s ps)) with (ncomp s).
  apply mk_ext. intros m Hm. apply mk_ext. intros c Hc. apply map_ext. intros p.
  unfold eval_entry. rewrite prims_set_prims. symmetry. now apply ssum_perm.
Qed.

(* 3. splitting a primitive *)
Theorem eval_prim_split s l1 l2 a r r1 r2 pts :
  prims s = l1 ++ (a, r) :: l2 -> r = map2 (fadd K) r1 r2 -> length r1 = length r2 ->
  block_with K md (fun x => x) ef (set_prims s (l1 ++ (a, r1) :: (a, r2) :: l2)) o pts
  = block_with K md (fun x => x) ef s o pts.
Proof.
  intros Hp Hr Hl. rewrite !eval_block_form, (nseg_split s l1 l2 a r r1 r2 Hp Hr Hl).
  change (ncomp (set_prims s (l1 ++ (a, r1) :: (a, r2) :: l2))) with (ncomp s).
  apply mk_ext. intros m Hm. apply mk_ext. intros c Hc. apply map_ext. intros p.
  unfold eval_entry. rewrite prims_set_prims, Hp. apply ssum_split. subst r. now apply nth_map2_add.
Qed.

(* 4. linearity *)
Theorem eval_unnormalised_additive s C1 C2 p m c : same_shape C1 C2 ->
  eval_entry (set_coeffs s (rows_add C1 C2)) p m c
  = eval_entry (set_coeffs s C1) p m c + eval_entry (set_coeffs s C2) p m c.
Proof. intros H. unfold eval_entry. rewrite !prims_set_coeffs. now apply ssum_add. Qed.

Theorem eval_unnormalised_homogeneous s k C p m c :
  eval_entry (set_coeffs s (rows_scale k C)) p m c = k * eval_entry (set_coeffs s C) p m c.
Proof. unfold eval_entry. rewrite !prims_set_coeffs. apply ssum_scale. Qed.

Theorem eval_scale_col_unnormalised s m0 k p m c :
  eval_entry (scale_col s m0 k) p m c = colfac m0 k m * eval_entry s p m c.
Proof. unfold eval_entry, scale_col. rewrite !prims_set_coeffs. apply ssum_scale_col. Qed.

Lemma eval_entry_block s pts m c n d : m < nseg s -> c < ncomp s -> n < length pts ->
  nth n (nth c (nth m (block_with K md (fun x => x) ef s o pts) []) []) 0 = eval_entry s (nth n pts d) m c.
Proof.
  intros Hm Hc Hn. rewrite eval_block_form. rewrite nth_mk by exact Hm. rewrite nth_mk by exact Hc.
  rewrite (nth_indep _ 0 (eval_entry s d m c)) by (now rewrite map_length).
  apply (map_nth (fun p => eval_entry s p m c)).
Qed.
End EvalBlock.

(* the contraction norms of the single-column shells are the rows of the generalized shell's *)
Theorem norm_cont_col_shell s m : m < nseg s ->
  norm_cont K (col_shell s m) = [nth m (norm_cont K s) []].
Proof.
  intros Hm. rewrite !norm_cont_form, (nseg_col_shell s m Hm), mk1. rewrite nth_mk by exact Hm.
  change (ncomp (col_shell s m)) with (ncomp s). f_equal. apply mk_ext. intros c Hc.
  do 3 f_equal. unfold selfov. rewrite !overlap_block_kernel, !kblock_form.
  rewrite !nth4_mk4 by (rewrite ?(nseg_col_shell s m Hm); assumption || lia).
  change (ov_kern (col_shell s m) (col_shell s m)) with (ov_kern s s). apply kentry_col.
Qed.


(* ------------------------------------------------------------------ *)
(* one-index assembly (base_one.py): a generalized shell gives the same rows, in the same
   order, as its single-column shells listed one after the other (segment-major flattening) *)
(* ------------------------------------------------------------------ *)
Definition segments (s : shell F) : list (shell F) := map (col_shell s) (seq 0 (nseg s)).
Definition segmented_basis (basis : list (shell F)) : list (shell F) := flat_map segments basis.

Section OneIndex.
Variable tabs : F -> F.

Definition seg_rows (sph : bool) (T : list (list F)) (q : list F * list (list F)) : list (list F) :=
  let r := map (fun '(x, row) => map (fmul K x) row) (combine (fst q) (snd q)) in
  if sph then apply_rows (map (fun _ => 0) (hd [] r))
                (fun x y => map (fun '(a, c) => a + c) (combine x y))
                (fun t x => map (fmul K t) x) (map (map tabs) T) r
  else r.

Lemma shell_rows_flat sph T nc blk :
  shell_rows K tabs sph T nc blk = concat (map (seg_rows sph T) (combine nc blk)).
Proof.
  unfold shell_rows, normalise1, seg_rows. cbv zeta. destruct sph.
  - rewrite map_map. f_equal. apply map_ext. intros [nrow b1]. reflexivity.
  - f_equal. apply map_ext. intros [nrow b1]. reflexivity.
Qed.

Lemma combine_nth_seq {A B} (l1 : list A) (l2 : list B) n d1 d2 : length l1 = n -> length l2 = n ->
  combine l1 l2 = map (fun i => (nth i l1 d1, nth i l2 d2)) (seq 0 n).
Proof.
  intros H1 H2. apply (nth_ext _ _ (d1, d2) (d1, d2)).
  - rewrite combine_length, map_length, seq_length. lia.
  - intros i Hi. rewrite combine_length in Hi. rewrite combine_nth by lia.
    rewrite (nth_indep _ (d1, d2) ((fun i => (nth i l1 d1, nth i l2 d2)) 0%nat)) by (rewrite map_length, seq_length; lia).
    rewrite (map_nth (fun i => (nth i l1 d1, nth i l2 d2))). rewrite seq_nth by lia. reflexivity.
Qed.

Variable blk_of : shell F -> list (list (list F)).
Definition rows_of (s : shell F) : list (list F) :=
  shell_rows K tabs (s_sph s) (shell_transform K s) (norm_cont K s) (blk_of s).

Definition seg_compatible (s : shell F) : Prop :=
  length (blk_of s) = nseg s /\ forall m, m < nseg s -> blk_of (col_shell s m) = [nth m (blk_of s) []].

Lemma rows_of_segments s : seg_compatible s -> rows_of s = concat (map rows_of (segments s)).
Proof.
  intros [HL HS]. unfold rows_of at 1. rewrite shell_rows_flat.
  rewrite (combine_nth_seq (norm_cont K s) (blk_of s) (nseg s) [] [])
    by (rewrite ?norm_cont_form, ?mk_length; auto).
  unfold segments. rewrite !map_map. f_equal. apply map_ext_in. intros m Hm. apply in_seq in Hm.
  unfold rows_of. rewrite shell_rows_flat, (norm_cont_col_shell s m) by lia. rewrite (HS m) by lia.
  change (s_sph (col_shell s m)) with (s_sph s). change (shell_transform K (col_shell s m)) with (shell_transform K s).
  cbn [combine map concat]. now rewrite app_nil_r.
Qed.

Lemma rows_segmented_basis basis : Forall seg_compatible basis ->
  concat (map rows_of (segmented_basis basis)) = concat (map rows_of basis).
Proof.
  induction 1 as [|s basis Hs _ IH]; [reflexivity|]. unfold segmented_basis in *. cbn [flat_map map concat].
  rewrite map_app, concat_app, IH. f_equal. symmetry. now apply rows_of_segments.
Qed.

Lemma one_index_rows_of basis T :
  one_index K tabs (map (fun s => (prep_fast K s, blk_of s)) basis) T
  = let rows := concat (map rows_of basis) in
    match T with
    | None => rows
    | Some t => apply_rows (map (fun _ => 0) (hd [] rows))
                  (fun x y => map (fun '(a, c) => a + c) (combine x y))
                  (fun t x => map (fmul K t) x) (map (map tabs) t) rows
    end.
Proof. unfold one_index. cbv zeta. rewrite map_map. reflexivity. Qed.

Theorem one_index_segmented basis T : Forall seg_compatible basis ->
  one_index K tabs (map (fun s => (prep_fast K s, blk_of s)) (segmented_basis basis)) T
  = one_index K tabs (map (fun s => (prep_fast K s, blk_of s)) basis) T.
Proof. intros H. rewrite !one_index_rows_of. cbv zeta. now rewrite (rows_segmented_basis basis H). Qed.
End OneIndex.

Lemma block_with_length md cm ef s o pts : length (block_with K md cm ef s o pts) = nseg s.
Proof. unfold block_with. cbv zeta. apply mk_length. Qed.

(* evaluate_basis / evaluate_deriv_basis: same functions, same order *)
Theorem evaluate_basis_generalized_is_segmented basis pts T :
  evaluate_basis_model K (segmented_basis basis) pts T = evaluate_basis_model K basis pts T.
Proof.
  unfold evaluate_basis_model. apply (one_index_segmented (fun x => x) (fun s => eval_block0 K s pts)).
  apply Forall_forall. intros s _. split; [apply block_with_length|].
  intros m Hm. unfold eval_block0. change (s_l (col_shell s m)) with (s_l s).
  now apply eval_generalized_is_segmented.
Qed.

Theorem evaluate_deriv_basis_generalized_is_segmented basis pts o T bk :
  evaluate_deriv_basis_model K (segmented_basis basis) pts o T bk = evaluate_deriv_basis_model K basis pts o T bk.
Proof.
  unfold evaluate_deriv_basis_model. destruct (accepts bk o); [|reflexivity]. f_equal.
  apply (one_index_segmented (fun x => x)
           (fun s => block_with K (mode_of K bk (s_l s) (comps_of s) o) (fun c => c) (fexp K) s o pts)).
  apply Forall_forall. intros s _. split; [apply block_with_length|].
  intros m Hm. change (s_l (col_shell s m)) with (s_l s). change (comps_of (col_shell s m)) with (comps_of s).
  now apply eval_generalized_is_segmented.
Qed.


(* ------------------------------------------------------------------ *)
(* the laws on the bare double sum (used by the Boys-type kernels)      *)
(* ------------------------------------------------------------------ *)
Section DS.
Variables (h : F -> F -> F) (wa wb : F -> F).
Notation D := (dsum h wa wb).

Lemma dsum_col ea Ca eb Cb ma mb :
  D (combine ea (col_rows ma 0 Ca)) (combine eb (col_rows mb 0 Cb)) 0 0 = D (combine ea Ca) (combine eb Cb) ma mb.
Proof. unfold dsum. rewrite ssum_col. apply ssum_ext. intros beta. f_equal. apply ssum_col. Qed.

Lemma dsum_perm pa pa' pb pb' ma mb : Permutation pa pa' -> Permutation pb pb' ->
  D pa' pb' ma mb = D pa pb ma mb.
Proof.
  intros Ha Hb. unfold dsum. rewrite <- (ssum_perm _ _ _ mb Hb). apply ssum_ext. intros beta. f_equal.
  symmetry. apply (ssum_perm _ _ _ ma Ha).
Qed.

Lemma dsum_split_a l1 l2 a r r1 r2 pb ma mb : r = map2 (fadd K) r1 r2 -> length r1 = length r2 ->
  D (l1 ++ (a, r1) :: (a, r2) :: l2) pb ma mb = D (l1 ++ (a, r) :: l2) pb ma mb.
Proof.
  intros Hr Hl. unfold dsum. apply ssum_ext. intros beta. f_equal. apply ssum_split. subst r. now apply nth_map2_add.
Qed.

Lemma dsum_split_b pa l1 l2 a r r1 r2 ma mb : r = map2 (fadd K) r1 r2 -> length r1 = length r2 ->
  D pa (l1 ++ (a, r1) :: (a, r2) :: l2) ma mb = D pa (l1 ++ (a, r) :: l2) ma mb.
Proof. intros Hr Hl. unfold dsum. apply ssum_split. subst r. now apply nth_map2_add. Qed.

Lemma dsum_add_a ea C1 C2 pb ma mb : same_shape C1 C2 ->
  D (combine ea (rows_add C1 C2)) pb ma mb = D (combine ea C1) pb ma mb + D (combine ea C2) pb ma mb.
Proof.
  intros H. unfold dsum. unfold ssum at 1 3 5. rewrite <- fsum_map_add. apply fsum_map_ext. intros [beta rb].
  cbn [fst snd]. rewrite (ssum_add _ _ _ _ _ H). ring.
Qed.

Lemma dsum_scale_a ea k C pb ma mb : D (combine ea (rows_scale k C)) pb ma mb = k * D (combine ea C) pb ma mb.
Proof.
  unfold dsum. unfold ssum at 1 3. rewrite <- fsum_map_scale. apply fsum_map_ext. intros [beta rb].
  cbn [fst snd]. rewrite ssum_scale. ring.
Qed.

Lemma dsum_add_b pa eb C1 C2 ma mb : same_shape C1 C2 ->
  D pa (combine eb (rows_add C1 C2)) ma mb = D pa (combine eb C1) ma mb + D pa (combine eb C2) ma mb.
Proof. intros H. unfold dsum. now apply ssum_add. Qed.

Lemma dsum_scale_b pa eb k C ma mb : D pa (combine eb (rows_scale k C)) ma mb = k * D pa (combine eb C) ma mb.
Proof. unfold dsum. apply ssum_scale. Qed.
End DS.

(* ------------------------------------------------------------------ *)
(* point-charge / nuclear-attraction kernel (_one_elec_int.py)          *)
(* ------------------------------------------------------------------ *)
(* the model with the number of columns and the contracted [a|0] cube abstracted; it reads only
   the frames (l, centre, component lists) of the shells *)
Definition one_elec_point_gen (Ma Mb : nat) (ctr : nat -> nat -> nat -> nat -> nat -> F)
           (sa sb : shell F) : list (list (list (list F))) :=
  let la := s_l sa in let lb := s_l sb in let L := (la + lb)%nat in
  let abx := s_x sa - s_x sb in let aby := s_y sa - s_y sb in let abz := s_z sa - s_z sb in
  let nca := map (inv_sqrt_df K) (comps_of sa) in
  let ncb := map (inv_sqrt_df K) (comps_of sb) in
  mk Ma (fun ma => map (fun '(ca, fa) =>
    mk Mb (fun mb => map (fun '(cb, fb) =>
      let '(ax, ay, az) := ca in let '(bx, by_, bz) := cb in
      let h := hrr K L lb abx aby abz
                 (mk (S L) (fun x => mk (S L) (fun y => mk (S L) (fun z => ctr ma mb x y z)))) in
      cget K (nth bz (nth by_ (nth bx h []) []) []) ax ay az * fa * fb)
      (combine (comps_of sb) ncb))) (combine (comps_of sa) nca)).

Definition oe_ctr (Cx Cy Cz : F) (sa sb : shell F) (pa pb : list (@prim F)) (ma mb x y z : nat) : F :=
  dsum (fun alpha beta => cget K (vrr_prim K (s_l sa + s_l sb) (s_x sa) (s_y sa) (s_z sa)
                                          (s_x sb) (s_y sb) (s_z sb) Cx Cy Cz alpha beta) x y z)
       (norm_rad K (s_l sa)) (norm_rad K (s_l sb)) pa pb ma mb.

Lemma one_elec_point_form Cx Cy Cz sa sb :
  one_elec_point K Cx Cy Cz sa sb
  = one_elec_point_gen (nseg sa) (nseg sb) (oe_ctr Cx Cy Cz sa sb (prims sa) (prims sb)) sa sb.
Proof.
  unfold one_elec_point, one_elec_point_gen. cbv zeta. apply mk_ext. intros ma Hma.
  apply map_ext. intros [ca fa]. apply mk_ext. intros mb Hmb. apply map_ext. intros [cb fb].
  destruct ca as [[ax ay] az]. destruct cb as [[bx by_] bz].
  rewrite nth_mk by exact Hma. rewrite nth_mk by exact Hmb.
  do 7 f_equal.
  apply mk_ext. intros x _. apply mk_ext. intros y _. apply mk_ext. intros z _.
  unfold oe_ctr, dsum, ssum, prims.
  rewrite (combine3_map' (fun beta => map (fun alpha => vrr_prim K (s_l sa + s_l sb) (s_x sa) (s_y sa) (s_z sa)
                            (s_x sb) (s_y sb) (s_z sb) Cx Cy Cz alpha beta) (s_exps sa)) (norm_rad K (s_l sb))).
  rewrite map_map. apply fsum_map_ext. intros [beta rb]. cbn [fst snd].
  rewrite (combine3_map' (fun alpha => vrr_prim K (s_l sa + s_l sb) (s_x sa) (s_y sa) (s_z sa)
                            (s_x sb) (s_y sb) (s_z sb) Cx Cy Cz alpha beta) (norm_rad K (s_l sa))).
  rewrite map_map. reflexivity.
Qed.

Lemma one_elec_point_gen_ext Ma Mb ctr ctr' sa sb :
  (forall ma mb x y z, ma < Ma -> mb < Mb -> ctr ma mb x y z = ctr' ma mb x y z) ->
  one_elec_point_gen Ma Mb ctr sa sb = one_elec_point_gen Ma Mb ctr' sa sb.
Proof.
  intros H. unfold one_elec_point_gen. cbv zeta. apply mk_ext. intros ma Hma.
  apply map_ext. intros [ca fa]. apply mk_ext. intros mb Hmb. apply map_ext. intros [cb fb].
  destruct ca as [[ax ay] az]. destruct cb as [[bx by_] bz].
  do 7 f_equal.
  apply mk_ext. intros x _. apply mk_ext. intros y _. apply mk_ext. intros z _. now apply H.
Qed.

Section OE.
Variables Cx Cy Cz : F.
Notation OE := (one_elec_point K Cx Cy Cz).

Theorem oe_prim_perm_invariant sa sb psa psb :
  Permutation (prims sa) psa -> Permutation (prims sb) psb ->
  nseg (set_prims sa psa) = nseg sa -> nseg (set_prims sb psb) = nseg sb ->
  OE (set_prims sa psa) (set_prims sb psb) = OE sa sb.
Proof.
  intros Ha Hb Na Nb. rewrite !one_elec_point_form, Na, Nb, !prims_set_prims.
  change (one_elec_point_gen ?a ?b ?c (set_prims sa psa) (set_prims sb psb)) with (one_elec_point_gen a b c sa sb).
  apply one_elec_point_gen_ext. intros. unfold oe_ctr.
  change (s_l (set_prims ?s ?p)) with (s_l s). change (s_x (set_prims ?s ?p)) with (s_x s).
  change (s_y (set_prims ?s ?p)) with (s_y s). change (s_z (set_prims ?s ?p)) with (s_z s).
  now apply dsum_perm.
Qed.

Theorem oe_prim_split_a sa sb l1 l2 a r r1 r2 :
  prims sa = l1 ++ (a, r) :: l2 -> r = map2 (fadd K) r1 r2 -> length r1 = length r2 ->
  OE (set_prims sa (l1 ++ (a, r1) :: (a, r2) :: l2)) sb = OE sa sb.
Proof.
  intros Hp Hr Hl. rewrite !one_elec_point_form, (nseg_split sa l1 l2 a r r1 r2 Hp Hr Hl), !prims_set_prims.
  change (one_elec_point_gen ?a ?b ?c (set_prims sa ?p) sb) with (one_elec_point_gen a b c sa sb).
  apply one_elec_point_gen_ext. intros. unfold oe_ctr.
  change (s_l (set_prims ?s ?p)) with (s_l s). change (s_x (set_prims ?s ?p)) with (s_x s).
  change (s_y (set_prims ?s ?p)) with (s_y s). change (s_z (set_prims ?s ?p)) with (s_z s).
  rewrite Hp. now apply dsum_split_a.
Qed.

Theorem oe_prim_split_b sa sb l1 l2 a r r1 r2 :
  prims sb = l1 ++ (a, r) :: l2 -> r = map2 (fadd K) r1 r2 -> length r1 = length r2 ->
  OE sa (set_prims sb (l1 ++ (a, r1) :: (a, r2) :: l2)) = OE sa sb.
Proof.
  intros Hp Hr Hl. rewrite !one_elec_point_form, (nseg_split sb l1 l2 a r r1 r2 Hp Hr Hl), !prims_set_prims.
  change (one_elec_point_gen ?a ?b ?c sa (set_prims sb ?p)) with (one_elec_point_gen a b c sa sb).
  apply one_elec_point_gen_ext. intros. unfold oe_ctr.
  change (s_l (set_prims ?s ?p)) with (s_l s). change (s_x (set_prims ?s ?p)) with (s_x s).
  change (s_y (set_prims ?s ?p)) with (s_y s). change (s_z (set_prims ?s ?p)) with (s_z s).
  rewrite Hp. now apply dsum_split_b.
Qed.

(* 1. generalized = segmented: the block of the single-column shells is the (ma, mb) slice *)
Theorem oe_generalized_is_segmented sa sb ma mb : ma < nseg sa -> mb < nseg sb ->
  OE (col_shell sa ma) (col_shell sb mb)
  = [map (fun b2 => [nth mb b2 []]) (nth ma (OE sa sb) [])].
Proof.
  intros Hma Hmb. rewrite !one_elec_point_form, (nseg_col_shell sa ma Hma), (nseg_col_shell sb mb Hmb).
  change (one_elec_point_gen ?a ?b ?c (col_shell sa ma) (col_shell sb mb)) with (one_elec_point_gen a b c sa sb).
  unfold one_elec_point_gen. cbv zeta. rewrite mk1. rewrite nth_mk by exact Hma. f_equal.
  rewrite map_map. apply map_ext. intros [ca fa]. rewrite mk1. rewrite nth_mk by exact Hmb. f_equal.
  apply map_ext. intros [cb fb]. destruct ca as [[ax ay] az]. destruct cb as [[bx by_] bz].
  do 7 f_equal.
  apply mk_ext. intros x _. apply mk_ext. intros y _. apply mk_ext. intros z _.
  unfold oe_ctr. change (s_l (col_shell ?s ?m)) with (s_l s). change (s_x (col_shell ?s ?m)) with (s_x s).
  change (s_y (col_shell ?s ?m)) with (s_y s). change (s_z (col_shell ?s ?m)) with (s_z s).
  apply dsum_col.
Qed.
End OE.


(* PointChargeIntegral.construct_array_contraction (with the la < lb swap) *)
Section PC.
Variable points : list (F * F * F * F).
Notation PCB := (point_charge_block K points).

Theorem pc_prim_perm_invariant sa sb psa psb :
  Permutation (prims sa) psa -> Permutation (prims sb) psb ->
  nseg (set_prims sa psa) = nseg sa -> nseg (set_prims sb psb) = nseg sb ->
  PCB (set_prims sa psa) (set_prims sb psb) = PCB sa sb.
Proof.
  intros Ha Hb Na Nb. unfold point_charge_block. cbv zeta. rewrite Na, Nb.
  change (s_l (set_prims ?s ?p)) with (s_l s). change (comps_of (set_prims ?s ?p)) with (comps_of s).
  replace (map (fun '(cx, cy, cz, q) =>
             (q, if s_l sa <? s_l sb then one_elec_point K cx cy cz (set_prims sb psb) (set_prims sa psa)
                 else one_elec_point K cx cy cz (set_prims sa psa) (set_prims sb psb))) points)
    with (map (fun '(cx, cy, cz, q) =>
             (q, if s_l sa <? s_l sb then one_elec_point K cx cy cz sb sa
                 else one_elec_point K cx cy cz sa sb)) points); [reflexivity|].
  apply map_ext. intros [[[cx cy] cz] q].
  rewrite (oe_prim_perm_invariant cx cy cz sa sb psa psb Ha Hb Na Nb).
  now rewrite (oe_prim_perm_invariant cx cy cz sb sa psb psa Hb Ha Nb Na).
Qed.

Theorem pc_prim_split_a sa sb l1 l2 a r r1 r2 :
  prims sa = l1 ++ (a, r) :: l2 -> r = map2 (fadd K) r1 r2 -> length r1 = length r2 ->
  PCB (set_prims sa (l1 ++ (a, r1) :: (a, r2) :: l2)) sb = PCB sa sb.
Proof.
  intros Hp Hr Hl. unfold point_charge_block. cbv zeta. rewrite (nseg_split sa l1 l2 a r r1 r2 Hp Hr Hl).
  change (s_l (set_prims ?s ?p)) with (s_l s). change (comps_of (set_prims ?s ?p)) with (comps_of s).
  set (sa' := set_prims sa (l1 ++ (a, r1) :: (a, r2) :: l2)).
  replace (map (fun '(cx, cy, cz, q) =>
             (q, if s_l sa <? s_l sb then one_elec_point K cx cy cz sb sa'
                 else one_elec_point K cx cy cz sa' sb)) points)
    with (map (fun '(cx, cy, cz, q) =>
             (q, if s_l sa <? s_l sb then one_elec_point K cx cy cz sb sa
                 else one_elec_point K cx cy cz sa sb)) points); [reflexivity|].
  apply map_ext. intros [[[cx cy] cz] q]. unfold sa'.
  rewrite (oe_prim_split_a cx cy cz sa sb l1 l2 a r r1 r2 Hp Hr Hl).
  now rewrite (oe_prim_split_b cx cy cz sb sa l1 l2 a r r1 r2 Hp Hr Hl).
Qed.

Theorem pc_prim_split_b sa sb l1 l2 a r r1 r2 :
  prims sb = l1 ++ (a, r) :: l2 -> r = map2 (fadd K) r1 r2 -> length r1 = length r2 ->
  PCB sa (set_prims sb (l1 ++ (a, r1) :: (a, r2) :: l2)) = PCB sa sb.
Proof.
  intros Hp Hr Hl. unfold point_charge_block. cbv zeta. rewrite (nseg_split sb l1 l2 a r r1 r2 Hp Hr Hl).
  change (s_l (set_prims ?s ?p)) with (s_l s). change (comps_of (set_prims ?s ?p)) with (comps_of s).
  set (sb' := set_prims sb (l1 ++ (a, r1) :: (a, r2) :: l2)).
  replace (map (fun '(cx, cy, cz, q) =>
             (q, if s_l sa <? s_l sb then one_elec_point K cx cy cz sb' sa
                 else one_elec_point K cx cy cz sa sb')) points)
    with (map (fun '(cx, cy, cz, q) =>
             (q, if s_l sa <? s_l sb then one_elec_point K cx cy cz sb sa
                 else one_elec_point K cx cy cz sa sb)) points); [reflexivity|].
  apply map_ext. intros [[[cx cy] cz] q]. unfold sb'.
  rewrite (oe_prim_split_b cx cy cz sa sb l1 l2 a r r1 r2 Hp Hr Hl).
  now rewrite (oe_prim_split_a cx cy cz sb sa l1 l2 a r r1 r2 Hp Hr Hl).
Qed.

Lemma nth_seg_slice (l : list (list (list F))) m i :
  nth 0 (nth i (map (fun b2 => [nth m b2 []]) l) []) [] = nth m (nth i l []) [].
Proof.
  revert i. induction l as [|b l IH]; intros [|i]; cbn [map nth]; try (destruct m; reflexivity). apply IH.
Qed.

(* 1. generalized = segmented for the point-charge block: the (ma, mb) slice, every point *)
Theorem pc_generalized_is_segmented sa sb ma mb : ma < nseg sa -> mb < nseg sb ->
  PCB (col_shell sa ma) (col_shell sb mb)
  = mk 1 (fun _ => mk (ncomp sa) (fun ia => mk 1 (fun _ => mk (ncomp sb) (fun ib =>
      nth ib (nth mb (nth ia (nth ma (PCB sa sb) []) []) []) [])))).
Proof.
  intros Hma Hmb. unfold point_charge_block. cbv zeta.
  rewrite (nseg_col_shell sa ma Hma), (nseg_col_shell sb mb Hmb).
  change (s_l (col_shell ?s ?m)) with (s_l s). change (comps_of (col_shell ?s ?m)) with (comps_of s).
  unfold ncomp. apply mk_ext. intros a Ha. apply mk_ext. intros ia Hia. apply mk_ext. intros b Hb.
  apply mk_ext. intros ib Hib. assert (a = 0%nat) by lia. assert (b = 0%nat) by lia. subst a b.
  rewrite nth_mk by exact Hma. rewrite nth_mk by exact Hia. rewrite nth_mk by exact Hmb.
  rewrite nth_mk by exact Hib. rewrite !map_map. apply map_ext. intros [[[cx cy] cz] q]. f_equal.
  destruct (s_l sa <? s_l sb).
  - rewrite (oe_generalized_is_segmented cx cy cz sb sa mb ma Hmb Hma). cbn [nth].
    now rewrite nth_seg_slice.
  - rewrite (oe_generalized_is_segmented cx cy cz sa sb ma mb Hma Hmb). cbn [nth].
    now rewrite nth_seg_slice.
Qed.
End PC.


(* ------------------------------------------------------------------ *)
(* electron-repulsion kernel (_two_elec_int.py)                         *)
(* ------------------------------------------------------------------ *)
(* two (primitive list, column) pairs that every contraction sum cannot tell apart *)
Definition sum_equiv (p : list (@prim F)) (m : nat) (p' : list (@prim F)) (m' : nat) : Prop :=
  forall f, ssum f p' m' = ssum f p m.

Lemma sum_equiv_refl p m : sum_equiv p m p m.
Proof. intros f. reflexivity. Qed.
Lemma sum_equiv_perm p p' m : Permutation p p' -> sum_equiv p m p' m.
Proof. intros H f. symmetry. now apply ssum_perm. Qed.
Lemma sum_equiv_col es C m : sum_equiv (combine es C) m (combine es (col_rows m 0 C)) 0.
Proof. intros f. apply ssum_col. Qed.
Lemma sum_equiv_split l1 l2 a r r1 r2 m : r = map2 (fadd K) r1 r2 -> length r1 = length r2 ->
  sum_equiv (l1 ++ (a, r) :: l2) m (l1 ++ (a, r1) :: (a, r2) :: l2) m.
Proof. intros Hr Hl f. apply ssum_split. subst r. now apply nth_map2_add. Qed.

Definition qsum (E : F -> F -> F -> F -> F) (N1 N2 N3 N4 : F -> F) (p1 p2 p3 p4 : list (@prim F))
           (m1 m2 m3 m4 : nat) : F :=
  ssum (fun a => ssum (fun b => ssum (fun c => ssum (fun d => E a b c d * N4 d) p4 m4 * N3 c) p3 m3 * N2 b)
                      p2 m2 * N1 a) p1 m1.

Lemma qsum_congr E N1 N2 N3 N4 p1 p2 p3 p4 m1 m2 m3 m4 p1' p2' p3' p4' m1' m2' m3' m4' :
  sum_equiv p1 m1 p1' m1' -> sum_equiv p2 m2 p2' m2' -> sum_equiv p3 m3 p3' m3' -> sum_equiv p4 m4 p4' m4' ->
  qsum E N1 N2 N3 N4 p1' p2' p3' p4' m1' m2' m3' m4' = qsum E N1 N2 N3 N4 p1 p2 p3 p4 m1 m2 m3 m4.
Proof.
  intros H1 H2 H3 H4. unfold qsum. rewrite H1. apply ssum_ext. intros a. f_equal.
  rewrite H2. apply ssum_ext. intros b. f_equal. rewrite H3. apply ssum_ext. intros c. f_equal. apply H4.
Qed.

Lemma combine_wts {B} (g : F * list F -> F * list F) (phi : F -> B) es (C : list (list F)) :
  combine (map g (combine es C)) (map phi es) = map (fun q => (g q, phi (fst q))) (combine es C).
Proof. revert C; induction es as [|e es IH]; intros [|c C]; cbn; try reflexivity. now rewrite IH. Qed.

Lemma csum_wts {B} (s : shell F) (phi : F -> B) (f : B -> F) m :
  csum K (wts K s) m (map phi (s_exps s)) f = ssum (fun a => f (phi a) * norm_rad K (s_l s) a) (prims s) m.
Proof.
  unfold csum, wts, ssum, prims. rewrite combine_wts, map_map. apply fsum_map_ext. intros [a row].
  unfold wcoef. cbn [fst snd]. ring.
Qed.

Definition eri_E (s1 s2 s3 s4 : shell F) (cx cy cz ax ay az : nat) (a b c d : F) : F :=
  fapx K (eget K (eri_prim K (s_l s1 + s_l s2 + s_l s3 + s_l s4) (s_l s3 + s_l s4)
                    (coord3 s1) (coord3 s2) (coord3 s3) (coord3 s4) a b c d) cx cy cz ax ay az).

Definition eri_ctr (s1 s2 s3 s4 : shell F) (p1 p2 p3 p4 : list (@prim F))
           (m1 m2 m3 m4 cx cy cz ax ay az : nat) : F :=
  qsum (eri_E s1 s2 s3 s4 cx cy cz ax ay az)
       (norm_rad K (s_l s1)) (norm_rad K (s_l s2)) (norm_rad K (s_l s3)) (norm_rad K (s_l s4))
       p1 p2 p3 p4 m1 m2 m3 m4.

Lemma eri_contract_qsum s1 s2 s3 s4 m1 m2 m3 m4 cx cy cz ax ay az :
  eri_contract K (wts K s1) (wts K s2) (wts K s3) (wts K s4)
    (map (fun alpha => map (fun beta => map (fun gamma => map (fun delta =>
       eri_prim K (s_l s1 + s_l s2 + s_l s3 + s_l s4) (s_l s3 + s_l s4)
                (coord3 s1) (coord3 s2) (coord3 s3) (coord3 s4) alpha beta gamma delta)
       (s_exps s4)) (s_exps s3)) (s_exps s2)) (s_exps s1)) m1 m2 m3 m4 cx cy cz ax ay az
  = eri_ctr s1 s2 s3 s4 (prims s1) (prims s2) (prims s3) (prims s4) m1 m2 m3 m4 cx cy cz ax ay az.
Proof.
  unfold eri_contract, eri_ctr, qsum. rewrite csum_wts. apply ssum_ext. intros a. f_equal.
  rewrite csum_wts. apply ssum_ext. intros b. f_equal.
  rewrite csum_wts. apply ssum_ext. intros c. f_equal.
  rewrite csum_wts. reflexivity.
Qed.

(* the model with the numbers of columns and the contraction abstracted (reads only the frames) *)
Definition eri_chans_gen (M1 M2 M3 M4 : nat)
           (ctr : nat -> nat -> nat -> nat -> nat -> nat -> nat -> nat -> nat -> nat -> F)
           (s1 s2 s3 s4 : shell F) :=
  let la := s_l s1 in let lb := s_l s2 in let lc := s_l s3 in let ld := s_l s4 in
  let Lc := (lc + ld)%nat in let La := (la + lb)%nat in
  let abx := s_x s1 - s_x s2 in let aby := s_y s1 - s_y s2 in let abz := s_z s1 - s_z s2 in
  let cdx := s_x s3 - s_x s4 in let cdy := s_y s3 - s_y s4 in let cdz := s_z s3 - s_z s4 in
  mk M1 (fun m1 => mk M2 (fun m2 => mk M3 (fun m3 => mk M4 (fun m4 =>
    eri_channel K La Lc lb ld abx aby abz cdx cdy cdz (comps_of s3) (comps_of s4) (ctr m1 m2 m3 m4))))).

Definition eri_block_gen (M1 M2 M3 M4 : nat)
           (ctr : nat -> nat -> nat -> nat -> nat -> nat -> nat -> nat -> nat -> nat -> F)
           (s1 s2 s3 s4 : shell F) : list (list (list (list (list (list (list (list F))))))) :=
  let comps1 := comps_of s1 in let comps2 := comps_of s2 in
  let comps3 := comps_of s3 in let comps4 := comps_of s4 in
  let chans := eri_chans_gen M1 M2 M3 M4 ctr s1 s2 s3 s4 in
  let f1 := map (inv_sqrt_df K) comps1 in let f2 := map (inv_sqrt_df K) comps2 in
  let f3 := map (inv_sqrt_df K) comps3 in let f4 := map (inv_sqrt_df K) comps4 in
  mk M1 (fun m1 => mk (length comps1) (fun i1 =>
    mk M2 (fun m2 => mk (length comps2) (fun i2 =>
      mk M3 (fun m3 => mk (length comps3) (fun i3 =>
        mk M4 (fun m4 => mk (length comps4) (fun i4 =>
          let c1 := nth i1 comps1 (0, 0, 0)%nat in let c2 := nth i2 comps2 (0, 0, 0)%nat in
          let ch := nth m4 (nth m3 (nth m2 (nth m1 chans []) []) []) [] in
          let h := nth i4 (nth i3 ch []) [] in
          cget K (nth (snd c2) (nth (snd (fst c2)) (nth (fst (fst c2)) h []) []) [])
                 (fst (fst c1)) (snd (fst c1)) (snd c1)
          * nth i1 f1 0 * nth i2 f2 0 * nth i3 f3 0 * nth i4 f4 0)))))))).

Lemma eri_channel_ext La Lc lb ld abx aby abz cdx cdy cdz comps3 comps4 getc getc' :
  (forall cx cy cz ax ay az, getc cx cy cz ax ay az = getc' cx cy cz ax ay az) ->
  eri_channel K La Lc lb ld abx aby abz cdx cdy cdz comps3 comps4 getc
  = eri_channel K La Lc lb ld abx aby abz cdx cdy cdz comps3 comps4 getc'.
Proof.
  intros H. unfold eri_channel. cbv zeta. apply map_ext. intros c3. apply map_ext. intros c4. f_equal.
  apply mk_ext. intros ax Hax. apply mk_ext. intros ay Hay. apply mk_ext. intros az Haz.
  rewrite !(nth_mk (S La) _ _ ax) by exact Hax. rewrite !(nth_mk (S La) _ _ ay) by exact Hay.
  rewrite !(nth_mk (S La) _ _ az) by exact Haz. do 5 f_equal.
  apply mk_ext. intros cx _. apply mk_ext. intros cy _. apply mk_ext. intros cz _. apply H.
Qed.

Lemma eri_chans_gen_ext M1 M2 M3 M4 ctr ctr' s1 s2 s3 s4 :
  (forall m1 m2 m3 m4 cx cy cz ax ay az, m1 < M1 -> m2 < M2 -> m3 < M3 -> m4 < M4 ->
     ctr m1 m2 m3 m4 cx cy cz ax ay az = ctr' m1 m2 m3 m4 cx cy cz ax ay az) ->
  eri_chans_gen M1 M2 M3 M4 ctr s1 s2 s3 s4 = eri_chans_gen M1 M2 M3 M4 ctr' s1 s2 s3 s4.
Proof.
  intros H. unfold eri_chans_gen. cbv zeta. apply mk_ext. intros m1 H1. apply mk_ext. intros m2 H2.
  apply mk_ext. intros m3 H3. apply mk_ext. intros m4 H4. apply eri_channel_ext. intros. now apply H.
Qed.

Lemma eri_block_gen_ext M1 M2 M3 M4 ctr ctr' s1 s2 s3 s4 :
  (forall m1 m2 m3 m4 cx cy cz ax ay az, m1 < M1 -> m2 < M2 -> m3 < M3 -> m4 < M4 ->
     ctr m1 m2 m3 m4 cx cy cz ax ay az = ctr' m1 m2 m3 m4 cx cy cz ax ay az) ->
  eri_block_gen M1 M2 M3 M4 ctr s1 s2 s3 s4 = eri_block_gen M1 M2 M3 M4 ctr' s1 s2 s3 s4.
Proof. intros H. unfold eri_block_gen. cbv zeta. now rewrite (eri_chans_gen_ext M1 M2 M3 M4 ctr ctr' s1 s2 s3 s4 H). Qed.

Lemma eri_block_form s1 s2 s3 s4 :
  eri_block K s1 s2 s3 s4
  = eri_block_gen (nseg s1) (nseg s2) (nseg s3) (nseg s4)
      (eri_ctr s1 s2 s3 s4 (prims s1) (prims s2) (prims s3) (prims s4)) s1 s2 s3 s4.
Proof.
  transitivity (eri_block_gen (nseg s1) (nseg s2) (nseg s3) (nseg s4)
     (fun m1 m2 m3 m4 => eri_contract K (wts K s1) (wts K s2) (wts K s3) (wts K s4)
        (map (fun alpha => map (fun beta => map (fun gamma => map (fun delta =>
           eri_prim K (s_l s1 + s_l s2 + s_l s3 + s_l s4) (s_l s3 + s_l s4)
                    (coord3 s1) (coord3 s2) (coord3 s3) (coord3 s4) alpha beta gamma delta)
           (s_exps s4)) (s_exps s3)) (s_exps s2)) (s_exps s1)) m1 m2 m3 m4) s1 s2 s3 s4).
  - reflexivity.
  - apply eri_block_gen_ext. intros. apply eri_contract_qsum.
Qed.

(* shells with the same frame *)
Definition same_frame (s s' : shell F) : Prop :=
  s_l s' = s_l s /\ s_x s' = s_x s /\ s_y s' = s_y s /\ s_z s' = s_z s /\ comps_of s' = comps_of s.

Lemma same_frame_set_prims s ps : same_frame s (set_prims s ps).
Proof. repeat split. Qed.
Lemma same_frame_set_coeffs s C : same_frame s (set_coeffs s C).
Proof. repeat split. Qed.
Lemma same_frame_refl s : same_frame s s.
Proof. repeat split. Qed.

(* 2./3. any rewriting of the four shells that no contraction sum can tell apart (a permutation of the
   primitives, a split primitive) leaves the whole block unchanged *)
Theorem eri_block_congr s1 s2 s3 s4 s1' s2' s3' s4' :
  same_frame s1 s1' -> same_frame s2 s2' -> same_frame s3 s3' -> same_frame s4 s4' ->
  nseg s1' = nseg s1 -> nseg s2' = nseg s2 -> nseg s3' = nseg s3 -> nseg s4' = nseg s4 ->
  (forall m, sum_equiv (prims s1) m (prims s1') m) -> (forall m, sum_equiv (prims s2) m (prims s2') m) ->
  (forall m, sum_equiv (prims s3) m (prims s3') m) -> (forall m, sum_equiv (prims s4) m (prims s4') m) ->
  eri_block K s1' s2' s3' s4' = eri_block K s1 s2 s3 s4.
Proof.
  intros [A1 [A2 [A3 [A4 A5]]]] [B1 [B2 [B3 [B4 B5]]]] [C1 [C2 [C3 [C4 C5]]]] [D1 [D2 [D3 [D4 D5]]]]
         N1 N2 N3 N4 E1 E2 E3 E4.
  rewrite !eri_block_form, N1, N2, N3, N4.
  transitivity (eri_block_gen (nseg s1) (nseg s2) (nseg s3) (nseg s4)
                  (eri_ctr s1' s2' s3' s4' (prims s1') (prims s2') (prims s3') (prims s4')) s1 s2 s3 s4).
  - unfold eri_block_gen, eri_chans_gen. cbv zeta.
    now rewrite A1, A2, A3, A4, A5, B1, B2, B3, B4, B5, C1, C2, C3, C4, C5, D1, D2, D3, D4, D5.
  - apply eri_block_gen_ext. intros. unfold eri_ctr, eri_E, coord3.
    rewrite A1, A2, A3, A4, B1, B2, B3, B4, C1, C2, C3, C4, D1, D2, D3, D4.
    apply qsum_congr; auto.
Qed.

Theorem eri_prim_perm_invariant s1 s2 s3 s4 p1 p2 p3 p4 :
  Permutation (prims s1) p1 -> Permutation (prims s2) p2 -> Permutation (prims s3) p3 -> Permutation (prims s4) p4 ->
  nseg (set_prims s1 p1) = nseg s1 -> nseg (set_prims s2 p2) = nseg s2 ->
  nseg (set_prims s3 p3) = nseg s3 -> nseg (set_prims s4 p4) = nseg s4 ->
  eri_block K (set_prims s1 p1) (set_prims s2 p2) (set_prims s3 p3) (set_prims s4 p4) = eri_block K s1 s2 s3 s4.
Proof.
  intros P1 P2 P3 P4 N1 N2 N3 N4.
  apply eri_block_congr; auto using same_frame_set_prims; intros m; rewrite prims_set_prims;
    now apply sum_equiv_perm.
Qed.

(* splitting a primitive of any one of the four shells *)
Theorem eri_prim_split_1 s1 s2 s3 s4 l1 l2 a r r1 r2 :
  prims s1 = l1 ++ (a, r) :: l2 -> r = map2 (fadd K) r1 r2 -> length r1 = length r2 ->
  eri_block K (set_prims s1 (l1 ++ (a, r1) :: (a, r2) :: l2)) s2 s3 s4 = eri_block K s1 s2 s3 s4.
Proof.
  intros Hp Hr Hl.
  apply eri_block_congr; auto using same_frame_set_prims, same_frame_refl, sum_equiv_refl.
  - now apply (nseg_split s1 l1 l2 a r r1 r2).
  - intros m. rewrite prims_set_prims, Hp. now apply sum_equiv_split.
Qed.
Theorem eri_prim_split_2 s1 s2 s3 s4 l1 l2 a r r1 r2 :
  prims s2 = l1 ++ (a, r) :: l2 -> r = map2 (fadd K) r1 r2 -> length r1 = length r2 ->
  eri_block K s1 (set_prims s2 (l1 ++ (a, r1) :: (a, r2) :: l2)) s3 s4 = eri_block K s1 s2 s3 s4.
Proof.
  intros Hp Hr Hl.
  apply eri_block_congr; auto using same_frame_set_prims, same_frame_refl, sum_equiv_refl.
  - now apply (nseg_split s2 l1 l2 a r r1 r2).
  - intros m. rewrite prims_set_prims, Hp. now apply sum_equiv_split.
Qed.
Theorem eri_prim_split_3 s1 s2 s3 s4 l1 l2 a r r1 r2 :
  prims s3 = l1 ++ (a, r) :: l2 -> r = map2 (fadd K) r1 r2 -> length r1 = length r2 ->
  eri_block K s1 s2 (set_prims s3 (l1 ++ (a, r1) :: (a, r2) :: l2)) s4 = eri_block K s1 s2 s3 s4.
Proof.
  intros Hp Hr Hl.
  apply eri_block_congr; auto using same_frame_set_prims, same_frame_refl, sum_equiv_refl.
  - now apply (nseg_split s3 l1 l2 a r r1 r2).
  - intros m. rewrite prims_set_prims, Hp. now apply sum_equiv_split.
Qed.
Theorem eri_prim_split_4 s1 s2 s3 s4 l1 l2 a r r1 r2 :
  prims s4 = l1 ++ (a, r) :: l2 -> r = map2 (fadd K) r1 r2 -> length r1 = length r2 ->
  eri_block K s1 s2 s3 (set_prims s4 (l1 ++ (a, r1) :: (a, r2) :: l2)) = eri_block K s1 s2 s3 s4.
Proof.
  intros Hp Hr Hl.
  apply eri_block_congr; auto using same_frame_set_prims, same_frame_refl, sum_equiv_refl.
  - now apply (nseg_split s4 l1 l2 a r r1 r2).
  - intros m. rewrite prims_set_prims, Hp. now apply sum_equiv_split.
Qed.

(* 1. generalized = segmented: the block of the four single-column shells is the (m1, m2, m3, m4) slice *)
Definition nth8 (m1 i1 m2 i2 m3 i3 m4 i4 : nat) (b : list (list (list (list (list (list (list (list F)))))))) : F :=
  nth i4 (nth m4 (nth i3 (nth m3 (nth i2 (nth m2 (nth i1 (nth m1 b []) []) []) []) []) []) []) 0.

Theorem eri_generalized_is_segmented s1 s2 s3 s4 m1 m2 m3 m4 :
  m1 < nseg s1 -> m2 < nseg s2 -> m3 < nseg s3 -> m4 < nseg s4 ->
  eri_block K (col_shell s1 m1) (col_shell s2 m2) (col_shell s3 m3) (col_shell s4 m4)
  = mk 1 (fun _ => mk (ncomp s1) (fun i1 => mk 1 (fun _ => mk (ncomp s2) (fun i2 =>
      mk 1 (fun _ => mk (ncomp s3) (fun i3 => mk 1 (fun _ => mk (ncomp s4) (fun i4 =>
        nth8 m1 i1 m2 i2 m3 i3 m4 i4 (eri_block K s1 s2 s3 s4))))))))).
Proof.
  intros H1 H2 H3 H4. rewrite !eri_block_form.
  rewrite (nseg_col_shell s1 m1 H1), (nseg_col_shell s2 m2 H2), (nseg_col_shell s3 m3 H3), (nseg_col_shell s4 m4 H4).
  change (eri_block_gen 1 1 1 1 ?c (col_shell s1 m1) (col_shell s2 m2) (col_shell s3 m3) (col_shell s4 m4))
    with (eri_block_gen 1 1 1 1 c s1 s2 s3 s4).
  unfold eri_block_gen. cbv zeta. unfold ncomp.
  apply mk_ext. intros a Ha. apply mk_ext. intros i1 Hi1. apply mk_ext. intros b Hb. apply mk_ext. intros i2 Hi2.
  apply mk_ext. intros c Hc. apply mk_ext. intros i3 Hi3. apply mk_ext. intros d Hd. apply mk_ext. intros i4 Hi4.
  assert (a = 0%nat) by lia. assert (b = 0%nat) by lia. assert (c = 0%nat) by lia. assert (d = 0%nat) by lia.
  subst a b c d. unfold nth8.
  rewrite (nth_mk (nseg s1) _ _ m1) by exact H1. rewrite (nth_mk _ _ _ i1) by exact Hi1.
  rewrite (nth_mk (nseg s2) _ _ m2) by exact H2. rewrite (nth_mk _ _ _ i2) by exact Hi2.
  rewrite (nth_mk (nseg s3) _ _ m3) by exact H3. rewrite (nth_mk _ _ _ i3) by exact Hi3.
  rewrite (nth_mk (nseg s4) _ _ m4) by exact H4. rewrite (nth_mk _ _ _ i4) by exact Hi4.
  unfold eri_chans_gen. cbv zeta.
  rewrite (nth_mk (nseg s1) _ _ m1) by exact H1. rewrite (nth_mk (nseg s2) _ _ m2) by exact H2.
  rewrite (nth_mk (nseg s3) _ _ m3) by exact H3. rewrite (nth_mk (nseg s4) _ _ m4) by exact H4.
  rewrite !mk1. cbn [nth].
  rewrite (eri_channel_ext _ _ _ _ _ _ _ _ _ _ _ _
             (eri_ctr (col_shell s1 m1) (col_shell s2 m2) (col_shell s3 m3) (col_shell s4 m4)
                (prims (col_shell s1 m1)) (prims (col_shell s2 m2)) (prims (col_shell s3 m3))
                (prims (col_shell s4 m4)) 0 0 0 0)
             (eri_ctr s1 s2 s3 s4 (prims s1) (prims s2) (prims s3) (prims s4) m1 m2 m3 m4)); [reflexivity|].
  intros. unfold eri_ctr.
  change (eri_E (col_shell s1 m1) (col_shell s2 m2) (col_shell s3 m3) (col_shell s4 m4)) with (eri_E s1 s2 s3 s4).
  change (s_l (col_shell ?s ?m)) with (s_l s).
  apply qsum_congr; apply sum_equiv_col.
Qed.


(* one-sided general form of the column-scale law: factor k/|k| on function m0 of shell a *)
Theorem nblock_scale_col_a g sa sb m0 k kabs :
  (forall x, fapx K x = x) -> scale_hyps sa m0 k kabs ->
  nblock g (scale_col sa m0 k) sb
  = mk4 (nseg sa) (ncomp sa) (nseg sb) (ncomp sb)
      (fun ma ia mb ib => colfac m0 (k / kabs) ma * nth4' ma ia mb ib (nblock g sa sb)).
Proof.
  intros Hapx Ha. rewrite !nblock_form, !nseg_scale_col.
  change (ncomp (scale_col sa m0 k)) with (ncomp sa).
  apply mk4_ext. intros ma ia mb ib Hma Hia Hmb Hib. rewrite nth4_mk4 by assumption.
  unfold nentry. rewrite kentry_scale_col_a.
  rewrite (ncget_scale_col sa m0 k kabs ma ia Hapx Ha Hma Hia).
  destruct Ha as [Ha _]. unfold colfac. destruct (Nat.eqb ma m0); field; auto.
Qed.

Theorem nblock_scale_col_b g sa sb m0 k kabs :
  (forall x, fapx K x = x) -> scale_hyps sb m0 k kabs ->
  nblock g sa (scale_col sb m0 k)
  = mk4 (nseg sa) (ncomp sa) (nseg sb) (ncomp sb)
      (fun ma ia mb ib => colfac m0 (k / kabs) mb * nth4' ma ia mb ib (nblock g sa sb)).
Proof.
  intros Hapx Hb. rewrite !nblock_form, !nseg_scale_col.
  change (ncomp (scale_col sb m0 k)) with (ncomp sb).
  apply mk4_ext. intros ma ia mb ib Hma Hia Hmb Hib. rewrite nth4_mk4 by assumption.
  unfold nentry. rewrite kentry_scale_col_b.
  rewrite (ncget_scale_col sb m0 k kabs mb ib Hapx Hb Hmb Hib).
  destruct Hb as [Hb _]. unfold colfac. destruct (Nat.eqb mb m0); field; auto.
Qed.

(* evaluation: value of the contraction-normalised function (m, c) at a point *)
Definition eval_nentry md ef o (s : shell F) (p : point (F:=F)) (m c : nat) : F :=
  ncget (norm_cont K s) m c * eval_entry md ef o s p m c.

Theorem eval_column_scale md ef o s m0 k kabs p m c :
  (forall x, fapx K x = x) -> scale_hyps s m0 k kabs -> m < nseg s -> c < ncomp s ->
  eval_nentry md ef o (scale_col s m0 k) p m c = colfac m0 (k / kabs) m * eval_nentry md ef o s p m c.
Proof.
  intros Hapx H Hm Hc. unfold eval_nentry. rewrite eval_scale_col_unnormalised.
  rewrite (ncget_scale_col s m0 k kabs m c Hapx H Hm Hc).
  destruct H as [H _]. unfold colfac. destruct (Nat.eqb m m0); field; auto.
Qed.


(* ------------------------------------------------------------------ *)
(* linearity of the horizontal recursion: un-normalised linearity for the Boys-type kernels,
   where the contraction happens BEFORE the horizontal transfer *)
(* ------------------------------------------------------------------ *)
Definition clin (c1 c2 : F) (t t1 t2 : cube (F:=F)) : Prop :=
  forall x y z, cget K t x y z = c1 * cget K t1 x y z + c2 * cget K t2 x y z.

Lemma cget_nil x y z : cget K [] x y z = 0.
Proof. unfold cget. now destruct x, y, z. Qed.

Lemma cget_mk3 n f x y z :
  cget K (mk n (fun x => mk n (fun y => mk n (fun z => f x y z)))) x y z
  = if (x <? n) && (y <? n) && (z <? n) then f x y z else 0.
Proof.
  unfold cget. destruct (Nat.ltb_spec x n) as [Hx|Hx]; cbn [andb].
  - rewrite nth_mk by exact Hx. destruct (Nat.ltb_spec y n) as [Hy|Hy]; cbn [andb].
    + rewrite nth_mk by exact Hy. destruct (Nat.ltb_spec z n) as [Hz|Hz].
      * now rewrite nth_mk by exact Hz.
      * apply nth_overflow. now rewrite mk_length.
    + rewrite (nth_overflow (mk n (fun y0 => mk n (fun z0 => f x y0 z0))) []) by (now rewrite mk_length).
      now destruct z.
  - rewrite (nth_overflow (mk n (fun x0 => mk n (fun y0 => mk n (fun z0 => f x0 y0 z0)))) [])
      by (now rewrite mk_length). now destruct y, z.
Qed.

Lemma clin_nil c1 c2 : clin c1 c2 [] [] [].
Proof. intros x y z. rewrite cget_nil. ring. Qed.

Lemma hstep_lin L axis ab c1 c2 t t1 t2 : clin c1 c2 t t1 t2 ->
  clin c1 c2 (hstep K L axis ab t) (hstep K L axis ab t1) (hstep K L axis ab t2).
Proof.
  intros H x y z. unfold hstep. rewrite !cget_mk3.
  destruct ((x <? S L) && (y <? S L) && (z <? S L)); [|ring].
  destruct axis as [|[|a]].
  - destruct (Nat.eqb x L); [ring|]. rewrite !H. ring.
  - destruct (Nat.eqb y L); [ring|]. rewrite !H. ring.
  - destruct (Nat.eqb z L); [ring|]. rewrite !H. ring.
Qed.

Lemma hiter_length L axis ab n t : length (hiter K L axis ab n t) = S n.
Proof. revert t. induction n as [|n IH]; intros t; cbn [hiter length]; [reflexivity|]. now rewrite IH. Qed.

Lemma hiter_lin L axis ab c1 c2 n : forall t t1 t2 k, clin c1 c2 t t1 t2 ->
  clin c1 c2 (nth k (hiter K L axis ab n t) []) (nth k (hiter K L axis ab n t1) []) (nth k (hiter K L axis ab n t2) []).
Proof.
  induction n as [|n IH]; intros t t1 t2 k H; cbn [hiter].
  - destruct k as [|k]; cbn [nth]; [exact H|]. destruct k; apply clin_nil.
  - destruct k as [|k]; cbn [nth]; [exact H|]. apply IH. now apply hstep_lin.
Qed.

Lemma nth_map_len {A B} (f : A -> list B) (l : list A) i (d : A) :
  nth i (map f l) [] = if i <? length l then f (nth i l d) else [].
Proof.
  destruct (Nat.ltb_spec i (length l)) as [Hi|Hi].
  - rewrite (nth_indep _ [] (f d)) by (now rewrite map_length). apply map_nth.
  - apply nth_overflow. now rewrite map_length.
Qed.

Lemma hrr_lin L lb abx aby abz c1 c2 t t1 t2 bx by_ bz : clin c1 c2 t t1 t2 ->
  clin c1 c2 (nth bz (nth by_ (nth bx (hrr K L lb abx aby abz t) []) []) [])
             (nth bz (nth by_ (nth bx (hrr K L lb abx aby abz t1) []) []) [])
             (nth bz (nth by_ (nth bx (hrr K L lb abx aby abz t2) []) []) []).
Proof.
  intros H. unfold hrr. rewrite !(nth_map_len _ _ bx ([] : cube (F:=F))), !hiter_length.
  destruct (bx <? S lb); [|destruct by_, bz; apply clin_nil].
  rewrite !(nth_map_len _ _ by_ ([] : cube (F:=F))), !hiter_length.
  destruct (by_ <? S lb); [|destruct bz; apply clin_nil].
  apply hiter_lin. apply hiter_lin. now apply hiter_lin.
Qed.

(* entries of the generalised one-electron model are linear in the contracted cube *)
Lemma one_elec_point_gen_lin Ma Mb ctr ctr1 ctr2 c1 c2 sa sb ma ia mb ib :
  (forall x y z, ctr ma mb x y z = c1 * ctr1 ma mb x y z + c2 * ctr2 ma mb x y z) ->
  ma < Ma -> ia < ncomp sa -> mb < Mb -> ib < ncomp sb ->
  nth4' ma ia mb ib (one_elec_point_gen Ma Mb ctr sa sb)
  = c1 * nth4' ma ia mb ib (one_elec_point_gen Ma Mb ctr1 sa sb)
    + c2 * nth4' ma ia mb ib (one_elec_point_gen Ma Mb ctr2 sa sb).
Proof.
  intros H Hma Hia Hmb Hib. unfold nth4', one_elec_point_gen. cbv zeta.
  rewrite !(nth_mk Ma _ _ ma) by exact Hma.
  assert (La : length (combine (comps_of sa) (map (inv_sqrt_df K) (comps_of sa))) = ncomp sa)
    by (rewrite combine_length, map_length; apply Nat.min_id).
  assert (Lb : length (combine (comps_of sb) (map (inv_sqrt_df K) (comps_of sb))) = ncomp sb)
    by (rewrite combine_length, map_length; apply Nat.min_id).
  rewrite !(nth_map_len _ _ ia ((0, 0, 0)%nat, 0)).
  repeat match goal with |- context [ia <? ?n] =>
    replace (ia <? n) with true
      by (symmetry; apply Nat.ltb_lt; rewrite combine_length, map_length, Nat.min_id; exact Hia) end.
  match goal with |- context [@nth ?T ia ?l ?d] => destruct (@nth T ia l d) as [[[ax ay] az] fa] end.
  rewrite !(nth_mk Mb _ _ mb) by exact Hmb.
  repeat match goal with |- context [nth ib (@map ?A ?B ?g ?l) 0] =>
    rewrite (nth_indep (@map A B g l) 0 (g ((0, 0, 0)%nat, 0)))
      by (rewrite map_length, combine_length, map_length, Nat.min_id; exact Hib);
    rewrite (@map_nth A B g l ((0, 0, 0)%nat, 0) ib) end.
  match goal with |- context [@nth ?T ib ?l ?d] => destruct (@nth T ib l d) as [[[bx by_] bz] fb] end.
  rewrite (hrr_lin (s_l sa + s_l sb) (s_l sb) _ _ _ c1 c2 _
             (mk (S (s_l sa + s_l sb)) (fun x => mk (S (s_l sa + s_l sb)) (fun y => mk (S (s_l sa + s_l sb)) (fun z => ctr1 ma mb x y z))))
             (mk (S (s_l sa + s_l sb)) (fun x => mk (S (s_l sa + s_l sb)) (fun y => mk (S (s_l sa + s_l sb)) (fun z => ctr2 ma mb x y z))))
             bx by_ bz).
  - ring.
  - intros x y z. rewrite !cget_mk3. destruct ((x <? _) && (y <? _) && (z <? _)); [apply H|ring].
Qed.

Section OELin.
Variables Cx Cy Cz : F.
Notation OE := (one_elec_point K Cx Cy Cz).

(* 4. un-normalised linearity of the one-electron (point-charge) kernel, both shells *)
Theorem oe_unnormalised_additive_a sa sb C1 C2 ma ia mb ib : same_shape C1 C2 ->
  ma < nseg (set_coeffs sa C1) -> ia < ncomp sa -> mb < nseg sb -> ib < ncomp sb ->
  nth4' ma ia mb ib (OE (set_coeffs sa (rows_add C1 C2)) sb)
  = nth4' ma ia mb ib (OE (set_coeffs sa C1) sb) + nth4' ma ia mb ib (OE (set_coeffs sa C2) sb).
Proof.
  intros HS Hma Hia Hmb Hib. destruct (nseg_rows_add sa C1 C2 HS) as [N1 N2].
  rewrite !one_elec_point_form, N1, N2, !prims_set_coeffs.
  change (one_elec_point_gen ?a ?b ?c (set_coeffs sa ?C) sb) with (one_elec_point_gen a b c sa sb).
  change (oe_ctr Cx Cy Cz (set_coeffs sa ?C) sb) with (oe_ctr Cx Cy Cz sa sb).
  change (s_exps (set_coeffs sa ?C)) with (s_exps sa).
  rewrite (one_elec_point_gen_lin _ _ _
             (oe_ctr Cx Cy Cz sa sb (combine (s_exps sa) C1) (prims sb))
             (oe_ctr Cx Cy Cz sa sb (combine (s_exps sa) C2) (prims sb)) 1 1 sa sb ma ia mb ib); try assumption.
  - ring.
  - intros. unfold oe_ctr. rewrite (dsum_add_a _ _ _ _ _ _ _ _ _ HS). ring.
Qed.

Theorem oe_unnormalised_homogeneous_a sa sb k C ma ia mb ib :
  ma < nseg (set_coeffs sa C) -> ia < ncomp sa -> mb < nseg sb -> ib < ncomp sb ->
  nth4' ma ia mb ib (OE (set_coeffs sa (rows_scale k C)) sb) = k * nth4' ma ia mb ib (OE (set_coeffs sa C) sb).
Proof.
  intros Hma Hia Hmb Hib.
  rewrite !one_elec_point_form, nseg_rows_scale, !prims_set_coeffs.
  change (one_elec_point_gen ?a ?b ?c (set_coeffs sa ?C) sb) with (one_elec_point_gen a b c sa sb).
  change (oe_ctr Cx Cy Cz (set_coeffs sa ?C) sb) with (oe_ctr Cx Cy Cz sa sb).
  change (s_exps (set_coeffs sa ?C)) with (s_exps sa).
  rewrite (one_elec_point_gen_lin _ _ _
             (oe_ctr Cx Cy Cz sa sb (combine (s_exps sa) C) (prims sb))
             (oe_ctr Cx Cy Cz sa sb (combine (s_exps sa) C) (prims sb)) k 0 sa sb ma ia mb ib); try assumption.
  - ring.
  - intros. unfold oe_ctr. rewrite dsum_scale_a. ring.
Qed.

Theorem oe_unnormalised_additive_b sa sb C1 C2 ma ia mb ib : same_shape C1 C2 ->
  ma < nseg sa -> ia < ncomp sa -> mb < nseg (set_coeffs sb C1) -> ib < ncomp sb ->
  nth4' ma ia mb ib (OE sa (set_coeffs sb (rows_add C1 C2)))
  = nth4' ma ia mb ib (OE sa (set_coeffs sb C1)) + nth4' ma ia mb ib (OE sa (set_coeffs sb C2)).
Proof.
  intros HS Hma Hia Hmb Hib. destruct (nseg_rows_add sb C1 C2 HS) as [N1 N2].
  rewrite !one_elec_point_form, N1, N2, !prims_set_coeffs.
  change (one_elec_point_gen ?a ?b ?c sa (set_coeffs sb ?C)) with (one_elec_point_gen a b c sa sb).
  change (oe_ctr Cx Cy Cz sa (set_coeffs sb ?C)) with (oe_ctr Cx Cy Cz sa sb).
  change (s_exps (set_coeffs sb ?C)) with (s_exps sb).
  rewrite (one_elec_point_gen_lin _ _ _
             (oe_ctr Cx Cy Cz sa sb (prims sa) (combine (s_exps sb) C1))
             (oe_ctr Cx Cy Cz sa sb (prims sa) (combine (s_exps sb) C2)) 1 1 sa sb ma ia mb ib); try assumption.
  - ring.
  - intros. unfold oe_ctr. rewrite (dsum_add_b _ _ _ _ _ _ _ _ _ HS). ring.
Qed.

Theorem oe_unnormalised_homogeneous_b sa sb k C ma ia mb ib :
  ma < nseg sa -> ia < ncomp sa -> mb < nseg (set_coeffs sb C) -> ib < ncomp sb ->
  nth4' ma ia mb ib (OE sa (set_coeffs sb (rows_scale k C))) = k * nth4' ma ia mb ib (OE sa (set_coeffs sb C)).
Proof.
  intros Hma Hia Hmb Hib.
  rewrite !one_elec_point_form, nseg_rows_scale, !prims_set_coeffs.
  change (one_elec_point_gen ?a ?b ?c sa (set_coeffs sb ?C)) with (one_elec_point_gen a b c sa sb).
  change (oe_ctr Cx Cy Cz sa (set_coeffs sb ?C)) with (oe_ctr Cx Cy Cz sa sb).
  change (s_exps (set_coeffs sb ?C)) with (s_exps sb).
  rewrite (one_elec_point_gen_lin _ _ _
             (oe_ctr Cx Cy Cz sa sb (prims sa) (combine (s_exps sb) C))
             (oe_ctr Cx Cy Cz sa sb (prims sa) (combine (s_exps sb) C)) k 0 sa sb ma ia mb ib); try assumption.
  - ring.
  - intros. unfold oe_ctr. rewrite dsum_scale_b. ring.
Qed.
End OELin.


(* ---- electron repulsion: linearity through both horizontal recursions ---- *)
Lemma eri_channel_lin La Lc lb ld abx aby abz cdx cdy cdz comps3 comps4 getc getc1 getc2 c1 c2 i3 i4 bx by_ bz :
  (forall cx cy cz ax ay az, getc cx cy cz ax ay az = c1 * getc1 cx cy cz ax ay az + c2 * getc2 cx cy cz ax ay az) ->
  clin c1 c2
    (nth bz (nth by_ (nth bx (nth i4 (nth i3 (eri_channel K La Lc lb ld abx aby abz cdx cdy cdz comps3 comps4 getc) []) []) []) []) [])
    (nth bz (nth by_ (nth bx (nth i4 (nth i3 (eri_channel K La Lc lb ld abx aby abz cdx cdy cdz comps3 comps4 getc1) []) []) []) []) [])
    (nth bz (nth by_ (nth bx (nth i4 (nth i3 (eri_channel K La Lc lb ld abx aby abz cdx cdy cdz comps3 comps4 getc2) []) []) []) []) []).
Proof.
  intros H. unfold eri_channel. cbv zeta.
  rewrite !(nth_map_len _ _ i3 (0, 0, 0)%nat). match goal with |- context [i3 <? ?n] => destruct (i3 <? n) end; [|destruct i4, bx, by_, bz; apply clin_nil].
  rewrite !(nth_map_len _ _ i4 (0, 0, 0)%nat). match goal with |- context [i4 <? ?n] => destruct (i4 <? n) end; [|destruct bx, by_, bz; apply clin_nil].
  apply hrr_lin. intros ax ay az. rewrite !cget_mk3.
  destruct (Nat.ltb_spec ax (S La)) as [Hax|]; cbn [andb]; [|ring].
  destruct (Nat.ltb_spec ay (S La)) as [Hay|]; cbn [andb]; [|ring].
  destruct (Nat.ltb_spec az (S La)) as [Haz|]; [|ring].
  rewrite !(nth_mk (S La) _ _ ax) by exact Hax. rewrite !(nth_mk (S La) _ _ ay) by exact Hay.
  rewrite !(nth_mk (S La) _ _ az) by exact Haz.
  apply hrr_lin. intros cx cy cz. rewrite !cget_mk3.
  destruct ((cx <? S Lc) && (cy <? S Lc) && (cz <? S Lc)); [apply H|ring].
Qed.

Lemma eri_block_gen_lin M1 M2 M3 M4 ctr ctr1 ctr2 c1 c2 s1 s2 s3 s4 m1 i1 m2 i2 m3 i3 m4 i4 :
  (forall cx cy cz ax ay az,
     ctr m1 m2 m3 m4 cx cy cz ax ay az
     = c1 * ctr1 m1 m2 m3 m4 cx cy cz ax ay az + c2 * ctr2 m1 m2 m3 m4 cx cy cz ax ay az) ->
  m1 < M1 -> i1 < ncomp s1 -> m2 < M2 -> i2 < ncomp s2 -> m3 < M3 -> i3 < ncomp s3 -> m4 < M4 -> i4 < ncomp s4 ->
  nth8 m1 i1 m2 i2 m3 i3 m4 i4 (eri_block_gen M1 M2 M3 M4 ctr s1 s2 s3 s4)
  = c1 * nth8 m1 i1 m2 i2 m3 i3 m4 i4 (eri_block_gen M1 M2 M3 M4 ctr1 s1 s2 s3 s4)
    + c2 * nth8 m1 i1 m2 i2 m3 i3 m4 i4 (eri_block_gen M1 M2 M3 M4 ctr2 s1 s2 s3 s4).
Proof.
  intros H H1 Hi1 H2 Hi2 H3 Hi3 H4 Hi4. unfold nth8, eri_block_gen. cbv zeta. unfold ncomp in *.
  rewrite !(nth_mk M1 _ _ m1) by exact H1. rewrite !(nth_mk _ _ _ i1) by exact Hi1.
  rewrite !(nth_mk M2 _ _ m2) by exact H2. rewrite !(nth_mk _ _ _ i2) by exact Hi2.
  rewrite !(nth_mk M3 _ _ m3) by exact H3. rewrite !(nth_mk _ _ _ i3) by exact Hi3.
  rewrite !(nth_mk M4 _ _ m4) by exact H4. rewrite !(nth_mk _ _ _ i4) by exact Hi4.
  unfold eri_chans_gen. cbv zeta.
  rewrite !(nth_mk M1 _ _ m1) by exact H1. rewrite !(nth_mk M2 _ _ m2) by exact H2.
  rewrite !(nth_mk M3 _ _ m3) by exact H3. rewrite !(nth_mk M4 _ _ m4) by exact H4.
  rewrite (eri_channel_lin _ _ _ _ _ _ _ _ _ _ _ _ (ctr m1 m2 m3 m4) (ctr1 m1 m2 m3 m4) (ctr2 m1 m2 m3 m4) c1 c2
             i3 i4 _ _ _ H).
  ring.
Qed.

(* a coefficient matrix whose contraction sums for column m are c1 x (sums of C1) + c2 x (sums of C2) *)
Definition sum_lin (m : nat) (c1 c2 : F) (p p1 p2 : list (@prim F)) : Prop :=
  forall f, ssum f p m = c1 * ssum f p1 m + c2 * ssum f p2 m.

Lemma sum_lin_add m es C1 C2 : same_shape C1 C2 ->
  sum_lin m 1 1 (combine es (rows_add C1 C2)) (combine es C1) (combine es C2).
Proof. intros H f. rewrite (ssum_add _ _ _ _ _ H). ring. Qed.
Lemma sum_lin_scale m es k C : sum_lin m k 0 (combine es (rows_scale k C)) (combine es C) (combine es C).
Proof. intros f. rewrite ssum_scale. ring. Qed.
Lemma sum_lin_scale_col m es m0 k C :
  sum_lin m (colfac m0 k m) 0 (combine es (scale_col_rows m0 k C)) (combine es C) (combine es C).
Proof. intros f. rewrite ssum_scale_col. ring. Qed.

Lemma ssum_flin c1 c2 f f1 f2 p m : (forall a, f a = c1 * f1 a + c2 * f2 a) ->
  ssum f p m = c1 * ssum f1 p m + c2 * ssum f2 p m.
Proof.
  intros H. unfold ssum. rewrite <- !fsum_map_scale, <- fsum_map_add. apply fsum_map_ext. intros q. rewrite H. ring.
Qed.

Section QL.
Variables (E : F -> F -> F -> F -> F) (N1 N2 N3 N4 : F -> F) (c1 c2 : F).
Notation Q := (qsum E N1 N2 N3 N4).
Lemma qsum_lin_1 p p' p'' p2 p3 p4 m1 m2 m3 m4 : sum_lin m1 c1 c2 p p' p'' ->
  Q p p2 p3 p4 m1 m2 m3 m4 = c1 * Q p' p2 p3 p4 m1 m2 m3 m4 + c2 * Q p'' p2 p3 p4 m1 m2 m3 m4.
Proof. intros H. unfold qsum. apply H. Qed.
Lemma qsum_lin_2 p1 p p' p'' p3 p4 m1 m2 m3 m4 : sum_lin m2 c1 c2 p p' p'' ->
  Q p1 p p3 p4 m1 m2 m3 m4 = c1 * Q p1 p' p3 p4 m1 m2 m3 m4 + c2 * Q p1 p'' p3 p4 m1 m2 m3 m4.
Proof. intros H. unfold qsum. apply ssum_flin. intros a. rewrite H. ring. Qed.
Lemma qsum_lin_3 p1 p2 p p' p'' p4 m1 m2 m3 m4 : sum_lin m3 c1 c2 p p' p'' ->
  Q p1 p2 p p4 m1 m2 m3 m4 = c1 * Q p1 p2 p' p4 m1 m2 m3 m4 + c2 * Q p1 p2 p'' p4 m1 m2 m3 m4.
Proof.
  intros H. unfold qsum. apply ssum_flin. intros a.
  rewrite (ssum_flin c1 c2 _ (fun b => ssum (fun c => ssum (fun d => E a b c d * N4 d) p4 m4 * N3 c) p' m3 * N2 b)
             (fun b => ssum (fun c => ssum (fun d => E a b c d * N4 d) p4 m4 * N3 c) p'' m3 * N2 b)).
  - ring.
  - intros b. rewrite H. ring.
Qed.
Lemma qsum_lin_4 p1 p2 p3 p p' p'' m1 m2 m3 m4 : sum_lin m4 c1 c2 p p' p'' ->
  Q p1 p2 p3 p m1 m2 m3 m4 = c1 * Q p1 p2 p3 p' m1 m2 m3 m4 + c2 * Q p1 p2 p3 p'' m1 m2 m3 m4.
Proof.
  intros H. unfold qsum. apply ssum_flin. intros a.
  rewrite (ssum_flin c1 c2 _
             (fun b => ssum (fun c => ssum (fun d => E a b c d * N4 d) p' m4 * N3 c) p3 m3 * N2 b)
             (fun b => ssum (fun c => ssum (fun d => E a b c d * N4 d) p'' m4 * N3 c) p3 m3 * N2 b)).
  - ring.
  - intros b.
    rewrite (ssum_flin c1 c2 _ (fun c => ssum (fun d => E a b c d * N4 d) p' m4 * N3 c)
               (fun c => ssum (fun d => E a b c d * N4 d) p'' m4 * N3 c)).
    + ring.
    + intros c. rewrite H. ring.
Qed.
End QL.

(* 4. un-normalised linearity of the electron-repulsion block in the coefficient matrix of each of the four
      shells: C with contraction sums c1 x C1 + c2 x C2 (C1 + C2: c1 = c2 = 1; k C1: c1 = k, c2 = 0) *)
Section ERILin.
Variables (s1 s2 s3 s4 : shell F) (C C1 C2 : list (list F)) (c1 c2 : F).
Variables (m1 i1 m2 i2 m3 i3 m4 i4 : nat).
Hypothesis Hi1 : i1 < ncomp s1. Hypothesis Hi2 : i2 < ncomp s2.
Hypothesis Hi3 : i3 < ncomp s3. Hypothesis Hi4 : i4 < ncomp s4.
Notation N8 := (nth8 m1 i1 m2 i2 m3 i3 m4 i4).

Theorem eri_block_lin_1 :
  sum_lin m1 c1 c2 (combine (s_exps s1) C) (combine (s_exps s1) C1) (combine (s_exps s1) C2) ->
  nseg (set_coeffs s1 C1) = nseg (set_coeffs s1 C) -> nseg (set_coeffs s1 C2) = nseg (set_coeffs s1 C) ->
  m1 < nseg (set_coeffs s1 C) -> m2 < nseg s2 -> m3 < nseg s3 -> m4 < nseg s4 ->
  N8 (eri_block K (set_coeffs s1 C) s2 s3 s4)
  = c1 * N8 (eri_block K (set_coeffs s1 C1) s2 s3 s4) + c2 * N8 (eri_block K (set_coeffs s1 C2) s2 s3 s4).
Proof.
  intros HL NA NB H1 H2 H3 H4. rewrite !eri_block_form, NA, NB, !prims_set_coeffs.
  change (eri_block_gen ?a ?b ?c ?d ?e (set_coeffs s1 ?X) s2 s3 s4) with (eri_block_gen a b c d e s1 s2 s3 s4).
  change (eri_ctr (set_coeffs s1 ?X) s2 s3 s4) with (eri_ctr s1 s2 s3 s4).
  change (s_exps (set_coeffs s1 ?X)) with (s_exps s1).
  apply eri_block_gen_lin; try assumption. intros. unfold eri_ctr. now apply qsum_lin_1.
Qed.

Theorem eri_block_lin_2 :
  sum_lin m2 c1 c2 (combine (s_exps s2) C) (combine (s_exps s2) C1) (combine (s_exps s2) C2) ->
  nseg (set_coeffs s2 C1) = nseg (set_coeffs s2 C) -> nseg (set_coeffs s2 C2) = nseg (set_coeffs s2 C) ->
  m1 < nseg s1 -> m2 < nseg (set_coeffs s2 C) -> m3 < nseg s3 -> m4 < nseg s4 ->
  N8 (eri_block K s1 (set_coeffs s2 C) s3 s4)
  = c1 * N8 (eri_block K s1 (set_coeffs s2 C1) s3 s4) + c2 * N8 (eri_block K s1 (set_coeffs s2 C2) s3 s4).
Proof.
  intros HL NA NB H1 H2 H3 H4. rewrite !eri_block_form, NA, NB, !prims_set_coeffs.
  change (eri_block_gen ?a ?b ?c ?d ?e s1 (set_coeffs s2 ?X) s3 s4) with (eri_block_gen a b c d e s1 s2 s3 s4).
  change (eri_ctr s1 (set_coeffs s2 ?X) s3 s4) with (eri_ctr s1 s2 s3 s4).
  change (s_exps (set_coeffs s2 ?X)) with (s_exps s2).
  apply eri_block_gen_lin; try assumption. intros. unfold eri_ctr. now apply qsum_lin_2.
Qed.

Theorem eri_block_lin_3 :
  sum_lin m3 c1 c2 (combine (s_exps s3) C) (combine (s_exps s3) C1) (combine (s_exps s3) C2) ->
  nseg (set_coeffs s3 C1) = nseg (set_coeffs s3 C) -> nseg (set_coeffs s3 C2) = nseg (set_coeffs s3 C) ->
  m1 < nseg s1 -> m2 < nseg s2 -> m3 < nseg (set_coeffs s3 C) -> m4 < nseg s4 ->
  N8 (eri_block K s1 s2 (set_coeffs s3 C) s4)
  = c1 * N8 (eri_block K s1 s2 (set_coeffs s3 C1) s4) + c2 * N8 (eri_block K s1 s2 (set_coeffs s3 C2) s4).
Proof.
  intros HL NA NB H1 H2 H3 H4. rewrite !eri_block_form, NA, NB, !prims_set_coeffs.
  change (eri_block_gen ?a ?b ?c ?d ?e s1 s2 (set_coeffs s3 ?X) s4) with (eri_block_gen a b c d e s1 s2 s3 s4).
  change (eri_ctr s1 s2 (set_coeffs s3 ?X) s4) with (eri_ctr s1 s2 s3 s4).
  change (s_exps (set_coeffs s3 ?X)) with (s_exps s3).
  apply eri_block_gen_lin; try assumption. intros. unfold eri_ctr. now apply qsum_lin_3.
Qed.

Theorem eri_block_lin_4 :
  sum_lin m4 c1 c2 (combine (s_exps s4) C) (combine (s_exps s4) C1) (combine (s_exps s4) C2) ->
  nseg (set_coeffs s4 C1) = nseg (set_coeffs s4 C) -> nseg (set_coeffs s4 C2) = nseg (set_coeffs s4 C) ->
  m1 < nseg s1 -> m2 < nseg s2 -> m3 < nseg s3 -> m4 < nseg (set_coeffs s4 C) ->
  N8 (eri_block K s1 s2 s3 (set_coeffs s4 C))
  = c1 * N8 (eri_block K s1 s2 s3 (set_coeffs s4 C1)) + c2 * N8 (eri_block K s1 s2 s3 (set_coeffs s4 C2)).
Proof.
  intros HL NA NB H1 H2 H3 H4. rewrite !eri_block_form, NA, NB, !prims_set_coeffs.
  change (eri_block_gen ?a ?b ?c ?d ?e s1 s2 s3 (set_coeffs s4 ?X)) with (eri_block_gen a b c d e s1 s2 s3 s4).
  change (eri_ctr s1 s2 s3 (set_coeffs s4 ?X)) with (eri_ctr s1 s2 s3 s4).
  change (s_exps (set_coeffs s4 ?X)) with (s_exps s4).
  apply eri_block_gen_lin; try assumption. intros. unfold eri_ctr. now apply qsum_lin_4.
Qed.
End ERILin.


(* PointChargeIntegral block entries are -q x (possibly transposed) one-electron entries: its linearity
   and column-scale laws are those of [one_elec_point] *)
Lemma pc_block_entry points sa sb ma ia mb ib :
  ma < nseg sa -> ia < ncomp sa -> mb < nseg sb -> ib < ncomp sb ->
  nth ib (nth mb (nth ia (nth ma (point_charge_block K points sa sb) []) []) []) []
  = map (fun '(cx, cy, cz, q) =>
           (- q) * (if s_l sa <? s_l sb then nth4' mb ib ma ia (one_elec_point K cx cy cz sb sa)
                    else nth4' ma ia mb ib (one_elec_point K cx cy cz sa sb))) points.
Proof.
  intros Hma Hia Hmb Hib. unfold point_charge_block, ncomp in *. cbv zeta.
  rewrite nth_mk by exact Hma. rewrite nth_mk by exact Hia. rewrite nth_mk by exact Hmb.
  rewrite nth_mk by exact Hib. rewrite map_map. apply map_ext. intros [[[cx cy] cz] q].
  destruct (s_l sa <? s_l sb); reflexivity.
Qed.

(* 5a for the one-electron kernel *)
Theorem oe_scale_col_unnormalised_a Cx Cy Cz sa sb m0 k ma ia mb ib :
  ma < nseg sa -> ia < ncomp sa -> mb < nseg sb -> ib < ncomp sb ->
  nth4' ma ia mb ib (one_elec_point K Cx Cy Cz (scale_col sa m0 k) sb)
  = colfac m0 k ma * nth4' ma ia mb ib (one_elec_point K Cx Cy Cz sa sb).
Proof.
  intros Hma Hia Hmb Hib. rewrite !one_elec_point_form, nseg_scale_col. unfold scale_col at 2. rewrite prims_set_coeffs.
  change (one_elec_point_gen ?a ?b ?c (scale_col sa m0 k) sb) with (one_elec_point_gen a b c sa sb).
  change (oe_ctr Cx Cy Cz (scale_col sa m0 k) sb) with (oe_ctr Cx Cy Cz sa sb).
  change (s_exps (set_coeffs sa ?C)) with (s_exps sa).
  rewrite (one_elec_point_gen_lin _ _ _ (oe_ctr Cx Cy Cz sa sb (prims sa) (prims sb))
             (oe_ctr Cx Cy Cz sa sb (prims sa) (prims sb)) (colfac m0 k ma) 0 sa sb ma ia mb ib); try assumption.
  - ring.
  - intros. unfold oe_ctr, dsum. unfold ssum at 1 3 5. rewrite <- !fsum_map_scale, <- fsum_map_add.
    apply fsum_map_ext. intros q. rewrite ssum_scale_col. fold (prims sa). ring.
Qed.

Theorem oe_scale_col_unnormalised_b Cx Cy Cz sa sb m0 k ma ia mb ib :
  ma < nseg sa -> ia < ncomp sa -> mb < nseg sb -> ib < ncomp sb ->
  nth4' ma ia mb ib (one_elec_point K Cx Cy Cz sa (scale_col sb m0 k))
  = colfac m0 k mb * nth4' ma ia mb ib (one_elec_point K Cx Cy Cz sa sb).
Proof.
  intros Hma Hia Hmb Hib. rewrite !one_elec_point_form, nseg_scale_col. unfold scale_col at 2. rewrite prims_set_coeffs.
  change (one_elec_point_gen ?a ?b ?c sa (scale_col sb m0 k)) with (one_elec_point_gen a b c sa sb).
  change (oe_ctr Cx Cy Cz sa (scale_col sb m0 k)) with (oe_ctr Cx Cy Cz sa sb).
  change (s_exps (set_coeffs sb ?C)) with (s_exps sb).
  rewrite (one_elec_point_gen_lin _ _ _ (oe_ctr Cx Cy Cz sa sb (prims sa) (prims sb))
             (oe_ctr Cx Cy Cz sa sb (prims sa) (prims sb)) (colfac m0 k mb) 0 sa sb ma ia mb ib); try assumption.
  - ring.
  - intros. unfold oe_ctr, dsum. rewrite ssum_scale_col. fold (prims sb). ring.
Qed.

(* 5 for the one-electron kernel: contraction-normalised entries *)
Definition oe_nentry Cx Cy Cz (sa sb : shell F) (ma ia mb ib : nat) : F :=
  (ncget (norm_cont K sa) ma ia * ncget (norm_cont K sb) mb ib) * nth4' ma ia mb ib (one_elec_point K Cx Cy Cz sa sb).

Theorem oe_column_scale_a Cx Cy Cz sa sb m0 k kabs ma ia mb ib :
  (forall x, fapx K x = x) -> scale_hyps sa m0 k kabs ->
  ma < nseg sa -> ia < ncomp sa -> mb < nseg sb -> ib < ncomp sb ->
  oe_nentry Cx Cy Cz (scale_col sa m0 k) sb ma ia mb ib = colfac m0 (k / kabs) ma * oe_nentry Cx Cy Cz sa sb ma ia mb ib.
Proof.
  intros Hapx H Hma Hia Hmb Hib. unfold oe_nentry. rewrite oe_scale_col_unnormalised_a by assumption.
  rewrite (ncget_scale_col sa m0 k kabs ma ia Hapx H Hma Hia).
  destruct H as [H _]. unfold colfac. destruct (Nat.eqb ma m0); field; auto.
Qed.

Theorem oe_column_scale_b Cx Cy Cz sa sb m0 k kabs ma ia mb ib :
  (forall x, fapx K x = x) -> scale_hyps sb m0 k kabs ->
  ma < nseg sa -> ia < ncomp sa -> mb < nseg sb -> ib < ncomp sb ->
  oe_nentry Cx Cy Cz sa (scale_col sb m0 k) ma ia mb ib = colfac m0 (k / kabs) mb * oe_nentry Cx Cy Cz sa sb ma ia mb ib.
Proof.
  intros Hapx H Hma Hia Hmb Hib. unfold oe_nentry. rewrite oe_scale_col_unnormalised_b by assumption.
  rewrite (ncget_scale_col sb m0 k kabs mb ib Hapx H Hmb Hib).
  destruct H as [H _]. unfold colfac. destruct (Nat.eqb mb m0); field; auto.
Qed.

(* 5 for the electron-repulsion block: contraction-normalised entries, a column of any one shell scaled *)
Definition eri_nentry (s1 s2 s3 s4 : shell F) (m1 i1 m2 i2 m3 i3 m4 i4 : nat) : F :=
  (ncget (norm_cont K s1) m1 i1 * ncget (norm_cont K s2) m2 i2 * ncget (norm_cont K s3) m3 i3
   * ncget (norm_cont K s4) m4 i4) * nth8 m1 i1 m2 i2 m3 i3 m4 i4 (eri_block K s1 s2 s3 s4).

Section ERIScale.
Variables (s1 s2 s3 s4 : shell F) (m0 : nat) (k kabs : F) (m1 i1 m2 i2 m3 i3 m4 i4 : nat).
Hypothesis Hapx : forall x, fapx K x = x.
Hypothesis H1 : m1 < nseg s1. Hypothesis Hi1 : i1 < ncomp s1.
Hypothesis H2 : m2 < nseg s2. Hypothesis Hi2 : i2 < ncomp s2.
Hypothesis H3 : m3 < nseg s3. Hypothesis Hi3 : i3 < ncomp s3.
Hypothesis H4 : m4 < nseg s4. Hypothesis Hi4 : i4 < ncomp s4.

Theorem eri_column_scale_1 : scale_hyps s1 m0 k kabs ->
  eri_nentry (scale_col s1 m0 k) s2 s3 s4 m1 i1 m2 i2 m3 i3 m4 i4
  = colfac m0 (k / kabs) m1 * eri_nentry s1 s2 s3 s4 m1 i1 m2 i2 m3 i3 m4 i4.
Proof.
  intros H. unfold eri_nentry, scale_col at 2.
  rewrite (eri_block_lin_1 s1 s2 s3 s4 _ (s_coeffs s1) (s_coeffs s1) (colfac m0 k m1) 0 m1 i1 m2 i2 m3 i3 m4 i4
             Hi1 Hi2 Hi3 Hi4 (sum_lin_scale_col m1 (s_exps s1) m0 k (s_coeffs s1)));
    try (rewrite ?(nseg_scale_col s1 m0 k : nseg (set_coeffs s1 (scale_col_rows m0 k (s_coeffs s1))) = nseg s1);
         solve [assumption | now destruct s1]).
  replace (set_coeffs s1 (s_coeffs s1)) with s1 by (now destruct s1).
  rewrite (ncget_scale_col s1 m0 k kabs m1 i1 Hapx H H1 Hi1).
  destruct H as [H _]. unfold colfac. destruct (Nat.eqb m1 m0); field; auto.
Qed.

Theorem eri_column_scale_2 : scale_hyps s2 m0 k kabs ->
  eri_nentry s1 (scale_col s2 m0 k) s3 s4 m1 i1 m2 i2 m3 i3 m4 i4
  = colfac m0 (k / kabs) m2 * eri_nentry s1 s2 s3 s4 m1 i1 m2 i2 m3 i3 m4 i4.
Proof.
  intros H. unfold eri_nentry, scale_col at 2.
  rewrite (eri_block_lin_2 s1 s2 s3 s4 _ (s_coeffs s2) (s_coeffs s2) (colfac m0 k m2) 0 m1 i1 m2 i2 m3 i3 m4 i4
             Hi1 Hi2 Hi3 Hi4 (sum_lin_scale_col m2 (s_exps s2) m0 k (s_coeffs s2)));
    try (rewrite ?(nseg_scale_col s2 m0 k : nseg (set_coeffs s2 (scale_col_rows m0 k (s_coeffs s2))) = nseg s2);
         solve [assumption | now destruct s2]).
  replace (set_coeffs s2 (s_coeffs s2)) with s2 by (now destruct s2).
  rewrite (ncget_scale_col s2 m0 k kabs m2 i2 Hapx H H2 Hi2).
  destruct H as [H _]. unfold colfac. destruct (Nat.eqb m2 m0); field; auto.
Qed.

Theorem eri_column_scale_3 : scale_hyps s3 m0 k kabs ->
  eri_nentry s1 s2 (scale_col s3 m0 k) s4 m1 i1 m2 i2 m3 i3 m4 i4
  = colfac m0 (k / kabs) m3 * eri_nentry s1 s2 s3 s4 m1 i1 m2 i2 m3 i3 m4 i4.
Proof.
  intros H. unfold eri_nentry, scale_col at 2.
  rewrite (eri_block_lin_3 s1 s2 s3 s4 _ (s_coeffs s3) (s_coeffs s3) (colfac m0 k m3) 0 m1 i1 m2 i2 m3 i3 m4 i4
             Hi1 Hi2 Hi3 Hi4 (sum_lin_scale_col m3 (s_exps s3) m0 k (s_coeffs s3)));
    try (rewrite ?(nseg_scale_col s3 m0 k : nseg (set_coeffs s3 (scale_col_rows m0 k (s_coeffs s3))) = nseg s3);
         solve [assumption | now destruct s3]).
  replace (set_coeffs s3 (s_coeffs s3)) with s3 by (now destruct s3).
  rewrite (ncget_scale_col s3 m0 k kabs m3 i3 Hapx H H3 Hi3).
  destruct H as [H _]. unfold colfac. destruct (Nat.eqb m3 m0); field; auto.
Qed.

Theorem eri_column_scale_4 : scale_hyps s4 m0 k kabs ->
  eri_nentry s1 s2 s3 (scale_col s4 m0 k) m1 i1 m2 i2 m3 i3 m4 i4
  = colfac m0 (k / kabs) m4 * eri_nentry s1 s2 s3 s4 m1 i1 m2 i2 m3 i3 m4 i4.
Proof.
  intros H. unfold eri_nentry, scale_col at 2.
  rewrite (eri_block_lin_4 s1 s2 s3 s4 _ (s_coeffs s4) (s_coeffs s4) (colfac m0 k m4) 0 m1 i1 m2 i2 m3 i3 m4 i4
             Hi1 Hi2 Hi3 Hi4 (sum_lin_scale_col m4 (s_exps s4) m0 k (s_coeffs s4)));
    try (rewrite ?(nseg_scale_col s4 m0 k : nseg (set_coeffs s4 (scale_col_rows m0 k (s_coeffs s4))) = nseg s4);
         solve [assumption | now destruct s4]).
  replace (set_coeffs s4 (s_coeffs s4)) with s4 by (now destruct s4).
  rewrite (ncget_scale_col s4 m0 k kabs m4 i4 Hapx H H4 Hi4).
  destruct H as [H _]. unfold colfac. destruct (Nat.eqb m4 m0); field; auto.
Qed.
End ERIScale.


(* ------------------------------------------------------------------ *)
(* two-index assembly (base_two_symm / base_two_asymm), Cartesian shells: the processed block of two
   generalized shells is the matrix of the processed blocks of their single-column shells, tiles in
   segment-major order on both sides (row (ma, ia), inside the row the tiles mb = 0, 1, ..) *)
(* ------------------------------------------------------------------ *)
Lemma flatten_block_mk4 M1 L1 M2 L2 (f : nat -> nat -> nat -> nat -> F) :
  flatten_block (mk4 M1 L1 M2 L2 f)
  = concat (mk M1 (fun m1 => mk L1 (fun c1 => concat (mk M2 (fun m2 => mk L2 (fun c2 => f m1 c1 m2 c2)))))).
Proof.
  unfold flatten_block, mk4. rewrite flat_map_concat_map, map_mk'. f_equal. apply mk_ext. intros m1 _.
  now rewrite map_mk'.
Qed.

Lemma ncget_col_shell s m c : m < nseg s -> ncget (norm_cont K (col_shell s m)) 0 c = ncget (norm_cont K s) m c.
Proof. intros Hm. unfold ncget. now rewrite (norm_cont_col_shell s m Hm). Qed.

Lemma nentry_col g sa sb ma ia mb ib : ma < nseg sa -> mb < nseg sb ->
  nentry g (col_shell sa ma) (col_shell sb mb) 0 ia 0 ib = nentry g sa sb ma ia mb ib.
Proof.
  intros Hma Hmb. unfold nentry. rewrite (ncget_col_shell sa ma ia Hma), (ncget_col_shell sb mb ib Hmb).
  now rewrite kentry_col.
Qed.

Section TwoIndexCart.
(* a kernel that reads only the frames of the two shells (overlap, moments, differential operators, ...) *)
Variable G : shell F -> shell F -> F -> F -> comp -> comp -> F.
Definition kblockf (s1 s2 : shell F) : list (list (list (list F))) := kblock (G s1 s2) s1 s2.

Lemma pblock_cart_form sa sb : s_sph sa = false -> s_sph sb = false ->
  pblock K 0 (fadd K) (fmul K) kblockf (prep K sa) (prep K sb)
  = flatten_block (nblock (G sa sb) sa sb).
Proof.
  intros Ha Hb. unfold pblock, prep, shell_block, kblockf. cbn [p_shell p_norm p_T]. cbv zeta.
  rewrite Ha, Hb. reflexivity.
Qed.

Theorem pblock_segment_major_cart sa sb :
  s_sph sa = false -> s_sph sb = false ->
  (forall ma mb, G (col_shell sa ma) (col_shell sb mb) = G sa sb) ->
  pblock K 0 (fadd K) (fmul K) kblockf (prep K sa) (prep K sb)
  = concat (mk (nseg sa) (fun ma => mk (ncomp sa) (fun ia => concat (mk (nseg sb) (fun mb =>
      nth ia (pblock K 0 (fadd K) (fmul K) kblockf (prep K (col_shell sa ma)) (prep K (col_shell sb mb))) []))))).
Proof.
  intros Ha Hb HG. rewrite (pblock_cart_form sa sb Ha Hb), nblock_form, flatten_block_mk4.
  f_equal. apply mk_ext. intros ma Hma. apply mk_ext. intros ia Hia. f_equal. apply mk_ext. intros mb Hmb.
  rewrite (pblock_cart_form (col_shell sa ma) (col_shell sb mb) Ha Hb), HG, nblock_form, flatten_block_mk4.
  rewrite (nseg_col_shell sa ma Hma), (nseg_col_shell sb mb Hmb), !mk1.
  change (ncomp (col_shell sa ma)) with (ncomp sa). change (ncomp (col_shell sb mb)) with (ncomp sb).
  cbn [concat]. rewrite app_nil_r. rewrite nth_mk by exact Hia. rewrite mk1. cbn [concat]. rewrite app_nil_r.
  apply mk_ext. intros ib Hib. symmetry. now apply nentry_col.
Qed.
End TwoIndexCart.

(* ---- the same statement for any coordinate types (spherical transform on either side) ---- *)
(* sum_c t_c h(c) over the common length of a transform row and the component axis *)
Definition tl_sum (trow : list F) (L : nat) (h : nat -> F) : F :=
  fsum (map (fun tc : F * nat => fst tc * h (snd tc)) (combine trow (seq 0 L))).

Lemma tl_sum_ext trow L h h' : (forall c, h c = h' c) -> tl_sum trow L h = tl_sum trow L h'.
Proof. intros H. unfold tl_sum. apply fsum_map_ext. intros tc. now rewrite H. Qed.

Lemma map_as_mk {A B} (g : A -> B) (l : list A) d : map g l = mk (length l) (fun i => g (nth i l d)).
Proof.
  apply (nth_ext _ _ (g d) (g d)); [now rewrite map_length, mk_length|].
  intros n Hn. rewrite map_length in Hn. rewrite nth_mk by exact Hn. apply map_nth.
Qed.

Lemma combine_mk_r {A} (trow : list F) L (h : nat -> A) :
  combine trow (mk L h) = map (fun tc : F * nat => (fst tc, h (snd tc))) (combine trow (seq 0 L)).
Proof.
  unfold mk. generalize (seq 0 L). intros l. revert trow. induction l as [|c l IH]; intros [|t trow]; cbn; try reflexivity.
  now rewrite IH.
Qed.

Lemma apply_rows_mk T L (h : nat -> F) :
  apply_rows 0 (fadd K) (fmul K) T (mk L h) = mk (length T) (fun j => tl_sum (nth j T []) L h).
Proof.
  unfold apply_rows. rewrite (map_as_mk _ T []). apply mk_ext. intros j _.
  unfold asum, tl_sum. rewrite combine_mk_r, map_map. reflexivity.
Qed.

Lemma transform_right_mk4 T M1 L1 M2 L2 f :
  transform_right 0 (fadd K) (fmul K) T (mk4 M1 L1 M2 L2 f)
  = mk4 M1 L1 M2 (length T) (fun m1 c1 m2 j => tl_sum (nth j T []) L2 (fun c2 => f m1 c1 m2 c2)).
Proof.
  unfold transform_right, mk4. rewrite map_mk'. apply mk_ext. intros m1 _. rewrite map_mk'. apply mk_ext. intros c1 _.
  rewrite map_mk'. apply mk_ext. intros m2 _. apply apply_rows_mk.
Qed.

Lemma slab_fold_mk trow cs M2 L2 (g : nat -> nat -> nat -> F) :
  fold_right (slab_add (fadd K)) (mk M2 (fun _ => mk L2 (fun _ => 0)))
    (map (fun '(t, sl) => slab_scale (fmul K) t sl)
         (combine trow (map (fun c1 => mk M2 (fun m2 => mk L2 (fun c2 => g c1 m2 c2))) cs)))
  = mk M2 (fun m2 => mk L2 (fun c2 => fsum (map (fun tc : F * nat => fst tc * g (snd tc) m2 c2) (combine trow cs)))).
Proof.
  revert trow. induction cs as [|c cs IH]; intros [|t trow]; cbn [map combine fold_right]; try reflexivity.
  rewrite IH. unfold slab_add, slab_scale. rewrite map_mk', combine_mk, map_mk'. apply mk_ext. intros m2 _.
  rewrite map_mk', combine_mk, map_mk'. apply mk_ext. intros c2 _. reflexivity.
Qed.

Lemma transform_left_mk4 T M1 L1 M2 L2 f : 0 < L1 ->
  transform_left 0 (fadd K) (fmul K) T (mk4 M1 L1 M2 L2 f)
  = mk4 M1 (length T) M2 L2 (fun m1 i m2 c2 => tl_sum (nth i T []) L1 (fun c1 => f m1 c1 m2 c2)).
Proof.
  intros HL. unfold transform_left, mk4. rewrite map_mk'. apply mk_ext. intros m1 _.
  rewrite (map_as_mk _ T []). apply mk_ext. intros i _.
  assert (Z : slab_zero 0 (hd [] (mk L1 (fun b => mk M2 (fun c => mk L2 (fun d => f m1 b c d)))))
              = mk M2 (fun _ => mk L2 (fun _ => 0))).
  { destruct L1 as [|L1']; [lia|]. unfold mk at 1. cbn [seq map hd]. unfold slab_zero. rewrite map_mk'.
    apply mk_ext. intros m2 _. now rewrite map_mk'. }
  rewrite Z. unfold mk at 3. rewrite (slab_fold_mk (nth i T []) (seq 0 L1) M2 L2 (fun c1 m2 c2 => f m1 c1 m2 c2)).
  reflexivity.
Qed.

(* what steps 1-2 of the assembly make of the (m1, ., m2, .) slab of a block *)
Definition proc (sph1 sph2 : bool) (T1 T2 : list (list F)) (L1 L2 : nat)
           (f : nat -> nat -> nat -> nat -> F) (m1 i m2 j : nat) : F :=
  let g := fun c2 => if sph1 then tl_sum (nth i T1 []) L1 (fun c1 => f m1 c1 m2 c2) else f m1 i m2 c2 in
  if sph2 then tl_sum (nth j T2 []) L2 g else g j.

Lemma transforms_mk4 (sph1 sph2 : bool) T1 T2 M1 L1 M2 L2 f : (0 < L1)%nat ->
  (let b0 := if sph1 then transform_left 0 (fadd K) (fmul K) T1 (mk4 M1 L1 M2 L2 f) else mk4 M1 L1 M2 L2 f in
   if sph2 then transform_right 0 (fadd K) (fmul K) T2 b0 else b0)
  = mk4 M1 (if sph1 then length T1 else L1) M2 (if sph2 then length T2 else L2) (proc sph1 sph2 T1 T2 L1 L2 f).
Proof.
  intros HL. cbv zeta. unfold proc. destruct sph1, sph2; rewrite ?transform_left_mk4 by exact HL;
    rewrite ?transform_right_mk4; reflexivity.
Qed.

Section TwoIndexAny.
Variable G : shell F -> shell F -> F -> F -> comp -> comp -> F.

Lemma ncomp_pos (s : shell F) : 0 < ncomp s.
Proof.
  unfold ncomp, comps_of. destruct (s_comps s) as [|c cs]; [|cbn; lia].
  unfold default_comps. cbn [seq flat_map]. rewrite app_length. cbn [seq map length]. lia.
Qed.

Lemma pblock_form sa sb : 0 < ncomp sa ->
  pblock K 0 (fadd K) (fmul K) (kblockf G) (prep K sa) (prep K sb)
  = flatten_block (mk4 (nseg sa) (if s_sph sa then length (shell_transform K sa) else ncomp sa)
                       (nseg sb) (if s_sph sb then length (shell_transform K sb) else ncomp sb)
                       (proc (s_sph sa) (s_sph sb) (shell_transform K sa) (shell_transform K sb) (ncomp sa) (ncomp sb)
                             (nentry (G sa sb) sa sb))).
Proof.
  intros HL. unfold pblock, prep, shell_block, kblockf. cbn [p_shell p_norm p_T]. cbv zeta.
  change (normalise K (fmul K) (norm_cont K sa) (norm_cont K sb) (kblock (G sa sb) sa sb)) with (nblock (G sa sb) sa sb).
  rewrite nblock_form. f_equal.
  exact (transforms_mk4 (s_sph sa) (s_sph sb) (shell_transform K sa) (shell_transform K sb)
           (nseg sa) (ncomp sa) (nseg sb) (ncomp sb) (nentry (G sa sb) sa sb) HL).
Qed.

(* generalized = segmented, assembled for one pair of shells of ANY coordinate types: the processed block is the
   matrix of the processed blocks (tiles) of the single-column shells, segment-major on both sides *)
Theorem pblock_segment_major sa sb :
  (forall ma mb, G (col_shell sa ma) (col_shell sb mb) = G sa sb) ->
  pblock K 0 (fadd K) (fmul K) (kblockf G) (prep K sa) (prep K sb)
  = concat (mk (nseg sa) (fun ma =>
      mk (if s_sph sa then length (shell_transform K sa) else ncomp sa) (fun i =>
        concat (mk (nseg sb) (fun mb =>
          nth i (pblock K 0 (fadd K) (fmul K) (kblockf G) (prep K (col_shell sa ma)) (prep K (col_shell sb mb))) []))))).
Proof.
  intros HG. pose proof (ncomp_pos sa) as HL. rewrite (pblock_form sa sb HL), flatten_block_mk4.
  f_equal. apply mk_ext. intros ma Hma. apply mk_ext. intros i Hi. f_equal. apply mk_ext. intros mb Hmb.
  rewrite (pblock_form (col_shell sa ma) (col_shell sb mb) HL), HG, flatten_block_mk4.
  rewrite (nseg_col_shell sa ma Hma), (nseg_col_shell sb mb Hmb), !mk1.
  change (ncomp (col_shell sa ma)) with (ncomp sa). change (ncomp (col_shell sb mb)) with (ncomp sb).
  change (s_sph (col_shell sa ma)) with (s_sph sa). change (s_sph (col_shell sb mb)) with (s_sph sb).
  change (shell_transform K (col_shell sa ma)) with (shell_transform K sa).
  change (shell_transform K (col_shell sb mb)) with (shell_transform K sb).
  cbn [concat]. rewrite app_nil_r. rewrite nth_mk by exact Hi. rewrite mk1. cbn [concat]. rewrite app_nil_r.
  apply mk_ext. intros j _. unfold proc.
  destruct (s_sph sa), (s_sph sb).
  - apply tl_sum_ext. intros c2. apply tl_sum_ext. intros c1. symmetry. now apply nentry_col.
  - apply tl_sum_ext. intros c1. symmetry. now apply nentry_col.
  - apply tl_sum_ext. intros c2. symmetry. now apply nentry_col.
  - symmetry. now apply nentry_col.
Qed.
End TwoIndexAny.

Theorem overlap_pblock_segment_major sa sb :
  pblock K 0 (fadd K) (fmul K) (overlap_block K) (prep K sa) (prep K sb)
  = concat (mk (nseg sa) (fun ma =>
      mk (if s_sph sa then length (shell_transform K sa) else ncomp sa) (fun i =>
        concat (mk (nseg sb) (fun mb =>
          nth i (pblock K 0 (fadd K) (fmul K) (overlap_block K) (prep K (col_shell sa ma)) (prep K (col_shell sb mb))) []))))).
Proof.
  assert (E : forall s1 s2, pblock K 0 (fadd K) (fmul K) (overlap_block K) (prep K s1) (prep K s2)
                          = pblock K 0 (fadd K) (fmul K) (kblockf ov_kern) (prep K s1) (prep K s2)).
  { intros s1 s2. unfold pblock, kblockf. cbn [prep p_shell]. now rewrite overlap_block_kernel. }
  rewrite E, (pblock_segment_major ov_kern sa sb (fun _ _ => eq_refl)).
  f_equal. apply mk_ext. intros ma _. apply mk_ext. intros i _. f_equal. apply mk_ext. intros mb _.
  now rewrite E.
Qed.

(* ---- public-function level, one generalized shell on each side: base_two_asymm of ([sa], [sb]) is
        base_two_asymm of (the single-column shells of sa, the single-column shells of sb), any coordinate
        types, with or without transforms ---- *)
Lemma hcat_rows (R : nat) (ms : list (list (list F))) : ms <> [] -> Forall (fun m => length m = R) ms ->
  hcat ms = mk R (fun i => concat (map (fun m => nth i m []) ms)).
Proof.
  induction ms as [|m ms IH]; intros Hne HR; [congruence|]. inversion HR as [|? ? Hm HR']; subst.
  destruct ms as [|m' rest].
  - cbn [hcat map concat]. rewrite <- (mk_nth_id m []) at 1. apply mk_ext. intros i _. now rewrite app_nil_r.
  - change (hcat (m :: m' :: rest)) with (map (fun '(r1, r2) => r1 ++ r2) (combine m (hcat (m' :: rest)))).
    rewrite IH by (congruence || assumption). rewrite <- (mk_nth_id m []) at 1.
    rewrite combine_mk, map_mk'. reflexivity.
Qed.

Section PairAsymm.
Variable G : shell F -> shell F -> F -> F -> comp -> comp -> F.
Notation PB := (pblock K 0 (fadd K) (fmul K) (kblockf G)).

Lemma tile_rows sa sb ma mb : ma < nseg sa -> mb < nseg sb ->
  length (PB (prep K (col_shell sa ma)) (prep K (col_shell sb mb)))
  = if s_sph sa then length (shell_transform K sa) else ncomp sa.
Proof.
  intros Hma Hmb. rewrite (pblock_form G (col_shell sa ma) (col_shell sb mb) (ncomp_pos _)), flatten_block_mk4.
  rewrite (nseg_col_shell sa ma Hma), mk1. cbn [concat]. rewrite app_nil_r. apply mk_length.
Qed.

Lemma nth_segments_prep s i : i < nseg s ->
  nth i (map (prep K) (segments s)) (dummy_p K) = prep K (col_shell s i).
Proof.
  intros Hi. unfold segments. rewrite map_map.
  rewrite (nth_indep _ (dummy_p K) ((fun m => prep K (col_shell s m)) 0%nat)) by (now rewrite map_length, seq_length).
  rewrite (map_nth (fun m => prep K (col_shell s m))). now rewrite seq_nth by exact Hi.
Qed.

Theorem two_asymm_pair_segmented sa sb T1 T2 : 0 < nseg sb ->
  (forall ma mb, G (col_shell sa ma) (col_shell sb mb) = G sa sb) ->
  two_asymm_integral K 0 (fadd K) (fmul K) (kblockf G) (segments sa) (segments sb) T1 T2
  = two_asymm_integral K 0 (fadd K) (fmul K) (kblockf G) [sa] [sb] T1 T2.
Proof.
  intros HM HG. unfold two_asymm_integral. cbv zeta.
  assert (E : two_asymm_blocks (length (map (prep K) (segments sa))) (length (map (prep K) (segments sb)))
                (fun i j => PB (nth i (map (prep K) (segments sa)) (dummy_p K)) (nth j (map (prep K) (segments sb)) (dummy_p K)))
              = two_asymm_blocks (length (map (prep K) [sa])) (length (map (prep K) [sb]))
                (fun i j => PB (nth i (map (prep K) [sa]) (dummy_p K)) (nth j (map (prep K) [sb]) (dummy_p K)))).
  { assert (LS : forall s, length (map (prep K) (segments s)) = nseg s)
      by (intros s; unfold segments; now rewrite !map_length, seq_length).
    rewrite !LS. cbn [map length].
    unfold two_asymm_blocks, vcat. rewrite !mk1. cbn [nth concat hcat]. rewrite app_nil_r.
    rewrite (pblock_segment_major G sa sb HG). f_equal. apply mk_ext. intros ma Hma.
    set (R := if s_sph sa then length (shell_transform K sa) else ncomp sa).
    rewrite (hcat_rows R).
    - apply mk_ext. intros i _. f_equal. rewrite map_mk'. apply mk_ext. intros mb Hmb.
      now rewrite (nth_segments_prep sa ma Hma), (nth_segments_prep sb mb Hmb).
    - destruct (nseg sb); [lia|]. unfold mk. cbn [seq map]. discriminate.
    - apply Forall_forall. intros m Hin. unfold mk in Hin. apply in_map_iff in Hin. destruct Hin as [mb [<- Hmb]].
      apply in_seq in Hmb. rewrite (nth_segments_prep sa ma Hma), (nth_segments_prep sb mb) by lia.
      apply tile_rows; lia. }
  now rewrite E.
Qed.
End PairAsymm.

(* overlap_integral_asymmetric([sa], [sb]) = overlap_integral_asymmetric(segments of sa, segments of sb) *)
Theorem overlap_asymm_pair_segmented sa sb T1 T2 : 0 < nseg sb ->
  overlap_integral_asymm K (segments sa) (segments sb) T1 T2 = overlap_integral_asymm K [sa] [sb] T1 T2.
Proof.
  intros HM. unfold overlap_integral_asymm.
  assert (E : forall b1 b2, two_asymm_integral K 0 (fadd K) (fmul K) (overlap_block K) b1 b2 T1 T2
                          = two_asymm_integral K 0 (fadd K) (fmul K) (kblockf ov_kern) b1 b2 T1 T2).
  { intros b1 b2. unfold two_asymm_integral. cbv zeta.
    assert (EB : two_asymm_blocks (length (map (prep K) b1)) (length (map (prep K) b2))
                   (fun i j => pblock K 0 (fadd K) (fmul K) (overlap_block K) (nth i (map (prep K) b1) (dummy_p K)) (nth j (map (prep K) b2) (dummy_p K)))
                 = two_asymm_blocks (length (map (prep K) b1)) (length (map (prep K) b2))
                   (fun i j => pblock K 0 (fadd K) (fmul K) (kblockf ov_kern) (nth i (map (prep K) b1) (dummy_p K)) (nth j (map (prep K) b2) (dummy_p K)))).
    { unfold two_asymm_blocks. f_equal. apply mk_ext. intros i _. f_equal. apply mk_ext. intros j _.
      unfold pblock, kblockf. now rewrite overlap_block_kernel. }
    now rewrite EB. }
  rewrite !E. now apply (two_asymm_pair_segmented ov_kern sa sb T1 T2 HM).
Qed.

(* overlap: Overlap.construct_array_contraction is such a frame kernel *)
Theorem overlap_pblock_segment_major_cart sa sb : s_sph sa = false -> s_sph sb = false ->
  pblock K 0 (fadd K) (fmul K) (overlap_block K) (prep K sa) (prep K sb)
  = concat (mk (nseg sa) (fun ma => mk (ncomp sa) (fun ia => concat (mk (nseg sb) (fun mb =>
      nth ia (pblock K 0 (fadd K) (fmul K) (overlap_block K) (prep K (col_shell sa ma)) (prep K (col_shell sb mb))) []))))).
Proof.
  intros Ha Hb.
  assert (E : forall s1 s2, pblock K 0 (fadd K) (fmul K) (overlap_block K) (prep K s1) (prep K s2)
                          = pblock K 0 (fadd K) (fmul K) (kblockf ov_kern) (prep K s1) (prep K s2)).
  { intros s1 s2. unfold pblock, kblockf. cbn [prep p_shell]. now rewrite overlap_block_kernel. }
  rewrite E, (pblock_segment_major_cart ov_kern sa sb Ha Hb (fun _ _ => eq_refl)).
  f_equal. apply mk_ext. intros ma _. apply mk_ext. intros ia _. f_equal. apply mk_ext. intros mb _.
  now rewrite E.
Qed.

End P.

(* ------------------------------------------------------------------ *)
(* concrete instances at Qc: the hypotheses of the theorems are satisfiable *)
(* ------------------------------------------------------------------ *)
From Coq Require Import QArith Qcanon.
Section ExQc.
Let q (n : Z) (d : positive) : Qc := Q2Qc (Qmake n d).
(* any closures may stand for the transcendental functions: the laws do not depend on them *)
Definition KQ : Fops Qc := QcK true (q 3 1) (fun _ => q 1 1) (fun x => x) (fun x => x) (fun _ x => x).
Lemma KQ_field : is_field KQ.
Proof. apply QcK_field. Qed.

Definition ex_r1 : list Qc := [q 1 1; q 1 1].
Definition ex_r2 : list Qc := [q (-5) 4; q 1 1].
(* a p shell with K = 3 primitives and M = 2 columns, off the origin; its second row is r1 + r2 *)
Definition ex_sa : shell Qc :=
  mkShell Qc 1 (q 0 1) (q 1 2) (q (-1) 1) [q 1 2; q 2 1; q 5 1]
          [[q 1 1; q 1 2]; map2 (fadd KQ) ex_r1 ex_r2; [q 3 1; q 0 1]] false [] [].
(* a d shell with K = 2, M = 1 *)
Definition ex_sb : shell Qc :=
  mkShell Qc 2 (q 1 1) (q 0 1) (q 1 4) [q 3 4; q 7 2] [[q 1 1]; [q (-1) 2]] true [] [].
Definition ex_orders : list comp := [(0, 0, 0); (1, 0, 2)]%nat.

Lemma ex_generalized_is_segmented :
  mm_block KQ (q 0 1) (q 1 1) (q 0 1) ex_orders (col_shell KQ ex_sa 1) (col_shell KQ ex_sb 0)
  = map (fun blk => mk4 1 3 1 6 (fun _ ia _ ib => nth4' KQ 1 ia 0 ib blk))
        (mm_block KQ (q 0 1) (q 1 1) (q 0 1) ex_orders ex_sa ex_sb).
Proof. apply mm_generalized_is_segmented; unfold nseg; cbn; lia. Qed.

Lemma ex_prim_perm :
  let ps := prims ex_sa in
  mm_block KQ (q 0 1) (q 1 1) (q 0 1) ex_orders
    (set_prims ex_sa [nth 2 ps (q 0 1, []); nth 0 ps (q 0 1, []); nth 1 ps (q 0 1, [])])
    (set_prims ex_sb [nth 1 (prims ex_sb) (q 0 1, []); nth 0 (prims ex_sb) (q 0 1, [])])
  = mm_block KQ (q 0 1) (q 1 1) (q 0 1) ex_orders ex_sa ex_sb.
Proof.
  cbv zeta. apply mm_prim_perm_invariant; try exact KQ_field; try reflexivity.
  - change (prims ex_sa) with ([nth 0 (prims ex_sa) (q 0 1, []); nth 1 (prims ex_sa) (q 0 1, [])] ++ [nth 2 (prims ex_sa) (q 0 1, [])]).
    apply (Permutation_app_comm _ [nth 2 (prims ex_sa) (q 0 1, [])]).
  - apply perm_swap.
Qed.

Lemma ex_prim_split :
  mm_block KQ (q 0 1) (q 1 1) (q 0 1) ex_orders
    (set_prims ex_sa ([(q 1 2, [q 1 1; q 1 2])] ++ (q 2 1, ex_r1) :: (q 2 1, ex_r2) :: [(q 5 1, [q 3 1; q 0 1])])) ex_sb
  = mm_block KQ (q 0 1) (q 1 1) (q 0 1) ex_orders ex_sa ex_sb.
Proof. apply mm_prim_split_a with (r := map2 (fadd KQ) ex_r1 ex_r2); try exact KQ_field; reflexivity. Qed.

Lemma ex_linear :
  let C1 := [[q 1 1; q 1 2]; [q 0 1; q 2 1]; [q 3 1; q 0 1]] in
  let C2 := [[q (-1) 3; q 1 1]; [q 4 1; q 1 7]; [q 1 1; q 1 1]] in
  mm_entry' KQ (q 0 1) (q 1 1) (q 0 1) ex_orders (set_coeffs ex_sa (rows_add KQ C1 C2)) ex_sb 1 1 2 0 4
  = fadd KQ (mm_entry' KQ (q 0 1) (q 1 1) (q 0 1) ex_orders (set_coeffs ex_sa C1) ex_sb 1 1 2 0 4)
            (mm_entry' KQ (q 0 1) (q 1 1) (q 0 1) ex_orders (set_coeffs ex_sa C2) ex_sb 1 1 2 0 4).
Proof.
  cbv zeta. apply mm_unnormalised_additive_a; try exact KQ_field; try (unfold nseg, ncomp; cbn; lia).
  repeat constructor.
Qed.

(* column 1 of the p shell multiplied by -1 (|k| = 1): function 1 changes sign *)
Lemma ex_scale_hyps : scale_hyps KQ ex_sa 1 (q (-1) 1) (q 1 1).
Proof.
  split; [exact (F_1_neq_0 KQ_field)|]. split.
  - intros _ c _. cbn [fsqrt KQ QcK]. apply Qc_is_canon. reflexivity.
  - intros _ c _. cbn [fsqrt KQ QcK]. exact (F_1_neq_0 KQ_field).
Qed.

Lemma ex_column_scale_neg :
  nblock KQ (ov_kern KQ ex_sa ex_sb) (scale_col KQ ex_sa 1 (q (-1) 1)) ex_sb
  = mk4 2 3 1 6 (fun ma ia mb ib =>
      fmul KQ (colfac KQ 1 (fdiv KQ (q (-1) 1) (q 1 1)) ma) (nth4' KQ ma ia mb ib (nblock KQ (ov_kern KQ ex_sa ex_sb) ex_sa ex_sb))).
Proof. apply nblock_scale_col_a; [exact KQ_field|reflexivity|exact ex_scale_hyps]. Qed.
End ExQc.

(* ------------------------------------------------------------------ *)
(* the reals: sqrt(k^2 x) = |k| sqrt x holds for the real square root, so a column factor k
   multiplies the contraction-normalised function by k/|k| = +1 (k > 0) or -1 (k < 0) *)
(* ------------------------------------------------------------------ *)
From Coq Require Import Reals Lra RealField.
Section ExR.
Local Open Scope R_scope.
Definition Rleb13 (x y : R) : bool := if Rle_dec x y then true else false.
Definition Reqb13 (x y : R) : bool := if Req_EM_T x y then true else false.
Definition RKc : Fops R :=
  mkFops R 0 1 Rplus Rmult Rminus Ropp Rdiv Rinv Rleb13 Reqb13 PI sqrt exp ln (fun _ _ => 0) (fun x => x).
Lemma RKc_field : is_field RKc.
Proof. exact Rfield. Qed.

Lemma sqrt_scale_R k x : sqrt (k * k * x) = Rabs k * sqrt x.
Proof.
  rewrite sqrt_mult_alt by (apply Rle_0_sqr). f_equal. exact (sqrt_Rsqr_abs k).
Qed.

Lemma scale_hyps_R (s : shell R) m0 k : k <> 0 ->
  ((m0 < nseg s)%nat -> forall c, (c < ncomp s)%nat -> 0 < selfov RKc s m0 c) ->
  scale_hyps RKc s m0 k (Rabs k).
Proof.
  intros Hk Hpos. split; [now apply Rabs_no_R0|]. split.
  - intros _ c _. exact (sqrt_scale_R k _).
  - intros Hm c Hc. pose proof (Hpos Hm c Hc) as H. apply sqrt_lt_R0 in H. cbn [fsqrt RKc f0]. lra.
Qed.

Definition sgnR (k : R) : R := if Rlt_dec 0 k then 1 else -1.

Theorem column_scale_R g (sa sb : shell R) m0 k : k <> 0 ->
  ((m0 < nseg sa)%nat -> forall c, (c < ncomp sa)%nat -> 0 < selfov RKc sa m0 c) ->
  nblock RKc g (scale_col RKc sa m0 k) sb
  = mk4 (nseg sa) (ncomp sa) (nseg sb) (ncomp sb)
      (fun ma ia mb ib => colfac RKc m0 (sgnR k) ma * nth4' RKc ma ia mb ib (nblock RKc g sa sb)).
Proof.
  intros Hk Hpos.
  rewrite (nblock_scale_col_a RKc RKc_field g sa sb m0 k (Rabs k) (fun x => eq_refl) (scale_hyps_R sa m0 k Hk Hpos)).
  apply mk4_ext. intros ma ia mb ib _ _ _ _. change (fmul RKc) with Rmult.
  assert (E : fdiv RKc k (Rabs k) = sgnR k); [|now rewrite E].
  unfold sgnR. cbn [fdiv RKc]. destruct (Rlt_dec 0 k) as [Hp|Hn].
  - rewrite Rabs_right by lra. field. lra.
  - rewrite Rabs_left by lra. field. lra.
Qed.

(* the hypotheses hold: a positive self-overlap, scale factor -3 *)
Lemma column_scale_R_ex :
  forall x : R, 0 < x -> sqrt ((-3) * (-3) * x) = 3 * sqrt x /\ sqrt x <> 0 /\ sgnR (-3) = -1 /\ sgnR (1 / 1000000) = 1.
Proof.
  intros x Hx. split; [|split; [|split]].
  - rewrite sqrt_scale_R. f_equal. rewrite Rabs_left; lra.
  - apply sqrt_lt_R0 in Hx. lra.
  - unfold sgnR. destruct (Rlt_dec 0 (-3)); lra.
  - unfold sgnR. destruct (Rlt_dec 0 (1 / 1000000)); lra.
Qed.
End ExR.
