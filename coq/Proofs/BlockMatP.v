(* Proofs/BlockMatP.v — index-level description of the block matrices built by the assembly
   models (Model/Assembly.v): entry (offset_i + a, offset_j + b) of
       vcat (mk n1 (fun i => hcat (mk n2 (fun j => B i j))))
   is entry (a, b) of block B i j; entries / shapes of [transpose], [flatten_block], [normalise].

   [offs w i] = w 0 + ... + w (i-1) is the offset of block i when block k has width [w k]. *)
From Coq Require Import List Arith Lia Bool.
From GB Require Import Base.Field Base.Tables Base.Blocks Model.Assembly Proofs.AssemblyP.
Import ListNotations.

Fixpoint offs (w : nat -> nat) (i : nat) : nat :=
  match i with O => 0 | S i' => offs w i' + w i' end.

Lemma offs_mono w i n : i < n -> offs w i + w i <= offs w n.
Proof.
  induction n as [|n IH]; intros H; [lia|]. cbn [offs].
  destruct (Nat.eq_dec i n) as [->|Hne]; [lia|]. specialize (IH ltac:(lia)). lia.
Qed.

Lemma offs_le w i n : i <= n -> offs w i <= offs w n.
Proof. induction n as [|n IH]; intros H.
  - replace i with 0 by lia. lia.
  - destruct (Nat.eq_dec i (S n)) as [->|Hne]; [lia|]. cbn [offs]. specialize (IH ltac:(lia)). lia.
Qed.

Lemma offs_ext w w' n : (forall k, k < n -> w k = w' k) -> offs w n = offs w' n.
Proof. induction n as [|n IH]; intros H; cbn [offs]; [reflexivity|]. rewrite IH, H by (intros; try apply H; lia). reflexivity. Qed.

Lemma offs_add w n k : offs w (n + k) = offs w n + offs (fun t => w (n + t)) k.
Proof. induction k as [|k IH]; cbn [offs]; [rewrite Nat.add_0_r; lia|].
  replace (n + S k) with (S (n + k)) by lia. cbn [offs]. rewrite IH. lia. Qed.

(* every position below the total is (offset of a block) + (position inside the block) *)
Lemma offs_decompose w n I : I < offs w n -> exists i a, i < n /\ a < w i /\ I = offs w i + a.
Proof.
  induction n as [|n IH]; cbn [offs]; intros H; [lia|].
  destruct (Nat.lt_ge_cases I (offs w n)) as [Hlt|Hge].
  - destruct (IH Hlt) as (i & a & Hi & Ha & E). exists i, a. repeat split; auto.
  - exists n, (I - offs w n). repeat split; lia.
Qed.

(* the decomposition is unique *)
Lemma offs_unique w i a j b : a < w i -> b < w j -> offs w i + a = offs w j + b -> i = j /\ a = b.
Proof.
  intros Ha Hb E. destruct (Nat.lt_trichotomy i j) as [H|[H|H]].
  - pose proof (offs_mono w i j H). lia.
  - subst j. split; [reflexivity|lia].
  - pose proof (offs_mono w j i H). lia.
Qed.

Lemma mk_snoc {A} n (f : nat -> A) : mk (S n) f = mk n f ++ [f n].
Proof. unfold mk. rewrite seq_S, map_app. reflexivity. Qed.

Lemma map_seq_shift {A} (f : nat -> A) n k : map f (seq n k) = map (fun t => f (n + t)) (seq 0 k).
Proof. induction k as [|k IH]; [reflexivity|]. rewrite !seq_S, !map_app, IH. reflexivity. Qed.

Lemma mk_app {A} n k (f : nat -> A) : mk (n + k) f = mk n f ++ mk k (fun t => f (n + t)).
Proof. unfold mk. rewrite seq_app, map_app. f_equal. cbn [plus]. apply map_seq_shift. Qed.

Lemma length_concat_mk {A} n (f : nat -> list A) w :
  (forall k, k < n -> length (f k) = w k) -> length (concat (mk n f)) = offs w n.
Proof.
  induction n as [|n IH]; intros H; [reflexivity|].
  rewrite mk_snoc, concat_app, app_length, IH by (intros; apply H; lia).
  cbn [concat offs]. rewrite app_nil_r, H by lia. reflexivity.
Qed.

Lemma nth_concat_mk {A} n (f : nat -> list A) w d i a :
  (forall k, k < n -> length (f k) = w k) -> i < n -> a < w i ->
  nth (offs w i + a) (concat (mk n f)) d = nth a (f i) d.
Proof.
  induction n as [|n IH]; intros H Hi Ha; [lia|].
  rewrite mk_snoc, concat_app. cbn [concat]. rewrite app_nil_r.
  assert (HL : length (concat (mk n f)) = offs w n) by (apply length_concat_mk; intros; apply H; lia).
  destruct (Nat.eq_dec i n) as [->|Hne].
  - rewrite app_nth2 by lia. rewrite HL. f_equal. lia.
  - assert (Hin : i < n) by lia. pose proof (offs_mono w i n Hin).
    rewrite app_nth1 by lia. apply IH; auto.
Qed.

Lemma nth_concat_const {A} (L : list (list A)) w d i a :
  Forall (fun r => length r = w) L -> i < length L -> a < w ->
  nth (i * w + a) (concat L) d = nth a (nth i L []) d.
Proof.
  intros HF. revert i. induction HF as [|r L Hr HF IH]; intros i Hi Ha; cbn [length] in Hi; [lia|].
  cbn [concat]. destruct i as [|i].
  - cbn [Nat.mul plus nth]. now rewrite app_nth1 by lia.
  - rewrite app_nth2 by (rewrite Hr; lia). cbn [nth]. rewrite <- IH by (assumption || lia).
    f_equal. rewrite Hr. lia.
Qed.

Lemma length_concat_const {A} (L : list (list A)) w :
  Forall (fun r => length r = w) L -> length (concat L) = length L * w.
Proof. induction 1 as [|r L Hr HF IH]; [reflexivity|]. cbn [concat length]. rewrite app_length, IH, Hr. lia. Qed.

Lemma Forall_nth_in {A} (Q : A -> Prop) (l : list A) d i : Forall Q l -> i < length l -> Q (nth i l d).
Proof. intros H Hi. rewrite Forall_forall in H. apply H. now apply nth_In. Qed.

(* ---- rows of a horizontal concatenation ---- *)
Lemma nth_hcat {B} (Ms : list (list (list B))) R a :
  Ms <> [] -> Forall (fun M => length M = R) Ms -> a < R ->
  nth a (hcat Ms) [] = concat (map (fun M => nth a M []) Ms).
Proof.
  intros Hne HF Ha. induction HF as [|M Ms HM HF IH]; [congruence|].
  destruct Ms as [|M' Ms'].
  - cbn [hcat map concat]. now rewrite app_nil_r.
  - rewrite hcat_cons by discriminate.
    rewrite (nth_map2 (@app B) M (hcat (M' :: Ms')) [] [] []).
    + rewrite IH by discriminate. reflexivity.
    + lia.
    + rewrite (hcat_length R) by (discriminate || assumption). exact Ha.
Qed.

Lemma mk_nonempty {A} n (f : nat -> A) : 0 < n -> mk n f <> [].
Proof. intros H. destruct n; [lia|]. unfold mk. cbn. discriminate. Qed.

(* ---- the block matrix ---- *)
Section BlockMat.
Context {B : Type}.
Variables (n1 n2 : nat) (Bf : nat -> nat -> list (list B)) (r c : nat -> nat).
Hypothesis Hshape : forall i j, i < n1 -> j < n2 ->
  length (Bf i j) = r i /\ Forall (fun row => length row = c j) (Bf i j).
Hypothesis Hn2 : 0 < n2.

Lemma blockrow_length i : i < n1 -> length (hcat (mk n2 (fun j => Bf i j))) = r i.
Proof.
  intros Hi. apply hcat_length; [now apply mk_nonempty|].
  apply Forall_mk. intros j Hj. now apply Hshape.
Qed.

Lemma blockrow_nth i a : i < n1 -> a < r i ->
  nth a (hcat (mk n2 (fun j => Bf i j))) [] = concat (mk n2 (fun j => nth a (Bf i j) [])).
Proof.
  intros Hi Ha. rewrite (nth_hcat _ (r i)); [| now apply mk_nonempty | | exact Ha].
  - now rewrite map_mk.
  - apply Forall_mk. intros j Hj. now apply Hshape.
Qed.

Lemma blockmat_length : length (two_asymm_blocks n1 n2 Bf) = offs r n1.
Proof. unfold two_asymm_blocks, vcat. apply length_concat_mk. intros; now apply blockrow_length. Qed.

Lemma blockmat_row i a : i < n1 -> a < r i ->
  nth (offs r i + a) (two_asymm_blocks n1 n2 Bf) [] = concat (mk n2 (fun j => nth a (Bf i j) [])).
Proof.
  intros Hi Ha. unfold two_asymm_blocks, vcat.
  rewrite (nth_concat_mk n1 _ r) by (auto using blockrow_length). now apply blockrow_nth.
Qed.

Lemma blockmat_row_length i a : i < n1 -> a < r i ->
  length (nth (offs r i + a) (two_asymm_blocks n1 n2 Bf) []) = offs c n2.
Proof.
  intros Hi Ha. rewrite blockmat_row by assumption. apply length_concat_mk.
  intros j Hj. destruct (Hshape i j Hi Hj) as [HL HF]. apply (Forall_nth_in _ _ [] a HF). lia.
Qed.

Theorem blockmat_entry d i j a b : i < n1 -> j < n2 -> a < r i -> b < c j ->
  nth (offs c j + b) (nth (offs r i + a) (two_asymm_blocks n1 n2 Bf) []) d = nth b (nth a (Bf i j) []) d.
Proof.
  intros Hi Hj Ha Hb. rewrite blockmat_row by assumption.
  apply (nth_concat_mk n2 (fun j => nth a (Bf i j) []) c); auto.
  intros k Hk. destruct (Hshape i k Hi Hk) as [HL HF]. apply (Forall_nth_in _ _ [] a HF). lia.
Qed.
End BlockMat.

(* two matrices with the same shape and the same entries are equal *)
Lemma matrix_ext {B} (d : B) (m m' : list (list B)) R C :
  length m = R -> length m' = R ->
  (forall a, a < R -> length (nth a m []) = C /\ length (nth a m' []) = C) ->
  (forall a b, a < R -> b < C -> nth b (nth a m []) d = nth b (nth a m' []) d) ->
  m = m'.
Proof.
  intros H1 H2 HC HE. apply (nth_ext _ _ [] []); [congruence|].
  intros a Ha. rewrite H1 in Ha. destruct (HC a Ha) as [C1 C2].
  apply (nth_ext _ _ d d); [congruence|]. intros b Hb. apply HE; lia.
Qed.

Lemma hd_length {B} (m : list (list B)) C :
  0 < length m -> Forall (fun row => length row = C) m -> length (hd [] m) = C.
Proof. intros HL HF. destruct m as [|r0 m']; [cbn in HL; lia|]. inversion HF as [|? ? Hr0 ?]. exact Hr0. Qed.

(* ---- transpose ---- *)
Section Transpose.
Context {B : Type} (d : B).

Lemma transpose_length (m : list (list B)) : length (transpose d m) = length (hd [] m).
Proof. unfold transpose. apply mk_length. Qed.

Lemma transpose_row_length (m : list (list B)) b : b < length (hd [] m) ->
  length (nth b (transpose d m) []) = length m.
Proof. intros Hb. unfold transpose. rewrite nth_mk by exact Hb. apply map_length. Qed.

Lemma transpose_entry (m : list (list B)) a b : a < length m -> b < length (hd [] m) ->
  nth a (nth b (transpose d m) []) d = nth b (nth a m []) d.
Proof.
  intros Ha Hb. unfold transpose. rewrite nth_mk by exact Hb.
  rewrite (nth_indep _ d (nth b [] d)) by (now rewrite map_length).
  now rewrite (map_nth (fun row => nth b row d)).
Qed.

(* a non-empty R x C matrix transposes to a C x R matrix *)
Lemma transpose_shape (m : list (list B)) R C :
  0 < R -> length m = R -> Forall (fun row => length row = C) m ->
  length (transpose d m) = C /\ Forall (fun row => length row = R) (transpose d m).
Proof.
  intros HR HL HF. assert (Hhd : length (hd [] m) = C).
  { destruct m as [|r0 m']; [cbn in HL; lia|]. inversion HF as [|? ? Hr0 ?]. exact Hr0. }
  split; [now rewrite transpose_length|].
  unfold transpose. rewrite Hhd. apply Forall_mk. intros b Hb. now rewrite map_length.
Qed.
End Transpose.
