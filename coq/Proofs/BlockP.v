(* Proofs/BlockP.v — every entry of a shell-pair block built by [block_of]
   (_cleanup_intermediate_integrals: the two tensordots and the final transpose) is the
   defining double sum over the primitives of b and of a. *)
From Coq Require Import List Arith Lia.
From GB Require Import Base.Field Base.FNum Base.Tables Model.Shell Model.MomentInt.
Import ListNotations.

Section P.
Context {F : Type} (K : Fops F).
Local Open Scope F_scope.
Notation "0" := (f0 K) : F_scope.
Infix "*" := (fmul K) : F_scope.
Notation fsum := (FNum.fsum K).

Lemma combine_map_l {A B C} (g : A -> C) (l : list A) (l2 : list B) :
  combine (map g l) l2 = map (fun p => (g (fst p), snd p)) (combine l l2).
Proof. revert l2; induction l as [|a l IH]; intros [|b l2]; cbn; [reflexivity..|]. now rewrite IH. Qed.

Lemma length_norms (s : shell F) : length (norms K s) = length (comps_of s).
Proof. unfold norms. apply map_length. Qed.

Lemma nth_map_combine {A B C} (f : A * B -> C) (la : list A) (lb : list B) i da db dc :
  i < length la -> length lb = length la ->
  nth i (map f (combine la lb)) dc = f (nth i la da, nth i lb db).
Proof.
  intros Hi Hl. rewrite (nth_indep _ dc (f (da, db))) by (rewrite map_length, combine_length; lia).
  rewrite map_nth. now rewrite combine_nth by (symmetry; exact Hl).
Qed.

(* the double sum an entry stands for *)
Definition entry_sum (sa sb : shell F) (P : list (list F)) (na nb : list F) (ma mb : nat) : F :=
  fsum (map (fun r : list F * (F * list F) =>
          fsum (map (fun q : F * (F * list F) => fst q * fst (snd q) * nth ma (snd (snd q)) 0)
                    (combine (fst r) (combine na (s_coeffs sa))))
          * fst (snd r) * nth mb (snd (snd r)) 0)
       (combine P (combine nb (s_coeffs sb)))).

Theorem block_of_entry (sa sb : shell F) (pf : comp -> comp -> list (list F)) ma ia mb ib :
  ma < nseg sa -> ia < length (comps_of sa) -> mb < nseg sb -> ib < length (comps_of sb) ->
  nth ib (nth mb (nth ia (nth ma (block_of K sa sb pf) []) []) []) 0
  = entry_sum sa sb (pf (nth ia (comps_of sa) (0, 0, 0)%nat) (nth ib (comps_of sb) (0, 0, 0)%nat))
              (nth ia (norms K sa) []) (nth ib (norms K sb) []) ma mb.
Proof.
  intros Hma Hia Hmb Hib. unfold block_of. cbv zeta.
  rewrite !combine_length, !length_norms, !Nat.min_id.
  rewrite nth_mk by exact Hma. rewrite nth_mk by exact Hia.
  rewrite nth_mk by exact Hmb. rewrite nth_mk by exact Hib.
  rewrite (nth_map_combine _ (comps_of sa) (norms K sa) ia (0,0,0)%nat [] [])
    by (rewrite ?length_norms; auto).
  rewrite (nth_map_combine _ (comps_of sb) (norms K sb) ib (0,0,0)%nat [] [])
    by (rewrite ?length_norms; auto).
  unfold contract_b. rewrite nth_mk by exact Hma. rewrite nth_mk by exact Hmb.
  unfold contract_a, entry_sum. rewrite combine_map_l, map_map.
  f_equal. apply map_ext. intros [prow [n crow]]. cbn [fst snd].
  rewrite nth_mk by exact Hma.
  f_equal. f_equal. f_equal. apply map_ext. intros [x [n' crow']]. reflexivity.
Qed.

End P.
