(* Proofs/TwoElecP.v — the recursions of Model/TwoElec.v (_two_elec_int.py) compute the
   bivariate Gaussian moments of Gauss/Wick2D.v read through the functional Phi.

   Abstract level (functions of the indices; all angular momenta; any field):
     Vf2 / vrr2_entry_is_Phi / Pw_eval / Pw_is_moment   vertical recursion with weight w = rho/p
     Vf2_via_SPoly        it is the one-electron recursion of SPoly for the rescaled sequence w^m beta_m
     Vf2_local, ETf_local, Hf_local                      what each recursion reads (validity regions)
     ETf / ETp / etransfer_table_is_moment / eri_axis_correct      electron transfer, one axis
     pmul / Phi_compose / V3 / E3 / R3 / eri_3d_correct            three axes
     Hf / hrr_binomial / hh / hh_Sb / hh_Sd / hh_binomial          horizontal recursion
   List level (the tables the model builds), with the validity regions:
     vpass2_entry (m + a <= L), vrr2_cube_entry (|a| <= L), tpass_entry (idx + c <= L),
     tpass3_entry_region, eri_prim_entry, eri_prim_correct (|a| + |c| <= L),
     hiter_entry (idx + b <= L), hrr3_entry, eri_channel_entry, eri_block_entry
     all_s_closed_form : L = 0 gives pref * boys 0 T
   Whole block:
     two_elec_correct : every entry of eri_block = norms * Sum_prims weights * Phi_0 (R4) and
                        peval R4 s = product over the axes of the four-index moments M4.
   Examples at Qc at the end (hypotheses satisfiable; one primitive entry computed on both sides). *)
From Coq Require Import List Arith Lia Field.
From GB Require Import Base.Field Base.FNum Base.Tables Gauss.Moment1D Gauss.SPoly Gauss.Wick2D
  Model.Shell Model.MomentInt Model.OneElec Model.TwoElec.
Import ListNotations.

Section Abstract.
Context {F : Type} (K : Fops F) (Kf : is_field K).
Add Field KFt : Kf.
Local Open Scope F_scope.
Notation "0" := (f0 K) : F_scope.
Notation "1" := (f1 K) : F_scope.
Infix "+" := (fadd K) : F_scope.
Infix "*" := (fmul K) : F_scope.
Infix "-" := (fsub K) : F_scope.
Infix "/" := (fdiv K) : F_scope.
Notation "- x" := (fopp K x) : F_scope.
Notation "# n" := (ofnat K n) (at level 5) : F_scope.
Notation padd := (padd K).
Notation pscale := (pscale K).
Notation psub := (psub K).
Notation Phi := (Phi K).
Notation peval := (peval K).

Lemma div_as_mul x y : x / y = x * (1 / y).
Proof. rewrite !(Fdiv_def Kf). ring. Qed.

(* ================= vertical recursion with weight w (vstep2) ================= *)
Section VRR2.
Variables (pa pcw v w : F).       (* PA, (rho/p) PQ, 1/(2p), rho/p along one axis *)
Variable beta : nat -> F.         (* ANY sequence *)

Fixpoint W2 (a : nat) : (nat -> F) * (nat -> F) :=   (* (V a, V (a+1)) *)
  match a with
  | O => (beta, fun m => pa * beta m - pcw * beta (S m))
  | S a' => let '(Va, Va1) := W2 a' in
            (Va1, fun m => pa * Va1 m - pcw * Va1 (S m) + #(S a') * v * (Va m - w * Va (S m)))
  end.
Definition Vf2 a := fst (W2 a).
Lemma Vf2_0 m : Vf2 O m = beta m. Proof. reflexivity. Qed.
Lemma Vf2_1 m : Vf2 (S O) m = pa * beta m - pcw * beta (S m). Proof. reflexivity. Qed.
Lemma Vf2_SS a m : Vf2 (S (S a)) m =
  pa * Vf2 (S a) m - pcw * Vf2 (S a) (S m) + #(S a) * v * (Vf2 a m - w * Vf2 a (S m)).
Proof. unfold Vf2. cbn [W2]. destruct (W2 a) as [Va Va1]. reflexivity. Qed.

Fixpoint Pw2 (a : nat) : list F * list F :=
  match a with
  | O => ([1], [pa; - pcw])
  | S a' => let '(Pa, Pa1) := Pw2 a' in
     (Pa1, padd (psub (pscale pa Pa1) (pscale pcw (0 :: Pa1)))
                (pscale (#(S a') * v) (psub Pa (pscale w (0 :: Pa)))))
  end.
Definition Pw a := fst (Pw2 a).
Lemma Pw_SS a : Pw (S (S a)) = padd (psub (pscale pa (Pw (S a))) (pscale pcw (0 :: Pw (S a))))
                                   (pscale (#(S a) * v) (psub (Pw a) (pscale w (0 :: Pw a)))).
Proof. unfold Pw. cbn [Pw2]. destruct (Pw2 a) as [Pa Pa1]. reflexivity. Qed.

(* the array entry is Phi_m of that polynomial, for every m and every beta *)
Theorem vrr2_is_Phi : forall a m, Vf2 a m = Phi beta m (Pw a) /\ Vf2 (S a) m = Phi beta m (Pw (S a)).
Proof. induction a as [|a IH]; intros m.
  - split; [rewrite Vf2_0 | rewrite Vf2_1]; unfold Pw; cbn [Pw2 fst SPoly.Phi]; ring.
  - split; [apply IH|]. rewrite Vf2_SS, Pw_SS.
    unfold SPoly.psub.
    rewrite !(Phi_padd K Kf), !(Phi_pscale K Kf), !(Phi_padd K Kf), !(Phi_pscale K Kf),
            !(Phi_shift K Kf).
    destruct (IH m) as [H0 H1]. destruct (IH (S m)) as [H0' H1'].
    rewrite H0, H1, H0', H1'. ring.
Qed.
Corollary vrr2_entry_is_Phi a m : Vf2 a m = Phi beta m (Pw a).
Proof. apply vrr2_is_Phi. Qed.

(* its value at every s is the Gaussian moment with variance v (1 - w s), centre pa - s pcw *)
Definition Gs2 (s : F) (a : nat) : F := S3 K (v * (1 - w * s)) (pa - s * pcw) 0 0 0%nat 0%nat a 0%nat.
Lemma Gs2_0 s : Gs2 s O = 1.
Proof. unfold Gs2. apply (S3_000 K Kf). Qed.
Lemma Gs2_S s a : Gs2 s (S a) = (pa - s * pcw) * Gs2 s a
   + v * (1 - w * s) * match a with O => 0 | S a' => #a * Gs2 s a' end.
Proof. unfold Gs2. rewrite (OS3_a K Kf). unfold lower, dn. destruct a; ring. Qed.

Theorem Pw_eval_both : forall a s, peval (Pw a) s = Gs2 s a /\ peval (Pw (S a)) s = Gs2 s (S a).
Proof. induction a as [|a IH]; intros s.
  - split; [rewrite Gs2_0 | rewrite Gs2_S, Gs2_0]; unfold Pw; cbn [Pw2 fst SPoly.peval]; ring.
  - split; [apply IH|]. rewrite Pw_SS. unfold SPoly.psub.
    rewrite !(peval_padd K Kf), !(peval_pscale K Kf), !(peval_padd K Kf), !(peval_pscale K Kf),
            !(peval_shift K Kf).
    destruct (IH s) as [H0 H1]. rewrite H0, H1.
    rewrite (Gs2_S s (S a)). ring.
Qed.
Corollary Pw_eval a s : peval (Pw a) s = Gs2 s a.
Proof. apply Pw_eval_both. Qed.

End VRR2.

(* locality: the entry (a, m) reads beta only at m .. m + a + 1 (at most) *)

Lemma Vf2_local_both pa pcw v w (b1 b2 : nat -> F) : forall a,
  (forall m, (forall k, k <= a -> b1 (m + k)%nat = b2 (m + k)%nat) ->
     Vf2 pa pcw v w b1 a m = Vf2 pa pcw v w b2 a m) /\
  (forall m, (forall k, k <= S a -> b1 (m + k)%nat = b2 (m + k)%nat) ->
     Vf2 pa pcw v w b1 (S a) m = Vf2 pa pcw v w b2 (S a) m).
Proof.
  induction a as [|a [IH0 IH1]].
  - split; intros m H.
    + rewrite !Vf2_0. specialize (H 0%nat ltac:(lia)). now rewrite Nat.add_0_r in H.
    + pose proof (H 0%nat ltac:(lia)) as H0. pose proof (H 1%nat ltac:(lia)) as H1.
      rewrite Nat.add_0_r in H0. rewrite Nat.add_1_r in H1. rewrite !Vf2_1. now rewrite H0, H1.
  - split; [exact IH1|]. intros m H. rewrite !Vf2_SS.
    rewrite (IH1 m) by (intros; apply H; lia).
    rewrite (IH0 m) by (intros; apply H; lia).
    rewrite (IH1 (S m)) by (intros k Hk; replace (S m + k)%nat with (m + S k)%nat by lia; apply H; lia).
    rewrite (IH0 (S m)) by (intros k Hk; replace (S m + k)%nat with (m + S k)%nat by lia; apply H; lia).
    reflexivity.
Qed.
Lemma Vf2_local pa pcw v w (b1 b2 : nat -> F) a m :
  (forall k, k <= a -> b1 (m + k)%nat = b2 (m + k)%nat) ->
  Vf2 pa pcw v w b1 a m = Vf2 pa pcw v w b2 a m.
Proof. apply (Vf2_local_both pa pcw v w b1 b2 a). Qed.

(* the two-electron vertical recursion IS the one-electron recursion of Gauss/SPoly.v (Vf) for the
   rescaled sequence beta'_m = w^m beta_m and pc := PQ: V'[m][a] = w^m V[m][a] *)
Theorem Vf2_via_SPoly pa pq v w (beta : nat -> F) : forall a m,
  fpow K w m * Vf2 pa (w * pq) v w beta a m = Vf K pa pq v (fun m => fpow K w m * beta m) a m /\
  fpow K w m * Vf2 pa (w * pq) v w beta (S a) m = Vf K pa pq v (fun m => fpow K w m * beta m) (S a) m.
Proof.
  induction a as [|a IH]; intros m.
  - split; [rewrite Vf2_0, Vf_0; reflexivity|]. rewrite Vf2_1, Vf_1. cbn [fpow]. ring.
  - split; [apply IH|]. rewrite Vf2_SS, Vf_SS.
    destruct (IH m) as [H0 H1]. destruct (IH (S m)) as [H0' H1'].
    rewrite <- H0, <- H1, <- H0', <- H1'. cbn [fpow]. ring.
Qed.

(* ================= electron transfer (tstep), abstract ================= *)
Section ET.
Variables (coef twoq r : F).

Fixpoint ET2 (E0 : nat -> F) (c : nat) : (nat -> F) * (nat -> F) :=     (* (E c, E (c+1)) *)
  match c with
  | O => (E0, fun a => coef * E0 a + #a / twoq * E0 (a - 1)%nat - r * E0 (S a))
  | S c' => let '(Ec, Ec1) := ET2 E0 c' in
            (Ec1, fun a => coef * Ec1 a + #a / twoq * Ec1 (a - 1)%nat + #(S c') / twoq * Ec a
                           - r * Ec1 (S a))
  end.
Definition ETf (E0 : nat -> F) (c a : nat) : F := fst (ET2 E0 c) a.
Lemma ETf_0 E0 a : ETf E0 0 a = E0 a. Proof. reflexivity. Qed.
Lemma ETf_1 E0 a : ETf E0 1 a = coef * E0 a + #a / twoq * E0 (a - 1)%nat - r * E0 (S a).
Proof. reflexivity. Qed.
Lemma ETf_SS E0 c a : ETf E0 (S (S c)) a =
  coef * ETf E0 (S c) a + #a / twoq * ETf E0 (S c) (a - 1)%nat + #(S c) / twoq * ETf E0 c a
  - r * ETf E0 (S c) (S a).
Proof. unfold ETf. cbn [ET2]. destruct (ET2 E0 c) as [Ec Ec1]. reflexivity. Qed.
(* the code's rule, uniform in c *)
Lemma ETf_S E0 c a : ETf E0 (S c) a =
  coef * ETf E0 c a + #a / twoq * ETf E0 c (a - 1)%nat + #c / twoq * ETf E0 (c - 1)%nat a
  - r * ETf E0 c (S a).
Proof.
  destruct c as [|c].
  - rewrite ETf_1, !ETf_0. cbn [ofnat]. rewrite (div_as_mul 0). ring.
  - rewrite ETf_SS. replace (S c - 1)%nat with c by lia. reflexivity.
Qed.

Lemma ETf_ext E0 E0' : (forall a, E0 a = E0' a) -> forall c a, ETf E0 c a = ETf E0' c a.
Proof.
  intros H.
  assert (G : forall c, (forall a, ETf E0 c a = ETf E0' c a) /\ (forall a, ETf E0 (S c) a = ETf E0' (S c) a)).
  { induction c as [|c [IH0 IH1]].
    - split; intros a; [rewrite !ETf_0; apply H|]. rewrite !ETf_1, !H. reflexivity.
    - split; [exact IH1|]. intros a. rewrite !ETf_SS, !IH1, !IH0. reflexivity. }
  intros c. apply (G c).
Qed.

(* locality: E[c][a] reads the starting line only at a - c .. a + c *)
Lemma ETf_local E0 E0' : forall c a, (forall j, a - c <= j <= a + c -> E0 j = E0' j) ->
  ETf E0 c a = ETf E0' c a.
Proof.
  assert (G : forall c,
    (forall a, (forall j, a - c <= j <= a + c -> E0 j = E0' j) -> ETf E0 c a = ETf E0' c a) /\
    (forall a, (forall j, a - S c <= j <= a + S c -> E0 j = E0' j) -> ETf E0 (S c) a = ETf E0' (S c) a)).
  { induction c as [|c [IH0 IH1]].
    - split; intros a H.
      + rewrite !ETf_0. apply H. lia.
      + rewrite !ETf_1. rewrite (H a), (H (a - 1)%nat), (H (S a)) by lia. reflexivity.
    - split; [exact IH1|]. intros a H. rewrite !ETf_SS.
      rewrite (IH1 a) by (intros; apply H; lia).
      rewrite (IH1 (a - 1)%nat) by (intros; apply H; lia).
      rewrite (IH1 (S a)) by (intros; apply H; lia).
      rewrite (IH0 a) by (intros; apply H; lia).
      reflexivity. }
  intros c. apply (G c).
Qed.

(* linearity in the starting line *)
Lemma ETf_scale E0 (k : F) : forall c a, ETf (fun a => E0 a * k) c a = ETf E0 c a * k.
Proof.
  assert (G : forall c, (forall a, ETf (fun a => E0 a * k) c a = ETf E0 c a * k) /\
                        (forall a, ETf (fun a => E0 a * k) (S c) a = ETf E0 (S c) a * k)).
  { induction c as [|c [IH0 IH1]].
    - split; intros a; [rewrite !ETf_0; reflexivity|]. rewrite !ETf_1. ring.
    - split; [exact IH1|]. intros a. rewrite !ETf_SS, !IH1, !IH0. ring. }
  intros c. apply (G c).
Qed.

(* the same recursion on polynomials in s (the coefficients do not depend on s) *)
Fixpoint ETp2 (P0 : nat -> list F) (c : nat) : (nat -> list F) * (nat -> list F) :=
  match c with
  | O => (P0, fun a => psub (padd (pscale coef (P0 a)) (pscale (#a / twoq) (P0 (a - 1)%nat)))
                            (pscale r (P0 (S a))))
  | S c' => let '(Pc, Pc1) := ETp2 P0 c' in
            (Pc1, fun a => psub (padd (padd (pscale coef (Pc1 a)) (pscale (#a / twoq) (Pc1 (a - 1)%nat)))
                                      (pscale (#(S c') / twoq) (Pc a)))
                                (pscale r (Pc1 (S a))))
  end.
Definition ETp (P0 : nat -> list F) (c a : nat) : list F := fst (ETp2 P0 c) a.
Lemma ETp_0 P0 a : ETp P0 0 a = P0 a. Proof. reflexivity. Qed.
Lemma ETp_1 P0 a : ETp P0 1 a =
  psub (padd (pscale coef (P0 a)) (pscale (#a / twoq) (P0 (a - 1)%nat))) (pscale r (P0 (S a))).
Proof. reflexivity. Qed.
Lemma ETp_SS P0 c a : ETp P0 (S (S c)) a =
  psub (padd (padd (pscale coef (ETp P0 (S c) a)) (pscale (#a / twoq) (ETp P0 (S c) (a - 1)%nat)))
             (pscale (#(S c) / twoq) (ETp P0 c a)))
       (pscale r (ETp P0 (S c) (S a))).
Proof. unfold ETp. cbn [ETp2]. destruct (ETp2 P0 c) as [Pc Pc1]. reflexivity. Qed.

(* any linear functional on polynomials commutes with the transfer recursion *)
Lemma ETp_linear (ell : list F -> F) :
  (forall f g, ell (padd f g) = ell f + ell g) -> (forall k f, ell (pscale k f) = k * ell f) ->
  forall P0 c a, ell (ETp P0 c a) = ETf (fun a => ell (P0 a)) c a.
Proof.
  intros Hadd Hsc P0.
  assert (G : forall c, (forall a, ell (ETp P0 c a) = ETf (fun a => ell (P0 a)) c a) /\
                        (forall a, ell (ETp P0 (S c) a) = ETf (fun a => ell (P0 a)) (S c) a)).
  { induction c as [|c [IH0 IH1]].
    - split; intros a; [reflexivity|]. rewrite ETp_1, ETf_1. unfold SPoly.psub.
      rewrite !Hadd, !Hsc. ring.
    - split; [exact IH1|]. intros a. rewrite ETp_SS, ETf_SS. unfold SPoly.psub.
      rewrite !Hadd, !Hsc, !IH1, !IH0. ring. }
  intros c. apply (G c).
Qed.
End ET.

(* ================= one axis of (a0|c0): VRR at c = 0, then transfer ================= *)
Section Axis.
Variables (p q PA QC PQ : F).
Hypothesis Hp : p <> 0.
Hypothesis Hq : q <> 0.
Hypothesis Hpq : p + q <> 0.
Hypothesis H2 : 1 + 1 <> 0.

Let w := rho K p q / p.
Let twop := (1 + 1) * p.
Let twoq := (1 + 1) * q.
Let coef := QC + p / q * PA.

(* the s-polynomial of the vertical recursion evaluates to the marginal moment M_s(a, 0) *)
Theorem Pw_is_moment a s :
  peval (Pw PA (w * PQ) (1 / twop) w a) s = Ms K p q PA QC PQ s a 0.
Proof.
  rewrite Pw_eval. unfold Gs2, Ms.
  rewrite (proj1 (M_i0 K Kf _ _ _ _ _ a)).
  f_equal.
  - unfold sig11, w, twop. field. split; assumption.
  - unfold mean1, w. ring.
Qed.

(* if the line c = 0 holds the moments M_s(a, 0) then the transfer recursion produces M_s(a, c) *)
Theorem etransfer_table_is_moment s (E0 : nat -> F) :
  (forall a, E0 a = Ms K p q PA QC PQ s a 0) ->
  forall c a, ETf coef twoq (p / q) E0 c a = Ms K p q PA QC PQ s a c.
Proof.
  intros H0.
  assert (G : forall c, (forall a, ETf coef twoq (p / q) E0 c a = Ms K p q PA QC PQ s a c) /\
                        (forall a, ETf coef twoq (p / q) E0 (S c) a = Ms K p q PA QC PQ s a (S c))).
  { induction c as [|c [IH0 IH1]].
    - split; intros a; [rewrite ETf_0; apply H0|].
      rewrite ETf_1, !H0, (etransfer_correct K Kf p q PA QC PQ Hp Hq Hpq H2 s a 0).
      fold coef twoq. cbn [ofnat]. rewrite (div_as_mul 0). ring.
    - split; [exact IH1|]. intros a.
      rewrite ETf_SS, !IH1, !IH0, (etransfer_correct K Kf p q PA QC PQ Hp Hq Hpq H2 s a (S c)).
      fold coef twoq. replace (S c - 1)%nat with c by lia. reflexivity. }
  intros c. apply (G c).
Qed.

(* the polynomial attached to the entry (a, c) *)
Definition Pac (c a : nat) : list F :=
  ETp coef twoq (p / q) (Pw PA (w * PQ) (1 / twop) w) c a.

(* One axis, end to end: the vertical recursion at m = 0 followed by the electron transfer yields
   Phi_0 of a polynomial whose value at every s is the bivariate moment M_s(a, c). *)
Theorem eri_axis_correct (beta : nat -> F) c a :
  ETf coef twoq (p / q) (fun a => Vf2 PA (w * PQ) (1 / twop) w beta a 0) c a = Phi beta 0 (Pac c a)
  /\ forall s, peval (Pac c a) s = Ms K p q PA QC PQ s a c.
Proof.
  split.
  - unfold Pac.
    rewrite (ETp_linear coef twoq (p / q) (Phi beta 0) (Phi_padd K Kf beta 0)
               (fun k f => Phi_pscale K Kf beta 0 k f)).
    apply ETf_ext. intros a'. apply vrr2_entry_is_Phi.
  - intros s. unfold Pac.
    rewrite (ETp_linear coef twoq (p / q) (fun f => peval f s)
               (fun f g => peval_padd K Kf f g s) (fun k f => peval_pscale K Kf k f s)).
    apply etransfer_table_is_moment. intros a'. apply Pw_is_moment.
Qed.
End Axis.

(* ================= three axes ================= *)
(* product of s-polynomials *)
Fixpoint pmul (f g : list F) : list F :=
  match f with [] => [] | c :: f' => padd (pscale c g) (0 :: pmul f' g) end.
Lemma peval_pmul f g s : peval (pmul f g) s = peval f s * peval g s.
Proof. induction f as [|c f IH]; cbn [pmul SPoly.peval]; [ring|].
  rewrite (peval_padd K Kf), (peval_pscale K Kf), (peval_shift K Kf), IH. ring. Qed.
Lemma Phi_ext b1 b2 : (forall m, b1 m = b2 m) -> forall f m, Phi b1 m f = Phi b2 m f.
Proof. intros H. induction f as [|c f IH]; intros m; cbn [SPoly.Phi]; [reflexivity|].
  now rewrite H, IH. Qed.
(* a pass whose starting sequence is itself Phi of a polynomial Q multiplies the polynomials *)
Lemma Phi_compose beta Q : forall P m, Phi (fun m' => Phi beta m' Q) m P = Phi beta m (pmul P Q).
Proof. induction P as [|c P IH]; intros m; cbn [pmul SPoly.Phi]; [reflexivity|].
  rewrite (Phi_padd K Kf), (Phi_pscale K Kf), (Phi_shift K Kf), IH. reflexivity. Qed.

Section ThreeD.
Variables (p q : F) (PAx PAy PAz QCx QCy QCz PQx PQy PQz : F).
Hypothesis Hp : p <> 0.
Hypothesis Hq : q <> 0.
Hypothesis Hpq : p + q <> 0.
Hypothesis H2 : 1 + 1 <> 0.
Variable beta : nat -> F.

Let w := rho K p q / p.
Let v := 1 / ((1 + 1) * p).
Let twoq := (1 + 1) * q.
Let r := p / q.

(* the vertical recursion run along x, then y (every ax), then z (every ax, ay) *)
Definition V3 (ax ay az m : nat) : F :=
  Vf2 PAz (w * PQz) v w
    (fun m2 => Vf2 PAy (w * PQy) v w (fun m1 => Vf2 PAx (w * PQx) v w beta ax m1) ay m2) az m.
Definition P3 (ax ay az : nat) : list F :=
  pmul (Pw PAz (w * PQz) v w az) (pmul (Pw PAy (w * PQy) v w ay) (Pw PAx (w * PQx) v w ax)).

Theorem V3_is_Phi ax ay az m : V3 ax ay az m = Phi beta m (P3 ax ay az).
Proof.
  unfold V3, P3. rewrite vrr2_entry_is_Phi.
  rewrite <- Phi_compose. apply Phi_ext. intros m2.
  rewrite vrr2_entry_is_Phi, <- Phi_compose. apply Phi_ext. intros m1. apply vrr2_entry_is_Phi.
Qed.
Theorem P3_eval ax ay az s :
  peval (P3 ax ay az) s = Ms K p q PAz QCz PQz s az 0
                          * (Ms K p q PAy QCy PQy s ay 0 * Ms K p q PAx QCx PQx s ax 0).
Proof.
  unfold P3. rewrite !peval_pmul. unfold w, v.
  rewrite (Pw_is_moment p q PAx QCx PQx Hp H2), (Pw_is_moment p q PAy QCy PQy Hp H2),
          (Pw_is_moment p q PAz QCz PQz Hp H2). reflexivity.
Qed.

(* the electron transfer run along x, then y, then z, on a three-index table W *)
Definition E3 (W : nat -> nat -> nat -> F) (cx cy cz ax ay az : nat) : F :=
  ETf (QCz + r * PAz) twoq r (fun az' =>
    ETf (QCy + r * PAy) twoq r (fun ay' =>
      ETf (QCx + r * PAx) twoq r (fun ax' => W ax' ay' az') cx ax) cy ay) cz az.
Definition R3 (cx cy cz ax ay az : nat) : list F :=
  ETp (QCz + r * PAz) twoq r (fun az' =>
    ETp (QCy + r * PAy) twoq r (fun ay' =>
      ETp (QCx + r * PAx) twoq r (fun ax' => P3 ax' ay' az') cx ax) cy ay) cz az.

(* Three axes, end to end: [a0|c0]^(0) after the vertical and the transfer recursions is Phi_0 of a
   polynomial in s whose value at every s is the product over the axes of the bivariate moments. *)
Theorem eri_3d_correct cx cy cz ax ay az :
  E3 (fun ax ay az => V3 ax ay az 0) cx cy cz ax ay az = Phi beta 0 (R3 cx cy cz ax ay az)
  /\ forall s, peval (R3 cx cy cz ax ay az) s
               = Ms K p q PAx QCx PQx s ax cx * Ms K p q PAy QCy PQy s ay cy
                 * Ms K p q PAz QCz PQz s az cz.
Proof.
  split.
  - unfold R3, E3.
    rewrite (ETp_linear _ twoq r (Phi beta 0) (Phi_padd K Kf beta 0) (fun k f => Phi_pscale K Kf beta 0 k f)).
    apply ETf_ext. intros az'.
    rewrite (ETp_linear _ twoq r (Phi beta 0) (Phi_padd K Kf beta 0) (fun k f => Phi_pscale K Kf beta 0 k f)).
    apply ETf_ext. intros ay'.
    rewrite (ETp_linear _ twoq r (Phi beta 0) (Phi_padd K Kf beta 0) (fun k f => Phi_pscale K Kf beta 0 k f)).
    apply ETf_ext. intros ax'. apply V3_is_Phi.
  - intros s. unfold R3.
    set (ell := fun f => peval f s).
    assert (La : forall f g, ell (padd f g) = ell f + ell g) by (intros; apply (peval_padd K Kf)).
    assert (Ls : forall k f, ell (pscale k f) = k * ell f) by (intros; apply (peval_pscale K Kf)).
    change (peval ?f s) with (ell f).
    rewrite (ETp_linear _ twoq r ell La Ls).
    rewrite (ETf_ext _ twoq r _ (fun az' => Ms K p q PAz QCz PQz s az' 0
               * (Ms K p q PAx QCx PQx s ax cx * Ms K p q PAy QCy PQy s ay cy))).
    2:{ intros az'. rewrite (ETp_linear _ twoq r ell La Ls).
        rewrite (ETf_ext _ twoq r _ (fun ay' => Ms K p q PAy QCy PQy s ay' 0
                   * (Ms K p q PAx QCx PQx s ax cx * Ms K p q PAz QCz PQz s az' 0))).
        2:{ intros ay'. rewrite (ETp_linear _ twoq r ell La Ls).
            rewrite (ETf_ext _ twoq r _ (fun ax' => Ms K p q PAx QCx PQx s ax' 0
                       * (Ms K p q PAy QCy PQy s ay' 0 * Ms K p q PAz QCz PQz s az' 0))).
            2:{ intros ax'. unfold ell. rewrite P3_eval. ring. }
            rewrite ETf_scale. unfold twoq, r.
            rewrite (etransfer_table_is_moment p q PAx QCx PQx Hp Hq Hpq H2 s) by reflexivity.
            ring. }
        rewrite ETf_scale. unfold twoq, r.
        rewrite (etransfer_table_is_moment p q PAy QCy PQy Hp Hq Hpq H2 s) by reflexivity.
        ring. }
    rewrite ETf_scale. unfold twoq, r.
    rewrite (etransfer_table_is_moment p q PAz QCz PQz Hp Hq Hpq H2 s) by reflexivity.
    ring.
Qed.
End ThreeD.

(* ================= horizontal recursion (hstep), abstract ================= *)
Section HRR.
Variable ab : F.
(* H[b+1][a] = H[b][a+1] + AB H[b][a]   (_two_elec_int.py:567-790, _one_elec_int.py:181-199) *)
Fixpoint Hf (T : nat -> F) (b : nat) (a : nat) : F :=
  match b with O => T a | S b' => Hf T b' (S a) + ab * Hf T b' a end.

Lemma Hf_local T T' : forall b a, (forall j, a <= j <= a + b -> T j = T' j) -> Hf T b a = Hf T' b a.
Proof. induction b as [|b IH]; intros a H; cbn [Hf]; [apply H; lia|].
  rewrite (IH (S a)), (IH a) by (intros; apply H; lia). reflexivity. Qed.
Lemma Hf_ext T T' : (forall j, T j = T' j) -> forall b a, Hf T b a = Hf T' b a.
Proof. intros H b a. apply Hf_local. intros; apply H. Qed.
(* linearity in the starting line *)
Lemma Hf_add T1 T2 : forall b a, Hf (fun j => T1 j + T2 j) b a = Hf T1 b a + Hf T2 b a.
Proof. induction b as [|b IH]; intros a; cbn [Hf]; [reflexivity|]. rewrite !IH. ring. Qed.
Lemma Hf_scale T k : forall b a, Hf (fun j => T j * k) b a = Hf T b a * k.
Proof. induction b as [|b IH]; intros a; cbn [Hf]; [reflexivity|]. rewrite !IH. ring. Qed.

(* binomial coefficients by Pascal's rule, computed in the field *)
Fixpoint binF (n k : nat) : F :=
  match n, k with
  | _, O => 1
  | O, S _ => 0
  | S n', S k' => binF n' k' + binF n' (S k')
  end.
Lemma binF_n0 n : binF n 0 = 1. Proof. destruct n; reflexivity. Qed.
Lemma binF_SS n k : binF (S n) (S k) = binF n k + binF n (S k). Proof. reflexivity. Qed.
Lemma binF_gt n : forall k, n < k -> binF n k = 0.
Proof. induction n as [|n IH]; intros k Hk; destruct k as [|k]; try lia; [reflexivity|].
  rewrite binF_SS, !IH by lia. ring. Qed.
Lemma binF_nn n : binF n n = 1.
Proof. induction n as [|n IH]; [reflexivity|]. rewrite binF_SS, IH, binF_gt by lia. ring. Qed.

Notation Sum := (sumn 0 (fadd K)).
Lemma Sum_S n f : Sum (S n) f = Sum n f + f n. Proof. reflexivity. Qed.
Lemma Sum_shift n f : Sum (S n) f = f 0%nat + Sum n (fun k => f (S k)).
Proof. induction n as [|n IH]; [cbn [sumn]; ring|]. rewrite Sum_S, IH, Sum_S. ring. Qed.
Lemma Sum_add n f g : Sum n f + Sum n g = Sum n (fun k => f k + g k).
Proof. induction n as [|n IH]; cbn [sumn]; [ring|]. rewrite <- IH. ring. Qed.
Lemma Sum_scale n c f : c * Sum n f = Sum n (fun k => c * f k).
Proof. induction n as [|n IH]; cbn [sumn]; [ring|]. rewrite <- IH. ring. Qed.

(* (x - B)^b = ((x - A) + AB)^b : the entry is the binomial combination of the [a+k | 0] entries *)
Theorem hrr_binomial T : forall b a,
  Hf T b a = Sum (S b) (fun k => binF b k * fpow K ab (b - k) * T (a + k)%nat).
Proof.
  induction b as [|b IH]; intros a.
  - cbn [Hf sumn binF fpow Nat.sub]. rewrite Nat.add_0_r. ring.
  - cbn [Hf]. rewrite (IH (S a)), (IH a).
    (* second sum: peel k = 0; first sum: peel k = b; the rest is Pascal's rule *)
    rewrite (Sum_shift (S b) (fun k => binF (S b) k * fpow K ab (S b - k) * T (a + k)%nat)).
    rewrite (Sum_S b (fun k => binF b k * fpow K ab (b - k) * T (S a + k)%nat)).
    rewrite (Sum_shift b (fun k => binF b k * fpow K ab (b - k) * T (a + k)%nat)).
    rewrite (Sum_S b (fun k => binF (S b) (S k) * fpow K ab (S b - S k) * T (a + S k)%nat)).
    rewrite !binF_n0, binF_nn, Nat.sub_diag, Nat.add_0_r, !Nat.sub_0_r.
    replace (a + S b)%nat with (S a + b)%nat by lia.
    replace (S b - S b)%nat with 0%nat by lia.
    assert (E : Sum b (fun k => binF (S b) (S k) * fpow K ab (S b - S k) * T (a + S k)%nat)
              = Sum b (fun k => binF b k * fpow K ab (b - k) * T (S a + k)%nat)
                + ab * Sum b (fun k => binF b (S k) * fpow K ab (b - S k) * T (a + S k)%nat)).
    { rewrite Sum_scale, Sum_add. apply sumn_ext. intros k Hk.
      rewrite binF_SS. replace (a + S k)%nat with (S a + k)%nat by lia.
      replace (S b - S k)%nat with (b - k)%nat by lia.
      replace (b - k)%nat with (S (b - S k)) by lia. cbn [fpow]. ring. }
    rewrite E. rewrite binF_SS, binF_nn, binF_gt by lia. cbn [fpow]. ring.
Qed.
End HRR.

End Abstract.

(* ======================= the tables of the model ======================= *)
Section Lists.
Context {F : Type} (K : Fops F) (Kf : is_field K).
Add Field KFtl : Kf.
Local Open Scope F_scope.
Notation "0" := (f0 K) : F_scope.
Notation "1" := (f1 K) : F_scope.
Infix "+" := (fadd K) : F_scope.
Infix "*" := (fmul K) : F_scope.
Infix "-" := (fsub K) : F_scope.
Infix "/" := (fdiv K) : F_scope.
Notation "- x" := (fopp K x) : F_scope.
Notation "# n" := (ofnat K n) (at level 5) : F_scope.

Lemma zip2_cons {A B C} (f : A -> B -> C) a x b y : zip2 f (a :: x) (b :: y) = f a b :: zip2 f x y.
Proof. reflexivity. Qed.
Lemma zip2_length {A B C} (f : A -> B -> C) x y : length (zip2 f x y) = Nat.min (length x) (length y).
Proof. unfold zip2. now rewrite map_length, combine_length. Qed.
Lemma nth_zip2 {A B C} (f : A -> B -> C) x y i d dx dy :
  i < length x -> i < length y -> nth i (zip2 f x y) d = f (nth i x dx) (nth i y dy).
Proof.
  revert y i. induction x as [|a x IH]; intros [|b y] i Hx Hy; cbn [length] in *; try lia.
  rewrite zip2_cons. destruct i as [|i]; cbn [nth]; [reflexivity|]. apply IH; lia.
Qed.

(* ---- vertical pass: entry (a, m, channel) inside m + a <= L ---- *)
Section VPassList.
Variables (L n : nat) (pa pcw twop w : F) (v0 : list (list F)).
Hypothesis Hlen0 : forall m, m <= L -> length (nth m v0 []) = n.
Definition chan (ch : nat) : nat -> F := fun m => nth ch (nth m v0 []) 0.

Definition Pv (a : nat) (tab : list (list F)) : Prop :=
  (forall m, m <= L -> length (nth m tab []) = n) /\
  (forall m ch, m + a <= L -> ch < n ->
     nth ch (nth m tab []) 0 = Vf2 K pa pcw (1 / twop) w (chan ch) a m).

Lemma vstep2_inv j x y : Pv j x -> (0 < j -> Pv (j - 1) y) ->
  Pv (S j) (vstep2 K L pa pcw twop w j x y).
Proof.
  intros [Lx Ex] Hy. split.
  - intros m Hm. unfold vstep2. rewrite nth_mk by lia.
    destruct (Nat.eqb_spec m L) as [E|NE]; [rewrite map_length; now apply Lx|].
    destruct j as [|j].
    + rewrite zip2_length, !Lx by lia. apply Nat.min_id.
    + destruct (Hy ltac:(lia)) as [Ly _].
      rewrite !zip2_length, !Lx, !Ly by lia. rewrite !Nat.min_id. reflexivity.
  - intros m ch Hm Hch. unfold vstep2. rewrite nth_mk by lia.
    destruct (Nat.eqb_spec m L) as [E|NE]; [lia|].
    destruct j as [|j].
    + rewrite (nth_zip2 _ _ _ _ _ 0 0) by (rewrite Lx; lia).
      rewrite !Ex by lia. rewrite Vf2_1, !Vf2_0. reflexivity.
    + destruct (Hy ltac:(lia)) as [Ly Ey]. replace (S j - 1)%nat with j in * by lia.
      rewrite (nth_zip2 _ _ _ _ _ 0 0)
        by (rewrite ?zip2_length, ?Lx, ?Ly, ?Nat.min_id; lia).
      rewrite (nth_zip2 _ _ _ _ _ 0 0) by (rewrite Lx; lia).
      rewrite (nth_zip2 _ _ _ _ _ 0 0) by (rewrite Ly; lia).
      rewrite !Ex, !Ey by lia. cbv beta. rewrite Vf2_SS, (div_as_mul K Kf (#(S j))). ring.
Qed.

(* _two_elec_int.py:346-399: inside the validity region the table holds the abstract recursion *)
Theorem vpass2_entry a m ch : m + a <= L -> ch < n ->
  nth ch (nth m (nth a (vpass2 K L pa pcw twop w v0) []) []) 0
  = Vf2 K pa pcw (1 / twop) w (chan ch) a m.
Proof.
  intros Hm Hch. unfold vpass2.
  assert (G : Pv (0 + a) (nth a (iter2 (vstep2 K L pa pcw twop w) L 0 v0 []) [])).
  { apply (iter2_spec (vstep2 K L pa pcw twop w) Pv); [| | |lia].
    - intros j x y. apply vstep2_inv.
    - split; [exact Hlen0|]. intros m' ch' _ _. reflexivity.
    - intros Hlt. lia. }
  destruct G as [_ G]. apply G; [exact Hm|exact Hch].
Qed.
Theorem vpass2_row_length a m : a <= L -> m <= L ->
  length (nth m (nth a (vpass2 K L pa pcw twop w v0) []) []) = n.
Proof.
  intros Ha Hm. unfold vpass2.
  assert (G : Pv (0 + a) (nth a (iter2 (vstep2 K L pa pcw twop w) L 0 v0 []) [])).
  { apply (iter2_spec (vstep2 K L pa pcw twop w) Pv); [| | |lia].
    - intros j x y. apply vstep2_inv.
    - split; [exact Hlen0|]. intros m' ch' _ _. reflexivity.
    - intros Hlt. lia. }
  destruct G as [G _]. now apply G.
Qed.
End VPassList.

(* ---- cubes ---- *)
Lemma cget_mk3 (L : nat) (f : nat -> nat -> nat -> F) x y z : x <= L -> y <= L -> z <= L ->
  cget K (mk (S L) (fun x => mk (S L) (fun y => mk (S L) (fun z => f x y z)))) x y z = f x y z.
Proof. intros Hx Hy Hz. unfold cget. rewrite nth_mk by lia. rewrite nth_mk by lia.
  rewrite nth_mk by lia. reflexivity. Qed.

(* concatenation of k rows of equal length n: entry i * n + j *)
Lemma concat_uniform_length {A} (rows : list (list A)) n :
  (forall r, In r rows -> length r = n) -> length (concat rows) = (length rows * n)%nat.
Proof. induction rows as [|r rows IH]; intros H; cbn [concat length]; [reflexivity|].
  rewrite app_length, (H r) by (now left). rewrite IH by (intros; apply H; now right). lia. Qed.
Lemma nth_concat_uniform {A} (rows : list (list A)) n i j d :
  (forall r, In r rows -> length r = n) -> i < length rows -> j < n ->
  nth (i * n + j) (concat rows) d = nth j (nth i rows []) d.
Proof.
  revert i. induction rows as [|r rows IH]; intros i H Hi Hj; cbn [length] in Hi; [lia|].
  cbn [concat]. assert (Hr : length r = n) by (apply H; now left).
  destruct i as [|i].
  - cbn [Nat.mul Nat.add nth]. apply app_nth1. lia.
  - cbn [nth]. rewrite app_nth2 by (rewrite Hr; cbn [Nat.mul]; lia).
    replace (S i * n + j - length r)%nat with (i * n + j)%nat by (rewrite Hr; cbn [Nat.mul]; lia).
    apply IH; [intros; apply H; now right|lia|exact Hj].
Qed.
Lemma in_mk {A} k (g : nat -> A) x : In x (mk k g) -> exists i, i < k /\ x = g i.
Proof. unfold mk. intros H. apply in_map_iff in H. destruct H as [i [E Hi]]. apply in_seq in Hi.
  exists i. split; [lia|now symmetry]. Qed.

(* ---- the three vertical passes of vrr2_cube (_two_elec_int.py:346-399) ---- *)
Section VrrCube.
Variables (L : nat) (pax pay paz pqx pqy pqz twop w : F) (base : nat -> F).
Let v := 1 / twop.

Definition V3g (ax ay az m : nat) : F :=
  Vf2 K paz (w * pqz) v w
    (fun m2 => Vf2 K pay (w * pqy) v w (fun m1 => Vf2 K pax (w * pqx) v w base ax m1) ay m2) az m.

Let v0 := mk (S L) (fun m => [base m]).
Let X := vpass2 K L pax (w * pqx) twop w v0.
Let v0y := mk (S L) (fun m => mk (S L) (fun ax => nth 0 (nth m (nth ax X []) []) 0)).
Let Y := vpass2 K L pay (w * pqy) twop w v0y.
Let v0z := mk (S L) (fun m => concat (mk (S L) (fun ay => nth m (nth ay Y []) []))).
Let Z := vpass2 K L paz (w * pqz) twop w v0z.

Lemma X_entry ax m : m + ax <= L ->
  nth 0 (nth m (nth ax X []) []) 0 = Vf2 K pax (w * pqx) v w base ax m.
Proof.
  intros H. unfold X.
  rewrite (vpass2_entry L 1 pax (w * pqx) twop w v0) by
    (try lia; intros m' Hm'; unfold v0; rewrite nth_mk by lia; reflexivity).
  apply (Vf2_local K). intros k Hk. unfold chan, v0. rewrite nth_mk by lia. reflexivity.
Qed.

Lemma v0y_len m : m <= L -> length (nth m v0y []) = S L.
Proof. intros H. unfold v0y. rewrite nth_mk by lia. apply mk_length. Qed.

Lemma Y_entry ay m ax : m + ay + ax <= L ->
  nth ax (nth m (nth ay Y []) []) 0
  = Vf2 K pay (w * pqy) v w (fun m1 => Vf2 K pax (w * pqx) v w base ax m1) ay m.
Proof.
  intros H. unfold Y.
  rewrite (vpass2_entry L (S L) pay (w * pqy) twop w v0y v0y_len) by lia.
  apply (Vf2_local K). intros k Hk. unfold chan, v0y.
  rewrite nth_mk by lia. rewrite nth_mk by lia. apply X_entry. lia.
Qed.
Lemma Y_len ay m : ay <= L -> m <= L -> length (nth m (nth ay Y []) []) = S L.
Proof. intros. unfold Y. now apply (vpass2_row_length L (S L) pay (w * pqy) twop w v0y v0y_len). Qed.

Lemma v0z_rows m : m <= L ->
  forall r, In r (mk (S L) (fun ay => nth m (nth ay Y []) [])) -> length r = S L.
Proof. intros Hm r Hr. apply in_mk in Hr. destruct Hr as [ay [Hay ->]]. apply Y_len; lia. Qed.
Lemma v0z_len m : m <= L -> length (nth m v0z []) = (S L * S L)%nat.
Proof. intros H. unfold v0z. rewrite nth_mk by lia.
  rewrite (concat_uniform_length _ (S L)) by (now apply v0z_rows). now rewrite mk_length. Qed.

Lemma Z_entry az ay ax : ax + ay + az <= L ->
  nth (ay * S L + ax) (nth 0 (nth az Z []) []) 0 = V3g ax ay az 0.
Proof.
  intros H. unfold Z.
  assert (Hch : ay * S L + ax < S L * S L).
  { apply Nat.lt_le_trans with (ay * S L + S L)%nat; [lia|].
    replace (ay * S L + S L)%nat with (S ay * S L)%nat by (cbn [Nat.mul]; lia).
    apply Nat.mul_le_mono_r. lia. }
  rewrite (vpass2_entry L (S L * S L) paz (w * pqz) twop w v0z v0z_len) by lia.
  unfold V3g. apply (Vf2_local K). intros k Hk. unfold chan, v0z.
  rewrite nth_mk by lia.
  rewrite (nth_concat_uniform _ (S L)) by (try apply v0z_rows; rewrite ?mk_length; lia).
  rewrite nth_mk by lia. apply Y_entry. lia.
Qed.

(* inside |a| <= L the cube holds the three nested abstract recursions at m = 0 *)
Theorem vrr2_cube_entry ax ay az : ax + ay + az <= L ->
  cget K (vrr2_cube K L pax pay paz pqx pqy pqz twop w base) ax ay az = V3g ax ay az 0.
Proof.
  intros H. unfold vrr2_cube. cbv zeta. rewrite cget_mk3 by lia. now apply Z_entry.
Qed.
End VrrCube.

(* index along the axis, and the line of the cube through (x, y, z) along the axis *)
Definition idx (axis x y z : nat) : nat := match axis with O => x | S O => y | _ => z end.
Definition line (axis : nat) (t : @cube F) (x y z : nat) : nat -> F :=
  fun a => match axis with O => cget K t a y z | S O => cget K t x a z | _ => cget K t x y a end.

(* ---- electron transfer pass: entry (c; x y z) inside idx + c <= L ---- *)
Section TPassList.
Variables (L Lc axis : nat) (coef twoq r : F) (t : @cube F).

Definition Pt (c : nat) (cu : @cube F) : Prop :=
  forall x y z, x <= L -> y <= L -> z <= L -> idx axis x y z + c <= L ->
    cget K cu x y z = ETf K coef twoq r (line axis t x y z) c (idx axis x y z).

Lemma tstep_inv c cur prev : Pt c cur -> (0 < c -> Pt (c - 1) prev) ->
  Pt (S c) (tstep K L axis coef twoq r c cur prev).
Proof.
  unfold Pt. intros Hc Hp x y z Hx Hy Hz Hi. unfold tstep. rewrite cget_mk3 by assumption.
  fold (idx axis x y z).
  destruct (Nat.eqb_spec (idx axis x y z) L) as [E|NE]; [lia|].
  rewrite (ETf_S K Kf).
  assert (Eprev : #c / twoq * cget K prev x y z
                  = #c / twoq * ETf K coef twoq r (line axis t x y z) (c - 1) (idx axis x y z)).
  { destruct c as [|c]; [cbn [ofnat]; rewrite (div_as_mul K Kf 0); ring|].
    rewrite (Hp ltac:(lia) x y z) by (assumption || lia). reflexivity. }
  rewrite Eprev. rewrite (Hc x y z) by (assumption || lia).
  destruct axis as [|[|ax]]; cbn [idx line] in *.
  - rewrite (Hc (S x) y z), (Hc (x - 1)%nat y z) by (cbn [idx]; lia). reflexivity.
  - rewrite (Hc x (S y) z), (Hc x (y - 1)%nat z) by (cbn [idx]; lia). reflexivity.
  - rewrite (Hc x y (S z)), (Hc x y (z - 1)%nat) by (cbn [idx]; lia). reflexivity.
Qed.

(* _two_elec_int.py:413-526: the column a = L is never written, so the table holds the abstract
   transfer recursion exactly on idx + c <= L *)
Theorem tpass_entry c x y z : c <= Lc -> x <= L -> y <= L -> z <= L -> idx axis x y z + c <= L ->
  cget K (nth c (tpass K L Lc axis coef twoq r t) []) x y z
  = ETf K coef twoq r (line axis t x y z) c (idx axis x y z).
Proof.
  intros Hc Hx Hy Hz Hi. unfold tpass.
  assert (G : Pt (0 + c) (nth c (iter2 (tstep K L axis coef twoq r) Lc 0 t []) [])).
  { apply (iter2_spec (tstep K L axis coef twoq r) Pt); [| | |exact Hc].
    - intros j cu pv. apply tstep_inv.
    - intros x' y' z' _ _ _ _. rewrite (ETf_0 K). destruct axis as [|[|ax]]; reflexivity.
    - intros Hlt. lia. }
  apply G; assumption.
Qed.
End TPassList.

(* ---- the three transfer passes of eri_prim ---- *)
Lemma nth_map_lt {A B} (f : A -> B) (l : list A) i dB dA :
  i < length l -> nth i (map f l) dB = f (nth i l dA).
Proof. intros H. rewrite (nth_indep _ dB (f dA)) by (now rewrite map_length). apply map_nth. Qed.

Section TPass3.
Variables (L Lc : nat) (coefx coefy coefz twoq r : F) (W : @cube F).

Definition E3g (Wf : nat -> nat -> nat -> F) (cx cy cz ax ay az : nat) : F :=
  ETf K coefz twoq r (fun az' =>
    ETf K coefy twoq r (fun ay' =>
      ETf K coefx twoq r (fun ax' => Wf ax' ay' az') cx ax) cy ay) cz az.

Definition tpass3 : list (list (list (@cube F))) :=
  map (fun tx => map (fun ty => tpass K L Lc 2 coefz twoq r ty) (tpass K L Lc 1 coefy twoq r tx))
      (tpass K L Lc 0 coefx twoq r W).

Theorem tpass3_entry cx cy cz ax ay az :
  cx <= Lc -> cy <= Lc -> cz <= Lc -> ax + cx <= L -> ay + cy <= L -> az + cz <= L ->
  cget K (nth cz (nth cy (nth cx tpass3 []) []) []) ax ay az
  = E3g (fun x y z => cget K W x y z) cx cy cz ax ay az.
Proof.
  intros Hcx Hcy Hcz Hx Hy Hz. unfold tpass3, E3g.
  rewrite (nth_map_lt (A:=@cube F) (B:=list (list (@cube F))) _ _ cx [] []) by (unfold tpass; rewrite iter2_length; lia).
  rewrite (nth_map_lt (A:=@cube F) (B:=list (@cube F)) _ _ cy [] []) by (unfold tpass; rewrite iter2_length; lia).
  rewrite (tpass_entry L Lc 2) by (cbn [idx]; lia). unfold line, idx; cbv beta iota.
  apply (ETf_local K). intros jz Hjz. unfold line; cbv beta iota.
  rewrite (tpass_entry L Lc 1) by (cbn [idx]; lia). unfold line, idx; cbv beta iota.
  apply (ETf_local K). intros jy Hjy. unfold line; cbv beta iota.
  rewrite (tpass_entry L Lc 0) by (cbn [idx]; lia). unfold line, idx; cbv beta iota.
  reflexivity.
Qed.

(* if W agrees with a function Wf on x + y + z <= L, the entries with |a| + |c| <= L only see Wf *)
Theorem tpass3_entry_region (Wf : nat -> nat -> nat -> F) cx cy cz ax ay az :
  (forall x y z, x + y + z <= L -> cget K W x y z = Wf x y z) ->
  cx <= Lc -> cy <= Lc -> cz <= Lc -> ax + ay + az + cx + cy + cz <= L ->
  cget K (nth cz (nth cy (nth cx tpass3 []) []) []) ax ay az = E3g Wf cx cy cz ax ay az.
Proof.
  intros HW Hcx Hcy Hcz Hreg. rewrite tpass3_entry by lia. unfold E3g.
  apply (ETf_local K). intros jz Hjz. cbv beta.
  apply (ETf_local K). intros jy Hjy. cbv beta.
  apply (ETf_local K). intros jx Hjx. cbv beta.
  apply HW. lia.
Qed.
End TPass3.

(* ---- horizontal transfer: entry (b; x y z) inside idx + b <= L ---- *)
Section HIterList.
Variables (L axis : nat) (ab : F) (t0 : @cube F).

Definition Ph (k : nat) (cu : @cube F) : Prop :=
  forall x y z, x <= L -> y <= L -> z <= L -> idx axis x y z + k <= L ->
    cget K cu x y z = Hf K ab (line axis t0 x y z) k (idx axis x y z).

Lemma hstep_inv k cu : Ph k cu -> Ph (S k) (hstep K L axis ab cu).
Proof.
  unfold Ph. intros Hc x y z Hx Hy Hz Hi. unfold hstep. rewrite cget_mk3 by assumption.
  fold (idx axis x y z).
  destruct (Nat.eqb_spec (idx axis x y z) L) as [E|NE]; [lia|].
  cbn [Hf]. rewrite (Hc x y z) by (assumption || lia).
  destruct axis as [|[|ax]]; cbn [idx line] in *.
  - rewrite (Hc (S x) y z) by (cbn [idx]; lia). reflexivity.
  - rewrite (Hc x (S y) z) by (cbn [idx]; lia). reflexivity.
  - rewrite (Hc x y (S z)) by (cbn [idx]; lia). reflexivity.
Qed.

Lemma hiter_inv : forall n cu k, Ph k cu -> forall b, b <= n ->
  Ph (k + b) (nth b (hiter K L axis ab n cu) []).
Proof.
  induction n as [|n IH]; intros cu k Hk b Hb.
  - assert (b = 0%nat) by lia. subst b. cbn [hiter nth]. now rewrite Nat.add_0_r.
  - destruct b as [|b]; cbn [hiter nth]; [now rewrite Nat.add_0_r|].
    replace (k + S b)%nat with (S k + b)%nat by lia. apply IH; [|lia]. now apply hstep_inv.
Qed.

Theorem hiter_entry n b x y z : b <= n -> x <= L -> y <= L -> z <= L -> idx axis x y z + b <= L ->
  cget K (nth b (hiter K L axis ab n t0) []) x y z
  = Hf K ab (line axis t0 x y z) b (idx axis x y z).
Proof.
  intros Hb Hx Hy Hz Hi.
  apply (hiter_inv n t0 0%nat); [|exact Hb|assumption..].
  intros x' y' z' _ _ _ _. destruct axis as [|[|ax]]; reflexivity.
Qed.
End HIterList.

(* ---- the three horizontal passes of OneElec.hrr: [bx][by][bz] cube over a ---- *)
Section Hrr3.
Variables (L lb : nat) (abx aby abz : F) (t : @cube F).

Definition H3g (Tf : nat -> nat -> nat -> F) (bx by_ bz ax ay az : nat) : F :=
  Hf K abz (fun az' => Hf K aby (fun ay' => Hf K abx (fun ax' => Tf ax' ay' az') bx ax) by_ ay) bz az.

Lemma hiter_length ax ab n (cu : @cube F) : length (hiter K L ax ab n cu) = S n.
Proof. revert cu; induction n as [|n IH]; intros cu; cbn [hiter length]; [reflexivity|]. now rewrite IH. Qed.

Theorem hrr3_entry bx by_ bz ax ay az :
  bx <= lb -> by_ <= lb -> bz <= lb -> ax + bx <= L -> ay + by_ <= L -> az + bz <= L ->
  cget K (nth bz (nth by_ (nth bx (hrr K L lb abx aby abz t) []) []) []) ax ay az
  = H3g (fun x y z => cget K t x y z) bx by_ bz ax ay az.
Proof.
  intros Hbx Hby Hbz Hx Hy Hz. unfold hrr, H3g.
  rewrite (nth_map_lt (A:=@cube F) (B:=list (list (@cube F))) _ _ bx [] []) by (rewrite hiter_length; lia).
  rewrite (nth_map_lt (A:=@cube F) (B:=list (@cube F)) _ _ by_ [] []) by (rewrite hiter_length; lia).
  rewrite (hiter_entry L 2) by (cbn [idx]; lia). unfold line, idx; cbv beta iota.
  apply (Hf_local K). intros jz Hjz. cbv beta.
  rewrite (hiter_entry L 1) by (cbn [idx]; lia). unfold line, idx; cbv beta iota.
  apply (Hf_local K). intros jy Hjy. cbv beta.
  rewrite (hiter_entry L 0) by (cbn [idx]; lia). unfold line, idx; cbv beta iota.
  reflexivity.
Qed.
End Hrr3.

(* ---- eri_channel: horizontal recursion c -> d for every a, then a -> b for every (c, d) ---- *)
Section Channel.
Variables (La Lc lb ld : nat) (abx aby abz cdx cdy cdz : F) (comps3 comps4 : list comp)
          (getc : nat -> nat -> nat -> nat -> nat -> nat -> F).

(* the abstract value: HRR on (a, b) of HRR on (c, d) of the contracted [a0|c0] integrals *)
Definition chan_val (cx cy cz dx dy dz bx by_ bz ax ay az : nat) : F :=
  H3g abx aby abz (fun ax' ay' az' =>
    H3g cdx cdy cdz (fun cx' cy' cz' => getc cx' cy' cz' ax' ay' az') dx dy dz cx cy cz)
    bx by_ bz ax ay az.

Lemma H3g_local ex ey ez (T T' : nat -> nat -> nat -> F) bx by_ bz ax ay az :
  (forall x y z, ax <= x <= ax + bx -> ay <= y <= ay + by_ -> az <= z <= az + bz -> T x y z = T' x y z) ->
  H3g ex ey ez T bx by_ bz ax ay az = H3g ex ey ez T' bx by_ bz ax ay az.
Proof.
  intros H. unfold H3g.
  apply (Hf_local K). intros jz Hjz. apply (Hf_local K). intros jy Hjy.
  apply (Hf_local K). intros jx Hjx. now apply H.
Qed.

Theorem eri_channel_entry i3 i4 bx by_ bz ax ay az :
  i3 < length comps3 -> i4 < length comps4 ->
  let c3 := nth i3 comps3 (0, 0, 0)%nat in let c4 := nth i4 comps4 (0, 0, 0)%nat in
  let cx := fst (fst c3) in let cy := snd (fst c3) in let cz := snd c3 in
  let dx := fst (fst c4) in let dy := snd (fst c4) in let dz := snd c4 in
  dx <= ld -> dy <= ld -> dz <= ld -> cx + dx <= Lc -> cy + dy <= Lc -> cz + dz <= Lc ->
  bx <= lb -> by_ <= lb -> bz <= lb -> ax + bx <= La -> ay + by_ <= La -> az + bz <= La ->
  cget K (nth bz (nth by_ (nth bx
     (nth i4 (nth i3 (eri_channel K La Lc lb ld abx aby abz cdx cdy cdz comps3 comps4 getc) []) [])
     []) []) []) ax ay az
  = chan_val cx cy cz dx dy dz bx by_ bz ax ay az.
Proof.
  intros Hi3 Hi4 c3 c4 cx cy cz dx dy dz Hdx Hdy Hdz Hcx Hcy Hcz Hbx Hby Hbz Hax Hay Haz.
  unfold eri_channel. cbv zeta.
  rewrite (nth_map_lt (A:=comp) _ _ i3 [] (0, 0, 0)%nat) by exact Hi3.
  rewrite (nth_map_lt (A:=comp) _ _ i4 [] (0, 0, 0)%nat) by exact Hi4.
  fold c3 c4. fold cx cy cz dx dy dz.
  rewrite hrr3_entry by assumption.
  unfold chan_val. apply H3g_local. intros x y z Hx Hy Hz.
  rewrite cget_mk3 by lia.
  rewrite nth_mk by lia. rewrite nth_mk by lia. rewrite nth_mk by lia.
  rewrite hrr3_entry by assumption.
  apply H3g_local. intros x' y' z' Hx' Hy' Hz'.
  rewrite cget_mk3 by lia. reflexivity.
Qed.
End Channel.

(* ---- eri_block: every entry of the block in terms of the contracted [a0|c0] integrals ---- *)
Definition compsum (c : comp) : nat := (fst (fst c) + snd (fst c) + snd c)%nat.

Definition eri_prims (s1 s2 s3 s4 : shell F) : list (list (list (list (ecube (F:=F))))) :=
  let L := (s_l s1 + s_l s2 + s_l s3 + s_l s4)%nat in let Lc := (s_l s3 + s_l s4)%nat in
  map (fun alpha => map (fun beta => map (fun gamma => map (fun delta =>
      eri_prim K L Lc (coord3 s1) (coord3 s2) (coord3 s3) (coord3 s4) alpha beta gamma delta)
      (s_exps s4)) (s_exps s3)) (s_exps s2)) (s_exps s1).

Theorem eri_block_entry (s1 s2 s3 s4 : shell F) m1 i1 m2 i2 m3 i3 m4 i4 :
  m1 < nseg s1 -> m2 < nseg s2 -> m3 < nseg s3 -> m4 < nseg s4 ->
  i1 < length (comps_of s1) -> i2 < length (comps_of s2) ->
  i3 < length (comps_of s3) -> i4 < length (comps_of s4) ->
  let c1 := nth i1 (comps_of s1) (0, 0, 0)%nat in let c2 := nth i2 (comps_of s2) (0, 0, 0)%nat in
  let c3 := nth i3 (comps_of s3) (0, 0, 0)%nat in let c4 := nth i4 (comps_of s4) (0, 0, 0)%nat in
  compsum c1 <= s_l s1 -> compsum c2 <= s_l s2 -> compsum c3 <= s_l s3 -> compsum c4 <= s_l s4 ->
  nth i4 (nth m4 (nth i3 (nth m3 (nth i2 (nth m2 (nth i1 (nth m1 (eri_block K s1 s2 s3 s4)
    []) []) []) []) []) []) []) 0
  = chan_val (s_x s1 - s_x s2) (s_y s1 - s_y s2) (s_z s1 - s_z s2)
             (s_x s3 - s_x s4) (s_y s3 - s_y s4) (s_z s3 - s_z s4)
             (eri_contract K (wts K s1) (wts K s2) (wts K s3) (wts K s4) (eri_prims s1 s2 s3 s4) m1 m2 m3 m4)
             (fst (fst c3)) (snd (fst c3)) (snd c3) (fst (fst c4)) (snd (fst c4)) (snd c4)
             (fst (fst c2)) (snd (fst c2)) (snd c2) (fst (fst c1)) (snd (fst c1)) (snd c1)
    * inv_sqrt_df K c1 * inv_sqrt_df K c2 * inv_sqrt_df K c3 * inv_sqrt_df K c4.
Proof.
  intros Hm1 Hm2 Hm3 Hm4 Hi1 Hi2 Hi3 Hi4 c1 c2 c3 c4 Hc1 Hc2 Hc3 Hc4.
  unfold compsum in *.
  unfold eri_block. cbv zeta.
  rewrite nth_mk by assumption. rewrite nth_mk by assumption. rewrite nth_mk by assumption.
  rewrite nth_mk by assumption. rewrite nth_mk by assumption. rewrite nth_mk by assumption.
  rewrite nth_mk by assumption. rewrite nth_mk by assumption.
  rewrite nth_mk by assumption. rewrite nth_mk by assumption. rewrite nth_mk by assumption.
  rewrite nth_mk by assumption.
  rewrite !(nth_map_lt (A:=comp) (inv_sqrt_df K) _ _ 0 (0, 0, 0)%nat) by assumption.
  fold c1 c2 c3 c4.
  rewrite eri_channel_entry by (try assumption; fold c3 c4; lia).
  reflexivity.
Qed.

(* ---- the all-s closed form (_two_elec_int.py:8-145) is the general path with L = 0 ---- *)
Definition eri_pref (A B C D : F * F * F) (alpha beta gamma delta : F) : F :=
  let p := alpha + beta in let q := gamma + delta in
  let ab2 := (fst (fst A) - fst (fst B)) * (fst (fst A) - fst (fst B))
             + (snd (fst A) - snd (fst B)) * (snd (fst A) - snd (fst B))
             + (snd A - snd B) * (snd A - snd B) in
  let cd2 := (fst (fst C) - fst (fst D)) * (fst (fst C) - fst (fst D))
             + (snd (fst C) - snd (fst D)) * (snd (fst C) - snd (fst D))
             + (snd C - snd D) * (snd C - snd D) in
  (1 + 1) * (fpi K * fpi K * fsqrt K (fpi K)) / (p * q * fsqrt K (p + q))
  * fexp K (- (alpha * beta / p * ab2)) * fexp K (- (gamma * delta / q * cd2)).
Definition eri_T (A B C D : F * F * F) (alpha beta gamma delta : F) : F :=
  let p := alpha + beta in let q := gamma + delta in
  let Px := (alpha * fst (fst A) + beta * fst (fst B)) / p in
  let Py := (alpha * snd (fst A) + beta * snd (fst B)) / p in
  let Pz := (alpha * snd A + beta * snd B) / p in
  let Qx := (gamma * fst (fst C) + delta * fst (fst D)) / q in
  let Qy := (gamma * snd (fst C) + delta * snd (fst D)) / q in
  let Qz := (gamma * snd C + delta * snd D) / q in
  p * q / (p + q) * ((Px - Qx) * (Px - Qx) + (Py - Qy) * (Py - Qy) + (Pz - Qz) * (Pz - Qz)).

Theorem all_s_closed_form A B C D alpha beta gamma delta :
  eri_prim K 0 0 A B C D alpha beta gamma delta
  = [[[ [[[ fapx K (eri_pref A B C D alpha beta gamma delta
                    * fboys K 0 (eri_T A B C D alpha beta gamma delta)) ]]] ]]].
Proof.
  destruct A as [[Ax Ay] Az], B as [[Bx By] Bz], C as [[Cx Cy] Cz], D as [[Dx Dy] Dz].
  reflexivity.
Qed.

(* ---- the primitive [a0|c0] table of the model, every entry of the region |a| + |c| <= L ---- *)
Section EriPrim.
Variables (Ax Ay Az Bx By Bz Cx Cy Cz Dx Dy Dz alpha beta gamma delta : F).
Let A := (Ax, Ay, Az). Let B := (Bx, By, Bz). Let C := (Cx, Cy, Cz). Let D := (Dx, Dy, Dz).
Let p := alpha + beta.
Let q := gamma + delta.
Let Px := (alpha * Ax + beta * Bx) / p. Let Py := (alpha * Ay + beta * By) / p.
Let Pz := (alpha * Az + beta * Bz) / p.
Let Qx := (gamma * Cx + delta * Dx) / q. Let Qy := (gamma * Cy + delta * Dy) / q.
Let Qz := (gamma * Cz + delta * Dz) / q.
(* beta_m = fapx (pref * F_m(T)) : the sequence the model feeds to the recursions *)
Definition eri_base (m : nat) : F :=
  fapx K (eri_pref A B C D alpha beta gamma delta * fboys K m (eri_T A B C D alpha beta gamma delta)).

Theorem eri_prim_entry L Lc cx cy cz ax ay az :
  cx <= Lc -> cy <= Lc -> cz <= Lc -> ax + ay + az + cx + cy + cz <= L ->
  eget K (eri_prim K L Lc A B C D alpha beta gamma delta) cx cy cz ax ay az
  = E3 K p q (Px - Ax) (Py - Ay) (Pz - Az) (Qx - Cx) (Qy - Cy) (Qz - Cz)
      (fun ax ay az => V3 K p q (Px - Ax) (Py - Ay) (Pz - Az) (Px - Qx) (Py - Qy) (Pz - Qz)
                          eri_base ax ay az 0)
      cx cy cz ax ay az.
Proof.
  intros Hcx Hcy Hcz Hreg.
  unfold eget, eri_prim, A, B, C, D. cbv zeta beta iota.
  fold p q. fold Px Py Pz Qx Qy Qz.
  match goal with |- cget K (nth cz (nth cy (nth cx (map _ (tpass K L Lc 0 ?cfx ?tq ?rr ?W)) []) []) []) _ _ _ = _ =>
    change (cget K (nth cz (nth cy (nth cx
              (tpass3 L Lc cfx ((Qy - Cy) + rr * (Py - Ay)) ((Qz - Cz) + rr * (Pz - Az)) tq rr W)
              []) []) []) ax ay az = E3g (Qx - Cx + p / q * (Px - Ax)) (Qy - Cy + p / q * (Py - Ay))
                (Qz - Cz + p / q * (Pz - Az)) ((1 + 1) * q) (p / q)
                (fun ax ay az => V3g (Px - Ax) (Py - Ay) (Pz - Az) (Px - Qx) (Py - Qy) (Pz - Qz)
                                   ((1 + 1) * p) (p * q / (p + q) / p) eri_base ax ay az 0)
                cx cy cz ax ay az) end.
  apply tpass3_entry_region; try assumption.
  intros x y z Hxyz. now apply vrr2_cube_entry.
Qed.

(* The primitive integrals [a0|c0]^(0) of the model are Phi_0 (s^k |-> beta_k) of a polynomial in s
   whose value at every s is the exact integrand: the product over the three axes of the bivariate
   Gaussian moments with the covariance and the means of DESIGN.md 2.4. *)
Theorem eri_prim_correct L Lc cx cy cz ax ay az :
  p <> 0 -> q <> 0 -> p + q <> 0 -> 1 + 1 <> 0 ->
  cx <= Lc -> cy <= Lc -> cz <= Lc -> ax + ay + az + cx + cy + cz <= L ->
  let R := R3 K p q (Px - Ax) (Py - Ay) (Pz - Az) (Qx - Cx) (Qy - Cy) (Qz - Cz)
              (Px - Qx) (Py - Qy) (Pz - Qz) cx cy cz ax ay az in
  eget K (eri_prim K L Lc A B C D alpha beta gamma delta) cx cy cz ax ay az = Phi K eri_base 0 R
  /\ forall s, peval K R s
       = Ms K p q (Px - Ax) (Qx - Cx) (Px - Qx) s ax cx
         * Ms K p q (Py - Ay) (Qy - Cy) (Py - Qy) s ay cy
         * Ms K p q (Pz - Az) (Qz - Cz) (Pz - Qz) s az cz.
Proof.
  intros Hp Hq Hpq H2 Hcx Hcy Hcz Hreg R.
  rewrite eri_prim_entry by assumption.
  apply (eri_3d_correct K Kf p q _ _ _ _ _ _ _ _ _ Hp Hq Hpq H2).
Qed.
End EriPrim.

End Lists.

(* ======================= the whole block ======================= *)
Section Whole.
Context {F : Type} (K : Fops F) (Kf : is_field K).
Add Field KFtw : Kf.
Local Open Scope F_scope.
Notation "0" := (f0 K) : F_scope.
Notation "1" := (f1 K) : F_scope.
Infix "+" := (fadd K) : F_scope.
Infix "*" := (fmul K) : F_scope.
Infix "-" := (fsub K) : F_scope.
Infix "/" := (fdiv K) : F_scope.
Notation "- x" := (fopp K x) : F_scope.
Notation "# n" := (ofnat K n) (at level 5) : F_scope.
Notation padd := (padd K).
Notation pscale := (pscale K).
Notation Phi := (Phi K).
Notation peval := (peval K).
Notation fsum := (FNum.fsum K).

Definition tab6 := nat -> nat -> nat -> nat -> nat -> nat -> F.

(* ---- horizontal recursion on s-polynomials ---- *)
Fixpoint Hp (ab : F) (T : nat -> list F) (b a : nat) : list F :=
  match b with O => T a | S b' => padd (Hp ab T b' (S a)) (pscale ab (Hp ab T b' a)) end.
Lemma Hp_linear (ell : list F -> F) :
  (forall f g, ell (padd f g) = ell f + ell g) -> (forall k f, ell (pscale k f) = k * ell f) ->
  forall ab T b a, ell (Hp ab T b a) = Hf K ab (fun j => ell (T j)) b a.
Proof. intros Ha Hs ab T. induction b as [|b IH]; intros a; cbn [Hp Hf]; [reflexivity|].
  rewrite Ha, Hs, !IH. reflexivity. Qed.

Section ChanPoly.
Variables (abx aby abz cdx cdy cdz : F).
(* the polynomial counterpart of chan_val *)
Definition chan_poly (G : nat -> nat -> nat -> nat -> nat -> nat -> list F)
           (cx cy cz dx dy dz bx by_ bz ax ay az : nat) : list F :=
  Hp abz (fun az' => Hp aby (fun ay' => Hp abx (fun ax' =>
    Hp cdz (fun cz' => Hp cdy (fun cy' => Hp cdx (fun cx' => G cx' cy' cz' ax' ay' az') dx cx) dy cy) dz cz)
    bx ax) by_ ay) bz az.

Lemma chan_poly_linear (ell : list F -> F) :
  (forall f g, ell (padd f g) = ell f + ell g) -> (forall k f, ell (pscale k f) = k * ell f) ->
  forall G cx cy cz dx dy dz bx by_ bz ax ay az,
  ell (chan_poly G cx cy cz dx dy dz bx by_ bz ax ay az)
  = chan_val K abx aby abz cdx cdy cdz (fun cx' cy' cz' ax' ay' az' => ell (G cx' cy' cz' ax' ay' az'))
             cx cy cz dx dy dz bx by_ bz ax ay az.
Proof.
  intros Ha Hs G cx cy cz dx dy dz bx by_ bz ax ay az. unfold chan_poly, chan_val, H3g.
  rewrite (Hp_linear ell Ha Hs). apply (Hf_ext K). intros az'.
  rewrite (Hp_linear ell Ha Hs). apply (Hf_ext K). intros ay'.
  rewrite (Hp_linear ell Ha Hs). apply (Hf_ext K). intros ax'.
  rewrite (Hp_linear ell Ha Hs). apply (Hf_ext K). intros cz'.
  rewrite (Hp_linear ell Ha Hs). apply (Hf_ext K). intros cy'.
  rewrite (Hp_linear ell Ha Hs). reflexivity.
Qed.

Lemma Hf_factor ab (T g : nat -> F) k b a : (forall j, T j = g j * k) -> Hf K ab T b a = Hf K ab g b a * k.
Proof. intros H. rewrite (Hf_ext K ab T (fun j => g j * k) H). apply (Hf_scale K Kf). Qed.

(* per-axis four-index quantity: HRR on (a, b) of HRR on (c, d) *)
Definition hh (ab cd : F) (g : nat -> nat -> F) (a b c d : nat) : F :=
  Hf K ab (fun a' => Hf K cd (fun c' => g a' c') d c) b a.

(* hh is characterised by: hh a 0 c 0 = g a c and the two rules "(x-B) = (x-A) + AB", "(x-D) = (x-C) + CD" *)
Lemma hh_00 ab cd g a c : hh ab cd g a 0 c 0 = g a c.
Proof. reflexivity. Qed.
Lemma hh_Sb ab cd g a b c d : hh ab cd g a (S b) c d = hh ab cd g (S a) b c d + ab * hh ab cd g a b c d.
Proof. reflexivity. Qed.
Lemma hh_Sd ab cd g a b c d : hh ab cd g a b c (S d) = hh ab cd g a b (S c) d + cd * hh ab cd g a b c d.
Proof.
  unfold hh. cbn [Hf].
  rewrite (Hf_ext K ab (fun a' => Hf K cd (fun c' => g a' c') d (S c) + cd * Hf K cd (fun c' => g a' c') d c)
                       (fun a' => Hf K cd (fun c' => g a' c') d (S c) + Hf K cd (fun c' => g a' c') d c * cd))
    by (intros; ring).
  rewrite (Hf_add K Kf ab (fun a' => Hf K cd (fun c' => g a' c') d (S c))
                          (fun a' => Hf K cd (fun c' => g a' c') d c * cd)).
  rewrite (Hf_scale K Kf). ring.
Qed.
(* explicit double binomial sum *)
Lemma hh_binomial ab cd g a b c d :
  hh ab cd g a b c d
  = sumn 0 (fadd K) (S b) (fun k => binF K b k * fpow K ab (b - k) *
      sumn 0 (fadd K) (S d) (fun l => binF K d l * fpow K cd (d - l) * g (a + k)%nat (c + l)%nat)).
Proof.
  unfold hh. rewrite (hrr_binomial K Kf). apply sumn_ext. intros k Hk.
  rewrite (hrr_binomial K Kf). reflexivity.
Qed.

(* a table that factorises over the axes gives a product of per-axis quantities *)
Lemma chan_val_product (gx gy gz : nat -> nat -> F) cx cy cz dx dy dz bx by_ bz ax ay az :
  chan_val K abx aby abz cdx cdy cdz
    (fun cx' cy' cz' ax' ay' az' => gx ax' cx' * gy ay' cy' * gz az' cz')
    cx cy cz dx dy dz bx by_ bz ax ay az
  = hh abx cdx gx ax bx cx dx * hh aby cdy gy ay by_ cy dy * hh abz cdz gz az bz cz dz.
Proof.
  unfold chan_val, H3g, hh.
  rewrite (Hf_factor abz _ (fun az' => Hf K cdz (fun c' => gz az' c') dz cz)
             (Hf K abx (fun a' => Hf K cdx (fun c' => gx a' c') dx cx) bx ax
              * Hf K aby (fun a' => Hf K cdy (fun c' => gy a' c') dy cy) by_ ay)); [ring|].
  intros az'.
  rewrite (Hf_factor aby _ (fun ay' => Hf K cdy (fun c' => gy ay' c') dy cy)
             (Hf K abx (fun a' => Hf K cdx (fun c' => gx a' c') dx cx) bx ax
              * Hf K cdz (fun c' => gz az' c') dz cz)); [ring|].
  intros ay'.
  rewrite (Hf_factor abx _ (fun ax' => Hf K cdx (fun c' => gx ax' c') dx cx)
             (Hf K cdy (fun c' => gy ay' c') dy cy * Hf K cdz (fun c' => gz az' c') dz cz)); [ring|].
  intros ax'.
  rewrite (Hf_factor cdz _ (fun cz' => gz az' cz')
             (Hf K cdx (fun c' => gx ax' c') dx cx * Hf K cdy (fun c' => gy ay' c') dy cy)); [ring|].
  intros cz'.
  rewrite (Hf_factor cdy _ (fun cy' => gy ay' cy')
             (Hf K cdx (fun c' => gx ax' c') dx cx * gz az' cz')); [ring|].
  intros cy'.
  rewrite (Hf_factor cdx _ (fun cx' => gx ax' cx') (gy ay' cy' * gz az' cz')); [ring|].
  intros cx'. ring.
Qed.

(* chan_val is a linear functional of the six-index table *)
Lemma chan_val_ext (G G' : tab6) cx cy cz dx dy dz bx by_ bz ax ay az :
  (forall cx' cy' cz' ax' ay' az', G cx' cy' cz' ax' ay' az' = G' cx' cy' cz' ax' ay' az') ->
  chan_val K abx aby abz cdx cdy cdz G cx cy cz dx dy dz bx by_ bz ax ay az
  = chan_val K abx aby abz cdx cdy cdz G' cx cy cz dx dy dz bx by_ bz ax ay az.
Proof.
  intros H. unfold chan_val. apply H3g_local. intros x y z _ _ _.
  apply H3g_local. intros x' y' z' _ _ _. apply H.
Qed.
Lemma chan_val_add (G1 G2 : tab6) cx cy cz dx dy dz bx by_ bz ax ay az :
  chan_val K abx aby abz cdx cdy cdz
    (fun cx' cy' cz' ax' ay' az' => G1 cx' cy' cz' ax' ay' az' + G2 cx' cy' cz' ax' ay' az')
    cx cy cz dx dy dz bx by_ bz ax ay az
  = chan_val K abx aby abz cdx cdy cdz G1 cx cy cz dx dy dz bx by_ bz ax ay az
    + chan_val K abx aby abz cdx cdy cdz G2 cx cy cz dx dy dz bx by_ bz ax ay az.
Proof.
  unfold chan_val, H3g.
  repeat (rewrite <- (Hf_add K Kf); apply (Hf_ext K); intro).
  reflexivity.
Qed.
Lemma chan_val_scale (G : tab6) k cx cy cz dx dy dz bx by_ bz ax ay az :
  chan_val K abx aby abz cdx cdy cdz
    (fun cx' cy' cz' ax' ay' az' => G cx' cy' cz' ax' ay' az' * k)
    cx cy cz dx dy dz bx by_ bz ax ay az
  = chan_val K abx aby abz cdx cdy cdz G cx cy cz dx dy dz bx by_ bz ax ay az * k.
Proof.
  unfold chan_val, H3g.
  repeat (rewrite <- (Hf_scale K Kf); apply (Hf_ext K); intro).
  reflexivity.
Qed.
Lemma chan_val_local (G G' : tab6) cx cy cz dx dy dz bx by_ bz ax ay az :
  (forall cx' cy' cz' ax' ay' az',
     cx <= cx' <= cx + dx -> cy <= cy' <= cy + dy -> cz <= cz' <= cz + dz ->
     ax <= ax' <= ax + bx -> ay <= ay' <= ay + by_ -> az <= az' <= az + bz ->
     G cx' cy' cz' ax' ay' az' = G' cx' cy' cz' ax' ay' az') ->
  chan_val K abx aby abz cdx cdy cdz G cx cy cz dx dy dz bx by_ bz ax ay az
  = chan_val K abx aby abz cdx cdy cdz G' cx cy cz dx dy dz bx by_ bz ax ay az.
Proof.
  intros H. unfold chan_val. apply H3g_local. intros x y z Hx Hy Hz.
  apply H3g_local. intros x' y' z' Hx' Hy' Hz'. now apply H.
Qed.
End ChanPoly.

(* ---- sums over the primitives ---- *)
Lemma csum_map {A B} ws m (g : A -> B) (xs : list A) (f : B -> F) :
  csum K ws m (map g xs) f = csum K ws m xs (fun x => f (g x)).
Proof. unfold csum. revert ws. induction xs as [|x xs IH]; intros [|w ws]; cbn [map combine]; try reflexivity.
  cbn [FNum.fsum fold_right]. f_equal. apply IH. Qed.
Lemma csum_ext_in {A} ws m (xs : list A) (f f' : A -> F) :
  (forall x, In x xs -> f x = f' x) -> csum K ws m xs f = csum K ws m xs f'.
Proof. unfold csum. revert ws. induction xs as [|x xs IH]; intros [|w ws] H; cbn [map combine]; try reflexivity.
  cbn [FNum.fsum fold_right snd fst]. rewrite (H x) by (now left). f_equal.
  apply IH. intros y Hy. apply H. now right. Qed.

Lemma csum_linear (Lam : tab6 -> F) :
  (forall G G', (forall a b c d e g, G a b c d e g = G' a b c d e g) -> Lam G = Lam G') ->
  (forall G1 G2, Lam (fun a b c d e g => G1 a b c d e g + G2 a b c d e g) = Lam G1 + Lam G2) ->
  (forall G k, Lam (fun a b c d e g => G a b c d e g * k) = Lam G * k) ->
  forall {A} ws m (xs : list A) (f : A -> tab6),
  Lam (fun a b c d e g => csum K ws m xs (fun x => f x a b c d e g))
  = csum K ws m xs (fun x => Lam (f x)).
Proof.
  intros Hext Hadd Hsc A ws m xs f. unfold csum.
  assert (Hz : Lam (fun _ _ _ _ _ _ => 0) = 0).
  { rewrite (Hext _ (fun a b c d e g => (fun _ _ _ _ _ _ => 0) a b c d e g * 0))
      by (intros; cbv beta; ring). rewrite Hsc. ring. }
  revert ws. induction xs as [|x xs IH]; intros [|w ws]; cbn [map combine FNum.fsum fold_right]; try exact Hz.
  cbn [snd fst].
  rewrite (Hadd (fun a b c d e g => f x a b c d e g * wcoef K m w)
                (fun a b c d e g => fold_right (fadd K) 0
                   (map (fun wx : F * list F * A => f (snd wx) a b c d e g * wcoef K m (fst wx)) (combine ws xs)))).
  rewrite Hsc. f_equal. apply IH.
Qed.

(* ---- the statement for one block entry ---- *)
Section Final.
Variables (s1 s2 s3 s4 : shell F) (m1 i1 m2 i2 m3 i3 m4 i4 : nat).
Let c1 := nth i1 (comps_of s1) (0, 0, 0)%nat.
Let c2 := nth i2 (comps_of s2) (0, 0, 0)%nat.
Let c3 := nth i3 (comps_of s3) (0, 0, 0)%nat.
Let c4 := nth i4 (comps_of s4) (0, 0, 0)%nat.
Let abx := s_x s1 - s_x s2. Let aby := s_y s1 - s_y s2. Let abz := s_z s1 - s_z s2.
Let cdx := s_x s3 - s_x s4. Let cdy := s_y s3 - s_y s4. Let cdz := s_z s3 - s_z s4.

(* weighted centre along one axis *)
Definition wctr (a b x y : F) : F := (a * x + b * y) / (a + b).

(* the s-polynomial of the primitive quartet (alpha beta | gamma delta) for this entry *)
Definition R4 (alpha beta gamma delta : F) : list F :=
  let p := alpha + beta in let q := gamma + delta in
  let Px := wctr alpha beta (s_x s1) (s_x s2) in let Py := wctr alpha beta (s_y s1) (s_y s2) in
  let Pz := wctr alpha beta (s_z s1) (s_z s2) in
  let Qx := wctr gamma delta (s_x s3) (s_x s4) in let Qy := wctr gamma delta (s_y s3) (s_y s4) in
  let Qz := wctr gamma delta (s_z s3) (s_z s4) in
  chan_poly abx aby abz cdx cdy cdz
    (R3 K p q (Px - s_x s1) (Py - s_y s1) (Pz - s_z s1) (Qx - s_x s3) (Qy - s_y s3) (Qz - s_z s3)
        (Px - Qx) (Py - Qy) (Pz - Qz))
    (fst (fst c3)) (snd (fst c3)) (snd c3) (fst (fst c4)) (snd (fst c4)) (snd c4)
    (fst (fst c2)) (snd (fst c2)) (snd c2) (fst (fst c1)) (snd (fst c1)) (snd c1).

(* the exact per-axis integrand at s: E[(y1+a1)^a (y1+a1+AB)^b (y2+c1)^c (y2+c1+CD)^d] *)
Definition M4 (alpha beta gamma delta : F) (xa xb xc xd : F) (s : F) (a b c d : nat) : F :=
  let p := alpha + beta in let q := gamma + delta in
  let P := wctr alpha beta xa xb in let Q := wctr gamma delta xc xd in
  hh (xa - xb) (xc - xd) (fun a' c' => Ms K p q (P - xa) (Q - xc) (P - Q) s a' c') a b c d.

Hypothesis Hapx : forall x, fapx K x = x.
Hypothesis H2 : 1 + 1 <> 0.
Hypothesis Hp : forall alpha beta, In alpha (s_exps s1) -> In beta (s_exps s2) -> alpha + beta <> 0.
Hypothesis Hq : forall gamma delta, In gamma (s_exps s3) -> In delta (s_exps s4) -> gamma + delta <> 0.
Hypothesis Hpq : forall alpha beta gamma delta, In alpha (s_exps s1) -> In beta (s_exps s2) ->
  In gamma (s_exps s3) -> In delta (s_exps s4) -> (alpha + beta) + (gamma + delta) <> 0.
Hypothesis Hm1 : m1 < nseg s1. Hypothesis Hm2 : m2 < nseg s2.
Hypothesis Hm3 : m3 < nseg s3. Hypothesis Hm4 : m4 < nseg s4.
Hypothesis Hi1 : i1 < length (comps_of s1). Hypothesis Hi2 : i2 < length (comps_of s2).
Hypothesis Hi3 : i3 < length (comps_of s3). Hypothesis Hi4 : i4 < length (comps_of s4).
Hypothesis Hc1 : compsum c1 <= s_l s1. Hypothesis Hc2 : compsum c2 <= s_l s2.
Hypothesis Hc3 : compsum c3 <= s_l s3. Hypothesis Hc4 : compsum c4 <= s_l s4.

Theorem two_elec_correct :
  nth i4 (nth m4 (nth i3 (nth m3 (nth i2 (nth m2 (nth i1 (nth m1 (eri_block K s1 s2 s3 s4)
    []) []) []) []) []) []) []) 0
  = csum K (wts K s1) m1 (s_exps s1) (fun alpha =>
      csum K (wts K s2) m2 (s_exps s2) (fun beta =>
        csum K (wts K s3) m3 (s_exps s3) (fun gamma =>
          csum K (wts K s4) m4 (s_exps s4) (fun delta =>
            Phi (eri_base K (s_x s1) (s_y s1) (s_z s1) (s_x s2) (s_y s2) (s_z s2)
                            (s_x s3) (s_y s3) (s_z s3) (s_x s4) (s_y s4) (s_z s4)
                            alpha beta gamma delta) 0 (R4 alpha beta gamma delta)))))
    * inv_sqrt_df K c1 * inv_sqrt_df K c2 * inv_sqrt_df K c3 * inv_sqrt_df K c4
  /\ forall alpha beta gamma delta s,
       In alpha (s_exps s1) -> In beta (s_exps s2) -> In gamma (s_exps s3) -> In delta (s_exps s4) ->
       peval (R4 alpha beta gamma delta) s
       = M4 alpha beta gamma delta (s_x s1) (s_x s2) (s_x s3) (s_x s4) s
            (fst (fst c1)) (fst (fst c2)) (fst (fst c3)) (fst (fst c4))
         * M4 alpha beta gamma delta (s_y s1) (s_y s2) (s_y s3) (s_y s4) s
            (snd (fst c1)) (snd (fst c2)) (snd (fst c3)) (snd (fst c4))
         * M4 alpha beta gamma delta (s_z s1) (s_z s2) (s_z s3) (s_z s4) s
            (snd c1) (snd c2) (snd c3) (snd c4).
Proof.
  split.
  - rewrite (eri_block_entry K s1 s2 s3 s4 m1 i1 m2 i2 m3 i3 m4 i4) by assumption.
    fold c1 c2 c3 c4. fold abx aby abz cdx cdy cdz.
    f_equal. f_equal. f_equal. f_equal.
    set (Lam := fun G : tab6 => chan_val K abx aby abz cdx cdy cdz G
                  (fst (fst c3)) (snd (fst c3)) (snd c3) (fst (fst c4)) (snd (fst c4)) (snd c4)
                  (fst (fst c2)) (snd (fst c2)) (snd c2) (fst (fst c1)) (snd (fst c1)) (snd c1)).
    assert (Lext : forall G G', (forall a b c d e g, G a b c d e g = G' a b c d e g) -> Lam G = Lam G')
      by (intros; apply chan_val_ext; assumption).
    assert (Ladd : forall G1 G2, Lam (fun a b c d e g => G1 a b c d e g + G2 a b c d e g) = Lam G1 + Lam G2)
      by (intros; apply chan_val_add).
    assert (Lsc : forall G k, Lam (fun a b c d e g => G a b c d e g * k) = Lam G * k)
      by (intros; apply chan_val_scale).
    match goal with |- _ = ?rhs =>
      change (Lam (eri_contract K (wts K s1) (wts K s2) (wts K s3) (wts K s4) (eri_prims K s1 s2 s3 s4) m1 m2 m3 m4) = rhs) end.
    unfold eri_contract, eri_prims. cbv zeta.
    rewrite (Lext _ (fun a b c d e g => csum K (wts K s1) m1 _ (fun p1 =>
               csum K (wts K s2) m2 p1 (fun p2 => csum K (wts K s3) m3 p2 (fun p3 =>
                 csum K (wts K s4) m4 p3 (fun e0 => fapx K (eget K e0 a b c d e g))))))) by reflexivity.
    rewrite (csum_linear Lam Lext Ladd Lsc). rewrite csum_map.
    apply csum_ext_in. intros alpha Ha.
    rewrite (csum_linear Lam Lext Ladd Lsc). rewrite csum_map.
    apply csum_ext_in. intros beta Hb.
    rewrite (csum_linear Lam Lext Ladd Lsc). rewrite csum_map.
    apply csum_ext_in. intros gamma Hg.
    rewrite (csum_linear Lam Lext Ladd Lsc). rewrite csum_map.
    apply csum_ext_in. intros delta Hd.
    unfold R4. cbv zeta.
    rewrite (chan_poly_linear abx aby abz cdx cdy cdz (Phi _ 0) (Phi_padd K Kf _ 0)
               (fun k f => Phi_pscale K Kf _ 0 k f)).
    unfold Lam. apply chan_val_local.
    intros cx' cy' cz' ax' ay' az' Hcx Hcy Hcz Hax Hay Haz.
    rewrite Hapx. unfold coord3, wctr. unfold compsum in *.
    pose proof (eri_prim_correct K Kf (s_x s1) (s_y s1) (s_z s1) (s_x s2) (s_y s2) (s_z s2)
                  (s_x s3) (s_y s3) (s_z s3) (s_x s4) (s_y s4) (s_z s4) alpha beta gamma delta
                  (s_l s1 + s_l s2 + s_l s3 + s_l s4) (s_l s3 + s_l s4) cx' cy' cz' ax' ay' az'
                  (Hp _ _ Ha Hb) (Hq _ _ Hg Hd) (Hpq _ _ _ _ Ha Hb Hg Hd) H2) as E.
    cbv zeta in E. apply E; lia.
  - intros alpha beta gamma delta s Ha Hb Hg Hd.
    unfold R4. cbv zeta.
    rewrite (chan_poly_linear abx aby abz cdx cdy cdz (fun f => peval f s)
               (fun f g => peval_padd K Kf f g s) (fun k f => peval_pscale K Kf k f s)).
    rewrite (chan_val_ext abx aby abz cdx cdy cdz _
      (fun cx' cy' cz' ax' ay' az' =>
         Ms K (alpha + beta) (gamma + delta) (wctr alpha beta (s_x s1) (s_x s2) - s_x s1)
            (wctr gamma delta (s_x s3) (s_x s4) - s_x s3)
            (wctr alpha beta (s_x s1) (s_x s2) - wctr gamma delta (s_x s3) (s_x s4)) s ax' cx'
         * Ms K (alpha + beta) (gamma + delta) (wctr alpha beta (s_y s1) (s_y s2) - s_y s1)
            (wctr gamma delta (s_y s3) (s_y s4) - s_y s3)
            (wctr alpha beta (s_y s1) (s_y s2) - wctr gamma delta (s_y s3) (s_y s4)) s ay' cy'
         * Ms K (alpha + beta) (gamma + delta) (wctr alpha beta (s_z s1) (s_z s2) - s_z s1)
            (wctr gamma delta (s_z s3) (s_z s4) - s_z s3)
            (wctr alpha beta (s_z s1) (s_z s2) - wctr gamma delta (s_z s3) (s_z s4)) s az' cz')).
    2:{ intros cx' cy' cz' ax' ay' az'.
        apply (proj2 (eri_3d_correct K Kf _ _ _ _ _ _ _ _ _ _ _ (Hp _ _ Ha Hb) (Hq _ _ Hg Hd)
                        (Hpq _ _ _ _ Ha Hb Hg Hd) H2 (fun _ => 0) cx' cy' cz' ax' ay' az')). }
    rewrite chan_val_product. reflexivity.
Qed.
End Final.
End Whole.

(* ======================= the hypotheses are satisfiable (Qc) ======================= *)
From Coq Require Import QArith Qcanon.
Definition KQ4 : Fops Qc :=
  QcK true (Q2Qc 3) (fun x => x) (fun x => x) (fun x => x)
      (fun m _ => qc_of 1 (Pos.of_nat (2 * m + 1))).       (* an arbitrary "Boys" sequence 1/(2m+1) *)
Lemma KQ4_field : is_field KQ4. Proof. apply QcK_field. Qed.
Lemma qc_neq_of_bool (x y : Qc) : Qeq_bool x y = false -> x <> y.
Proof. intros Hb E. subst y. rewrite (proj2 (Qeq_bool_iff x x) (Qeq_refl x)) in Hb. discriminate. Qed.

(* p = 3/2, q = 2 *)
Example eri_hyps_ex :
  qc_of 3 2 <> f0 KQ4 /\ qc_of 2 1 <> f0 KQ4 /\ fadd KQ4 (qc_of 3 2) (qc_of 2 1) <> f0 KQ4
  /\ fadd KQ4 (f1 KQ4) (f1 KQ4) <> f0 KQ4.
Proof. repeat split; apply qc_neq_of_bool; vm_compute; reflexivity. Qed.

(* a concrete primitive quartet: the model entry [xz, 0 | x, 0] of a (d s | p s)-type table equals
   Phi_0 of the polynomial of eri_prim_correct, both sides computed *)
Example eri_prim_correct_ex :
  let A := (qc_of 1 2, qc_of 0 1, qc_of (-1) 4) in let B := (qc_of 0 1, qc_of 1 1, qc_of 1 2) in
  let C := (qc_of (-1) 1, qc_of 1 4, qc_of 0 1) in let D := (qc_of 3 4, qc_of (-1) 2, qc_of 1 1) in
  let al := qc_of 1 2 in let be := qc_of 1 1 in let ga := qc_of 3 2 in let de := qc_of 1 2 in
  let p := fadd KQ4 al be in let q := fadd KQ4 ga de in
  let ctr := fun a b x y => fdiv KQ4 (fadd KQ4 (fmul KQ4 a x) (fmul KQ4 b y)) (fadd KQ4 a b) in
  let Px := ctr al be (qc_of 1 2) (qc_of 0 1) in let Py := ctr al be (qc_of 0 1) (qc_of 1 1) in
  let Pz := ctr al be (qc_of (-1) 4) (qc_of 1 2) in
  let Qx := ctr ga de (qc_of (-1) 1) (qc_of 3 4) in let Qy := ctr ga de (qc_of 1 4) (qc_of (-1) 2) in
  let Qz := ctr ga de (qc_of 0 1) (qc_of 1 1) in
  eget KQ4 (eri_prim KQ4 3 1 A B C D al be ga de) 1 0 0 1 0 1
  = Phi KQ4 (eri_base KQ4 (qc_of 1 2) (qc_of 0 1) (qc_of (-1) 4) (qc_of 0 1) (qc_of 1 1) (qc_of 1 2)
                          (qc_of (-1) 1) (qc_of 1 4) (qc_of 0 1) (qc_of 3 4) (qc_of (-1) 2) (qc_of 1 1)
                          al be ga de) 0
        (R3 KQ4 p q (fsub KQ4 Px (qc_of 1 2)) (fsub KQ4 Py (qc_of 0 1)) (fsub KQ4 Pz (qc_of (-1) 4))
            (fsub KQ4 Qx (qc_of (-1) 1)) (fsub KQ4 Qy (qc_of 1 4)) (fsub KQ4 Qz (qc_of 0 1))
            (fsub KQ4 Px Qx) (fsub KQ4 Py Qy) (fsub KQ4 Pz Qz) 1 0 0 1 0 1).
Proof. apply Qc_is_canon. vm_compute. reflexivity. Qed.

(* a concrete quartet of shells (p d | s p), two primitives each, meeting every hypothesis of
   two_elec_correct for the entry [0][1][0][2][0][0][0][1] *)
Definition ex_shell (l : nat) (x y : Qc) (e1 e2 : Qc) : shell Qc :=
  mkShell Qc l x y (qc_of 0 1) [e1; e2] [[qc_of 1 1]; [qc_of 1 2]] false [] [].
Definition ex_s1 := ex_shell 1 (qc_of 0 1) (qc_of 1 2) (qc_of 1 1) (qc_of 1 2).
Definition ex_s2 := ex_shell 2 (qc_of 1 1) (qc_of 0 1) (qc_of 3 2) (qc_of 1 4).
Definition ex_s3 := ex_shell 0 (qc_of (-1) 2) (qc_of 1 1) (qc_of 2 1) (qc_of 1 2).
Definition ex_s4 := ex_shell 1 (qc_of 1 4) (qc_of (-1) 1) (qc_of 1 1) (qc_of 3 4).
Ltac ex_in := intros;
  repeat match goal with H : In _ _ |- _ => cbn [s_exps ex_s1 ex_s2 ex_s3 ex_s4 ex_shell In] in H end;
  repeat match goal with
         | H : _ \/ _ |- _ => destruct H as [H|H]
         | H : False |- _ => contradiction
         | H : _ = ?x |- _ => subst x
         end;
  apply qc_neq_of_bool; vm_compute; reflexivity.
Example two_elec_hyps_ex :
  (forall x, fapx KQ4 x = x) /\ fadd KQ4 (f1 KQ4) (f1 KQ4) <> f0 KQ4
  /\ (forall alpha beta, In alpha (s_exps ex_s1) -> In beta (s_exps ex_s2) -> fadd KQ4 alpha beta <> f0 KQ4)
  /\ (forall gamma delta, In gamma (s_exps ex_s3) -> In delta (s_exps ex_s4) -> fadd KQ4 gamma delta <> f0 KQ4)
  /\ (forall alpha beta gamma delta, In alpha (s_exps ex_s1) -> In beta (s_exps ex_s2) ->
        In gamma (s_exps ex_s3) -> In delta (s_exps ex_s4) ->
        fadd KQ4 (fadd KQ4 alpha beta) (fadd KQ4 gamma delta) <> f0 KQ4)
  /\ (0 < nseg ex_s1 /\ 0 < nseg ex_s2 /\ 0 < nseg ex_s3 /\ 0 < nseg ex_s4)%nat
  /\ (1 < length (comps_of ex_s1) /\ 2 < length (comps_of ex_s2)
      /\ 0 < length (comps_of ex_s3) /\ 1 < length (comps_of ex_s4))%nat
  /\ (compsum (nth 1 (comps_of ex_s1) (0, 0, 0)) <= s_l ex_s1
      /\ compsum (nth 2 (comps_of ex_s2) (0, 0, 0)) <= s_l ex_s2
      /\ compsum (nth 0 (comps_of ex_s3) (0, 0, 0)) <= s_l ex_s3
      /\ compsum (nth 1 (comps_of ex_s4) (0, 0, 0)) <= s_l ex_s4)%nat.
Proof.
  split; [reflexivity|]. split; [apply qc_neq_of_bool; vm_compute; reflexivity|].
  split; [ex_in|]. split; [ex_in|]. split; [ex_in|].
  split; [vm_compute; repeat split; repeat constructor|].
  split; vm_compute; repeat split; repeat constructor.
Qed.
