(* Proofs/AngmomAsmP.v — property C12, angular momentum about a displaced origin, lifted from the shell-pair
   block (Proofs/RigidP.angmom_block_shift, Props/C12.v C12_origin_shift_angular_momentum_block_partial) through
   the Hermitian assembly to the WHOLE-BASIS model Model/OneBody.angmom_integral_re (real array R of the value
   -iR, last axis = the three Cartesian components):

     for every basis of Cartesian shells, every translation t of all the centres and every pair of positions
     (I, J) in either triangle or on a diagonal block,
         L^t[I][J][c] = L[I][J][c] + t_{c+1} p[I][J][c+2] - t_{c+2} p[I][J][c+1]       (indices mod 3)
     with L = angmom_integral_re basis, p = momentum_integral_re basis: L about a displaced origin = L - d x p.

   The entry theorems Proofs/AssembledHermP.herm_entry_all (every entry = normalised block entry of the ordered
   pair, whatever the triangle) reduce the statement to the block law; the contraction norms do not see the
   centre (RigidP.norm_cont_shift). *)
From Coq Require Import List Arith Lia Bool Field.
From GB Require Import Base.Field Base.FNum Base.Tables Base.Blocks Model.Shell Model.MomentInt
  Model.Spherical Model.Assembly Model.Overlap Model.DiffOp Model.OneBody
  Proofs.BlockP Proofs.CoreSumP Proofs.CoreBlockP Proofs.CoreDiffP Proofs.AssemblyP Proofs.OverlapP
  Proofs.BlockMatP Proofs.AssembledP Proofs.AssembledOverlapP Proofs.AssembledHermP Proofs.AssembledSphP
  Proofs.AssembledSphOverlapP Proofs.AssembledSphHermP Proofs.RigidP.
Import ListNotations.

Section AngmomAsm.
Context {F : Type} (K : Fops F) (Kf : is_field K).
Add Field KFangasm : Kf.
Local Open Scope F_scope.
Notation "0" := (f0 K) : F_scope.
Notation "1" := (f1 K) : F_scope.
Infix "+" := (fadd K) : F_scope.
Infix "*" := (fmul K) : F_scope.
Notation "- x" := (fopp K x) : F_scope.
Hypothesis Hapx : forall x : F, fapx K x = x.
Hypothesis H2 : 1 + 1 <> 0.

Notation g4 := (CoreDiffP.get4).

(* component c of an entry of the zipped block = entry of the component block *)
Lemma zip3_entry (X Y Z : list (list (list (list F)))) n1 n2 n3 n4 i1 i2 i3 i4 :
  shape4 n1 n2 n3 n4 X -> shape4 n1 n2 n3 n4 Y -> shape4 n1 n2 n3 n4 Z ->
  (i1 < n1)%nat -> (i2 < n2)%nat -> (i3 < n3)%nat -> (i4 < n4)%nat ->
  g4 [] i1 i2 i3 i4 (zip4 (fun (xy : list F) (z : F) => xy ++ [z]) (zip4 (fun x y : F => [x; y]) X Y) Z)
  = [g4 0 i1 i2 i3 i4 X; g4 0 i1 i2 i3 i4 Y; g4 0 i1 i2 i3 i4 Z].
Proof.
  intros SX SY SZ H1 H2' H3 H4.
  destruct (zip4_spec (fun x y : F => [x; y]) _ _ _ _ _ _ 0 0 [] SX SY) as [Sxy Exy].
  destruct (zip4_spec (fun (xy : list F) (z : F) => xy ++ [z]) _ _ _ _ _ _ [] 0 [] Sxy SZ) as [_ Exyz].
  rewrite Exyz by assumption. rewrite Exy by assumption. reflexivity.
Qed.

Lemma angmom_comp_shape sa sb c :
  shape4 (nseg sa) (ncomp sa) (nseg sb) (ncomp sb) (angmom_comp_block K sa sb c).
Proof. unfold angmom_comp_block. apply (block_of_shape K). Qed.

Lemma momentum_comp_shape sa sb c : (c < 3)%nat ->
  shape4 (nseg sa) (ncomp sa) (nseg sb) (ncomp sb) (momentum_comp_block K sa sb c).
Proof.
  intros Hc. unfold momentum_comp_block, diffop_block. cbv zeta. cbn [map].
  destruct c as [|[|[|c]]]; [| | |lia]; cbn [nth]; apply (block_of_shape K).
Qed.

Lemma angmom_entry_comps sa sb ma ia mb ib :
  (ma < nseg sa)%nat -> (ia < ncomp sa)%nat -> (mb < nseg sb)%nat -> (ib < ncomp sb)%nat ->
  g4 [] ma ia mb ib (angmom_block_re K sa sb)
  = [RigidP.get4 K ma ia mb ib (angmom_comp_block K sa sb 0);
     RigidP.get4 K ma ia mb ib (angmom_comp_block K sa sb 1);
     RigidP.get4 K ma ia mb ib (angmom_comp_block K sa sb 2)].
Proof.
  intros H1 H2' H3 H4. rewrite angmom_block_re_comps.
  exact (zip3_entry _ _ _ _ _ _ _ ma ia mb ib (angmom_comp_shape sa sb 0%nat) (angmom_comp_shape sa sb 1%nat)
           (angmom_comp_shape sa sb 2%nat) H1 H2' H3 H4).
Qed.

Lemma momentum_entry_comps sa sb ma ia mb ib :
  (ma < nseg sa)%nat -> (ia < ncomp sa)%nat -> (mb < nseg sb)%nat -> (ib < ncomp sb)%nat ->
  g4 [] ma ia mb ib (momentum_block_re K sa sb)
  = [RigidP.get4 K ma ia mb ib (momentum_comp_block K sa sb 0);
     RigidP.get4 K ma ia mb ib (momentum_comp_block K sa sb 1);
     RigidP.get4 K ma ia mb ib (momentum_comp_block K sa sb 2)].
Proof.
  intros H1 H2' H3 H4. rewrite momentum_block_re_comps.
  exact (zip3_entry _ _ _ _ _ _ _ ma ia mb ib (momentum_comp_shape sa sb 0%nat ltac:(lia))
           (momentum_comp_shape sa sb 1%nat ltac:(lia)) (momentum_comp_shape sa sb 2%nat ltac:(lia)) H1 H2' H3 H4).
Qed.

Lemma nth3 (x y z : F) c : (c < 3)%nat ->
  nth c [x; y; z] 0 = match c with O => x | S O => y | _ => z end.
Proof. destruct c as [|[|[|c]]]; intros; try reflexivity; lia. Qed.

(* ---- the translated basis ---- *)
Section Basis.
Variable bs : list (shell F).
Hypothesis C : cart_basis bs.
Hypothesis W : basis_wf bs.
Hypothesis E : basis_exps K bs bs.
Variables tx ty tz : F.
Notation sh := (shift_shell K tx ty tz).
Notation bst := (map (shift_shell K tx ty tz) bs).
Notation s_ k := (sh_at K bs k).

Lemma sh_at_shift k : (k < length bs)%nat -> sh_at K bst k = sh (s_ k).
Proof.
  intros Hk. unfold sh_at. rewrite (nth_indep _ (dshell K) (sh (dshell K))) by (now rewrite map_length).
  apply map_nth.
Qed.

Lemma cart_shift : cart_basis bst.
Proof. intros s Hs. apply in_map_iff in Hs. destruct Hs as [s0 [<- H0]]. exact (C s0 H0). Qed.
Lemma wf_shift : basis_wf bst.
Proof. intros s Hs. apply in_map_iff in Hs. destruct Hs as [s0 [<- H0]]. exact (W s0 H0). Qed.
Lemma exps_shift : basis_exps K bst bst.
Proof.
  intros a b Ha Hb. apply in_map_iff in Ha. destruct Ha as [a0 [<- Ha0]].
  apply in_map_iff in Hb. destruct Hb as [b0 [<- Hb0]]. exact (E a0 b0 Ha0 Hb0).
Qed.

Lemma boff_shift k : (k <= length bs)%nat -> boff K bst k = boff K bs k.
Proof. intros Hk. unfold boff. apply offs_ext. intros t Ht. rewrite sh_at_shift by lia. reflexivity. Qed.
Lemma gidx_shift i m c : (i < length bs)%nat -> gidx K bst i m c = gidx K bs i m c.
Proof. intros Hi. unfold gidx. rewrite boff_shift by lia. rewrite sh_at_shift by exact Hi. reflexivity. Qed.
Lemma btotal_shift : btotal K bst = btotal K bs.
Proof. unfold btotal. rewrite map_length. apply boff_shift. lia. Qed.

Lemma ncont_shift (s : shell F) m c : In s bs -> ncont K (sh s) m c = ncont K s m c.
Proof.
  intros Hs. unfold ncont. rewrite (norm_cont_shift K Kf tx ty tz s); [reflexivity|].
  exact (E s s Hs Hs).
Qed.

Lemma comps_within_wf (s : shell F) : CoreBlockP.wf_shell s -> comps_within s.
Proof. intros [_ H] c Hc. exact (H c Hc). Qed.

Theorem angmom_integral_origin_shift I J c :
  (I < btotal K bs)%nat -> (J < btotal K bs)%nat -> (c < 3)%nat ->
  let t := (tx, ty, tz) in
  let Lt := nth J (nth I (angmom_integral_re K bst None) []) [] in
  let L0 := nth J (nth I (angmom_integral_re K bs None) []) [] in
  let P := nth J (nth I (momentum_integral_re K bs None) []) [] in
  nth c Lt 0 = nth c L0 0 + tget t ((c + 1) mod 3) * nth ((c + 2) mod 3) P 0
               + (- tget t ((c + 2) mod 3)) * nth ((c + 1) mod 3) P 0.
Proof.
  intros HI HJ Hc. cbv zeta.
  destruct (gidx_surj K bs I HI) as (i & m & c1 & Hi & Hm & Hc1 & ->).
  destruct (gidx_surj K bs J HJ) as (j & m' & c1' & Hj & Hm' & Hc1' & ->).
  assert (Ii : In (s_ i) bs) by (now apply nth_In). assert (Ij : In (s_ j) bs) by (now apply nth_In).
  (* the three entries *)
  unfold angmom_integral_re, momentum_integral_re.
  rewrite <- (gidx_shift i m c1 Hi), <- (gidx_shift j m' c1' Hj).
  rewrite (herm_entry_all K Kf (angmom_block_re K) bst cart_shift (angmom_shaped K bst)
             (angmom_pair_antisym K Kf Hapx H2 bst wf_shift exps_shift) i j m c1 m' c1')
    by (rewrite ?map_length, ?sh_at_shift; assumption).
  rewrite (gidx_shift i m c1 Hi), (gidx_shift j m' c1' Hj).
  rewrite (herm_entry_all K Kf (angmom_block_re K) bs C (angmom_shaped K bs)
             (angmom_pair_antisym K Kf Hapx H2 bs W E) i j m c1 m' c1') by assumption.
  rewrite (herm_entry_all K Kf (momentum_block_re K) bs C (momentum_shaped K bs)
             (momentum_pair_antisym K Kf Hapx H2 bs W E) i j m c1 m' c1') by assumption.
  rewrite !sh_at_shift by assumption. rewrite !ncont_shift by assumption.
  set (nn := ncont K (s_ i) m c1 * ncont K (s_ j) m' c1').
  rewrite (angmom_entry_comps (sh (s_ i)) (sh (s_ j)) m c1 m' c1') by assumption.
  rewrite (angmom_entry_comps (s_ i) (s_ j) m c1 m' c1') by assumption.
  rewrite (momentum_entry_comps (s_ i) (s_ j) m c1 m' c1') by assumption.
  unfold vscale. cbn [map].
  pose proof (fun c Hc => angmom_block_shift K Kf (s_ i) (s_ j) tx ty tz c m c1 m' c1' Hapx H2 (E _ _ Ii Ij)
                (comps_within_wf _ (W _ Ii)) (comps_within_wf _ (W _ Ij)) Hc Hm Hm' Hc1 Hc1') as HS.
  cbv zeta in HS.
  destruct c as [|[|[|c]]]; [| | |lia]; cbn [nth Nat.modulo Nat.divmod fst snd Nat.add Nat.sub tget];
    [rewrite (HS 0%nat) by lia | rewrite (HS 1%nat) by lia | rewrite (HS 2%nat) by lia];
    cbn [nth Nat.modulo Nat.divmod fst snd Nat.add Nat.sub tget]; ring.
Qed.
End Basis.

(* ---- any assignment of coordinate types ---- *)
Notation fsum := (FNum.fsum K).

Lemma dsum_lin3 (a b : shell F) q q' (X Y Z : nat -> nat -> F) u v :
  dsum K a b q q' (fun c c' => X c c' + u * Y c c' + v * Z c c')
  = dsum K a b q q' X + u * dsum K a b q q' Y + v * dsum K a b q q' Z.
Proof.
  unfold dsum. rewrite !(fsum_mk_scale_l K Kf). rewrite !(fsum_mk_add K Kf).
  apply fsum_mk_ext. intros c _. rewrite !(fsum_mk_scale_l K Kf). rewrite !(fsum_mk_add K Kf).
  apply fsum_mk_ext. intros c' _. ring.
Qed.

Section Mixed.
Variable bs : list (shell F).
Hypothesis C : seg_basis bs.
Hypothesis W : basis_wf bs.
Hypothesis E : basis_exps K bs bs.
Variables tx ty tz : F.
Notation sh := (shift_shell K tx ty tz).
Notation bst := (map (shift_shell K tx ty tz) bs).
Notation bsc := (map to_cart bs).
Notation s_ k := (sh_at K bs k).

Lemma seg_shift : seg_basis bst.
Proof. intros s Hs. apply in_map_iff in Hs. destruct Hs as [s0 [<- H0]]. exact (C s0 H0). Qed.

Lemma to_cart_shift : map to_cart bst = map sh bsc.
Proof. rewrite !map_map. apply map_ext. intros s. reflexivity. Qed.

Lemma ooff_shift k : (k <= length bs)%nat -> ooff K bst k = ooff K bs k.
Proof. intros Hk. unfold ooff. apply offs_ext. intros t Ht. rewrite (sh_at_shift bs) by lia. reflexivity. Qed.
Lemma oidx_shift i m q : (i < length bs)%nat -> oidx K bst i m q = oidx K bs i m q.
Proof. intros Hi. unfold oidx. rewrite ooff_shift by lia. rewrite (sh_at_shift bs) by exact Hi. reflexivity. Qed.

Theorem angmom_integral_origin_shift_mixed I J c :
  (I < ototal K bs)%nat -> (J < ototal K bs)%nat -> (c < 3)%nat ->
  let t := (tx, ty, tz) in
  let Lt := nth J (nth I (angmom_integral_re K bst None) []) [] in
  let L0 := nth J (nth I (angmom_integral_re K bs None) []) [] in
  let P := nth J (nth I (momentum_integral_re K bs None) []) [] in
  nth c Lt 0 = nth c L0 0 + tget t ((c + 1) mod 3) * nth ((c + 2) mod 3) P 0
               + (- tget t ((c + 2) mod 3)) * nth ((c + 1) mod 3) P 0.
Proof.
  intros HI HJ Hc. cbv zeta.
  destruct (oidx_surj K bs I HI) as (i & m & q & Hi & Hm & Hq & ->).
  destruct (oidx_surj K bs J HJ) as (j & m' & q' & Hj & Hm' & Hq' & ->).
  assert (Hc1 : ((c + 1) mod 3 < 3)%nat) by (apply Nat.mod_upper_bound; lia).
  assert (Hc2 : ((c + 2) mod 3 < 3)%nat) by (apply Nat.mod_upper_bound; lia).
  (* the three mixed entries as double sums over the Cartesian arrays *)
  rewrite <- (oidx_shift i m q Hi), <- (oidx_shift j m' q' Hj).
  rewrite (proj2 (angmom_mixed_is_cart_transformed K Kf Hapx H2 bst seg_shift (wf_shift bs W tx ty tz)
                    (exps_shift bs E tx ty tz) i j m q m' q'
                    ltac:(now rewrite map_length) ltac:(now rewrite map_length)
                    ltac:(now rewrite (sh_at_shift bs)) ltac:(now rewrite (sh_at_shift bs))
                    ltac:(now rewrite (sh_at_shift bs)) ltac:(now rewrite (sh_at_shift bs))) c Hc).
  rewrite (oidx_shift i m q Hi), (oidx_shift j m' q' Hj).
  rewrite (proj2 (angmom_mixed_is_cart_transformed K Kf Hapx H2 bs C W E i j m q m' q' Hi Hj Hm Hq Hm' Hq') c Hc).
  rewrite (proj2 (momentum_mixed_is_cart_transformed K Kf Hapx H2 bs C W E i j m q m' q' Hi Hj Hm Hq Hm' Hq') _ Hc1).
  rewrite (proj2 (momentum_mixed_is_cart_transformed K Kf Hapx H2 bs C W E i j m q m' q' Hi Hj Hm Hq Hm' Hq') _ Hc2).
  rewrite !(sh_at_shift bs) by assumption.
  change (dsum K (sh (s_ i)) (sh (s_ j)) q q') with (dsum K (s_ i) (s_ j) q q').
  rewrite <- dsum_lin3. apply dsum_ext. intros c1 c1' Hc1' Hc1''.
  rewrite to_cart_shift.
  assert (Lc : length bsc = length bs) by (now rewrite map_length).
  assert (Si : sh_at K bsc i = to_cart (s_ i)) by apply sh_at_to_cart.
  assert (Sj : sh_at K bsc j = to_cart (s_ j)) by apply sh_at_to_cart.
  rewrite <- (gidx_shift bsc tx ty tz i m c1) by (now rewrite Lc).
  rewrite <- (gidx_shift bsc tx ty tz j m' c1') by (now rewrite Lc).
  rewrite (gidx_shift bsc tx ty tz i m c1), (gidx_shift bsc tx ty tz j m' c1') by (now rewrite Lc).
  apply (angmom_integral_origin_shift bsc (cart_basis_to_cart bs C) (basis_wf_to_cart bs W)
           (basis_exps_to_cart K bs E) tx ty tz); [| |exact Hc].
  - apply gidx_lt; rewrite ?Lc, ?Si; assumption.
  - apply gidx_lt; rewrite ?Lc, ?Sj; assumption.
Qed.
End Mixed.
End AngmomAsm.

(* ------------------------------------------------------------------ *)
(* an instance: the mixed basis of Proofs/AssembledExamplesP.v, a lower-triangle position *)
(* ------------------------------------------------------------------ *)
From Coq Require Import QArith Qcanon.
From GB Require Import Proofs.CoreExamplesP Proofs.AssembledExamplesP.

Section Ex.
Variables (opi : Qc) (osqrt oexp oln : Qc -> Qc) (oboys : nat -> Qc -> Qc).
Notation KQ' := (KQ opi osqrt oexp oln oboys).
Local Open Scope nat_scope.

Example ex_angmom_shift :
  let K := KQ' in
  let t := (Q2Qc 1, Q2Qc 2, Q2Qc 3) in
  let Lt := nth 8 (nth 12 (angmom_integral_re K (map (shift_shell K (Q2Qc 1) (Q2Qc 2) (Q2Qc 3)) ex_mixed) None) []) [] in
  let L0 := nth 8 (nth 12 (angmom_integral_re K ex_mixed None) []) [] in
  let P := nth 8 (nth 12 (momentum_integral_re K ex_mixed None) []) [] in
  nth 0 Lt (f0 K)
  = fadd K (fadd K (nth 0 L0 (f0 K)) (fmul K (tget t 1) (nth 2 P (f0 K))))
           (fmul K (fopp K (tget t 2)) (nth 1 P (f0 K))).
Proof.
  destruct (mixed_hypotheses_satisfiable opi osqrt oexp oln oboys) as (_ & _ & _ & E1 & _).
  apply (angmom_integral_origin_shift_mixed KQ' (KQ_field _ _ _ _ _) (KQ_apx _ _ _ _ _) (KQ_two _ _ _ _ _)
           ex_mixed ex_mixed_seg ex_mixed_wf (ex_mixed_exps opi osqrt oexp oln oboys) (Q2Qc 1) (Q2Qc 2) (Q2Qc 3) 12 8 0);
    rewrite ?E1; lia.
Qed.
End Ex.
