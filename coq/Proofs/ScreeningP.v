(* Proofs/ScreeningP.v — lemmas about the screening model (Model/Screening.v). *)
From Coq Require Import List Arith Lia Bool.
From GB Require Import Base.Field Base.FNum Base.Tables Model.Shell Model.MomentInt
  Model.Spherical Model.Assembly Model.Overlap Model.Screening.
Import ListNotations.

Section Generic.
Context {F : Type} (K : Fops F).

Lemma no_tol_no_screen_dec sa sb : is_screened K None sa sb = false.
Proof. reflexivity. Qed.

Lemma no_tol_no_screen_block sa sb : overlap_block_screened K None sa sb = overlap_block K sa sb.
Proof. reflexivity. Qed.

Lemma no_tol_no_screen_integral basis T :
  overlap_integral_screened K basis T None = overlap_integral K basis T.
Proof. reflexivity. Qed.
End Generic.
