(* Proofs/ScreeningP.v — lemmas about the screening model (Model/Screening.v).

   Part 1 (any field): what screening does to blocks and to the assembled matrix.
   Part 2 (the reals, [RK]): the decision is the documented one, is monotone in the tolerance,
   depends on the exponents through their minima only, and is conservative for s shells. *)
From Coq Require Import List Arith Lia Bool Field.
From GB Require Import Base.Field Base.FNum Base.Tables Model.Shell Model.MomentInt
  Model.Spherical Model.Assembly Model.Overlap Model.Screening.
Import ListNotations.

(* ------------------------------------------------------------------ *)
(* generic list facts                                                   *)
(* ------------------------------------------------------------------ *)
Lemma combine_map_r {A B C} (f : B -> C) (l : list A) (l' : list B) :
  combine l (map f l') = map (fun ab => (fst ab, f (snd ab))) (combine l l').
Proof. revert l'; induction l as [|a l IH]; intros [|b l']; cbn; [reflexivity..|]. now rewrite IH. Qed.

Lemma combine_map_both {A B C D} (f : A -> C) (g : B -> D) (l : list A) (l' : list B) :
  combine (map f l) (map g l') = map (fun ab => (f (fst ab), g (snd ab))) (combine l l').
Proof. revert l'; induction l as [|a l IH]; intros [|b l']; cbn; [reflexivity..|]. now rewrite IH. Qed.

Lemma map_mk {A B} (g : A -> B) n (f : nat -> A) : map g (mk n f) = mk n (fun i => g (f i)).
Proof. unfold mk. now rewrite map_map. Qed.

Lemma nth_mk_or {A} n (f : nat -> A) d i : nth i (mk n f) d = if Nat.ltb i n then f i else d.
Proof.
  destruct (Nat.ltb_spec i n) as [H|H]; [now apply nth_mk|].
  apply nth_overflow. now rewrite mk_length.
Qed.
Lemma nth_nil' {A} i (d : A) : nth i [] d = d.
Proof. now destruct i. Qed.

Section Generic.
Context {F : Type} (K : Fops F).
Local Open Scope F_scope.
Notation "0" := (f0 K) : F_scope.
Infix "+" := (fadd K) : F_scope.
Infix "*" := (fmul K) : F_scope.

Definition map2 {A B} (h : A -> B) : list (list A) -> list (list B) := map (map h).
Definition map4 {A B} (h : A -> B) : list (list (list (list A))) -> list (list (list (list B))) :=
  map (map (map (map h))).
Definition zf : F -> F := fun _ => 0.

(* ---- no tolerance, no screening ---- *)
Lemma no_tol_no_screen_dec sa sb : is_screened K None sa sb = false.
Proof. reflexivity. Qed.
Lemma no_tol_no_screen_block sa sb : overlap_block_screened K None sa sb = overlap_block K sa sb.
Proof. reflexivity. Qed.
Lemma no_tol_no_screen_integral basis T :
  overlap_integral_screened K basis T None = overlap_integral K basis T.
Proof. reflexivity. Qed.

(* ---- per raw block (construct_array_contraction) ---- *)
Lemma kept_block tol sa sb :
  is_screened K tol sa sb = false -> overlap_block_screened K tol sa sb = overlap_block K sa sb.
Proof. intros H. unfold overlap_block_screened. now rewrite H. Qed.

Lemma removed_block tol sa sb :
  is_screened K tol sa sb = true -> overlap_block_screened K tol sa sb = zero_block K sa sb.
Proof. intros H. unfold overlap_block_screened. now rewrite H. Qed.

(* the zero block has the shape (M_a, L_a, M_b, L_b) and only zero entries *)
Lemma zero_block_entry sa sb m1 c1 m2 c2 : nth4 K m1 c1 m2 c2 (zero_block K sa sb) = 0.
Proof.
  unfold nth4, zero_block. rewrite !nth_mk_or.
  repeat (match goal with |- context [Nat.ltb ?a ?b] => destruct (Nat.ltb a b) end;
          rewrite ?nth_mk_or, ?nth_nil'); reflexivity.
Qed.

Lemma zero_block_shape sa sb :
  length (zero_block K sa sb) = nseg sa /\
  (forall m1, m1 < nseg sa -> length (nth m1 (zero_block K sa sb) []) = length (comps_of sa) /\
   forall c1, c1 < length (comps_of sa) ->
     length (nth c1 (nth m1 (zero_block K sa sb) []) []) = nseg sb /\
     forall m2, m2 < nseg sb ->
       length (nth m2 (nth c1 (nth m1 (zero_block K sa sb) []) []) []) = length (comps_of sb)).
Proof.
  unfold zero_block. split; [apply mk_length|]. intros m1 H1. rewrite nth_mk by exact H1.
  split; [apply mk_length|]. intros c1 H2. rewrite nth_mk by exact H2.
  split; [apply mk_length|]. intros m2 H3. rewrite nth_mk by exact H3. apply mk_length.
Qed.

(* the zero block is the unscreened block with every entry replaced by 0: same shape *)
Lemma length_norms_comb (s : shell F) :
  length (combine (comps_of s) (norms K s)) = length (comps_of s).
Proof. unfold norms. rewrite combine_length, map_length. apply Nat.min_id. Qed.

Lemma zero_block_is_zeroed sa sb : zero_block K sa sb = map4 zf (overlap_block K sa sb).
Proof.
  unfold overlap_block, mm_block. cbn [map hd]. unfold map4, zero_block.
  rewrite !length_norms_comb.
  rewrite map_mk. apply mk_ext; intros m1 _.
  rewrite map_mk. apply mk_ext; intros c1 _.
  rewrite map_mk. apply mk_ext; intros m2 _.
  rewrite map_mk. apply mk_ext; intros c2 _. reflexivity.
Qed.

End Generic.

(* ------------------------------------------------------------------ *)
(* lifting to the processed block and to the assembled matrix          *)
(* ------------------------------------------------------------------ *)
Section Lift.
Context {F : Type} (K : Fops F) (Kf : is_field K).
Add Field KFs : Kf.
Local Open Scope F_scope.
Notation "0" := (f0 K) : F_scope.
Infix "+" := (fadd K) : F_scope.
Infix "*" := (fmul K) : F_scope.

(* a linear map on entries commutes with every step of base_two_symm's block processing *)
Variable h : F -> F.
Hypothesis Hadd : forall x y, h (x + y) = h x + h y.
Hypothesis Hsc : forall t x, h (t * x) = t * h x.
Hypothesis H0 : h 0 = 0.

Notation normaliseF := (normalise K (fmul K)).
Notation tleft := (transform_left 0 (fadd K) (fmul K)).
Notation tright := (transform_right 0 (fadd K) (fmul K)).

Lemma normalise_nat n1 n2 blk : normaliseF n1 n2 (map4 h blk) = map4 h (normaliseF n1 n2 blk).
Proof.
  unfold normalise, map4.
  rewrite combine_map_r, !map_map. apply map_ext; intros [nrow1 b1]; cbn [fst snd].
  rewrite combine_map_r, !map_map. apply map_ext; intros [x1 b2]; cbn [fst snd].
  rewrite combine_map_r, !map_map. apply map_ext; intros [nrow2 b3]; cbn [fst snd].
  rewrite combine_map_r, !map_map. apply map_ext; intros [x2 e]; cbn [fst snd].
  now rewrite Hsc.
Qed.

Lemma slab_zero_nat x : slab_zero 0 (map2 h x) = map2 h (slab_zero 0 x).
Proof.
  unfold slab_zero, map2. rewrite !map_map. apply map_ext; intros r.
  rewrite !map_map. apply map_ext; intros _. now rewrite H0.
Qed.
Lemma slab_scale_nat t x : slab_scale (fmul K) t (map2 h x) = map2 h (slab_scale (fmul K) t x).
Proof.
  unfold slab_scale, map2. rewrite !map_map. apply map_ext; intros r.
  rewrite !map_map. apply map_ext; intros e. now rewrite Hsc.
Qed.
Lemma slab_add_nat x y :
  slab_add (fadd K) (map2 h x) (map2 h y) = map2 h (slab_add (fadd K) x y).
Proof.
  unfold slab_add, map2. rewrite combine_map_both, !map_map. apply map_ext; intros [r1 r2]; cbn [fst snd].
  rewrite combine_map_both, !map_map. apply map_ext; intros [e1 e2]; cbn [fst snd]. now rewrite Hadd.
Qed.

Lemma fold_slab_nat z (L : list (F * list (list F))) :
  fold_right (slab_add (fadd K)) (map2 h z)
    (map (fun '(t, sl) => slab_scale (fmul K) t sl) (map (fun p => (fst p, map2 h (snd p))) L))
  = map2 h (fold_right (slab_add (fadd K)) z (map (fun '(t, sl) => slab_scale (fmul K) t sl) L)).
Proof.
  induction L as [|[t sl] L IH]; cbn [map fold_right fst snd]; [reflexivity|].
  now rewrite IH, slab_scale_nat, slab_add_nat.
Qed.

Lemma transform_left_nat T blk : tleft T (map4 h blk) = map4 h (tleft T blk).
Proof.
  unfold transform_left, map4. rewrite !map_map. apply map_ext; intros b1.
  rewrite !map_map. apply map_ext; intros trow.
  change (map (map (map h))) with (map (map2 h)). rewrite combine_map_r.
  replace (hd [] (map (map2 h) b1)) with (map2 h (hd [] b1)) by (now destruct b1).
  rewrite slab_zero_nat. apply fold_slab_nat.
Qed.

Lemma asum_nat (L : list (F * F)) :
  asum 0 (fadd K) (map (fun '(t, x) => t * x) (map (fun p => (fst p, h (snd p))) L))
  = h (asum 0 (fadd K) (map (fun '(t, x) => t * x) L)).
Proof.
  unfold asum. induction L as [|[t x] L IH]; cbn [map fold_right fst snd]; [now rewrite H0|].
  now rewrite IH, Hadd, Hsc.
Qed.

Lemma apply_rows_nat T v :
  apply_rows 0 (fadd K) (fmul K) T (map h v) = map h (apply_rows 0 (fadd K) (fmul K) T v).
Proof.
  unfold apply_rows. rewrite map_map. apply map_ext; intros trow.
  rewrite combine_map_r. apply asum_nat.
Qed.

Lemma transform_right_nat T blk : tright T (map4 h blk) = map4 h (tright T blk).
Proof.
  unfold transform_right, map4. rewrite !map_map. apply map_ext; intros b1.
  rewrite !map_map. apply map_ext; intros b2. rewrite !map_map. apply map_ext; intros row.
  apply apply_rows_nat.
Qed.

Lemma flatten_block_nat (blk : list (list (list (list F)))) :
  flatten_block (map4 h blk) = map2 h (flatten_block blk).
Proof.
  unfold flatten_block, map4, map2. induction blk as [|b1 blk IH]; cbn [map flat_map]; [reflexivity|].
  rewrite map_app, IH. f_equal. rewrite !map_map. apply map_ext; intros b2.
  now rewrite concat_map.
Qed.

Lemma shell_block_nat sph1 sph2 T1 T2 n1 n2 blk :
  shell_block K 0 (fadd K) (fmul K) sph1 sph2 T1 T2 n1 n2 (map4 h blk)
  = map2 h (shell_block K 0 (fadd K) (fmul K) sph1 sph2 T1 T2 n1 n2 blk).
Proof.
  unfold shell_block. rewrite normalise_nat.
  destruct sph1, sph2; rewrite ?transform_left_nat, ?transform_right_nat; apply flatten_block_nat.
Qed.
End Lift.

Section Assembled.
Context {F : Type} (K : Fops F) (Kf : is_field K).
Add Field KFa : Kf.
Local Open Scope F_scope.
Notation "0" := (f0 K) : F_scope.
Infix "+" := (fadd K) : F_scope.
Infix "*" := (fmul K) : F_scope.

Notation pblockF := (pblock K 0 (fadd K) (fmul K)).

(* processed block (normalised, transformed to the shells' coordinate types, flattened) *)
Lemma kept_pblock tol p1 p2 :
  is_screened K tol (p_shell p1) (p_shell p2) = false ->
  pblockF (overlap_block_screened K tol) p1 p2 = pblockF (overlap_block K) p1 p2.
Proof. intros H. unfold pblock. now rewrite kept_block. Qed.

Lemma removed_pblock tol p1 p2 :
  is_screened K tol (p_shell p1) (p_shell p2) = true ->
  pblockF (overlap_block_screened K tol) p1 p2 = map2 (zf K) (pblockF (overlap_block K) p1 p2).
Proof.
  intros H. unfold pblock. rewrite removed_block by exact H. rewrite zero_block_is_zeroed.
  apply (shell_block_nat K); intros; unfold zf; ring.
Qed.

Lemma two_symm_blocks_ext n (bf bf' : nat -> nat -> list (list F)) :
  (forall i j, i < n -> j < n -> bf i j = bf' i j) ->
  two_symm_blocks 0 n bf = two_symm_blocks 0 n bf'.
Proof.
  intros H. unfold two_symm_blocks. f_equal. apply mk_ext; intros i Hi. f_equal.
  apply mk_ext; intros j Hj. destruct (Nat.leb i j); [now apply H|]. f_equal. now apply H.
Qed.

(* the unscreened processed block of shells i, j of a basis, and the model's decision for them *)
Definition ublock (basis : list (shell F)) (i j : nat) : list (list F) :=
  let ps := map (prep K) basis in
  pblockF (overlap_block K) (nth i ps (dummy_p K)) (nth j ps (dummy_p K)).
Definition pair_screened (tol : option F) (basis : list (shell F)) (i j : nat) : bool :=
  let ps := map (prep K) basis in
  is_screened K tol (p_shell (nth i ps (dummy_p K))) (p_shell (nth j ps (dummy_p K))).

Lemma overlap_integral_blocks basis :
  overlap_integral K basis None = two_symm_blocks 0 (length basis) (ublock basis).
Proof. unfold overlap_integral, two_symm_integral. now rewrite map_length. Qed.

(* The assembled screened matrix is assembled, by the same triangle assembly, from the unscreened
   processed blocks of the kept pairs and from all-zero matrices of the same shape for the removed pairs. *)
Theorem screened_assembly basis T tol :
  overlap_integral_screened K basis T tol =
  let m := two_symm_blocks 0 (length basis) (fun i j =>
             if pair_screened tol basis i j then map2 (zf K) (ublock basis i j) else ublock basis i j) in
  match T with None => m | Some t => lincomb2 0 (fadd K) (fmul K) t t m end.
Proof.
  unfold overlap_integral_screened, two_symm_integral. rewrite map_length.
  cbv zeta.
  assert (E : two_symm_blocks 0 (length basis) (fun i j =>
                pblockF (overlap_block_screened K tol) (nth i (map (prep K) basis) (dummy_p K))
                        (nth j (map (prep K) basis) (dummy_p K)))
            = two_symm_blocks 0 (length basis) (fun i j =>
                if pair_screened tol basis i j then map2 (zf K) (ublock basis i j) else ublock basis i j)).
  { apply two_symm_blocks_ext; intros i j _ _. unfold pair_screened, ublock. cbv zeta.
    destruct (is_screened K tol _ _) eqn:E.
    - now apply removed_pblock.
    - now apply kept_pblock. }
  now rewrite E.
Qed.

(* every entry of a removed processed block is 0 *)
Lemma zeroed_entries (m : list (list F)) r c : nth c (nth r (map2 (zf K) m) []) 0 = 0.
Proof.
  unfold map2. destruct (nth_in_or_default r (map (map (zf K)) m) []) as [Hin|Hd].
  - apply in_map_iff in Hin. destruct Hin as [x [Hx _]]. rewrite <- Hx.
    destruct (nth_in_or_default c (map (zf K) x) 0) as [Hin|Hd]; [|exact Hd].
    apply in_map_iff in Hin. destruct Hin as [y [Hy _]]. now rewrite <- Hy.
  - rewrite Hd. apply nth_nil'.
Qed.

End Assembled.
