(* Proofs/ScreeningP.v — lemmas about the screening model (Model/Screening.v).

   Part 1 (any field): what screening does to blocks and to the assembled matrix.
   Part 2 (the reals, [RK]): the decision is the documented one, is monotone in the tolerance,
   depends on the exponents through their minima only, and is conservative for s shells. *)
From Coq Require Import List Arith Lia Bool Field.
From GB Require Import Base.Field Base.FNum Base.Tables Model.Shell Model.MomentInt
  Model.Spherical Model.Assembly Model.Overlap Model.Screening Proofs.OverlapP Proofs.BlockP.
Import ListNotations.

(* ------------------------------------------------------------------ *)
(* generic list facts                                                   *)
(* ------------------------------------------------------------------ *)
Lemma combine_map_r {A B C} (f : B -> C) (l : list A) (l' : list B) :
  combine l (map f l') = map (fun ab => (fst ab, f (snd ab))) (combine l l').
Proof. revert l'; induction l as [|a l IH]; intros [|b l']; cbn; [reflexivity..|]. now rewrite IH. Qed.

Lemma combine_map_both {A B C D} (f : A -> C) (g : B -> D) (l : list A) (l' : list B) :
  combine (map f l) (map g l') = map (fun ab => (f (fst ab), g (snd ab))) (combine l l').
Proof. revert l'; induction l as [|a l IH]; intros [|b l']; cbn; [reflexivity..|]. now rewrite IH. Qed.

Lemma map_mk {A B} (g : A -> B) n (f : nat -> A) : map g (mk n f) = mk n (fun i => g (f i)).
Proof. unfold mk. now rewrite map_map. Qed.

Lemma nth_mk_or {A} n (f : nat -> A) d i : nth i (mk n f) d = if Nat.ltb i n then f i else d.
Proof.
  destruct (Nat.ltb_spec i n) as [H|H]; [now apply nth_mk|].
  apply nth_overflow. now rewrite mk_length.
Qed.
Lemma nth_nil' {A} i (d : A) : nth i [] d = d.
Proof. now destruct i. Qed.

Section Generic.
Context {F : Type} (K : Fops F).
Local Open Scope F_scope.
Notation "0" := (f0 K) : F_scope.
Infix "+" := (fadd K) : F_scope.
Infix "*" := (fmul K) : F_scope.

Definition map2 {A B} (h : A -> B) : list (list A) -> list (list B) := map (map h).
Definition map4 {A B} (h : A -> B) : list (list (list (list A))) -> list (list (list (list B))) :=
  map (map (map (map h))).
Definition zf : F -> F := fun _ => 0.

(* ---- no tolerance, no screening ---- *)
Lemma no_tol_no_screen_dec sa sb : is_screened K None sa sb = false.
Proof. reflexivity. Qed.
Lemma no_tol_no_screen_block sa sb : overlap_block_screened K None sa sb = overlap_block K sa sb.
Proof. reflexivity. Qed.
Lemma no_tol_no_screen_integral basis T :
  overlap_integral_screened K basis T None = overlap_integral K basis T.
Proof. reflexivity. Qed.

(* ---- per raw block (construct_array_contraction) ---- *)
Lemma kept_block tol sa sb :
  is_screened K tol sa sb = false -> overlap_block_screened K tol sa sb = overlap_block K sa sb.
Proof. intros H. unfold overlap_block_screened. now rewrite H. Qed.

Lemma removed_block tol sa sb :
  is_screened K tol sa sb = true -> overlap_block_screened K tol sa sb = zero_block K sa sb.
Proof. intros H. unfold overlap_block_screened. now rewrite H. Qed.

(* the zero block has the shape (M_a, L_a, M_b, L_b) and only zero entries *)
Lemma zero_block_entry sa sb m1 c1 m2 c2 : nth4 K m1 c1 m2 c2 (zero_block K sa sb) = 0.
Proof.
  unfold nth4, zero_block. rewrite !nth_mk_or.
  repeat (match goal with |- context [Nat.ltb ?a ?b] => destruct (Nat.ltb a b) end;
          rewrite ?nth_mk_or, ?nth_nil'); reflexivity.
Qed.

Lemma zero_block_shape sa sb :
  length (zero_block K sa sb) = nseg sa /\
  (forall m1, m1 < nseg sa -> length (nth m1 (zero_block K sa sb) []) = length (comps_of sa) /\
   forall c1, c1 < length (comps_of sa) ->
     length (nth c1 (nth m1 (zero_block K sa sb) []) []) = nseg sb /\
     forall m2, m2 < nseg sb ->
       length (nth m2 (nth c1 (nth m1 (zero_block K sa sb) []) []) []) = length (comps_of sb)).
Proof.
  unfold zero_block. split; [apply mk_length|]. intros m1 H1. rewrite nth_mk by exact H1.
  split; [apply mk_length|]. intros c1 H2. rewrite nth_mk by exact H2.
  split; [apply mk_length|]. intros m2 H3. rewrite nth_mk by exact H3. apply mk_length.
Qed.

(* the zero block is the unscreened block with every entry replaced by 0: same shape *)
Lemma length_norms_comb (s : shell F) :
  length (combine (comps_of s) (norms K s)) = length (comps_of s).
Proof. unfold norms. rewrite combine_length, map_length. apply Nat.min_id. Qed.

Lemma zero_block_is_zeroed sa sb : zero_block K sa sb = map4 zf (overlap_block K sa sb).
Proof.
  unfold overlap_block, mm_block. cbn [map hd]. unfold block_of, map4, zero_block.
  cbv zeta. rewrite !length_norms_comb.
  rewrite map_mk. apply mk_ext; intros m1 _.
  rewrite map_mk. apply mk_ext; intros c1 _.
  rewrite map_mk. apply mk_ext; intros m2 _.
  rewrite map_mk. apply mk_ext; intros c2 _. reflexivity.
Qed.

End Generic.

(* ------------------------------------------------------------------ *)
(* lifting to the processed block and to the assembled matrix          *)
(* ------------------------------------------------------------------ *)
Section Lift.
Context {F : Type} (K : Fops F) (Kf : is_field K).
Add Field KFs : Kf.
Local Open Scope F_scope.
Notation "0" := (f0 K) : F_scope.
Infix "+" := (fadd K) : F_scope.
Infix "*" := (fmul K) : F_scope.

(* a linear map on entries commutes with every step of base_two_symm's block processing *)
Variable h : F -> F.
Hypothesis Hadd : forall x y, h (x + y) = h x + h y.
Hypothesis Hsc : forall t x, h (t * x) = t * h x.
Hypothesis H0 : h 0 = 0.

Notation normaliseF := (normalise K (fmul K)).
Notation tleft := (transform_left 0 (fadd K) (fmul K)).
Notation tright := (transform_right 0 (fadd K) (fmul K)).

Lemma normalise_nat n1 n2 blk : normaliseF n1 n2 (map4 h blk) = map4 h (normaliseF n1 n2 blk).
Proof.
  unfold normalise, map4.
  rewrite combine_map_r, !map_map. apply map_ext; intros [nrow1 b1]; cbn [fst snd].
  rewrite combine_map_r, !map_map. apply map_ext; intros [x1 b2]; cbn [fst snd].
  rewrite combine_map_r, !map_map. apply map_ext; intros [nrow2 b3]; cbn [fst snd].
  rewrite combine_map_r, !map_map. apply map_ext; intros [x2 e]; cbn [fst snd].
  now rewrite Hsc.
Qed.

Lemma slab_zero_nat x : slab_zero 0 (map2 h x) = map2 h (slab_zero 0 x).
Proof.
  unfold slab_zero, map2. rewrite !map_map. apply map_ext; intros r.
  rewrite !map_map. apply map_ext; intros _. now rewrite H0.
Qed.
Lemma slab_scale_nat t x : slab_scale (fmul K) t (map2 h x) = map2 h (slab_scale (fmul K) t x).
Proof.
  unfold slab_scale, map2. rewrite !map_map. apply map_ext; intros r.
  rewrite !map_map. apply map_ext; intros e. now rewrite Hsc.
Qed.
Lemma slab_add_nat x y :
  slab_add (fadd K) (map2 h x) (map2 h y) = map2 h (slab_add (fadd K) x y).
Proof.
  unfold slab_add, map2. rewrite combine_map_both, !map_map. apply map_ext; intros [r1 r2]; cbn [fst snd].
  rewrite combine_map_both, !map_map. apply map_ext; intros [e1 e2]; cbn [fst snd]. now rewrite Hadd.
Qed.

Lemma fold_slab_nat z (L : list (F * list (list F))) :
  fold_right (slab_add (fadd K)) (map2 h z)
    (map (fun '(t, sl) => slab_scale (fmul K) t sl) (map (fun p => (fst p, map2 h (snd p))) L))
  = map2 h (fold_right (slab_add (fadd K)) z (map (fun '(t, sl) => slab_scale (fmul K) t sl) L)).
Proof.
  induction L as [|[t sl] L IH]; cbn [map fold_right fst snd]; [reflexivity|].
  now rewrite IH, slab_scale_nat, slab_add_nat.
Qed.

Lemma transform_left_nat T blk : tleft T (map4 h blk) = map4 h (tleft T blk).
Proof.
  unfold transform_left, map4. rewrite !map_map. apply map_ext; intros b1.
  rewrite !map_map. apply map_ext; intros trow.
  change (map (map (map h))) with (map (map2 h)). rewrite combine_map_r.
  replace (hd [] (map (map2 h) b1)) with (map2 h (hd [] b1)) by (now destruct b1).
  rewrite slab_zero_nat. apply fold_slab_nat.
Qed.

Lemma asum_nat (L : list (F * F)) :
  asum 0 (fadd K) (map (fun '(t, x) => t * x) (map (fun p => (fst p, h (snd p))) L))
  = h (asum 0 (fadd K) (map (fun '(t, x) => t * x) L)).
Proof.
  unfold asum. induction L as [|[t x] L IH]; cbn [map fold_right fst snd]; [now rewrite H0|].
  now rewrite IH, Hadd, Hsc.
Qed.

Lemma apply_rows_nat T v :
  apply_rows 0 (fadd K) (fmul K) T (map h v) = map h (apply_rows 0 (fadd K) (fmul K) T v).
Proof.
  unfold apply_rows. rewrite map_map. apply map_ext; intros trow.
  rewrite combine_map_r. apply asum_nat.
Qed.

Lemma transform_right_nat T blk : tright T (map4 h blk) = map4 h (tright T blk).
Proof.
  unfold transform_right, map4. rewrite !map_map. apply map_ext; intros b1.
  rewrite !map_map. apply map_ext; intros b2. rewrite !map_map. apply map_ext; intros row.
  apply apply_rows_nat.
Qed.

Lemma flatten_block_nat (blk : list (list (list (list F)))) :
  flatten_block (map4 h blk) = map2 h (flatten_block blk).
Proof.
  unfold flatten_block, map4, map2. induction blk as [|b1 blk IH]; cbn [map flat_map]; [reflexivity|].
  rewrite map_app, IH. f_equal. rewrite !map_map. apply map_ext; intros b2.
  now rewrite concat_map.
Qed.

Lemma shell_block_nat sph1 sph2 T1 T2 n1 n2 blk :
  shell_block K 0 (fadd K) (fmul K) sph1 sph2 T1 T2 n1 n2 (map4 h blk)
  = map2 h (shell_block K 0 (fadd K) (fmul K) sph1 sph2 T1 T2 n1 n2 blk).
Proof.
  unfold shell_block. rewrite normalise_nat.
  destruct sph1, sph2; rewrite ?transform_left_nat, ?transform_right_nat; apply flatten_block_nat.
Qed.
End Lift.

Section Assembled.
Context {F : Type} (K : Fops F) (Kf : is_field K).
Add Field KFa : Kf.
Local Open Scope F_scope.
Notation "0" := (f0 K) : F_scope.
Infix "+" := (fadd K) : F_scope.
Infix "*" := (fmul K) : F_scope.

Notation pblockF := (pblock K 0 (fadd K) (fmul K)).

(* processed block (normalised, transformed to the shells' coordinate types, flattened) *)
Lemma kept_pblock tol p1 p2 :
  is_screened K tol (p_shell p1) (p_shell p2) = false ->
  pblockF (overlap_block_screened K tol) p1 p2 = pblockF (overlap_block K) p1 p2.
Proof. intros H. unfold pblock. now rewrite kept_block. Qed.

Lemma removed_pblock tol p1 p2 :
  is_screened K tol (p_shell p1) (p_shell p2) = true ->
  pblockF (overlap_block_screened K tol) p1 p2 = map2 (zf K) (pblockF (overlap_block K) p1 p2).
Proof.
  intros H. unfold pblock. rewrite removed_block by exact H. rewrite zero_block_is_zeroed.
  apply (shell_block_nat K); intros; unfold zf; ring.
Qed.

Lemma two_symm_blocks_ext n (bf bf' : nat -> nat -> list (list F)) :
  (forall i j, i < n -> j < n -> bf i j = bf' i j) ->
  two_symm_blocks 0 n bf = two_symm_blocks 0 n bf'.
Proof.
  intros H. unfold two_symm_blocks. f_equal. apply mk_ext; intros i Hi. f_equal.
  apply mk_ext; intros j Hj. destruct (Nat.leb i j); [now apply H|]. f_equal. now apply H.
Qed.

(* the unscreened processed block of shells i, j of a basis, and the model's decision for them *)
Definition ublock (basis : list (shell F)) (i j : nat) : list (list F) :=
  let ps := map (prep K) basis in
  pblockF (overlap_block K) (nth i ps (dummy_p K)) (nth j ps (dummy_p K)).
Definition pair_screened (tol : option F) (basis : list (shell F)) (i j : nat) : bool :=
  let ps := map (prep K) basis in
  is_screened K tol (p_shell (nth i ps (dummy_p K))) (p_shell (nth j ps (dummy_p K))).

Lemma overlap_integral_blocks basis :
  overlap_integral K basis None = two_symm_blocks 0 (length basis) (ublock basis).
Proof. unfold overlap_integral. rewrite two_symm_integral_unfold. cbv zeta. now rewrite map_length. Qed.

(* The assembled screened matrix is assembled, by the same triangle assembly, from the unscreened
   processed blocks of the kept pairs and from all-zero matrices of the same shape for the removed pairs. *)
Theorem screened_assembly basis T tol :
  overlap_integral_screened K basis T tol =
  let m := two_symm_blocks 0 (length basis) (fun i j =>
             if pair_screened tol basis i j then map2 (zf K) (ublock basis i j) else ublock basis i j) in
  match T with None => m | Some t => lincomb2 0 (fadd K) (fmul K) t t m end.
Proof.
  unfold overlap_integral_screened. rewrite two_symm_integral_unfold. cbv zeta. rewrite map_length.
  assert (E : two_symm_blocks 0 (length basis) (fun i j =>
                pblockF (overlap_block_screened K tol) (nth i (map (prep K) basis) (dummy_p K))
                        (nth j (map (prep K) basis) (dummy_p K)))
            = two_symm_blocks 0 (length basis) (fun i j =>
                if pair_screened tol basis i j then map2 (zf K) (ublock basis i j) else ublock basis i j)).
  { apply two_symm_blocks_ext; intros i j _ _. unfold pair_screened, ublock. cbv zeta.
    destruct (is_screened K tol _ _) eqn:E.
    - now apply removed_pblock.
    - now apply kept_pblock. }
  now rewrite E.
Qed.

(* every entry of a removed processed block is 0 *)
Lemma zeroed_entries (m : list (list F)) r c : nth c (nth r (map2 (zf K) m) []) 0 = 0.
Proof.
  unfold map2. destruct (nth_in_or_default r (map (map (zf K)) m) []) as [Hin|Hd].
  - apply in_map_iff in Hin. destruct Hin as [x [Hx _]]. rewrite <- Hx.
    destruct (nth_in_or_default c (map (zf K) x) 0) as [Hin|Hd]; [|exact Hd].
    apply in_map_iff in Hin. destruct Hin as [y [Hy _]]. now rewrite <- Hy.
  - rewrite Hd. apply nth_nil'.
Qed.

End Assembled.
(* ------------------------------------------------------------------ *)
(* Part 2: the reals                                                    *)
(* ------------------------------------------------------------------ *)
From Coq Require Import Reals Lra Psatz RealField.
Local Open Scope R_scope.

Definition Rleb (x y : R) : bool := if Rle_dec x y then true else false.
Definition Reqb (x y : R) : bool := if Req_EM_T x y then true else false.

(* the model's number interface at the real numbers, with the real sqrt / exp / ln / PI *)
Definition RK : Fops R :=
  mkFops R 0 1 Rplus Rmult Rminus Ropp Rdiv Rinv Rleb Reqb PI sqrt exp ln (fun _ _ => 0) (fun x => x).

Lemma RK_field : is_field RK.
Proof. exact Rfield. Qed.

Lemma Rleb_true x y : Rleb x y = true <-> x <= y.
Proof. unfold Rleb. destruct (Rle_dec x y); split; intros; auto; discriminate. Qed.
Lemma Rleb_false x y : Rleb x y = false <-> y < x.
Proof. unfold Rleb. destruct (Rle_dec x y); split; intros; auto; try discriminate; lra. Qed.

(* ---- the minimum ---- *)
Definition is_min (m : R) (l : list R) : Prop := In m l /\ forall x, In x l -> m <= x.

Lemma is_min_unique m m' l : is_min m l -> is_min m' l -> m = m'.
Proof. intros [H1 H2] [H3 H4]. apply Rle_antisym; auto. Qed.

Lemma fold_min_spec r : forall x,
  let m := fold_left (fmin2 RK) r x in
  (m = x \/ In m r) /\ m <= x /\ forall y, In y r -> m <= y.
Proof.
  induction r as [|y r IH]; intros x; cbn [fold_left].
  - repeat split; auto; try lra. intros y [].
  - specialize (IH (fmin2 RK x y)). cbv zeta in IH. destruct IH as [A [B C]].
    set (m := fold_left (fmin2 RK) r (fmin2 RK x y)) in *.
    assert (D : fmin2 RK x y <= x /\ fmin2 RK x y <= y /\ (fmin2 RK x y = x \/ fmin2 RK x y = y)).
    { unfold fmin2. cbn [fleb RK]. destruct (Rleb x y) eqn:E.
      - apply Rleb_true in E. repeat split; auto; lra.
      - apply Rleb_false in E. repeat split; auto; lra. }
    destruct D as [D1 [D2 D3]]. cbv zeta. repeat split.
    + destruct A as [A|A]; [|right; now right].
      destruct D3 as [D3|D3]; [left|right; left]; congruence.
    + lra.
    + intros z [<-|Hz]; [lra|auto].
Qed.

Lemma fmin_list_is_min l : l <> [] -> is_min (fmin_list RK l) l.
Proof.
  destruct l as [|x r]; [congruence|]. intros _. unfold fmin_list.
  pose proof (fold_min_spec r x) as H. cbv zeta in H. destruct H as [A [B C]].
  split.
  - destruct A as [A|A]; [left; now rewrite A|now right].
  - intros y [<-|Hy]; auto.
Qed.

(* ---- the decision over the reals ---- *)
Definition pos_exps (s : shell R) : Prop := s_exps s <> [] /\ forall x, In x (s_exps s) -> 0 < x.

Lemma min_exp_is_min s : pos_exps s -> is_min (min_exp RK s) (s_exps s).
Proof. intros [H _]. now apply fmin_list_is_min. Qed.

Lemma min_exp_pos s : pos_exps s -> 0 < min_exp RK s.
Proof. intros H. destruct (min_exp_is_min s H) as [A _]. destruct H as [_ Hp]. now apply Hp. Qed.

Lemma dist2_R sa sb :
  dist2 RK sa sb = (s_x sb - s_x sa) * (s_x sb - s_x sa) + (s_y sb - s_y sa) * (s_y sb - s_y sa)
                   + (s_z sb - s_z sa) * (s_z sb - s_z sa).
Proof. reflexivity. Qed.

Lemma cutoff2_R tol sa sb :
  cutoff2 RK tol sa sb
  = - (min_exp RK sa + min_exp RK sb) / (min_exp RK sa * min_exp RK sb) * ln tol.
Proof. reflexivity. Qed.

Lemma dist2_nonneg sa sb : 0 <= dist2 RK sa sb.
Proof.
  rewrite dist2_R. generalize (s_x sb - s_x sa) (s_y sb - s_y sa) (s_z sb - s_z sa). intros a b c. nra.
Qed.

Lemma is_screened_R tol sa sb :
  is_screened RK (Some tol) sa sb = true
  <-> 0 < tol /\ 0 <= cutoff2 RK tol sa sb /\ cutoff2 RK tol sa sb < dist2 RK sa sb.
Proof.
  unfold is_screened. cbn [fleb RK f0].
  destruct (Rleb tol 0) eqn:E1.
  { apply Rleb_true in E1. split; [discriminate|]. intros [H _]. lra. }
  apply Rleb_false in E1.
  destruct (Rleb 0 (cutoff2 RK tol sa sb)) eqn:E2.
  - apply Rleb_true in E2. destruct (Rleb (dist2 RK sa sb) (cutoff2 RK tol sa sb)) eqn:E3; cbn [negb].
    + apply Rleb_true in E3. split; [discriminate|]. intros [_ [_ H]]. lra.
    + apply Rleb_false in E3. split; auto.
  - apply Rleb_false in E2. split; [discriminate|]. intros [_ [H _]]. lra.
Qed.

Lemma coef_pos a b : 0 < a -> 0 < b -> 0 < (a + b) / (a * b).
Proof. intros Ha Hb. apply Rdiv_lt_0_compat; nra. Qed.

Lemma neg_coef a b x : - (a + b) / (a * b) * x = (a + b) / (a * b) * - x.
Proof. unfold Rdiv. ring. Qed.

Lemma ln_le' x y : 0 < x -> x <= y -> ln x <= ln y.
Proof. intros Hx [H| ->]; [left; now apply ln_increasing|right; reflexivity]. Qed.

Lemma ln_nonpos t : 0 < t -> t <= 1 -> ln t <= 0.
Proof. intros H0 H1. rewrite <- ln_1. now apply ln_le'. Qed.

Lemma cutoff2_nonneg tol sa sb :
  pos_exps sa -> pos_exps sb -> 0 < tol <= 1 -> 0 <= cutoff2 RK tol sa sb.
Proof.
  intros Ha Hb [H0 H1]. rewrite cutoff2_R, neg_coef.
  pose proof (coef_pos _ _ (min_exp_pos sa Ha) (min_exp_pos sb Hb)).
  pose proof (ln_nonpos tol H0 H1). nra.
Qed.

(* the squared comparison of the model is the documented comparison
   |R_b - R_a| > sqrt(-(a+b)/(ab) ln tol)   (overlap.py:217-218) for every tolerance in (0, 1] *)
Theorem screened_iff_documented tol sa sb :
  pos_exps sa -> pos_exps sb -> 0 < tol <= 1 ->
  (is_screened RK (Some tol) sa sb = true
   <-> sqrt (dist2 RK sa sb)
       > sqrt (- (min_exp RK sa + min_exp RK sb) / (min_exp RK sa * min_exp RK sb) * ln tol)).
Proof.
  intros Ha Hb Ht. rewrite <- cutoff2_R. pose proof (cutoff2_nonneg tol sa sb Ha Hb Ht) as Hc.
  rewrite is_screened_R. split.
  - intros [_ [_ H]]. apply sqrt_lt_1_alt. lra.
  - intros H. repeat split; [lra|exact Hc|]. apply sqrt_lt_0_alt. exact H.
Qed.

(* tolerances above 1: the radicand is negative, the code's comparison with nan is False *)
Lemma tol_above_one_not_screened tol sa sb :
  pos_exps sa -> pos_exps sb -> 1 < tol -> is_screened RK (Some tol) sa sb = false.
Proof.
  intros Ha Hb Ht. destruct (is_screened RK (Some tol) sa sb) eqn:E; [|reflexivity].
  apply is_screened_R in E. destruct E as [_ [E _]]. rewrite cutoff2_R, neg_coef in E.
  pose proof (coef_pos _ _ (min_exp_pos sa Ha) (min_exp_pos sb Hb)).
  assert (0 < ln tol) by (rewrite <- ln_1; apply ln_increasing; lra). nra.
Qed.

(* lowering the tolerance never removes more blocks *)
Theorem screen_monotone tol1 tol2 sa sb :
  pos_exps sa -> pos_exps sb -> 0 < tol1 -> tol1 <= tol2 -> tol2 <= 1 ->
  is_screened RK (Some tol1) sa sb = true -> is_screened RK (Some tol2) sa sb = true.
Proof.
  intros Ha Hb H0 H12 H1 H. apply is_screened_R in H. apply is_screened_R.
  destruct H as [_ [Hc Hd]].
  assert (Ht2 : 0 < tol2 <= 1) by lra.
  repeat split; [lra|now apply cutoff2_nonneg|].
  rewrite cutoff2_R, neg_coef in *.
  pose proof (coef_pos _ _ (min_exp_pos sa Ha) (min_exp_pos sb Hb)).
  pose proof (ln_le' tol1 tol2 H0 H12). nra.
Qed.

(* the decision depends on the exponents only through the two minima *)
Theorem cutoff_uses_min_exponents tol sa sb sa' sb' ma mb :
  is_min ma (s_exps sa) -> is_min ma (s_exps sa') ->
  is_min mb (s_exps sb) -> is_min mb (s_exps sb') ->
  s_x sa = s_x sa' -> s_y sa = s_y sa' -> s_z sa = s_z sa' ->
  s_x sb = s_x sb' -> s_y sb = s_y sb' -> s_z sb = s_z sb' ->
  is_screened RK tol sa sb = is_screened RK tol sa' sb'.
Proof.
  intros A A' B B' X1 X2 X3 Y1 Y2 Y3.
  assert (Ne : forall m l, is_min m l -> l <> []) by (intros m l [Hin _] ->; exact Hin).
  assert (Ea : min_exp RK sa = min_exp RK sa').
  { unfold min_exp. rewrite (is_min_unique _ _ _ (fmin_list_is_min _ (Ne _ _ A)) A).
    now rewrite (is_min_unique _ _ _ (fmin_list_is_min _ (Ne _ _ A')) A'). }
  assert (Eb : min_exp RK sb = min_exp RK sb').
  { unfold min_exp. rewrite (is_min_unique _ _ _ (fmin_list_is_min _ (Ne _ _ B)) B).
    now rewrite (is_min_unique _ _ _ (fmin_list_is_min _ (Ne _ _ B')) B'). }
  destruct tol as [t|]; [|reflexivity].
  unfold is_screened, cutoff2, dist2. now rewrite Ea, Eb, X1, X2, X3, Y1, Y2, Y3.
Qed.

(* ... and the minimum is the smallest exponent: with the explicit formula *)
Theorem screened_explicit tol sa sb ma mb :
  is_min ma (s_exps sa) -> is_min mb (s_exps sb) ->
  (is_screened RK (Some tol) sa sb = true
   <-> 0 < tol /\ 0 <= - (ma + mb) / (ma * mb) * ln tol
       /\ - (ma + mb) / (ma * mb) * ln tol < dist2 RK sa sb).
Proof.
  intros A B.
  assert (Ne : forall m l, is_min m l -> l <> []) by (intros m l [Hin _] ->; exact Hin).
  rewrite is_screened_R, cutoff2_R. unfold min_exp.
  rewrite (is_min_unique _ _ _ (fmin_list_is_min _ (Ne _ _ A)) A).
  rewrite (is_min_unique _ _ _ (fmin_list_is_min _ (Ne _ _ B)) B). reflexivity.
Qed.

Lemma is_min_replace m x y l1 l2 :
  In m (l1 ++ l2) -> is_min m (l1 ++ x :: l2) -> m <= y -> is_min m (l1 ++ y :: l2).
Proof.
  intros Hin [_ Hle] Hy. split.
  - apply in_app_iff in Hin. apply in_app_iff. destruct Hin; [now left|right; now right].
  - intros z Hz. apply in_app_iff in Hz. destruct Hz as [Hz|[<-|Hz]]; [|exact Hy|].
    + apply Hle. apply in_app_iff. now left.
    + apply Hle. apply in_app_iff. right. now right.
Qed.

(* ---- the conservative bound for s shells ---- *)
(* reduced exponent of a primitive pair, and the overlap of two NORMALISED s primitives with
   exponents a, b at squared distance d2:  (2 sqrt(ab)/(a+b))^(3/2) exp(-mu d2)  *)
Definition mu (a b : R) : R := a * b / (a + b).
Definition pref (a b : R) : R := let y := 2 * sqrt (a * b) / (a + b) in y * sqrt y.
Definition sprim (a b d2 : R) : R := pref a b * exp (- (mu a b * d2)).

(* contraction: lists of (coefficient, exponent); na, nb are the contraction norms *)
Definition rsum (l : list R) : R := fold_right Rplus 0 l.
Definition dsum (la lb : list (R * R)) (s : R -> R -> R) : R :=
  rsum (map (fun ca => rsum (map (fun cb => fst ca * fst cb * s (snd ca) (snd cb)) lb)) la).
Definition S_contr (na nb : R) (la lb : list (R * R)) (d2 : R) : R :=
  na * nb * dsum la lb (fun a b => sprim a b d2).
Definition abs_sum (l : list (R * R)) : R := rsum (map (fun c => Rabs (fst c)) l).

Lemma mu_mono a b a' b' : 0 < a -> 0 < b -> a <= a' -> b <= b' -> mu a b <= mu a' b'.
Proof.
  intros Ha Hb Haa Hbb. unfold mu.
  apply Rmult_le_reg_r with ((a + b) * (a' + b')); [nra|].
  replace (a * b / (a + b) * ((a + b) * (a' + b'))) with (a * b * (a' + b')) by (field; lra).
  replace (a' * b' / (a' + b') * ((a + b) * (a' + b'))) with (a' * b' * (a + b)) by (field; lra).
  assert (0 <= a * a' * (b' - b)) by (apply Rmult_le_pos; nra).
  assert (0 <= b * b' * (a' - a)) by (apply Rmult_le_pos; nra).
  nra.
Qed.

Lemma mu_pos a b : 0 < a -> 0 < b -> 0 < mu a b.
Proof. intros. unfold mu. apply Rdiv_lt_0_compat; nra. Qed.

Lemma mu_inv a b : 0 < a -> 0 < b -> (a + b) / (a * b) = / mu a b.
Proof. intros. unfold mu. field. repeat split; lra. Qed.

(* arithmetic-geometric mean: 2 sqrt(ab) <= a + b *)
Lemma amgm a b : 0 < a -> 0 < b -> 2 * sqrt (a * b) <= a + b.
Proof.
  intros Ha Hb. rewrite sqrt_mult by lra.
  pose proof (sqrt_sqrt a ltac:(lra)). pose proof (sqrt_sqrt b ltac:(lra)).
  pose proof (sqrt_pos a). pose proof (sqrt_pos b).
  pose proof (Rle_0_sqr (sqrt a - sqrt b)) as Hsq. unfold Rsqr in Hsq. nra.
Qed.

Lemma pref_bounds a b : 0 < a -> 0 < b -> 0 <= pref a b <= 1.
Proof.
  intros Ha Hb. unfold pref. cbv zeta.
  set (y := 2 * sqrt (a * b) / (a + b)).
  assert (Hy0 : 0 <= y).
  { unfold y. apply Rmult_le_pos; [pose proof (sqrt_pos (a * b)); lra|].
    left. apply Rinv_0_lt_compat. lra. }
  assert (Hy1 : y <= 1).
  { unfold y. apply Rmult_le_reg_r with (a + b); [lra|].
    replace (2 * sqrt (a * b) / (a + b) * (a + b)) with (2 * sqrt (a * b)) by (field; lra).
    pose proof (amgm a b Ha Hb). lra. }
  pose proof (sqrt_pos y).
  assert (sqrt y <= 1) by (rewrite <- sqrt_1; apply sqrt_le_1_alt; exact Hy1).
  split; nra.
Qed.

Lemma exp_le' x y : x <= y -> exp x <= exp y.
Proof. intros [H| ->]; [left; now apply exp_increasing|right; reflexivity]. Qed.

(* every primitive pair of two screened s shells overlaps by at most E = exp(-mu_min d2) < tol *)
Lemma sprim_bound a b ma mb d2 :
  0 < ma -> 0 < mb -> ma <= a -> mb <= b -> 0 <= d2 ->
  0 <= sprim a b d2 <= exp (- (mu ma mb * d2)).
Proof.
  intros Hma Hmb Ha Hb Hd. unfold sprim.
  pose proof (pref_bounds a b ltac:(lra) ltac:(lra)) as [P0 P1].
  pose proof (exp_pos (- (mu a b * d2))) as E0.
  assert (E1 : exp (- (mu a b * d2)) <= exp (- (mu ma mb * d2))).
  { apply exp_le'. pose proof (mu_mono ma mb a b Hma Hmb Ha Hb). nra. }
  split; [nra|]. pose proof (exp_pos (- (mu ma mb * d2))). nra.
Qed.

Lemma cutoff_exp_lt tol ma mb d2 :
  0 < ma -> 0 < mb -> 0 < tol ->
  - (ma + mb) / (ma * mb) * ln tol < d2 -> exp (- (mu ma mb * d2)) < tol.
Proof.
  intros Hma Hmb Ht H. rewrite neg_coef, mu_inv in H by assumption.
  pose proof (mu_pos ma mb Hma Hmb) as Hm.
  rewrite <- (exp_ln tol Ht). apply exp_increasing.
  assert (mu ma mb * (/ mu ma mb * - ln tol) < mu ma mb * d2) by (apply Rmult_lt_compat_l; assumption).
  rewrite <- Rmult_assoc, Rinv_r, Rmult_1_l in H0 by lra. lra.
Qed.

(* |sum_ij c_i c_j s_ij| <= E * sum|c_i| * sum|c_j| when |s_ij| <= E *)
Lemma inner_bound (c E : R) (lb : list (R * R)) (s : R -> R) :
  0 <= E -> (forall cb, In cb lb -> Rabs (s (snd cb)) <= E) ->
  Rabs (rsum (map (fun cb => c * fst cb * s (snd cb)) lb)) <= Rabs c * E * abs_sum lb.
Proof.
  intros HE. unfold abs_sum. induction lb as [|[cb b] lb IH]; intros H; cbn [map rsum fold_right fst snd].
  - rewrite Rabs_R0. lra.
  - eapply Rle_trans; [apply Rabs_triang|].
    assert (H1 : Rabs (c * cb * s b) <= Rabs c * E * Rabs cb).
    { rewrite !Rabs_mult. pose proof (H (cb, b) (or_introl eq_refl)) as Hs. cbn [snd] in Hs.
      pose proof (Rabs_pos c). pose proof (Rabs_pos cb). pose proof (Rabs_pos (s b)).
      assert (0 <= Rabs c * Rabs cb) by nra. nra. }
    assert (H2 := IH (fun x Hx => H x (or_intror Hx))).
    unfold rsum in *. lra.
Qed.

Lemma dsum_bound (E : R) (la lb : list (R * R)) (s : R -> R -> R) :
  0 <= E -> (forall ca cb, In ca la -> In cb lb -> Rabs (s (snd ca) (snd cb)) <= E) ->
  Rabs (dsum la lb s) <= E * abs_sum la * abs_sum lb.
Proof.
  intros HE. unfold dsum. induction la as [|[ca a] la IH]; intros H; cbn [map rsum fold_right fst snd].
  - rewrite Rabs_R0. unfold abs_sum. cbn. lra.
  - eapply Rle_trans; [apply Rabs_triang|].
    pose proof (inner_bound ca E lb (s a) HE (fun cb Hcb => H (ca, a) cb (or_introl eq_refl) Hcb)) as H1.
    assert (H2 := IH (fun x y Hx Hy => H x y (or_intror Hx) Hy)).
    unfold abs_sum in *. cbn [map rsum fold_right fst snd]. unfold rsum in *. nra.
Qed.

Lemma abs_sum_nonneg l : 0 <= abs_sum l.
Proof.
  unfold abs_sum. induction l as [|c l IH]; cbn [map rsum fold_right]; [lra|].
  pose proof (Rabs_pos (fst c)). unfold rsum in *. lra.
Qed.

(* Two s shells given by (coefficient, exponent) lists with contraction norms na, nb, whose pair is
   removed at tolerance tol (d2 beyond the squared cutoff of their SMALLEST exponents): the removed
   element is below tol times the sums of the normalised absolute contraction coefficients. *)
Theorem removed_s_bound (la lb : list (R * R)) (na nb tol d2 ma mb : R) :
  (forall ca, In ca la -> 0 < snd ca) -> (forall cb, In cb lb -> 0 < snd cb) ->
  is_min ma (map snd la) -> is_min mb (map snd lb) ->
  0 < tol <= 1 -> 0 <= na -> 0 <= nb ->
  - (ma + mb) / (ma * mb) * ln tol < d2 ->
  Rabs (S_contr na nb la lb d2) <= tol * (na * abs_sum la) * (nb * abs_sum lb)
  /\ (0 < na * abs_sum la -> 0 < nb * abs_sum lb ->
      Rabs (S_contr na nb la lb d2) < tol * (na * abs_sum la) * (nb * abs_sum lb)).
Proof.
  intros Pa Pb [Ia La] [Ib Lb] [Ht0 Ht1] Hna Hnb Hd.
  assert (Hma : 0 < ma).
  { apply in_map_iff in Ia. destruct Ia as [x [<- Hx]]. now apply Pa. }
  assert (Hmb : 0 < mb).
  { apply in_map_iff in Ib. destruct Ib as [x [<- Hx]]. now apply Pb. }
  assert (Hd0 : 0 <= d2).
  { rewrite neg_coef in Hd. pose proof (coef_pos ma mb Hma Hmb). pose proof (ln_nonpos tol Ht0 Ht1). nra. }
  set (E := exp (- (mu ma mb * d2))).
  assert (HE : E < tol) by (apply cutoff_exp_lt; assumption).
  assert (HE0 : 0 <= E) by (left; apply exp_pos).
  assert (HS : Rabs (dsum la lb (fun a b => sprim a b d2)) <= E * abs_sum la * abs_sum lb).
  { apply dsum_bound; [exact HE0|]. intros ca cb Hca Hcb.
    assert (ma <= snd ca) by (apply La; now apply in_map).
    assert (mb <= snd cb) by (apply Lb; now apply in_map).
    pose proof (sprim_bound (snd ca) (snd cb) ma mb d2 Hma Hmb H H0 Hd0) as [S0 S1].
    rewrite Rabs_pos_eq by exact S0. exact S1. }
  pose proof (abs_sum_nonneg la) as Aa. pose proof (abs_sum_nonneg lb) as Ab.
  assert (HX : Rabs (S_contr na nb la lb d2) <= E * ((na * abs_sum la) * (nb * abs_sum lb))).
  { unfold S_contr. rewrite !Rabs_mult, (Rabs_pos_eq na), (Rabs_pos_eq nb) by assumption.
    assert (0 <= na * nb) by nra.
    replace (E * (na * abs_sum la * (nb * abs_sum lb))) with (na * nb * (E * abs_sum la * abs_sum lb)) by ring.
    apply Rmult_le_compat_l; assumption. }
  assert (0 <= na * abs_sum la) by nra. assert (0 <= nb * abs_sum lb) by nra.
  split.
  - assert (0 <= (na * abs_sum la) * (nb * abs_sum lb)) by nra. nra.
  - intros Xa Xb. assert (0 < (na * abs_sum la) * (nb * abs_sum lb)) by nra. nra.
Qed.

(* the same bound tied to the model's decision function: a pair of shells removed by [is_screened] *)
Lemma map_snd_combine {A B} (la : list A) (lb : list B) :
  length la = length lb -> map snd (combine la lb) = lb.
Proof.
  revert lb; induction la as [|a la IH]; intros [|b lb] H; cbn in *; try congruence. f_equal. apply IH. lia.
Qed.

Theorem removed_s_bound_model (sa sb : shell R) (ca cb : list R) (na nb tol : R) :
  pos_exps sa -> pos_exps sb -> length ca = length (s_exps sa) -> length cb = length (s_exps sb) ->
  0 < tol <= 1 -> 0 <= na -> 0 <= nb ->
  is_screened RK (Some tol) sa sb = true ->
  let la := combine ca (s_exps sa) in let lb := combine cb (s_exps sb) in
  Rabs (S_contr na nb la lb (dist2 RK sa sb)) <= tol * (na * abs_sum la) * (nb * abs_sum lb)
  /\ (0 < na * abs_sum la -> 0 < nb * abs_sum lb ->
      Rabs (S_contr na nb la lb (dist2 RK sa sb)) < tol * (na * abs_sum la) * (nb * abs_sum lb)).
Proof.
  intros Pa Pb La Lb Ht Hna Hnb H. cbv zeta.
  apply is_screened_R in H. destruct H as [_ [_ H]]. rewrite cutoff2_R in H.
  apply removed_s_bound with (ma := min_exp RK sa) (mb := min_exp RK sb); try assumption.
  - intros x Hx. apply (proj2 Pa). rewrite <- (map_snd_combine ca (s_exps sa) La). now apply in_map.
  - intros x Hx. apply (proj2 Pb). rewrite <- (map_snd_combine cb (s_exps sb) Lb). now apply in_map.
  - rewrite map_snd_combine by exact La. now apply min_exp_is_min.
  - rewrite map_snd_combine by exact Lb. now apply min_exp_is_min.
Qed.

(* ---- the abstract primitive overlap [sprim] is what the model computes for two s primitives ---- *)
Lemma sqrt_y_uvw a b : 0 < a -> 0 < b ->
  sqrt (2 * sqrt (a * b) / (a + b))
  = sqrt (sqrt (2 * a / PI)) * sqrt (sqrt (2 * b / PI)) * sqrt (PI / (a + b)).
Proof.
  intros Ha Hb. pose proof PI_RGT_0 as Hpi.
  assert (Hsab : 0 <= sqrt (a * b)) by apply sqrt_pos.
  apply sqrt_lem_1.
  - apply Rmult_le_pos; [lra|]. left. apply Rinv_0_lt_compat. lra.
  - repeat apply Rmult_le_pos; apply sqrt_pos.
  - set (u := sqrt (sqrt (2 * a / PI))). set (v := sqrt (sqrt (2 * b / PI))). set (w := sqrt (PI / (a + b))).
    assert (Hu : u * u = sqrt (2 * a / PI)) by (apply sqrt_sqrt, sqrt_pos).
    assert (Hv : v * v = sqrt (2 * b / PI)) by (apply sqrt_sqrt, sqrt_pos).
    assert (Hw : w * w = PI / (a + b)).
    { apply sqrt_sqrt. left. apply Rdiv_lt_0_compat; lra. }
    replace (u * v * w * (u * v * w)) with ((u * u) * (v * v) * (w * w)) by ring.
    rewrite Hu, Hv, Hw. rewrite <- sqrt_mult_alt by (left; apply Rdiv_lt_0_compat; lra).
    replace (2 * a / PI * (2 * b / PI)) with ((2 / PI) * (2 / PI) * (a * b)) by (field; lra).
    rewrite sqrt_mult_alt by (assert (0 < 2 / PI) by (apply Rdiv_lt_0_compat; lra); nra).
    rewrite sqrt_square by (left; apply Rdiv_lt_0_compat; lra).
    field. split; lra.
Qed.

Theorem sprim_is_model_primitive (a b ax ay az bx by_ bz : R) :
  0 < a -> 0 < b ->
  norm_prim RK 0 (0, 0, 0)%nat a * norm_prim RK 0 (0, 0, 0)%nat b
  * (base RK ax bx a b * base RK ay by_ a b * base RK az bz a b)
  = sprim a b ((bx - ax) * (bx - ax) + (by_ - ay) * (by_ - ay) + (bz - az) * (bz - az)).
Proof.
  intros Ha Hb. unfold norm_prim, pow34, base, hmean, psum, sprim, pref, mu.
  cbn [fmul fdiv fadd fsub fopp f1 f0 fsqrt fexp fpi fapx RK fpow fdf_odd]. cbv zeta.
  rewrite (sqrt_y_uvw a b Ha Hb).
  set (u := sqrt (sqrt ((1 + 1) * a / PI))). set (v := sqrt (sqrt ((1 + 1) * b / PI))).
  replace (2 * a / PI) with ((1 + 1) * a / PI) by (f_equal; ring).
  replace (2 * b / PI) with ((1 + 1) * b / PI) by (f_equal; ring).
  fold u v. set (w := sqrt (PI / (a + b))).
  assert (Hy : 2 * sqrt (a * b) / (a + b) = (u * v * w) * (u * v * w)).
  { symmetry. apply sqrt_lem_0.
    - apply Rmult_le_pos; [pose proof (sqrt_pos (a * b)); lra|]. left. apply Rinv_0_lt_compat. lra.
    - repeat apply Rmult_le_pos; apply sqrt_pos.
    - unfold u, v, w. replace ((1 + 1) * a / PI) with (2 * a / PI) by (f_equal; ring).
      replace ((1 + 1) * b / PI) with (2 * b / PI) by (f_equal; ring). apply sqrt_y_uvw; assumption. }
  rewrite Hy. rewrite sqrt_1. replace (1 * 1 * 1) with 1 by ring. rewrite sqrt_1.
  set (m := a * b / (a + b)).
  replace (exp (- (m * ((bx - ax) * (bx - ax) + (by_ - ay) * (by_ - ay) + (bz - az) * (bz - az)))))
    with (exp (- (m * ((ax - bx) * (ax - bx)))) * exp (- (m * ((ay - by_) * (ay - by_))))
          * exp (- (m * ((az - bz) * (az - bz))))).
  2:{ rewrite <- !exp_plus. f_equal. ring. }
  field.
Qed.

(* ---- the bound on the model's own s-s block ---- *)
Lemma combine_map_map3 {A B C D} (f : A -> C) (g : A -> D) (l : list A) (l2 : list B) :
  combine (map f l) (combine (map g l) l2)
  = map (fun xc : A * B => (f (fst xc), (g (fst xc), snd xc))) (combine l l2).
Proof. revert l2; induction l as [|a l IH]; intros [|b l2]; cbn; [reflexivity..|]. now rewrite IH. Qed.

Definition ss_shell (x y z : R) (es : list R) (cs : list (list R)) (sph : bool) (lb : list label) : shell R :=
  mkShell R 0 x y z es cs sph [] lb.

Lemma ss_entry xa ya za ea ca sa_ la_ xb yb zb eb cb sb_ lb_ m1 m2 :
  let sa := ss_shell xa ya za ea ca sa_ la_ in let sb := ss_shell xb yb zb eb cb sb_ lb_ in
  (m1 < nseg sa)%nat -> (m2 < nseg sb)%nat ->
  nth4 RK m1 0 m2 0 (overlap_block RK sa sb)
  = rsum (map (fun bc : R * list R =>
        rsum (map (fun ac : R * list R =>
               base RK xa xb (fst ac) (fst bc) * base RK ya yb (fst ac) (fst bc) * base RK za zb (fst ac) (fst bc)
               * norm_prim RK 0 (0,0,0)%nat (fst ac) * nth m1 (snd ac) 0) (combine ea ca))
        * norm_prim RK 0 (0,0,0)%nat (fst bc) * nth m2 (snd bc) 0) (combine eb cb)).
Proof.
  intros sa sb H1 H2. unfold nth4, overlap_block, mm_block. cbv zeta. cbn [map hd].
  rewrite (block_of_entry RK sa sb _ m1 0 m2 0 H1 ltac:(cbn; lia) H2 ltac:(cbn; lia)).
  change (comps_of sa) with [(0,0,0)%nat]. change (comps_of sb) with [(0,0,0)%nat].
  change (norms RK sa) with [map (norm_prim RK 0 (0,0,0)%nat) ea].
  change (norms RK sb) with [map (norm_prim RK 0 (0,0,0)%nat) eb].
  cbn [nth]. unfold entry_sum, tabs. rewrite !map_map.
  change (s_exps sa) with ea. change (s_exps sb) with eb.
  change (s_coeffs sa) with ca. change (s_coeffs sb) with cb.
  rewrite combine_map_map3, map_map.
  change (fsum RK) with rsum.
  f_equal. apply map_ext; intros [beta crowb]; cbn [fst snd].
  rewrite map_map, combine_map_map3, map_map.
  change (fmul RK) with Rmult. change (f0 RK) with 0.
  first [ reflexivity
        | f_equal; first [ reflexivity | f_equal; first [reflexivity | f_equal; apply map_ext; intros [alpha crowa]; reflexivity ] ] ].
Qed.

Lemma rsum_scal_r {A} (f : A -> R) l k : rsum (map f l) * k = rsum (map (fun x => f x * k) l).
Proof. induction l as [|x l IH]; cbn [map rsum fold_right]; [ring|]. unfold rsum in *. rewrite <- IH. ring. Qed.
Lemma rsum_plus {A} (f g : A -> R) l :
  rsum (map (fun x => f x + g x) l) = rsum (map f l) + rsum (map g l).
Proof. induction l as [|x l IH]; cbn [map rsum fold_right]; [ring|]. unfold rsum in *. rewrite IH. ring. Qed.
Lemma rsum_zero {A} (l : list A) : rsum (map (fun _ => 0) l) = 0.
Proof. induction l as [|x l IH]; cbn [map rsum fold_right]; [reflexivity|]. unfold rsum in *. rewrite IH. ring. Qed.
Lemma rsum_swap {A B} (f : A -> B -> R) la lb :
  rsum (map (fun a => rsum (map (fun b => f a b) lb)) la)
  = rsum (map (fun b => rsum (map (fun a => f a b) la)) lb).
Proof.
  induction la as [|a la IH]; cbn [map rsum fold_right].
  - now rewrite rsum_zero.
  - rewrite rsum_plus. unfold rsum in *. now rewrite IH.
Qed.
Lemma rsum_ext_in {A} (f g : A -> R) l : (forall x, In x l -> f x = g x) -> rsum (map f l) = rsum (map g l).
Proof. intros H. f_equal. now apply map_ext_in. Qed.

(* column m of a coefficient matrix paired with the exponents: the (coefficient, exponent) list of segment m *)
Definition col (m : nat) (es : list R) (cs : list (list R)) : list (R * R) :=
  map (fun ac : R * list R => (nth m (snd ac) 0, fst ac)) (combine es cs).

Lemma map_fst_combine {A B} (la : list A) (lb : list B) :
  length la = length lb -> map fst (combine la lb) = la.
Proof.
  revert lb; induction la as [|a la IH]; intros [|b lb] H; cbn in *; try congruence. f_equal. apply IH. lia.
Qed.
Lemma col_exps m es cs : length cs = length es -> map snd (col m es cs) = es.
Proof. intros H. unfold col. rewrite map_map. cbn [snd]. apply map_fst_combine. now symmetry. Qed.

(* the raw s-s block entry of the model is the double sum over primitive pairs of c_i c_j sprim(a_i, b_j, d2) *)
Theorem ss_entry_dsum xa ya za ea ca sa_ la_ xb yb zb eb cb sb_ lb_ m1 m2 :
  let sa := ss_shell xa ya za ea ca sa_ la_ in let sb := ss_shell xb yb zb eb cb sb_ lb_ in
  (m1 < nseg sa)%nat -> (m2 < nseg sb)%nat ->
  (forall x, In x ea -> 0 < x) -> (forall x, In x eb -> 0 < x) ->
  nth4 RK m1 0 m2 0 (overlap_block RK sa sb)
  = dsum (col m1 ea ca) (col m2 eb cb) (fun a b => sprim a b (dist2 RK sa sb)).
Proof.
  intros sa sb H1 H2 Pa Pb. unfold sa, sb. rewrite ss_entry by assumption. fold sa sb.
  unfold dsum, col. rewrite map_map. cbn [fst snd].
  transitivity (rsum (map (fun bc : R * list R => rsum (map (fun ac : R * list R =>
      nth m1 (snd ac) 0 * nth m2 (snd bc) 0 * sprim (fst ac) (fst bc) (dist2 RK sa sb)) (combine ea ca)))
      (combine eb cb))).
  - apply rsum_ext_in; intros [beta crowb] Hb; cbn [fst snd].
    rewrite !rsum_scal_r. apply rsum_ext_in; intros [alpha crowa] Ha; cbn [fst snd].
    assert (0 < alpha) by (apply Pa; eapply in_combine_l; exact Ha).
    assert (0 < beta) by (apply Pb; eapply in_combine_l; exact Hb).
    rewrite dist2_R. cbn [s_x s_y s_z sa sb ss_shell].
    rewrite <- (sprim_is_model_primitive alpha beta xa ya za xb yb zb) by assumption. ring.
  - rewrite rsum_swap. apply rsum_ext_in; intros [alpha crowa] Ha; cbn [fst snd].
    now rewrite map_map.
Qed.

(* Conservative bound on the model's own block: two s shells whose pair is removed at tolerance tol.
   na, nb stand for the contraction norms (any non-negative numbers; the assembly multiplies the raw
   entry by norm_cont_a[m1][0] * norm_cont_b[m2][0], Model/Assembly.v [normalise]). *)
Theorem removed_s_bound_block xa ya za ea ca sa_ la_ xb yb zb eb cb sb_ lb_ m1 m2 na nb tol :
  let sa := ss_shell xa ya za ea ca sa_ la_ in let sb := ss_shell xb yb zb eb cb sb_ lb_ in
  pos_exps sa -> pos_exps sb -> length ca = length ea -> length cb = length eb ->
  (m1 < nseg sa)%nat -> (m2 < nseg sb)%nat ->
  0 < tol <= 1 -> 0 <= na -> 0 <= nb ->
  is_screened RK (Some tol) sa sb = true ->
  let Sa := abs_sum (col m1 ea ca) in let Sb := abs_sum (col m2 eb cb) in
  let e := na * nb * nth4 RK m1 0 m2 0 (overlap_block RK sa sb) in
  Rabs e <= tol * (na * Sa) * (nb * Sb)
  /\ (0 < na * Sa -> 0 < nb * Sb -> Rabs e < tol * (na * Sa) * (nb * Sb)).
Proof.
  intros sa sb Pa Pb La Lb H1 H2 Ht Hna Hnb H. cbv zeta.
  unfold sa, sb. rewrite ss_entry_dsum; try assumption; try (apply (proj2 Pa)); try (apply (proj2 Pb)).
  fold sa sb. fold (S_contr na nb (col m1 ea ca) (col m2 eb cb) (dist2 RK sa sb)).
  apply is_screened_R in H. destruct H as [_ [_ H]]. rewrite cutoff2_R in H.
  apply removed_s_bound with (ma := min_exp RK sa) (mb := min_exp RK sb); try assumption.
  - intros x Hx. apply (proj2 Pa). change (s_exps sa) with ea. rewrite <- (col_exps m1 ea ca La). now apply in_map.
  - intros x Hx. apply (proj2 Pb). change (s_exps sb) with eb. rewrite <- (col_exps m2 eb cb Lb). now apply in_map.
  - rewrite col_exps by exact La. now apply min_exp_is_min.
  - rewrite col_exps by exact Lb. now apply min_exp_is_min.
Qed.

(* ---- the same bound on the entry of the NORMALISED block, with the model's own contraction norms ---- *)
Lemma combine_mk {A B} n (f : nat -> A) (g : nat -> B) :
  combine (mk n f) (mk n g) = mk n (fun i => (f i, g i)).
Proof. unfold mk. induction (seq 0 n) as [|i l IH]; cbn; [reflexivity|]. now rewrite IH. Qed.

Lemma normalise_mk M1 L1 M2 L2 (g1 : nat -> nat -> R) (g2 : nat -> nat -> R) (B : nat -> nat -> nat -> nat -> R) :
  normalise RK Rmult (mk M1 (fun m => mk L1 (g1 m))) (mk M2 (fun m => mk L2 (g2 m)))
    (mk M1 (fun m => mk L1 (fun c => mk M2 (fun m' => mk L2 (fun c' => B m c m' c')))))
  = mk M1 (fun m => mk L1 (fun c => mk M2 (fun m' => mk L2 (fun c' => g1 m c * g2 m' c' * B m c m' c')))).
Proof.
  unfold normalise. rewrite combine_mk, map_mk. apply mk_ext; intros m _.
  rewrite combine_mk, map_mk. apply mk_ext; intros c _.
  rewrite combine_mk, map_mk. apply mk_ext; intros m' _.
  rewrite combine_mk, map_mk. apply mk_ext; intros c' _. reflexivity.
Qed.

Definition ncont (s : shell R) (m : nat) : R := nth 0 (nth m (norm_cont RK s) []) 0.

Lemma ncont_nonneg s m : 0 <= ncont s m.
Proof.
  unfold ncont, norm_cont. rewrite nth_mk_or. destruct (Nat.ltb m (nseg s)); [|cbn; lra].
  rewrite nth_mk_or. destruct (Nat.ltb 0 (length (comps_of s))); [|lra].
  cbn [fdiv f1 fsqrt fapx RK]. set (x := nth4 RK m 0 m 0 (overlap_block RK s s)).
  destruct (Req_dec (sqrt x) 0) as [E|E].
  - rewrite E. unfold Rdiv. rewrite Rinv_0. lra.
  - pose proof (sqrt_pos x). left. apply Rdiv_lt_0_compat; lra.
Qed.

(* entry (m1, 0, m2, 0) of the normalised block = norm_a[m1][0] * norm_b[m2][0] * raw entry
   (base_two_symm.py:160-165 as modelled by [normalise]) *)
Lemma ss_normalised_entry xa ya za ea ca sa_ la_ xb yb zb eb cb sb_ lb_ m1 m2 :
  let sa := ss_shell xa ya za ea ca sa_ la_ in let sb := ss_shell xb yb zb eb cb sb_ lb_ in
  (m1 < nseg sa)%nat -> (m2 < nseg sb)%nat ->
  nth4 RK m1 0 m2 0 (normalise RK Rmult (norm_cont RK sa) (norm_cont RK sb) (overlap_block RK sa sb))
  = ncont sa m1 * ncont sb m2 * nth4 RK m1 0 m2 0 (overlap_block RK sa sb).
Proof.
  intros sa sb H1 H2. unfold ncont.
  set (B := fun m c m' c' => nth4 RK m c m' c' (overlap_block RK sa sb)).
  assert (EB : overlap_block RK sa sb
     = mk (nseg sa) (fun m => mk 1 (fun c => mk (nseg sb) (fun m' => mk 1 (fun c' => B m c m' c'))))).
  { unfold B, nth4, overlap_block, mm_block. cbv zeta. cbn [map hd]. unfold block_of. cbv zeta.
    change (comps_of sa) with [(0,0,0)%nat]. change (comps_of sb) with [(0,0,0)%nat].
    change (norms RK sa) with [map (norm_prim RK 0 (0,0,0)%nat) ea].
    change (norms RK sb) with [map (norm_prim RK 0 (0,0,0)%nat) eb].
    cbn [combine length].
    apply mk_ext; intros m Hm. apply mk_ext; intros c Hc.
    apply mk_ext; intros m' Hm'. apply mk_ext; intros c' Hc'.
    rewrite nth_mk by exact Hm. rewrite nth_mk by exact Hc.
    rewrite nth_mk by exact Hm'. rewrite nth_mk by exact Hc'. reflexivity. }
  rewrite EB at 1.
  unfold norm_cont at 1 2. change (length (comps_of sa)) with 1%nat. change (length (comps_of sb)) with 1%nat.
  rewrite (normalise_mk (nseg sa) 1 (nseg sb) 1).
  unfold nth4 at 1. rewrite nth_mk by exact H1. rewrite (nth_mk 1) by lia.
  rewrite nth_mk by exact H2. rewrite (nth_mk 1) by lia.
  unfold norm_cont. change (length (comps_of sa)) with 1%nat. change (length (comps_of sb)) with 1%nat.
  rewrite nth_mk by exact H1. rewrite (nth_mk 1) by lia.
  rewrite nth_mk by exact H2. rewrite (nth_mk 1) by lia. reflexivity.
Qed.

(* The property's last clause on the model: every entry of the normalised s-s block of a removed pair is
   smaller in magnitude than tol times the sums of the normalised absolute contraction coefficients. *)
Theorem removed_s_bound_normalised xa ya za ea ca sa_ la_ xb yb zb eb cb sb_ lb_ m1 m2 tol :
  let sa := ss_shell xa ya za ea ca sa_ la_ in let sb := ss_shell xb yb zb eb cb sb_ lb_ in
  pos_exps sa -> pos_exps sb -> length ca = length ea -> length cb = length eb ->
  (m1 < nseg sa)%nat -> (m2 < nseg sb)%nat ->
  0 < tol <= 1 ->
  is_screened RK (Some tol) sa sb = true ->
  let Sa := ncont sa m1 * abs_sum (col m1 ea ca) in let Sb := ncont sb m2 * abs_sum (col m2 eb cb) in
  let e := nth4 RK m1 0 m2 0 (normalise RK Rmult (norm_cont RK sa) (norm_cont RK sb) (overlap_block RK sa sb)) in
  Rabs e <= tol * Sa * Sb /\ (0 < Sa -> 0 < Sb -> Rabs e < tol * Sa * Sb).
Proof.
  intros sa sb Pa Pb La Lb H1 H2 Ht H. cbv zeta.
  unfold sa, sb. rewrite ss_normalised_entry by assumption. fold sa sb.
  apply (removed_s_bound_block xa ya za ea ca sa_ la_ xb yb zb eb cb sb_ lb_ m1 m2
           (ncont sa m1) (ncont sb m2) tol); try assumption; apply ncont_nonneg.
Qed.

(* ---- ... and on the entry of the processed block that the assembly places in the matrix, for Cartesian
        s shells (for spherical s shells the 1x1 transform is applied on top; not lifted here) ---- *)
Lemma concat_mk_single {A} n (f : nat -> A) : concat (mk n (fun i => [f i])) = mk n f.
Proof. unfold mk. induction (seq 0 n) as [|i l IH]; cbn; [reflexivity|]. now rewrite IH. Qed.
Lemma flat_map_single {A B} (g : A -> B) l : flat_map (fun x => [g x]) l = map g l.
Proof. induction l as [|x l IH]; cbn; [reflexivity|]. now rewrite IH. Qed.

Lemma ss_pblock_entry xa ya za ea ca la_ xb yb zb eb cb lb_ m1 m2 :
  let sa := ss_shell xa ya za ea ca false la_ in let sb := ss_shell xb yb zb eb cb false lb_ in
  (m1 < nseg sa)%nat -> (m2 < nseg sb)%nat ->
  nth m2 (nth m1 (pblock RK 0 Rplus Rmult (overlap_block RK) (prep RK sa) (prep RK sb)) []) 0
  = nth4 RK m1 0 m2 0 (normalise RK Rmult (norm_cont RK sa) (norm_cont RK sb) (overlap_block RK sa sb)).
Proof.
  intros sa sb H1 H2. unfold pblock, prep. cbn [p_shell p_norm p_T].
  change (s_sph sa) with false. change (s_sph sb) with false. unfold shell_block.
  set (N := normalise RK Rmult (norm_cont RK sa) (norm_cont RK sb) (overlap_block RK sa sb)).
  assert (EN : N = mk (nseg sa) (fun m => mk 1 (fun c => mk (nseg sb) (fun m' => mk 1 (fun c' =>
                 nth4 RK m c m' c' N))))).
  { unfold N at 1.
    set (B := fun m c m' c' => nth4 RK m c m' c' (overlap_block RK sa sb)).
    assert (EB : overlap_block RK sa sb
       = mk (nseg sa) (fun m => mk 1 (fun c => mk (nseg sb) (fun m' => mk 1 (fun c' => B m c m' c'))))).
    { unfold B, nth4, overlap_block, mm_block. cbv zeta. cbn [map hd]. unfold block_of. cbv zeta.
      change (comps_of sa) with [(0,0,0)%nat]. change (comps_of sb) with [(0,0,0)%nat].
      change (norms RK sa) with [map (norm_prim RK 0 (0,0,0)%nat) ea].
      change (norms RK sb) with [map (norm_prim RK 0 (0,0,0)%nat) eb].
      cbn [combine length].
      apply mk_ext; intros m Hm. apply mk_ext; intros c Hc.
      apply mk_ext; intros m' Hm'. apply mk_ext; intros c' Hc'.
      rewrite nth_mk by exact Hm. rewrite nth_mk by exact Hc.
      rewrite nth_mk by exact Hm'. rewrite nth_mk by exact Hc'. reflexivity. }
    assert (EN0 : N = normalise RK Rmult (norm_cont RK sa) (norm_cont RK sb)
       (mk (nseg sa) (fun m => mk 1 (fun c => mk (nseg sb) (fun m' => mk 1 (fun c' => B m c m' c')))))).
    { unfold N. now rewrite <- EB. }
    rewrite EB. unfold norm_cont in EN0 |- *.
    change (length (comps_of sa)) with 1%nat in EN0 |- *. change (length (comps_of sb)) with 1%nat in EN0 |- *.
    rewrite (normalise_mk (nseg sa) 1 (nseg sb) 1) in EN0 |- *.
    apply mk_ext; intros m Hm. apply mk_ext; intros c Hc.
    apply mk_ext; intros m' Hm'. apply mk_ext; intros c' Hc'.
    rewrite EN0. unfold nth4. rewrite nth_mk by exact Hm. rewrite nth_mk by exact Hc.
    rewrite nth_mk by exact Hm'. now rewrite nth_mk by exact Hc'. }
  rewrite EN at 1. unfold flatten_block.
  change (fun b1 : list (list (list R)) => map (fun b2 => concat b2) b1)
    with (fun b1 : list (list (list R)) => map (@concat R) b1).
  unfold mk at 1. rewrite flat_map_concat_map, map_map.
  change (fun x : nat => map (@concat R) (mk 1 (fun c => mk (nseg sb) (fun m' => mk 1 (fun c' => nth4 RK x c m' c' N)))))
    with (fun x : nat => [concat (mk (nseg sb) (fun m' => [nth4 RK x 0 m' 0 N]))]).
  rewrite <- flat_map_concat_map, flat_map_single.
  fold (mk (nseg sa) (fun x => concat (mk (nseg sb) (fun m' => [nth4 RK x 0 m' 0 N])))).
  rewrite nth_mk by exact H1. rewrite concat_mk_single. now rewrite nth_mk by exact H2.
Qed.

Theorem removed_s_bound_pblock xa ya za ea ca la_ xb yb zb eb cb lb_ m1 m2 tol :
  let sa := ss_shell xa ya za ea ca false la_ in let sb := ss_shell xb yb zb eb cb false lb_ in
  pos_exps sa -> pos_exps sb -> length ca = length ea -> length cb = length eb ->
  (m1 < nseg sa)%nat -> (m2 < nseg sb)%nat ->
  0 < tol <= 1 ->
  is_screened RK (Some tol) sa sb = true ->
  let Sa := ncont sa m1 * abs_sum (col m1 ea ca) in let Sb := ncont sb m2 * abs_sum (col m2 eb cb) in
  let e := nth m2 (nth m1 (pblock RK 0 Rplus Rmult (overlap_block RK) (prep RK sa) (prep RK sb)) []) 0 in
  Rabs e <= tol * Sa * Sb /\ (0 < Sa -> 0 < Sb -> Rabs e < tol * Sa * Sb).
Proof.
  intros sa sb Pa Pb La Lb H1 H2 Ht H. cbv zeta.
  unfold sa, sb. rewrite ss_pblock_entry by assumption.
  apply (removed_s_bound_normalised xa ya za ea ca false la_ xb yb zb eb cb false lb_ m1 m2 tol); assumption.
Qed.

(* ---- the hypotheses above are satisfiable (concrete instances) ---- *)
Definition ex_shell (x : R) : shell R := mkShell R 0 x 0 0 [1] [[1]] false [] [].

Lemma ex_pos x : pos_exps (ex_shell x).
Proof. split; [discriminate|]. intros y [<-|[]]. lra. Qed.

Lemma ln2_bounds : 0 < ln 2 < 1.
Proof.
  split; [rewrite <- ln_1; apply ln_increasing; lra|].
  rewrite <- (ln_exp 1). apply ln_increasing; [lra|]. pose proof (exp_ineq1 1 ltac:(lra)). lra.
Qed.

Lemma ex_screened : is_screened RK (Some (/ 2)) (ex_shell 0) (ex_shell 3) = true.
Proof.
  apply is_screened_R. rewrite cutoff2_R, dist2_R.
  change (min_exp RK (ex_shell 0)) with 1. change (min_exp RK (ex_shell 3)) with 1.
  cbn [s_x s_y s_z ex_shell]. rewrite ln_Rinv by lra. pose proof ln2_bounds.
  replace (- (1 + 1) / (1 * 1) * - ln 2) with (2 * ln 2) by field. repeat split; lra.
Qed.

Example screen_monotone_ex :
  is_screened RK (Some (3 / 4)) (ex_shell 0) (ex_shell 3) = true.
Proof.
  apply (screen_monotone (/ 2) (3 / 4)); try apply ex_pos; try lra. exact ex_screened.
Qed.

Example screened_iff_documented_ex :
  sqrt (dist2 RK (ex_shell 0) (ex_shell 3))
  > sqrt (- (min_exp RK (ex_shell 0) + min_exp RK (ex_shell 3))
          / (min_exp RK (ex_shell 0) * min_exp RK (ex_shell 3)) * ln (/ 2)).
Proof. apply screened_iff_documented; try apply ex_pos; [lra|exact ex_screened]. Qed.

(* min, not max: a second, larger exponent (or any replacement of it) does not change the decision *)
Example cutoff_uses_min_exponents_ex (big big' : R) : 1 <= big -> 1 <= big' ->
  is_screened RK (Some (/ 2)) (mkShell R 0 0 0 0 [1; big] [[1]; [1]] false [] []) (ex_shell 3)
  = is_screened RK (Some (/ 2)) (mkShell R 0 0 0 0 [1; big'] [[1]; [1]] false [] []) (ex_shell 3).
Proof.
  intros H H'. apply (cutoff_uses_min_exponents _ _ _ _ _ 1 1); try reflexivity.
  - split; [now left|]. intros x [<-|[<-|[]]]; lra.
  - split; [now left|]. intros x [<-|[<-|[]]]; lra.
  - split; [now left|]. intros x [<-|[]]; lra.
  - split; [now left|]. intros x [<-|[]]; lra.
Qed.

Example removed_s_bound_ex :
  Rabs (S_contr 1 1 [(1, 1)] [(1, 1)] 9) < / 2 * (1 * abs_sum [(1, 1)]) * (1 * abs_sum [(1, 1)]).
Proof.
  assert (A : abs_sum [(1, 1)] = 1) by (unfold abs_sum; cbn; rewrite Rabs_R1; ring).
  pose proof ln2_bounds.
  apply (removed_s_bound [(1, 1)] [(1, 1)] 1 1 (/ 2) 9 1 1); try lra.
  - intros ca [<-|[]]. cbn. lra.
  - intros ca [<-|[]]. cbn. lra.
  - split; [now left|]. intros x [<-|[]]; cbn; lra.
  - split; [now left|]. intros x [<-|[]]; cbn; lra.
  - rewrite ln_Rinv by lra. replace (- (1 + 1) / (1 * 1) * - ln 2) with (2 * ln 2) by field. lra.
Qed.

Example removed_s_bound_pblock_ex :
  let sa := ss_shell 0 0 0 [1] [[1]] false [] in let sb := ss_shell 3 0 0 [1] [[1]] false [] in
  Rabs (nth 0 (nth 0 (pblock RK 0 Rplus Rmult (overlap_block RK) (prep RK sa) (prep RK sb)) []) 0)
  <= / 2 * (ncont sa 0 * abs_sum (col 0 [1] [[1]])) * (ncont sb 0 * abs_sum (col 0 [1] [[1]])).
Proof.
  cbv zeta.
  apply (removed_s_bound_pblock 0 0 0 [1] [[1]] [] 3 0 0 [1] [[1]] [] 0 0 (/ 2));
    try apply ex_pos; try reflexivity; try (cbn; lia); try lra.
  exact ex_screened.
Qed.
