(* Proofs/RotationLawsP.v — the block-level rotation laws of Proofs/RotationMoreBlockP.v / RotationAngP.v with
   [block_law2] written out (curried hypotheses, explicit sums), for Props/C12_rotation2.v. *)
From Coq Require Import List Arith Lia.
From GB Require Import Base.Field Base.FNum Base.Tables Gauss.Poly3 Model.Shell Model.MomentInt Model.DiffOp
  Model.OneElec Proofs.CoreSumP Proofs.RigidP Proofs.RotationP Proofs.RotationBlockP Proofs.RotationMoreP
  Proofs.RotationMoreBlockP Proofs.RotationAngP.
Import ListNotations.

Definition law_expanded {F : Type} (K : Fops F) (R : @mat3 F) (la lb : nat)
  (ent ent' : shell F -> shell F -> nat -> nat -> nat -> nat -> F) : Prop :=
  forall sa sb : shell F,
    s_l sa = la -> s_l sb = lb -> s_comps sa = [] -> s_comps sb = [] -> wf_coeffs sa -> wf_coeffs sb ->
    (forall a b : F, In a (s_exps sa) -> In b (s_exps sb) -> fadd K a b <> f0 K) ->
    forall ma mb ja jb : nat, (ma < nseg sa)%nat -> (mb < nseg sb)%nat ->
      (ja < length (default_comps la))%nat -> (jb < length (default_comps lb))%nat ->
      fmul K (fmul K (dfnorm K (cmpd la ja)) (dfnorm K (cmpd lb jb))) (ent sa sb ma ja mb jb)
      = FNum.fsum K (map (fun ia : nat => FNum.fsum K (map (fun ib : nat =>
          fmul K (fmul K (fmul K (fmul K (rep_mat K R (cmpd la ia) (cmpd la ja))
                                         (rep_mat K R (cmpd lb ib) (cmpd lb jb)))
                                 (dfnorm K (cmpd la ia))) (dfnorm K (cmpd lb ib)))
            (ent' (rot_shell K R sa) (rot_shell K R sb) ma ia mb ib))
          (seq 0 (length (default_comps lb))))) (seq 0 (length (default_comps la)))).

Lemma law_expanded_of {F : Type} (K : Fops F) R la lb ent ent' :
  block_law2 K R la lb ent ent' -> law_expanded K R la lb ent ent'.
Proof. exact (proj1 (block_law2_unfold K R la lb ent ent')). Qed.

Section Laws.
Context {F : Type} (K : Fops F) (Kf : is_field K).
Hypothesis Hapx : forall x : F, fapx K x = x.
Hypothesis Hdf : forall c, dfnorm K c <> f0 K.

Theorem one_elec_point_rotation_expanded :
  (forall n, ofnat K (S n) <> f0 K) ->
  forall (R : @mat3 F) (C : @vec3 F) (la lb : nat), orthogonal K R ->
  law_expanded K R la lb (pc_ent K C) (pc_ent K (mapply K R C)).
Proof. intros c0 R C la lb HO. apply law_expanded_of. now apply one_elec_point_rotation_law. Qed.

Theorem point_charge_block_rotation_expanded :
  (forall n, ofnat K (S n) <> f0 K) ->
  forall (R : @mat3 F) (points : list (F * F * F * F)) (k la lb : nat), orthogonal K R -> (k < length points)%nat ->
  law_expanded K R la lb (pcb_ent K points k) (pcb_ent K (rot_points K R points) k).
Proof. intros c0 R pts k la lb HO Hk. apply law_expanded_of. now apply point_charge_block_rotation_law. Qed.

Hypothesis H2 : fadd K (f1 K) (f1 K) <> f0 K.
Hypothesis Hexp : forall x y, fexp K (fadd K x y) = fmul K (fexp K x) (fexp K y).

Theorem momentum_block_rotation_expanded :
  forall (R : @mat3 F) (k : axis) (la lb : nat), orthogonal K R ->
  law_expanded K R la lb
    (fun sa sb ma ia mb ib => sum3 K (fun i => fmul K (matf R k i) (mom_ent K i sa sb ma ia mb ib)))
    (mom_ent K k).
Proof. intros R k la lb HO. apply law_expanded_of. now apply momentum_block_rotation_law. Qed.

Theorem angmom_block_rotation_expanded :
  forall (R : @mat3 F) (k : axis) (la lb : nat), orthogonal K R ->
  law_expanded K R la lb
    (fun sa sb ma ia mb ib =>
       fmul K (det3 K (matf R)) (sum3 K (fun l => fmul K (matf R k l) (ang_ent K l sa sb ma ia mb ib))))
    (ang_ent K k).
Proof. intros R k la lb HO. apply law_expanded_of. now apply angmom_block_rotation_law. Qed.

Theorem moment_block_rotation_expanded :
  forall (R : @mat3 F) (C : @vec3 F) (orders : list comp) (d la lb : nat), orthogonal K R ->
  (d < length orders)%nat ->
  law_expanded K R la lb (mm_ent K C orders d) (mm_rot_ent K R (mapply K R C) (nth d orders (0, 0, 0)%nat)).
Proof. intros R C orders d la lb HO Hd. apply law_expanded_of. now apply moment_block_rotation_law. Qed.

End Laws.

(* the computed examples, packed *)
Lemma rotation2_examples_computed :
  forallb (fun R => forallb (fun t => pc_cov_check R (fst t) (snd t)) ex_pairs) [R345; Rimp] = true
  /\ forallb (fun R => forallb (fun k => forallb (fun t => mom_vec_check R k (fst t) (snd t)) ex_pairs)
       [AX; AY; AZ]) [R345; Rimp] = true
  /\ forallb (fun R => forallb (fun k => forallb (fun t => ang_vec_check R k (fst t) (snd t)) ex_pairs)
       [AX; AY; AZ]) [R345; Rimp] = true.
Proof.
  exact (conj point_charge_rotation_computed (conj momentum_rotation_computed angular_momentum_rotation_computed)).
Qed.

(* block level, through the list-level model (definitions of the booleans: Proofs/RotationMoreBlockP.v, RotationAngP.v) *)
Lemma rotation2_block_examples_computed :
  exb_one_elec_point = true /\ exb_point_charge_block = true /\ exb_momentum_block = true
  /\ exb_moment_block = true /\ exb_angmom_block = true.
Proof.
  exact (conj one_elec_point_law_computed (conj point_charge_block_law_computed (conj momentum_block_law_computed
          (conj moment_block_law_computed angmom_block_law_computed)))).
Qed.
