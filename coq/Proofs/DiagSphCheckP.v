(* Proofs/DiagSphCheckP.v — complete enumeration over the exact rationals: for every l <= 10 and every admissible
   (sine?, |m|) the row of Model/Spherical.sph_transform (rational core hcoef / hrad of Proofs/DiagSphP.v) is a
   unit vector for the overlap of unit-normalised Cartesians of one shell:
     hrad l m / (2l-1)!! * sum_cc' h_c G(c,c') h_c' = 1.
   The domain is finite (the property bounds l by 10), so this vm_compute is a proof. *)
From Coq Require Import List Arith Lia Bool ZArith QArith Qcanon.
From GB Require Import Base.Field Base.FNum Base.Tables Model.Shell Model.Spherical Proofs.CoreBlockP Proofs.DiagSphP.
Import ListNotations.


Definition QK : Fops Qc := QcK true (Q2Qc 0) (fun x => x) (fun x => x) (fun x => x) (fun _ x => x).

(* admissible (sine?, |m|) pairs of angular momentum l: c_0..c_l, s_1..s_l *)
Definition valid_sm (l : nat) (sine : bool) (m : nat) : Prop := (m <= l)%nat /\ (sine = true -> (1 <= m)%nat).
Definition all_sm (l : nat) : list (bool * nat) :=
  map (fun m => (false, m)) (seq 0 (S l)) ++ map (fun m => (true, m)) (seq 1 l).

Definition all_lsm : list (nat * (bool * nat)) := flat_map (fun l => map (fun p => (l, p)) (all_sm l)) (seq 0 11).

Lemma check_orth_all :
  forallb (fun t : nat * (bool * nat) => qc_eqb (Eorthf QK (fst t) (snd (snd t)) (fst (snd t))) (f1 QK)) all_lsm = true.
Proof. vm_compute. reflexivity. Qed.
