(* Proofs/CoreBlockP.v — block-level correctness of the multipole-moment / overlap kernels.

   SPEC (no tables, written with the abstract moment functional of Gauss/Moment1D.v):
     T1 A B C alpha beta k i j  = T3 (1/(2(alpha+beta))) (P-A) (P-B) (P-C) k i j
                                = normalised 1-D Gaussian integral of (x-C)^k (x-A)^i (x-B)^j
     KAB sa sb alpha beta       = product over the three axes of the s-s prefactor
                                  sqrt(pi/p) exp(-mu (A-B)^2)                       (p = alpha+beta)
     mom_prim C o sa sb ca cb   = KAB * T1_x(o_x, a_x, b_x) * T1_y(..) * T1_z(..)
     ovl_prim                   = mom_prim with order (0,0,0)
     contracted sa sb ca cb ma mb prim   (Proofs/CoreSumP.v)
                                = sum_k sum_k' d_a[k][ma] d_b[k'][mb] N(alpha_k,ca) N(beta_k',cb) prim(alpha_k,beta_k')

   THEOREMS (all l_a, l_b, K_a, K_b, M_a, M_b, centres, exponents, coefficients, component lists):
     mm_block_correct, overlap_block_correct, moment_block_correct (+ shape: orders along the last axis,
     k-th slice <-> k-th requested triple), overlap_block_sym, mm_block_sym, mm_000_is_overlap.

   Hypotheses (all stated): [fapx] is the identity; 1+1 <> 0; alpha+beta <> 0 for every pair of exponents;
   the coefficient matrix has one row per exponent; every Cartesian component of a shell is <= its
   angular momentum (true for the default component list: [default_comps_le]); indices in range. *)
From Coq Require Import List Arith Lia Field.
From GB Require Import Base.Field Base.FNum Base.Tables Gauss.Moment1D Model.Shell Model.MomentInt
  Model.Overlap Model.DiffOp Proofs.BlockP Proofs.MomentIntP Proofs.CoreSumP.
Import ListNotations.

Definition cx (c : comp) : nat := fst (fst c).
Definition cy (c : comp) : nat := snd (fst c).
Definition cz (c : comp) : nat := snd c.
Definition comp_le (l : nat) (c : comp) : Prop := cx c <= l /\ cy c <= l /\ cz c <= l.

Lemma default_comps_le l c : In c (default_comps l) -> comp_le l c.
Proof.
  unfold default_comps. intros H. apply in_flat_map in H. destruct H as [xx [Hxx H]].
  apply in_map_iff in H. destruct H as [yy [E Hyy]]. subst c.
  unfold comp_le, cx, cy, cz. cbn [fst snd]. lia.
Qed.

Section Spec.
Context {F : Type} (K : Fops F).
Local Open Scope F_scope.
Notation "0" := (f0 K) : F_scope.
Notation "1" := (f1 K) : F_scope.
Infix "+" := (fadd K) : F_scope.
Infix "*" := (fmul K) : F_scope.
Infix "-" := (fsub K) : F_scope.
Infix "/" := (fdiv K) : F_scope.

(* one axis of one primitive pair: the normalised Gaussian integral of (x-C)^k (x-A)^i (x-B)^j *)
Definition T1 (A B C alpha beta : F) (k i j : nat) : F :=
  T3 K (1 / twop K alpha beta) (PA K A B alpha beta) (PB K A B alpha beta) (PC K A B C alpha beta) k i j.

(* the s-s prefactor of a primitive pair *)
Definition KAB (sa sb : shell F) (alpha beta : F) : F :=
  base K (s_x sa) (s_x sb) alpha beta * base K (s_y sa) (s_y sb) alpha beta
  * base K (s_z sa) (s_z sb) alpha beta.

Definition mom_prim (Cx Cy Cz : F) (o : comp) (sa sb : shell F) (ca cb : comp) (alpha beta : F) : F :=
  KAB sa sb alpha beta
  * (T1 (s_x sa) (s_x sb) Cx alpha beta (cx o) (cx ca) (cx cb)
     * T1 (s_y sa) (s_y sb) Cy alpha beta (cy o) (cy ca) (cy cb)
     * T1 (s_z sa) (s_z sb) Cz alpha beta (cz o) (cz ca) (cz cb)).

Definition ovl_prim (sa sb : shell F) (ca cb : comp) (alpha beta : F) : F :=
  mom_prim 0 0 0 (0, 0, 0)%nat sa sb ca cb alpha beta.

(* well-formed shell: one coefficient row per exponent, components bounded by the angular momentum *)
Definition wf_shell (s : shell F) : Prop :=
  wf_coeffs s /\ forall c, In c (comps_of s) -> comp_le (s_l s) c.
(* every pair of exponents has a non-zero sum (true for positive exponents) *)
Definition exps_ok (sa sb : shell F) : Prop :=
  forall alpha beta, In alpha (s_exps sa) -> In beta (s_exps sb) -> psum K alpha beta <> 0.

Lemma wf_shell_default (s : shell F) : s_comps s = [] -> wf_coeffs s -> wf_shell s.
Proof.
  intros Hc Hw. split; [exact Hw|]. intros c Hin. unfold comps_of in Hin. rewrite Hc in Hin.
  now apply default_comps_le.
Qed.

Lemma omax_ge (orders : list comp) o : In o orders ->
  cx o <= omax orders /\ cy o <= omax orders /\ cz o <= omax orders.
Proof.
  induction orders as [|[[ox oy] oz] r IH]; intros H; [destruct H|].
  cbn [omax fold_right]. fold (omax r). destruct H as [E|H].
  - subst o. unfold cx, cy, cz. cbn [fst snd]. lia.
  - specialize (IH H). lia.
Qed.
End Spec.

Section P.
Context {F : Type} (K : Fops F) (Kf : is_field K).
Add Field KFc1 : Kf.
Local Open Scope F_scope.
Notation "0" := (f0 K) : F_scope.
Notation "1" := (f1 K) : F_scope.
Infix "+" := (fadd K) : F_scope.
Infix "*" := (fmul K) : F_scope.
Infix "-" := (fsub K) : F_scope.
Infix "/" := (fdiv K) : F_scope.
Notation "- x" := (fopp K x) : F_scope.

Hypothesis Hapx : forall x : F, fapx K x = x.
Hypothesis H2 : 1 + 1 <> 0.

Lemma nth_map_d {A B} (f : A -> B) (l : list A) i dA dB :
  i < length l -> nth i (map f l) dB = f (nth i l dA).
Proof. intros Hi. rewrite (nth_indep _ dB (f dA)) by (now rewrite map_length). apply map_nth. Qed.

Lemma mapmap_tabs {T} (g : T -> F) (tab : F -> F -> T) (ea eb : list F) :
  map (map g) (map (fun beta => map (fun alpha => tab alpha beta) ea) eb)
  = map (fun beta => map (fun alpha => g (tab alpha beta)) ea) eb.
Proof. rewrite map_map. apply map_ext. intros beta. now rewrite map_map. Qed.

(* ---- multipole moments: every slice of mm_block ---- *)
Section MM.
Variables (Cx Cy Cz : F) (orders : list comp) (sa sb : shell F).
Hypothesis Wa : wf_shell sa.
Hypothesis Wb : wf_shell sb.
Hypothesis He : exps_ok K sa sb.

Lemma mm_block_nth d : d < length orders ->
  nth d (mm_block K Cx Cy Cz orders sa sb) []
  = block_of K sa sb (fun ca cb => map (map (fun t => prim3 K t (nth d orders (0,0,0)%nat) ca cb))
                                       (tabs K Cx Cy Cz orders sa sb)).
Proof.
  intros Hd. unfold mm_block. cbv zeta.
  now rewrite (nth_map_d _ orders d (0,0,0)%nat) by exact Hd.
Qed.

Lemma mm_block_length : length (mm_block K Cx Cy Cz orders sa sb) = length orders.
Proof. unfold mm_block. cbv zeta. apply map_length. Qed.

Theorem mm_block_correct d ma ia mb ib :
  d < length orders ->
  ma < nseg sa -> ia < length (comps_of sa) -> mb < nseg sb -> ib < length (comps_of sb) ->
  nth4 K ma ia mb ib (nth d (mm_block K Cx Cy Cz orders sa sb) [])
  = contracted K sa sb (nth ia (comps_of sa) (0,0,0)%nat) (nth ib (comps_of sb) (0,0,0)%nat) ma mb
      (mom_prim K Cx Cy Cz (nth d orders (0,0,0)%nat) sa sb
                (nth ia (comps_of sa) (0,0,0)%nat) (nth ib (comps_of sb) (0,0,0)%nat)).
Proof.
  intros Hd Hma Hia Hmb Hib. rewrite mm_block_nth by exact Hd.
  destruct Wa as [Wca Wla]. destruct Wb as [Wcb Wlb].
  remember (nth ia (comps_of sa) (0,0,0)%nat) as ca eqn:Eca.
  remember (nth ib (comps_of sb) (0,0,0)%nat) as cb eqn:Ecb.
  remember (nth d orders (0,0,0)%nat) as o eqn:Eo.
  assert (Hca : comp_le (s_l sa) ca) by (rewrite Eca; apply Wla, nth_In; exact Hia).
  assert (Hcb : comp_le (s_l sb) cb) by (rewrite Ecb; apply Wlb, nth_In; exact Hib).
  assert (Ho : cx o <= omax orders /\ cy o <= omax orders /\ cz o <= omax orders)
    by (rewrite Eo; apply omax_ge, nth_In; exact Hd).
  rewrite (block_of_contracted K Kf sa sb _
             (fun alpha beta => prim3 K
                (table K (s_x sa) (s_x sb) Cx alpha beta (s_l sa) (s_l sb) (omax orders),
                 table K (s_y sa) (s_y sb) Cy alpha beta (s_l sa) (s_l sb) (omax orders),
                 table K (s_z sa) (s_z sb) Cz alpha beta (s_l sa) (s_l sb) (omax orders)) o ca cb)
             ma ia mb ib Wca Wcb Hma Hia Hmb Hib).
  2:{ rewrite <- Eca, <- Ecb. unfold tabs. apply mapmap_tabs. }
  rewrite <- Eca, <- Ecb. apply contracted_ext. intros alpha beta Ha Hb.
  pose proof (He alpha beta Ha Hb) as Hp.
  destruct ca as [[ax ay] az]. destruct cb as [[bx by_] bz]. destruct o as [[ox oy] oz].
  unfold comp_le, cx, cy, cz in *. cbn [fst snd] in *.
  unfold prim3. rewrite Hapx.
  rewrite !(table_correct K Kf) by (try assumption; lia).
  unfold mom_prim, KAB, T1, cx, cy, cz. cbn [fst snd]. ring.
Qed.
End MM.

(* ---- overlap ---- *)
Theorem overlap_block_correct (sa sb : shell F) ma ia mb ib :
  wf_shell sa -> wf_shell sb -> exps_ok K sa sb ->
  ma < nseg sa -> ia < length (comps_of sa) -> mb < nseg sb -> ib < length (comps_of sb) ->
  nth4 K ma ia mb ib (overlap_block K sa sb)
  = contracted K sa sb (nth ia (comps_of sa) (0,0,0)%nat) (nth ib (comps_of sb) (0,0,0)%nat) ma mb
      (ovl_prim K sa sb (nth ia (comps_of sa) (0,0,0)%nat) (nth ib (comps_of sb) (0,0,0)%nat)).
Proof.
  intros Wa Wb He Hma Hia Hmb Hib. unfold overlap_block.
  change (hd [] ?l) with (nth 0 l []).
  replace (hd [] (mm_block K 0 0 0 [(0,0,0)%nat] sa sb))
    with (nth 0 (mm_block K 0 0 0 [(0,0,0)%nat] sa sb) []).
  2:{ destruct (mm_block K 0 0 0 [(0,0,0)%nat] sa sb); reflexivity. }
  rewrite (mm_block_correct 0 0 0 [(0,0,0)%nat] sa sb Wa Wb He 0 ma ia mb ib)
    by (try assumption; cbn [length]; lia).
  reflexivity.
Qed.

(* ---- symmetry of the primitive spec ---- *)
Lemma psum_sym alpha beta : psum K beta alpha = psum K alpha beta.
Proof. unfold psum. ring. Qed.
Lemma twop_sym alpha beta : twop K beta alpha = twop K alpha beta.
Proof. unfold twop. now rewrite (psum_sym alpha beta). Qed.
Lemma Pw_sym A B alpha beta : Pw K B A beta alpha = Pw K A B alpha beta.
Proof. unfold Pw. rewrite (psum_sym alpha beta). f_equal. ring. Qed.
Lemma base_sym A B alpha beta : base K B A beta alpha = base K A B alpha beta.
Proof.
  unfold base, hmean. rewrite (psum_sym alpha beta).
  replace (beta * alpha) with (alpha * beta) by ring.
  replace ((B - A) * (B - A)) with ((A - B) * (A - B)) by ring. reflexivity.
Qed.
Lemma T1_sym A B C alpha beta k i j : T1 K B A C beta alpha k j i = T1 K A B C alpha beta k i j.
Proof.
  unfold T1, PA, PB, PC. rewrite twop_sym, Pw_sym. apply (T3_swap K Kf).
Qed.
Lemma KAB_sym sa sb alpha beta : KAB K sb sa beta alpha = KAB K sa sb alpha beta.
Proof.
  unfold KAB. now rewrite (base_sym (s_x sa) (s_x sb)), (base_sym (s_y sa) (s_y sb)), (base_sym (s_z sa) (s_z sb)).
Qed.
Lemma mom_prim_sym Cx Cy Cz o sa sb ca cb alpha beta :
  mom_prim K Cx Cy Cz o sb sa cb ca beta alpha = mom_prim K Cx Cy Cz o sa sb ca cb alpha beta.
Proof.
  unfold mom_prim. rewrite (KAB_sym sa sb).
  now rewrite (T1_sym (s_x sa) (s_x sb)), (T1_sym (s_y sa) (s_y sb)), (T1_sym (s_z sa) (s_z sb)).
Qed.

Lemma exps_ok_sym sa sb : exps_ok K sa sb -> exps_ok K sb sa.
Proof. intros H beta alpha Hb Ha. rewrite psum_sym. now apply H. Qed.

(* exchanging the two shells transposes every slice of the moment block *)
Theorem mm_block_sym Cx Cy Cz orders (sa sb : shell F) d ma ia mb ib :
  wf_shell sa -> wf_shell sb -> exps_ok K sa sb -> d < length orders ->
  ma < nseg sa -> ia < length (comps_of sa) -> mb < nseg sb -> ib < length (comps_of sb) ->
  nth4 K mb ib ma ia (nth d (mm_block K Cx Cy Cz orders sb sa) [])
  = nth4 K ma ia mb ib (nth d (mm_block K Cx Cy Cz orders sa sb) []).
Proof.
  intros Wa Wb He Hd Hma Hia Hmb Hib.
  rewrite (mm_block_correct Cx Cy Cz orders sb sa Wb Wa (exps_ok_sym _ _ He)) by assumption.
  rewrite (mm_block_correct Cx Cy Cz orders sa sb Wa Wb He) by assumption.
  rewrite <- contracted_swap by exact Kf.
  apply contracted_ext. intros beta alpha _ _. apply mom_prim_sym.
Qed.

Theorem overlap_block_sym (sa sb : shell F) ma ia mb ib :
  wf_shell sa -> wf_shell sb -> exps_ok K sa sb ->
  ma < nseg sa -> ia < length (comps_of sa) -> mb < nseg sb -> ib < length (comps_of sb) ->
  nth4 K mb ib ma ia (overlap_block K sb sa) = nth4 K ma ia mb ib (overlap_block K sa sb).
Proof.
  intros Wa Wb He Hma Hia Hmb Hib.
  rewrite (overlap_block_correct sb sa) by (try assumption; now apply exps_ok_sym).
  rewrite (overlap_block_correct sa sb) by assumption.
  rewrite <- contracted_swap by exact Kf.
  apply contracted_ext. intros beta alpha _ _. apply mom_prim_sym.
Qed.

(* order (0,0,0) reproduces the overlap block, whatever the origin and the other requested orders *)
Theorem mm_000_is_overlap Cx Cy Cz orders (sa sb : shell F) d ma ia mb ib :
  wf_shell sa -> wf_shell sb -> exps_ok K sa sb ->
  d < length orders -> nth d orders (0,0,0)%nat = (0,0,0)%nat ->
  ma < nseg sa -> ia < length (comps_of sa) -> mb < nseg sb -> ib < length (comps_of sb) ->
  nth4 K ma ia mb ib (nth d (mm_block K Cx Cy Cz orders sa sb) [])
  = nth4 K ma ia mb ib (overlap_block K sa sb).
Proof.
  intros Wa Wb He Hd Ho Hma Hia Hmb Hib.
  rewrite (mm_block_correct Cx Cy Cz orders sa sb Wa Wb He) by assumption.
  rewrite (overlap_block_correct sa sb) by assumption.
  unfold comp in *. rewrite Ho. reflexivity.
Qed.

(* ---- Moment.construct_array_contraction: the orders along the LAST axis, k-th slice <-> k-th requested
        triple (orders_axis_order), each slice the contracted three-factor moment spec ---- *)
Theorem moment_block_correct Cx Cy Cz orders (sa sb : shell F) ma ia mb ib :
  wf_shell sa -> wf_shell sb -> exps_ok K sa sb -> orders <> [] ->
  ma < nseg sa -> ia < length (comps_of sa) -> mb < nseg sb -> ib < length (comps_of sb) ->
  let e := nth ib (nth mb (nth ia (nth ma (moment_block K Cx Cy Cz orders sa sb) []) []) []) [] in
  length e = length orders /\
  forall d, d < length orders ->
    nth d e 0
    = contracted K sa sb (nth ia (comps_of sa) (0,0,0)%nat) (nth ib (comps_of sb) (0,0,0)%nat) ma mb
        (mom_prim K Cx Cy Cz (nth d orders (0,0,0)%nat) sa sb
                  (nth ia (comps_of sa) (0,0,0)%nat) (nth ib (comps_of sb) (0,0,0)%nat)).
Proof.
  intros Wa Wb He Hne Hma Hia Hmb Hib. cbv zeta.
  assert (H0 : 0 < length orders) by (destruct orders; [congruence|cbn; lia]).
  pose proof (mm_block_correct Cx Cy Cz orders sa sb Wa Wb He) as Hcorr.
  pose proof (mm_block_length Cx Cy Cz orders sa sb) as Hlen.
  pose proof (mm_block_nth Cx Cy Cz orders sa sb 0 H0) as Hb0.
  unfold moment_block. cbv zeta.
  destruct (mm_block K Cx Cy Cz orders sa sb) as [|b0 rest] eqn:Eb; [cbn in Hlen; lia|].
  cbn [nth] in Hb0.
  destruct (block_of_shape K sa sb (fun ca cb => map (map (fun t => prim3 K t (nth 0 orders (0,0,0)%nat) ca cb))
                                       (tabs K Cx Cy Cz orders sa sb))) as [S1 S2].
  rewrite <- Hb0 in S1, S2.
  destruct (S2 ma Hma) as [S3 S4]. destruct (S4 ia Hia) as [S5 S6]. pose proof (S6 mb Hmb) as S7.
  rewrite S1, nth_mk by exact Hma. rewrite S3, nth_mk by exact Hia.
  rewrite S5, nth_mk by exact Hmb. rewrite S7, nth_mk by exact Hib.
  split; [now rewrite map_length|].
  intros d Hd. rewrite (nth_map_d _ (b0 :: rest) d []) by (rewrite Hlen; exact Hd).
  apply (Hcorr d ma ia mb ib Hd Hma Hia Hmb Hib).
Qed.

End P.
