(* Proofs/ContractionAsmP.v — property C13, "generalized_is_segmented" for the ASSEMBLED symmetric two-index
   arrays with SEVERAL shells (Props/C13.v has one pair of shells only):

     the matrix of a basis in which one generalized shell s (M segments) is replaced by its M single-column
     shells [segments s], listed one after the other at the position of s, is THE SAME matrix (the functions of
     s are numbered segment-major, so the function order does not change); by induction, the same for the basis
     in which every shell is replaced (ContractionP.segmented_basis), with or without transform=.

   Any assignment of coordinate types, any number of shells.  The lower triangle of the assembled matrix is
   filled by transposition (base_two_symm.py); after the replacement the blocks between two segments of the same
   original shell that lie BELOW the diagonal are transposed copies while before they were evaluated directly,
   so the statement needs the symmetry of the integral: the hypotheses are those of the overlap block
   theorems (a field, well-formed shells, non-zero exponent sums).

   Generic part: any matrix-valued function [Mat] of a basis whose entries are given, through the index map
   oidx, by a function [Ent a b m q m' q'] of the two shells and positions that obeys the column law
   Ent (col_shell a m) b 0 q .. = Ent a b m q .. on both sides.  Instance: overlap_integral. *)
From Coq Require Import List Arith Lia Bool Field.
From GB Require Import Base.Field Base.FNum Base.Tables Base.Blocks Model.Shell Model.MomentInt
  Model.Spherical Model.Assembly Model.Overlap Model.DiffOp Model.OneBody
  Proofs.BlockP Proofs.CoreSumP Proofs.CoreBlockP Proofs.CoreDiffP Proofs.AssemblyP Proofs.OverlapP
  Proofs.BlockMatP Proofs.AssembledP Proofs.AssembledOverlapP Proofs.AssembledSphP Proofs.AssembledSphOverlapP
  Proofs.ContractionP.
Import ListNotations.

Lemma offs_const c m : offs (fun _ => c) m = m * c.
Proof. induction m as [|m IH]; cbn [offs]; lia. Qed.

(* ------------------------------------------------------------------ *)
(* the index map of the basis with one shell replaced by its segments   *)
(* ------------------------------------------------------------------ *)
Section SegIndex.
Context {F : Type} (K : Fops F).
Variables (pre post : list (shell F)) (s : shell F).
Hypothesis Hs : 0 < nseg s.

Let bs := pre ++ s :: post.
Let bs' := pre ++ segments K s ++ post.
Let p := length pre.
Let M := nseg s.

Lemma segments_length : length (segments K s) = M.
Proof. unfold segments. now rewrite map_length, seq_length. Qed.

Lemma nth_segments m d : m < M -> nth m (segments K s) d = col_shell K s m.
Proof.
  intros Hm. unfold segments. rewrite (nth_indep _ d (col_shell K s 0)) by (now rewrite map_length, seq_length).
  rewrite (map_nth (col_shell K s)). now rewrite seq_nth by exact Hm.
Qed.

Lemma seg_len' : length bs' = p + M + length post.
Proof. unfold bs'. rewrite !app_length, segments_length. unfold p. lia. Qed.
Lemma seg_len : length bs = p + 1 + length post.
Proof. unfold bs. rewrite app_length. cbn [length]. unfold p. lia. Qed.

(* shells *)
Lemma sh_pre k : k < p -> sh_at K bs' k = sh_at K bs k.
Proof. intros Hk. unfold sh_at, bs', bs. now rewrite !app_nth1 by exact Hk. Qed.
Lemma sh_mid : sh_at K bs p = s.
Proof. unfold sh_at, bs. rewrite app_nth2 by (unfold p; lia). unfold p. now rewrite Nat.sub_diag. Qed.
Lemma sh_seg m : m < M -> sh_at K bs' (p + m) = col_shell K s m.
Proof.
  intros Hm. unfold sh_at, bs'. rewrite app_nth2 by (unfold p; lia).
  replace (p + m - length pre) with m by (unfold p; lia).
  rewrite app_nth1 by (now rewrite segments_length). now apply nth_segments.
Qed.
Lemma sh_post t : sh_at K bs' (p + M + t) = sh_at K bs (p + 1 + t).
Proof.
  unfold sh_at, bs', bs.
  rewrite (app_nth2 pre (segments K s ++ post)) by (unfold p; lia).
  rewrite (app_nth2 (segments K s) post) by (rewrite segments_length; unfold p; lia). rewrite segments_length.
  rewrite (app_nth2 pre (s :: post)) by (unfold p; lia).
  replace (p + M + t - length pre - M) with t by (unfold p; lia).
  replace (p + 1 + t - length pre) with (S t) by (unfold p; lia). reflexivity.
Qed.

Lemma osize_col m : osize (col_shell K s m) = osize s.
Proof. reflexivity. Qed.
Lemma odim_col m : m < M -> odim (col_shell K s m) = osize s.
Proof. intros Hm. unfold odim. rewrite (nseg_col_shell K s m Hm). rewrite osize_col. lia. Qed.

(* offsets *)
Lemma ooff_pre k : k <= p -> ooff K bs' k = ooff K bs k.
Proof. intros Hk. unfold ooff. apply offs_ext. intros t Ht. rewrite sh_pre by lia. reflexivity. Qed.

Lemma ooff_seg m : m <= M -> ooff K bs' (p + m) = ooff K bs p + m * osize s.
Proof.
  intros Hm. unfold ooff at 1. rewrite offs_add. fold (ooff K bs' p). rewrite ooff_pre by lia. f_equal.
  rewrite <- offs_const. apply offs_ext. intros t Ht. rewrite sh_seg by lia. apply odim_col. lia.
Qed.

Lemma ooff_post t : ooff K bs' (p + M + t) = ooff K bs (p + 1 + t).
Proof.
  unfold ooff at 1. rewrite offs_add. fold (ooff K bs' (p + M)). rewrite ooff_seg by lia.
  unfold ooff at 2. rewrite offs_add. fold (ooff K bs (p + 1)).
  unfold ooff at 2. rewrite offs_add. fold (ooff K bs p). cbn [offs]. rewrite Nat.add_0_r, sh_mid.
  rewrite (offs_ext (fun u => odim (sh_at K bs' (p + M + u))) (fun u => odim (sh_at K bs (p + 1 + u))) t)
    by (intros u _; now rewrite sh_post).
  unfold odim at 2. fold M. lia.
Qed.

Lemma ototal_seg : ototal K bs' = ototal K bs.
Proof. unfold ototal. rewrite seg_len', seg_len. apply ooff_post. Qed.

(* every (shell, segment) of bs sits at a (shell, segment) of bs' with the same positions *)
Lemma seg_locate i m : i < length bs -> m < nseg (sh_at K bs i) ->
  exists i' m', i' < length bs' /\ m' < nseg (sh_at K bs' i') /\
    osize (sh_at K bs' i') = osize (sh_at K bs i) /\
    (forall q, oidx K bs' i' m' q = oidx K bs i m q) /\
    ((sh_at K bs' i' = sh_at K bs i /\ m' = m) \/ (sh_at K bs' i' = col_shell K (sh_at K bs i) m /\ m' = 0)).
Proof.
  intros Hi Hm. rewrite seg_len in Hi.
  destruct (lt_eq_lt_dec i p) as [[Hlt|Heq]|Hgt].
  - exists i, m. rewrite sh_pre by exact Hlt. repeat split; try assumption.
    + rewrite seg_len'. lia.
    + intros q. unfold oidx. rewrite ooff_pre by lia. now rewrite sh_pre by exact Hlt.
    + left. split; reflexivity.
  - subst i. rewrite sh_mid in *. fold M in Hm. exists (p + m), 0. rewrite sh_seg by exact Hm. repeat split.
    + rewrite seg_len'. lia.
    + rewrite (nseg_col_shell K s m Hm). lia.
    + intros q. unfold oidx. rewrite ooff_seg by lia. rewrite sh_seg by exact Hm. rewrite sh_mid, osize_col. lia.
    + right. split; reflexivity.
  - replace i with (p + 1 + (i - p - 1)) in * by lia. set (t := i - p - 1) in *.
    exists (p + M + t), m. rewrite sh_post. repeat split; try assumption.
    + rewrite seg_len'. lia.
    + intros q. unfold oidx. now rewrite ooff_post, sh_post.
    + left. split; reflexivity.
Qed.

(* membership *)
Lemma in_seg_basis x : In x bs' -> In x bs \/ exists m, m < M /\ x = col_shell K s m.
Proof.
  unfold bs', bs. intros H. apply in_app_or in H. destruct H as [H|H]; [left; apply in_or_app; now left|].
  apply in_app_or in H. destruct H as [H|H].
  - right. unfold segments in H. apply in_map_iff in H. destruct H as [m [<- Hm]]. apply in_seq in Hm.
    exists m. split; [unfold M; lia|reflexivity].
  - left. apply in_or_app. right. now right.
Qed.
Lemma in_mid : In s bs.
Proof. unfold bs. apply in_or_app. right. now left. Qed.
End SegIndex.

(* ------------------------------------------------------------------ *)
(* generic: a matrix whose entries obey the column law                   *)
(* ------------------------------------------------------------------ *)
Section Generic.
Context {F : Type} (K : Fops F).
Variable Mat : list (shell F) -> list (list F).
Variable Ent : shell F -> shell F -> nat -> nat -> nat -> nat -> F.

Definition mat_ok (X : list (shell F)) : Prop :=
  (length (Mat X) = ototal K X /\ forall I, I < ototal K X -> length (nth I (Mat X) []) = ototal K X) /\
  forall i j m q m' q', i < length X -> j < length X ->
    m < nseg (sh_at K X i) -> q < osize (sh_at K X i) -> m' < nseg (sh_at K X j) -> q' < osize (sh_at K X j) ->
    nth (oidx K X j m' q') (nth (oidx K X i m q) (Mat X) []) (f0 K)
    = Ent (sh_at K X i) (sh_at K X j) m q m' q'.

Hypothesis Ent_col_l : forall a b m q m' q', m < nseg a ->
  Ent (col_shell K a m) b 0 q m' q' = Ent a b m q m' q'.
Hypothesis Ent_col_r : forall a b m q m' q', m' < nseg b ->
  Ent a (col_shell K b m') m q 0 q' = Ent a b m q m' q'.

Theorem one_shell_segmented pre post s : 0 < nseg s ->
  mat_ok (pre ++ s :: post) -> mat_ok (pre ++ segments K s ++ post) ->
  Mat (pre ++ segments K s ++ post) = Mat (pre ++ s :: post).
Proof.
  intros Hs [[L1 R1] E1] [[L2 R2] E2].
  set (bs := pre ++ s :: post) in *. set (bs' := pre ++ segments K s ++ post) in *.
  pose proof (ototal_seg K pre post s Hs) as HT. fold bs bs' in HT.
  apply (matrix_ext (f0 K) _ _ (ototal K bs) (ototal K bs)).
  - now rewrite L2.
  - exact L1.
  - intros a Ha. split; [rewrite R2 by (now rewrite HT); exact HT | now apply R1].
  - intros a b Ha Hb.
    destruct (oidx_surj K bs a Ha) as (i & m & q & Hi & Hm & Hq & ->).
    destruct (oidx_surj K bs b Hb) as (j & m' & q' & Hj & Hm' & Hq' & ->).
    rewrite (E1 i j m q m' q') by assumption.
    destruct (seg_locate K pre post s Hs i m Hi Hm) as (i' & mi & Hi' & Hmi & Oi & Xi & Ci).
    destruct (seg_locate K pre post s Hs j m' Hj Hm') as (j' & mj & Hj' & Hmj & Oj & Xj & Cj).
    fold bs bs' in Hi', Hmi, Oi, Xi, Ci, Hj', Hmj, Oj, Xj, Cj.
    rewrite <- (Xi q), <- (Xj q').
    rewrite (E2 i' j' mi q mj q') by (try assumption; rewrite ?Oi, ?Oj; assumption).
    destruct Ci as [[-> ->]|[-> ->]]; destruct Cj as [[-> ->]|[-> ->]];
      rewrite ?Ent_col_l, ?Ent_col_r by assumption; reflexivity.
Qed.
End Generic.

(* ------------------------------------------------------------------ *)
(* overlap_integral                                                      *)
(* ------------------------------------------------------------------ *)
Section OverlapSeg.
Context {F : Type} (K : Fops F) (Kf : is_field K).
Add Field KFcasm : Kf.
Local Open Scope F_scope.
Notation "0" := (f0 K) : F_scope.
Notation "1" := (f1 K) : F_scope.
Infix "+" := (fadd K) : F_scope.
Infix "*" := (fmul K) : F_scope.
Notation fsum := (FNum.fsum K).
Hypothesis Hapx : forall x : F, fapx K x = x.
Hypothesis H2 : 1 + 1 <> 0.

(* the entry of the overlap matrix at (shell a, segment m, row q ; shell b, segment m', row q'), both triangles *)
Definition ovE (a b : shell F) (m q m' q' : nat) : F :=
  AssembledSphOverlapP.dsum K a b q q' (fun c c' =>
    ncont K a m c * ncont K b m' c'
    * contracted K a b (nth c (comps_of a) (0,0,0)%nat) (nth c' (comps_of b) (0,0,0)%nat) m m'
        (ovl_prim K a b (nth c (comps_of a) (0,0,0)%nat) (nth c' (comps_of b) (0,0,0)%nat))).

Lemma coeff_col (C : list (list F)) m ka : nth 0%nat (nth ka (col_rows m 0 C) []) 0 = nth m (nth ka C []) 0.
Proof.
  unfold col_rows. destruct (Nat.lt_ge_cases ka (length C)) as [H|H].
  - now rewrite (nth_map_d _ C ka []) by exact H.
  - rewrite (nth_overflow (map (fun row : list F => [nth m row 0]) C) []) by (rewrite map_length; exact H).
    rewrite (nth_overflow C []) by exact H. now destruct m.
Qed.

Lemma contracted_col_l a b ca cb m m' prim :
  contracted K (col_shell K a m) b ca cb 0%nat m' prim = contracted K a b ca cb m m' prim.
Proof.
  unfold contracted, col_shell, set_coeffs. cbn [s_exps s_coeffs s_l].
  apply fsum_mk_ext; intros ka _. apply fsum_mk_ext; intros kb _. now rewrite coeff_col.
Qed.
Lemma contracted_col_r a b ca cb m m' prim :
  contracted K a (col_shell K b m') ca cb m 0%nat prim = contracted K a b ca cb m m' prim.
Proof.
  unfold contracted, col_shell, set_coeffs. cbn [s_exps s_coeffs s_l].
  apply fsum_mk_ext; intros ka _. apply fsum_mk_ext; intros kb _. now rewrite coeff_col.
Qed.

Lemma ncont_col a m c : (m < nseg a)%nat -> ncont K (col_shell K a m) 0%nat c = ncont K a m c.
Proof. intros Hm. unfold ncont. now rewrite (norm_cont_col_shell K a m Hm). Qed.

Lemma ovE_col_l a b m q m' q' : (m < nseg a)%nat -> ovE (col_shell K a m) b 0%nat q m' q' = ovE a b m q m' q'.
Proof.
  intros Hm. unfold ovE.
  change (AssembledSphOverlapP.dsum K (col_shell K a m) b q q') with (AssembledSphOverlapP.dsum K a b q q'). apply AssembledSphOverlapP.dsum_ext. intros c c' _ _.
  rewrite (ncont_col a m c Hm).
  change (comps_of (col_shell K a m)) with (comps_of a).
  change (ovl_prim K (col_shell K a m) b) with (ovl_prim K a b).
  now rewrite contracted_col_l.
Qed.
Lemma ovE_col_r a b m q m' q' : (m' < nseg b)%nat -> ovE a (col_shell K b m') m q 0%nat q' = ovE a b m q m' q'.
Proof.
  intros Hm. unfold ovE.
  change (AssembledSphOverlapP.dsum K a (col_shell K b m') q q') with (AssembledSphOverlapP.dsum K a b q q'). apply AssembledSphOverlapP.dsum_ext. intros c c' _ _.
  rewrite (ncont_col b m' c' Hm).
  change (comps_of (col_shell K b m')) with (comps_of b).
  change (ovl_prim K a (col_shell K b m')) with (ovl_prim K a b).
  now rewrite contracted_col_r.
Qed.

Definition basis_ok (X : list (shell F)) : Prop := seg_basis X /\ basis_wf X /\ basis_exps K X X.

Lemma overlap_mat_ok X : basis_ok X -> mat_ok K (fun Y => overlap_integral K Y None) ovE X.
Proof.
  intros (C & W & E). split.
  - destruct X as [|x X']; [split; [reflexivity|intros I HI; cbn in HI; lia]|].
    apply (overlap_integral_mixed_shape K _ C). cbn; lia.
  - intros i j m q m' q' Hi Hj Hm Hq Hm' Hq'.
    exact (overlap_integral_mixed_entry K Kf Hapx H2 X C W E i j m q m' q' Hi Hj Hm Hq Hm' Hq').
Qed.

Lemma wf_col (s : shell F) m : CoreBlockP.wf_shell s -> CoreBlockP.wf_shell (col_shell K s m).
Proof.
  intros [Hc Hl]. split; [|exact Hl].
  unfold wf_coeffs, col_shell, set_coeffs, col_rows in *. cbn [s_coeffs s_exps]. now rewrite map_length.
Qed.

Lemma basis_ok_segmented pre post s : basis_ok (pre ++ s :: post) -> basis_ok (pre ++ segments K s ++ post).
Proof.
  intros (C & W & E). pose proof (in_mid pre post s) as Hmid.
  assert (Hin : forall x, In x (pre ++ segments K s ++ post) ->
            In x (pre ++ s :: post) \/ exists m, (m < nseg s)%nat /\ x = col_shell K s m)
    by (intros x Hx; apply in_seg_basis; [exact (C s Hmid)|exact Hx]).
  split; [|split].
  - intros x Hx. destruct (Hin x Hx) as [H|(m & Hm & ->)]; [now apply C|]. rewrite (nseg_col_shell K s m Hm). lia.
  - intros x Hx. destruct (Hin x Hx) as [H|(m & Hm & ->)]; [now apply W|]. apply wf_col. now apply W.
  - intros a b Ha Hb.
    destruct (Hin a Ha) as [Ha'|(m & Hm & ->)]; destruct (Hin b Hb) as [Hb'|(m' & Hm' & ->)].
    + now apply E.
    + exact (E a s Ha' Hmid).
    + exact (E s b Hmid Hb').
    + exact (E s s Hmid Hmid).
Qed.

Lemma overlap_T bs T :
  overlap_integral K bs T
  = match T with None => overlap_integral K bs None
    | Some t => lincomb2 0 (fadd K) (fmul K) t t (overlap_integral K bs None) end.
Proof. destruct T; reflexivity. Qed.

(* ONE shell replaced by its single-column shells: the same matrix *)
Theorem overlap_one_shell_segmented pre post s T :
  basis_ok (pre ++ s :: post) ->
  overlap_integral K (pre ++ segments K s ++ post) T = overlap_integral K (pre ++ s :: post) T.
Proof.
  intros H. rewrite (overlap_T (pre ++ segments K s ++ post)), (overlap_T (pre ++ s :: post)).
  assert (E : overlap_integral K (pre ++ segments K s ++ post) None = overlap_integral K (pre ++ s :: post) None).
  { apply (one_shell_segmented K (fun Y => overlap_integral K Y None) ovE ovE_col_l ovE_col_r pre post s).
    - apply (proj1 H). apply in_mid.
    - now apply overlap_mat_ok.
    - apply overlap_mat_ok. now apply basis_ok_segmented. }
  now rewrite E.
Qed.

(* EVERY shell replaced *)
Theorem overlap_segmented_basis basis T :
  basis_ok basis -> overlap_integral K (segmented_basis K basis) T = overlap_integral K basis T.
Proof.
  intros H. change basis with ([] ++ basis) in H |- * at 2.
  change (segmented_basis K basis) with ([] ++ segmented_basis K basis).
  generalize (@nil (shell F)) as pre, H. clear H.
  induction basis as [|s r IH]; intros pre H; [reflexivity|].
  unfold segmented_basis. cbn [flat_map]. fold (segmented_basis K r).
  rewrite <- (overlap_one_shell_segmented pre r s T H).
  rewrite (app_assoc pre (segments K s) r), (app_assoc pre (segments K s) (segmented_basis K r)).
  apply IH. rewrite <- app_assoc. now apply basis_ok_segmented.
Qed.

(* ---- kinetic_energy_integral: the same through the generic theorem ---- *)
Definition kinE (a b : shell F) (m q m' q' : nat) : F :=
  AssembledSphOverlapP.dsum K a b q q' (fun c c' =>
    ncont K a m c * ncont K b m' c'
    * contracted K a b (nth c (comps_of a) (0,0,0)%nat) (nth c' (comps_of b) (0,0,0)%nat) m m'
        (kin_prim K a b (nth c (comps_of a) (0,0,0)%nat) (nth c' (comps_of b) (0,0,0)%nat))).

Lemma kinE_col_l a b m q m' q' : (m < nseg a)%nat -> kinE (col_shell K a m) b 0%nat q m' q' = kinE a b m q m' q'.
Proof.
  intros Hm. unfold kinE.
  change (AssembledSphOverlapP.dsum K (col_shell K a m) b q q') with (AssembledSphOverlapP.dsum K a b q q').
  apply AssembledSphOverlapP.dsum_ext. intros c c' _ _.
  rewrite (ncont_col a m c Hm).
  change (comps_of (col_shell K a m)) with (comps_of a).
  change (kin_prim K (col_shell K a m) b) with (kin_prim K a b).
  now rewrite contracted_col_l.
Qed.
Lemma kinE_col_r a b m q m' q' : (m' < nseg b)%nat -> kinE a (col_shell K b m') m q 0%nat q' = kinE a b m q m' q'.
Proof.
  intros Hm. unfold kinE.
  change (AssembledSphOverlapP.dsum K a (col_shell K b m') q q') with (AssembledSphOverlapP.dsum K a b q q').
  apply AssembledSphOverlapP.dsum_ext. intros c c' _ _.
  rewrite (ncont_col b m' c' Hm).
  change (comps_of (col_shell K b m')) with (comps_of b).
  change (kin_prim K a (col_shell K b m')) with (kin_prim K a b).
  now rewrite contracted_col_r.
Qed.

Lemma kinetic_mat_ok X : basis_ok X -> mat_ok K (fun Y => kinetic_integral K Y None) kinE X.
Proof.
  intros (C & W & E). split.
  - destruct X as [|x X']; [split; [reflexivity|intros I HI; cbn in HI; lia]|].
    unfold kinetic_integral.
    apply (two_symm_mixed_shape K 0 (fadd K) (fmul K) (kinetic_block K) _ C).
    + intros sa sb _ _. apply (kinetic_block_shape K).
    + cbn; lia.
  - intros i j m q m' q' Hi Hj Hm Hq Hm' Hq'.
    rewrite (kinetic_mixed_is_cart_transformed K Kf Hapx H2 X C W E i j m q m' q' Hi Hj Hm Hq Hm' Hq').
    unfold kinE. apply AssembledSphOverlapP.dsum_ext. intros c c' Hc Hc'.
    rewrite (kinetic_integral_entry K Kf Hapx H2 (map to_cart X) i j m c m' c' (cart_basis_to_cart X C)
               (basis_wf_to_cart X W) (basis_exps_to_cart K X E));
      rewrite ?map_length, ?sh_at_to_cart; try assumption.
    reflexivity.
Qed.

Lemma kinetic_T bs T :
  kinetic_integral K bs T
  = match T with None => kinetic_integral K bs None
    | Some t => lincomb2 0 (fadd K) (fmul K) t t (kinetic_integral K bs None) end.
Proof. destruct T; reflexivity. Qed.

Theorem kinetic_one_shell_segmented pre post s T :
  basis_ok (pre ++ s :: post) ->
  kinetic_integral K (pre ++ segments K s ++ post) T = kinetic_integral K (pre ++ s :: post) T.
Proof.
  intros H. rewrite (kinetic_T (pre ++ segments K s ++ post)), (kinetic_T (pre ++ s :: post)).
  assert (E : kinetic_integral K (pre ++ segments K s ++ post) None = kinetic_integral K (pre ++ s :: post) None).
  { apply (one_shell_segmented K (fun Y => kinetic_integral K Y None) kinE kinE_col_l kinE_col_r pre post s).
    - apply (proj1 H). apply in_mid.
    - now apply kinetic_mat_ok.
    - apply kinetic_mat_ok. now apply basis_ok_segmented. }
  now rewrite E.
Qed.

Theorem kinetic_segmented_basis basis T :
  basis_ok basis -> kinetic_integral K (segmented_basis K basis) T = kinetic_integral K basis T.
Proof.
  intros H. change basis with ([] ++ basis) in H |- * at 2.
  change (segmented_basis K basis) with ([] ++ segmented_basis K basis).
  generalize (@nil (shell F)) as pre, H. clear H.
  induction basis as [|s r IH]; intros pre H; [reflexivity|].
  unfold segmented_basis. cbn [flat_map]. fold (segmented_basis K r).
  rewrite <- (kinetic_one_shell_segmented pre r s T H).
  rewrite (app_assoc pre (segments K s) r), (app_assoc pre (segments K s) (segmented_basis K r)).
  apply IH. rewrite <- app_assoc. now apply basis_ok_segmented.
Qed.
End OverlapSeg.

(* ------------------------------------------------------------------ *)
(* the hypotheses are satisfiable: the mixed basis of Proofs/AssembledExamplesP.v (generalized spherical d shell
   with two segments, Cartesian p shell, contracted spherical s shell) over Qc, any oracle closures *)
(* ------------------------------------------------------------------ *)
From Coq Require Import QArith Qcanon.
From GB Require Import Proofs.CoreExamplesP Proofs.AssembledExamplesP.

Section Ex.
Variables (opi : Qc) (osqrt oexp oln : Qc -> Qc) (oboys : nat -> Qc -> Qc).
Notation KQ' := (KQ opi osqrt oexp oln oboys).

Lemma ex_basis_ok : basis_ok KQ' ex_mixed.
Proof.
  exact (conj ex_mixed_seg (conj ex_mixed_wf (ex_mixed_exps opi osqrt oexp oln oboys))).
Qed.

Lemma ex_segmented_shape :
  length (segments KQ' ex_sa_sph) = 2%nat /\
  length (segmented_basis KQ' ex_mixed) = 4%nat /\
  ototal KQ' (segmented_basis KQ' ex_mixed) = 14%nat /\ ototal KQ' ex_mixed = 14%nat.
Proof. vm_compute. repeat split. Qed.

Example ex_overlap_segmented T :
  overlap_integral KQ' (segments KQ' ex_sa_sph ++ [ex_sb; ex_sc_sph]) T = overlap_integral KQ' ex_mixed T
  /\ overlap_integral KQ' (segmented_basis KQ' ex_mixed) T = overlap_integral KQ' ex_mixed T.
Proof.
  split.
  - exact (overlap_one_shell_segmented KQ' (KQ_field _ _ _ _ _) (KQ_apx _ _ _ _ _) (KQ_two _ _ _ _ _)
             [] [ex_sb; ex_sc_sph] ex_sa_sph T ex_basis_ok).
  - exact (overlap_segmented_basis KQ' (KQ_field _ _ _ _ _) (KQ_apx _ _ _ _ _) (KQ_two _ _ _ _ _)
             ex_mixed T ex_basis_ok).
Qed.
End Ex.
