(* Proofs/AssembledExamplesP.v — the hypotheses of the assembled-matrix theorems (Proofs/AssembledOverlapP.v,
   AssembledHermP.v) are satisfiable: a concrete three-shell Cartesian basis over the executable field Qc (any
   oracle closures): generalized d shell (K = 2, M = 2, 6 components), off-centre p shell, contracted s shell
   (K = 2) — 16 basis functions; every hypothesis checked by computation, and the entry theorems
   instantiated at positions of the upper triangle, the lower triangle and a diagonal block. *)
From Coq Require Import List Arith Lia ZArith QArith Qcanon.
From GB Require Import Base.Field Base.FNum Base.Tables Model.Shell Model.MomentInt Model.Overlap Model.OneBody
  Proofs.CoreSumP Proofs.CoreBlockP Proofs.CoreDiffP Proofs.CoreExamplesP
  Proofs.BlockMatP Proofs.AssembledP Proofs.AssembledOverlapP Proofs.AssembledHermP
  Proofs.AssembledSphP Proofs.AssembledSphOverlapP Proofs.AssembledSphHermP Proofs.AssembledLincombP.
Import ListNotations.
Local Open Scope nat_scope.

Section Ex.
Variables (opi : Qc) (osqrt oexp oln : Qc -> Qc) (oboys : nat -> Qc -> Qc).
Notation KQ' := (KQ opi osqrt oexp oln oboys).

Definition ex_sc : shell Qc :=
  mkShell Qc 0 (q 0 1) (q 0 1) (q 1 1) [q 5 4; q 1 4] [[q 1 1]; [q 1 2]] false [] [].
Definition ex_basis : list (shell Qc) := [ex_sa; ex_sb; ex_sc].

Lemma ex_cart : cart_basis ex_basis.
Proof. intros s [<-|[<-|[<-|[]]]]; split; try reflexivity; vm_compute; lia. Qed.

Lemma ex_wf : basis_wf ex_basis.
Proof. intros s [<-|[<-|[<-|[]]]]; apply wf_shell_default; reflexivity. Qed.

Lemma ex_exps : basis_exps KQ' ex_basis ex_basis.
Proof.
  intros sa sb Ha Hb alpha beta Hal Hbe.
  assert (Hin : forall s x, In s ex_basis -> In x (s_exps s) ->
            In x [q 1 2; q 2 1; q 3 4; q 5 4; q 1 4]).
  { intros s x [<-|[<-|[<-|[]]]] Hx; cbn [ex_sa ex_sb ex_sc s_exps In] in Hx |- *; tauto. }
  pose proof (Hin sa alpha Ha Hal) as H1. pose proof (Hin sb beta Hb Hbe) as H2.
  cbn [In] in H1, H2.
  destruct H1 as [<-|[<-|[<-|[<-|[<-|[]]]]]]; destruct H2 as [<-|[<-|[<-|[<-|[<-|[]]]]]];
    apply qc_neq; vm_compute; reflexivity.
Qed.

Lemma ex_index :
  btotal KQ' ex_basis = 16 /\ length ex_basis = 3
  /\ nseg (sh_at KQ' ex_basis 0) = 2 /\ ncomp (sh_at KQ' ex_basis 0) = 6
  /\ nseg (sh_at KQ' ex_basis 1) = 1 /\ ncomp (sh_at KQ' ex_basis 1) = 3
  /\ gidx KQ' ex_basis 0 1 4 = 10 /\ gidx KQ' ex_basis 1 0 2 = 14 /\ gidx KQ' ex_basis 2 0 0 = 15.
Proof. vm_compute. repeat split. Qed.

(* all hypotheses of the assembled theorems at once *)
Theorem assembled_hypotheses_satisfiable :
  is_field KQ' /\ (forall x : Qc, fapx KQ' x = x) /\ fadd KQ' (f1 KQ') (f1 KQ') <> f0 KQ'
  /\ cart_basis ex_basis /\ basis_wf ex_basis /\ basis_exps KQ' ex_basis ex_basis
  /\ btotal KQ' ex_basis = 16 /\ gidx KQ' ex_basis 0 1 4 = 10 /\ gidx KQ' ex_basis 1 0 2 = 14.
Proof.
  destruct ex_index as (E1 & _ & _ & _ & _ & _ & E2 & E3 & _).
  exact (conj (KQ_field _ _ _ _ _) (conj (KQ_apx _ _ _ _ _) (conj (KQ_two _ _ _ _ _)
          (conj ex_cart (conj ex_wf (conj ex_exps (conj E1 (conj E2 E3)))))))).
Qed.

(* the entry theorem instantiated in the LOWER triangle: row = p shell (position 14 = shell 1, segment 0,
   component 2 = z), column = d shell (position 10 = shell 0, segment 1, component 4 = yz) *)
Example overlap_entry_lower_ex :
  nth 10 (nth 14 (overlap_integral KQ' ex_basis None) []) (f0 KQ')
  = fmul KQ' (fmul KQ' (ncont KQ' ex_sb 0 2) (ncont KQ' ex_sa 1 4))
      (contracted KQ' ex_sb ex_sa (0, 0, 1) (0, 1, 1) 0 1 (ovl_prim KQ' ex_sb ex_sa (0, 0, 1) (0, 1, 1))).
Proof.
  exact (overlap_integral_entry KQ' (KQ_field _ _ _ _ _) (KQ_apx _ _ _ _ _) (KQ_two _ _ _ _ _)
           ex_basis ex_cart ex_wf ex_exps 1 0 0 2 1 4
           ltac:(cbn; lia) ltac:(cbn; lia) ltac:(vm_compute; lia) ltac:(vm_compute; lia)
           ltac:(vm_compute; lia) ltac:(vm_compute; lia)).
Qed.

(* Hermiticity instantiated on a DIAGONAL block (both positions in the d shell) and across shells *)
Example momentum_herm_ex :
  nth 3 (nth 10 (momentum_integral_re KQ' ex_basis None) []) []
  = vneg KQ' (nth 10 (nth 3 (momentum_integral_re KQ' ex_basis None) []) [])
  /\ nth 14 (nth 10 (momentum_integral_re KQ' ex_basis None) []) []
  = vneg KQ' (nth 10 (nth 14 (momentum_integral_re KQ' ex_basis None) []) []).
Proof.
  destruct ex_index as (E1 & _).
  split; apply (momentum_integral_herm KQ' (KQ_field _ _ _ _ _) (KQ_apx _ _ _ _ _) (KQ_two _ _ _ _ _)
                  ex_basis ex_cart ex_wf ex_exps); rewrite E1; lia.
Qed.

(* ---- a MIXED basis: the d shell spherical (5 functions per segment), the p shell Cartesian, the s shell
        spherical: 2*5 + 3 + 1 = 14 basis functions ---- *)
Definition ex_sa_sph : shell Qc :=
  mkShell Qc 2 (q 0 1) (q 0 1) (q 0 1) [q 1 2; q 2 1] [[q 1 1; q 1 2]; [q 1 3; q 1 1]] true [] [].
Definition ex_sc_sph : shell Qc :=
  mkShell Qc 0 (q 0 1) (q 0 1) (q 1 1) [q 5 4; q 1 4] [[q 1 1]; [q 1 2]] true [] [].
Definition ex_mixed : list (shell Qc) := [ex_sa_sph; ex_sb; ex_sc_sph].

Lemma ex_mixed_to_cart : map to_cart ex_mixed = ex_basis.
Proof. reflexivity. Qed.

Lemma ex_mixed_seg : seg_basis ex_mixed.
Proof. intros s [<-|[<-|[<-|[]]]]; vm_compute; lia. Qed.
Lemma ex_mixed_wf : basis_wf ex_mixed.
Proof. intros s [<-|[<-|[<-|[]]]]; apply wf_shell_default; reflexivity. Qed.
Lemma ex_mixed_exps : basis_exps KQ' ex_mixed ex_mixed.
Proof.
  intros sa sb Ha Hb. apply (ex_exps (to_cart sa) (to_cart sb)); rewrite <- ex_mixed_to_cart; now apply in_map.
Qed.

Theorem mixed_hypotheses_satisfiable :
  seg_basis ex_mixed /\ basis_wf ex_mixed /\ basis_exps KQ' ex_mixed ex_mixed
  /\ ototal KQ' ex_mixed = 14 /\ osize (sh_at KQ' ex_mixed 0) = 5 /\ ncomp (sh_at KQ' ex_mixed 0) = 6
  /\ oidx KQ' ex_mixed 0 1 3 = 8 /\ oidx KQ' ex_mixed 1 0 2 = 12.
Proof.
  refine (conj ex_mixed_seg (conj ex_mixed_wf (conj ex_mixed_exps _))). vm_compute. repeat split.
Qed.

(* the transformation theorem at a lower-triangle position of the mixed basis: row = p_z (Cartesian shell 1),
   column = segment 1, 4th spherical function of the d shell *)
Example overlap_mixed_lower_ex :
  nth 8 (nth 12 (overlap_integral KQ' ex_mixed None) []) (f0 KQ')
  = dsum KQ' ex_sb ex_sa_sph 2 3 (fun c c' =>
      nth (gidx KQ' ex_basis 0 1 c') (nth (gidx KQ' ex_basis 1 0 c) (overlap_integral KQ' ex_basis None) []) (f0 KQ')).
Proof.
  exact (overlap_mixed_is_cart_transformed KQ' (KQ_field _ _ _ _ _) (KQ_apx _ _ _ _ _) (KQ_two _ _ _ _ _)
           ex_mixed ex_mixed_seg ex_mixed_wf ex_mixed_exps 1 0 0 2 1 3
           ltac:(cbn; lia) ltac:(cbn; lia) ltac:(vm_compute; lia) ltac:(vm_compute; lia)
           ltac:(vm_compute; lia) ltac:(vm_compute; lia)).
Qed.

(* Hermiticity on the mixed basis: inside the diagonal block of the spherical d shell (positions 2, 8) and
   across the spherical d / Cartesian p shells (positions 8, 12) *)
Example momentum_herm_mixed_ex :
  nth 2 (nth 8 (momentum_integral_re KQ' ex_mixed None) []) []
  = vneg KQ' (nth 8 (nth 2 (momentum_integral_re KQ' ex_mixed None) []) [])
  /\ nth 12 (nth 8 (angmom_integral_re KQ' ex_mixed None) []) []
  = vneg KQ' (nth 8 (nth 12 (angmom_integral_re KQ' ex_mixed None) []) []).
Proof.
  destruct mixed_hypotheses_satisfiable as (_ & _ & _ & E1 & _).
  split.
  - apply (momentum_integral_herm_mixed KQ' (KQ_field _ _ _ _ _) (KQ_apx _ _ _ _ _) (KQ_two _ _ _ _ _)
             ex_mixed ex_mixed_seg ex_mixed_wf ex_mixed_exps); rewrite E1; lia.
  - apply (angmom_integral_herm_mixed KQ' (KQ_field _ _ _ _ _) (KQ_apx _ _ _ _ _) (KQ_two _ _ _ _ _)
             ex_mixed ex_mixed_seg ex_mixed_wf ex_mixed_exps); rewrite E1; lia.
Qed.

(* a rectangular transformation (2 x 14) of the mixed basis: Hermiticity of the transformed momentum matrix *)
Definition ex_T : list (list Qc) := mk 2 (fun a => mk 14 (fun l => q (Z.of_nat (a + 2 * l)) 3)).

Lemma ex_T_shape : mat_shape 2 (ototal KQ' ex_mixed) ex_T.
Proof.
  destruct mixed_hypotheses_satisfiable as (_ & _ & _ & E1 & _). rewrite E1.
  split; [reflexivity|]. repeat constructor.
Qed.

Example momentum_herm_T_ex :
  nth 0 (nth 1 (momentum_integral_re KQ' ex_mixed (Some ex_T)) []) []
  = vneg KQ' (nth 1 (nth 0 (momentum_integral_re KQ' ex_mixed (Some ex_T)) []) []).
Proof.
  apply (momentum_integral_herm_T KQ' (KQ_field _ _ _ _ _) (KQ_apx _ _ _ _ _) (KQ_two _ _ _ _ _)
           ex_mixed ex_mixed_seg ex_mixed_wf ex_mixed_exps ltac:(cbn; lia) ex_T 2 ex_T_shape); lia.
Qed.
End Ex.
