(* Proofs/RotationEriP.v — GENERAL ROTATIONS (proper and improper) for the ELECTRON-REPULSION integrals at the level of
   the algebraic specification (property C12).

   Proofs/TwoElecP.v ([two_elec_correct]) proves: every entry of the model's [eri_block] is
        norms x sum over the primitive quartets of  Phi_0 (eri_base) (R4 alpha beta gamma delta)
   where the s-polynomial R4 has, for every s, the value
        prod over the axes of  M4 = hh AB CD (bivariate Wick moments with covariance sig11(s), sig12(s), sig22(s) - the
        SAME on the three axes - and means PA - s (rho/p) PQ, QC + s (rho/q) PQ),
   that is  E[ y1^a (y1 + AB)^b y2^c (y2 + CD)^d ]  for the six-dimensional Gaussian of Gauss/Poly6.v
   ([M4_product_is_E6]).  The means and the displacements AB, CD rotate with R; Poly6.E6_subst6_orth (covariance of
   the six-dimensional functional under the simultaneous substitution) and Poly3.rotated_factor give, FOR EVERY s,

     eri_quartet_rotation_covariant_eval :
        sum_{a' b' c' d'} D[a,a'] D[b,b'] D[c,c'] D[d,d']  prod_axes M4(R A, R B, R C, R D; a', b', c', d'; s)
          = prod_axes M4(A, B, C, D; a, b, c, d; s)

   ([R4c] is [R4] with the centres and the four exponent triples as explicit arguments, [R4_is_R4c]; its values are
   the M4 products, [R4c_eval]).  The D-combination of s-polynomials is a coefficient list ([Jpoly]), Phi is linear and
   depends on the polynomial function only ([OneElecP.Phi_unique], characteristic 0), hence for ANY sequence bet

     Phi_R4c_rotation_covariant :  sum D D D D Phi bet m (R4c(R A, .. ; a', ..)) = Phi bet m (R4c(A, ..; a, ..)),

   and the sequence [eri_base] = prefactor x Boys function sees the centres through |A-B|^2, |C-D|^2, |P-Q|^2 only
   ([eri_base_rot]; the arguments of exp and of the Boys function are shown EQUAL, no property of exp / fboys used):

     eri_spec_rotation_covariant :
        sum D D D D  eri_quartet_spec(R A, R B, R C, R D; a', b', c', d') = eri_quartet_spec(A, B, C, D; a, b, c, d)
     eri_spec_rotation_covariant_shells : the same in the vocabulary of RigidP (mat3, rot_shell, rot_expand).
   [eri_quartet_spec] is literally the summand of [two_elec_correct] ([two_elec_summand_is_spec]). *)
From Coq Require Import List Arith Lia Field.
From GB Require Import Base.Field Base.FNum Base.Tables Gauss.Moment1D Gauss.SPoly Gauss.Poly3 Gauss.Wick2D Gauss.Poly6
  Model.Shell Model.MomentInt Model.TwoElec Proofs.OneElecP Proofs.TwoElecP Proofs.RigidP Proofs.RotationP
  Proofs.RotationMoreP.
Import ListNotations.

Section RotEri.
Context {F : Type} (K : Fops F) (Kf : is_field K).
Add Field KFreri : Kf.
Local Open Scope F_scope.
Notation "0" := (f0 K) : F_scope.
Notation "1" := (f1 K) : F_scope.
Infix "+" := (fadd K) : F_scope.
Infix "*" := (fmul K) : F_scope.
Infix "-" := (fsub K) : F_scope.
Infix "/" := (fdiv K) : F_scope.
Notation "- x" := (fopp K x) : F_scope.
Notation "# n" := (ofnat K n) (at level 5) : F_scope.
Notation Jsum := (Poly3.Jsum K).
Notation speval := (SPoly.peval K).
Notation Phi := (SPoly.Phi K).
Notation rotv := (RotationMoreP.rotv K).

(* ------------------------------------------------------------------ *)
(* 1. one electron: (y + cB)^b y^a under a rotation of the displacement, for every functional J *)
Lemma smono_linear_mono3 J c b h :
  Jsum (fun a' => Jsum J (smono K c b (mono3 K a'))) h = Jsum J (smono K c b h).
Proof.
  destruct (smono_adjoint K Kf c b) as [opT A]. rewrite A. apply Jsum_ext. intro a'.
  rewrite A. unfold mono3. cbn [Poly3.Jsum fst snd]. ring.
Qed.

Lemma pair_rot (R : mat (F:=F)) (cB cB' : axis -> F) a b J :
  orth_rows K (transpose R) -> (forall i, cB' i = dot K (R i) cB) ->
  Jsum (fun a' => Jsum (fun b' => Jsum J (smono K cB' b' (mono3 K a'))) (subst_mon K (transpose R) b))
       (subst_mon K (transpose R) a)
  = Jsum J (subst K (transpose R) (smono K cB b (mono3 K a))).
Proof.
  intros HO Hc. set (Q := transpose R).
  rewrite (Jsum_swap K Kf (fun a' b' => Jsum J (smono K cB' b' (mono3 K a')))).
  rewrite (Jsum_ext K _ (fun b' => Jsum J (smono K cB' b' (subst_mon K Q a))))
    by (intro b'; apply smono_linear_mono3).
  rewrite <- (Jsum_shiftmul K Kf).
  apply (rotated_factor K Kf R cB cB' b (mono3 K a) (subst_mon K Q a) HO Hc).
  apply (peq_sym K), (subst_mono3 K Kf).
Qed.

(* ------------------------------------------------------------------ *)
(* 2. two electrons: the six-variable functional of ((y1+cB)^b y1^a) (x) ((y2+cD)^d y2^c) *)
Definition quartet_poly (cB cD : axis -> F) (a b c d : mon) : poly6 (F:=F) :=
  tens K (smono K cB b (mono3 K a)) (smono K cD d (mono3 K c)).

Theorem quartet_rot (R : mat (F:=F)) (a1 c1 : axis -> F) (s11 s12 s22 : F) (cB cD : axis -> F) (a b c d : mon) :
  orth_rows K (transpose R) ->
  Jsum (fun a' => Jsum (fun b' => Jsum (fun c' => Jsum (fun d' =>
      E6 K (rotv R a1) (rotv R c1) s11 s12 s22 (quartet_poly (rotv R cB) (rotv R cD) a' b' c' d'))
    (subst_mon K (transpose R) d)) (subst_mon K (transpose R) c)) (subst_mon K (transpose R) b))
    (subst_mon K (transpose R) a)
  = E6 K a1 c1 s11 s12 s22 (quartet_poly cB cD a b c d).
Proof.
  intros HO. set (Q := transpose R).
  set (M' := M6 K (rotv R a1) (rotv R c1) s11 s12 s22).
  set (G2 := subst K Q (smono K cD d (mono3 K c))).
  (* electron 2 *)
  rewrite (Jsum_ext K _ (fun a' => Jsum (fun b' =>
             Jsum6 K M' (tens K (smono K (rotv R cB) b' (mono3 K a')) G2)) (subst_mon K Q b))).
  2:{ intro a'. apply Jsum_ext. intro b'. unfold E6, quartet_poly. fold M'.
      rewrite (Jsum_ext K _ (fun c' => Jsum (fun d' =>
                 Jsum (fun m2 => Jsum (fun m1 => M' (m1, m2)) (smono K (rotv R cB) b' (mono3 K a')))
                      (smono K (rotv R cD) d' (mono3 K c'))) (subst_mon K Q d)))
        by (intro c'; apply Jsum_ext; intro d'; apply (Jsum6_tens' K Kf)).
      rewrite (pair_rot R cD (rotv R cD) c d _ HO (fun i => eq_refl)).
      symmetry. apply (Jsum6_tens' K Kf). }
  (* electron 1 *)
  rewrite (Jsum_ext K _ (fun a' => Jsum (fun b' =>
             Jsum (fun m1 => Jsum (fun m2 => M' (m1, m2)) G2) (smono K (rotv R cB) b' (mono3 K a')))
             (subst_mon K Q b)))
    by (intro a'; apply Jsum_ext; intro b'; apply (Jsum6_tens K Kf)).
  rewrite (pair_rot R cB (rotv R cB) a b _ HO (fun i => eq_refl)).
  rewrite <- (Jsum6_tens K Kf M'). unfold G2.
  rewrite <- (subst6_tens K Kf Q _ _ M').
  change (E6 K (rotv R a1) (rotv R c1) s11 s12 s22 (subst6 K Q (quartet_poly cB cD a b c d))
          = E6 K a1 c1 s11 s12 s22 (quartet_poly cB cD a b c d)).
  rewrite (E6_subst6_orth K Kf Q (rotv R a1) (rotv R c1) s11 s12 s22 HO).
  apply E6_means_ext; intro i; apply (dot_transpose_rot K Kf R _ _ HO); intro j; reflexivity.
Qed.

(* ------------------------------------------------------------------ *)
(* 3. the per-axis four-index moments M4 of TwoElecP are this functional *)
Lemma shf_is_Hf c (T : nat -> F) : forall b a, shf K c T b a = Hf K c T b a.
Proof. induction b as [|b IH]; intro a; cbn [shf Hf]; [reflexivity|]. now rewrite !IH. Qed.

Section Quartet.
Variables (alpha beta gamma delta : F).
Let p := alpha + beta.
Let q := gamma + delta.
Hypothesis Hp : p <> 0.
Hypothesis Hq : q <> 0.
Hypothesis Hpq : p + q <> 0.
Hypothesis H2 : 1 + 1 <> 0.

Definition Pc (A B : axis -> F) : axis -> F := fun i => wctr K alpha beta (A i) (B i).
Definition Qc (C D : axis -> F) : axis -> F := fun i => wctr K gamma delta (C i) (D i).
Definition mean1v (A B C D : axis -> F) (s : F) : axis -> F :=
  fun i => mean1 K p q (Pc A B i - A i) (Pc A B i - Qc C D i) s.
Definition mean2v (A B C D : axis -> F) (s : F) : axis -> F :=
  fun i => mean2 K p q (Qc C D i - C i) (Pc A B i - Qc C D i) s.
Definition dvec (A B : axis -> F) : axis -> F := fun i => A i - B i.

Definition M4prod (A B C D : axis -> F) (s : F) (a b c d : comp) : F :=
  M4 K alpha beta gamma delta (A AX) (B AX) (C AX) (D AX) s (fst (fst a)) (fst (fst b)) (fst (fst c)) (fst (fst d))
  * M4 K alpha beta gamma delta (A AY) (B AY) (C AY) (D AY) s (snd (fst a)) (snd (fst b)) (snd (fst c)) (snd (fst d))
  * M4 K alpha beta gamma delta (A AZ) (B AZ) (C AZ) (D AZ) s (snd a) (snd b) (snd c) (snd d).

Theorem M4_product_is_E6 A B C D s a b c d :
  M4prod A B C D s a b c d
  = E6 K (mean1v A B C D s) (mean2v A B C D s) (sig11 K p q s) (sig12 K p q s) (sig22 K p q s)
      (quartet_poly (dvec A B) (dvec C D) a b c d).
Proof.
  unfold quartet_poly. rewrite (E6_tens_smono K Kf).
  unfold M4prod, M4, hh, Ms, Mw, mean1v, mean2v, Pc, Qc, dvec. cbv zeta. fold p q.
  destruct a as [[ax ay] az], b as [[bx by_] bz], c as [[cx cy] cz], d as [[dx dy] dz]. cbn [expo fst snd].
  rewrite !shf_is_Hf.
  f_equal; [f_equal|]; apply (Hf_ext K); intro a'; symmetry; apply shf_is_Hf.
Qed.

Lemma mean1v_rot (R : mat (F:=F)) A B C D s i :
  mean1v (rotv R A) (rotv R B) (rotv R C) (rotv R D) s i = rotv R (mean1v A B C D s) i.
Proof.
  unfold mean1v, mean1, Pc, Qc, wctr, rotv, dot, sum3, rho. fold p q. field. repeat split; assumption.
Qed.
Lemma mean2v_rot (R : mat (F:=F)) A B C D s i :
  mean2v (rotv R A) (rotv R B) (rotv R C) (rotv R D) s i = rotv R (mean2v A B C D s) i.
Proof.
  unfold mean2v, mean2, Pc, Qc, wctr, rotv, dot, sum3, rho. fold p q. field. repeat split; assumption.
Qed.
Lemma dvec_rot (R : mat (F:=F)) A B i : dvec (rotv R A) (rotv R B) i = rotv R (dvec A B) i.
Proof. unfold dvec, rotv, dot, sum3. ring. Qed.

Lemma quartet_poly_ext cB cB' cD cD' a b c d J :
  (forall i, cB i = cB' i) -> (forall i, cD i = cD' i) ->
  Jsum6 K J (quartet_poly cB cD a b c d) = Jsum6 K J (quartet_poly cB' cD' a b c d).
Proof. intros HB HD. unfold quartet_poly, smono. now rewrite !HB, !HD. Qed.

(* FOR EVERY s: the exact integrand of the primitive quartet is covariant *)
Theorem eri_quartet_rotation_covariant_eval (R : mat (F:=F)) A B C D s (a b c d : comp) :
  orth_rows K (transpose R) ->
  Jsum (fun a' => Jsum (fun b' => Jsum (fun c' => Jsum (fun d' =>
      M4prod (rotv R A) (rotv R B) (rotv R C) (rotv R D) s a' b' c' d')
    (subst_mon K (transpose R) d)) (subst_mon K (transpose R) c)) (subst_mon K (transpose R) b))
    (subst_mon K (transpose R) a)
  = M4prod A B C D s a b c d.
Proof.
  intros HO. rewrite M4_product_is_E6.
  rewrite <- (quartet_rot R (mean1v A B C D s) (mean2v A B C D s) _ _ _ (dvec A B) (dvec C D) a b c d HO).
  apply Jsum_ext; intro a'. apply Jsum_ext; intro b'. apply Jsum_ext; intro c'. apply Jsum_ext; intro d'.
  rewrite M4_product_is_E6.
  rewrite (E6_means_ext K _ _ (rotv R (mean1v A B C D s)) (rotv R (mean2v A B C D s)))
    by (intro i; first [apply mean1v_rot|apply mean2v_rot]).
  unfold E6. apply quartet_poly_ext; intro i; apply dvec_rot.
Qed.

(* ---- the s-polynomial of the quartet, centres and exponent triples explicit ---- *)
Definition R4c (A B C D : axis -> F) (c1 c2 c3 c4 : comp) : list F :=
  chan_poly K (A AX - B AX) (A AY - B AY) (A AZ - B AZ) (C AX - D AX) (C AY - D AY) (C AZ - D AZ)
    (R3 K p q (Pc A B AX - A AX) (Pc A B AY - A AY) (Pc A B AZ - A AZ)
        (Qc C D AX - C AX) (Qc C D AY - C AY) (Qc C D AZ - C AZ)
        (Pc A B AX - Qc C D AX) (Pc A B AY - Qc C D AY) (Pc A B AZ - Qc C D AZ))
    (fst (fst c3)) (snd (fst c3)) (snd c3) (fst (fst c4)) (snd (fst c4)) (snd c4)
    (fst (fst c2)) (snd (fst c2)) (snd c2) (fst (fst c1)) (snd (fst c1)) (snd c1).

Theorem R4c_eval A B C D c1 c2 c3 c4 s :
  speval (R4c A B C D c1 c2 c3 c4) s = M4prod A B C D s c1 c2 c3 c4.
Proof.
  unfold R4c.
  rewrite (chan_poly_linear K _ _ _ _ _ _ (fun f => speval f s)
             (fun f g => peval_padd K Kf f g s) (fun k f => peval_pscale K Kf k f s)).
  rewrite (chan_val_ext K _ _ _ _ _ _ _
    (fun cx' cy' cz' ax' ay' az' =>
       Ms K p q (Pc A B AX - A AX) (Qc C D AX - C AX) (Pc A B AX - Qc C D AX) s ax' cx'
       * Ms K p q (Pc A B AY - A AY) (Qc C D AY - C AY) (Pc A B AY - Qc C D AY) s ay' cy'
       * Ms K p q (Pc A B AZ - A AZ) (Qc C D AZ - C AZ) (Pc A B AZ - Qc C D AZ) s az' cz')).
  2:{ intros cx' cy' cz' ax' ay' az'.
      apply (proj2 (eri_3d_correct K Kf _ _ _ _ _ _ _ _ _ _ _ Hp Hq Hpq H2 (fun _ => 0) cx' cy' cz' ax' ay' az')). }
  rewrite (chan_val_product K Kf). reflexivity.
Qed.

Hypothesis char0 : forall n, #(S n) <> 0.

(* through the linear functional Phi_m of ANY sequence *)
Theorem Phi_R4c_rotation_covariant (R : mat (F:=F)) A B C D (a b c d : comp) bet m :
  orth_rows K (transpose R) ->
  Jsum (fun a' => Jsum (fun b' => Jsum (fun c' => Jsum (fun d' =>
      Phi bet m (R4c (rotv R A) (rotv R B) (rotv R C) (rotv R D) a' b' c' d'))
    (subst_mon K (transpose R) d)) (subst_mon K (transpose R) c)) (subst_mon K (transpose R) b))
    (subst_mon K (transpose R) a)
  = Phi bet m (R4c A B C D a b c d).
Proof.
  intros HO. set (Q := transpose R).
  set (G := fun a' b' c' d' => R4c (rotv R A) (rotv R B) (rotv R C) (rotv R D) a' b' c' d').
  set (P3_ := fun a' b' c' => Jpoly K (G a' b' c') (subst_mon K Q d)).
  set (P2_ := fun a' b' => Jpoly K (P3_ a' b') (subst_mon K Q c)).
  set (P1_ := fun a' => Jpoly K (P2_ a') (subst_mon K Q b)).
  rewrite (Jsum_ext K _ (fun a' => Phi bet m (P1_ a'))).
  2:{ intro a'. unfold P1_. rewrite (Phi_Jpoly K Kf). apply Jsum_ext. intro b'.
      unfold P2_. rewrite (Phi_Jpoly K Kf). apply Jsum_ext. intro c'.
      unfold P3_. rewrite (Phi_Jpoly K Kf). reflexivity. }
  rewrite <- (Phi_Jpoly K Kf).
  apply (Phi_unique K Kf char0). intro s.
  rewrite (speval_Jpoly K Kf), R4c_eval.
  rewrite <- (eri_quartet_rotation_covariant_eval R A B C D s a b c d HO).
  apply Jsum_ext. intro a'. unfold P1_. rewrite (speval_Jpoly K Kf). apply Jsum_ext. intro b'.
  unfold P2_. rewrite (speval_Jpoly K Kf). apply Jsum_ext. intro c'.
  unfold P3_. rewrite (speval_Jpoly K Kf). apply Jsum_ext. intro d'. unfold G. apply R4c_eval.
Qed.

(* ---- the prefactor and the Boys argument see the centres through |A-B|^2, |C-D|^2, |P-Q|^2 only ---- *)
Definition eri_base_v (A B C D : axis -> F) : nat -> F :=
  eri_base K (A AX) (A AY) (A AZ) (B AX) (B AY) (B AZ) (C AX) (C AY) (C AZ) (D AX) (D AY) (D AZ)
           alpha beta gamma delta.

Lemma eri_base_rot (R : mat (F:=F)) A B C D m :
  orth_rows K (transpose R) ->
  eri_base_v (rotv R A) (rotv R B) (rotv R C) (rotv R D) m = eri_base_v A B C D m.
Proof.
  intros HO. unfold eri_base_v, eri_base, eri_pref, eri_T. cbv zeta. cbn [fst snd]. fold p q.
  pose proof (norm_rot K Kf R (fun i => A i - B i) HO) as NAB.
  pose proof (norm_rot K Kf R (fun i => C i - D i) HO) as NCD.
  pose proof (norm_rot K Kf R (fun i => (alpha * A i + beta * B i) / p - (gamma * C i + delta * D i) / q) HO) as NPQ.
  unfold sum3 in NAB, NCD, NPQ.
  assert (EAB : forall i, rotv R A i - rotv R B i = dot K (R i) (fun j => A j - B j))
    by (intro i; unfold rotv, dot, sum3; ring).
  assert (ECD : forall i, rotv R C i - rotv R D i = dot K (R i) (fun j => C j - D j))
    by (intro i; unfold rotv, dot, sum3; ring).
  assert (EPQ : forall i, (alpha * rotv R A i + beta * rotv R B i) / p - (gamma * rotv R C i + delta * rotv R D i) / q
                          = dot K (R i) (fun j => (alpha * A j + beta * B j) / p - (gamma * C j + delta * D j) / q))
    by (intro i; unfold rotv, dot, sum3; field; split; [exact Hq|exact Hp]).
  rewrite !EAB, !ECD, !EPQ, NAB, NCD, NPQ. reflexivity.
Qed.

(* the specification of one primitive quartet: the summand of [two_elec_correct] *)
Definition eri_quartet_spec (A B C D : axis -> F) (c1 c2 c3 c4 : comp) : F :=
  Phi (eri_base_v A B C D) 0 (R4c A B C D c1 c2 c3 c4).

(* GENERAL ROTATIONS, electron repulsion of four primitives, specification level *)
Theorem eri_spec_rotation_covariant (R : mat (F:=F)) A B C D (a b c d : comp) :
  orth_rows K (transpose R) ->
  Jsum (fun a' => Jsum (fun b' => Jsum (fun c' => Jsum (fun d' =>
      eri_quartet_spec (rotv R A) (rotv R B) (rotv R C) (rotv R D) a' b' c' d')
    (subst_mon K (transpose R) d)) (subst_mon K (transpose R) c)) (subst_mon K (transpose R) b))
    (subst_mon K (transpose R) a)
  = eri_quartet_spec A B C D a b c d.
Proof.
  intros HO. unfold eri_quartet_spec.
  rewrite <- (Phi_R4c_rotation_covariant R A B C D a b c d (eri_base_v A B C D) 0%nat HO).
  apply Jsum_ext; intro a'. apply Jsum_ext; intro b'. apply Jsum_ext; intro c'. apply Jsum_ext; intro d'.
  apply Phi_ext. intro k. now apply eri_base_rot.
Qed.
End Quartet.

(* ------------------------------------------------------------------ *)
(* 4. in the vocabulary of RigidP / RotationP: shells, mat3, rot_shell, rot_expand *)
Notation centre := RotationMoreP.centre.

Lemma two_elec_summand_is_spec (s1 s2 s3 s4 : shell F) i1 i2 i3 i4 alpha beta gamma delta :
  Phi (eri_base K (s_x s1) (s_y s1) (s_z s1) (s_x s2) (s_y s2) (s_z s2)
                  (s_x s3) (s_y s3) (s_z s3) (s_x s4) (s_y s4) (s_z s4) alpha beta gamma delta) 0
      (R4 K s1 s2 s3 s4 i1 i2 i3 i4 alpha beta gamma delta)
  = eri_quartet_spec alpha beta gamma delta (centre s1) (centre s2) (centre s3) (centre s4)
      (nth i1 (comps_of s1) (0, 0, 0)%nat) (nth i2 (comps_of s2) (0, 0, 0)%nat)
      (nth i3 (comps_of s3) (0, 0, 0)%nat) (nth i4 (comps_of s4) (0, 0, 0)%nat).
Proof. reflexivity. Qed.

Lemma eri_quartet_spec_ext alpha beta gamma delta A B C D A' B' C' D' c1 c2 c3 c4 :
  (forall i, A i = A' i) -> (forall i, B i = B' i) -> (forall i, C i = C' i) -> (forall i, D i = D' i) ->
  eri_quartet_spec alpha beta gamma delta A B C D c1 c2 c3 c4
  = eri_quartet_spec alpha beta gamma delta A' B' C' D' c1 c2 c3 c4.
Proof.
  intros HA HB HC HD. unfold eri_quartet_spec, eri_base_v, R4c, Pc, Qc.
  now rewrite !HA, !HB, !HC, !HD.
Qed.

Theorem eri_spec_rotation_covariant_shells (R : @mat3 F) (s1 s2 s3 s4 : shell F) alpha beta gamma delta
        (a b c d : comp) :
  orthogonal K R -> alpha + beta <> 0 -> gamma + delta <> 0 -> (alpha + beta) + (gamma + delta) <> 0 ->
  1 + 1 <> 0 -> (forall n, #(S n) <> 0) ->
  Jsum (fun a' => Jsum (fun b' => Jsum (fun c' => Jsum (fun d' =>
      eri_quartet_spec alpha beta gamma delta (centre (rot_shell K R s1)) (centre (rot_shell K R s2))
        (centre (rot_shell K R s3)) (centre (rot_shell K R s4)) a' b' c' d')
    (rot_expand K R d)) (rot_expand K R c)) (rot_expand K R b)) (rot_expand K R a)
  = eri_quartet_spec alpha beta gamma delta (centre s1) (centre s2) (centre s3) (centre s4) a b c d.
Proof.
  intros HO Hp Hq Hpq H2 char0.
  rewrite <- (eri_spec_rotation_covariant alpha beta gamma delta Hp Hq Hpq H2 char0 (matf R)
                (centre s1) (centre s2) (centre s3) (centre s4) a b c d (orthogonal_cols K R HO)).
  unfold rot_expand.
  apply Jsum_ext; intro a'. apply Jsum_ext; intro b'. apply Jsum_ext; intro c'. apply Jsum_ext; intro d'.
  apply eri_quartet_spec_ext; intro i; apply (centre_rot K).
Qed.

End RotEri.

(* ==================================================================================================== *)
(* Examples over Qc: the hypotheses are satisfiable and the STATEMENTS are re-checked by computation (vm_compute,
   independent of the proofs) with the proper 3-4-5 rotation R345 and the improper Rimp of Proofs/RotationP.v.
   Stand-ins for the transcendental closures: sqrt = exp = identity (so that the ARGUMENT of exp is visible in the
   value) and a "Boys function" depending on m and on its argument; the theorems assume nothing about them. *)
From Coq Require Import ZArith QArith Qcanon.
Definition eriKQ : Fops Qc := QcK true (Q2Qc 3) (fun x => x) (fun x => x) (fun x => x) exBoys.
Section Examples.
Let KQ : Fops Qc := eriKQ.
Let KQf : is_field KQ := QcK_field _ _ _ _ _ _.
Let q (n : Z) (d : positive) : Qc := qc_of n d.

Definition eriS1 : shell Qc := mkShell Qc 1 (q 1 2) (q (-1) 1) (q 2 1) [q 3 2] [[q 1 1]] false [] [].
Definition eriS2 : shell Qc := mkShell Qc 1 (q 0 1) (q 1 3) (q (-1) 1) [q 2 3] [[q 1 1]] false [] [].
Definition eriS3 : shell Qc := mkShell Qc 1 (q 1 4) (q (-2) 1) (q 1 3) [q 1 2] [[q 1 1]] false [] [].
Definition eriS4 : shell Qc := mkShell Qc 1 (q (-1) 1) (q 1 2) (q 0 1) [q 5 4] [[q 1 1]] false [] [].

Lemma eriKQ_char0 : forall n, ofnat KQ (S n) <> f0 KQ.
Proof. apply QcK_char0. Qed.
Lemma eriKQ_R345 : orthogonal KQ R345. Proof. exact orthogonal_R345. Qed.
Lemma eriKQ_Rimp : orthogonal KQ Rimp. Proof. exact orthogonal_Rimp. Qed.
Lemma eriKQ_exps :
  fadd KQ (q 3 2) (q 2 3) <> f0 KQ /\ fadd KQ (q 1 2) (q 5 4) <> f0 KQ
  /\ fadd KQ (fadd KQ (q 3 2) (q 2 3)) (fadd KQ (q 1 2) (q 5 4)) <> f0 KQ /\ fadd KQ (f1 KQ) (f1 KQ) <> f0 KQ.
Proof. repeat split; intro H; apply (f_equal this) in H; vm_compute in H; discriminate H. Qed.

(* the theorem instantiated (improper rotation): nothing left to assume *)
Example eri_spec_rotation_improper :
  forall a b c d,
  Poly3.Jsum KQ (fun a' => Poly3.Jsum KQ (fun b' => Poly3.Jsum KQ (fun c' => Poly3.Jsum KQ (fun d' =>
      eri_quartet_spec KQ (q 3 2) (q 2 3) (q 1 2) (q 5 4) (centre (rot_shell KQ Rimp eriS1))
        (centre (rot_shell KQ Rimp eriS2)) (centre (rot_shell KQ Rimp eriS3)) (centre (rot_shell KQ Rimp eriS4))
        a' b' c' d')
    (rot_expand KQ Rimp d)) (rot_expand KQ Rimp c)) (rot_expand KQ Rimp b)) (rot_expand KQ Rimp a)
  = eri_quartet_spec KQ (q 3 2) (q 2 3) (q 1 2) (q 5 4) (centre eriS1) (centre eriS2) (centre eriS3) (centre eriS4)
      a b c d.
Proof.
  intros. destruct eriKQ_exps as (Hp & Hq & Hpq & H2).
  apply (eri_spec_rotation_covariant_shells KQ KQf Rimp eriS1 eriS2 eriS3 eriS4 _ _ _ _ a b c d
           eriKQ_Rimp Hp Hq Hpq H2 eriKQ_char0).
Qed.

(* the statements re-evaluated by computation *)
Definition eri_eval_check (R : @mat3 Qc) (s : Qc) (t : comp * comp * comp * comp) : bool :=
  let '(a, b, c, d) := t in
  let A := centre eriS1 in let B := centre eriS2 in let C := centre eriS3 in let D := centre eriS4 in
  let rv := RotationMoreP.rotv KQ (matf R) in
  Qeq_bool
    (Poly3.Jsum KQ (fun a' => Poly3.Jsum KQ (fun b' => Poly3.Jsum KQ (fun c' => Poly3.Jsum KQ (fun d' =>
        M4prod KQ (q 3 2) (q 2 3) (q 1 2) (q 5 4) (rv A) (rv B) (rv C) (rv D) s a' b' c' d')
      (rot_expand KQ R d)) (rot_expand KQ R c)) (rot_expand KQ R b)) (rot_expand KQ R a))
    (M4prod KQ (q 3 2) (q 2 3) (q 1 2) (q 5 4) A B C D s a b c d).
Definition eri_spec_check (R : @mat3 Qc) (t : comp * comp * comp * comp) : bool :=
  let '(a, b, c, d) := t in
  Qeq_bool
    (Poly3.Jsum KQ (fun a' => Poly3.Jsum KQ (fun b' => Poly3.Jsum KQ (fun c' => Poly3.Jsum KQ (fun d' =>
        eri_quartet_spec KQ (q 3 2) (q 2 3) (q 1 2) (q 5 4) (centre (rot_shell KQ R eriS1))
          (centre (rot_shell KQ R eriS2)) (centre (rot_shell KQ R eriS3)) (centre (rot_shell KQ R eriS4))
          a' b' c' d')
      (rot_expand KQ R d)) (rot_expand KQ R c)) (rot_expand KQ R b)) (rot_expand KQ R a))
    (eri_quartet_spec KQ (q 3 2) (q 2 3) (q 1 2) (q 5 4) (centre eriS1) (centre eriS2) (centre eriS3) (centre eriS4)
       a b c d).
Definition eri_quads : list (comp * comp * comp * comp) :=
  [((1, 0, 0), (0, 0, 0), (0, 1, 0), (0, 0, 0))%nat; ((0, 0, 1), (0, 1, 0), (0, 0, 0), (1, 0, 0))%nat;
   ((0, 1, 0), (1, 0, 0), (0, 0, 1), (0, 1, 0))%nat; ((0, 0, 0), (0, 0, 0), (0, 0, 0), (0, 0, 0))%nat].
Example eri_integrand_rotation_computed :
  forallb (fun R => forallb (fun s => forallb (eri_eval_check R s) eri_quads) [q 0 1; q 1 3; q 1 1])
    [R345; Rimp] = true.
Proof. vm_compute. reflexivity. Qed.
Example eri_spec_rotation_computed :
  forallb (fun R => forallb (eri_spec_check R)
    [((1, 0, 0), (0, 0, 0), (0, 1, 0), (0, 0, 0))%nat; ((0, 0, 1), (0, 1, 0), (0, 0, 0), (1, 0, 0))%nat]) [R345; Rimp] = true.
Proof. vm_compute. reflexivity. Qed.
(* not vacuous: without the representation matrices a (p s|p s) value does change *)
Example eri_spec_not_invariant :
  Qeq_bool
    (eri_quartet_spec KQ (q 3 2) (q 2 3) (q 1 2) (q 5 4) (centre (rot_shell KQ R345 eriS1))
       (centre (rot_shell KQ R345 eriS2)) (centre (rot_shell KQ R345 eriS3)) (centre (rot_shell KQ R345 eriS4))
       (1, 0, 0)%nat (0, 0, 0)%nat (0, 1, 0)%nat (0, 0, 0)%nat)
    (eri_quartet_spec KQ (q 3 2) (q 2 3) (q 1 2) (q 5 4) (centre eriS1) (centre eriS2) (centre eriS3) (centre eriS4)
       (1, 0, 0)%nat (0, 0, 0)%nat (0, 1, 0)%nat (0, 0, 0)%nat) = false.
Proof. vm_compute. reflexivity. Qed.
End Examples.

Lemma eri_rotation_hypotheses_satisfiable :
  exists (F : Type) (K : Fops F) (R1 R2 : @mat3 F) (alpha beta gamma delta : F),
    is_field K /\ orthogonal K R1 /\ orthogonal K R2
    /\ fadd K alpha beta <> f0 K /\ fadd K gamma delta <> f0 K
    /\ fadd K (fadd K alpha beta) (fadd K gamma delta) <> f0 K /\ fadd K (f1 K) (f1 K) <> f0 K
    /\ (forall n, ofnat K (S n) <> f0 K).
Proof.
  exists Qc, eriKQ, R345, Rimp, (qc_of 3 2), (qc_of 2 3), (qc_of 1 2), (qc_of 5 4).
  split; [apply QcK_field|]. split; [apply eriKQ_R345|]. split; [apply eriKQ_Rimp|].
  destruct eriKQ_exps as (Hp & Hq & Hpq & H2).
  split; [exact Hp|]. split; [exact Hq|]. split; [exact Hpq|]. split; [exact H2|]. apply eriKQ_char0.
Qed.
