(* Proofs/EriOrientP.v — the eight orientations of a shell quartet give the same electron-repulsion block.

   electron_repulsion.py (after the orientation repair) evaluates the recursions of _two_elec_int.py for
   ONE of (ab|cd) (ba|cd) (ab|dc) (ba|dc) (cd|ab) (dc|ab) (cd|ba) (dc|ba), chosen by a floating-point
   conditioning estimate, and transposes the axes back (Model/TwoElec.v: orient, eri_block_oriented,
   eri_block_impl with the choice as an ORACLE).  This file proves that the exact value does not depend
   on the choice.

   1. per axis, per s (generic field, no hypothesis on the numbers):
        Hf_shift_swap, Hf_commute            algebra of the horizontal recursion
        M_stein3                              Stein/Wick rule for E[(y1+a1+d)^i (y1+a1)^j (y2+c1)^k]
        M_mean_shift1 / M_mean_shift2         moving a mean by d = binomial (horizontal) recursion
        Ms_el_swap                            exchanging the electrons: p<->q, P<->Q (M_swap)
        M4_swap_ab, M4_swap_cd, M4_swap_el    the four-index moment is symmetric under a<->b, c<->d, (ab)<->(cd)
   2. polynomial values and Phi_0:
        R4_eval                               peval (R4 ..) s = product of the M4 (only the exponent sums <> 0)
        R4_value_swap_{ab,cd,el}              the VALUE of the s-polynomial at every s is symmetric
        eri_base_swap_{ab,cd,el}              prefactor and Boys argument are symmetric
        R4_Phi_swap_{ab,cd,el}                Phi_0 agrees (uniqueness of the polynomial representative, char. 0)
   3. the specification of two_elec_correct:
        eri_spec, eri_block_is_spec, eri_spec_swap_{ab,cd,el}, eri_spec_orient (all eight)
   4. list level:
        eri_block_orientation_independent     every entry of eri_block_oriented o = the entry of eri_block
        eri_block_impl_is_eri_block           for ANY choice function
        both_orientations_agree_eri           blocks evaluated independently in each orientation agree
   Examples at Qc at the end. *)
From Coq Require Import List Arith Lia Field.
From GB Require Import Base.Field Base.FNum Base.Tables Gauss.Moment1D Gauss.SPoly Gauss.Wick2D
  Model.Shell Model.MomentInt Model.OneElec Model.TwoElec Proofs.OneElecP Proofs.TwoElecP.
Import ListNotations.

Section Abstract.
Context {F : Type} (K : Fops F) (Kf : is_field K).
Add Field KFeo : Kf.
Local Open Scope F_scope.
Notation "0" := (f0 K) : F_scope.
Notation "1" := (f1 K) : F_scope.
Infix "+" := (fadd K) : F_scope.
Infix "*" := (fmul K) : F_scope.
Infix "-" := (fsub K) : F_scope.
Infix "/" := (fdiv K) : F_scope.
Notation "- x" := (fopp K x) : F_scope.
Notation "# n" := (ofnat K n) (at level 5) : F_scope.
Notation Hf := (Hf K).
Notation M := (M K).

(* ---------------- algebra of the horizontal recursion ---------------- *)
(* with T j = L(x^j):  Hf d T b a = L(x^a (x+d)^b).  Re-expanding around x+d and going back: *)
Lemma Hf_shift_swap d (h : nat -> F) : forall a b,
  Hf (- d) (fun j => Hf d h j 0%nat) a b = Hf d h b a.
Proof.
  induction a as [|a IH]; intros b; [reflexivity|].
  cbn [TwoElecP.Hf]. rewrite !IH. cbn [TwoElecP.Hf]. ring.
Qed.

(* two horizontal recursions on different indices commute *)
Lemma Hf_commute d1 d2 (g : nat -> nat -> F) : forall n1 n2 x0 y0,
  Hf d1 (fun x => Hf d2 (fun y => g x y) n2 y0) n1 x0
  = Hf d2 (fun y => Hf d1 (fun x => g x y) n1 x0) n2 y0.
Proof.
  induction n1 as [|n1 IH]; intros n2 x0 y0; [reflexivity|].
  cbn [TwoElecP.Hf]. rewrite !IH.
  rewrite (Hf_ext K d2 (fun y => Hf d1 (fun x => g x y) n1 (S x0) + d1 * Hf d1 (fun x => g x y) n1 x0)
             (fun y => Hf d1 (fun x => g x y) n1 (S x0) + Hf d1 (fun x => g x y) n1 x0 * d1))
    by (intros; ring).
  rewrite (Hf_add K Kf d2 (fun y => Hf d1 (fun x => g x y) n1 (S x0))
             (fun y => Hf d1 (fun x => g x y) n1 x0 * d1)).
  rewrite (Hf_scale K Kf). ring.
Qed.

(* ---------------- moving the mean of the first variable ---------------- *)
Section Shift.
Variables (a1 c1 s11 s12 s22 d : F).
Notation Mm := (M a1 c1 s11 s12 s22).

(* E[(y1+a1+d)^i (y1+a1)^j (y2+c1)^k] *)
Definition T3 (i j k : nat) : F := Hf d (fun j' => Mm j' k) i j.

Lemma T3_0 j k : T3 0 j k = Mm j k. Proof. reflexivity. Qed.
Lemma T3_S i j k : T3 (S i) j k = T3 i (S j) k + d * T3 i j k. Proof. reflexivity. Qed.

(* Stein's lemma for the three-factor product: raising the exponent of (y1 + a1) *)
Theorem M_stein3 : forall i j k,
  T3 i (S j) k = a1 * T3 i j k
               + s11 * (#j * T3 i (j - 1) k + #i * T3 (i - 1) j k)
               + s12 * (#k * T3 i j (k - 1)).
Proof.
  induction i as [|i IH]; intros j k.
  - rewrite !T3_0, (wick_first_rule K Kf), !(lo_pred K Kf). cbn [ofnat]. ring.
  - rewrite !T3_S, (IH (S j) k), (IH j k).
    replace (S j - 1)%nat with j by lia. replace (S i - 1)%nat with i by lia.
    destruct j as [|j]; destruct i as [|i]; cbn [Nat.sub];
      rewrite ?Nat.sub_0_r, ?T3_S, ?T3_0; cbn [ofnat]; ring.
Qed.

Theorem M_mean_shift1 i k :
  M (a1 + d) c1 s11 s12 s22 i k = Hf d (fun j => Mm j k) i 0.
Proof.
  symmetry.
  apply (M_unique K Kf (a1 + d) c1 s11 s12 s22 (fun i k => T3 i 0 k)).
  - reflexivity.
  - intros k'. rewrite !T3_0.
    rewrite (wick_second_rule K Kf), lo_0.
    rewrite (lo_ext K k' (fun k0 => T3 0 0 k0) (Mm 0%nat)) by (intros; apply T3_0). ring.
  - intros i' k'. rewrite T3_S, M_stein3, !(lo_pred K Kf). cbn [ofnat Nat.sub]. ring.
Qed.
End Shift.

(* the same for the second variable *)
Theorem M_mean_shift2 a1 c1 s11 s12 s22 d i k :
  M a1 (c1 + d) s11 s12 s22 i k = Hf d (fun l => M a1 c1 s11 s12 s22 i l) k 0.
Proof.
  rewrite (M_swap K Kf), M_mean_shift1.
  apply (Hf_ext K). intros l. symmetry. apply (M_swap K Kf).
Qed.

(* ---------------- the electron-repulsion instance ---------------- *)
Lemma rho_sym p q : rho K q p = rho K p q.
Proof. unfold rho. replace (q * p) with (p * q) by ring. replace (q + p) with (p + q) by ring. reflexivity. Qed.

(* exchanging the two electrons: p <-> q, PA <-> QC, PQ -> QP *)
Theorem Ms_el_swap p q PA QC PQ s i k :
  Ms K p q PA QC PQ s i k = Ms K q p QC PA (- PQ) s k i.
Proof.
  unfold Ms. rewrite (M_swap K Kf).
  assert (E1 : mean2 K p q QC PQ s = mean1 K q p QC (- PQ) s)
    by (unfold mean1, mean2; rewrite (rho_sym p q); ring).
  assert (E2 : mean1 K p q PA PQ s = mean2 K q p PA (- PQ) s)
    by (unfold mean1, mean2; rewrite (rho_sym p q); ring).
  assert (E3 : sig22 K p q s = sig11 K q p s)
    by (unfold sig11, sig22; rewrite (rho_sym p q); reflexivity).
  assert (E4 : sig12 K p q s = sig12 K q p s)
    by (unfold sig12; replace (q + p) with (p + q) by ring; reflexivity).
  assert (E5 : sig11 K p q s = sig22 K q p s)
    by (unfold sig11, sig22; rewrite (rho_sym p q); reflexivity).
  rewrite E1, E2, E3, E4, E5. reflexivity.
Qed.

Lemma wctr_sym a b x y : wctr K b a y x = wctr K a b x y.
Proof. unfold wctr. replace (b + a) with (a + b) by ring.
  replace (b * y + a * x) with (a * x + b * y) by ring. reflexivity. Qed.

(* the per-axis integrand E[(y1+PA)^a (y1+PB)^b (y2+QC)^c (y2+QD)^d] at s *)
Theorem M4_swap_ab alpha beta gamma delta xa xb xc xd s a b c d :
  M4 K alpha beta gamma delta xa xb xc xd s a b c d
  = M4 K beta alpha gamma delta xb xa xc xd s b a c d.
Proof.
  unfold M4, hh. cbv zeta.
  rewrite (wctr_sym alpha beta xa xb). replace (beta + alpha) with (alpha + beta) by ring.
  set (p := alpha + beta). set (q := gamma + delta).
  set (P := wctr K alpha beta xa xb). set (Q := wctr K gamma delta xc xd).
  (* the family seen from B is the family seen from A with the first mean moved by AB *)
  rewrite (Hf_ext K (xb - xa)
             (fun a' => Hf (xc - xd) (fun c' => Ms K p q (P - xb) (Q - xc) (P - Q) s a' c') d c)
             (fun b' => Hf (xa - xb) (fun a' =>
                          Hf (xc - xd) (fun c' => Ms K p q (P - xa) (Q - xc) (P - Q) s a' c') d c) b' 0%nat)).
  2:{ intros b'. rewrite <- Hf_commute. apply (Hf_ext K). intros c'.
      unfold Ms.
      replace (mean1 K p q (P - xb) (P - Q) s) with (mean1 K p q (P - xa) (P - Q) s + (xa - xb))
        by (unfold mean1; ring).
      apply M_mean_shift1. }
  replace (xb - xa) with (- (xa - xb)) by ring.
  symmetry. apply Hf_shift_swap.
Qed.

Theorem M4_swap_cd alpha beta gamma delta xa xb xc xd s a b c d :
  M4 K alpha beta gamma delta xa xb xc xd s a b c d
  = M4 K alpha beta delta gamma xa xb xd xc s a b d c.
Proof.
  unfold M4, hh. cbv zeta.
  rewrite (wctr_sym gamma delta xc xd). replace (delta + gamma) with (gamma + delta) by ring.
  set (p := alpha + beta). set (q := gamma + delta).
  set (P := wctr K alpha beta xa xb). set (Q := wctr K gamma delta xc xd).
  apply (Hf_ext K). intros a'.
  rewrite (Hf_ext K (xd - xc) (fun c' => Ms K p q (P - xa) (Q - xd) (P - Q) s a' c')
             (fun d' => Hf (xc - xd) (fun c' => Ms K p q (P - xa) (Q - xc) (P - Q) s a' c') d' 0%nat)).
  2:{ intros d'. unfold Ms.
      replace (mean2 K p q (Q - xd) (P - Q) s) with (mean2 K p q (Q - xc) (P - Q) s + (xc - xd))
        by (unfold mean2; ring).
      apply M_mean_shift2. }
  replace (xd - xc) with (- (xc - xd)) by ring.
  symmetry. apply Hf_shift_swap.
Qed.

Theorem M4_swap_el alpha beta gamma delta xa xb xc xd s a b c d :
  M4 K alpha beta gamma delta xa xb xc xd s a b c d
  = M4 K gamma delta alpha beta xc xd xa xb s c d a b.
Proof.
  unfold M4, hh. cbv zeta.
  set (p := alpha + beta). set (q := gamma + delta).
  set (P := wctr K alpha beta xa xb). set (Q := wctr K gamma delta xc xd).
  rewrite Hf_commute. apply (Hf_ext K). intros c'. apply (Hf_ext K). intros a'.
  rewrite Ms_el_swap. replace (- (P - Q)) with (Q - P) by ring. reflexivity.
Qed.

End Abstract.

(* ======================= polynomial values, Phi_0, the specification ======================= *)
Section Spec.
Context {F : Type} (K : Fops F) (Kf : is_field K).
Add Field KFes : Kf.
Local Open Scope F_scope.
Notation "0" := (f0 K) : F_scope.
Notation "1" := (f1 K) : F_scope.
Infix "+" := (fadd K) : F_scope.
Infix "*" := (fmul K) : F_scope.
Infix "-" := (fsub K) : F_scope.
Infix "/" := (fdiv K) : F_scope.
Notation "- x" := (fopp K x) : F_scope.
Notation "# n" := (ofnat K n) (at level 5) : F_scope.
Notation Phi := (Phi K).
Notation peval := (peval K).

Lemma two_nz : (forall n, #(S n) <> 0) -> 1 + 1 <> 0.
Proof. intros H E. apply (H 1%nat). cbn [ofnat]. transitivity (1 + 1); [ring|exact E]. Qed.

(* ---- sums over the primitives: linear, and two of them commute ---- *)
Lemma csum_cons {A} w ws m (x : A) xs f :
  csum K (w :: ws) m (x :: xs) f = f x * wcoef K m w + csum K ws m xs f.
Proof. reflexivity. Qed.
Lemma csum_empty {A} ws m (xs : list A) f : ws = [] \/ xs = [] -> csum K ws m xs f = 0.
Proof. intros [-> | ->]; [reflexivity|]. destruct ws; reflexivity. Qed.
Lemma csum_ext {A} ws m (xs : list A) f f' : (forall x, f x = f' x) -> csum K ws m xs f = csum K ws m xs f'.
Proof. intros H. apply csum_ext_in. intros x _. apply H. Qed.
Lemma csum_zero {A} ws m (xs : list A) : csum K ws m xs (fun _ => 0) = 0.
Proof. revert ws. induction xs as [|x xs IH]; intros [|w ws]; try reflexivity.
  rewrite csum_cons, IH. ring. Qed.
Lemma csum_add {A} ws m (xs : list A) f g :
  csum K ws m xs (fun x => f x + g x) = csum K ws m xs f + csum K ws m xs g.
Proof. revert ws. induction xs as [|x xs IH]; intros [|w ws]; try (cbn; ring).
  rewrite !csum_cons, IH. ring. Qed.
Lemma csum_scale_r {A} ws m (xs : list A) f k :
  csum K ws m xs (fun x => f x * k) = csum K ws m xs f * k.
Proof. revert ws. induction xs as [|x xs IH]; intros [|w ws]; try (cbn; ring).
  rewrite !csum_cons, IH. ring. Qed.

Lemma csum_swap {A B} w1 m1 (xs : list A) w2 m2 (ys : list B) (f : A -> B -> F) :
  csum K w1 m1 xs (fun x => csum K w2 m2 ys (fun y => f x y))
  = csum K w2 m2 ys (fun y => csum K w1 m1 xs (fun x => f x y)).
Proof.
  revert w2. induction ys as [|y ys IH]; intros w2.
  - rewrite (csum_empty w2 m2 []) by (now right).
    rewrite (csum_ext w1 m1 xs _ (fun _ => 0)) by (intros; apply csum_empty; now right).
    apply csum_zero.
  - destruct w2 as [|w w2].
    + rewrite (csum_empty [] m2 (y :: ys)) by (now left).
      rewrite (csum_ext w1 m1 xs _ (fun _ => 0)) by (intros; apply csum_empty; now left).
      apply csum_zero.
    + rewrite csum_cons.
      rewrite (csum_ext w1 m1 xs _ (fun x => f x y * wcoef K m2 w + csum K w2 m2 ys (fun y => f x y)))
        by (intros; apply csum_cons).
      rewrite csum_add, csum_scale_r, IH. reflexivity.
Qed.

(* (x, y) <-> (z, w) for four nested sums *)
Lemma csum_pair_swap {A B C D} w1 m1 (xs : list A) w2 m2 (ys : list B) w3 m3 (zs : list C) w4 m4 (us : list D)
      (t : A -> B -> C -> D -> F) :
  csum K w1 m1 xs (fun x => csum K w2 m2 ys (fun y => csum K w3 m3 zs (fun z => csum K w4 m4 us (fun u => t x y z u))))
  = csum K w3 m3 zs (fun z => csum K w4 m4 us (fun u => csum K w1 m1 xs (fun x => csum K w2 m2 ys (fun y => t x y z u)))).
Proof.
  transitivity (csum K w1 m1 xs (fun x => csum K w3 m3 zs (fun z => csum K w2 m2 ys (fun y =>
                  csum K w4 m4 us (fun u => t x y z u))))).
  { apply csum_ext. intros x. apply (csum_swap w2 m2 ys w3 m3 zs). }
  rewrite (csum_swap w1 m1 xs w3 m3 zs).
  apply csum_ext. intros z.
  transitivity (csum K w1 m1 xs (fun x => csum K w4 m4 us (fun u => csum K w2 m2 ys (fun y => t x y z u)))).
  { apply csum_ext. intros x. apply (csum_swap w2 m2 ys w4 m4 us). }
  apply (csum_swap w1 m1 xs w4 m4 us).
Qed.

(* ---- prefactor and Boys argument ---- *)
Lemma eri_base_swap_ab Ax Ay Az Bx By Bz Cx Cy Cz Dx Dy Dz alpha beta gamma delta m :
  eri_base K Ax Ay Az Bx By Bz Cx Cy Cz Dx Dy Dz alpha beta gamma delta m
  = eri_base K Bx By Bz Ax Ay Az Cx Cy Cz Dx Dy Dz beta alpha gamma delta m.
Proof.
  unfold eri_base, eri_pref, eri_T. cbv zeta. cbn [fst snd].
  replace (beta + alpha) with (alpha + beta) by ring.
  replace (beta * alpha) with (alpha * beta) by ring.
  replace (beta * Bx + alpha * Ax) with (alpha * Ax + beta * Bx) by ring.
  replace (beta * By + alpha * Ay) with (alpha * Ay + beta * By) by ring.
  replace (beta * Bz + alpha * Az) with (alpha * Az + beta * Bz) by ring.
  replace ((Bx - Ax) * (Bx - Ax) + (By - Ay) * (By - Ay) + (Bz - Az) * (Bz - Az))
    with ((Ax - Bx) * (Ax - Bx) + (Ay - By) * (Ay - By) + (Az - Bz) * (Az - Bz)) by ring.
  reflexivity.
Qed.
Lemma eri_base_swap_cd Ax Ay Az Bx By Bz Cx Cy Cz Dx Dy Dz alpha beta gamma delta m :
  eri_base K Ax Ay Az Bx By Bz Cx Cy Cz Dx Dy Dz alpha beta gamma delta m
  = eri_base K Ax Ay Az Bx By Bz Dx Dy Dz Cx Cy Cz alpha beta delta gamma m.
Proof.
  unfold eri_base, eri_pref, eri_T. cbv zeta. cbn [fst snd].
  replace (delta + gamma) with (gamma + delta) by ring.
  replace (delta * gamma) with (gamma * delta) by ring.
  replace (delta * Dx + gamma * Cx) with (gamma * Cx + delta * Dx) by ring.
  replace (delta * Dy + gamma * Cy) with (gamma * Cy + delta * Dy) by ring.
  replace (delta * Dz + gamma * Cz) with (gamma * Cz + delta * Dz) by ring.
  replace ((Dx - Cx) * (Dx - Cx) + (Dy - Cy) * (Dy - Cy) + (Dz - Cz) * (Dz - Cz))
    with ((Cx - Dx) * (Cx - Dx) + (Cy - Dy) * (Cy - Dy) + (Cz - Dz) * (Cz - Dz)) by ring.
  reflexivity.
Qed.
Lemma eri_base_swap_el Ax Ay Az Bx By Bz Cx Cy Cz Dx Dy Dz alpha beta gamma delta m :
  eri_base K Ax Ay Az Bx By Bz Cx Cy Cz Dx Dy Dz alpha beta gamma delta m
  = eri_base K Cx Cy Cz Dx Dy Dz Ax Ay Az Bx By Bz gamma delta alpha beta m.
Proof.
  unfold eri_base, eri_pref, eri_T. cbv zeta. cbn [fst snd].
  set (p := alpha + beta). set (q := gamma + delta).
  replace (q + p) with (p + q) by ring. replace (q * p) with (p * q) by ring.
  set (Px := (alpha * Ax + beta * Bx) / p). set (Py := (alpha * Ay + beta * By) / p).
  set (Pz := (alpha * Az + beta * Bz) / p).
  set (Qx := (gamma * Cx + delta * Dx) / q). set (Qy := (gamma * Cy + delta * Dy) / q).
  set (Qz := (gamma * Cz + delta * Dz) / q).
  replace ((Qx - Px) * (Qx - Px) + (Qy - Py) * (Qy - Py) + (Qz - Pz) * (Qz - Pz))
    with ((Px - Qx) * (Px - Qx) + (Py - Qy) * (Py - Qy) + (Pz - Qz) * (Pz - Qz)) by ring.
  f_equal. f_equal. ring.
Qed.

(* ---- the value of the s-polynomial of one primitive quartet ---- *)
Notation cmp s i := (nth i (comps_of s) (0, 0, 0)%nat).

Theorem R4_eval (s1 s2 s3 s4 : shell F) i1 i2 i3 i4 alpha beta gamma delta s :
  1 + 1 <> 0 -> alpha + beta <> 0 -> gamma + delta <> 0 -> (alpha + beta) + (gamma + delta) <> 0 ->
  peval (R4 K s1 s2 s3 s4 i1 i2 i3 i4 alpha beta gamma delta) s
  = M4 K alpha beta gamma delta (s_x s1) (s_x s2) (s_x s3) (s_x s4) s
       (fst (fst (cmp s1 i1))) (fst (fst (cmp s2 i2))) (fst (fst (cmp s3 i3))) (fst (fst (cmp s4 i4)))
    * M4 K alpha beta gamma delta (s_y s1) (s_y s2) (s_y s3) (s_y s4) s
       (snd (fst (cmp s1 i1))) (snd (fst (cmp s2 i2))) (snd (fst (cmp s3 i3))) (snd (fst (cmp s4 i4)))
    * M4 K alpha beta gamma delta (s_z s1) (s_z s2) (s_z s3) (s_z s4) s
       (snd (cmp s1 i1)) (snd (cmp s2 i2)) (snd (cmp s3 i3)) (snd (cmp s4 i4)).
Proof.
  intros H2 Hp Hq Hpq. unfold R4. cbv zeta.
  rewrite (chan_poly_linear K _ _ _ _ _ _ (fun f => peval f s)
             (fun f g => peval_padd K Kf f g s) (fun k f => peval_pscale K Kf k f s)).
  rewrite (chan_val_ext K _ _ _ _ _ _ _
    (fun cx' cy' cz' ax' ay' az' =>
       Ms K (alpha + beta) (gamma + delta) (wctr K alpha beta (s_x s1) (s_x s2) - s_x s1)
          (wctr K gamma delta (s_x s3) (s_x s4) - s_x s3)
          (wctr K alpha beta (s_x s1) (s_x s2) - wctr K gamma delta (s_x s3) (s_x s4)) s ax' cx'
       * Ms K (alpha + beta) (gamma + delta) (wctr K alpha beta (s_y s1) (s_y s2) - s_y s1)
          (wctr K gamma delta (s_y s3) (s_y s4) - s_y s3)
          (wctr K alpha beta (s_y s1) (s_y s2) - wctr K gamma delta (s_y s3) (s_y s4)) s ay' cy'
       * Ms K (alpha + beta) (gamma + delta) (wctr K alpha beta (s_z s1) (s_z s2) - s_z s1)
          (wctr K gamma delta (s_z s3) (s_z s4) - s_z s3)
          (wctr K alpha beta (s_z s1) (s_z s2) - wctr K gamma delta (s_z s3) (s_z s4)) s az' cz')).
  2:{ intros cx' cy' cz' ax' ay' az'.
      apply (proj2 (eri_3d_correct K Kf _ _ _ _ _ _ _ _ _ _ _ Hp Hq Hpq H2 (fun _ => 0)
                      cx' cy' cz' ax' ay' az')). }
  rewrite (chan_val_product K Kf). reflexivity.
Qed.

Section Quartet.
Variables (s1 s2 s3 s4 : shell F) (i1 i2 i3 i4 : nat) (alpha beta gamma delta : F).
Hypothesis H2 : 1 + 1 <> 0.
Hypothesis Hp : alpha + beta <> 0.
Hypothesis Hq : gamma + delta <> 0.
Hypothesis Hpq : (alpha + beta) + (gamma + delta) <> 0.

Lemma Hp' : beta + alpha <> 0.
Proof. intros E. apply Hp. rewrite <- E. ring. Qed.
Lemma Hq' : delta + gamma <> 0.
Proof. intros E. apply Hq. rewrite <- E. ring. Qed.
Lemma Hpq_ab : (beta + alpha) + (gamma + delta) <> 0.
Proof. intros E. apply Hpq. rewrite <- E. ring. Qed.
Lemma Hpq_cd : (alpha + beta) + (delta + gamma) <> 0.
Proof. intros E. apply Hpq. rewrite <- E. ring. Qed.
Lemma Hpq_el : (gamma + delta) + (alpha + beta) <> 0.
Proof. intros E. apply Hpq. rewrite <- E. ring. Qed.

(* the exact integrand (value of the s-polynomial at every s) is symmetric *)
Theorem R4_value_swap_ab s :
  peval (R4 K s1 s2 s3 s4 i1 i2 i3 i4 alpha beta gamma delta) s
  = peval (R4 K s2 s1 s3 s4 i2 i1 i3 i4 beta alpha gamma delta) s.
Proof.
  rewrite (R4_eval s1 s2 s3 s4) by assumption.
  rewrite (R4_eval s2 s1 s3 s4) by (assumption || apply Hp' || apply Hpq_ab).
  rewrite !(M4_swap_ab K Kf alpha beta). reflexivity.
Qed.
Theorem R4_value_swap_cd s :
  peval (R4 K s1 s2 s3 s4 i1 i2 i3 i4 alpha beta gamma delta) s
  = peval (R4 K s1 s2 s4 s3 i1 i2 i4 i3 alpha beta delta gamma) s.
Proof.
  rewrite (R4_eval s1 s2 s3 s4) by assumption.
  rewrite (R4_eval s1 s2 s4 s3) by (assumption || apply Hq' || apply Hpq_cd).
  rewrite !(M4_swap_cd K Kf alpha beta gamma delta). reflexivity.
Qed.
Theorem R4_value_swap_el s :
  peval (R4 K s1 s2 s3 s4 i1 i2 i3 i4 alpha beta gamma delta) s
  = peval (R4 K s3 s4 s1 s2 i3 i4 i1 i2 gamma delta alpha beta) s.
Proof.
  rewrite (R4_eval s1 s2 s3 s4) by assumption.
  rewrite (R4_eval s3 s4 s1 s2) by (assumption || apply Hpq_el).
  rewrite !(M4_swap_el K Kf alpha beta gamma delta). reflexivity.
Qed.

(* hence Phi_0, the number the recursions produce, is symmetric (characteristic 0: the polynomial
   representative does not matter) *)
Hypothesis char0 : forall n, #(S n) <> 0.
Notation base t1 t2 t3 t4 := (eri_base K (s_x t1) (s_y t1) (s_z t1) (s_x t2) (s_y t2) (s_z t2)
                                          (s_x t3) (s_y t3) (s_z t3) (s_x t4) (s_y t4) (s_z t4)).
Theorem R4_Phi_swap_ab :
  Phi (base s1 s2 s3 s4 alpha beta gamma delta) 0 (R4 K s1 s2 s3 s4 i1 i2 i3 i4 alpha beta gamma delta)
  = Phi (base s2 s1 s3 s4 beta alpha gamma delta) 0 (R4 K s2 s1 s3 s4 i2 i1 i3 i4 beta alpha gamma delta).
Proof.
  rewrite (OneElecP.Phi_unique K Kf char0 _ _ R4_value_swap_ab).
  apply TwoElecP.Phi_ext. intros m. apply eri_base_swap_ab.
Qed.
Theorem R4_Phi_swap_cd :
  Phi (base s1 s2 s3 s4 alpha beta gamma delta) 0 (R4 K s1 s2 s3 s4 i1 i2 i3 i4 alpha beta gamma delta)
  = Phi (base s1 s2 s4 s3 alpha beta delta gamma) 0 (R4 K s1 s2 s4 s3 i1 i2 i4 i3 alpha beta delta gamma).
Proof.
  rewrite (OneElecP.Phi_unique K Kf char0 _ _ R4_value_swap_cd).
  apply TwoElecP.Phi_ext. intros m. apply eri_base_swap_cd.
Qed.
Theorem R4_Phi_swap_el :
  Phi (base s1 s2 s3 s4 alpha beta gamma delta) 0 (R4 K s1 s2 s3 s4 i1 i2 i3 i4 alpha beta gamma delta)
  = Phi (base s3 s4 s1 s2 gamma delta alpha beta) 0 (R4 K s3 s4 s1 s2 i3 i4 i1 i2 gamma delta alpha beta).
Proof.
  rewrite (OneElecP.Phi_unique K Kf char0 _ _ R4_value_swap_el).
  apply TwoElecP.Phi_ext. intros m. apply eri_base_swap_el.
Qed.
End Quartet.

End Spec.

(* ======================= the specification of a block entry and the list level ======================= *)
Section Block.
Context {F : Type} (K : Fops F) (Kf : is_field K).
Add Field KFeb : Kf.
Local Open Scope F_scope.
Notation "0" := (f0 K) : F_scope.
Notation "1" := (f1 K) : F_scope.
Infix "+" := (fadd K) : F_scope.
Infix "*" := (fmul K) : F_scope.
Notation "# n" := (ofnat K n) (at level 5) : F_scope.
Notation Phi := (Phi K).
Notation cmp s i := (nth i (comps_of s) (0, 0, 0)%nat).

(* the right-hand side of two_elec_correct *)
Definition eri_sum (s1 s2 s3 s4 : shell F) (m1 i1 m2 i2 m3 i3 m4 i4 : nat) : F :=
  csum K (wts K s1) m1 (s_exps s1) (fun alpha =>
    csum K (wts K s2) m2 (s_exps s2) (fun beta =>
      csum K (wts K s3) m3 (s_exps s3) (fun gamma =>
        csum K (wts K s4) m4 (s_exps s4) (fun delta =>
          Phi (eri_base K (s_x s1) (s_y s1) (s_z s1) (s_x s2) (s_y s2) (s_z s2)
                          (s_x s3) (s_y s3) (s_z s3) (s_x s4) (s_y s4) (s_z s4)
                          alpha beta gamma delta) 0
              (R4 K s1 s2 s3 s4 i1 i2 i3 i4 alpha beta gamma delta))))).
Definition eri_spec (s1 s2 s3 s4 : shell F) (m1 i1 m2 i2 m3 i3 m4 i4 : nat) : F :=
  eri_sum s1 s2 s3 s4 m1 i1 m2 i2 m3 i3 m4 i4
  * inv_sqrt_df K (cmp s1 i1) * inv_sqrt_df K (cmp s2 i2) * inv_sqrt_df K (cmp s3 i3) * inv_sqrt_df K (cmp s4 i4).

(* non-zero exponent sums (true for positive exponents) *)
Definition exps_ok (s1 s2 s3 s4 : shell F) : Prop :=
  (forall alpha beta, In alpha (s_exps s1) -> In beta (s_exps s2) -> alpha + beta <> 0)
  /\ (forall gamma delta, In gamma (s_exps s3) -> In delta (s_exps s4) -> gamma + delta <> 0)
  /\ (forall alpha beta gamma delta, In alpha (s_exps s1) -> In beta (s_exps s2) ->
        In gamma (s_exps s3) -> In delta (s_exps s4) -> (alpha + beta) + (gamma + delta) <> 0).
(* indices in range, component degrees *)
Definition idx_ok (s1 s2 s3 s4 : shell F) (m1 i1 m2 i2 m3 i3 m4 i4 : nat) : Prop :=
  (m1 < nseg s1 /\ i1 < length (comps_of s1) /\ compsum (cmp s1 i1) <= s_l s1)
  /\ (m2 < nseg s2 /\ i2 < length (comps_of s2) /\ compsum (cmp s2 i2) <= s_l s2)
  /\ (m3 < nseg s3 /\ i3 < length (comps_of s3) /\ compsum (cmp s3 i3) <= s_l s3)
  /\ (m4 < nseg s4 /\ i4 < length (comps_of s4) /\ compsum (cmp s4 i4) <= s_l s4).

Lemma exps_ok_ab s1 s2 s3 s4 : exps_ok s1 s2 s3 s4 -> exps_ok s2 s1 s3 s4.
Proof. intros [Hp [Hq Hpq]]. repeat split.
  - intros b a Hb Ha. apply (Hp' K Kf a b). now apply Hp.
  - exact Hq.
  - intros b a g d Hb Ha Hg Hd. apply (Hpq_ab K Kf a b g d). now apply Hpq.
Qed.
Lemma exps_ok_cd s1 s2 s3 s4 : exps_ok s1 s2 s3 s4 -> exps_ok s1 s2 s4 s3.
Proof. intros [Hp [Hq Hpq]]. repeat split.
  - exact Hp.
  - intros d g Hd Hg. apply (Hq' K Kf g d). now apply Hq.
  - intros a b d g Ha Hb Hd Hg. apply (Hpq_cd K Kf a b g d). now apply Hpq.
Qed.
Lemma exps_ok_el s1 s2 s3 s4 : exps_ok s1 s2 s3 s4 -> exps_ok s3 s4 s1 s2.
Proof. intros [Hp [Hq Hpq]]. repeat split.
  - exact Hq.
  - exact Hp.
  - intros g d a b Hg Hd Ha Hb. apply (Hpq_el K Kf a b g d). now apply Hpq.
Qed.
Lemma exps_ok_orient o s1 s2 s3 s4 : exps_ok s1 s2 s3 s4 ->
  exps_ok (opick1 o s1 s2 s3 s4) (opick2 o s1 s2 s3 s4) (opick3 o s1 s2 s3 s4) (opick4 o s1 s2 s3 s4).
Proof.
  intros H. destruct o; cbn [opick1 opick2 opick3 opick4]; auto using exps_ok_ab, exps_ok_cd, exps_ok_el.
Qed.
Lemma idx_ok_orient o s1 s2 s3 s4 m1 i1 m2 i2 m3 i3 m4 i4 : idx_ok s1 s2 s3 s4 m1 i1 m2 i2 m3 i3 m4 i4 ->
  idx_ok (opick1 o s1 s2 s3 s4) (opick2 o s1 s2 s3 s4) (opick3 o s1 s2 s3 s4) (opick4 o s1 s2 s3 s4)
         (opick1 o m1 m2 m3 m4) (opick1 o i1 i2 i3 i4) (opick2 o m1 m2 m3 m4) (opick2 o i1 i2 i3 i4)
         (opick3 o m1 m2 m3 m4) (opick3 o i1 i2 i3 i4) (opick4 o m1 m2 m3 m4) (opick4 o i1 i2 i3 i4).
Proof.
  intros [H1 [H2 [H3 H4]]]. destruct o; cbn [opick1 opick2 opick3 opick4]; repeat split; tauto.
Qed.

(* two_elec_correct, first half, with the hypotheses packaged *)
Theorem eri_block_is_spec s1 s2 s3 s4 m1 i1 m2 i2 m3 i3 m4 i4 :
  (forall x, fapx K x = x) -> 1 + 1 <> 0 ->
  exps_ok s1 s2 s3 s4 -> idx_ok s1 s2 s3 s4 m1 i1 m2 i2 m3 i3 m4 i4 ->
  get8 K (eri_block K s1 s2 s3 s4) m1 i1 m2 i2 m3 i3 m4 i4 = eri_spec s1 s2 s3 s4 m1 i1 m2 i2 m3 i3 m4 i4.
Proof.
  intros Hapx H2 [Hp [Hq Hpq]] [[Hm1 [Hi1 Hc1]] [[Hm2 [Hi2 Hc2]] [[Hm3 [Hi3 Hc3]] [Hm4 [Hi4 Hc4]]]]].
  exact (proj1 (two_elec_correct K Kf s1 s2 s3 s4 m1 i1 m2 i2 m3 i3 m4 i4 Hapx H2 Hp Hq Hpq
                  Hm1 Hm2 Hm3 Hm4 Hi1 Hi2 Hi3 Hi4 Hc1 Hc2 Hc3 Hc4)).
Qed.

Section Sym.
Hypothesis char0 : forall n, #(S n) <> 0.
Let H2 : 1 + 1 <> 0 := two_nz K Kf char0.

(* ---- the specification is symmetric under the three generators ---- *)
Theorem eri_sum_swap_ab s1 s2 s3 s4 m1 i1 m2 i2 m3 i3 m4 i4 : exps_ok s1 s2 s3 s4 ->
  eri_sum s1 s2 s3 s4 m1 i1 m2 i2 m3 i3 m4 i4 = eri_sum s2 s1 s3 s4 m2 i2 m1 i1 m3 i3 m4 i4.
Proof.
  intros [Hp [Hq Hpq]]. unfold eri_sum.
  rewrite (csum_swap K Kf (wts K s2) m2 (s_exps s2) (wts K s1) m1 (s_exps s1)).
  apply csum_ext_in. intros alpha Ha. apply csum_ext_in. intros beta Hb.
  apply csum_ext_in. intros gamma Hg. apply csum_ext_in. intros delta Hd.
  apply (R4_Phi_swap_ab K Kf); auto.
Qed.
Theorem eri_sum_swap_cd s1 s2 s3 s4 m1 i1 m2 i2 m3 i3 m4 i4 : exps_ok s1 s2 s3 s4 ->
  eri_sum s1 s2 s3 s4 m1 i1 m2 i2 m3 i3 m4 i4 = eri_sum s1 s2 s4 s3 m1 i1 m2 i2 m4 i4 m3 i3.
Proof.
  intros [Hp [Hq Hpq]]. unfold eri_sum.
  apply csum_ext_in. intros alpha Ha. apply csum_ext_in. intros beta Hb.
  rewrite (csum_swap K Kf (wts K s4) m4 (s_exps s4) (wts K s3) m3 (s_exps s3)).
  apply csum_ext_in. intros gamma Hg. apply csum_ext_in. intros delta Hd.
  apply (R4_Phi_swap_cd K Kf); auto.
Qed.
Theorem eri_sum_swap_el s1 s2 s3 s4 m1 i1 m2 i2 m3 i3 m4 i4 : exps_ok s1 s2 s3 s4 ->
  eri_sum s1 s2 s3 s4 m1 i1 m2 i2 m3 i3 m4 i4 = eri_sum s3 s4 s1 s2 m3 i3 m4 i4 m1 i1 m2 i2.
Proof.
  intros [Hp [Hq Hpq]]. unfold eri_sum.
  rewrite (csum_pair_swap K Kf (wts K s3) m3 (s_exps s3) (wts K s4) m4 (s_exps s4)
             (wts K s1) m1 (s_exps s1) (wts K s2) m2 (s_exps s2)).
  apply csum_ext_in. intros alpha Ha. apply csum_ext_in. intros beta Hb.
  apply csum_ext_in. intros gamma Hg. apply csum_ext_in. intros delta Hd.
  apply (R4_Phi_swap_el K Kf); auto.
Qed.

Theorem eri_spec_swap_ab s1 s2 s3 s4 m1 i1 m2 i2 m3 i3 m4 i4 : exps_ok s1 s2 s3 s4 ->
  eri_spec s1 s2 s3 s4 m1 i1 m2 i2 m3 i3 m4 i4 = eri_spec s2 s1 s3 s4 m2 i2 m1 i1 m3 i3 m4 i4.
Proof. intros H. unfold eri_spec. rewrite (eri_sum_swap_ab s1 s2 s3 s4) by exact H. ring. Qed.
Theorem eri_spec_swap_cd s1 s2 s3 s4 m1 i1 m2 i2 m3 i3 m4 i4 : exps_ok s1 s2 s3 s4 ->
  eri_spec s1 s2 s3 s4 m1 i1 m2 i2 m3 i3 m4 i4 = eri_spec s1 s2 s4 s3 m1 i1 m2 i2 m4 i4 m3 i3.
Proof. intros H. unfold eri_spec. rewrite (eri_sum_swap_cd s1 s2 s3 s4) by exact H. ring. Qed.
Theorem eri_spec_swap_el s1 s2 s3 s4 m1 i1 m2 i2 m3 i3 m4 i4 : exps_ok s1 s2 s3 s4 ->
  eri_spec s1 s2 s3 s4 m1 i1 m2 i2 m3 i3 m4 i4 = eri_spec s3 s4 s1 s2 m3 i3 m4 i4 m1 i1 m2 i2.
Proof. intros H. unfold eri_spec. rewrite (eri_sum_swap_el s1 s2 s3 s4) by exact H. ring. Qed.

(* ---- all eight orientations ---- *)
Theorem eri_spec_orient o s1 s2 s3 s4 m1 i1 m2 i2 m3 i3 m4 i4 : exps_ok s1 s2 s3 s4 ->
  eri_spec (opick1 o s1 s2 s3 s4) (opick2 o s1 s2 s3 s4) (opick3 o s1 s2 s3 s4) (opick4 o s1 s2 s3 s4)
           (opick1 o m1 m2 m3 m4) (opick1 o i1 i2 i3 i4) (opick2 o m1 m2 m3 m4) (opick2 o i1 i2 i3 i4)
           (opick3 o m1 m2 m3 m4) (opick3 o i1 i2 i3 i4) (opick4 o m1 m2 m3 m4) (opick4 o i1 i2 i3 i4)
  = eri_spec s1 s2 s3 s4 m1 i1 m2 i2 m3 i3 m4 i4.
Proof.
  intros H. symmetry.
  pose proof (exps_ok_ab _ _ _ _ H) as Hab. pose proof (exps_ok_cd _ _ _ _ H) as Hcd.
  pose proof (exps_ok_el _ _ _ _ H) as Hel.
  destruct o; cbn [opick1 opick2 opick3 opick4].
  - reflexivity.
  - now apply eri_spec_swap_ab.
  - now apply eri_spec_swap_cd.
  - rewrite (eri_spec_swap_ab s1 s2 s3 s4) by exact H. now apply eri_spec_swap_cd.
  - now apply eri_spec_swap_el.
  - rewrite (eri_spec_swap_el s1 s2 s3 s4) by exact H. now apply eri_spec_swap_ab.
  - rewrite (eri_spec_swap_el s1 s2 s3 s4) by exact H. now apply eri_spec_swap_cd.
  - rewrite (eri_spec_swap_el s1 s2 s3 s4) by exact H.
    rewrite (eri_spec_swap_ab s3 s4 s1 s2) by exact Hel. apply eri_spec_swap_cd. now apply exps_ok_ab.
Qed.

(* ---- list level ---- *)
Lemma oriented_entry o s1 s2 s3 s4 m1 i1 m2 i2 m3 i3 m4 i4 :
  m1 < nseg s1 -> i1 < length (comps_of s1) -> m2 < nseg s2 -> i2 < length (comps_of s2) ->
  m3 < nseg s3 -> i3 < length (comps_of s3) -> m4 < nseg s4 -> i4 < length (comps_of s4) ->
  get8 K (eri_block_oriented K o s1 s2 s3 s4) m1 i1 m2 i2 m3 i3 m4 i4
  = get8 K (eri_block K (opick1 o s1 s2 s3 s4) (opick2 o s1 s2 s3 s4) (opick3 o s1 s2 s3 s4) (opick4 o s1 s2 s3 s4))
         (opick1 o m1 m2 m3 m4) (opick1 o i1 i2 i3 i4) (opick2 o m1 m2 m3 m4) (opick2 o i1 i2 i3 i4)
         (opick3 o m1 m2 m3 m4) (opick3 o i1 i2 i3 i4) (opick4 o m1 m2 m3 m4) (opick4 o i1 i2 i3 i4).
Proof.
  intros Hm1 Hi1 Hm2 Hi2 Hm3 Hi3 Hm4 Hi4.
  unfold eri_block_oriented. cbv zeta. unfold get8 at 1.
  rewrite nth_mk by assumption. rewrite nth_mk by assumption. rewrite nth_mk by assumption.
  rewrite nth_mk by assumption. rewrite nth_mk by assumption. rewrite nth_mk by assumption.
  rewrite nth_mk by assumption. rewrite nth_mk by assumption. reflexivity.
Qed.

(* every entry of the block evaluated in ANY of the eight orientations (and transposed back) is the
   entry of the block evaluated in the given orientation *)
Theorem eri_block_orientation_independent_pk o s1 s2 s3 s4 m1 i1 m2 i2 m3 i3 m4 i4 :
  (forall x, fapx K x = x) -> exps_ok s1 s2 s3 s4 -> idx_ok s1 s2 s3 s4 m1 i1 m2 i2 m3 i3 m4 i4 ->
  get8 K (eri_block_oriented K o s1 s2 s3 s4) m1 i1 m2 i2 m3 i3 m4 i4
  = get8 K (eri_block K s1 s2 s3 s4) m1 i1 m2 i2 m3 i3 m4 i4.
Proof.
  intros Hapx He Hi.
  rewrite oriented_entry by (unfold idx_ok in Hi; tauto).
  rewrite eri_block_is_spec by (assumption || now apply exps_ok_orient || now apply idx_ok_orient).
  rewrite (eri_block_is_spec s1 s2 s3 s4) by assumption.
  now apply eri_spec_orient.
Qed.

(* blocks evaluated INDEPENDENTLY for the permuted quartets agree with the transposed block *)
Theorem both_orientations_agree_eri_pk o s1 s2 s3 s4 m1 i1 m2 i2 m3 i3 m4 i4 :
  (forall x, fapx K x = x) -> exps_ok s1 s2 s3 s4 -> idx_ok s1 s2 s3 s4 m1 i1 m2 i2 m3 i3 m4 i4 ->
  get8 K (eri_block K (opick1 o s1 s2 s3 s4) (opick2 o s1 s2 s3 s4) (opick3 o s1 s2 s3 s4) (opick4 o s1 s2 s3 s4))
         (opick1 o m1 m2 m3 m4) (opick1 o i1 i2 i3 i4) (opick2 o m1 m2 m3 m4) (opick2 o i1 i2 i3 i4)
         (opick3 o m1 m2 m3 m4) (opick3 o i1 i2 i3 i4) (opick4 o m1 m2 m3 m4) (opick4 o i1 i2 i3 i4)
  = get8 K (eri_block K s1 s2 s3 s4) m1 i1 m2 i2 m3 i3 m4 i4.
Proof.
  intros Hapx He Hi.
  rewrite <- oriented_entry by (unfold idx_ok in Hi; tauto).
  now apply eri_block_orientation_independent_pk.
Qed.
End Sym.
End Block.

(* ======================= the statements with every hypothesis spelled out ======================= *)
Section Final.
Context {F : Type} (K : Fops F) (Kf : is_field K).

Theorem eri_block_orientation_independent :
  forall (o : orient) (s1 s2 s3 s4 : shell F) (m1 i1 m2 i2 m3 i3 m4 i4 : nat),
  (forall x, fapx K x = x) ->
  (forall n, ofnat K (S n) <> f0 K) ->
  (forall alpha beta, In alpha (s_exps s1) -> In beta (s_exps s2) -> fadd K alpha beta <> f0 K) ->
  (forall gamma delta, In gamma (s_exps s3) -> In delta (s_exps s4) -> fadd K gamma delta <> f0 K) ->
  (forall alpha beta gamma delta, In alpha (s_exps s1) -> In beta (s_exps s2) ->
     In gamma (s_exps s3) -> In delta (s_exps s4) ->
     fadd K (fadd K alpha beta) (fadd K gamma delta) <> f0 K) ->
  m1 < nseg s1 -> m2 < nseg s2 -> m3 < nseg s3 -> m4 < nseg s4 ->
  i1 < length (comps_of s1) -> i2 < length (comps_of s2) ->
  i3 < length (comps_of s3) -> i4 < length (comps_of s4) ->
  compsum (nth i1 (comps_of s1) (0, 0, 0)) <= s_l s1 -> compsum (nth i2 (comps_of s2) (0, 0, 0)) <= s_l s2 ->
  compsum (nth i3 (comps_of s3) (0, 0, 0)) <= s_l s3 -> compsum (nth i4 (comps_of s4) (0, 0, 0)) <= s_l s4 ->
  nth i4 (nth m4 (nth i3 (nth m3 (nth i2 (nth m2 (nth i1 (nth m1 (eri_block_oriented K o s1 s2 s3 s4)
    []) []) []) []) []) []) []) (f0 K)
  = nth i4 (nth m4 (nth i3 (nth m3 (nth i2 (nth m2 (nth i1 (nth m1 (eri_block K s1 s2 s3 s4)
    []) []) []) []) []) []) []) (f0 K).
Proof.
  intros o s1 s2 s3 s4 m1 i1 m2 i2 m3 i3 m4 i4 Hapx char0 Hp Hq Hpq Hm1 Hm2 Hm3 Hm4 Hi1 Hi2 Hi3 Hi4 Hc1 Hc2 Hc3 Hc4.
  apply (eri_block_orientation_independent_pk K Kf char0 o s1 s2 s3 s4 m1 i1 m2 i2 m3 i3 m4 i4 Hapx).
  - repeat split; assumption.
  - repeat split; assumption.
Qed.

(* the implementation's floating-point choice of the orientation is irrelevant to the exact value *)
Corollary eri_block_impl_is_eri_block :
  forall (choose : shell F -> shell F -> shell F -> shell F -> orient)
         (s1 s2 s3 s4 : shell F) (m1 i1 m2 i2 m3 i3 m4 i4 : nat),
  (forall x, fapx K x = x) ->
  (forall n, ofnat K (S n) <> f0 K) ->
  (forall alpha beta, In alpha (s_exps s1) -> In beta (s_exps s2) -> fadd K alpha beta <> f0 K) ->
  (forall gamma delta, In gamma (s_exps s3) -> In delta (s_exps s4) -> fadd K gamma delta <> f0 K) ->
  (forall alpha beta gamma delta, In alpha (s_exps s1) -> In beta (s_exps s2) ->
     In gamma (s_exps s3) -> In delta (s_exps s4) ->
     fadd K (fadd K alpha beta) (fadd K gamma delta) <> f0 K) ->
  m1 < nseg s1 -> m2 < nseg s2 -> m3 < nseg s3 -> m4 < nseg s4 ->
  i1 < length (comps_of s1) -> i2 < length (comps_of s2) ->
  i3 < length (comps_of s3) -> i4 < length (comps_of s4) ->
  compsum (nth i1 (comps_of s1) (0, 0, 0)) <= s_l s1 -> compsum (nth i2 (comps_of s2) (0, 0, 0)) <= s_l s2 ->
  compsum (nth i3 (comps_of s3) (0, 0, 0)) <= s_l s3 -> compsum (nth i4 (comps_of s4) (0, 0, 0)) <= s_l s4 ->
  nth i4 (nth m4 (nth i3 (nth m3 (nth i2 (nth m2 (nth i1 (nth m1 (eri_block_impl K choose s1 s2 s3 s4)
    []) []) []) []) []) []) []) (f0 K)
  = nth i4 (nth m4 (nth i3 (nth m3 (nth i2 (nth m2 (nth i1 (nth m1 (eri_block K s1 s2 s3 s4)
    []) []) []) []) []) []) []) (f0 K).
Proof. intros choose s1 s2 s3 s4. unfold eri_block_impl. apply eri_block_orientation_independent. Qed.

(* C11: the blocks evaluated independently for the permuted quartets are the transposed block *)
Theorem both_orientations_agree_eri :
  forall (o : orient) (s1 s2 s3 s4 : shell F) (m1 i1 m2 i2 m3 i3 m4 i4 : nat),
  (forall x, fapx K x = x) ->
  (forall n, ofnat K (S n) <> f0 K) ->
  (forall alpha beta, In alpha (s_exps s1) -> In beta (s_exps s2) -> fadd K alpha beta <> f0 K) ->
  (forall gamma delta, In gamma (s_exps s3) -> In delta (s_exps s4) -> fadd K gamma delta <> f0 K) ->
  (forall alpha beta gamma delta, In alpha (s_exps s1) -> In beta (s_exps s2) ->
     In gamma (s_exps s3) -> In delta (s_exps s4) ->
     fadd K (fadd K alpha beta) (fadd K gamma delta) <> f0 K) ->
  m1 < nseg s1 -> m2 < nseg s2 -> m3 < nseg s3 -> m4 < nseg s4 ->
  i1 < length (comps_of s1) -> i2 < length (comps_of s2) ->
  i3 < length (comps_of s3) -> i4 < length (comps_of s4) ->
  compsum (nth i1 (comps_of s1) (0, 0, 0)) <= s_l s1 -> compsum (nth i2 (comps_of s2) (0, 0, 0)) <= s_l s2 ->
  compsum (nth i3 (comps_of s3) (0, 0, 0)) <= s_l s3 -> compsum (nth i4 (comps_of s4) (0, 0, 0)) <= s_l s4 ->
  nth (opick4 o i1 i2 i3 i4) (nth (opick4 o m1 m2 m3 m4)
    (nth (opick3 o i1 i2 i3 i4) (nth (opick3 o m1 m2 m3 m4)
      (nth (opick2 o i1 i2 i3 i4) (nth (opick2 o m1 m2 m3 m4)
        (nth (opick1 o i1 i2 i3 i4) (nth (opick1 o m1 m2 m3 m4)
          (eri_block K (opick1 o s1 s2 s3 s4) (opick2 o s1 s2 s3 s4) (opick3 o s1 s2 s3 s4) (opick4 o s1 s2 s3 s4))
    []) []) []) []) []) []) []) (f0 K)
  = nth i4 (nth m4 (nth i3 (nth m3 (nth i2 (nth m2 (nth i1 (nth m1 (eri_block K s1 s2 s3 s4)
    []) []) []) []) []) []) []) (f0 K).
Proof.
  intros o s1 s2 s3 s4 m1 i1 m2 i2 m3 i3 m4 i4 Hapx char0 Hp Hq Hpq Hm1 Hm2 Hm3 Hm4 Hi1 Hi2 Hi3 Hi4 Hc1 Hc2 Hc3 Hc4.
  apply (both_orientations_agree_eri_pk K Kf char0 o s1 s2 s3 s4 m1 i1 m2 i2 m3 i3 m4 i4 Hapx).
  - repeat split; assumption.
  - repeat split; assumption.
Qed.

(* the specification value itself (eri_spec = the right-hand side of two_elec_correct) *)
Lemma eri_spec_unfold (s1 s2 s3 s4 : shell F) (m1 i1 m2 i2 m3 i3 m4 i4 : nat) :
  eri_spec K s1 s2 s3 s4 m1 i1 m2 i2 m3 i3 m4 i4
  = fmul K (fmul K (fmul K (fmul K
      (csum K (wts K s1) m1 (s_exps s1) (fun alpha =>
        csum K (wts K s2) m2 (s_exps s2) (fun beta =>
          csum K (wts K s3) m3 (s_exps s3) (fun gamma =>
            csum K (wts K s4) m4 (s_exps s4) (fun delta =>
              Phi K (eri_base K (s_x s1) (s_y s1) (s_z s1) (s_x s2) (s_y s2) (s_z s2)
                                (s_x s3) (s_y s3) (s_z s3) (s_x s4) (s_y s4) (s_z s4)
                                alpha beta gamma delta) 0
                    (R4 K s1 s2 s3 s4 i1 i2 i3 i4 alpha beta gamma delta))))))
      (inv_sqrt_df K (nth i1 (comps_of s1) (0, 0, 0)))) (inv_sqrt_df K (nth i2 (comps_of s2) (0, 0, 0))))
      (inv_sqrt_df K (nth i3 (comps_of s3) (0, 0, 0)))) (inv_sqrt_df K (nth i4 (comps_of s4) (0, 0, 0))).
Proof. reflexivity. Qed.

(* spec symmetry: a <-> b, c <-> d, (ab) <-> (cd); only the exponent sums must be non-zero *)
Theorem eri_spec_symmetric :
  forall (s1 s2 s3 s4 : shell F) (m1 i1 m2 i2 m3 i3 m4 i4 : nat),
  (forall n, ofnat K (S n) <> f0 K) ->
  (forall alpha beta, In alpha (s_exps s1) -> In beta (s_exps s2) -> fadd K alpha beta <> f0 K) ->
  (forall gamma delta, In gamma (s_exps s3) -> In delta (s_exps s4) -> fadd K gamma delta <> f0 K) ->
  (forall alpha beta gamma delta, In alpha (s_exps s1) -> In beta (s_exps s2) ->
     In gamma (s_exps s3) -> In delta (s_exps s4) ->
     fadd K (fadd K alpha beta) (fadd K gamma delta) <> f0 K) ->
  eri_spec K s1 s2 s3 s4 m1 i1 m2 i2 m3 i3 m4 i4 = eri_spec K s2 s1 s3 s4 m2 i2 m1 i1 m3 i3 m4 i4
  /\ eri_spec K s1 s2 s3 s4 m1 i1 m2 i2 m3 i3 m4 i4 = eri_spec K s1 s2 s4 s3 m1 i1 m2 i2 m4 i4 m3 i3
  /\ eri_spec K s1 s2 s3 s4 m1 i1 m2 i2 m3 i3 m4 i4 = eri_spec K s3 s4 s1 s2 m3 i3 m4 i4 m1 i1 m2 i2.
Proof.
  intros s1 s2 s3 s4 m1 i1 m2 i2 m3 i3 m4 i4 char0 Hp Hq Hpq.
  assert (He : exps_ok K s1 s2 s3 s4) by (repeat split; assumption).
  split; [|split].
  - now apply (eri_spec_swap_ab K Kf char0).
  - now apply (eri_spec_swap_cd K Kf char0).
  - now apply (eri_spec_swap_el K Kf char0).
Qed.

(* all eight orientations at once *)
Theorem eri_spec_symmetric_8 :
  forall (o : orient) (s1 s2 s3 s4 : shell F) (m1 i1 m2 i2 m3 i3 m4 i4 : nat),
  (forall n, ofnat K (S n) <> f0 K) ->
  (forall alpha beta, In alpha (s_exps s1) -> In beta (s_exps s2) -> fadd K alpha beta <> f0 K) ->
  (forall gamma delta, In gamma (s_exps s3) -> In delta (s_exps s4) -> fadd K gamma delta <> f0 K) ->
  (forall alpha beta gamma delta, In alpha (s_exps s1) -> In beta (s_exps s2) ->
     In gamma (s_exps s3) -> In delta (s_exps s4) ->
     fadd K (fadd K alpha beta) (fadd K gamma delta) <> f0 K) ->
  eri_spec K (opick1 o s1 s2 s3 s4) (opick2 o s1 s2 s3 s4) (opick3 o s1 s2 s3 s4) (opick4 o s1 s2 s3 s4)
           (opick1 o m1 m2 m3 m4) (opick1 o i1 i2 i3 i4) (opick2 o m1 m2 m3 m4) (opick2 o i1 i2 i3 i4)
           (opick3 o m1 m2 m3 m4) (opick3 o i1 i2 i3 i4) (opick4 o m1 m2 m3 m4) (opick4 o i1 i2 i3 i4)
  = eri_spec K s1 s2 s3 s4 m1 i1 m2 i2 m3 i3 m4 i4.
Proof.
  intros o s1 s2 s3 s4 m1 i1 m2 i2 m3 i3 m4 i4 char0 Hp Hq Hpq.
  apply (eri_spec_orient K Kf char0). repeat split; assumption.
Qed.

(* the three generators written out: (ba|cd), (ab|dc), (cd|ab) *)
Section Generators.
Variables (s1 s2 s3 s4 : shell F) (m1 i1 m2 i2 m3 i3 m4 i4 : nat).
Hypothesis Hapx : forall x, fapx K x = x.
Hypothesis char0 : forall n, ofnat K (S n) <> f0 K.
Hypothesis Hp : forall alpha beta, In alpha (s_exps s1) -> In beta (s_exps s2) -> fadd K alpha beta <> f0 K.
Hypothesis Hq : forall gamma delta, In gamma (s_exps s3) -> In delta (s_exps s4) -> fadd K gamma delta <> f0 K.
Hypothesis Hpq : forall alpha beta gamma delta, In alpha (s_exps s1) -> In beta (s_exps s2) ->
  In gamma (s_exps s3) -> In delta (s_exps s4) -> fadd K (fadd K alpha beta) (fadd K gamma delta) <> f0 K.
Hypothesis Hm1 : m1 < nseg s1. Hypothesis Hm2 : m2 < nseg s2.
Hypothesis Hm3 : m3 < nseg s3. Hypothesis Hm4 : m4 < nseg s4.
Hypothesis Hi1 : i1 < length (comps_of s1). Hypothesis Hi2 : i2 < length (comps_of s2).
Hypothesis Hi3 : i3 < length (comps_of s3). Hypothesis Hi4 : i4 < length (comps_of s4).
Hypothesis Hc1 : compsum (nth i1 (comps_of s1) (0, 0, 0)) <= s_l s1.
Hypothesis Hc2 : compsum (nth i2 (comps_of s2) (0, 0, 0)) <= s_l s2.
Hypothesis Hc3 : compsum (nth i3 (comps_of s3) (0, 0, 0)) <= s_l s3.
Hypothesis Hc4 : compsum (nth i4 (comps_of s4) (0, 0, 0)) <= s_l s4.

Theorem eri_block_swap_ab :
  nth i4 (nth m4 (nth i3 (nth m3 (nth i1 (nth m1 (nth i2 (nth m2 (eri_block K s2 s1 s3 s4)
    []) []) []) []) []) []) []) (f0 K)
  = nth i4 (nth m4 (nth i3 (nth m3 (nth i2 (nth m2 (nth i1 (nth m1 (eri_block K s1 s2 s3 s4)
    []) []) []) []) []) []) []) (f0 K).
Proof. exact (both_orientations_agree_eri O_bacd s1 s2 s3 s4 m1 i1 m2 i2 m3 i3 m4 i4 Hapx char0 Hp Hq Hpq
                Hm1 Hm2 Hm3 Hm4 Hi1 Hi2 Hi3 Hi4 Hc1 Hc2 Hc3 Hc4). Qed.
Theorem eri_block_swap_cd :
  nth i3 (nth m3 (nth i4 (nth m4 (nth i2 (nth m2 (nth i1 (nth m1 (eri_block K s1 s2 s4 s3)
    []) []) []) []) []) []) []) (f0 K)
  = nth i4 (nth m4 (nth i3 (nth m3 (nth i2 (nth m2 (nth i1 (nth m1 (eri_block K s1 s2 s3 s4)
    []) []) []) []) []) []) []) (f0 K).
Proof. exact (both_orientations_agree_eri O_abdc s1 s2 s3 s4 m1 i1 m2 i2 m3 i3 m4 i4 Hapx char0 Hp Hq Hpq
                Hm1 Hm2 Hm3 Hm4 Hi1 Hi2 Hi3 Hi4 Hc1 Hc2 Hc3 Hc4). Qed.
Theorem eri_block_swap_el :
  nth i2 (nth m2 (nth i1 (nth m1 (nth i4 (nth m4 (nth i3 (nth m3 (eri_block K s3 s4 s1 s2)
    []) []) []) []) []) []) []) (f0 K)
  = nth i4 (nth m4 (nth i3 (nth m3 (nth i2 (nth m2 (nth i1 (nth m1 (eri_block K s1 s2 s3 s4)
    []) []) []) []) []) []) []) (f0 K).
Proof. exact (both_orientations_agree_eri O_cdab s1 s2 s3 s4 m1 i1 m2 i2 m3 i3 m4 i4 Hapx char0 Hp Hq Hpq
                Hm1 Hm2 Hm3 Hm4 Hi1 Hi2 Hi3 Hi4 Hc1 Hc2 Hc3 Hc4). Qed.
End Generators.
End Final.

(* ======================= examples at Qc ======================= *)
From Coq Require Import Bool QArith Qcanon.

(* the hypotheses are satisfiable: characteristic 0 at the executable instance; the rest is
   TwoElecP.two_elec_hyps_ex (the (p d | s p) quartet ex_s1..ex_s4) *)
Example orient_char0_ex : forall n, ofnat KQ4 (S n) <> f0 KQ4.
Proof. exact (QcK_char0 (Q2Qc 3) (fun x => x) (fun x => x) (fun x => x)
                (fun m _ => qc_of 1 (Pos.of_nat (2 * m + 1)))). Qed.

Definition all_orients : list orient := [O_abcd; O_bacd; O_abdc; O_badc; O_cdab; O_dcab; O_cdba; O_dcba].
Definition flat8 (b : block8 (F:=Qc)) : list Qc :=
  concat (concat (concat (concat (concat (concat (concat b)))))).
Definition block_eqb (a b : block8 (F:=Qc)) : bool :=
  Nat.eqb (length (flat8 a)) (length (flat8 b))
  && forallb (fun xy : Qc * Qc => Qeq_bool (fst xy) (snd xy)) (combine (flat8 a) (flat8 b)).

(* (p s | s p): p shell with two primitives and two segmented contractions at A, s with one primitive at B,
   s with one primitive and two segmented contractions at C, p with one primitive at D; four different centres *)
Definition o_sh (l : nat) (x y z : Qc) (es : list Qc) (cs : list (list Qc)) : shell Qc :=
  mkShell Qc l x y z es cs false [] [].
Definition o_s1 := o_sh 1 (qc_of 0 1) (qc_of 1 2) (qc_of 0 1) [qc_of 1 1; qc_of 1 2]
                        [[qc_of 1 1; qc_of 1 3]; [qc_of 1 2; qc_of (-1) 1]].
Definition o_s2 := o_sh 0 (qc_of 1 1) (qc_of 0 1) (qc_of 1 4) [qc_of 3 2] [[qc_of 1 1]].
Definition o_s3 := o_sh 0 (qc_of (-1) 2) (qc_of 1 1) (qc_of 0 1) [qc_of 2 1] [[qc_of 1 1; qc_of 1 2]].
Definition o_s4 := o_sh 1 (qc_of 1 4) (qc_of (-1) 1) (qc_of 1 2) [qc_of 3 4] [[qc_of 1 1]].

(* all eight oriented blocks coincide with the block of the given orientation, entry by entry
   (36 entries each; exact rational arithmetic, arbitrary stand-ins for pi, sqrt, exp, Boys) *)
Example eight_orientations_ex :
  (let r := eri_block KQ4 o_s1 o_s2 o_s3 o_s4 in
   forallb (fun o => block_eqb (eri_block_oriented KQ4 o o_s1 o_s2 o_s3 o_s4) r) all_orients) = true.
Proof. vm_compute. reflexivity. Qed.
(* ... and the transposition is not vacuous: the block of (cd|ab) is not the block of (ab|cd) read in
   the same axis order, and the block has 36 = 2*3*1*1*2*1*1*3 entries *)
Example transposition_matters_ex :
  block_eqb (eri_block KQ4 o_s3 o_s4 o_s1 o_s2) (eri_block KQ4 o_s1 o_s2 o_s3 o_s4) = false
  /\ length (flat8 (eri_block KQ4 o_s1 o_s2 o_s3 o_s4)) = 36%nat.
Proof. split; vm_compute; reflexivity. Qed.
(* the constructors are electron_repulsion.py::_ORIENTATIONS in source order *)
Example orient_orders_ex :
  (map (fun o => [opick1 o 0 1 2 3; opick2 o 0 1 2 3; opick3 o 0 1 2 3; opick4 o 0 1 2 3]) all_orients
   = [[0; 1; 2; 3]; [1; 0; 2; 3]; [0; 1; 3; 2]; [1; 0; 3; 2]; [2; 3; 0; 1]; [3; 2; 0; 1]; [2; 3; 1; 0]; [3; 2; 1; 0]])%nat.
Proof. reflexivity. Qed.
