(* Proofs/ScreeningAsmP.v — property C20 at the ENTRIES of the assembled matrix of the screened overlap model
   (Model/Screening.overlap_integral_screened), through the explicit index maps of Proofs/AssembledP.v (gidx, a
   basis of Cartesian shells) and Proofs/AssembledSphP.v (oidx, any assignment of coordinate types).

   The triangle loop evaluates the block of the ordered pair (min i j, max i j) and mirrors it, so the model's
   decision for the two blocks (i, j) and (j, i) of the matrix is
     scr tol bs i j = is_screened tol s_(min i j) s_(max i j)
   (over the reals the decision is symmetric in the two shells, [is_screened_sym_R]).

   Any field:
     screened_entry_cart / screened_entry_mixed   every entry of the two blocks of a pair of shells is
         0                                  if the pair is screened,
         the entry of overlap_integral      if it is kept                     (both triangles)
     removed_entry_* / kept_entry_*         the two halves as separate statements
     all_kept_equal                         no pair screened: the whole matrix, any final transformation T
   Reals (RK), s shells (l = 0; Cartesian, or spherical with the single label c0 / -c0):
     s_shell_tco                            the 1x1 transformation of an s shell is +1 or -1 (for a spherical
                                            shell through the link theorem of Proofs/SphLinkP.v: the exact
                                            model's entry (+-1, 1))
     removed_s_bound_assembled_cart/_mixed  |S_IJ| <= tol * Sa * Sb (strict if Sa, Sb > 0) at the assembled
                                            entries of two s shells whose pair is screened, S = the UNSCREENED
                                            assembled overlap, Sa = norm_cont_a[m][0] * sum_k |d_km|
     screening_error_s_mixed                hence |S_IJ - Sscr_IJ| obeys the same bound (Sscr_IJ = 0). *)
From Coq Require Import List Arith Lia Bool Field QArith Qcanon Reals Lra.
From GB Require Import Base.Field Base.FNum Base.Tables Base.Blocks Model.Shell Model.MomentInt
  Model.Spherical Model.SphExact Model.Assembly Model.Overlap Model.Screening
  Proofs.CoreSumP Proofs.CoreBlockP Proofs.CoreDiffP Proofs.CoreNormP Proofs.OverlapP
  Proofs.BlockMatP Proofs.AssembledP Proofs.AssembledOverlapP Proofs.AssembledRealP
  Proofs.AssembledSphP Proofs.AssembledSphOverlapP Proofs.ScreeningP Proofs.SphExactP Proofs.SphLinkP.
Import ListNotations.
Local Open Scope nat_scope.
Local Open Scope list_scope.

(* ------------------------------------------------------------------ *)
(* any field                                                           *)
(* ------------------------------------------------------------------ *)
Section Gen.
Context {F : Type} (K : Fops F) (Kf : is_field K).
Add Field KFscr : Kf.
Local Open Scope F_scope.
Notation "0" := (f0 K) : F_scope.
Notation "1" := (f1 K) : F_scope.
Infix "+" := (fadd K) : F_scope.
Infix "*" := (fmul K) : F_scope.
Notation fsum := (FNum.fsum K).

Notation ovs tol := (overlap_block_screened K tol).

(* the model's decision for the two blocks (i, j), (j, i) of the assembled matrix *)
Definition scr (tol : option F) (bs : list (shell F)) (i j : nat) : bool :=
  is_screened K tol (sh_at K bs (Nat.min i j)) (sh_at K bs (Nat.max i j)).

Lemma scr_sym tol bs i j : scr tol bs i j = scr tol bs j i.
Proof. unfold scr. now rewrite Nat.min_comm, Nat.max_comm. Qed.

Lemma scr_le tol bs i j : (i <= j)%nat -> scr tol bs i j = is_screened K tol (sh_at K bs i) (sh_at K bs j).
Proof. intro H. unfold scr. now rewrite Nat.min_l, Nat.max_r by exact H. Qed.

Lemma scr_gt tol bs i j : (j < i)%nat -> scr tol bs i j = is_screened K tol (sh_at K bs j) (sh_at K bs i).
Proof. intro H. unfold scr. now rewrite Nat.min_r, Nat.max_l by lia. Qed.

(* ... it is the [pair_screened] of Proofs/ScreeningP.v (the decision inside [screened_assembly]) *)
Lemma scr_is_pair_screened tol bs i j : (i <= j)%nat -> (j < length bs)%nat ->
  scr tol bs i j = pair_screened K tol bs i j.
Proof.
  intros Hij Hj. rewrite scr_le by exact Hij. unfold pair_screened. cbv zeta.
  rewrite !(nth_prep K) by lia. reflexivity.
Qed.

Lemma screened_blocks_shaped tol b1 b2 : blocks_shaped (ovs tol) b1 b2.
Proof.
  intros sa sb _ _. unfold overlap_block_screened. destruct (is_screened K tol sa sb).
  - rewrite (zero_block_is_zeroed K).
    change (shape4 (nseg sa) (ncomp sa) (nseg sb) (ncomp sb) (Model.DiffOp.map4 (zf K) (overlap_block K sa sb))).
    apply map4_shape. apply (overlap_block_shape K).
  - apply (overlap_block_shape K).
Qed.

Lemma get4_screened tol sa sb m c m' c' : is_screened K tol sa sb = true ->
  get4 0 m c m' c' (ovs tol sa sb) = 0.
Proof. intro H. rewrite (removed_block K tol sa sb H), <- (nth4_get4 K). apply zero_block_entry. Qed.

(* ---------------- a basis of Cartesian shells: index map gidx ---------------- *)
Section Cart.
Variable bs : list (shell F).
Hypothesis C : cart_basis bs.
Notation s_ k := (sh_at K bs k).

Theorem screened_entry_cart tol i j m c m' c' :
  (i < length bs)%nat -> (j < length bs)%nat ->
  (m < nseg (s_ i))%nat -> (c < ncomp (s_ i))%nat -> (m' < nseg (s_ j))%nat -> (c' < ncomp (s_ j))%nat ->
  nth (gidx K bs j m' c') (nth (gidx K bs i m c) (overlap_integral_screened K bs None tol) []) 0
  = if scr tol bs i j then 0
    else nth (gidx K bs j m' c') (nth (gidx K bs i m c) (overlap_integral K bs None) []) 0.
Proof.
  intros Hi Hj Hm Hc Hm' Hc'. unfold overlap_integral_screened, overlap_integral.
  rewrite (two_symm_cart_entry K 0 (fadd K) (fmul K) (ovs tol) bs C (screened_blocks_shaped tol bs bs))
    by assumption.
  rewrite (two_symm_cart_entry K 0 (fadd K) (fmul K) (overlap_block K) bs C (overlap_blocks_shaped K bs bs))
    by assumption.
  destruct (Nat.leb i j) eqn:L.
  - apply Nat.leb_le in L. rewrite (scr_le tol bs i j L).
    destruct (is_screened K tol (s_ i) (s_ j)) eqn:S.
    + rewrite (get4_screened tol _ _ _ _ _ _ S). ring.
    + now rewrite (kept_block K tol _ _ S).
  - apply Nat.leb_gt in L. rewrite (scr_gt tol bs i j L).
    destruct (is_screened K tol (s_ j) (s_ i)) eqn:S.
    + rewrite (get4_screened tol _ _ _ _ _ _ S). ring.
    + now rewrite (kept_block K tol _ _ S).
Qed.

Corollary removed_entry_cart tol i j m c m' c' :
  (i < length bs)%nat -> (j < length bs)%nat ->
  (m < nseg (s_ i))%nat -> (c < ncomp (s_ i))%nat -> (m' < nseg (s_ j))%nat -> (c' < ncomp (s_ j))%nat ->
  scr tol bs i j = true ->
  nth (gidx K bs j m' c') (nth (gidx K bs i m c) (overlap_integral_screened K bs None tol) []) 0 = 0
  /\ nth (gidx K bs i m c) (nth (gidx K bs j m' c') (overlap_integral_screened K bs None tol) []) 0 = 0.
Proof.
  intros Hi Hj Hm Hc Hm' Hc' S. split.
  - rewrite screened_entry_cart by assumption. now rewrite S.
  - rewrite screened_entry_cart by assumption. now rewrite scr_sym, S.
Qed.

Corollary kept_entry_cart tol i j m c m' c' :
  (i < length bs)%nat -> (j < length bs)%nat ->
  (m < nseg (s_ i))%nat -> (c < ncomp (s_ i))%nat -> (m' < nseg (s_ j))%nat -> (c' < ncomp (s_ j))%nat ->
  scr tol bs i j = false ->
  nth (gidx K bs j m' c') (nth (gidx K bs i m c) (overlap_integral_screened K bs None tol) []) 0
  = nth (gidx K bs j m' c') (nth (gidx K bs i m c) (overlap_integral K bs None) []) 0
  /\ nth (gidx K bs i m c) (nth (gidx K bs j m' c') (overlap_integral_screened K bs None tol) []) 0
     = nth (gidx K bs i m c) (nth (gidx K bs j m' c') (overlap_integral K bs None) []) 0.
Proof.
  intros Hi Hj Hm Hc Hm' Hc' S. split.
  - rewrite screened_entry_cart by assumption. now rewrite S.
  - rewrite screened_entry_cart by assumption. now rewrite scr_sym, S.
Qed.
End Cart.

(* ---------------- any coordinate types: index map oidx ---------------- *)
Lemma dsum_zero a b q q' : AssembledSphOverlapP.dsum K a b q q' (fun _ _ => 0) = 0.
Proof.
  unfold AssembledSphOverlapP.dsum.
  rewrite (fsum_mk_ext K _ _ (fun _ => 0)); [apply (fsum_mk_zero K Kf)|].
  intros c _. rewrite (fsum_mk_ext K _ _ (fun _ => 0)); [apply (fsum_mk_zero K Kf)|]. intros c' _. ring.
Qed.

Lemma Emix_screened tol a b m1 q1 m2 q2 : (q1 < osize a)%nat -> (q2 < osize b)%nat ->
  is_screened K tol a b = true ->
  Emix K 0 (fadd K) (fmul K) (ovs tol) a b m1 q1 m2 q2 = 0.
Proof.
  intros H1 H2 S. rewrite (Emix_dsum K Kf) by assumption.
  rewrite (AssembledSphOverlapP.dsum_ext K _ _ _ _ _ (fun _ _ => 0)); [apply dsum_zero|].
  intros c c' _ _. rewrite (get4_screened tol _ _ _ _ _ _ S). ring.
Qed.

Lemma Emix_kept tol a b m1 q1 m2 q2 : is_screened K tol a b = false ->
  Emix K 0 (fadd K) (fmul K) (ovs tol) a b m1 q1 m2 q2
  = Emix K 0 (fadd K) (fmul K) (overlap_block K) a b m1 q1 m2 q2.
Proof. intro S. unfold Emix. now rewrite (kept_block K tol _ _ S). Qed.

Section Mixed.
Variable bs : list (shell F).
Hypothesis C : seg_basis bs.
Notation s_ k := (sh_at K bs k).

Theorem screened_entry_mixed tol i j m q m' q' :
  (i < length bs)%nat -> (j < length bs)%nat ->
  (m < nseg (s_ i))%nat -> (q < osize (s_ i))%nat -> (m' < nseg (s_ j))%nat -> (q' < osize (s_ j))%nat ->
  nth (oidx K bs j m' q') (nth (oidx K bs i m q) (overlap_integral_screened K bs None tol) []) 0
  = if scr tol bs i j then 0
    else nth (oidx K bs j m' q') (nth (oidx K bs i m q) (overlap_integral K bs None) []) 0.
Proof.
  intros Hi Hj Hm Hq Hm' Hq'. unfold overlap_integral_screened, overlap_integral.
  rewrite (two_symm_mixed_entry K 0 (fadd K) (fmul K) (ovs tol) bs C (screened_blocks_shaped tol bs bs))
    by assumption.
  rewrite (two_symm_mixed_entry K 0 (fadd K) (fmul K) (overlap_block K) bs C (overlap_blocks_shaped K bs bs))
    by assumption.
  destruct (Nat.leb i j) eqn:L.
  - apply Nat.leb_le in L. rewrite (scr_le tol bs i j L).
    destruct (is_screened K tol (s_ i) (s_ j)) eqn:S.
    + now apply Emix_screened.
    + now apply Emix_kept.
  - apply Nat.leb_gt in L. rewrite (scr_gt tol bs i j L).
    destruct (is_screened K tol (s_ j) (s_ i)) eqn:S.
    + now apply Emix_screened.
    + now apply Emix_kept.
Qed.

Corollary removed_entry_mixed tol i j m q m' q' :
  (i < length bs)%nat -> (j < length bs)%nat ->
  (m < nseg (s_ i))%nat -> (q < osize (s_ i))%nat -> (m' < nseg (s_ j))%nat -> (q' < osize (s_ j))%nat ->
  scr tol bs i j = true ->
  nth (oidx K bs j m' q') (nth (oidx K bs i m q) (overlap_integral_screened K bs None tol) []) 0 = 0
  /\ nth (oidx K bs i m q) (nth (oidx K bs j m' q') (overlap_integral_screened K bs None tol) []) 0 = 0.
Proof.
  intros Hi Hj Hm Hq Hm' Hq' S. split.
  - rewrite screened_entry_mixed by assumption. now rewrite S.
  - rewrite screened_entry_mixed by assumption. now rewrite scr_sym, S.
Qed.

Corollary kept_entry_mixed tol i j m q m' q' :
  (i < length bs)%nat -> (j < length bs)%nat ->
  (m < nseg (s_ i))%nat -> (q < osize (s_ i))%nat -> (m' < nseg (s_ j))%nat -> (q' < osize (s_ j))%nat ->
  scr tol bs i j = false ->
  nth (oidx K bs j m' q') (nth (oidx K bs i m q) (overlap_integral_screened K bs None tol) []) 0
  = nth (oidx K bs j m' q') (nth (oidx K bs i m q) (overlap_integral K bs None) []) 0
  /\ nth (oidx K bs i m q) (nth (oidx K bs j m' q') (overlap_integral_screened K bs None tol) []) 0
     = nth (oidx K bs i m q) (nth (oidx K bs j m' q') (overlap_integral K bs None) []) 0.
Proof.
  intros Hi Hj Hm Hq Hm' Hq' S. split.
  - rewrite screened_entry_mixed by assumption. now rewrite S.
  - rewrite screened_entry_mixed by assumption. now rewrite scr_sym, S.
Qed.
End Mixed.

(* no pair removed: the whole matrix, any final transformation *)
Theorem all_kept_equal (bs : list (shell F)) (T : option (list (list F))) tol :
  (forall i j, (i <= j)%nat -> (j < length bs)%nat -> scr tol bs i j = false) ->
  overlap_integral_screened K bs T tol = overlap_integral K bs T.
Proof.
  intros H. rewrite (screened_assembly K Kf). unfold overlap_integral. rewrite two_symm_integral_unfold.
  cbv zeta. rewrite map_length.
  assert (E : two_symm_blocks 0 (length bs) (fun i j =>
                if pair_screened K tol bs i j then ScreeningP.map2 (zf K) (ublock K bs i j) else ublock K bs i j)
            = two_symm_blocks 0 (length bs) (ublock K bs)).
  { unfold two_symm_blocks. f_equal. apply mk_ext; intros i Hi. f_equal. apply mk_ext; intros j Hj.
    destruct (Nat.leb i j) eqn:L.
    - apply Nat.leb_le in L. rewrite <- (scr_is_pair_screened tol bs i j L Hj). now rewrite (H i j L Hj).
    - apply Nat.leb_gt in L. rewrite <- (scr_is_pair_screened tol bs j i ltac:(lia) Hi).
      now rewrite (H j i ltac:(lia) Hi). }
  rewrite E. reflexivity.
Qed.
End Gen.

(* ------------------------------------------------------------------ *)
(* the reals: the conservative bound at the assembled entries          *)
(* ------------------------------------------------------------------ *)
Section RealBound.
Local Open Scope R_scope.

(* over the reals the decision does not depend on the order of the two shells *)
Lemma dist2_sym_R sa sb : dist2 RK sa sb = dist2 RK sb sa.
Proof. rewrite !dist2_R. ring. Qed.

Lemma cutoff2_sym_R tol sa sb : cutoff2 RK tol sa sb = cutoff2 RK tol sb sa.
Proof.
  rewrite !cutoff2_R.
  rewrite (Rplus_comm (min_exp RK sa) (min_exp RK sb)), (Rmult_comm (min_exp RK sa) (min_exp RK sb)).
  reflexivity.
Qed.

Lemma is_screened_sym_R tol sa sb : is_screened RK tol sa sb = is_screened RK tol sb sa.
Proof.
  destruct tol as [t|]; [|reflexivity]. unfold is_screened.
  now rewrite (cutoff2_sym_R t sa sb), (dist2_sym_R sa sb).
Qed.

Lemma scr_R tol bs i j : scr RK tol bs i j = is_screened RK tol (sh_at RK bs i) (sh_at RK bs j).
Proof.
  destruct (Nat.le_gt_cases i j) as [H|H].
  - now apply scr_le.
  - rewrite (scr_gt RK tol bs i j H). apply is_screened_sym_R.
Qed.

(* an s shell: l = 0, default component list [(0,0,0)]; if spherical its single label is c0 or -c0 *)
Definition is_s_shell (s : shell R) : Prop :=
  s_l s = 0%nat /\ s_comps s = [] /\ exists neg, labels_of s = [(neg, false, 0%nat)].

Lemma s_shell_form (s : shell R) : s_l s = 0%nat -> s_comps s = [] ->
  s = ss_shell (s_x s) (s_y s) (s_z s) (s_exps s) (s_coeffs s) (s_sph s) (s_labels s).
Proof. destruct s as [l x y z es cs sph comps labs]. cbn. intros -> ->. reflexivity. Qed.

Lemma s_shell_sizes (s : shell R) : is_s_shell s -> ncomp s = 1%nat /\ osize s = 1%nat.
Proof.
  intros (Hl & Hc & neg & Hlab). unfold osize, nlab, ncomp, comps_of. rewrite Hc, Hl, Hlab.
  split; [reflexivity|]. now destruct (s_sph s).
Qed.

(* the 1x1 transformation of an s shell *)
Lemma s_shell_tco (s : shell R) : is_s_shell s -> tco RK s 0 0 = 1 \/ tco RK s 0 0 = -1.
Proof.
  intros (Hl & Hc & neg & Hlab). unfold tco. destruct (s_sph s); [|left; reflexivity].
  assert (Ec : comps_of s = [(0, 0, 0)%nat]) by (unfold comps_of; rewrite Hc, Hl; reflexivity).
  unfold shell_transform. rewrite Hl, Ec, Hlab.
  assert (E : nth 0 (nth 0 (sph_transform RK 0 [(0, 0, 0)%nat] [(neg, false, 0%nat)]) []) 0
              = sdenR (nth 0 (nth 0 (left_form 0 [(0, 0, 0)%nat] [(neg, false, 0%nat)]) []) szero)).
  { apply sph_transform_entry_link_R; [lia| | |cbn; lia|cbn; lia].
    - intros c [<-|[]]. now left.
    - intros lb [<-|[]]. unfold adm_label, DiagSphCheckP.valid_sm. cbn. split; [lia|discriminate]. }
  cbn [sph_transform map nth] in E |- *. change (fapx RK ?x) with x. rewrite E.
  destruct neg.
  - right.
    assert (Ep : nth 0 (nth 0 (left_form 0 [(0, 0, 0)%nat] [(true, false, 0%nat)]) []) szero
                 = (Q2Qc (-1), Q2Qc 1)).
    { apply injective_projections; apply Qc_is_canon; vm_compute; reflexivity. }
    rewrite Ep. unfold sdenR. cbn [fst snd].
    assert (E1 : Q2R (this (Q2Qc (-1))) = -1) by (unfold Q2R; cbn; lra).
    assert (E2 : Q2R (this (Q2Qc 1)) = 1) by (unfold Q2R; cbn; lra).
    rewrite E1, E2, sqrt_1. lra.
  - left.
    assert (Ep : nth 0 (nth 0 (left_form 0 [(0, 0, 0)%nat] [(false, false, 0%nat)]) []) szero
                 = (Q2Qc 1, Q2Qc 1)).
    { apply injective_projections; apply Qc_is_canon; vm_compute; reflexivity. }
    rewrite Ep. unfold sdenR. cbn [fst snd].
    assert (E2 : Q2R (this (Q2Qc 1)) = 1) by (unfold Q2R; cbn; lra).
    rewrite E2, sqrt_1. lra.
Qed.

Lemma s_shell_tco_abs (s : shell R) : is_s_shell s -> Rabs (tco RK s 0 0) = 1.
Proof.
  intro H. destruct (s_shell_tco s H) as [-> | ->]; [apply Rabs_R1|].
  unfold Rabs. destruct (Rcase_abs (-1)); lra.
Qed.

(* every shell has at least one primitive and positive exponents *)
Definition pos_basis (bs : list (shell R)) : Prop := forall s, In s bs -> pos_exps s.

Lemma pos_basis_exps bs : pos_basis bs -> pos_exps_basis bs.
Proof. intros P s Hs x Hx. exact (proj2 (P s Hs) x Hx). Qed.

(* the bound for the raw block of two s shells given abstractly (Proofs/ScreeningP.removed_s_bound_block) *)
Lemma s_pair_block_bound (sa sb : shell R) m m' tol :
  s_l sa = 0%nat -> s_comps sa = [] -> s_l sb = 0%nat -> s_comps sb = [] ->
  pos_exps sa -> pos_exps sb -> wf_shell sa -> wf_shell sb ->
  (m < nseg sa)%nat -> (m' < nseg sb)%nat -> 0 < tol <= 1 ->
  is_screened RK (Some tol) sa sb = true ->
  let Sa := AssembledP.ncont RK sa m 0 * abs_sum (col m (s_exps sa) (s_coeffs sa)) in
  let Sb := AssembledP.ncont RK sb m' 0 * abs_sum (col m' (s_exps sb) (s_coeffs sb)) in
  let e := AssembledP.ncont RK sa m 0 * AssembledP.ncont RK sb m' 0 * nth4 RK m 0 m' 0 (overlap_block RK sa sb) in
  Rabs e <= tol * Sa * Sb /\ (0 < Sa -> 0 < Sb -> Rabs e < tol * Sa * Sb).
Proof.
  intros La Ca Lb Cb Pa Pb Wa Wb Hm Hm' Ht S. cbv zeta.
  change (AssembledP.ncont RK sa m 0) with (ScreeningP.ncont sa m).
  change (AssembledP.ncont RK sb m' 0) with (ScreeningP.ncont sb m').
  pose proof (s_shell_form sa La Ca) as Ea. pose proof (s_shell_form sb Lb Cb) as Eb.
  pose proof (ncont_nonneg sa m) as Na. pose proof (ncont_nonneg sb m') as Nb.
  destruct Wa as [Wa _]. destruct Wb as [Wb _]. unfold wf_coeffs in Wa, Wb.
  revert Pa Pb Hm Hm' S Na Nb. generalize (ScreeningP.ncont sa m) (ScreeningP.ncont sb m').
  rewrite Ea, Eb. cbn [s_exps s_coeffs ss_shell]. intros na nb Pa Pb Hm Hm' S Na Nb.
  exact (removed_s_bound_block _ _ _ _ _ _ _ _ _ _ _ _ _ _ m m' na nb tol Pa Pb Wa Wb Hm Hm' Ht Na Nb S).
Qed.

(* ---- Cartesian basis, gidx ---- *)
Theorem removed_s_bound_assembled_cart (bs : list (shell R)) i j m m' tol :
  cart_basis bs -> basis_wf bs -> pos_basis bs ->
  (i < length bs)%nat -> (j < length bs)%nat ->
  let sa := sh_at RK bs i in let sb := sh_at RK bs j in
  s_l sa = 0%nat -> s_comps sa = [] -> s_l sb = 0%nat -> s_comps sb = [] ->
  (m < nseg sa)%nat -> (m' < nseg sb)%nat -> 0 < tol <= 1 ->
  scr RK (Some tol) bs i j = true ->
  let Sa := AssembledP.ncont RK sa m 0 * abs_sum (col m (s_exps sa) (s_coeffs sa)) in
  let Sb := AssembledP.ncont RK sb m' 0 * abs_sum (col m' (s_exps sb) (s_coeffs sb)) in
  let e := nth (gidx RK bs j m' 0) (nth (gidx RK bs i m 0) (overlap_integral RK bs None) []) 0 in
  Rabs e <= tol * Sa * Sb /\ (0 < Sa -> 0 < Sb -> Rabs e < tol * Sa * Sb).
Proof.
  intros C W P Hi Hj sa sb La Ca Lb Cb Hm Hm' Ht S. cbv zeta.
  assert (Ia : In sa bs) by (now apply nth_In). assert (Ib : In sb bs) by (now apply nth_In).
  assert (Na : ncomp sa = 1%nat) by (unfold ncomp, comps_of; rewrite Ca, La; reflexivity).
  assert (Nb : ncomp sb = 1%nat) by (unfold ncomp, comps_of; rewrite Cb, Lb; reflexivity).
  pose proof (overlap_integral_entry_block RK RK_field fapx_id_R two_neq_0_R bs C W
             (basis_exps_pos_R bs bs (pos_basis_exps bs P) (pos_basis_exps bs P)) i j m 0 m' 0
             Hi Hj Hm ltac:(fold sa; lia) Hm' ltac:(fold sb; lia)) as EE.
  change (f0 RK) with 0 in EE. rewrite EE. fold sa sb.
  rewrite scr_R in S.
  exact (s_pair_block_bound sa sb m m' tol La Ca Lb Cb (P _ Ia) (P _ Ib) (W _ Ia) (W _ Ib) Hm Hm' Ht S).
Qed.

(* ---- any coordinate types (the s shells Cartesian or spherical, the other shells arbitrary), oidx ---- *)
Lemma fsum_single (x : R) : FNum.fsum RK [x] = x.
Proof. cbn. lra. Qed.

Theorem removed_s_bound_assembled_mixed (bs : list (shell R)) i j m m' tol :
  seg_basis bs -> basis_wf bs -> pos_basis bs ->
  (i < length bs)%nat -> (j < length bs)%nat ->
  let sa := sh_at RK bs i in let sb := sh_at RK bs j in
  is_s_shell sa -> is_s_shell sb ->
  (m < nseg sa)%nat -> (m' < nseg sb)%nat -> 0 < tol <= 1 ->
  scr RK (Some tol) bs i j = true ->
  let Sa := AssembledP.ncont RK sa m 0 * abs_sum (col m (s_exps sa) (s_coeffs sa)) in
  let Sb := AssembledP.ncont RK sb m' 0 * abs_sum (col m' (s_exps sb) (s_coeffs sb)) in
  let e := nth (oidx RK bs j m' 0) (nth (oidx RK bs i m 0) (overlap_integral RK bs None) []) 0 in
  Rabs e <= tol * Sa * Sb /\ (0 < Sa -> 0 < Sb -> Rabs e < tol * Sa * Sb).
Proof.
  intros C W P Hi Hj sa sb Ha Hb Hm Hm' Ht S. cbv zeta.
  assert (Ia : In sa bs) by (now apply nth_In). assert (Ib : In sb bs) by (now apply nth_In).
  destruct (s_shell_sizes sa Ha) as [Na Oa]. destruct (s_shell_sizes sb Hb) as [Nb Ob].
  pose proof (basis_exps_pos_R bs bs (pos_basis_exps bs P) (pos_basis_exps bs P)) as E.
  pose proof (overlap_integral_mixed_entry RK RK_field fapx_id_R two_neq_0_R bs C W E i j m 0 m' 0
             Hi Hj Hm ltac:(fold sa; lia) Hm' ltac:(fold sb; lia)) as EE.
  change (f0 RK) with 0 in EE. rewrite EE.
  fold sa sb. unfold AssembledSphOverlapP.dsum. rewrite Na, Nb. cbn [mk seq map]. rewrite !fsum_single.
  rewrite <- (overlap_block_correct RK RK_field fapx_id_R two_neq_0_R sa sb m 0 m' 0)
    by (auto; unfold ncomp in *; lia).
  pose proof (s_shell_tco_abs sa Ha) as Ta. pose proof (s_shell_tco_abs sb Hb) as Tb.
  destruct Ha as (La & Ca & _). destruct Hb as (Lb & Cb & _). rewrite scr_R in S.
  pose proof (s_pair_block_bound sa sb m m' tol La Ca Lb Cb (P _ Ia) (P _ Ib) (W _ Ia) (W _ Ib) Hm Hm' Ht S) as B.
  cbv zeta in B.
  change (fmul RK) with Rmult.
  set (x := AssembledP.ncont RK sa m 0 * AssembledP.ncont RK sb m' 0 * nth4 RK m 0 m' 0 (overlap_block RK sa sb)) in *.
  assert (Ex : Rabs (tco RK sa 0 0 * tco RK sb 0 0 * x) = Rabs x).
  { rewrite !Rabs_mult, Ta, Tb. lra. }
  rewrite Ex. exact B.
Qed.

(* the error made by screening at the entries of two s shells: the screened matrix has 0 there *)
Theorem screening_error_s_mixed (bs : list (shell R)) i j m m' tol :
  seg_basis bs -> basis_wf bs -> pos_basis bs ->
  (i < length bs)%nat -> (j < length bs)%nat ->
  let sa := sh_at RK bs i in let sb := sh_at RK bs j in
  is_s_shell sa -> is_s_shell sb ->
  (m < nseg sa)%nat -> (m' < nseg sb)%nat -> 0 < tol <= 1 ->
  scr RK (Some tol) bs i j = true ->
  let Sa := AssembledP.ncont RK sa m 0 * abs_sum (col m (s_exps sa) (s_coeffs sa)) in
  let Sb := AssembledP.ncont RK sb m' 0 * abs_sum (col m' (s_exps sb) (s_coeffs sb)) in
  let d := nth (oidx RK bs j m' 0) (nth (oidx RK bs i m 0) (overlap_integral RK bs None) []) 0
           - nth (oidx RK bs j m' 0) (nth (oidx RK bs i m 0) (overlap_integral_screened RK bs None (Some tol)) []) 0 in
  Rabs d <= tol * Sa * Sb /\ (0 < Sa -> 0 < Sb -> Rabs d < tol * Sa * Sb).
Proof.
  intros C W P Hi Hj sa sb Ha Hb Hm Hm' Ht S. cbv zeta.
  destruct (s_shell_sizes sa Ha) as [_ Oa]. destruct (s_shell_sizes sb Hb) as [_ Ob].
  pose proof (screened_entry_mixed RK RK_field bs C (Some tol) i j m 0 m' 0
             Hi Hj Hm ltac:(fold sa; lia) Hm' ltac:(fold sb; lia)) as EE.
  rewrite S in EE. change (f0 RK) with 0 in EE. rewrite EE, Rminus_0_r.
  exact (removed_s_bound_assembled_mixed bs i j m m' tol C W P Hi Hj Ha Hb Hm Hm' Ht S).
Qed.

(* ---------------- the hypotheses are satisfiable ---------------- *)
(* a spherical s shell and a Cartesian p shell at the origin, a Cartesian s shell 3 bohr away (the screened
   pair of Proofs/ScreeningP.ex_screened) *)
Definition ex_s_sph : shell R := mkShell R 0 0 0 0 [1] [[1]] true [] [].
Definition ex_p_cart : shell R := mkShell R 1 0 0 0 [1] [[1]] false [] [].
Definition ex_asm_basis : list (shell R) := [ex_s_sph; ex_p_cart; ex_shell 3].

Lemma ex_asm_screened : scr RK (Some (/ 2)) ex_asm_basis 0 2 = true.
Proof.
  rewrite scr_R. change (sh_at RK ex_asm_basis 0) with ex_s_sph. change (sh_at RK ex_asm_basis 2) with (ex_shell 3).
  pose proof ex_screened as H. apply is_screened_R in H. apply is_screened_R.
  destruct H as (H1 & H2 & H3). repeat split; assumption.
Qed.

Example asm_hypotheses_satisfiable :
  seg_basis ex_asm_basis /\ basis_wf ex_asm_basis /\ pos_basis ex_asm_basis
  /\ is_s_shell (sh_at RK ex_asm_basis 0) /\ is_s_shell (sh_at RK ex_asm_basis 2)
  /\ scr RK (Some (/ 2)) ex_asm_basis 0 2 = true /\ scr RK (Some (/ 2)) ex_asm_basis 0 1 = false
  /\ ototal RK ex_asm_basis = 5%nat /\ oidx RK ex_asm_basis 2 0 0 = 4%nat.
Proof.
  split; [|split; [|split; [|split; [|split; [|split; [|split; [|split]]]]]]].
  - intros s [<-|[<-|[<-|[]]]]; cbn; lia.
  - intros s [<-|[<-|[<-|[]]]]; apply wf_shell_default; reflexivity.
  - intros s [<-|[<-|[<-|[]]]]; (split; [discriminate|]); intros x [<-|[]]; lra.
  - split; [reflexivity|]. split; [reflexivity|]. exists false. reflexivity.
  - split; [reflexivity|]. split; [reflexivity|]. exists false. reflexivity.
  - exact ex_asm_screened.
  - rewrite scr_R. change (sh_at RK ex_asm_basis 0) with ex_s_sph. change (sh_at RK ex_asm_basis 1) with ex_p_cart.
    destruct (is_screened RK (Some (/ 2)) ex_s_sph ex_p_cart) eqn:S; [|reflexivity].
    apply is_screened_R in S. destruct S as (_ & _ & S). rewrite cutoff2_R, dist2_R in S.
    change (min_exp RK ex_s_sph) with 1 in S. change (min_exp RK ex_p_cart) with 1 in S.
    cbn [s_x s_y s_z ex_s_sph ex_p_cart] in S.
    pose proof ln2_bounds as L2. rewrite ln_Rinv in S by lra. lra.
  - reflexivity.
  - reflexivity.
Qed.

(* the screened matrix of that basis has an exact zero at (row: spherical s shell, column: far s shell) and
   at the mirrored position, and keeps the s-p entries of the unscreened matrix *)
Example asm_removed_example :
  nth 4 (nth 0 (overlap_integral_screened RK ex_asm_basis None (Some (/ 2))) []) 0 = 0
  /\ nth 0 (nth 4 (overlap_integral_screened RK ex_asm_basis None (Some (/ 2))) []) 0 = 0
  /\ nth 2 (nth 0 (overlap_integral_screened RK ex_asm_basis None (Some (/ 2))) []) 0
     = nth 2 (nth 0 (overlap_integral RK ex_asm_basis None) []) 0.
Proof.
  destruct asm_hypotheses_satisfiable as (C & _ & _ & _ & _ & S1 & S2 & _ & _).
  split; [|split].
  - exact (proj1 (removed_entry_mixed RK RK_field ex_asm_basis C (Some (/ 2)) 0 2 0 0 0 0
             ltac:(cbn; lia) ltac:(cbn; lia) ltac:(cbn; lia) ltac:(cbn; lia) ltac:(cbn; lia) ltac:(cbn; lia) S1)).
  - exact (proj2 (removed_entry_mixed RK RK_field ex_asm_basis C (Some (/ 2)) 0 2 0 0 0 0
             ltac:(cbn; lia) ltac:(cbn; lia) ltac:(cbn; lia) ltac:(cbn; lia) ltac:(cbn; lia) ltac:(cbn; lia) S1)).
  - exact (proj1 (kept_entry_mixed RK RK_field ex_asm_basis C (Some (/ 2)) 0 1 0 0 0 1
             ltac:(cbn; lia) ltac:(cbn; lia) ltac:(cbn; lia) ltac:(cbn; lia) ltac:(cbn; lia) ltac:(cbn; lia) S2)).
Qed.

(* a basis of two Cartesian s shells 3 bohr apart meets every hypothesis of the Cartesian theorems; its
   off-diagonal entries are removed at tol = 1/2 and were below 1/2 * Sa * Sb *)
Definition ex_cart_basis : list (shell R) := [ex_shell 0; ex_shell 3].

Example asm_cart_example :
  cart_basis ex_cart_basis /\ basis_wf ex_cart_basis /\ pos_basis ex_cart_basis
  /\ scr RK (Some (/ 2)) ex_cart_basis 0 1 = true
  /\ nth 1 (nth 0 (overlap_integral_screened RK ex_cart_basis None (Some (/ 2))) []) 0 = 0
  /\ Rabs (nth 1 (nth 0 (overlap_integral RK ex_cart_basis None) []) 0)
     <= / 2 * (AssembledP.ncont RK (ex_shell 0) 0 0 * abs_sum (col 0 [1] [[1]]))
            * (AssembledP.ncont RK (ex_shell 3) 0 0 * abs_sum (col 0 [1] [[1]])).
Proof.
  assert (C : cart_basis ex_cart_basis) by (intros s [<-|[<-|[]]]; cbn; (split; [reflexivity|lia])).
  assert (W : basis_wf ex_cart_basis) by (intros s [<-|[<-|[]]]; apply wf_shell_default; reflexivity).
  assert (P : pos_basis ex_cart_basis) by (intros s [<-|[<-|[]]]; apply ex_pos).
  assert (S : scr RK (Some (/ 2)) ex_cart_basis 0 1 = true) by (rewrite scr_R; exact ex_screened).
  split; [exact C|]. split; [exact W|]. split; [exact P|]. split; [exact S|]. split.
  - exact (proj1 (removed_entry_cart RK RK_field ex_cart_basis C (Some (/ 2)) 0 1 0 0 0 0
             ltac:(cbn; lia) ltac:(cbn; lia) ltac:(cbn; lia) ltac:(cbn; lia) ltac:(cbn; lia) ltac:(cbn; lia) S)).
  - exact (proj1 (removed_s_bound_assembled_cart ex_cart_basis 0 1 0 0 (/ 2) C W P
             ltac:(cbn; lia) ltac:(cbn; lia) eq_refl eq_refl eq_refl eq_refl ltac:(cbn; lia) ltac:(cbn; lia)
             ltac:(lra) S)).
Qed.
End RealBound.
