(* Proofs/AssembledSphHermP.v — herm_assembly for spherical / mixed bases (C08) and the transformation law of
   the assembled momentum / angular-momentum matrices.  Elements are vectors (lists over F of a fixed length
   d = 3) with Model/OneBody.vadd / vscale / vneg; every statement is reduced to its components, where the
   finite sums are the field sums of Proofs/CoreSumP.v.

     herm_assembly_mixed        R[J][I] = -R[I][J] at EVERY position of the assembled matrix of a basis with ANY
                                assignment of coordinate types, any order of the shells, for any block function
                                whose entries have a common length d and whose DIAGONAL blocks are antisymmetric.
     herm_mixed_is_cart_transformed   each component k < d of R[oidx i m q][oidx j m' q'] is
                                sum_c sum_c' tco s_i q c * tco s_j q' c' * (R_cart[gidx i m c][gidx j m' c'])_k
                                (block function antisymmetric for all pairs), R_cart = the matrix of the basis
                                with every shell taken Cartesian.
     momentum_/angmom_integral_herm_mixed, momentum_/angmom_mixed_is_cart_transformed: the instances. *)
From Coq Require Import List Arith Lia Bool Field.
From GB Require Import Base.Field Base.FNum Base.Tables Base.Blocks Model.Shell Model.MomentInt
  Model.Spherical Model.Assembly Model.Overlap Model.DiffOp Model.OneBody
  Proofs.BlockP Proofs.CoreSumP Proofs.CoreBlockP Proofs.CoreDiffP Proofs.AssemblyP Proofs.OverlapP
  Proofs.BlockMatP Proofs.AssembledP Proofs.AssembledOverlapP Proofs.AssembledHermP
  Proofs.AssembledSphP Proofs.AssembledSphOverlapP.
Import ListNotations.

Section VecSums.
Context {F : Type} (K : Fops F) (Kf : is_field K).
Add Field KFvs : Kf.
Local Open Scope F_scope.
Notation "0" := (f0 K) : F_scope.
Notation "1" := (f1 K) : F_scope.
Infix "+" := (fadd K) : F_scope.
Infix "*" := (fmul K) : F_scope.
Notation "- x" := (fopp K x) : F_scope.
Notation fsum := (FNum.fsum K).

Lemma vadd_same (x y : list F) d : length x = d -> length y = d ->
  length (vadd K x y) = d /\ forall k, k < d -> nth k (vadd K x y) 0 = nth k x 0 + nth k y 0.
Proof.
  intros Hx Hy. unfold vadd. destruct x as [|a x]; [|destruct y as [|b y]].
  - cbn in Hx. subst d. split; [exact Hy|]. intros k Hk. lia.
  - cbn in Hx, Hy. lia.
  - split; [rewrite map_length, combine_length; lia|]. intros k Hk.
    rewrite (nth_map_combine _ (a :: x) (b :: y) k 0 0 0) by lia. reflexivity.
Qed.

(* a sum of vectors of length d, component by component (the empty sum is the empty vector) *)
Lemma vsum_comp (l : list (list F)) d :
  Forall (fun v => length v = d) l -> l <> [] ->
  length (asum vzero (vadd K) l) = d /\
  forall k, k < d -> nth k (asum vzero (vadd K) l) 0 = fsum (map (fun v => nth k v 0) l).
Proof.
  intros HF. induction HF as [|v l Hv HF IH]; intros Hne; [congruence|].
  unfold asum. cbn [fold_right map]. fold (asum vzero (vadd K) l).
  destruct l as [|v' l'].
  - cbn [asum fold_right map]. unfold vzero. split.
    + destruct v; exact Hv.
    + intros k Hk. unfold FNum.fsum. cbn [fold_right]. destruct v; [cbn in Hv; lia|]. cbn [vadd]. ring.
  - destruct (IH ltac:(discriminate)) as [IL IE].
    destruct (vadd_same v (asum vzero (vadd K) (v' :: l')) d Hv IL) as [VL VE].
    split; [exact VL|]. intros k Hk. rewrite (VE k Hk), (IE k Hk). reflexivity.
Qed.

Lemma vscale_comp t (v : list F) k : k < length v -> nth k (vscale K t v) 0 = t * nth k v 0.
Proof. intros Hk. unfold vscale. now rewrite (nth_map_d _ v k 0) by exact Hk. Qed.

Lemma vneg_comp (v : list F) k : k < length v -> nth k (vneg K v) 0 = - nth k v 0.
Proof. intros Hk. unfold vneg. now rewrite (nth_map_d _ v k 0) by exact Hk. Qed.

(* the action of T_s on one index of a family of vectors, component by component *)
Lemma tsum_vec_comp sph T L q (f : nat -> list F) d :
  0 < L -> (sph = false -> q < L) -> (forall c, c < L -> length (f c) = d) ->
  length (tsum K vzero (vadd K) (vscale K) sph T L q f) = d /\
  forall k, k < d ->
    nth k (tsum K vzero (vadd K) (vscale K) sph T L q f) 0
    = tsum K 0 (fadd K) (fmul K) sph T L q (fun c => nth k (f c) 0).
Proof.
  intros HL Hq Hf. unfold tsum. destruct sph.
  - assert (HF : Forall (fun v => length v = d) (mk L (fun c => vscale K (nth c (nth q T []) 0) (f c)))).
    { apply Forall_mk. intros c Hc. unfold vscale. rewrite map_length. now apply Hf. }
    destruct (vsum_comp _ d HF (mk_nonempty L _ HL)) as [SL SE]. split; [exact SL|].
    intros k Hk. rewrite (SE k Hk). rewrite CoreSumP.map_mk. apply (fsum_mk_ext K). intros c Hc.
    apply vscale_comp. rewrite Hf by exact Hc. exact Hk.
  - split; [apply Hf; now apply Hq|]. reflexivity.
Qed.

(* vectors of a common length with equal components are equal *)
Lemma vec_ext (x y : list F) d : length x = d -> length y = d ->
  (forall k, k < d -> nth k x 0 = nth k y 0) -> x = y.
Proof. intros Hx Hy H. apply (nth_ext _ _ 0 0); [congruence|]. intros k Hk. apply H. lia. Qed.
End VecSums.

Section HermMixed.
Context {F : Type} (K : Fops F) (Kf : is_field K).
Add Field KFhm : Kf.
Local Open Scope F_scope.
Notation "0" := (f0 K) : F_scope.
Notation "1" := (f1 K) : F_scope.
Infix "+" := (fadd K) : F_scope.
Infix "*" := (fmul K) : F_scope.
Notation "- x" := (fopp K x) : F_scope.
Notation fsum := (FNum.fsum K).

Section Generic.
Variable blockf : shell F -> shell F -> list (list (list (list (list F)))).
Variable bs : list (shell F).
Variable d : nat.
Hypothesis C : seg_basis bs.
Hypothesis HB : blocks_shaped blockf bs bs.
(* every block entry is a vector of length d *)
Hypothesis HD : forall sa sb, In sa bs -> In sb bs -> forall ma ia mb ib,
  ma < nseg sa -> ia < ncomp sa -> mb < nseg sb -> ib < ncomp sb ->
  length (get4 [] ma ia mb ib (blockf sa sb)) = d.

Notation s_ k := (sh_at K bs k).
Notation Rm := (two_symm_integral_h K vzero (vadd K) (vscale K) (vneg K) blockf bs None).
Notation EmixV := (Emix K vzero (vadd K) (vscale K) blockf).

(* components of a processed block entry: the canonical double sum *)
Lemma EmixV_comp a b m1 q1 m2 q2 : In a bs -> In b bs ->
  m1 < nseg a -> q1 < osize a -> m2 < nseg b -> q2 < osize b ->
  length (EmixV a b m1 q1 m2 q2) = d /\
  forall k, k < d ->
    nth k (EmixV a b m1 q1 m2 q2) 0
    = dsum K a b q1 q2 (fun c1 c2 => ncont K a m1 c1 * ncont K b m2 c2 * nth k (get4 [] m1 c1 m2 c2 (blockf a b)) 0).
Proof.
  intros Ia Ib H1 Hq1 H2' Hq2. unfold Emix.
  change (@get4 (list F) (@vzero F)) with (@get4 (list F) (@nil F)).
  assert (Hqa : s_sph a = false -> q1 < ncomp a) by (intros E; unfold osize in Hq1; now rewrite E in Hq1).
  assert (Hqb : s_sph b = false -> q2 < ncomp b) by (intros E; unfold osize in Hq2; now rewrite E in Hq2).
  assert (Hin : forall c2, c2 < ncomp b ->
     length (tsum K vzero (vadd K) (vscale K) (s_sph a) (shell_transform K a) (ncomp a) q1 (fun c1 =>
               vscale K (ncont K a m1 c1 * ncont K b m2 c2) (get4 [] m1 c1 m2 c2 (blockf a b)))) = d /\
     forall k, k < d ->
       nth k (tsum K vzero (vadd K) (vscale K) (s_sph a) (shell_transform K a) (ncomp a) q1 (fun c1 =>
               vscale K (ncont K a m1 c1 * ncont K b m2 c2) (get4 [] m1 c1 m2 c2 (blockf a b)))) 0
       = tsum K 0 (fadd K) (fmul K) (s_sph a) (shell_transform K a) (ncomp a) q1 (fun c1 =>
           ncont K a m1 c1 * ncont K b m2 c2 * nth k (get4 [] m1 c1 m2 c2 (blockf a b)) 0)).
  { intros c2 Hc2.
    destruct (tsum_vec_comp K Kf (s_sph a) (shell_transform K a) (ncomp a) q1
                (fun c1 => vscale K (ncont K a m1 c1 * ncont K b m2 c2) (get4 [] m1 c1 m2 c2 (blockf a b))) d
                (ncomp_pos a) Hqa) as [TL TE].
    { intros c1 Hc1. unfold vscale. rewrite map_length. now apply HD. }
    split; [exact TL|]. intros k Hk. rewrite (TE k Hk). apply tsum_ext; [|exact Hqa].
    intros c1 Hc1. apply vscale_comp. rewrite HD by assumption. exact Hk. }
  destruct (tsum_vec_comp K Kf (s_sph b) (shell_transform K b) (ncomp b) q2 _ d (ncomp_pos b) Hqb
              (fun c2 Hc2 => proj1 (Hin c2 Hc2))) as [TL TE].
  split; [exact TL|]. intros k Hk. rewrite (TE k Hk).
  rewrite (tsum_ext K 0 (fadd K) (fmul K) _ _ _ _ _
             (fun c2 => tsum K 0 (fadd K) (fmul K) (s_sph a) (shell_transform K a) (ncomp a) q1 (fun c1 =>
                ncont K a m1 c1 * ncont K b m2 c2 * nth k (get4 [] m1 c1 m2 c2 (blockf a b)) 0)))
    by (try exact Hqb; intros c2 Hc2; exact (proj2 (Hin c2 Hc2) k Hk)).
  rewrite (tsum_fsum K Kf) by exact Hq2.
  rewrite (fsum_mk_ext K _ _ (fun c2 => fsum (mk (ncomp a) (fun c1 =>
             tco K a q1 c1 * tco K b q2 c2
             * (ncont K a m1 c1 * ncont K b m2 c2 * nth k (get4 [] m1 c1 m2 c2 (blockf a b)) 0))))).
  - unfold dsum. apply (fsum_mk_swap K Kf).
  - intros c2 Hc2. rewrite (tsum_fsum K Kf) by exact Hq1. rewrite (fsum_mk_scale_l K Kf).
    apply fsum_mk_ext. intros c1 Hc1. ring.
Qed.

Lemma herm_mixed_entry i j m q m' q' :
  i < length bs -> j < length bs ->
  m < nseg (s_ i) -> q < osize (s_ i) -> m' < nseg (s_ j) -> q' < osize (s_ j) ->
  nth (oidx K bs j m' q') (nth (oidx K bs i m q) Rm []) []
  = if Nat.ltb i j then EmixV (s_ i) (s_ j) m q m' q' else vneg K (EmixV (s_ j) (s_ i) m' q' m q).
Proof.
  intros Hi Hj Hm Hq Hm' Hq'.
  exact (two_symm_h_mixed_entry K vzero (vadd K) (vscale K) blockf bs C HB (vneg K) i j m q m' q' Hi Hj Hm Hq Hm' Hq').
Qed.

Theorem herm_assembly_mixed : diag_antisym K blockf bs ->
  forall I J, I < ototal K bs -> J < ototal K bs ->
  nth I (nth J Rm []) [] = vneg K (nth J (nth I Rm []) []).
Proof.
  intros Hd I J HI HJ.
  destruct (oidx_surj K bs I HI) as (i & m & q & Hi & Hm & Hq & ->).
  destruct (oidx_surj K bs J HJ) as (j & m' & q' & Hj & Hm' & Hq' & ->).
  rewrite (herm_mixed_entry i j m q m' q') by assumption.
  rewrite (herm_mixed_entry j i m' q' m q) by assumption.
  destruct (Nat.lt_trichotomy i j) as [Hlt|[Heq|Hgt]].
  - destruct (Nat.ltb_spec i j); [|lia]. destruct (Nat.ltb_spec j i); [lia|]. reflexivity.
  - subst j. rewrite Nat.ltb_irrefl. rewrite (vneg_invol K Kf).
    assert (Is : In (s_ i) bs) by (now apply nth_In).
    destruct (EmixV_comp (s_ i) (s_ i) m q m' q' Is Is Hm Hq Hm' Hq') as [L1 E1].
    destruct (EmixV_comp (s_ i) (s_ i) m' q' m q Is Is Hm' Hq' Hm Hq) as [L2 E2].
    apply (vec_ext K _ _ d); [unfold vneg; now rewrite map_length | exact L2 |].
    intros k Hk. rewrite (vneg_comp K) by (rewrite L1; exact Hk). rewrite (E1 k Hk), (E2 k Hk).
    unfold dsum. rewrite (fsum_mk_opp K Kf). rewrite (fsum_mk_swap K Kf).
    apply fsum_mk_ext; intros c Hc. rewrite (fsum_mk_opp K Kf). apply fsum_mk_ext; intros c' Hc'.
    rewrite (Hd (s_ i) Is m c m' c') by assumption.
    rewrite (vneg_comp K) by (rewrite HD by assumption; exact Hk). ring.
  - destruct (Nat.ltb_spec i j); [lia|]. destruct (Nat.ltb_spec j i); [|lia]. now rewrite (vneg_invol K Kf).
Qed.

(* every entry, component by component, when all pairs of blocks are antisymmetric *)
Theorem herm_mixed_entry_all : pair_antisym K blockf bs ->
  forall i j m q m' q', i < length bs -> j < length bs ->
  m < nseg (s_ i) -> q < osize (s_ i) -> m' < nseg (s_ j) -> q' < osize (s_ j) ->
  length (nth (oidx K bs j m' q') (nth (oidx K bs i m q) Rm []) []) = d /\
  forall k, k < d ->
    nth k (nth (oidx K bs j m' q') (nth (oidx K bs i m q) Rm []) []) 0
    = dsum K (s_ i) (s_ j) q q' (fun c c' =>
        ncont K (s_ i) m c * ncont K (s_ j) m' c' * nth k (get4 [] m c m' c' (blockf (s_ i) (s_ j))) 0).
Proof.
  intros Hp i j m q m' q' Hi Hj Hm Hq Hm' Hq'. rewrite herm_mixed_entry by assumption.
  assert (Ii : In (s_ i) bs) by (now apply nth_In). assert (Ij : In (s_ j) bs) by (now apply nth_In).
  destruct (Nat.ltb i j).
  - now apply EmixV_comp.
  - destruct (EmixV_comp (s_ j) (s_ i) m' q' m q Ij Ii Hm' Hq' Hm Hq) as [L1 E1].
    split; [unfold vneg; now rewrite map_length|]. intros k Hk.
    rewrite (vneg_comp K) by (rewrite L1; exact Hk). rewrite (E1 k Hk).
    unfold dsum. rewrite (fsum_mk_opp K Kf). rewrite (fsum_mk_swap K Kf).
    apply fsum_mk_ext; intros c' Hc'. rewrite (fsum_mk_opp K Kf). apply fsum_mk_ext; intros c Hc.
    rewrite (Hp (s_ i) (s_ j) Ii Ij m c m' c') by assumption.
    rewrite (vneg_comp K) by (rewrite HD by assumption; exact Hk). ring.
Qed.
End Generic.

(* ---- momentum and angular momentum ---- *)
Hypothesis Hapx : forall x : F, fapx K x = x.
Hypothesis H2 : 1 + 1 <> 0.

Section Inst.
Variable bs : list (shell F).
Hypothesis C : seg_basis bs.
Hypothesis W : basis_wf bs.
Hypothesis E : basis_exps K bs bs.
Notation s_ k := (sh_at K bs k).
Notation bsc := (map to_cart bs).

Lemma momentum_len3 sa sb : In sa bs -> In sb bs -> forall ma ia mb ib,
  ma < nseg sa -> ia < ncomp sa -> mb < nseg sb -> ib < ncomp sb ->
  length (get4 [] ma ia mb ib (momentum_block_re K sa sb)) = 3.
Proof.
  intros Ia Ib ma ia mb ib H1 H3 H4 H5.
  now rewrite (momentum_block_correct K Kf Hapx H2 sa sb ma ia mb ib (W _ Ia) (W _ Ib) (E _ _ Ia Ib) H1 H3 H4 H5).
Qed.
Lemma angmom_len3 sa sb : In sa bs -> In sb bs -> forall ma ia mb ib,
  ma < nseg sa -> ia < ncomp sa -> mb < nseg sb -> ib < ncomp sb ->
  length (get4 [] ma ia mb ib (angmom_block_re K sa sb)) = 3.
Proof.
  intros Ia Ib ma ia mb ib H1 H3 H4 H5.
  now rewrite (angmom_block_correct K Kf Hapx H2 sa sb ma ia mb ib (W _ Ia) (W _ Ib) (E _ _ Ia Ib) H1 H3 H4 H5).
Qed.

Theorem momentum_integral_herm_mixed I J : I < ototal K bs -> J < ototal K bs ->
  nth I (nth J (momentum_integral_re K bs None) []) []
  = vneg K (nth J (nth I (momentum_integral_re K bs None) []) []).
Proof.
  unfold momentum_integral_re.
  apply (herm_assembly_mixed (momentum_block_re K) bs 3 C (momentum_shaped K bs) momentum_len3).
  apply pair_antisym_diag. exact (momentum_pair_antisym K Kf Hapx H2 bs W E).
Qed.

Theorem angmom_integral_herm_mixed I J : I < ototal K bs -> J < ototal K bs ->
  nth I (nth J (angmom_integral_re K bs None) []) []
  = vneg K (nth J (nth I (angmom_integral_re K bs None) []) []).
Proof.
  unfold angmom_integral_re.
  apply (herm_assembly_mixed (angmom_block_re K) bs 3 C (angmom_shaped K bs) angmom_len3).
  apply pair_antisym_diag. exact (angmom_pair_antisym K Kf Hapx H2 bs W E).
Qed.

(* (+)T on both indices of the all-Cartesian matrix, component by component *)
Theorem momentum_mixed_is_cart_transformed i j m q m' q' :
  i < length bs -> j < length bs ->
  m < nseg (s_ i) -> q < osize (s_ i) -> m' < nseg (s_ j) -> q' < osize (s_ j) ->
  let e := nth (oidx K bs j m' q') (nth (oidx K bs i m q) (momentum_integral_re K bs None) []) [] in
  length e = 3 /\
  forall k, k < 3 ->
    nth k e 0 = dsum K (s_ i) (s_ j) q q' (fun c c' =>
      nth k (nth (gidx K bsc j m' c') (nth (gidx K bsc i m c) (momentum_integral_re K bsc None) []) []) 0).
Proof.
  intros Hi Hj Hm Hq Hm' Hq'. cbv zeta. unfold momentum_integral_re at 1 2.
  destruct (herm_mixed_entry_all (momentum_block_re K) bs 3 C (momentum_shaped K bs) momentum_len3
              (momentum_pair_antisym K Kf Hapx H2 bs W E) i j m q m' q' Hi Hj Hm Hq Hm' Hq') as [L1 E1].
  split; [exact L1|]. intros k Hk. rewrite (E1 k Hk). apply dsum_ext. intros c c' Hc Hc'.
  unfold momentum_integral_re.
  rewrite (herm_entry_all K Kf (momentum_block_re K) bsc (cart_basis_to_cart bs C) (momentum_shaped K bsc)
             (momentum_pair_antisym K Kf Hapx H2 bsc (basis_wf_to_cart bs W) (basis_exps_to_cart K bs E))
             i j m c m' c');
    rewrite ?map_length, ?sh_at_to_cart; try assumption.
  assert (Ii : In (s_ i) bs) by (now apply nth_In). assert (Ij : In (s_ j) bs) by (now apply nth_In).
  rewrite (vscale_comp K) by (change (k < length (get4 [] m c m' c' (momentum_block_re K (s_ i) (s_ j))));
                              rewrite momentum_len3 by assumption; exact Hk).
  reflexivity.
Qed.

Theorem angmom_mixed_is_cart_transformed i j m q m' q' :
  i < length bs -> j < length bs ->
  m < nseg (s_ i) -> q < osize (s_ i) -> m' < nseg (s_ j) -> q' < osize (s_ j) ->
  let e := nth (oidx K bs j m' q') (nth (oidx K bs i m q) (angmom_integral_re K bs None) []) [] in
  length e = 3 /\
  forall k, k < 3 ->
    nth k e 0 = dsum K (s_ i) (s_ j) q q' (fun c c' =>
      nth k (nth (gidx K bsc j m' c') (nth (gidx K bsc i m c) (angmom_integral_re K bsc None) []) []) 0).
Proof.
  intros Hi Hj Hm Hq Hm' Hq'. cbv zeta. unfold angmom_integral_re at 1 2.
  destruct (herm_mixed_entry_all (angmom_block_re K) bs 3 C (angmom_shaped K bs) angmom_len3
              (angmom_pair_antisym K Kf Hapx H2 bs W E) i j m q m' q' Hi Hj Hm Hq Hm' Hq') as [L1 E1].
  split; [exact L1|]. intros k Hk. rewrite (E1 k Hk). apply dsum_ext. intros c c' Hc Hc'.
  unfold angmom_integral_re.
  rewrite (herm_entry_all K Kf (angmom_block_re K) bsc (cart_basis_to_cart bs C) (angmom_shaped K bsc)
             (angmom_pair_antisym K Kf Hapx H2 bsc (basis_wf_to_cart bs W) (basis_exps_to_cart K bs E))
             i j m c m' c');
    rewrite ?map_length, ?sh_at_to_cart; try assumption.
  assert (Ii : In (s_ i) bs) by (now apply nth_In). assert (Ij : In (s_ j) bs) by (now apply nth_In).
  rewrite (vscale_comp K) by (change (k < length (get4 [] m c m' c' (angmom_block_re K (s_ i) (s_ j))));
                              rewrite angmom_len3 by assumption; exact Hk).
  reflexivity.
Qed.
End Inst.
End HermMixed.
