(* Proofs/RotationBlockP.v — general rotations for the OVERLAP and KINETIC-ENERGY BLOCKS of the list-level model (C12).

   Proofs/RotationP.v proves the covariance of the primitive specification, the representation matrix of R being read
   off the entries of the multiplied-out polynomial (R^T u)^a.  Here
     1. the entries are COLLECTED into a matrix indexed by the Cartesian components of a shell,
          rep_mat R i j = coefficient of u^i in (R^T u)^j        ([rep_mat_mono_rep]: it satisfies RigidP.mono_rep),
        using that (R^T u)^j is homogeneous of degree |j| and that [default_comps l] lists every exponent triple of
        degree l exactly once ([default_comps_NoDup]);
     2. the primitive law is lifted through the contraction and the normalisation constants
        (dfnorm c * norm_prim l c alpha does not depend on the component c) to the entries of
        [overlap_block] = Overlap.construct_array_contraction:

     overlap_block_rotation_law :  for every orthogonal R (proper or improper) and all l_a, l_b there are matrices
        Ma, Mb representing R on the monomials of degree l_a, l_b such that for all well-formed Cartesian shells of
        these angular momenta (any centres, exponents, contraction coefficients, any number of segments)
           dfnorm(ja) dfnorm(jb) S[ma, ja, mb, jb]
             = sum_ia sum_ib Ma[ia, ja] Mb[ib, jb] dfnorm(ia) dfnorm(ib) S'[ma, ia, mb, ib]
        S = overlap_block sa sb, S' = overlap_block (rot_shell R sa) (rot_shell R sb).

     kinetic_block_rotation_law : the same sentence for [kinetic_block] (KineticEnergyIntegral); both are instances of
        [block_rotation_law_generic] (any kernel whose block entries are contracted primitive values obeying the
        primitive matrix law).

   This is the conclusion of [RigidP.rotation_law_overlap] word for word; the hypotheses are those of
   [rotation_law_overlap] plus the two of the block theorem [CoreBlockP.overlap_block_correct] it goes through:
   1 + 1 <> 0 and "one coefficient row per exponent" ([wf_coeffs]) for both shells. *)
From Coq Require Import List Arith Lia Field Bool.
From GB Require Import Base.Field Base.FNum Base.Tables Gauss.Moment1D Gauss.Poly3 Model.Shell Model.MomentInt
  Model.Overlap Model.DiffOp Proofs.CoreSumP Proofs.CoreBlockP Proofs.CoreDiffP Proofs.RigidP Proofs.RotationP.
Import ListNotations.

(* ---- default_comps l lists every exponent triple of degree l exactly once ---- *)
Lemma NoDup_app_disj {A} (l1 l2 : list A) :
  NoDup l1 -> NoDup l2 -> (forall x, In x l1 -> ~ In x l2) -> NoDup (l1 ++ l2).
Proof.
  induction l1 as [|a l1 IH]; intros H1 H2 HD; cbn [app]; [exact H2|].
  inversion H1 as [|? ? Ha H1']; subst. constructor.
  - intro Hin. apply in_app_or in Hin. destruct Hin as [Hin|Hin]; [now apply Ha|].
    apply (HD a); [now left|exact Hin].
  - apply IH; [exact H1'|exact H2|]. intros x Hx. apply HD. now right.
Qed.
Lemma NoDup_map_inj_in {A B} (f : A -> B) (l : list A) :
  (forall x y, In x l -> In y l -> f x = f y -> x = y) -> NoDup l -> NoDup (map f l).
Proof.
  induction l as [|a l IH]; intros Hinj Hnd; cbn [map]; [constructor|].
  inversion Hnd as [|? ? Ha Hnd']; subst. constructor.
  - intro Hin. apply in_map_iff in Hin. destruct Hin as [y [Hy Hyin]].
    apply Ha. rewrite <- (Hinj y a); [exact Hyin|now right|now left|exact Hy].
  - apply IH; [|exact Hnd']. intros x y Hx Hy. apply Hinj; now right.
Qed.
Lemma NoDup_flat_map_disj {A B} (f : A -> list B) (l : list A) :
  NoDup l -> (forall a, In a l -> NoDup (f a)) ->
  (forall a a' b, In a l -> In a' l -> In b (f a) -> In b (f a') -> a = a') ->
  NoDup (flat_map f l).
Proof.
  induction l as [|a l IH]; intros Hnd Hf Hd; cbn [flat_map]; [constructor|].
  inversion Hnd as [|? ? Ha Hnd']; subst. apply NoDup_app_disj.
  - apply Hf. now left.
  - apply IH; [exact Hnd'| |].
    + intros a' Ha'. apply Hf. now right.
    + intros a1 a2 b H1 H2. apply Hd; now right.
  - intros b Hb Hin. apply in_flat_map in Hin. destruct Hin as [a' [Ha' Hb']].
    apply Ha. rewrite (Hd a a' b); [exact Ha'|now left|now right|exact Hb|exact Hb'].
Qed.

Lemma default_comps_NoDup l : NoDup (default_comps l).
Proof.
  unfold default_comps. apply NoDup_flat_map_disj.
  - apply seq_NoDup.
  - intros xx Hxx. cbv zeta. apply NoDup_map_inj_in; [|apply seq_NoDup].
    intros y1 y2 H1 H2 E. apply in_seq in H1. apply in_seq in H2. apply in_seq in Hxx.
    injection E as E1 E2. lia.
  - intros x1 x2 b H1 H2 Hb1 Hb2. cbv zeta in Hb1, Hb2.
    apply in_map_iff in Hb1. destruct Hb1 as [y1 [E1 _]].
    apply in_map_iff in Hb2. destruct Hb2 as [y2 [E2 _]].
    apply in_seq in H1. apply in_seq in H2. rewrite <- E2 in E1. injection E1 as E _ _. lia.
Qed.
Lemma default_comps_all l x y z : x + y + z = l -> In (x, y, z) (default_comps l).
Proof.
  intros H. unfold default_comps. apply in_flat_map. exists (l - x). split.
  - apply in_seq. lia.
  - cbv zeta. apply in_map_iff. exists (l - x - y). split.
    + f_equal; [f_equal|]; lia.
    + apply in_seq. lia.
Qed.
Lemma default_comps_degree l c : In c (default_comps l) -> fst (fst c) + snd (fst c) + snd c = l.
Proof.
  unfold default_comps. intros H. apply in_flat_map in H. destruct H as [xx [Hxx H]].
  cbv zeta in H. apply in_map_iff in H. destruct H as [yy [E Hyy]]. subst c.
  apply in_seq in Hxx. apply in_seq in Hyy. cbn [fst snd]. lia.
Qed.

Section Collect.
Context {F : Type} (K : Fops F) (Kf : is_field K).
Add Field KFrb : Kf.
Local Open Scope F_scope.
Notation "0" := (f0 K) : F_scope.
Notation "1" := (f1 K) : F_scope.
Infix "+" := (fadd K) : F_scope.
Infix "*" := (fmul K) : F_scope.
Infix "-" := (fsub K) : F_scope.
Infix "/" := (fdiv K) : F_scope.
Notation fsum := (FNum.fsum K).

Definition mdeg (m : mon) : nat := fst (fst m) + snd (fst m) + snd m.
Definition homog (l : nat) (f : poly3 (F:=F)) : Prop := Forall (fun mc => mdeg (fst mc) = l) f.
Definition mon_eqb (m i : mon) : bool :=
  Nat.eqb (fst (fst m)) (fst (fst i)) && Nat.eqb (snd (fst m)) (snd (fst i)) && Nat.eqb (snd m) (snd i).
Lemma mon_eqb_spec m i : reflect (m = i) (mon_eqb m i).
Proof.
  destruct m as [[a b] c], i as [[a' b'] c']. unfold mon_eqb. cbn [fst snd].
  destruct (Nat.eqb_spec a a'); [|constructor; congruence].
  destruct (Nat.eqb_spec b b'); [|constructor; congruence].
  destruct (Nat.eqb_spec c c'); constructor; congruence.
Qed.
(* coefficient of the monomial i in f (all its occurrences collected) *)
Definition coef (i : mon) (f : poly3 (F:=F)) : F := Jsum K (fun m => if mon_eqb m i then 1 else 0) f.

Lemma homog_app l f g : homog l f -> homog l g -> homog l (f ++ g).
Proof. intros Hf Hg. apply Forall_app. now split. Qed.
Lemma homog_pscale3 l c f : homog l f -> homog l (pscale3 K c f).
Proof. unfold homog, pscale3. rewrite Forall_map. cbn [fst]. exact (fun H => H). Qed.
Lemma homog_mulv l i f : homog l f -> homog (S l) (mulv i f).
Proof.
  unfold homog, mulv. rewrite Forall_map. apply Forall_impl. intros [[[a b] c] k] H.
  unfold mdeg in *. destruct i; cbn [bump fst snd] in *; lia.
Qed.
Lemma homog_mullin l c f : homog l f -> homog (S l) (mullin K c f).
Proof. intro H. unfold mullin. repeat apply homog_app; apply homog_pscale3, homog_mulv, H. Qed.
Lemma homog_powop_mullin l c n f : homog l f -> homog (n + l)%nat (powop (mullin K c) n f).
Proof. intro H. induction n as [|n IH]; cbn [powop Nat.add]; [exact H|]. now apply homog_mullin. Qed.
Lemma homog_subst_mon R m : homog (mdeg m) (subst_mon K R m).
Proof.
  destruct m as [[a b] c]. unfold subst_mon, mdeg. cbn [expo fst snd].
  replace (a + b + c)%nat with (a + (b + (c + 0)))%nat by lia.
  repeat apply homog_powop_mullin. unfold homog, one3, mono3. constructor; [reflexivity|constructor].
Qed.

Lemma fsum_map_zero {A} (L : list A) : fsum (map (fun _ => 0) L) = 0.
Proof. induction L as [|a L IH]; cbn [map FNum.fsum fold_right]; [reflexivity|].
  fold (fsum (map (fun _ : A => 0) L)). rewrite IH. ring. Qed.
Lemma fsum_map_add {A} (g h : A -> F) (L : list A) :
  fsum (map (fun i => g i + h i) L) = fsum (map g L) + fsum (map h L).
Proof. induction L as [|a L IH]; cbn [map FNum.fsum fold_right]; [ring|].
  fold (fsum (map (fun i => g i + h i) L)) (fsum (map g L)) (fsum (map h L)). rewrite IH. ring. Qed.
Lemma fsum_map_ext {A} (g h : A -> F) (L : list A) :
  (forall i, In i L -> g i = h i) -> fsum (map g L) = fsum (map h L).
Proof. intro H. f_equal. now apply map_ext_in. Qed.

Lemma delta_sum_out (J : mon -> F) k m (L : list mon) : ~ In m L ->
  fsum (map (fun i => k * (if mon_eqb m i then 1 else 0) * J i) L) = 0.
Proof.
  intro H. transitivity (fsum (map (fun _ : mon => 0) L)); [|apply fsum_map_zero].
  apply fsum_map_ext. intros i Hi.
  destruct (mon_eqb_spec m i) as [->|_]; [contradiction|cbv iota; ring].
Qed.
Lemma delta_sum (J : mon -> F) k m (L : list mon) : NoDup L -> In m L ->
  fsum (map (fun i => k * (if mon_eqb m i then 1 else 0) * J i) L) = k * J m.
Proof.
  induction L as [|i0 L IH]; intros Hnd Hin; [destruct Hin|].
  inversion Hnd as [|? ? Hni Hnd']; subst. cbn [map FNum.fsum fold_right].
  fold (fsum (map (fun i => k * (if mon_eqb m i then 1 else 0) * J i) L)).
  destruct (mon_eqb_spec m i0) as [->|Hne].
  - rewrite delta_sum_out by exact Hni. cbv iota. ring.
  - destruct Hin as [E|Hin]; [congruence|]. rewrite IH by assumption. cbv iota. ring.
Qed.

(* a polynomial all of whose monomials lie in L (each once in L) is the sum of its collected terms *)
Lemma Jsum_collect (J : mon -> F) (L : list mon) f : NoDup L ->
  Forall (fun mc => In (fst mc) L) f ->
  Jsum K J f = fsum (map (fun i => coef i f * J i) L).
Proof.
  intros Hnd Hf. induction f as [|[m k] f IH].
  - cbn [Jsum]. unfold coef. cbn [Jsum]. symmetry.
    transitivity (fsum (map (fun _ : mon => 0) L)); [|apply fsum_map_zero].
    apply fsum_map_ext. intros; ring.
  - inversion Hf as [|? ? Hm Hf']; subst. cbn [fst] in Hm. cbn [Jsum fst snd]. rewrite (IH Hf').
    rewrite <- (delta_sum J k m L Hnd Hm), <- fsum_map_add. apply fsum_map_ext. intros i _.
    unfold coef. cbn [Jsum fst snd]. ring.
Qed.

Lemma Jsum_collect_homog (J : mon -> F) l f : homog l f ->
  Jsum K J f = fsum (map (fun i => coef i f * J i) (default_comps l)).
Proof.
  intro H. apply Jsum_collect; [apply default_comps_NoDup|].
  revert H. apply Forall_impl. intros [[[a b] c] k] E. unfold mdeg in E. cbn [fst snd] in *.
  now apply default_comps_all.
Qed.

(* ---- the representation matrix ---- *)
Definition rep_mat (R : @mat3 F) (i j : comp) : F := coef i (rot_expand K R j).

Lemma Jsum_rot_expand (J : mon -> F) R l j : In j (default_comps l) ->
  Jsum K J (rot_expand K R j) = fsum (map (fun i => rep_mat R i j * J i) (default_comps l)).
Proof.
  intro Hj. apply Jsum_collect_homog. unfold rot_expand.
  replace l with (mdeg j) by (apply default_comps_degree, Hj). apply homog_subst_mon.
Qed.

Theorem rep_mat_mono_rep R l : mono_rep K R l (rep_mat R).
Proof.
  intros j Hj u. rewrite <- (rot_expand_eval K Kf R j u). now apply Jsum_rot_expand.
Qed.

End Collect.

(* ------------------------------------------------------------------ *)
Section Block.
Context {F : Type} (K : Fops F) (Kf : is_field K).
Add Field KFrb2 : Kf.
Local Open Scope F_scope.
Notation "0" := (f0 K) : F_scope.
Notation "1" := (f1 K) : F_scope.
Infix "+" := (fadd K) : F_scope.
Infix "*" := (fmul K) : F_scope.
Infix "-" := (fsub K) : F_scope.
Infix "/" := (fdiv K) : F_scope.
Notation fsum := (FNum.fsum K).

Hypothesis Hexp : forall x y, fexp K (x + y) = fexp K x * fexp K y.

Lemma fsum_map_scale {A} c (g : A -> F) (L : list A) :
  c * fsum (map g L) = fsum (map (fun i => c * g i) L).
Proof. induction L as [|a L IH]; cbn [map FNum.fsum fold_right]; [ring|].
  fold (fsum (map g L)) (fsum (map (fun i => c * g i) L)). rewrite <- IH. ring. Qed.

(* from the entries of (R^T u)^a to the collected matrix, for any pair of index-pair functions *)
Lemma matrix_form R la lb (P P' : comp -> comp -> F) ja jb :
  In ja (default_comps la) -> In jb (default_comps lb) ->
  Jsum K (fun a' => Jsum K (fun b' => P' a' b') (rot_expand K R jb)) (rot_expand K R ja) = P ja jb ->
  fsum (map (fun ia => fsum (map (fun ib => rep_mat K R ia ja * rep_mat K R ib jb * P' ia ib)
    (default_comps lb))) (default_comps la)) = P ja jb.
Proof.
  intros Hja Hjb <-.
  rewrite (Jsum_rot_expand K Kf _ R la ja Hja). apply fsum_map_ext. intros ia _.
  rewrite (Jsum_rot_expand K Kf _ R lb jb Hjb), fsum_map_scale. apply fsum_map_ext. intros ib _. ring.
Qed.

(* GENERAL ROTATIONS, overlap / kinetic energy of two primitives, matrix form: the representation matrices on both
   indices *)
Theorem overlap_prim_rotation_matrix R la lb sa sb ja jb alpha beta :
  orthogonal K R -> psum K alpha beta <> 0 ->
  In ja (default_comps la) -> In jb (default_comps lb) ->
  fsum (map (fun ia => fsum (map (fun ib =>
      rep_mat K R ia ja * rep_mat K R ib jb
      * ovl_prim K (rot_shell K R sa) (rot_shell K R sb) ia ib alpha beta)
    (default_comps lb))) (default_comps la))
  = ovl_prim K sa sb ja jb alpha beta.
Proof.
  intros HO Hp Hja Hjb.
  apply (matrix_form R la lb (fun a b => ovl_prim K sa sb a b alpha beta)
           (fun a b => ovl_prim K (rot_shell K R sa) (rot_shell K R sb) a b alpha beta) ja jb Hja Hjb).
  now apply overlap_prim_rotation_covariant.
Qed.
Theorem kinetic_prim_rotation_matrix R la lb sa sb ja jb alpha beta :
  orthogonal K R -> psum K alpha beta <> 0 ->
  In ja (default_comps la) -> In jb (default_comps lb) ->
  fsum (map (fun ia => fsum (map (fun ib =>
      rep_mat K R ia ja * rep_mat K R ib jb
      * kin_prim K (rot_shell K R sa) (rot_shell K R sb) ia ib alpha beta)
    (default_comps lb))) (default_comps la))
  = kin_prim K sa sb ja jb alpha beta.
Proof.
  intros HO Hp Hja Hjb.
  apply (matrix_form R la lb (fun a b => kin_prim K sa sb a b alpha beta)
           (fun a b => kin_prim K (rot_shell K R sa) (rot_shell K R sb) a b alpha beta) ja jb Hja Hjb).
  now apply kinetic_prim_rotation_covariant.
Qed.

Hypothesis Hapx : forall x : F, fapx K x = x.
Hypothesis H2 : 1 + 1 <> 0.
Hypothesis Hdf : forall c, dfnorm K c <> 0.

(* the part of the primitive normalisation that does not depend on the component *)
Definition gnorm (l : nat) (alpha : F) : F :=
  pow34 K ((1 + 1) * alpha / fpi K) * fsqrt K (FNum.fpow K ((1 + 1 + 1 + 1) * alpha) l).

Lemma dfnorm_norm_prim l c alpha : dfnorm K c * norm_prim K l c alpha = gnorm l alpha.
Proof.
  destruct c as [[ax ay] az]. pose proof (Hdf (ax, ay, az)) as Hc.
  unfold norm_prim, dfnorm, gnorm in *. cbn [fst snd] in *. rewrite Hapx. field. exact Hc.
Qed.

(* the contraction with component-independent weights *)
Definition W (sa sb : shell F) (ma mb : nat) (p : F -> F -> F) : F :=
  fsum (mk (length (s_exps sa)) (fun ka => fsum (mk (length (s_exps sb)) (fun kb =>
    nth ma (nth ka (s_coeffs sa) []) 0 * nth mb (nth kb (s_coeffs sb) []) 0
    * gnorm (s_l sa) (nth ka (s_exps sa) 0) * gnorm (s_l sb) (nth kb (s_exps sb) 0)
    * p (nth ka (s_exps sa) 0) (nth kb (s_exps sb) 0))))).

Lemma contracted_W sa sb ca cb ma mb p :
  dfnorm K ca * dfnorm K cb * contracted K sa sb ca cb ma mb p = W sa sb ma mb p.
Proof.
  unfold contracted, W. rewrite (fsum_mk_scale_l K Kf). apply fsum_mk_ext; intros ka _.
  rewrite (fsum_mk_scale_l K Kf). apply fsum_mk_ext; intros kb _.
  rewrite <- (dfnorm_norm_prim (s_l sa) ca), <- (dfnorm_norm_prim (s_l sb) cb). ring.
Qed.
Lemma W_ext sa sb ma mb p q :
  (forall alpha beta, In alpha (s_exps sa) -> In beta (s_exps sb) -> p alpha beta = q alpha beta) ->
  W sa sb ma mb p = W sa sb ma mb q.
Proof.
  intros H. unfold W. apply fsum_mk_ext; intros ka Hka. apply fsum_mk_ext; intros kb Hkb.
  rewrite H by (apply nth_In; assumption). reflexivity.
Qed.
Lemma W_add sa sb ma mb p q :
  W sa sb ma mb (fun x y => p x y + q x y) = W sa sb ma mb p + W sa sb ma mb q.
Proof.
  unfold W. rewrite (fsum_mk_add K Kf). apply fsum_mk_ext; intros ka _.
  rewrite (fsum_mk_add K Kf). apply fsum_mk_ext; intros kb _. ring.
Qed.
Lemma W_scale sa sb ma mb c p : W sa sb ma mb (fun x y => c * p x y) = c * W sa sb ma mb p.
Proof.
  unfold W. rewrite (fsum_mk_scale_l K Kf). apply fsum_mk_ext; intros ka _.
  rewrite (fsum_mk_scale_l K Kf). apply fsum_mk_ext; intros kb _. ring.
Qed.
Lemma W_zero sa sb ma mb : W sa sb ma mb (fun _ _ => 0) = 0.
Proof.
  unfold W. transitivity (fsum (mk (length (s_exps sa)) (fun _ => 0))); [|apply (fsum_mk_zero K Kf)].
  apply fsum_mk_ext; intros ka _.
  transitivity (fsum (mk (length (s_exps sb)) (fun _ => 0))); [|apply (fsum_mk_zero K Kf)].
  apply fsum_mk_ext; intros kb _. ring.
Qed.
Lemma W_fsum sa sb ma mb n (c : nat -> F) (p : nat -> F -> F -> F) :
  W sa sb ma mb (fun x y => fsum (mk n (fun i => c i * p i x y)))
  = fsum (mk n (fun i => c i * W sa sb ma mb (p i))).
Proof.
  induction n as [|n IH].
  - rewrite (fsum_mk_0 K). apply W_zero.
  - rewrite (fsum_mk_S K Kf), <- IH, <- W_scale, <- W_add. apply W_ext. intros x y _ _.
    apply (fsum_mk_S K Kf).
Qed.

(* ---- the lifting, for any two-index kernel whose block entries are contracted primitive values ---- *)
Section Generic.
Variable blk : shell F -> shell F -> list (list (list (list F))).
Variable prim : shell F -> shell F -> comp -> comp -> F -> F -> F.
Hypothesis blk_correct : forall sa sb ma ia mb ib,
  wf_shell sa -> wf_shell sb -> exps_ok K sa sb ->
  (ma < nseg sa)%nat -> (ia < length (comps_of sa))%nat -> (mb < nseg sb)%nat -> (ib < length (comps_of sb))%nat ->
  nth4 K ma ia mb ib (blk sa sb)
  = contracted K sa sb (nth ia (comps_of sa) (0,0,0)%nat) (nth ib (comps_of sb) (0,0,0)%nat) ma mb
      (prim sa sb (nth ia (comps_of sa) (0,0,0)%nat) (nth ib (comps_of sb) (0,0,0)%nat)).
Hypothesis prim_matrix : forall R la lb sa sb ja jb alpha beta,
  orthogonal K R -> psum K alpha beta <> 0 -> In ja (default_comps la) -> In jb (default_comps lb) ->
  fsum (map (fun ia => fsum (map (fun ib =>
      rep_mat K R ia ja * rep_mat K R ib jb * prim (rot_shell K R sa) (rot_shell K R sb) ia ib alpha beta)
    (default_comps lb))) (default_comps la))
  = prim sa sb ja jb alpha beta.

Theorem block_rotation_law_generic :
  forall R, orthogonal K R -> forall la lb, exists Ma Mb : comp -> comp -> F,
    mono_rep K R la Ma /\ mono_rep K R lb Mb /\
    forall sa sb, s_l sa = la -> s_l sb = lb -> s_comps sa = [] -> s_comps sb = [] ->
      wf_coeffs sa -> wf_coeffs sb ->
      (forall a b, In a (s_exps sa) -> In b (s_exps sb) -> a + b <> 0) ->
      forall ma mb ja jb, (ma < nseg sa)%nat -> (mb < nseg sb)%nat ->
        (ja < length (default_comps la))%nat -> (jb < length (default_comps lb))%nat ->
        let cmp l i := nth i (default_comps l) (0, 0, 0)%nat in
        dfnorm K (cmp la ja) * dfnorm K (cmp lb jb)
          * nth jb (nth mb (nth ja (nth ma (blk sa sb) []) []) []) 0
        = FNum.fsum K (map (fun ia => FNum.fsum K (map (fun ib =>
            Ma (cmp la ia) (cmp la ja) * Mb (cmp lb ib) (cmp lb jb)
            * dfnorm K (cmp la ia) * dfnorm K (cmp lb ib)
            * nth ib (nth mb (nth ia (nth ma
                 (blk (rot_shell K R sa) (rot_shell K R sb)) []) []) []) 0)
            (seq 0 (length (default_comps lb))))) (seq 0 (length (default_comps la)))).
Proof.
  intros R HO la lb. exists (rep_mat K R), (rep_mat K R).
  split; [apply (rep_mat_mono_rep K Kf)|]. split; [apply (rep_mat_mono_rep K Kf)|].
  intros sa sb Hla Hlb Hca Hcb Wa Wb Hex ma mb ja jb Hma Hmb Hja Hjb cmp.
  set (sa' := rot_shell K R sa). set (sb' := rot_shell K R sb).
  assert (WSa : wf_shell sa) by (now apply wf_shell_default).
  assert (WSb : wf_shell sb) by (now apply wf_shell_default).
  assert (WSa' : wf_shell sa') by (apply wf_shell_default; [exact Hca|exact Wa]).
  assert (WSb' : wf_shell sb') by (apply wf_shell_default; [exact Hcb|exact Wb]).
  assert (He : exps_ok K sa sb) by (intros a b Ha Hb; unfold psum; now apply Hex).
  assert (He' : exps_ok K sa' sb') by exact He.
  assert (Ca : comps_of sa = default_comps la) by (unfold comps_of; now rewrite Hca, Hla).
  assert (Cb : comps_of sb = default_comps lb) by (unfold comps_of; now rewrite Hcb, Hlb).
  assert (Ca' : comps_of sa' = default_comps la) by exact Ca.
  assert (Cb' : comps_of sb' = default_comps lb) by exact Cb.
  (* left-hand side *)
  change (nth jb (nth mb (nth ja (nth ma (blk sa sb) []) []) []) 0)
    with (nth4 K ma ja mb jb (blk sa sb)).
  rewrite (blk_correct sa sb ma ja mb jb WSa WSb He Hma)
    by (rewrite ?Ca, ?Cb; assumption).
  rewrite Ca, Cb. fold (cmp la ja) (cmp lb jb).
  transitivity (W sa sb ma mb (prim sa sb (cmp la ja) (cmp lb jb)));
    [rewrite <- (contracted_W sa sb (cmp la ja) (cmp lb jb)); ring|].
  (* right-hand side *)
  symmetry.
  transitivity (fsum (mk (length (default_comps la)) (fun ia => rep_mat K R (cmp la ia) (cmp la ja) *
     W sa sb ma mb (fun x y => fsum (mk (length (default_comps lb)) (fun ib =>
        rep_mat K R (cmp lb ib) (cmp lb jb) * prim sa' sb' (cmp la ia) (cmp lb ib) x y)))))).
  { apply fsum_mk_ext. intros ia Hia. rewrite W_fsum, (fsum_mk_scale_l K Kf).
    apply fsum_mk_ext. intros ib Hib.
    change (nth ib (nth mb (nth ia (nth ma (blk sa' sb') []) []) []) 0)
      with (nth4 K ma ia mb ib (blk sa' sb')).
    rewrite (blk_correct sa' sb' ma ia mb ib WSa' WSb' He' Hma)
      by (rewrite ?Ca', ?Cb'; assumption).
    rewrite Ca', Cb'. fold (cmp la ia) (cmp lb ib).
    change (W sa sb ma mb) with (W sa' sb' ma mb).
    rewrite <- (contracted_W sa' sb' (cmp la ia) (cmp lb ib)).
    change (fun x y : F => prim sa' sb' (cmp la ia) (cmp lb ib) x y)
      with (prim sa' sb' (cmp la ia) (cmp lb ib)). ring. }
  rewrite <- W_fsum. apply W_ext. intros alpha beta Ha Hb.
  rewrite <- (prim_matrix R la lb sa sb (cmp la ja) (cmp lb jb) alpha beta HO)
    by (try apply nth_In; try assumption; unfold psum; now apply Hex).
  rewrite (map_as_mk _ (default_comps la) (0, 0, 0)%nat). apply fsum_mk_ext. intros ia _.
  fold (cmp la ia). rewrite (map_as_mk _ (default_comps lb) (0, 0, 0)%nat), (fsum_mk_scale_l K Kf).
  apply fsum_mk_ext. intros ib _. fold (cmp lb ib). subst sa' sb'. ring.
Qed.
End Generic.

Definition block_law (blk : shell F -> shell F -> list (list (list (list F)))) : Prop :=
  forall R, orthogonal K R -> forall la lb, exists Ma Mb : comp -> comp -> F,
    mono_rep K R la Ma /\ mono_rep K R lb Mb /\
    forall sa sb, s_l sa = la -> s_l sb = lb -> s_comps sa = [] -> s_comps sb = [] ->
      wf_coeffs sa -> wf_coeffs sb ->
      (forall a b, In a (s_exps sa) -> In b (s_exps sb) -> a + b <> 0) ->
      forall ma mb ja jb, (ma < nseg sa)%nat -> (mb < nseg sb)%nat ->
        (ja < length (default_comps la))%nat -> (jb < length (default_comps lb))%nat ->
        let cmp l i := nth i (default_comps l) (0, 0, 0)%nat in
        dfnorm K (cmp la ja) * dfnorm K (cmp lb jb)
          * nth jb (nth mb (nth ja (nth ma (blk sa sb) []) []) []) 0
        = FNum.fsum K (map (fun ia => FNum.fsum K (map (fun ib =>
            Ma (cmp la ia) (cmp la ja) * Mb (cmp lb ib) (cmp lb jb)
            * dfnorm K (cmp la ia) * dfnorm K (cmp lb ib)
            * nth ib (nth mb (nth ia (nth ma
                 (blk (rot_shell K R sa) (rot_shell K R sb)) []) []) []) 0)
            (seq 0 (length (default_comps lb))))) (seq 0 (length (default_comps la)))).

Theorem overlap_block_rotation_law : block_law (overlap_block K).
Proof.
  unfold block_law. apply (block_rotation_law_generic (overlap_block K) (ovl_prim K)).
  - intros. now apply (overlap_block_correct K Kf Hapx H2).
  - intros. now apply overlap_prim_rotation_matrix.
Qed.

Theorem kinetic_block_rotation_law : block_law (kinetic_block K).
Proof.
  unfold block_law. apply (block_rotation_law_generic (kinetic_block K) (kin_prim K)).
  - intros. now apply (kinetic_block_correct K Kf Hapx H2).
  - intros. now apply kinetic_prim_rotation_matrix.
Qed.

End Block.

(* ------------------------------------------------------------------ *)
(* Examples over Qc.  The transcendental closures are stand-ins (sqrt = exp = 1, which satisfy every hypothesis);
   the theorem assumes nothing else about them. *)
From Coq Require Import ZArith QArith Qcanon.
Definition exKQ : Fops Qc := QcK true (Q2Qc 3) (fun _ => Q2Qc 1) (fun _ => Q2Qc 1) (fun x => x) (fun _ x => x).
Section Examples.
Let KQ : Fops Qc := exKQ.
Let KQf : is_field KQ := QcK_field _ _ _ _ _ _.
Let q (n : Z) (d : positive) : Qc := qc_of n d.
Definition exP : shell Qc :=
  mkShell Qc 1 (q 1 2) (q (-1) 1) (q 2 1) [q 3 2; q 1 4] [[q 1 1; q 2 1]; [q (-1) 3; q 1 2]] false [] [].
Definition exD : shell Qc :=
  mkShell Qc 2 (q 0 1) (q 1 3) (q (-1) 1) [q 2 3] [[q 5 7]] false [] [].

Lemma KQ_hyps :
  (forall x y, fexp KQ (fadd KQ x y) = fmul KQ (fexp KQ x) (fexp KQ y)) /\ (forall x, fapx KQ x = x)
  /\ fadd KQ (f1 KQ) (f1 KQ) <> f0 KQ /\ (forall c, dfnorm KQ c <> f0 KQ).
Proof.
  split; [intros; apply Qc_is_canon; vm_compute; reflexivity|]. split; [reflexivity|].
  split; intros; intro H; apply (f_equal this) in H; vm_compute in H; discriminate H.
Qed.
Lemma orthogonal_R345' : orthogonal KQ R345.
Proof.
  intros i j Hi Hj. destruct i as [|[|[|i]]]; try lia; destruct j as [|[|[|j]]]; try lia;
    split; apply Qc_is_canon; vm_compute; reflexivity.
Qed.

(* the hypotheses of [overlap_block_rotation_law] hold for a contracted p shell (2 primitives, 2 segments) and a
   d shell *)
Example block_law_hypotheses_satisfiable :
  orthogonal KQ R345 /\ wf_coeffs exP /\ wf_coeffs exD /\ s_comps exP = [] /\ s_comps exD = []
  /\ (forall a b, In a (s_exps exP) -> In b (s_exps exD) -> fadd KQ a b <> f0 KQ).
Proof.
  split; [apply orthogonal_R345'|]. split; [reflexivity|]. split; [reflexivity|].
  split; [reflexivity|]. split; [reflexivity|].
  intros a b Ha Hb. cbn [exP exD s_exps In] in Ha, Hb.
  destruct Ha as [<-|[<-|[]]]; destruct Hb as [<-|[]]; intro H; apply (f_equal this) in H;
    vm_compute in H; discriminate H.
Qed.

(* the block law re-evaluated on the list-level model (vm_compute, independent of the proof): every segment pair and
   every (p component, d component) *)
Definition block_law_check (R : @mat3 Qc) (la lb : nat) (S S' : list (list (list (list Qc))))
  (ma mb ja jb : nat) : bool :=
  let cmp l i := nth i (default_comps l) (0, 0, 0)%nat in
  Qeq_bool
    (fmul KQ (fmul KQ (dfnorm KQ (cmp la ja)) (dfnorm KQ (cmp lb jb)))
       (nth jb (nth mb (nth ja (nth ma S []) []) []) (f0 KQ)))
    (FNum.fsum KQ (map (fun ia => FNum.fsum KQ (map (fun ib =>
        fmul KQ (fmul KQ (fmul KQ (fmul KQ (rep_mat KQ R (cmp la ia) (cmp la ja))
                                           (rep_mat KQ R (cmp lb ib) (cmp lb jb)))
                                  (dfnorm KQ (cmp la ia))) (dfnorm KQ (cmp lb ib)))
          (nth ib (nth mb (nth ia (nth ma S' []) []) []) (f0 KQ)))
        (seq 0 (length (default_comps lb))))) (seq 0 (length (default_comps la))))).
(* all entries of the (contracted p, 2 segments) x d block, both rotations; the two blocks are evaluated once *)
Definition block_law_all (blk : shell Qc -> shell Qc -> list (list (list (list Qc)))) : bool :=
  forallb (fun R =>
    let S := blk exP exD in let S' := blk (rot_shell KQ R exP) (rot_shell KQ R exD) in
    forallb (fun ma => forallb (fun ja => forallb (fun jb =>
      block_law_check R 1 2 S S' ma 0 ja jb) (seq 0 6)) (seq 0 3)) (seq 0 2)) [R345; Rimp].
Example block_law_computed : block_law_all (overlap_block KQ) = true.
Proof. vm_compute. reflexivity. Qed.
Example kinetic_block_law_computed : block_law_all (kinetic_block KQ) = true.
Proof. vm_compute. reflexivity. Qed.
(* not vacuous: the kinetic block does change under the rotation *)
Example kinetic_block_not_invariant :
  Qeq_bool (nth 1 (nth 0 (nth 0 (nth 0 (kinetic_block KQ exP exD) []) []) []) (f0 KQ))
           (nth 1 (nth 0 (nth 0 (nth 0 (kinetic_block KQ (rot_shell KQ R345 exP) (rot_shell KQ R345 exD)) []) []) [])
                (f0 KQ)) = false.
Proof. vm_compute. reflexivity. Qed.
End Examples.

Lemma block_law_hypotheses_satisfiable_packed :
  exists (F : Type) (K : Fops F) (R : @mat3 F) (sa sb : shell F),
    is_field K /\ (forall x y, fexp K (fadd K x y) = fmul K (fexp K x) (fexp K y)) /\ (forall x, fapx K x = x)
    /\ fadd K (f1 K) (f1 K) <> f0 K /\ (forall c, dfnorm K c <> f0 K)
    /\ orthogonal K R /\ wf_coeffs sa /\ wf_coeffs sb /\ s_comps sa = [] /\ s_comps sb = []
    /\ (forall a b, In a (s_exps sa) -> In b (s_exps sb) -> fadd K a b <> f0 K).
Proof.
  exists Qc, (QcK true (Q2Qc 3) (fun _ => Q2Qc 1) (fun _ => Q2Qc 1) (fun x => x) (fun _ x => x)), R345, exP, exD.
  split; [apply QcK_field|]. destruct KQ_hyps as (A & B & C & D).
  split; [exact A|]. split; [exact B|]. split; [exact C|]. split; [exact D|].
  exact block_law_hypotheses_satisfiable.
Qed.

(* ------------------------------------------------------------------ *)
(* [RigidP.rotation_law_overlap] with the two extra hypotheses of the block theorem written in: what is PROVED. *)
Definition rotation_law_overlap_wf {F : Type} (K : Fops F) : Prop :=
  (forall x, fapx K x = x) -> (forall x y, fexp K (fadd K x y) = fmul K (fexp K x) (fexp K y)) ->
  (forall c, dfnorm K c <> f0 K) ->
  fadd K (f1 K) (f1 K) <> f0 K ->                                               (* extra 1 *)
  forall R, orthogonal K R -> forall la lb, exists Ma Mb : comp -> comp -> F,
    mono_rep K R la Ma /\ mono_rep K R lb Mb /\
    forall sa sb, s_l sa = la -> s_l sb = lb -> s_comps sa = [] -> s_comps sb = [] ->
      wf_coeffs sa -> wf_coeffs sb ->                                           (* extra 2 *)
      (forall a b, In a (s_exps sa) -> In b (s_exps sb) -> fadd K a b <> f0 K) ->
      forall ma mb ja jb, (ma < nseg sa)%nat -> (mb < nseg sb)%nat ->
        (ja < length (default_comps la))%nat -> (jb < length (default_comps lb))%nat ->
        let cmp l i := nth i (default_comps l) (0, 0, 0)%nat in
        fmul K (fmul K (dfnorm K (cmp la ja)) (dfnorm K (cmp lb jb)))
          (nth jb (nth mb (nth ja (nth ma (overlap_block K sa sb) []) []) []) (f0 K))
        = FNum.fsum K (map (fun ia => FNum.fsum K (map (fun ib =>
            fmul K (fmul K (fmul K (fmul K (Ma (cmp la ia) (cmp la ja)) (Mb (cmp lb ib) (cmp lb jb)))
                                   (dfnorm K (cmp la ia))) (dfnorm K (cmp lb ib)))
              (nth ib (nth mb (nth ia (nth ma
                 (overlap_block K (rot_shell K R sa) (rot_shell K R sb)) []) []) []) (f0 K)))
            (seq 0 (length (default_comps lb))))) (seq 0 (length (default_comps la)))).

Theorem rotation_law_overlap_wf_holds {F : Type} (K : Fops F) : is_field K -> rotation_law_overlap_wf K.
Proof.
  intros Kf Hapx Hexp Hdf H2 R HO la lb.
  exact (overlap_block_rotation_law K Kf Hexp Hapx H2 Hdf R HO la lb).
Qed.

(* the stated law of RigidP is the same sentence without "extra 1" and "extra 2" *)
Lemma rotation_law_overlap_implies_wf {F : Type} (K : Fops F) : rotation_law_overlap K -> rotation_law_overlap_wf K.
Proof.
  intros H Hapx Hexp Hdf _ R HO la lb. destruct (H Hapx Hexp Hdf R HO la lb) as (Ma & Mb & A & B & C).
  exists Ma, Mb. split; [exact A|]. split; [exact B|].
  intros sa sb Hla Hlb Hca Hcb _ _. exact (C sa sb Hla Hlb Hca Hcb).
Qed.

(* the same sentence for DiffOp.kinetic_block = KineticEnergyIntegral.construct_array_contraction *)
Theorem kinetic_block_rotation_law_holds {F : Type} (K : Fops F) : is_field K ->
  (forall x, fapx K x = x) -> (forall x y, fexp K (fadd K x y) = fmul K (fexp K x) (fexp K y)) ->
  (forall c, dfnorm K c <> f0 K) -> fadd K (f1 K) (f1 K) <> f0 K ->
  block_law K (kinetic_block K).
Proof. intros Kf Hapx Hexp Hdf H2. exact (kinetic_block_rotation_law K Kf Hexp Hapx H2 Hdf). Qed.

