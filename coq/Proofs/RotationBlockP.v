(* Proofs/RotationBlockP.v — general rotations for the OVERLAP BLOCK of the list-level model (property C12).

   Proofs/RotationP.v proves the covariance of the primitive specification, the representation matrix of R being read
   off the entries of the multiplied-out polynomial (R^T u)^a.  Here
     1. the entries are COLLECTED into a matrix indexed by the Cartesian components of a shell,
          rep_mat R i j = coefficient of u^i in (R^T u)^j        ([rep_mat_mono_rep]: it satisfies RigidP.mono_rep),
        using that (R^T u)^j is homogeneous of degree |j| and that [default_comps l] lists every exponent triple of
        degree l exactly once ([default_comps_NoDup]);
     2. the primitive law is lifted through the contraction and the normalisation constants
        (dfnorm c * norm_prim l c alpha does not depend on the component c) to the entries of
        [overlap_block] = Overlap.construct_array_contraction:

     overlap_block_rotation_law :  for every orthogonal R (proper or improper) and all l_a, l_b there are matrices
        Ma, Mb representing R on the monomials of degree l_a, l_b such that for all well-formed Cartesian shells of
        these angular momenta (any centres, exponents, contraction coefficients, any number of segments)
           dfnorm(ja) dfnorm(jb) S[ma, ja, mb, jb]
             = sum_ia sum_ib Ma[ia, ja] Mb[ib, jb] dfnorm(ia) dfnorm(ib) S'[ma, ia, mb, ib]
        S = overlap_block sa sb, S' = overlap_block (rot_shell R sa) (rot_shell R sb).

   This is the conclusion of [RigidP.rotation_law_overlap] word for word; the hypotheses are those of
   [rotation_law_overlap] plus the two of the block theorem [CoreBlockP.overlap_block_correct] it goes through:
   1 + 1 <> 0 and "one coefficient row per exponent" ([wf_coeffs]) for both shells. *)
From Coq Require Import List Arith Lia Field Bool.
From GB Require Import Base.Field Base.FNum Base.Tables Gauss.Moment1D Gauss.Poly3 Model.Shell Model.MomentInt
  Model.Overlap Proofs.CoreSumP Proofs.CoreBlockP Proofs.RigidP Proofs.RotationP.
Import ListNotations.

(* ---- default_comps l lists every exponent triple of degree l exactly once ---- *)
Lemma NoDup_app_disj {A} (l1 l2 : list A) :
  NoDup l1 -> NoDup l2 -> (forall x, In x l1 -> ~ In x l2) -> NoDup (l1 ++ l2).
Proof.
  induction l1 as [|a l1 IH]; intros H1 H2 HD; cbn [app]; [exact H2|].
  inversion H1 as [|? ? Ha H1']; subst. constructor.
  - intro Hin. apply in_app_or in Hin. destruct Hin as [Hin|Hin]; [now apply Ha|].
    apply (HD a); [now left|exact Hin].
  - apply IH; [exact H1'|exact H2|]. intros x Hx. apply HD. now right.
Qed.
Lemma NoDup_map_inj_in {A B} (f : A -> B) (l : list A) :
  (forall x y, In x l -> In y l -> f x = f y -> x = y) -> NoDup l -> NoDup (map f l).
Proof.
  induction l as [|a l IH]; intros Hinj Hnd; cbn [map]; [constructor|].
  inversion Hnd as [|? ? Ha Hnd']; subst. constructor.
  - intro Hin. apply in_map_iff in Hin. destruct Hin as [y [Hy Hyin]].
    apply Ha. rewrite <- (Hinj y a); [exact Hyin|now right|now left|exact Hy].
  - apply IH; [|exact Hnd']. intros x y Hx Hy. apply Hinj; now right.
Qed.
Lemma NoDup_flat_map_disj {A B} (f : A -> list B) (l : list A) :
  NoDup l -> (forall a, In a l -> NoDup (f a)) ->
  (forall a a' b, In a l -> In a' l -> In b (f a) -> In b (f a') -> a = a') ->
  NoDup (flat_map f l).
Proof.
  induction l as [|a l IH]; intros Hnd Hf Hd; cbn [flat_map]; [constructor|].
  inversion Hnd as [|? ? Ha Hnd']; subst. apply NoDup_app_disj.
  - apply Hf. now left.
  - apply IH; [exact Hnd'| |].
    + intros a' Ha'. apply Hf. now right.
    + intros a1 a2 b H1 H2. apply Hd; now right.
  - intros b Hb Hin. apply in_flat_map in Hin. destruct Hin as [a' [Ha' Hb']].
    apply Ha. rewrite (Hd a a' b); [exact Ha'|now left|now right|exact Hb|exact Hb'].
Qed.

Lemma default_comps_NoDup l : NoDup (default_comps l).
Proof.
  unfold default_comps. apply NoDup_flat_map_disj.
  - apply seq_NoDup.
  - intros xx Hxx. cbv zeta. apply NoDup_map_inj_in; [|apply seq_NoDup].
    intros y1 y2 H1 H2 E. apply in_seq in H1. apply in_seq in H2. apply in_seq in Hxx.
    injection E as E1 E2. lia.
  - intros x1 x2 b H1 H2 Hb1 Hb2. cbv zeta in Hb1, Hb2.
    apply in_map_iff in Hb1. destruct Hb1 as [y1 [E1 _]].
    apply in_map_iff in Hb2. destruct Hb2 as [y2 [E2 _]].
    apply in_seq in H1. apply in_seq in H2. rewrite <- E2 in E1. injection E1 as E _ _. lia.
Qed.
Lemma default_comps_all l x y z : x + y + z = l -> In (x, y, z) (default_comps l).
Proof.
  intros H. unfold default_comps. apply in_flat_map. exists (l - x). split.
  - apply in_seq. lia.
  - cbv zeta. apply in_map_iff. exists (l - x - y). split.
    + f_equal; [f_equal|]; lia.
    + apply in_seq. lia.
Qed.
Lemma default_comps_degree l c : In c (default_comps l) -> fst (fst c) + snd (fst c) + snd c = l.
Proof.
  unfold default_comps. intros H. apply in_flat_map in H. destruct H as [xx [Hxx H]].
  cbv zeta in H. apply in_map_iff in H. destruct H as [yy [E Hyy]]. subst c.
  apply in_seq in Hxx. apply in_seq in Hyy. cbn [fst snd]. lia.
Qed.

Section Collect.
Context {F : Type} (K : Fops F) (Kf : is_field K).
Add Field KFrb : Kf.
Local Open Scope F_scope.
Notation "0" := (f0 K) : F_scope.
Notation "1" := (f1 K) : F_scope.
Infix "+" := (fadd K) : F_scope.
Infix "*" := (fmul K) : F_scope.
Infix "-" := (fsub K) : F_scope.
Infix "/" := (fdiv K) : F_scope.
Notation fsum := (FNum.fsum K).

Definition mdeg (m : mon) : nat := fst (fst m) + snd (fst m) + snd m.
Definition homog (l : nat) (f : poly3 (F:=F)) : Prop := Forall (fun mc => mdeg (fst mc) = l) f.
Definition mon_eqb (m i : mon) : bool :=
  Nat.eqb (fst (fst m)) (fst (fst i)) && Nat.eqb (snd (fst m)) (snd (fst i)) && Nat.eqb (snd m) (snd i).
Lemma mon_eqb_spec m i : reflect (m = i) (mon_eqb m i).
Proof.
  destruct m as [[a b] c], i as [[a' b'] c']. unfold mon_eqb. cbn [fst snd].
  destruct (Nat.eqb_spec a a'); [|constructor; congruence].
  destruct (Nat.eqb_spec b b'); [|constructor; congruence].
  destruct (Nat.eqb_spec c c'); constructor; congruence.
Qed.
(* coefficient of the monomial i in f (all its occurrences collected) *)
Definition coef (i : mon) (f : poly3 (F:=F)) : F := Jsum K (fun m => if mon_eqb m i then 1 else 0) f.

Lemma homog_app l f g : homog l f -> homog l g -> homog l (f ++ g).
Proof. intros Hf Hg. apply Forall_app. now split. Qed.
Lemma homog_pscale3 l c f : homog l f -> homog l (pscale3 K c f).
Proof. unfold homog, pscale3. rewrite Forall_map. cbn [fst]. exact (fun H => H). Qed.
Lemma homog_mulv l i f : homog l f -> homog (S l) (mulv i f).
Proof.
  unfold homog, mulv. rewrite Forall_map. apply Forall_impl. intros [[[a b] c] k] H.
  unfold mdeg in *. destruct i; cbn [bump fst snd] in *; lia.
Qed.
Lemma homog_mullin l c f : homog l f -> homog (S l) (mullin K c f).
Proof. intro H. unfold mullin. repeat apply homog_app; apply homog_pscale3, homog_mulv, H. Qed.
Lemma homog_powop_mullin l c n f : homog l f -> homog (n + l)%nat (powop (mullin K c) n f).
Proof. intro H. induction n as [|n IH]; cbn [powop Nat.add]; [exact H|]. now apply homog_mullin. Qed.
Lemma homog_subst_mon R m : homog (mdeg m) (subst_mon K R m).
Proof.
  destruct m as [[a b] c]. unfold subst_mon, mdeg. cbn [expo fst snd].
  replace (a + b + c)%nat with (a + (b + (c + 0)))%nat by lia.
  repeat apply homog_powop_mullin. unfold homog, one3, mono3. constructor; [reflexivity|constructor].
Qed.

Lemma fsum_map_zero {A} (L : list A) : fsum (map (fun _ => 0) L) = 0.
Proof. induction L as [|a L IH]; cbn [map FNum.fsum fold_right]; [reflexivity|].
  fold (fsum (map (fun _ : A => 0) L)). rewrite IH. ring. Qed.
Lemma fsum_map_add {A} (g h : A -> F) (L : list A) :
  fsum (map (fun i => g i + h i) L) = fsum (map g L) + fsum (map h L).
Proof. induction L as [|a L IH]; cbn [map FNum.fsum fold_right]; [ring|].
  fold (fsum (map (fun i => g i + h i) L)) (fsum (map g L)) (fsum (map h L)). rewrite IH. ring. Qed.
Lemma fsum_map_ext {A} (g h : A -> F) (L : list A) :
  (forall i, In i L -> g i = h i) -> fsum (map g L) = fsum (map h L).
Proof. intro H. f_equal. now apply map_ext_in. Qed.

Lemma delta_sum_out (J : mon -> F) k m (L : list mon) : ~ In m L ->
  fsum (map (fun i => k * (if mon_eqb m i then 1 else 0) * J i) L) = 0.
Proof.
  intro H. transitivity (fsum (map (fun _ : mon => 0) L)); [|apply fsum_map_zero].
  apply fsum_map_ext. intros i Hi.
  destruct (mon_eqb_spec m i) as [->|_]; [contradiction|cbv iota; ring].
Qed.
Lemma delta_sum (J : mon -> F) k m (L : list mon) : NoDup L -> In m L ->
  fsum (map (fun i => k * (if mon_eqb m i then 1 else 0) * J i) L) = k * J m.
Proof.
  induction L as [|i0 L IH]; intros Hnd Hin; [destruct Hin|].
  inversion Hnd as [|? ? Hni Hnd']; subst. cbn [map FNum.fsum fold_right].
  fold (fsum (map (fun i => k * (if mon_eqb m i then 1 else 0) * J i) L)).
  destruct (mon_eqb_spec m i0) as [->|Hne].
  - rewrite delta_sum_out by exact Hni. cbv iota. ring.
  - destruct Hin as [E|Hin]; [congruence|]. rewrite IH by assumption. cbv iota. ring.
Qed.

(* a polynomial all of whose monomials lie in L (each once in L) is the sum of its collected terms *)
Lemma Jsum_collect (J : mon -> F) (L : list mon) f : NoDup L ->
  Forall (fun mc => In (fst mc) L) f ->
  Jsum K J f = fsum (map (fun i => coef i f * J i) L).
Proof.
  intros Hnd Hf. induction f as [|[m k] f IH].
  - cbn [Jsum]. unfold coef. cbn [Jsum]. symmetry.
    transitivity (fsum (map (fun _ : mon => 0) L)); [|apply fsum_map_zero].
    apply fsum_map_ext. intros; ring.
  - inversion Hf as [|? ? Hm Hf']; subst. cbn [fst] in Hm. cbn [Jsum fst snd]. rewrite (IH Hf').
    rewrite <- (delta_sum J k m L Hnd Hm), <- fsum_map_add. apply fsum_map_ext. intros i _.
    unfold coef. cbn [Jsum fst snd]. ring.
Qed.

Lemma Jsum_collect_homog (J : mon -> F) l f : homog l f ->
  Jsum K J f = fsum (map (fun i => coef i f * J i) (default_comps l)).
Proof.
  intro H. apply Jsum_collect; [apply default_comps_NoDup|].
  revert H. apply Forall_impl. intros [[[a b] c] k] E. unfold mdeg in E. cbn [fst snd] in *.
  now apply default_comps_all.
Qed.

(* ---- the representation matrix ---- *)
Definition rep_mat (R : @mat3 F) (i j : comp) : F := coef i (rot_expand K R j).

Lemma Jsum_rot_expand (J : mon -> F) R l j : In j (default_comps l) ->
  Jsum K J (rot_expand K R j) = fsum (map (fun i => rep_mat R i j * J i) (default_comps l)).
Proof.
  intro Hj. apply Jsum_collect_homog. unfold rot_expand.
  replace l with (mdeg j) by (apply default_comps_degree, Hj). apply homog_subst_mon.
Qed.

Theorem rep_mat_mono_rep R l : mono_rep K R l (rep_mat R).
Proof.
  intros j Hj u. rewrite <- (rot_expand_eval K Kf R j u). now apply Jsum_rot_expand.
Qed.

End Collect.
