(* Proofs/ParsersMergeP.v — the Gaussian94 MERGE RULE of parse_gbs (parsers.py:150-164) as a theorem.

   Proofs/ParsersP.v proves the round trip  parse (print ast layout) = expected ast  only for files in
   which the merge rule never fires between two shells that the AST lists separately ([no_fuse]).  Here the
   rule itself is specified, independently of the parser's loop, by [fuse]: the expected shells of one
   element are read left to right with one OPEN shell (the last one of the result so far); a shell whose
   angular momentum and exponent list agree with the open shell adds its coefficient columns to it,
   any other shell closes the open shell and becomes the open shell.  The round trip is then proved for
   EVERY well-formed AST:  parse (print ast layout) = per element [fuse (expected shells)]  (elements in
   file order), and the [no_fuse] theorem is the corollary  fuse = id.

   The parser's loop ([push], Model/Parsers.v) is a left fold that looks at the last element of the
   accumulated list ([rev acc]); [fuse_from] is a right recursion that carries the open shell.  For a
   combined block (SP ...) the units of the block are pushed one after the other, so "the last appended
   shell" is the shell that holds the PREVIOUS letter of the same block ([fuse_snoc], [only_first_fuses]);
   the seeded change C18-muta (stale [prev], computed once per file shell) is modelled by
   [push_block_stale] and shown not to satisfy these lemmas. *)
From Coq Require Import List String Ascii Bool Arith Lia.
From GB Require Import Model.Parsers Proofs.ParsersP.
Import ListNotations.
Open Scope string_scope.
Open Scope list_scope.
Open Scope nat_scope.

(* ------------------------------------------------------------------ projections of a shell entry *)
Definition sh_l (s : shell) : nat := fst (fst s).
Definition sh_exps (s : shell) : list string := snd (fst s).
Definition sh_cols (s : shell) : list (list string) := snd s.

(* ================================================================== the specification *)
Section Spec.
  (* the comparison of two exponent literals (np.allclose after float(); literal equality when the model runs) *)
  Variable close : string -> string -> bool.

  (* same angular momentum, same number of exponents, exponents pairwise close *)
  Definition same_key (s1 s2 : shell) : bool :=
    (sh_l s1 =? sh_l s2) && (List.length (sh_exps s1) =? List.length (sh_exps s2)) &&
    forallb (fun p => close (fst p) (snd p)) (combine (sh_exps s1) (sh_exps s2)).

  (* [cur] is the open shell: it may still receive columns.  (The tuple written back by the code carries the
     exponents of the LATER shell, parsers.py:158-162; with literal equality that is no difference.) *)
  Fixpoint fuse_from (cur : shell) (rest : list shell) : list shell :=
    match rest with
    | [] => [cur]
    | s :: r => if same_key cur s
                then fuse_from (sh_l s, sh_exps s, sh_cols cur ++ sh_cols s) r
                else cur :: fuse_from s r
    end.
  Definition fuse (l : list shell) : list shell :=
    match l with [] => [] | s :: r => fuse_from s r end.

  (* what the import must return for a Gaussian94 file: per element, in file order, the fused shells *)
  Definition expected_fused (a : ast) : dict :=
    map (fun e => (fst e, fuse (expected_shells (snd e)))) a.
End Spec.

(* literal version: the key (l, exponent literals) is compared with Leibniz equality *)
Definition key_eq_dec (k1 k2 : nat * list string) : {k1 = k2} + {k1 <> k2}.
Proof. decide equality; [apply (list_eq_dec string_dec) | apply Nat.eq_dec]. Defined.
Fixpoint fuse_lit_from (cur : shell) (rest : list shell) : list shell :=
  match rest with
  | [] => [cur]
  | s :: r => if key_eq_dec (fst cur) (fst s)
              then fuse_lit_from (fst cur, snd cur ++ snd s) r
              else cur :: fuse_lit_from s r
  end.
Definition fuse_lit (l : list shell) : list shell :=
  match l with [] => [] | s :: r => fuse_lit_from s r end.

(* ================================================================== spec = the parser's fold *)
Section FoldSpec.
  Variable close : string -> string -> bool.

  Lemma forall2b_combine e1 : forall e2,
    forall2b close e1 e2
    = (List.length e1 =? List.length e2) && forallb (fun p => close (fst p) (snd p)) (combine e1 e2).
  Proof.
    induction e1 as [|a r IH]; intros [|b s]; simpl; auto.
    rewrite IH. destruct (List.length r =? List.length s); simpl; auto.
    rewrite andb_false_r. reflexivity.
  Qed.
  Lemma same_key_fuses s1 s2 : same_key close s1 s2 = fuses close s1 s2.
  Proof.
    destruct s1 as [[l1 e1] c1], s2 as [[l2 e2] c2]. unfold same_key, fuses, sh_l, sh_exps. simpl.
    rewrite forall2b_combine. destruct (l1 =? l2); simpl; auto.
    destruct (List.length e1 =? List.length e2); reflexivity.
  Qed.

  (* one step of the parser's loop when the accumulated list is not empty *)
  Lemma push_last acc cur s :
    push close (acc ++ [cur]) s
    = if same_key close cur s
      then acc ++ [(sh_l s, sh_exps s, sh_cols cur ++ sh_cols s)]
      else (acc ++ [cur]) ++ [s].
  Proof.
    unfold push. rewrite rev_app_distr. simpl. rewrite same_key_fuses.
    destruct (fuses close cur s); [rewrite rev_involutive|]; reflexivity.
  Qed.
  Lemma push_nil s : push close [] s = [s].
  Proof. reflexivity. Qed.

  (* the left fold with a look at the last element = the right recursion with an open shell *)
  Lemma push_fold_from S : forall acc cur,
    fold_left (push close) S (acc ++ [cur]) = acc ++ fuse_from close cur S.
  Proof.
    induction S as [|s r IH]; intros acc cur; simpl; auto.
    rewrite push_last. destruct (same_key close cur s).
    - apply IH.
    - rewrite IH, <- app_assoc. reflexivity.
  Qed.
  Lemma push_fold_fuse S : fold_left (push close) S [] = fuse close S.
  Proof.
    destruct S as [|s r]; simpl; auto. rewrite push_nil. apply (push_fold_from r [] s).
  Qed.
  Lemma push_fold_fuse_acc S1 S2 :
    fold_left (push close) S2 (fuse close S1) = fuse close (S1 ++ S2).
  Proof. rewrite <- !push_fold_fuse, fold_left_app. reflexivity. Qed.

  (* ---- (3) the comparison partner of every shell — also of every letter of a combined block — is the last
     shell of the result for the shells BEFORE it, i.e. it is updated between the letters of one block *)
  Lemma fuse_snoc S u :
    fuse close (S ++ [u])
    = match rev (fuse close S) with
      | last :: init =>
          if same_key close last u
          then rev init ++ [(sh_l u, sh_exps u, sh_cols last ++ sh_cols u)]
          else fuse close S ++ [u]
      | [] => [u]
      end.
  Proof.
    rewrite <- push_fold_fuse_acc. simpl. unfold push.
    destruct (rev (fuse close S)) as [|last init] eqn:E.
    - destruct (fuse close S) as [|x X]; [reflexivity|].
      apply (f_equal (@List.length shell)) in E. rewrite rev_length in E. discriminate.
    - rewrite same_key_fuses. reflexivity.
  Qed.

  (* adjacent angular momenta differ (S P, S P D, P S ...; the usual combined blocks) *)
  Fixpoint chain_distinct (l0 : nat) (us : list shell) : bool :=
    match us with
    | [] => true
    | u :: r => negb (l0 =? sh_l u) && chain_distinct (sh_l u) r
    end.

  Lemma same_key_l s1 s2 : same_key close s1 s2 = true -> sh_l s1 = sh_l s2.
  Proof.
    unfold same_key. intros H. apply andb_true_iff in H as [H _]. apply andb_true_iff in H as [H _].
    apply Nat.eqb_eq; auto.
  Qed.
  Lemma push_chain us : forall X v,
    chain_distinct (sh_l v) us = true -> fold_left (push close) us (X ++ [v]) = (X ++ [v]) ++ us.
  Proof.
    induction us as [|u r IH]; intros X v H; simpl.
    - rewrite app_nil_r. reflexivity.
    - simpl in H. apply andb_true_iff in H as [H1 H2]. apply negb_true_iff, Nat.eqb_neq in H1.
      rewrite push_last. destruct (same_key close v u) eqn:E.
      + apply same_key_l in E. contradiction.
      + rewrite (IH (X ++ [v]) u H2), <- !app_assoc. reflexivity.
  Qed.
  (* after one push the last shell has the angular momentum of the pushed unit *)
  Lemma push_shape acc u : exists X v, push close acc u = X ++ [v] /\ sh_l v = sh_l u.
  Proof.
    destruct acc as [|cur acc' _] using rev_ind.
    - exists [], u. auto.
    - rewrite push_last. destruct (same_key close cur u).
      + eexists acc', _. split; reflexivity.
      + eexists (acc' ++ [cur]), u. auto.
  Qed.
  (* within a combined block with adjacent letters distinct only the FIRST letter can continue the shell in
     front of the block; every later letter is compared with the shell of the letter before it — which has
     another angular momentum — and is appended *)
  Lemma only_first_fuses acc u rest :
    chain_distinct (sh_l u) rest = true ->
    fold_left (push close) (u :: rest) acc = push close acc u ++ rest.
  Proof.
    intros H. simpl. destruct (push_shape acc u) as (X & v & -> & Hv).
    apply push_chain. rewrite Hv. exact H.
  Qed.
  Lemma fuse_only_first S u rest :
    chain_distinct (sh_l u) rest = true ->
    fuse close (S ++ u :: rest) = fuse close (S ++ [u]) ++ rest.
  Proof.
    intros H. rewrite <- !push_fold_fuse_acc. rewrite only_first_fuses by auto. reflexivity.
  Qed.

  (* ---- the seeded change C18-muta: [prev] and the exponent comparison are evaluated ONCE per file shell
     (= per block as printed) and reused for all its letters *)
  Definition push_block_stale (acc : list shell) (us : list shell) : list shell :=
    match rev acc with
    | [] => acc ++ us
    | prev :: _ =>
        fold_left (fun out u =>
                     if fuses close prev u
                     then removelast out ++ [(sh_l u, sh_exps u, sh_cols prev ++ sh_cols u)]
                     else out ++ [u]) us acc
    end.
  (* for a block of ONE unit the two rules agree (why every single-letter file passes) *)
  Lemma stale_single acc u : push_block_stale acc [u] = push close acc u.
  Proof.
    unfold push_block_stale, push. destruct acc as [|cur acc' _] using rev_ind; auto.
    rewrite rev_app_distr. simpl. destruct (fuses close cur u); auto.
    rewrite removelast_last, rev_involutive. reflexivity.
  Qed.
End FoldSpec.

(* ================================================================== no_fuse : fuse = id *)
Section NoFuse.
  Variable close : string -> string -> bool.

  Lemma fuse_from_id S : forall cur,
    no_fuse close (cur :: S) = true -> fuse_from close cur S = cur :: S.
  Proof.
    induction S as [|s r IH]; intros cur H; auto.
    cbn [no_fuse] in H. apply andb_true_iff in H as [H1 H2]. apply negb_true_iff in H1.
    cbn [fuse_from]. rewrite same_key_fuses, H1. f_equal. apply IH. exact H2.
  Qed.
  Lemma fuse_id S : no_fuse close S = true -> fuse close S = S.
  Proof. destruct S as [|s r]; auto. apply fuse_from_id. Qed.
  Lemma expected_fused_id (a : ast) :
    forallb (fun e => no_fuse close (expected_shells (snd e))) a = true -> expected_fused close a = expected a.
  Proof.
    intros H. unfold expected_fused, expected. apply map_ext_in. intros e He.
    rewrite forallb_forall in H. rewrite fuse_id; auto.
  Qed.
End NoFuse.

(* ================================================================== units of the printed blocks *)
Section Units.
  Variable close : string -> string -> bool.
  Hypothesis close_refl : forall s, close s s = true.

  Lemma same_key_cols l e c1 c2 s : same_key close (l, e, c1) s = same_key close (l, e, c2) s.
  Proof. reflexivity. Qed.
  Lemma same_key_cols_r l e c1 c2 s : same_key close s (l, e, c1) = same_key close s (l, e, c2).
  Proof. reflexivity. Qed.

  (* a one-letter block with columns c0 .. cM written as M+1 one-column blocks: the parser's loop over them
     = ONE step of the loop with the whole shell *)
  Lemma push_one_letter l e c0 cs acc :
    fold_left (push close) (map (fun c => ((l, e, [c]) : shell)) (c0 :: cs)) acc
    = push close acc (l, e, c0 :: cs).
  Proof.
    simpl. destruct acc as [|cur acc' _] using rev_ind.
    - rewrite !push_nil. apply (push_columns close close_refl l e cs [] [c0]).
    - rewrite !push_last. rewrite (same_key_cols_r l e [c0] (c0 :: cs)).
      destruct (same_key close cur (l, e, c0 :: cs)).
      + unfold sh_l, sh_exps, sh_cols. simpl.
        rewrite (push_columns close close_refl), <- app_assoc. reflexivity.
      + apply (push_columns close close_refl l e cs (acc' ++ [cur]) [c0]).
  Qed.

  Lemma push_block_units b acc : wfb b ->
    fold_left (push close) (U b) acc = fold_left (push close) (expected_block b) acc.
  Proof.
    intros W. unfold U, expected_block, gbs_subblocks.
    pose proof (wfb_ne b W) as Hne. pose proof (wfb_m b W) as Hm.
    destruct (b_ls b) as [|l [|l2 r]] eqn:E; simpl in Hne; try discriminate.
    - rewrite map_map. unfold units. simpl.
      rewrite (concat_map_single (fun c : list string => ((l, b_exps b, [c]) : shell))).
      destruct (b_cols b) as [|c0 cs]; simpl in Hm; [lia|].
      rewrite push_one_letter. reflexivity.
    - simpl map. cbn [List.concat]. rewrite app_nil_r. unfold units. rewrite E. reflexivity.
  Qed.

  Lemma push_blocks_units bs : forall acc, Forall wfb bs ->
    fold_left (push close) (List.concat (map U bs)) acc = fold_left (push close) (expected_shells bs) acc.
  Proof.
    induction bs as [|b r IH]; intros acc HW; simpl; auto.
    inversion HW as [|? ? Wb Wr]; subst. unfold expected_shells. simpl.
    rewrite !fold_left_app, push_block_units by auto. apply IH. exact Wr.
  Qed.

  (* the units of one element, pushed on the empty list = the fused expected shells *)
  Lemma push_blocks_fused bs : Forall wfb bs ->
    fold_left (push close) (List.concat (map U bs)) [] = fuse close (expected_shells bs).
  Proof. intros HW. rewrite push_blocks_units by auto. apply push_fold_fuse. Qed.
End Units.

(* ================================================================== the round trip with the merge rule *)
Section GBSFused.
  Variable close : string -> string -> bool.
  Hypothesis close_refl : forall s, close s s = true.
  Variable L : layout.
  Hypothesis HL : layout_ok_gbs L.

  (* as ParsersP.gbs_elem, without [no_fuse] *)
  Lemma gbs_elem_fused i e rest d :
    wfe e -> ~ In (fst e) (keys d) -> etail_ok rest ->
    parse_gbs_from close d (print_elem_gbs L i e ++ rest)
      = parse_gbs_from close (d ++ [(fst e, fuse close (expected_shells (snd e)))]) rest
    /\ etail_ok (print_elem_gbs L i e ++ rest).
  Proof.
    intros (Hs & Hne & HW) Hnin [Ht1 Ht2]. unfold print_elem_gbs.
    destruct (gbs_header_line (lay_pad L [i]) (fst e) (lay_tok2 L [i]) Hs (tok2_ok L HL _)) as (Hb & Hh & _).
    assert (Forall (fun l => header_gbs l = None) (mapi_from 0 (print_block_gbs L i) (snd e))) as Hnh.
    { apply (gbs_body_Forall L HL); auto.
      - intros s Hf. apply filler_gbs_facts in Hf. tauto.
      - intros q lo ls p2 p3 H1 H2.
        destruct (gbs_sheader_line q lo ls (lay_tok2 L p2) (lay_tok3 L p3) H1 H2 (tok2_ok L HL _) (tok3_ok L HL _)); tauto.
      - intros. apply row_header_gbs; auto. }
    pose proof (gbs_body_nonblank L HL i (snd e) 0 Hne HW) as Hex.
    unfold parse_gbs_from, etail_ok.
    rewrite (segs_block header_gbs _ _ _ _ rest (fill_gbs_hdr L HL [i]) Hb Hh Hnh Hex).
    cbn [fst snd]. split; [|split; [apply (fill_gbs_sh L HL) | apply (fill_gbs_row L HL)]].
    cbn [run_chunks].
    set (final := match snd (segs header_gbs false rest) with [] => true | _ :: _ => false end).
    destruct (chunk_units_fillers final _ Ht1 Ht2) as [Ec Tc].
    destruct (gbs_blocks L HL final i (snd e) 0 _ HW Tc) as [Eb _].
    rewrite Eb, Ec. cbn [option_map]. rewrite app_nil_r.
    rewrite dict_get_absent, dict_set_absent by auto.
    rewrite (push_blocks_fused close close_refl) by auto. reflexivity.
  Qed.

  Lemma gbs_elems_fused (a : ast) : forall i rest d,
    Forall wfe a -> NoDup (keys d ++ map fst a) -> etail_ok rest ->
    parse_gbs_from close d (mapi_from i (print_elem_gbs L) a ++ rest)
      = parse_gbs_from close (d ++ expected_fused close a) rest
    /\ etail_ok (mapi_from i (print_elem_gbs L) a ++ rest).
  Proof.
    induction a as [|e r IH]; intros i rest d HW Hnd Ht; simpl.
    - rewrite app_nil_r. auto.
    - inversion HW as [|? ? We Wr]; subst. rewrite <- app_assoc. simpl in Hnd.
      assert (~ In (fst e) (keys d)) as Hnin.
      { apply NoDup_remove_2 in Hnd. intros Hin. apply Hnd. apply in_or_app. left. exact Hin. }
      assert (NoDup (keys (d ++ [(fst e, fuse close (expected_shells (snd e)))]) ++ map fst r)) as Hnd'.
      { unfold keys in *. rewrite map_app. simpl. rewrite <- app_assoc. exact Hnd. }
      destruct (IH (S i) rest _ Wr Hnd' Ht) as [E1 T1].
      destruct (gbs_elem_fused i e _ d We Hnin T1) as [E2 T2].
      rewrite E2, E1, <- app_assoc. auto.
  Qed.

  (* (2) EVERY well-formed AST, every admissible layout: per element, in file order, the fused shells *)
  Theorem roundtrip_gbs_fused (a : ast) :
    wf_ast a = true -> parse_gbs_model close (print_gbs a L) = Some (expected_fused close a).
  Proof.
    intros Hwf. destruct (wf_ast_wfe a Hwf) as [HW Hnd].
    unfold parse_gbs_model. rewrite (gbs_in_fragment L HL) by auto.
    unfold print_gbs. destruct HL as (Hpre & _ & _).
    assert (Forall (fun l => header_gbs l = None) (lay_pre L)) as Hh.
    { eapply fillers_gbs_Forall; eauto. intros s Hs. apply filler_gbs_facts in Hs. tauto. }
    unfold parse_gbs_from. rewrite segs_nohdr_false by auto. cbn [snd].
    destruct (gbs_post close L HL (expected_fused close a)) as [Ep Tp].
    destruct (gbs_elems_fused a 0 (lay_post L) [] HW Hnd Tp) as [E _]. unfold parse_gbs_from in E, Ep.
    rewrite E. simpl app. exact Ep.
  Qed.

  (* the theorem of ParsersP.v is the special case in which nothing fuses *)
  Corollary roundtrip_gbs_nofuse (a : ast) :
    wf_ast_gbs close a = true -> parse_gbs_model close (print_gbs a L) = Some (expected a).
  Proof.
    intros Hwf. unfold wf_ast_gbs in Hwf. apply andb_true_iff in Hwf as [Hwf Hnf].
    rewrite roundtrip_gbs_fused by auto. rewrite expected_fused_id by auto. reflexivity.
  Qed.
End GBSFused.

(* ================================================================== literal keys *)
Lemma forallb_combine_eqb e1 : forall e2, List.length e1 = List.length e2 ->
  forallb (fun p => close_lit (fst p) (snd p)) (combine e1 e2) = true -> e1 = e2.
Proof.
  induction e1 as [|a r IH]; intros [|b s] Hl H; simpl in *; try discriminate; auto.
  apply andb_true_iff in H as [H1 H2]. apply String.eqb_eq in H1. f_equal; auto.
Qed.
Lemma same_key_lit s1 s2 : same_key close_lit s1 s2 = true <-> fst s1 = fst s2.
Proof.
  destruct s1 as [[l1 e1] c1], s2 as [[l2 e2] c2]. unfold same_key, sh_l, sh_exps. simpl. split.
  - intros H. apply andb_true_iff in H as [H H3]. apply andb_true_iff in H as [H1 H2].
    apply Nat.eqb_eq in H1, H2. f_equal; auto. apply forallb_combine_eqb; auto.
  - intros H. inversion H; subst. rewrite !Nat.eqb_refl. simpl.
    induction e2; simpl; auto. unfold close_lit at 1. rewrite String.eqb_refl. auto.
Qed.
Lemma fuse_from_lit S : forall cur, fuse_from close_lit cur S = fuse_lit_from cur S.
Proof.
  induction S as [|s r IH]; intros cur; simpl; auto.
  destruct (key_eq_dec (fst cur) (fst s)) as [E|E].
  - rewrite (proj2 (same_key_lit cur s) E). rewrite <- IH. f_equal.
    unfold sh_l, sh_exps, sh_cols. rewrite E. destruct s as [[l e] c]. reflexivity.
  - destruct (same_key close_lit cur s) eqn:K; [apply same_key_lit in K; contradiction|].
    rewrite IH. reflexivity.
Qed.
Lemma fuse_lit_spec S : fuse close_lit S = fuse_lit S.
Proof. destruct S; simpl; auto. apply fuse_from_lit. Qed.

Definition expected_fused_lit (a : ast) : dict :=
  map (fun e => (fst e, fuse_lit (expected_shells (snd e)))) a.
Lemma expected_fused_lit_spec a : expected_fused close_lit a = expected_fused_lit a.
Proof. unfold expected_fused, expected_fused_lit. apply map_ext. intros e. rewrite fuse_lit_spec. reflexivity. Qed.

Theorem roundtrip_gbs_fused_lit (L : layout) (HL : layout_ok_gbs L) (a : ast) :
  wf_ast a = true -> parse_gbs_model close_lit (print_gbs a L) = Some (expected_fused_lit a).
Proof.
  intros H. rewrite (roundtrip_gbs_fused close_lit close_lit_refl L HL a H), expected_fused_lit_spec. reflexivity.
Qed.

(* ---- what the literal specification keeps and what it guarantees *)
(* every written (l, exponents, column) triple, in file order: nothing lost, nothing duplicated *)
Definition flat (S : list shell) : list (nat * list string * list string) :=
  List.concat (map (fun s => map (fun c => (fst s, c)) (snd s)) S).
Lemma flat_cons x T : flat (x :: T) = map (fun c => (fst x, c)) (snd x) ++ flat T.
Proof. reflexivity. Qed.
Lemma fuse_lit_from_flat S : forall cur, flat (fuse_lit_from cur S) = flat (cur :: S).
Proof.
  induction S as [|s r IH]; intros cur; cbn [fuse_lit_from]; auto.
  destruct (key_eq_dec (fst cur) (fst s)) as [E|E].
  - rewrite IH, !flat_cons. cbn [fst snd]. rewrite map_app, <- app_assoc, E. reflexivity.
  - rewrite flat_cons, IH. reflexivity.
Qed.
Theorem fuse_lit_flat S : flat (fuse_lit S) = flat S.
Proof. destruct S; auto. apply fuse_lit_from_flat. Qed.

(* the result is fused as far as possible: no two neighbours with the same (l, exponents) *)
Lemma fuse_lit_from_hd S : forall cur, exists c T, fuse_lit_from cur S = (fst cur, c) :: T.
Proof.
  induction S as [|s r IH]; intros cur; simpl.
  - exists (snd cur), []. destruct cur; reflexivity.
  - destruct (key_eq_dec (fst cur) (fst s)).
    + destruct (IH (fst cur, snd cur ++ snd s)) as (c & T & ->). eexists _, _. reflexivity.
    + exists (snd cur), (fuse_lit_from s r). destruct cur; reflexivity.
Qed.
Fixpoint keys_differ (S : list shell) : Prop :=
  match S with
  | s1 :: ((s2 :: _) as r) => fst s1 <> fst s2 /\ keys_differ r
  | _ => True
  end.
Lemma fuse_lit_from_maximal S : forall cur, keys_differ (fuse_lit_from cur S).
Proof.
  induction S as [|s r IH]; intros cur; simpl; auto.
  destruct (key_eq_dec (fst cur) (fst s)) as [E|E]; [apply IH|].
  specialize (IH s). destruct (fuse_lit_from_hd r s) as (c & T & Hd). rewrite Hd in *.
  simpl. split; auto.
Qed.
Theorem fuse_lit_maximal S : keys_differ (fuse_lit S).
Proof. destruct S; simpl; auto. apply fuse_lit_from_maximal. Qed.

(* ================================================================== combined blocks: the general two-block statements *)
Section TwoBlocks.
  Variable close : string -> string -> bool.
  Hypothesis close_refl : forall s, close s s = true.

  Lemma same_key_refl l e c1 c2 : same_key close (l, e, c1) (l, e, c2) = true.
  Proof.
    unfold same_key, sh_l, sh_exps. simpl. rewrite !Nat.eqb_refl. simpl.
    induction e; simpl; auto. rewrite close_refl. auto.
  Qed.
  Lemma same_key_difl l1 l2 e1 e2 c1 c2 : l1 <> l2 -> same_key close (l1, e1, c1) (l2, e2, c2) = false.
  Proof. intros H. unfold same_key, sh_l. simpl. apply Nat.eqb_neq in H. rewrite H. reflexivity. Qed.

  (* "P then SP", same exponents: P, S, P — the P column of the SP block is compared with the S shell appended
     a moment ago, not with the P shell in front of the block *)
  Lemma fuse_P_SP l0 l e cs c0 c1 : l0 <> l ->
    fuse close [(l, e, cs); (l0, e, [c0]); (l, e, [c1])] = [(l, e, cs); (l0, e, [c0]); (l, e, [c1])].
  Proof.
    intros H. cbn [fuse fuse_from]. rewrite (same_key_difl l l0) by auto.
    rewrite (same_key_difl l0 l) by auto. reflexivity.
  Qed.
  (* "S then SP", same exponents: S with one more column, P *)
  Lemma fuse_S_SP l l1 e cs c0 c1 : l <> l1 ->
    fuse close [(l, e, cs); (l, e, [c0]); (l1, e, [c1])] = [(l, e, cs ++ [c0]); (l1, e, [c1])].
  Proof.
    intros H. cbn [fuse fuse_from]. rewrite same_key_refl. unfold sh_l, sh_exps, sh_cols. simpl.
    rewrite (same_key_difl l l1) by auto. reflexivity.
  Qed.
  (* "SP then SP", same exponents: four shells *)
  Lemma fuse_SP_SP l0 l1 e a0 a1 c0 c1 : l0 <> l1 ->
    fuse close [(l0, e, [a0]); (l1, e, [a1]); (l0, e, [c0]); (l1, e, [c1])]
    = [(l0, e, [a0]); (l1, e, [a1]); (l0, e, [c0]); (l1, e, [c1])].
  Proof.
    intros H. cbn [fuse fuse_from]. rewrite (same_key_difl l0 l1) by auto.
    rewrite (same_key_difl l1 l0) by auto. rewrite (same_key_difl l0 l1) by auto. reflexivity.
  Qed.

  (* the same at file level: any literals, any number of primitives, any admissible layout *)
  Variable L : layout.
  Hypothesis HL : layout_ok_gbs L.
  Theorem gbs_P_then_SP sym l0 l e cs c0 c1 :
    let a := [(sym, [ {| b_ls := [l]; b_exps := e; b_cols := cs |};
                      {| b_ls := [l0; l]; b_exps := e; b_cols := [c0; c1] |} ])] in
    wf_ast a = true -> l0 <> l ->
    parse_gbs_model close (print_gbs a L) = Some [(sym, [(l, e, cs); (l0, e, [c0]); (l, e, [c1])])].
  Proof.
    intros a Hwf Hl. rewrite (roundtrip_gbs_fused close close_refl L HL a Hwf).
    unfold expected_fused, a, expected_shells, expected_block. cbn [map fst snd b_ls b_exps b_cols List.concat combine app].
    rewrite fuse_P_SP by auto. reflexivity.
  Qed.
  Theorem gbs_S_then_SP sym l l1 e cs c0 c1 :
    let a := [(sym, [ {| b_ls := [l]; b_exps := e; b_cols := cs |};
                      {| b_ls := [l; l1]; b_exps := e; b_cols := [c0; c1] |} ])] in
    wf_ast a = true -> l <> l1 ->
    parse_gbs_model close (print_gbs a L) = Some [(sym, [(l, e, cs ++ [c0]); (l1, e, [c1])])].
  Proof.
    intros a Hwf Hl. rewrite (roundtrip_gbs_fused close close_refl L HL a Hwf).
    unfold expected_fused, a, expected_shells, expected_block. cbn [map fst snd b_ls b_exps b_cols List.concat combine app].
    rewrite fuse_S_SP by auto. reflexivity.
  Qed.
End TwoBlocks.

(* ================================================================== concrete files (vm_compute) *)
Definition e3 : list string := ["0.1E+02"; "2.5"; "0.3"].
Definition cP : list string := ["0.11"; "0.12"; "0.13"].
Definition cP' : list string := ["0.91"; "0.92"; "0.93"].
Definition cS : list string := ["-0.21"; "0.22"; "0.23"].
Definition cS' : list string := ["0.81"; "0.82"; "-0.83"].
Definition sp1 : list string := ["0.31"; "0.32"; "0.33"].
Definition sp2 : list string := ["0.41"; "0.42"; "0.43"].
Definition sp3 : list string := ["0.51"; "0.52"; "0.53"].
Definition sp4 : list string := ["0.61"; "0.62"; "0.63"].
Definition blk ls cols : block := {| b_ls := ls; b_exps := e3; b_cols := cols |}.

(* P then SP (the input of seeded/C18-muta/notes.md) *)
Definition ast_P_SP : ast := [("Na", [blk [1] [cP]; blk [0; 1] [sp1; sp2]])].
(* SP then SP *)
Definition ast_SP_SP : ast := [("Na", [blk [0; 1] [sp1; sp2]; blk [0; 1] [sp3; sp4]])].
(* S then SP then P *)
Definition ast_S_SP_P : ast := [("Na", [blk [0] [cS]; blk [0; 1] [sp1; sp2]; blk [1] [cP]])].
(* two elements; generalized S (2 columns) then S then SP then P then P, and a D then D with other exponents *)
Definition ast_mixed : ast :=
  [("Na", [blk [0] [cS; cS']; blk [0] [sp3]; blk [0; 1] [sp1; sp2]; blk [1] [cP]; blk [1] [cP']]);
   ("H", [blk [2] [cP]; {| b_ls := [2]; b_exps := ["1.5"; "2.5"; "0.3"]; b_cols := [cP'] |}; blk [2] [cS]])].

Lemma ex_merge_wf :
  wf_ast ast_P_SP = true /\ wf_ast ast_SP_SP = true /\ wf_ast ast_S_SP_P = true /\ wf_ast ast_mixed = true /\
  wf_ast_gbs close_lit ast_S_SP_P = false /\ wf_ast_gbs close_lit ast_mixed = false.
Proof. repeat split; vm_compute; reflexivity. Qed.

Lemma ex_P_SP :
  parse_gbs_model close_lit (print_gbs ast_P_SP ex_layout_gbs)
  = Some [("Na", [(1, e3, [cP]); (0, e3, [sp1]); (1, e3, [sp2])])].
Proof. vm_compute. reflexivity. Qed.
Lemma ex_SP_SP :
  parse_gbs_model close_lit (print_gbs ast_SP_SP ex_layout_bare)
  = Some [("Na", [(0, e3, [sp1]); (1, e3, [sp2]); (0, e3, [sp3]); (1, e3, [sp4])])].
Proof. vm_compute. reflexivity. Qed.
Lemma ex_S_SP_P :
  parse_gbs_model close_lit (print_gbs ast_S_SP_P ex_layout_gbs)
  = Some [("Na", [(0, e3, [cS; sp1]); (1, e3, [sp2; cP])])].
Proof. vm_compute. reflexivity. Qed.
Lemma ex_mixed :
  parse_gbs_model close_lit (print_gbs ast_mixed ex_layout_gbs)
  = Some [("Na", [(0, e3, [cS; cS'; sp3; sp1]); (1, e3, [sp2; cP; cP'])]);
          ("H", [(2, e3, [cP]); (2, ["1.5"; "2.5"; "0.3"], [cP']); (2, e3, [cS])])]
  /\ expected_fused_lit ast_mixed
     = [("Na", [(0, e3, [cS; cS'; sp3; sp1]); (1, e3, [sp2; cP; cP'])]);
        ("H", [(2, e3, [cP]); (2, ["1.5"; "2.5"; "0.3"], [cP']); (2, e3, [cS])])].
Proof. split; vm_compute; reflexivity. Qed.

(* the stale-[prev] rule of seeded/C18-muta on "P then SP": the S shell is lost and the P column duplicated;
   it violates [only_first_fuses] (and hence [fuse_snoc] / the round trip) on an input that satisfies the
   hypothesis of that lemma *)
Lemma stale_rule_differs :
  let acc := [(1, e3, [cP])] in
  let us := [(0, e3, [sp1]); (1, e3, [sp2])] in
  chain_distinct 0 [(1, e3, [sp2])] = true /\
  push_block_stale close_lit acc us = [(1, e3, [cP]); (1, e3, [cP; sp2])] /\
  fold_left (push close_lit) us acc = [(1, e3, [cP]); (0, e3, [sp1]); (1, e3, [sp2])] /\
  push_block_stale close_lit acc us <> push close_lit acc (0, e3, [sp1]) ++ [(1, e3, [sp2])] /\
  push_block_stale close_lit acc us <> fuse close_lit (acc ++ us).
Proof. repeat split; try (vm_compute; reflexivity); vm_compute; discriminate. Qed.

(* ================================================================== file level: nothing lost, nothing duplicated *)
(* whatever fuses: the parser returns the elements in file order and, per element, every written
   (l, exponents, column) triple in file order — and neighbours with equal (l, exponents) are always fused *)
Theorem roundtrip_gbs_flat (L : layout) (HL : layout_ok_gbs L) (a : ast) :
  wf_ast a = true ->
  exists d, parse_gbs_model close_lit (print_gbs a L) = Some d /\
            keys d = map fst a /\
            map (fun kv => flat (snd kv)) d = map (fun e => flat (expected_shells (snd e))) a /\
            Forall (fun kv => keys_differ (snd kv)) d.
Proof.
  intros H. exists (expected_fused_lit a). split; [apply roundtrip_gbs_fused_lit; auto|].
  unfold expected_fused_lit, keys. rewrite !map_map. cbn [fst snd]. repeat split.
  - apply map_ext. intros e. apply fuse_lit_flat.
  - apply Forall_forall. intros kv Hkv. apply in_map_iff in Hkv as [e [<- _]]. apply fuse_lit_maximal.
Qed.
