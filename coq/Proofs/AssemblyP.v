(* Proofs/AssemblyP.v — lemmas about the assembly models (Model/Assembly.v,
   Model/Assembly14.v) backing property C09.  Unbounded in the number of
   shells, block shapes and transforms: inductions over lists. *)
From Coq Require Import List Arith Lia Bool Permutation Field.
From GB Require Import Base.Field Base.Tables Base.Blocks Model.Assembly Model.Assembly14.
Import ListNotations.

Lemma forallb_ext' {B} (f g : B -> bool) l : (forall x, f x = g x) -> forallb f l = forallb g l.
Proof. intros H. induction l as [|x l IH]; cbn; [reflexivity|]. now rewrite H, IH. Qed.

(* ------------------------------------------------------------------ *)
(* One axis, any module of entries                                     *)
(* ------------------------------------------------------------------ *)
Section AxisP.
Context {F : Type} (K : Fops F).
Context {X : Type} (xzero : X) (xadd : X -> X -> X) (xscale : F -> X -> X).
Context (P : X -> Prop).
Hypothesis Pz : P xzero.
Hypothesis Pa : forall x y, P x -> P y -> P (xadd x y).
Hypothesis Ps : forall t x, P x -> P (xscale t x).
Hypothesis A0l : forall x, P x -> xadd xzero x = x.
Hypothesis A0r : forall x, P x -> xadd x xzero = x.
Hypothesis S0 : forall x, P x -> xscale (f0 K) x = xzero.
Hypothesis S1 : forall x, P x -> xscale (f1 K) x = x.

Notation lin' := (lin xzero xadd xscale).
Notation axis_tr' := (axis_tr xzero xadd xscale).

(* T_s of the property for one shell whose (normalised) block is nb[m][c]:
   identity for a Cartesian shell, I_M (x) T for a spherical one *)
Definition Ush (sph : bool) (T : list (list F)) (nb : list (list X)) : list (list F) :=
  if sph then bdiag K (repeat T (length nb)) else ident K (length (concat nb)).

Definition ax_ok (sph : bool) (T : list (list F)) (nb : list (list X)) : Prop :=
  Forall (Forall P) nb /\
  (sph = true -> T <> [] /\ rect T /\ Forall (fun r => length r = ncols T) nb).

Lemma map2_repeat {B C} (f : list (list F) -> B -> C) T (l : list B) :
  map2 f (repeat T (length l)) l = map (f T) l.
Proof. induction l as [|x l IH]; cbn; [reflexivity|]. now rewrite IH. Qed.

Lemma axis_tr_lin sph T nb : ax_ok sph T nb ->
  axis_tr' sph T nb = lin' (Ush sph T nb) (concat nb).
Proof.
  intros [HP Hs]. unfold axis_tr, Ush. destruct sph.
  - destruct (Hs eq_refl) as [Hne [HT Hr]].
    rewrite (lin_bdiag K xzero xadd xscale P); auto.
    + now rewrite map2_repeat.
    + clear Hs. induction nb as [|r nb IH]; cbn; constructor.
      * inversion HP; inversion Hr; subst. repeat split; assumption.
      * inversion HP; inversion Hr; subst. apply IH; assumption.
  - symmetry. apply (lin_ident K xzero xadd xscale P); auto. now apply concat_P.
Qed.

Lemma concat_length_const {B} (b : list (list B)) n :
  Forall (fun r => length r = n) b -> length (concat b) = length b * n.
Proof. induction 1 as [|r b Hr _ IH]; cbn; [reflexivity|]. rewrite app_length, IH, Hr. lia. Qed.

Lemma Ush_fits sph T nb : ax_ok sph T nb -> fits P (Ush sph T nb) (concat nb).
Proof.
  intros [HP Hs]. unfold Ush, fits. destruct sph.
  - destruct (Hs eq_refl) as [Hne [HT Hr]].
    destruct (bdiag_repeat_shape K T (length nb) Hne HT) as [E1 E2].
    rewrite E1. repeat split; [now apply concat_length_const | assumption | now apply concat_P].
  - destruct (ident_shape K (length (concat nb))) as [E1 E2]. rewrite E1.
    repeat split; [assumption | now apply concat_P].
Qed.

(* the one-index assembly of any list of (type, transform, block) triples *)
Definition trip := (bool * list (list F) * list (list X))%type.
Definition t_ok (t : trip) := let '(sph, T, nb) := t in ax_ok sph T nb.
Definition t_tr (t : trip) := let '(sph, T, nb) := t in axis_tr' sph T nb.
Definition t_U (t : trip) := let '(sph, T, nb) := t in Ush sph T nb.
Definition t_cart (t : trip) := let '(sph, T, nb) := t in concat nb.

Lemma assemble_lin (l : list trip) : Forall t_ok l ->
  concat (map t_tr l) = lin' (bdiag K (map t_U l)) (concat (map t_cart l)).
Proof.
  intros H. rewrite (lin_bdiag K xzero xadd xscale P); auto.
  - f_equal. induction H as [|[[sph T] nb] l Hx _ IH]; cbn; [reflexivity|].
    rewrite IH. f_equal. now apply axis_tr_lin.
  - induction H as [|[[sph T] nb] l Hx _ IH]; cbn; constructor; [now apply Ush_fits | assumption].
Qed.
End AxisP.

(* ------------------------------------------------------------------ *)
(* One index (base_one.py)                                             *)
(* ------------------------------------------------------------------ *)
Section OneP.
Context {F : Type} (K : Fops F).
Context {A : Type} (azero : A) (aadd : A -> A -> A) (ascale : F -> A -> A).
Context (P : A -> Prop).
Hypothesis Pz : P azero.
Hypothesis Pa : forall x y, P x -> P y -> P (aadd x y).
Hypothesis Ps : forall t x, P x -> P (ascale t x).
Hypothesis A0l : forall x, P x -> aadd azero x = x.
Hypothesis A0r : forall x, P x -> aadd x azero = x.
Hypothesis S0 : forall x, P x -> ascale (f0 K) x = azero.
Hypothesis S1 : forall x, P x -> ascale (f1 K) x = x.

Notation shb := (@sh F * list (list A))%type.
Definition nb_of (p : shb) : list (list A) := norm_axis ascale (sh_n (fst p)) (snd p).
Definition to_trip (p : shb) : trip := (sh_sph (fst p), sh_T (fst p), nb_of p).
Definition set_sph (v : bool) (p : shb) : shb := (mkSh v (sh_T (fst p)) (sh_n (fst p)), snd p).

(* hypothesis of the theorems: entries well-shaped; for a spherical shell the
   transform is a non-empty rectangular matrix whose width is the number of
   components of every segment row of the normalised block *)
Definition shell_ok (p : shb) : Prop := ax_ok P (sh_sph (fst p)) (sh_T (fst p)) (nb_of p).

(* (+)_s T_s *)
Definition Ubasis (l : list shb) : list (list F) :=
  bdiag K (map (fun p => Ush K (sh_sph (fst p)) (sh_T (fst p)) (nb_of p)) l).

Lemma one_mix_trips l : one_mix azero aadd ascale l = concat (map (t_tr azero aadd ascale) (map to_trip l)).
Proof. unfold one_mix. f_equal. rewrite map_map. apply map_ext. now intros [s b]. Qed.

Lemma one_cartesian_trips l : one_cartesian ascale l = concat (map t_cart (map to_trip l)).
Proof. unfold one_cartesian. f_equal. rewrite map_map. apply map_ext. now intros [s b]. Qed.

(* (a) one index *)
Lemma one_mix_is_cart_transformed l : Forall shell_ok l ->
  one_mix azero aadd ascale l = lin azero aadd ascale (Ubasis l) (one_cartesian ascale l).
Proof.
  intros H. rewrite one_mix_trips, one_cartesian_trips.
  rewrite (assemble_lin K azero aadd ascale P); auto.
  - unfold Ubasis. now rewrite map_map.
  - apply Forall_forall. intros t Ht. apply in_map_iff in Ht. destruct Ht as [p [<- Hp]].
    rewrite Forall_forall in H. apply (H _ Hp).
Qed.

(* (b) the three code paths agree *)
Lemma one_spherical_is_mix l :
  one_spherical azero aadd ascale l = one_mix azero aadd ascale (map (set_sph true) l).
Proof. unfold one_spherical, one_mix. f_equal. rewrite map_map. apply map_ext. now intros [s b]. Qed.

Lemma one_cartesian_is_mix l :
  one_cartesian ascale l = one_mix azero aadd ascale (map (set_sph false) l).
Proof. unfold one_cartesian, one_mix. f_equal. rewrite map_map. apply map_ext. now intros [s b]. Qed.

Lemma set_sph_id v l : forallb (fun p : shb => eqb (sh_sph (fst p)) v) l = true -> map (set_sph v) l = l.
Proof.
  induction l as [|[[sp T n] b] l IH]; cbn; [reflexivity|]. intros H. apply andb_prop in H. destruct H as [H1 H2].
  rewrite IH by assumption. unfold set_sph. cbn. apply eqb_prop in H1. now subst.
Qed.

(* (c) one index: lincomb = T applied to the array of the given types, entry-wise a dot product *)
Lemma one_lincomb_is_T_applied T l :
  one_lincomb azero aadd ascale T l = lin azero aadd ascale T (one_mix azero aadd ascale l).
Proof.
  unfold one_lincomb. f_equal.
  destruct (forallb (fun p : shb => negb (sh_sph (fst p))) l) eqn:E1.
  - rewrite one_cartesian_is_mix, set_sph_id; [reflexivity|].
    etransitivity; [|exact E1]. apply forallb_ext'. intros p. now destruct (sh_sph (fst p)).
  - destruct (forallb (fun p : shb => sh_sph (fst p)) l) eqn:E2; [|reflexivity].
    rewrite one_spherical_is_mix, set_sph_id; [reflexivity|].
    etransitivity; [|exact E2]. apply forallb_ext'. intros p. now destruct (sh_sph (fst p)).
Qed.

Lemma lin_entry T (v : list A) i : i < length T ->
  nth i (lin azero aadd ascale T v) azero = dot azero aadd ascale (nth i T []) v.
Proof.
  intros Hi. unfold lin.
  rewrite (nth_indep _ azero (dot azero aadd ascale [] v)) by (now rewrite map_length).
  now rewrite (map_nth (fun t => dot azero aadd ascale t v)).
Qed.
End OneP.

(* ------------------------------------------------------------------ *)
(* Two indices: one block                                              *)
(* ------------------------------------------------------------------ *)
Section ShapesF.
Context {F : Type} (K : Fops F).
Lemma length_bdiag_repeat (T : list (list F)) M : length (bdiag K (repeat T M)) = M * length T.
Proof. induction M as [|M IH]; [reflexivity|]. cbn [repeat bdiag]. rewrite app_length, !map_length, IH. lia. Qed.
Lemma length_ident n : length (ident K n) = n.
Proof. induction n as [|n IH]; [reflexivity|]. cbn [ident length]. now rewrite map_length, IH. Qed.
(* T_s by shapes: M segments, n Cartesian functions *)
Definition Ushape (sph : bool) (T : list (list F)) (M n : nat) : list (list F) :=
  if sph then bdiag K (repeat T M) else ident K n.
Lemma length_Ushape sph T M n : length (Ushape sph T M n) = if sph then M * length T else n.
Proof. destruct sph; [apply length_bdiag_repeat | apply length_ident]. Qed.
End ShapesF.

Section TwoP.
Context {F : Type} (K : Fops F).
Context {A : Type} (azero : A) (aadd : A -> A -> A) (ascale : F -> A -> A).
Context (P : A -> Prop).
Hypothesis Pz : P azero.
Hypothesis Pa : forall x y, P x -> P y -> P (aadd x y).
Hypothesis Ps : forall t x, P x -> P (ascale t x).
Hypothesis A0l : forall x, P x -> aadd azero x = x.
Hypothesis A0r : forall x, P x -> aadd x azero = x.
Hypothesis S0 : forall x, P x -> ascale (f0 K) x = azero.
Hypothesis S1 : forall x, P x -> ascale (f1 K) x = x.

Notation linA := (lin azero aadd ascale).
Notation trA := (axis_tr azero aadd ascale).
(* T on index 0 of a matrix whose rows have width w / T on index 1 *)
Definition mat_left_w (w : nat) (T : list (list F)) (m : list (list A)) : list (list A) :=
  lin (rzero azero w) (radd aadd) (rscale ascale) T m.
Notation mat_right' := (mat_right azero aadd ascale).

Lemma mat_left_is_w T m : mat_left azero aadd ascale T m = mat_left_w (length (hd [] m)) T m.
Proof. reflexivity. Qed.

(* shape hypothesis on one (M2, L2) slab of a normalised block *)
Definition slab_ok (sph2 : bool) (T2 : list (list F)) (M2 n2 : nat) (slab : list (list A)) : Prop :=
  ax_ok P sph2 T2 slab /\ length slab = M2 /\ length (concat slab) = n2.

Lemma block2_core sph1 sph2 T1 T2 M2 n2 (b : list (list (list (list A)))) :
  Forall (Forall (slab_ok sph2 T2 M2 n2)) b ->
  (sph1 = true -> T1 <> [] /\ rect T1 /\ Forall (fun r => length r = ncols T1) b) ->
  let U2 := Ushape K sph2 T2 M2 n2 in
  axis_tr (rzero azero (length U2)) (radd aadd) (rscale ascale) sph1 T1 (map (map (trA sph2 T2)) b)
  = mat_left_w (length U2) (Ushape K sph1 T1 (length b) (length (concat b)))
      (mat_right' U2 (map (@concat A) (concat b))).
Proof.
  intros Hb H1 U2.
  assert (Hin : map (map (trA sph2 T2)) b = map (map (fun slab => linA U2 (concat slab))) b).
  { apply map_ext_in. intros r Hr. apply map_ext_in. intros slab Hs.
    rewrite Forall_forall in Hb. specialize (Hb _ Hr). rewrite Forall_forall in Hb.
    destruct (Hb _ Hs) as [Hok [E1 E2]].
    rewrite (axis_tr_lin K azero aadd ascale P); auto. unfold Ush, U2, Ushape. now rewrite E1, E2. }
  rewrite Hin. set (inner := map (map (fun slab => linA U2 (concat slab))) b).
  rewrite (axis_tr_lin K (rzero azero (length U2)) (radd aadd) (rscale ascale) (Prow P (length U2))).
  - unfold mat_left_w. f_equal.
    + unfold Ush, Ushape, inner. rewrite map_length. rewrite <- concat_map, map_length. reflexivity.
    + unfold inner. rewrite <- concat_map. unfold mat_right. now rewrite map_map.
  - now apply Prow_zero.
  - intros; now apply Prow_add.
  - intros; now apply Prow_scale.
  - intros; eapply row_A0l; eauto.
  - intros; eapply row_A0r; eauto.
  - intros; eapply (row_S0 K); eauto.
  - intros; eapply (row_S1 K); eauto.
  - split.
    + unfold inner. apply Forall_forall. intros r Hr. apply in_map_iff in Hr. destruct Hr as [r0 [<- Hr0]].
      apply Forall_forall. intros x Hx. apply in_map_iff in Hx. destruct Hx as [slab [<- Hs]].
      rewrite Forall_forall in Hb. specialize (Hb _ Hr0). rewrite Forall_forall in Hb.
      destruct (Hb _ Hs) as [[HP _] _].
      split; [unfold lin; now rewrite map_length|].
      apply (lin_P azero aadd ascale P); auto. now apply concat_P.
    + intros Hs. destruct (H1 Hs) as [Hne [HT Hr]]. repeat split; auto.
      unfold inner. apply Forall_forall. intros r Hr'. apply in_map_iff in Hr'. destruct Hr' as [r0 [<- Hr0]].
      rewrite map_length. rewrite Forall_forall in Hr. now apply Hr.
Qed.

(* hypothesis on a block of shells (s1, s2) for the given types *)
Definition block2_ok (sph1 sph2 : bool) (s1 s2 : @sh F) (blk : list (list (list (list A)))) : Prop :=
  let b := normalise2 ascale (sh_n s1) (sh_n s2) blk in
  Forall (Forall (slab_ok sph2 (sh_T s2) (length (sh_n s2)) (length (concat (sh_n s2))))) b /\
  (sph1 = true -> sh_T s1 <> [] /\ rect (sh_T s1) /\ Forall (fun r => length r = ncols (sh_T s1)) b).

(* T_s of shell s1 for a block with shells (s1, s2) *)
Definition U_left (sph1 : bool) (s1 s2 : @sh F) (blk : list (list (list (list A)))) :=
  let b := normalise2 ascale (sh_n s1) (sh_n s2) blk in
  Ushape K sph1 (sh_T s1) (length b) (length (concat b)).
Definition U_of (sph : bool) (s : @sh F) :=
  Ushape K sph (sh_T s) (length (sh_n s)) (length (concat (sh_n s))).

Lemma axis_width_U sph s : axis_width sph s = length (U_of sph s).
Proof. unfold axis_width, U_of. rewrite length_Ushape. now destruct sph. Qed.

(* per-block form of (a) for two indices *)
Lemma block2_is_cart_transformed sph1 sph2 s1 s2 blk :
  block2_ok sph1 sph2 s1 s2 blk ->
  block2 azero aadd ascale sph1 sph2 s1 s2 blk
  = mat_left_w (axis_width sph2 s2) (U_left sph1 s1 s2 blk)
      (mat_right' (U_of sph2 s2) (block2 azero aadd ascale false false s1 s2 blk)).
Proof.
  intros [Hb H1]. unfold block2 at 1. rewrite axis_width_U. unfold r1add, r1scale, U_of.
  rewrite (block2_core sph1 sph2 (sh_T s1) (sh_T s2) (length (sh_n s2)) (length (concat (sh_n s2)))); auto.
  unfold U_left. f_equal. f_equal. unfold block2, axis_tr. rewrite <- concat_map. reflexivity.
Qed.
End TwoP.

(* ------------------------------------------------------------------ *)
(* Two indices: assembling blocks commutes with block-diagonal maps    *)
(* ------------------------------------------------------------------ *)
Lemma map2_combine {B C D} (f : B -> C -> D) a b :
  map (fun '(x, y) => f x y) (combine a b) = map2 f a b.
Proof. revert b; induction a as [|x a IH]; intros [|y b]; cbn; [reflexivity..|]. now rewrite IH. Qed.

Lemma hcat_cons {B} (m : list (list B)) rest : rest <> [] ->
  hcat (m :: rest) = map2 (@app B) m (hcat rest).
Proof. intros H. destruct rest as [|m' r]; [congruence|]. cbn [hcat]. now rewrite map2_combine. Qed.

Lemma map2_map_same {B C D E} (f : C -> D -> E) (g : B -> C) (h : B -> D) l :
  map2 f (map g l) (map h l) = map (fun x => f (g x) (h x)) l.
Proof. induction l as [|x l IH]; cbn; [reflexivity|]. now rewrite IH. Qed.

Lemma map_map2 {B C D E} (g : D -> E) (f : B -> C -> D) a b :
  map g (map2 f a b) = map2 (fun x y => g (f x y)) a b.
Proof. revert b; induction a as [|x a IH]; intros [|y b]; cbn; [reflexivity..|]. now rewrite IH. Qed.

Lemma map2_map_l {B B' C D} (f : B -> C -> D) (g : B' -> B) a b :
  map2 f (map g a) b = map2 (fun x y => f (g x) y) a b.
Proof. revert b; induction a as [|x a IH]; intros [|y b]; cbn; [reflexivity..|]. now rewrite IH. Qed.

Lemma map2_ext_in {B C D} (f g : B -> C -> D) a b :
  (forall x y, In x a -> In y b -> f x y = g x y) -> map2 f a b = map2 g a b.
Proof.
  revert b; induction a as [|x a IH]; intros [|y b] H; cbn; [reflexivity..|].
  rewrite H by (now left). rewrite IH; [reflexivity|]. intros; apply H; now right.
Qed.

Lemma Forall_map2_app {B} (Q : list B -> Prop) (R1 R2 : list B -> Prop) a b :
  (forall x y, R1 x -> R2 y -> Q (x ++ y)) -> Forall R1 a -> Forall R2 b -> Forall Q (map2 (@app B) a b).
Proof.
  intros H Ha. revert b. induction Ha as [|x a Hx Ha IH]; intros [|y b] Hb; cbn; constructor.
  - inversion Hb; subst. now apply H.
  - inversion Hb; subst. now apply IH.
Qed.

Section AsmP.
Context {F : Type} (K : Fops F).
Context {A : Type} (azero : A) (aadd : A -> A -> A) (ascale : F -> A -> A).
Context (P : A -> Prop).
Hypothesis Pz : P azero.
Hypothesis Pa : forall x y, P x -> P y -> P (aadd x y).
Hypothesis Ps : forall t x, P x -> P (ascale t x).
Hypothesis A0l : forall x, P x -> aadd azero x = x.
Hypothesis A0r : forall x, P x -> aadd x azero = x.
Hypothesis S0 : forall x, P x -> ascale (f0 K) x = azero.
Hypothesis S1 : forall x, P x -> ascale (f1 K) x = x.

Notation linA := (lin azero aadd ascale).
Notation mat_right' := (mat_right azero aadd ascale).
Notation mat_left_w' := (mat_left_w azero aadd ascale).
Notation dotR w := (dot (rzero azero w) (radd aadd) (rscale ascale)).

(* a matrix all of whose rows have width w and entries in P *)
Definition mat_ok (w : nat) (m : list (list A)) : Prop := Forall (Prow P w) m.

Lemma hcat_ok ws Ms : Forall2 mat_ok ws Ms -> mat_ok (fold_right plus 0 ws) (hcat Ms).
Proof.
  induction 1 as [|w M ws Ms HM HF IH]; [constructor|].
  destruct Ms as [|M' Ms'].
  - inversion HF; subst. cbn [hcat fold_right]. now rewrite Nat.add_0_r.
  - rewrite hcat_cons by discriminate. cbn [fold_right].
    eapply Forall_map2_app; [|exact HM|exact IH].
    intros x y [Lx Hx] [Ly Hy]. split; [rewrite app_length; lia | now apply Forall_app].
Qed.

(* T on index 1 distributes over horizontal concatenation *)
Lemma mat_right_hcat Us Cs :
  Forall2 (fun U C => rect U /\ mat_ok (ncols U) C) Us Cs ->
  mat_right' (bdiag K Us) (hcat Cs) = hcat (map2 mat_right' Us Cs).
Proof.
  induction 1 as [|U C Us Cs [HU HC] HF IH]; [reflexivity|].
  destruct Cs as [|C' Cs'].
  - inversion HF; subst. cbn [hcat map2]. unfold mat_right. apply map_ext_in. intros r Hr.
    unfold mat_ok in HC. rewrite Forall_forall in HC. destruct (HC _ Hr) as [Lr Pr].
    rewrite <- (app_nil_r r) at 1.
    rewrite (lin_bdiag_cons K azero aadd ascale P); auto. cbn. apply app_nil_r.
  - inversion HF as [|U' ? Us' ? HUC' HF' E1 E2]; subst.
    rewrite hcat_cons by discriminate.
    change (map2 mat_right' (U :: U' :: Us') (C :: C' :: Cs'))
      with (mat_right' U C :: map2 mat_right' (U' :: Us') (C' :: Cs')).
    rewrite (hcat_cons (mat_right' U C)) by (cbn; discriminate). rewrite <- IH.
    unfold mat_right. rewrite map_map2, map2_map_l, map2_map_r.
    assert (HH : mat_ok (fold_right plus 0 (map (@ncols F) (U' :: Us'))) (hcat (C' :: Cs'))).
    { apply hcat_ok. clear - HF. induction HF as [|? ? ? ? [_ H] _ IH']; cbn; constructor; auto. }
    apply map2_ext_in. intros r1 r2 H1 H2.
    unfold mat_ok in HC, HH. rewrite Forall_forall in HC, HH.
    destruct (HC _ H1) as [L1 P1]. destruct (HH _ H2) as [L2 P2].
    apply (lin_bdiag_cons K azero aadd ascale P); auto.
Qed.

Lemma dotR_length w t m : Forall (fun r : list A => length r = w) m -> length (dotR w t m) = w.
Proof.
  intros H. apply (dot_P (rzero azero w) (radd aadd) (rscale ascale) (fun r => length r = w)); auto.
  - apply repeat_length.
  - intros x y Hx Hy. unfold radd. rewrite map2_length; lia.
  - intros a x Hx. unfold rscale. now rewrite map_length.
Qed.

Lemma dotR_app w1 w2 t m1 m2 :
  length m1 = length m2 -> Forall (fun r : list A => length r = w1) m1 ->
  dotR (w1 + w2) t (map2 (@app A) m1 m2) = dotR w1 t m1 ++ dotR w2 t m2.
Proof.
  revert m1 m2. induction t as [|a t IH]; intros m1 m2 HL H1.
  - destruct m1, m2; cbn; unfold rzero; now rewrite repeat_app.
  - destruct m1 as [|r1 m1], m2 as [|r2 m2]; cbn in HL; try lia.
    + cbn. unfold rzero; now rewrite repeat_app.
    + cbn [map2 dot]. inversion H1; subst. rewrite IH by (assumption || lia).
      unfold radd, rscale. rewrite map_app. apply map2_app.
      rewrite map_length. symmetry. now apply dotR_length.
Qed.

Lemma mat_left_app w1 w2 U m1 m2 :
  length m1 = length m2 -> Forall (fun r : list A => length r = w1) m1 ->
  mat_left_w' (w1 + w2) U (map2 (@app A) m1 m2) = map2 (@app A) (mat_left_w' w1 U m1) (mat_left_w' w2 U m2).
Proof.
  intros HL H1. unfold mat_left_w, lin. rewrite map2_map_same. apply map_ext. intros t. now apply dotR_app.
Qed.

Lemma hcat_length {B} R (Ms : list (list (list B))) : Ms <> [] ->
  Forall (fun M => length M = R) Ms -> length (hcat Ms) = R.
Proof.
  intros Hne H. induction H as [|M Ms HM HF IH]; [congruence|].
  destruct Ms as [|M' Ms']; [exact HM|]. rewrite hcat_cons by discriminate.
  rewrite map2_length; [exact HM|]. rewrite IH by discriminate. exact HM.
Qed.

(* T on index 0 distributes over horizontal concatenation *)
Lemma mat_left_hcat U R ws Ms :
  Forall2 (fun w M => length M = R /\ Forall (fun r : list A => length r = w) M) ws Ms -> Ms <> [] ->
  mat_left_w' (fold_right plus 0 ws) U (hcat Ms) = hcat (map2 (fun w M => mat_left_w' w U M) ws Ms).
Proof.
  induction 1 as [|w M ws Ms [HR HM] HF IH]; [congruence|]. intros _.
  destruct Ms as [|M' Ms'].
  - inversion HF; subst. cbn [hcat map2 fold_right]. now rewrite Nat.add_0_r.
  - inversion HF as [|w' ? ws' ? HWM' HF' E1 E2]; subst.
    rewrite hcat_cons by discriminate.
    change (fold_right plus 0 (w :: w' :: ws')) with (w + fold_right plus 0 (w' :: ws')).
    rewrite mat_left_app; [| |exact HM].
    + rewrite IH by discriminate.
      change (map2 (fun w M => mat_left_w' w U M) (w :: w' :: ws') (M :: M' :: Ms'))
        with (mat_left_w' w U M :: map2 (fun w M => mat_left_w' w U M) (w' :: ws') (M' :: Ms')).
      now rewrite (hcat_cons (mat_left_w' w U M)) by (cbn; discriminate).
    + rewrite (hcat_length (length M)) ; [reflexivity|discriminate|].
      clear - HF. induction HF as [|? ? ? ? [H _] _ IH']; constructor; auto.
Qed.

Lemma mk_map2 {B C D} (f : B -> C -> D) n g h : map2 f (mk n g) (mk n h) = mk n (fun j => f (g j) (h j)).
Proof. unfold mk. apply map2_map_same. Qed.

Lemma Forall2_mk {B C} (R : B -> C -> Prop) n g h :
  (forall j, j < n -> R (g j) (h j)) -> Forall2 R (mk n g) (mk n h).
Proof.
  unfold mk. intros H. assert (H' : forall j, In j (seq 0 n) -> R (g j) (h j)).
  { intros j Hj. apply in_seq in Hj. apply H. lia. }
  clear H. induction (seq 0 n) as [|x l IH]; cbn; constructor.
  - apply H'. now left.
  - apply IH. intros j Hj. apply H'. now right.
Qed.

Lemma Forall_mk {B} (Q : B -> Prop) n g : (forall j, j < n -> Q (g j)) -> Forall Q (mk n g).
Proof.
  intros H. unfold mk. apply Forall_forall. intros x Hx. apply in_map_iff in Hx.
  destruct Hx as [j [<- Hj]]. apply in_seq in Hj. apply H. lia.
Qed.

Lemma map_mk {B C} (f : B -> C) n g : map f (mk n g) = mk n (fun j => f (g j)).
Proof. unfold mk. now rewrite map_map. Qed.

(* Assembling blocks commutes with block-diagonal maps: if every block B i j is
   U1 i applied on index 0 and U2 j on index 1 of the block C i j, the assembled
   array of the B's is (+)U1 on index 0 and (+)U2 on index 1 of the assembled C's. *)
Lemma asm_blocks n1 n2 (U1 U2 : nat -> list (list F)) (Cf Bf : nat -> nat -> list (list A)) :
  0 < n2 ->
  (forall i j, i < n1 -> j < n2 ->
     Bf i j = mat_left_w' (length (U2 j)) (U1 i) (mat_right' (U2 j) (Cf i j))) ->
  (forall i, i < n1 -> rect (U1 i)) -> (forall j, j < n2 -> rect (U2 j)) ->
  (forall i j, i < n1 -> j < n2 -> length (Cf i j) = ncols (U1 i) /\ mat_ok (ncols (U2 j)) (Cf i j)) ->
  two_asymm_blocks n1 n2 Bf
  = mat_left_w' (fold_right plus 0 (mk n2 (fun j => length (U2 j)))) (bdiag K (mk n1 U1))
      (mat_right' (bdiag K (mk n2 U2)) (two_asymm_blocks n1 n2 Cf)).
Proof.
  intros Hn2 HB HU1 HU2 HC. unfold two_asymm_blocks, vcat.
  set (W := fold_right plus 0 (mk n2 (fun j => length (U2 j)))).
  set (X := fun i => hcat (mk n2 (fun j => mat_right' (U2 j) (Cf i j)))).
  assert (E1 : mat_right' (bdiag K (mk n2 U2)) (concat (mk n1 (fun i => hcat (mk n2 (fun j => Cf i j)))))
               = concat (mk n1 X)).
  { unfold mat_right at 1. rewrite concat_map, map_mk. f_equal. apply mk_ext. intros i Hi.
    change (map (lin azero aadd ascale (bdiag K (mk n2 U2)))) with (mat_right' (bdiag K (mk n2 U2))).
    rewrite mat_right_hcat.
    - unfold X. now rewrite mk_map2.
    - apply Forall2_mk. intros j Hj. split; [now apply HU2 | now apply HC]. }
  rewrite E1. clear E1.
  assert (Hrow : forall i j, i < n1 -> j < n2 ->
            length (mat_right' (U2 j) (Cf i j)) = ncols (U1 i) /\
            mat_ok (length (U2 j)) (mat_right' (U2 j) (Cf i j))).
  { intros i j Hi Hj. destruct (HC i j Hi Hj) as [HL HM]. unfold mat_right. rewrite map_length. split; [exact HL|].
    unfold mat_ok in *. apply Forall_forall. intros r Hr. apply in_map_iff in Hr. destruct Hr as [r0 [<- Hr0]].
    rewrite Forall_forall in HM. destruct (HM _ Hr0) as [_ Pr].
    split; [unfold lin; now rewrite map_length|]. apply (lin_P azero aadd ascale P); auto. }
  assert (HX : forall i, i < n1 -> length (X i) = ncols (U1 i) /\ mat_ok W (X i)).
  { intros i Hi. split.
    - unfold X. apply hcat_length.
      + unfold mk. destruct n2; [lia|]. cbn. discriminate.
      + apply Forall_mk. intros j Hj. now apply Hrow.
    - unfold X, W. apply hcat_ok. apply Forall2_mk. intros j Hj. now apply Hrow. }
  unfold mat_left_w at 1.
  rewrite (lin_bdiag K (rzero azero W) (radd aadd) (rscale ascale) (Prow P W)).
  - rewrite mk_map2. f_equal. apply mk_ext. intros i Hi.
    change (lin (rzero azero W) (radd aadd) (rscale ascale) (U1 i) (X i)) with (mat_left_w' W (U1 i) (X i)).
    unfold X, W. rewrite (mat_left_hcat (U1 i) (ncols (U1 i))).
    + rewrite mk_map2. f_equal. apply mk_ext. intros j Hj. now apply HB.
    + apply Forall2_mk. intros j Hj. destruct (Hrow i j Hi Hj) as [HL HM]. split; [exact HL|].
      unfold mat_ok in HM. eapply Forall_impl; [|exact HM]. intros r [Lr _]. exact Lr.
    + unfold mk. destruct n2; [lia|]. cbn. discriminate.
  - now apply Prow_zero.
  - intros; now apply Prow_add.
  - intros; now apply Prow_scale.
  - intros; eapply row_A0l; eauto.
  - intros; eapply (row_S0 K); eauto.
  - apply Forall2_mk. intros i Hi. destruct (HX i Hi) as [HL HM]. repeat split; auto.
    now apply HU1.
Qed.

(* ---- the two-index models (Assembly14.two_asymm_n / two_symm_n), mix path ---- *)
Notation block2' := (block2 azero aadd ascale).
Let d0 : @sh F := mkSh false [] [].
Definition Ui (ss : list (@sh F)) (i : nat) : list (list F) :=
  U_of K (sh_sph (nth i ss d0)) (nth i ss d0).
(* (+)_s T_s for a list of shells *)
Definition Ulist (ss : list (@sh F)) : list (list F) := bdiag K (mk (length ss) (Ui ss)).
Definition Wlist (ss : list (@sh F)) : nat := fold_right plus 0 (mk (length ss) (fun j => length (Ui ss j))).

(* shape hypotheses on the block of shells (s1, s2) *)
Definition pair_ok (s1 s2 : @sh F) (blk : list (list (list (list A)))) : Prop :=
  block2_ok ascale P (sh_sph s1) (sh_sph s2) s1 s2 blk /\
  U_left K ascale (sh_sph s1) s1 s2 blk = U_of K (sh_sph s1) s1 /\
  rect (U_of K (sh_sph s1) s1) /\ rect (U_of K (sh_sph s2) s2) /\
  length (block2' false false s1 s2 blk) = ncols (U_of K (sh_sph s1) s1) /\
  mat_ok (ncols (U_of K (sh_sph s2) s2)) (block2' false false s1 s2 blk).

Lemma pair_law s1 s2 blk : pair_ok s1 s2 blk ->
  block2' (sh_sph s1) (sh_sph s2) s1 s2 blk
  = mat_left_w' (length (U_of K (sh_sph s2) s2)) (U_of K (sh_sph s1) s1)
      (mat_right' (U_of K (sh_sph s2) s2) (block2' false false s1 s2 blk)).
Proof.
  intros (Hok & HU & _). rewrite (block2_is_cart_transformed K azero aadd ascale P); auto.
  now rewrite HU, (axis_width_U K).
Qed.

(* (a) two indices, asymmetric class (both lists non-empty, as the constructor demands) *)
Lemma two_asymm_mix_is_cart_transformed ss1 ss2 bf :
  0 < length ss1 -> 0 < length ss2 ->
  (forall i j, i < length ss1 -> j < length ss2 -> pair_ok (nth i ss1 d0) (nth j ss2 d0) (bf i j)) ->
  two_asymm_n azero aadd ascale 2 ss1 ss2 bf
  = mat_left_w' (Wlist ss2) (Ulist ss1) (mat_right' (Ulist ss2) (two_asymm_n azero aadd ascale 0 ss1 ss2 bf)).
Proof.
  intros Hn1 Hn H. unfold two_asymm_n, Ulist, Wlist.
  apply (asm_blocks (length ss1) (length ss2) (Ui ss1) (Ui ss2)); auto.
  - intros i j Hi Hj. now apply pair_law, H.
  - intros i Hi. destruct (H i 0 Hi Hn) as (_ & _ & HR & _). exact HR.
  - intros j Hj. destruct (H 0 j Hn1 Hj) as (_ & _ & _ & HR & _). exact HR.
  - intros i j Hi Hj. destruct (H i j Hi Hj) as (_ & _ & _ & _ & HL & HM). split; assumption.
Qed.

(* (a) two indices, symmetric class.  The upper blocks (i < j) are processed blocks, every other
   block is the transpose of the mirrored processed block (two_symm_blocks_t).  PARTIAL: the law
   "transposition exchanges the roles of the two transforms" for the mirrored blocks,
     transpose (L_Uj (R_Ui C)) = L_Ui (R_Uj (transpose C)),
   is taken as hypothesis [Hlow] here (its proof needs additivity / commutativity laws of the
   module that the other theorems do not need); everything else is proved. *)
Lemma two_symm_mix_is_cart_transformed_partial ss bf :
  0 < length ss ->
  (forall i j, i < length ss -> j < length ss -> pair_ok (nth i ss d0) (nth j ss d0) (bf i j)) ->
  (* Hlow *)
  (forall i j, j <= i -> i < length ss ->
     let C := block2' false false (nth j ss d0) (nth i ss d0) (bf j i) in
     transpose azero (mat_left_w' (length (Ui ss i)) (Ui ss j) (mat_right' (Ui ss i) C))
     = mat_left_w' (length (Ui ss j)) (Ui ss i) (mat_right' (Ui ss j) (transpose azero C)) /\
     length (transpose azero C) = ncols (Ui ss i) /\ mat_ok (ncols (Ui ss j)) (transpose azero C)) ->
  two_symm_n azero aadd ascale 2 ss bf
  = mat_left_w' (Wlist ss) (Ulist ss) (mat_right' (Ulist ss) (two_symm_n azero aadd ascale 0 ss bf)).
Proof.
  intros Hn H Hlow. unfold two_symm_n, two_symm_blocks_t, Ulist, Wlist.
  change (vcat (mk (length ss) (fun i => hcat (mk (length ss) (fun j =>
            if i <? j then block2' (sh_sph (nth i ss d0)) (sh_sph (nth j ss d0)) (nth i ss d0) (nth j ss d0) (bf i j)
            else transpose azero (block2' (sh_sph (nth j ss d0)) (sh_sph (nth i ss d0)) (nth j ss d0) (nth i ss d0) (bf j i)))))))
    with (two_asymm_blocks (length ss) (length ss) (fun i j =>
            if i <? j then block2' (sh_sph (nth i ss d0)) (sh_sph (nth j ss d0)) (nth i ss d0) (nth j ss d0) (bf i j)
            else transpose azero (block2' (sh_sph (nth j ss d0)) (sh_sph (nth i ss d0)) (nth j ss d0) (nth i ss d0) (bf j i)))).
  change (vcat (mk (length ss) (fun i => hcat (mk (length ss) (fun j =>
            if i <? j then block2' false false (nth i ss d0) (nth j ss d0) (bf i j)
            else transpose azero (block2' false false (nth j ss d0) (nth i ss d0) (bf j i)))))))
    with (two_asymm_blocks (length ss) (length ss) (fun i j =>
            if i <? j then block2' false false (nth i ss d0) (nth j ss d0) (bf i j)
            else transpose azero (block2' false false (nth j ss d0) (nth i ss d0) (bf j i)))).
  apply (asm_blocks (length ss) (length ss) (Ui ss) (Ui ss)); auto.
  - intros i j Hi Hj. cbv beta. fold d0. destruct (Nat.ltb_spec i j) as [Hij|Hij].
    + now apply pair_law, H.
    + rewrite (pair_law _ _ _ (H j i Hj Hi)). now apply (Hlow i j Hij Hi).
  - intros i Hi. destruct (H i 0 Hi Hn) as (_ & _ & HR & _). exact HR.
  - intros j Hj. destruct (H 0 j Hn Hj) as (_ & _ & _ & HR & _). exact HR.
  - intros i j Hi Hj. cbv beta. fold d0. destruct (Nat.ltb_spec i j) as [Hij|Hij].
    + destruct (H i j Hi Hj) as (_ & _ & _ & _ & HL & HM). split; assumption.
    + destruct (Hlow i j Hij Hi) as (_ & HL & HM). split; assumption.
Qed.

(* (b) two indices: the three code paths are the one function of the types *)
Lemma two_asymm_paths mode ss1 ss2 bf :
  (mode = 0 -> forall s, In s ss1 \/ In s ss2 -> sh_sph s = false) ->
  (mode = 1 -> forall s, In s ss1 \/ In s ss2 -> sh_sph s = true) ->
  two_asymm_n azero aadd ascale mode ss1 ss2 bf = two_asymm_n azero aadd ascale 2 ss1 ss2 bf.
Proof.
  intros H0 H1. unfold two_asymm_n, two_asymm_blocks. f_equal. apply mk_ext. intros i Hi. f_equal.
  apply mk_ext. intros j Hj. cbv zeta. fold d0.
  destruct mode as [|[|m]]; [| |reflexivity].
  - rewrite (H0 eq_refl (nth i ss1 d0)), (H0 eq_refl (nth j ss2 d0)); auto using nth_In.
  - rewrite (H1 eq_refl (nth i ss1 d0)), (H1 eq_refl (nth j ss2 d0)); auto using nth_In.
Qed.

Lemma two_symm_paths mode ss bf :
  (mode = 0 -> forall s, In s ss -> sh_sph s = false) ->
  (mode = 1 -> forall s, In s ss -> sh_sph s = true) ->
  two_symm_n azero aadd ascale mode ss bf = two_symm_n azero aadd ascale 2 ss bf.
Proof.
  intros H0 H1. unfold two_symm_n, two_symm_blocks_t. f_equal. apply mk_ext. intros i Hi. f_equal.
  apply mk_ext. intros j Hj. cbv zeta. fold d0.
  destruct mode as [|[|m]]; [| |reflexivity].
  - rewrite (H0 eq_refl (nth i ss d0)), (H0 eq_refl (nth j ss d0)); auto using nth_In.
  - rewrite (H1 eq_refl (nth i ss d0)), (H1 eq_refl (nth j ss d0)); auto using nth_In.
Qed.

(* (c) two indices: lincomb is T1 on index 0 then T2 on index 1; entry (i, j) is
   sum_l T2[j][l] * (sum_k T1[i][k] * row_k)[l] *)
Lemma lincomb2n_entry T1 T2 (m : list (list A)) i j :
  i < length T1 -> j < length T2 ->
  nth j (nth i (lincomb2n azero aadd ascale (Some T1) (Some T2) m) []) azero
  = dot azero aadd ascale (nth j T2 [])
      (dotR (length (hd [] m)) (nth i T1 []) m).
Proof.
  intros Hi Hj. unfold lincomb2n, mat_right, mat_left.
  set (w := length (hd [] m)).
  rewrite (nth_indep _ [] (linA T2 (dotR w [] m))) by (unfold lin; now rewrite !map_length).
  rewrite (map_nth (linA T2)).
  rewrite (lin_entry azero aadd ascale T2 _ j Hj). f_equal.
  unfold lin. now rewrite (map_nth (fun t => dotR w t m)).
Qed.
End AsmP.

(* ------------------------------------------------------------------ *)
(* (d) component order / sign conventions                              *)
(* ------------------------------------------------------------------ *)
From GB Require Import Model.Shell Model.Spherical.

Definition flip_label (flip : bool) (lb : label) : label :=
  let '(neg, sine, m) := lb in (xorb neg flip, sine, m).

Section ConvP.
Context {F : Type} (K : Fops F) (Kf : is_field K).
Add Field KF_conv : Kf.
Definition sgn (flip : bool) : F := if flip then fopp K (f1 K) else f1 K.

(* A shell reporting its Cartesian components in the order carts[pi[0]], carts[pi[1]], ... and
   its spherical labels as (+/-) labels[sg[0]], ... gets the transform of the reference
   convention with columns permuted by pi and rows permuted / signed by sg. *)
Lemma sph_transform_convention l (carts : list comp) (labels : list label)
      (pi : list nat) (sg : list (nat * bool)) dc dl :
  Forall (fun k => k < length carts) pi -> Forall (fun p => fst p < length labels) sg ->
  sph_transform K l (map (fun k => nth k carts dc) pi)
                    (map (fun p => flip_label (snd p) (nth (fst p) labels dl)) sg)
  = map (fun p => map (fun k => fmul K (sgn (snd p))
                                  (nth k (nth (fst p) (sph_transform K l carts labels) []) (f0 K))) pi) sg.
Proof.
  intros Hpi Hsg. unfold sph_transform at 1. rewrite map_map. apply map_ext_in. intros [k flip] Hin.
  rewrite Forall_forall in Hsg. specialize (Hsg _ Hin). cbn [fst snd] in *.
  set (rowf := fun lb : label => let '(neg, sine, m) := lb in
                map (fun c => fmul K (fmul K (if (neg : bool) then fopp K (f1 K) else f1 K)
                  (harmonic_coeff K l m sine c)) (comp_scale K l c)) carts).
  assert (Erow : nth k (sph_transform K l carts labels) [] = rowf (nth k labels dl)).
  { unfold sph_transform. change (map _ labels) with (map rowf labels).
    rewrite (nth_indep _ [] (rowf dl)) by (now rewrite map_length). apply map_nth. }
  rewrite Erow. destruct (nth k labels dl) as [[neg sine] m]. cbn [flip_label]. unfold rowf.
  rewrite map_map. apply map_ext_in. intros kc Hkc.
  rewrite Forall_forall in Hpi. specialize (Hpi _ Hkc).
  set (g := fun c => fmul K (fmul K (if neg then fopp K (f1 K) else f1 K) (harmonic_coeff K l m sine c))
                       (comp_scale K l c)).
  rewrite (nth_indep _ (f0 K) (g dc)) by (now rewrite map_length).
  rewrite (map_nth g carts dc kc). unfold g, sgn.
  destruct neg, flip; cbn [xorb]; ring.
Qed.
End ConvP.

Section ConvOut.
Context {F : Type} (K : Fops F).
Context {A : Type} (azero : A) (aadd : A -> A -> A) (ascale : F -> A -> A).
Hypothesis Sz : forall s, ascale s azero = azero.
Hypothesis Sadd : forall s x y, ascale s (aadd x y) = aadd (ascale s x) (ascale s y).
Hypothesis Smul : forall s a x, ascale (fmul K s a) x = ascale s (ascale a x).

Lemma dot_scaled s t (v : list A) :
  dot azero aadd ascale (map (fmul K s) t) v = ascale s (dot azero aadd ascale t v).
Proof.
  revert v; induction t as [|a t IH]; intros [|x v]; cbn; try (now rewrite Sz).
  now rewrite IH, Sadd, Smul.
Qed.

(* the output of a spherical shell follows the rows of its transform: rows permuted and
   signed by sg give outputs permuted and signed by sg (any block v, any T) *)
Lemma lin_rows_convention (T : list (list F)) (sg : list (nat * F)) (v : list A) :
  lin azero aadd ascale (map (fun p => map (fmul K (snd p)) (nth (fst p) T [])) sg) v
  = map (fun p => ascale (snd p) (nth (fst p) (lin azero aadd ascale T v) (dot azero aadd ascale [] v))) sg.
Proof.
  unfold lin. rewrite map_map. apply map_ext. intros [k s]. cbn [fst snd].
  rewrite dot_scaled. f_equal. now rewrite (map_nth (fun t => dot azero aadd ascale t v)).
Qed.
End ConvOut.

(* ------------------------------------------------------------------ *)
(* Packaged hypotheses and the statements exported to Props/C09.v      *)
(* ------------------------------------------------------------------ *)
(* laws of the module of entries, relativised to the well-shaped entries P
   (P = fun _ => True for scalars) *)
Definition module_laws {F} (K : Fops F) {A} (azero : A) (aadd : A -> A -> A) (ascale : F -> A -> A)
           (P : A -> Prop) : Prop :=
  P azero /\ (forall x y, P x -> P y -> P (aadd x y)) /\ (forall t x, P x -> P (ascale t x)) /\
  (forall x, P x -> aadd azero x = x) /\ (forall x, P x -> aadd x azero = x) /\
  (forall x, P x -> ascale (f0 K) x = azero) /\ (forall x, P x -> ascale (f1 K) x = x).

(* satisfiable: the scalars themselves, over any field *)
Section MLF.
Context {F : Type} (K : Fops F) (Kf : is_field K).
Add Field KF_mlf : Kf.
Lemma module_laws_field : module_laws K (f0 K) (fadd K) (fmul K) (fun _ => True).
Proof. repeat split; auto; intros; ring. Qed.
(* the three extra laws used by lin_rows_convention *)
Lemma scaling_laws_field :
  (forall s, fmul K s (f0 K) = f0 K) /\
  (forall s x y, fmul K s (fadd K x y) = fadd K (fmul K s x) (fmul K s y)) /\
  (forall s a x, fmul K (fmul K s a) x = fmul K s (fmul K a x)).
Proof. repeat split; intros; ring. Qed.
End MLF.

Section Export1.
Context {F : Type} (K : Fops F).
Context {A : Type} (azero : A) (aadd : A -> A -> A) (ascale : F -> A -> A) (P : A -> Prop).
Hypothesis ML : module_laws K azero aadd ascale P.

Lemma one_mix_is_cart_transformed_L (l : list (@sh F * list (list A))) :
  Forall (shell_ok ascale P) l ->
  one_mix azero aadd ascale l = lin azero aadd ascale (Ubasis K ascale l) (one_cartesian ascale l).
Proof. destruct ML as (H1 & H2 & H3 & H4 & H5 & H6 & H7). now apply (one_mix_is_cart_transformed K azero aadd ascale P). Qed.
End Export1.

(* an instance of the shape hypothesis: one spherical shell with a 1 x 2 transform *)
Lemma shell_ok_example {F} (K : Fops F) (x y : F) :
  Forall (shell_ok (fmul K) (fun _ => True))
    [ (mkSh true [[f1 K; f1 K]] [[f1 K; f1 K]], [[x; y]]); (mkSh false [] [[f1 K]], [[x]]) ].
Proof.
  repeat constructor; cbn; try discriminate; intros _; repeat split; try discriminate; repeat constructor.
Qed.

Section Export2.
Context {F : Type} (K : Fops F).
Context {A : Type} (azero : A) (aadd : A -> A -> A) (ascale : F -> A -> A) (P : A -> Prop).
Hypothesis ML : module_laws K azero aadd ascale P.

Lemma block2_is_cart_transformed_L sph1 sph2 s1 s2 blk :
  block2_ok ascale P sph1 sph2 s1 s2 blk ->
  block2 azero aadd ascale sph1 sph2 s1 s2 blk
  = mat_left_w azero aadd ascale (axis_width sph2 s2) (U_left K ascale sph1 s1 s2 blk)
      (mat_right azero aadd ascale (U_of K sph2 s2) (block2 azero aadd ascale false false s1 s2 blk)).
Proof. destruct ML as (H1 & H2 & H3 & H4 & H5 & H6 & H7). now apply (block2_is_cart_transformed K azero aadd ascale P). Qed.

Lemma asm_blocks_L n1 n2 (U1 U2 : nat -> list (list F)) (Cf Bf : nat -> nat -> list (list A)) :
  0 < n2 ->
  (forall i j, i < n1 -> j < n2 ->
     Bf i j = mat_left_w azero aadd ascale (length (U2 j)) (U1 i) (mat_right azero aadd ascale (U2 j) (Cf i j))) ->
  (forall i, i < n1 -> rect (U1 i)) -> (forall j, j < n2 -> rect (U2 j)) ->
  (forall i j, i < n1 -> j < n2 -> length (Cf i j) = ncols (U1 i) /\ mat_ok P (ncols (U2 j)) (Cf i j)) ->
  two_asymm_blocks n1 n2 Bf
  = mat_left_w azero aadd ascale (fold_right plus 0 (mk n2 (fun j => length (U2 j)))) (bdiag K (mk n1 U1))
      (mat_right azero aadd ascale (bdiag K (mk n2 U2)) (two_asymm_blocks n1 n2 Cf)).
Proof. destruct ML as (H1 & H2 & H3 & H4 & H5 & H6 & H7). now apply (asm_blocks K azero aadd ascale P). Qed.

Lemma two_asymm_mix_is_cart_transformed_L ss1 ss2 bf :
  0 < length ss1 -> 0 < length ss2 ->
  (forall i j, i < length ss1 -> j < length ss2 ->
     pair_ok K azero aadd ascale P (nth i ss1 (mkSh false [] [])) (nth j ss2 (mkSh false [] [])) (bf i j)) ->
  two_asymm_n azero aadd ascale 2 ss1 ss2 bf
  = mat_left_w azero aadd ascale (Wlist K ss2) (Ulist K ss1)
      (mat_right azero aadd ascale (Ulist K ss2) (two_asymm_n azero aadd ascale 0 ss1 ss2 bf)).
Proof. destruct ML as (H1 & H2 & H3 & H4 & H5 & H6 & H7). now apply (two_asymm_mix_is_cart_transformed K azero aadd ascale P). Qed.

Lemma two_symm_mix_is_cart_transformed_partial_L ss bf :
  0 < length ss ->
  (forall i j, i < length ss -> j < length ss ->
     pair_ok K azero aadd ascale P (nth i ss (mkSh false [] [])) (nth j ss (mkSh false [] [])) (bf i j)) ->
  (forall i j, j <= i -> i < length ss ->
     let C := block2 azero aadd ascale false false (nth j ss (mkSh false [] [])) (nth i ss (mkSh false [] [])) (bf j i) in
     transpose azero (mat_left_w azero aadd ascale (length (Ui K ss i)) (Ui K ss j) (mat_right azero aadd ascale (Ui K ss i) C))
     = mat_left_w azero aadd ascale (length (Ui K ss j)) (Ui K ss i) (mat_right azero aadd ascale (Ui K ss j) (transpose azero C)) /\
     length (transpose azero C) = ncols (Ui K ss i) /\ mat_ok P (ncols (Ui K ss j)) (transpose azero C)) ->
  two_symm_n azero aadd ascale 2 ss bf
  = mat_left_w azero aadd ascale (Wlist K ss) (Ulist K ss)
      (mat_right azero aadd ascale (Ulist K ss) (two_symm_n azero aadd ascale 0 ss bf)).
Proof. destruct ML as (H1 & H2 & H3 & H4 & H5 & H6 & H7). now apply (two_symm_mix_is_cart_transformed_partial K azero aadd ascale P). Qed.
End Export2.

(* the shape hypotheses are satisfiable: one spherical shell (M = 1, two components, 1 x 2
   transform) with itself *)
Lemma pair_ok_example {F} (K : Fops F) (a b c d : F) :
  let s := mkSh true [[f1 K; f1 K]] [[f1 K; f1 K]] in
  pair_ok K (f0 K) (fadd K) (fmul K) (fun _ => True) s s [[ [[a; b]]; [[c; d]] ]].
Proof.
  cbv zeta. unfold pair_ok, block2_ok, slab_ok, ax_ok, U_left, U_of, Ushape, mat_ok, Prow, rect.
  cbn. repeat split; try discriminate; repeat constructor; intros; discriminate.
Qed.

(* ------------------------------------------------------------------ *)
(* Four indices: one block, first index (PARTIAL)                      *)
(* ------------------------------------------------------------------ *)
Lemma module_laws_rows {F} (K : Fops F) {X} (xzero : X) xadd xscale (P : X -> Prop) :
  module_laws K xzero xadd xscale P ->
  forall w, module_laws K (rzero xzero w) (radd xadd) (rscale xscale) (Prow P w).
Proof.
  intros (H1 & H2 & H3 & H4 & H5 & H6 & H7) w. repeat split.
  - apply repeat_length.
  - apply Forall_forall. intros x Hx. apply repeat_spec in Hx. now subst.
  - destruct (Prow_add xadd P H2 w x y H H0) as [L _]. exact L.
  - destruct (Prow_add xadd P H2 w x y H H0) as [_ L]. exact L.
  - destruct (Prow_scale xscale P H3 w t x H) as [L _]. exact L.
  - destruct (Prow_scale xscale P H3 w t x H) as [_ L]. exact L.
  - intros x Hx. eapply row_A0l; eauto.
  - intros x Hx. eapply row_A0r; eauto.
  - intros x Hx. eapply (row_S0 K); eauto.
  - intros x Hx. eapply (row_S1 K); eauto.
Qed.

Lemma axis_tr_lin_L {F} (K : Fops F) {X} (xzero : X) xadd xscale (P : X -> Prop) :
  module_laws K xzero xadd xscale P -> forall sph T nb, ax_ok P sph T nb ->
  axis_tr xzero xadd xscale sph T nb = lin xzero xadd xscale (Ush K sph T nb) (concat nb).
Proof. intros (H1 & H2 & H3 & H4 & H5 & H6 & H7) sph T nb H. now apply (axis_tr_lin K xzero xadd xscale P). Qed.

Section FourP.
Context {F : Type} (K : Fops F).
Context {A : Type} (azero : A) (aadd : A -> A -> A) (ascale : F -> A -> A) (P : A -> Prop).
Hypothesis ML : module_laws K azero aadd ascale P.

(* the block after normalisation and the processing of indices 2, 3, 4:
   b2[m1][c1] is an (n2, n3, n4) array *)
Definition b2_of (t2 t3 t4 : bool) (s1 s2 s3 s4 : @sh F)
           (blk : list (list (list (list (list (list (list (list A)))))))) :=
  let b := normalise4 ascale (sh_n s1) (sh_n s2) (sh_n s3) (sh_n s4) blk in
  let w4 := axis_width t4 s4 in let w3 := axis_width t3 s3 in
  let z1 := rzero azero w4 in let z2 := rzero z1 w3 in
  let b4 := map (map (map (map (map (map (axis_tr azero aadd ascale t4 (sh_T s4))))))) b in
  let b3 := map (map (map (map (axis_tr z1 (r1add aadd) (r1scale ascale) t3 (sh_T s3))))) b4 in
  map (map (axis_tr z2 (r2add aadd) (r2scale ascale) t2 (sh_T s2))) b3.

Definition P3 (t2 t3 t4 : bool) (s2 s3 s4 : @sh F) : list (list (list A)) -> Prop :=
  Prow (Prow (Prow P (axis_width t4 s4)) (axis_width t3 s3)) (axis_width t2 s2).

(* index 1 of a four-index block: the processed block is T_s1 applied to index 1 of the block
   whose first index is left Cartesian (the other three indices processed alike on both sides) *)
Lemma block4_index1_partial t1 t2 t3 t4 s1 s2 s3 s4 blk :
  ax_ok (P3 t2 t3 t4 s2 s3 s4) t1 (sh_T s1) (b2_of t2 t3 t4 s1 s2 s3 s4 blk) ->
  block4 azero aadd ascale t1 t2 t3 t4 s1 s2 s3 s4 blk
  = lin (rzero (rzero (rzero azero (axis_width t4 s4)) (axis_width t3 s3)) (axis_width t2 s2))
        (r3add aadd) (r3scale ascale)
        (Ush K t1 (sh_T s1) (b2_of t2 t3 t4 s1 s2 s3 s4 blk))
        (block4 azero aadd ascale false t2 t3 t4 s1 s2 s3 s4 blk).
Proof.
  intros H.
  change (block4 azero aadd ascale t1 t2 t3 t4 s1 s2 s3 s4 blk)
    with (axis_tr (rzero (rzero (rzero azero (axis_width t4 s4)) (axis_width t3 s3)) (axis_width t2 s2))
            (r3add aadd) (r3scale ascale) t1 (sh_T s1) (b2_of t2 t3 t4 s1 s2 s3 s4 blk)).
  change (block4 azero aadd ascale false t2 t3 t4 s1 s2 s3 s4 blk)
    with (concat (b2_of t2 t3 t4 s1 s2 s3 s4 blk)).
  apply (axis_tr_lin_L K _ _ _ (P3 t2 t3 t4 s2 s3 s4)); [|exact H].
  unfold P3, r3add, r3scale, r2add, r2scale, r1add, r1scale.
  apply module_laws_rows, module_laws_rows, module_laws_rows, ML.
Qed.
End FourP.

(* the mirrored (symmetric-class) assembly equals the assembly of all blocks when the
   processed block function is symmetric under swapping the shells *)
Lemma two_symm_is_full {A} (azero : A) n (Bf : nat -> nat -> list (list A)) :
  (forall i j, j <= i -> i < n -> transpose azero (Bf j i) = Bf i j) ->
  two_symm_blocks_t azero n Bf = two_asymm_blocks n n Bf.
Proof.
  intros H. unfold two_symm_blocks_t, two_asymm_blocks. f_equal. apply mk_ext. intros i Hi. f_equal.
  apply mk_ext. intros j Hj. destruct (Nat.ltb_spec i j); [reflexivity|]. now apply H.
Qed.
