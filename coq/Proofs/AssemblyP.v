(* Proofs/AssemblyP.v — lemmas about the assembly models (Model/Assembly.v,
   Model/Assembly14.v) backing property C09.  Unbounded in the number of
   shells, block shapes and transforms: inductions over lists. *)
From Coq Require Import List Arith Lia Bool Permutation Field.
From GB Require Import Base.Field Base.Tables Base.Blocks Model.Assembly Model.Assembly14.
Import ListNotations.

Lemma forallb_ext' {B} (f g : B -> bool) l : (forall x, f x = g x) -> forallb f l = forallb g l.
Proof. intros H. induction l as [|x l IH]; cbn; [reflexivity|]. now rewrite H, IH. Qed.

(* ------------------------------------------------------------------ *)
(* One axis, any module of entries                                     *)
(* ------------------------------------------------------------------ *)
Section AxisP.
Context {F : Type} (K : Fops F).
Context {X : Type} (xzero : X) (xadd : X -> X -> X) (xscale : F -> X -> X).
Context (P : X -> Prop).
Hypothesis Pz : P xzero.
Hypothesis Pa : forall x y, P x -> P y -> P (xadd x y).
Hypothesis Ps : forall t x, P x -> P (xscale t x).
Hypothesis A0l : forall x, P x -> xadd xzero x = x.
Hypothesis A0r : forall x, P x -> xadd x xzero = x.
Hypothesis S0 : forall x, P x -> xscale (f0 K) x = xzero.
Hypothesis S1 : forall x, P x -> xscale (f1 K) x = x.

Notation lin' := (lin xzero xadd xscale).
Notation axis_tr' := (axis_tr xzero xadd xscale).

(* T_s of the property for one shell whose (normalised) block is nb[m][c]:
   identity for a Cartesian shell, I_M (x) T for a spherical one *)
Definition Ush (sph : bool) (T : list (list F)) (nb : list (list X)) : list (list F) :=
  if sph then bdiag K (repeat T (length nb)) else ident K (length (concat nb)).

Definition ax_ok (sph : bool) (T : list (list F)) (nb : list (list X)) : Prop :=
  Forall (Forall P) nb /\
  (sph = true -> T <> [] /\ rect T /\ Forall (fun r => length r = ncols T) nb).

Lemma map2_repeat {B C} (f : list (list F) -> B -> C) T (l : list B) :
  map2 f (repeat T (length l)) l = map (f T) l.
Proof. induction l as [|x l IH]; cbn; [reflexivity|]. now rewrite IH. Qed.

Lemma axis_tr_lin sph T nb : ax_ok sph T nb ->
  axis_tr' sph T nb = lin' (Ush sph T nb) (concat nb).
Proof.
  intros [HP Hs]. unfold axis_tr, Ush. destruct sph.
  - destruct (Hs eq_refl) as [Hne [HT Hr]].
    rewrite (lin_bdiag K xzero xadd xscale P); auto.
    + now rewrite map2_repeat.
    + clear Hs. induction nb as [|r nb IH]; cbn; constructor.
      * inversion HP; inversion Hr; subst. repeat split; assumption.
      * inversion HP; inversion Hr; subst. apply IH; assumption.
  - symmetry. apply (lin_ident K xzero xadd xscale P); auto. now apply concat_P.
Qed.

Lemma concat_length_const {B} (b : list (list B)) n :
  Forall (fun r => length r = n) b -> length (concat b) = length b * n.
Proof. induction 1 as [|r b Hr _ IH]; cbn; [reflexivity|]. rewrite app_length, IH, Hr. lia. Qed.

Lemma Ush_fits sph T nb : ax_ok sph T nb -> fits P (Ush sph T nb) (concat nb).
Proof.
  intros [HP Hs]. unfold Ush, fits. destruct sph.
  - destruct (Hs eq_refl) as [Hne [HT Hr]].
    destruct (bdiag_repeat_shape K T (length nb) Hne HT) as [E1 E2].
    rewrite E1. repeat split; [now apply concat_length_const | assumption | now apply concat_P].
  - destruct (ident_shape K (length (concat nb))) as [E1 E2]. rewrite E1.
    repeat split; [assumption | now apply concat_P].
Qed.

(* the one-index assembly of any list of (type, transform, block) triples *)
Definition trip := (bool * list (list F) * list (list X))%type.
Definition t_ok (t : trip) := let '(sph, T, nb) := t in ax_ok sph T nb.
Definition t_tr (t : trip) := let '(sph, T, nb) := t in axis_tr' sph T nb.
Definition t_U (t : trip) := let '(sph, T, nb) := t in Ush sph T nb.
Definition t_cart (t : trip) := let '(sph, T, nb) := t in concat nb.

Lemma assemble_lin (l : list trip) : Forall t_ok l ->
  concat (map t_tr l) = lin' (bdiag K (map t_U l)) (concat (map t_cart l)).
Proof.
  intros H. rewrite (lin_bdiag K xzero xadd xscale P); auto.
  - f_equal. induction H as [|[[sph T] nb] l Hx _ IH]; cbn; [reflexivity|].
    rewrite IH. f_equal. now apply axis_tr_lin.
  - induction H as [|[[sph T] nb] l Hx _ IH]; cbn; constructor; [now apply Ush_fits | assumption].
Qed.
End AxisP.

(* ------------------------------------------------------------------ *)
(* One index (base_one.py)                                             *)
(* ------------------------------------------------------------------ *)
Section OneP.
Context {F : Type} (K : Fops F).
Context {A : Type} (azero : A) (aadd : A -> A -> A) (ascale : F -> A -> A).
Context (P : A -> Prop).
Hypothesis Pz : P azero.
Hypothesis Pa : forall x y, P x -> P y -> P (aadd x y).
Hypothesis Ps : forall t x, P x -> P (ascale t x).
Hypothesis A0l : forall x, P x -> aadd azero x = x.
Hypothesis A0r : forall x, P x -> aadd x azero = x.
Hypothesis S0 : forall x, P x -> ascale (f0 K) x = azero.
Hypothesis S1 : forall x, P x -> ascale (f1 K) x = x.

Notation shb := (@sh F * list (list A))%type.
Definition nb_of (p : shb) : list (list A) := norm_axis ascale (sh_n (fst p)) (snd p).
Definition to_trip (p : shb) : trip := (sh_sph (fst p), sh_T (fst p), nb_of p).
Definition set_sph (v : bool) (p : shb) : shb := (mkSh v (sh_T (fst p)) (sh_n (fst p)), snd p).

(* hypothesis of the theorems: entries well-shaped; for a spherical shell the
   transform is a non-empty rectangular matrix whose width is the number of
   components of every segment row of the normalised block *)
Definition shell_ok (p : shb) : Prop := ax_ok P (sh_sph (fst p)) (sh_T (fst p)) (nb_of p).

(* (+)_s T_s *)
Definition Ubasis (l : list shb) : list (list F) :=
  bdiag K (map (fun p => Ush K (sh_sph (fst p)) (sh_T (fst p)) (nb_of p)) l).

Lemma one_mix_trips l : one_mix azero aadd ascale l = concat (map (t_tr azero aadd ascale) (map to_trip l)).
Proof. unfold one_mix. f_equal. rewrite map_map. apply map_ext. now intros [s b]. Qed.

Lemma one_cartesian_trips l : one_cartesian ascale l = concat (map t_cart (map to_trip l)).
Proof. unfold one_cartesian. f_equal. rewrite map_map. apply map_ext. now intros [s b]. Qed.

(* (a) one index *)
Lemma one_mix_is_cart_transformed l : Forall shell_ok l ->
  one_mix azero aadd ascale l = lin azero aadd ascale (Ubasis l) (one_cartesian ascale l).
Proof.
  intros H. rewrite one_mix_trips, one_cartesian_trips.
  rewrite (assemble_lin K azero aadd ascale P); auto.
  - unfold Ubasis. now rewrite map_map.
  - apply Forall_forall. intros t Ht. apply in_map_iff in Ht. destruct Ht as [p [<- Hp]].
    rewrite Forall_forall in H. apply (H _ Hp).
Qed.

(* (b) the three code paths agree *)
Lemma one_spherical_is_mix l :
  one_spherical azero aadd ascale l = one_mix azero aadd ascale (map (set_sph true) l).
Proof. unfold one_spherical, one_mix. f_equal. rewrite map_map. apply map_ext. now intros [s b]. Qed.

Lemma one_cartesian_is_mix l :
  one_cartesian ascale l = one_mix azero aadd ascale (map (set_sph false) l).
Proof. unfold one_cartesian, one_mix. f_equal. rewrite map_map. apply map_ext. now intros [s b]. Qed.

Lemma set_sph_id v l : forallb (fun p : shb => eqb (sh_sph (fst p)) v) l = true -> map (set_sph v) l = l.
Proof.
  induction l as [|[[sp T n] b] l IH]; cbn; [reflexivity|]. intros H. apply andb_prop in H. destruct H as [H1 H2].
  rewrite IH by assumption. unfold set_sph. cbn. apply eqb_prop in H1. now subst.
Qed.

(* (c) one index: lincomb = T applied to the array of the given types, entry-wise a dot product *)
Lemma one_lincomb_is_T_applied T l :
  one_lincomb azero aadd ascale T l = lin azero aadd ascale T (one_mix azero aadd ascale l).
Proof.
  unfold one_lincomb. f_equal.
  destruct (forallb (fun p : shb => negb (sh_sph (fst p))) l) eqn:E1.
  - rewrite one_cartesian_is_mix, set_sph_id; [reflexivity|].
    etransitivity; [|exact E1]. apply forallb_ext'. intros p. now destruct (sh_sph (fst p)).
  - destruct (forallb (fun p : shb => sh_sph (fst p)) l) eqn:E2; [|reflexivity].
    rewrite one_spherical_is_mix, set_sph_id; [reflexivity|].
    etransitivity; [|exact E2]. apply forallb_ext'. intros p. now destruct (sh_sph (fst p)).
Qed.

Lemma lin_entry T (v : list A) i : i < length T ->
  nth i (lin azero aadd ascale T v) azero = dot azero aadd ascale (nth i T []) v.
Proof.
  intros Hi. unfold lin.
  rewrite (nth_indep _ azero (dot azero aadd ascale [] v)) by (now rewrite map_length).
  now rewrite (map_nth (fun t => dot azero aadd ascale t v)).
Qed.
End OneP.

(* ------------------------------------------------------------------ *)
(* Two indices: one block                                              *)
(* ------------------------------------------------------------------ *)
Section ShapesF.
Context {F : Type} (K : Fops F).
Lemma length_bdiag_repeat (T : list (list F)) M : length (bdiag K (repeat T M)) = M * length T.
Proof. induction M as [|M IH]; [reflexivity|]. cbn [repeat bdiag]. rewrite app_length, !map_length, IH. lia. Qed.
Lemma length_ident n : length (ident K n) = n.
Proof. induction n as [|n IH]; [reflexivity|]. cbn [ident length]. now rewrite map_length, IH. Qed.
(* T_s by shapes: M segments, n Cartesian functions *)
Definition Ushape (sph : bool) (T : list (list F)) (M n : nat) : list (list F) :=
  if sph then bdiag K (repeat T M) else ident K n.
Lemma length_Ushape sph T M n : length (Ushape sph T M n) = if sph then M * length T else n.
Proof. destruct sph; [apply length_bdiag_repeat | apply length_ident]. Qed.
End ShapesF.

Section TwoP.
Context {F : Type} (K : Fops F).
Context {A : Type} (azero : A) (aadd : A -> A -> A) (ascale : F -> A -> A).
Context (P : A -> Prop).
Hypothesis Pz : P azero.
Hypothesis Pa : forall x y, P x -> P y -> P (aadd x y).
Hypothesis Ps : forall t x, P x -> P (ascale t x).
Hypothesis A0l : forall x, P x -> aadd azero x = x.
Hypothesis A0r : forall x, P x -> aadd x azero = x.
Hypothesis S0 : forall x, P x -> ascale (f0 K) x = azero.
Hypothesis S1 : forall x, P x -> ascale (f1 K) x = x.

Notation linA := (lin azero aadd ascale).
Notation trA := (axis_tr azero aadd ascale).
(* T on index 0 of a matrix whose rows have width w / T on index 1 *)
Definition mat_left_w (w : nat) (T : list (list F)) (m : list (list A)) : list (list A) :=
  lin (rzero azero w) (radd aadd) (rscale ascale) T m.
Notation mat_right' := (mat_right azero aadd ascale).

Lemma mat_left_is_w T m : mat_left azero aadd ascale T m = mat_left_w (length (hd [] m)) T m.
Proof. reflexivity. Qed.

(* shape hypothesis on one (M2, L2) slab of a normalised block *)
Definition slab_ok (sph2 : bool) (T2 : list (list F)) (M2 n2 : nat) (slab : list (list A)) : Prop :=
  ax_ok P sph2 T2 slab /\ length slab = M2 /\ length (concat slab) = n2.

Lemma block2_core sph1 sph2 T1 T2 M2 n2 (b : list (list (list (list A)))) :
  Forall (Forall (slab_ok sph2 T2 M2 n2)) b ->
  (sph1 = true -> T1 <> [] /\ rect T1 /\ Forall (fun r => length r = ncols T1) b) ->
  let U2 := Ushape K sph2 T2 M2 n2 in
  axis_tr (rzero azero (length U2)) (radd aadd) (rscale ascale) sph1 T1 (map (map (trA sph2 T2)) b)
  = mat_left_w (length U2) (Ushape K sph1 T1 (length b) (length (concat b)))
      (mat_right' U2 (map (@concat A) (concat b))).
Proof.
  intros Hb H1 U2.
  assert (Hin : map (map (trA sph2 T2)) b = map (map (fun slab => linA U2 (concat slab))) b).
  { apply map_ext_in. intros r Hr. apply map_ext_in. intros slab Hs.
    rewrite Forall_forall in Hb. specialize (Hb _ Hr). rewrite Forall_forall in Hb.
    destruct (Hb _ Hs) as [Hok [E1 E2]].
    rewrite (axis_tr_lin K azero aadd ascale P); auto. unfold Ush, U2, Ushape. now rewrite E1, E2. }
  rewrite Hin. set (inner := map (map (fun slab => linA U2 (concat slab))) b).
  rewrite (axis_tr_lin K (rzero azero (length U2)) (radd aadd) (rscale ascale) (Prow P (length U2))).
  - unfold mat_left_w. f_equal.
    + unfold Ush, Ushape, inner. rewrite map_length. rewrite <- concat_map, map_length. reflexivity.
    + unfold inner. rewrite <- concat_map. unfold mat_right. now rewrite map_map.
  - now apply Prow_zero.
  - intros; now apply Prow_add.
  - intros; now apply Prow_scale.
  - intros; eapply row_A0l; eauto.
  - intros; eapply row_A0r; eauto.
  - intros; eapply (row_S0 K); eauto.
  - intros; eapply (row_S1 K); eauto.
  - split.
    + unfold inner. apply Forall_forall. intros r Hr. apply in_map_iff in Hr. destruct Hr as [r0 [<- Hr0]].
      apply Forall_forall. intros x Hx. apply in_map_iff in Hx. destruct Hx as [slab [<- Hs]].
      rewrite Forall_forall in Hb. specialize (Hb _ Hr0). rewrite Forall_forall in Hb.
      destruct (Hb _ Hs) as [[HP _] _].
      split; [unfold lin; now rewrite map_length|].
      apply (lin_P azero aadd ascale P); auto. now apply concat_P.
    + intros Hs. destruct (H1 Hs) as [Hne [HT Hr]]. repeat split; auto.
      unfold inner. apply Forall_forall. intros r Hr'. apply in_map_iff in Hr'. destruct Hr' as [r0 [<- Hr0]].
      rewrite map_length. rewrite Forall_forall in Hr. now apply Hr.
Qed.

(* hypothesis on a block of shells (s1, s2) for the given types *)
Definition block2_ok (sph1 sph2 : bool) (s1 s2 : @sh F) (blk : list (list (list (list A)))) : Prop :=
  let b := normalise2 ascale (sh_n s1) (sh_n s2) blk in
  Forall (Forall (slab_ok sph2 (sh_T s2) (length (sh_n s2)) (length (concat (sh_n s2))))) b /\
  (sph1 = true -> sh_T s1 <> [] /\ rect (sh_T s1) /\ Forall (fun r => length r = ncols (sh_T s1)) b).

(* T_s of shell s1 for a block with shells (s1, s2) *)
Definition U_left (sph1 : bool) (s1 s2 : @sh F) (blk : list (list (list (list A)))) :=
  let b := normalise2 ascale (sh_n s1) (sh_n s2) blk in
  Ushape K sph1 (sh_T s1) (length b) (length (concat b)).
Definition U_of (sph : bool) (s : @sh F) :=
  Ushape K sph (sh_T s) (length (sh_n s)) (length (concat (sh_n s))).

Lemma axis_width_U sph s : axis_width sph s = length (U_of sph s).
Proof. unfold axis_width, U_of. rewrite length_Ushape. now destruct sph. Qed.

(* per-block form of (a) for two indices *)
Lemma block2_is_cart_transformed sph1 sph2 s1 s2 blk :
  block2_ok sph1 sph2 s1 s2 blk ->
  block2 azero aadd ascale sph1 sph2 s1 s2 blk
  = mat_left_w (axis_width sph2 s2) (U_left sph1 s1 s2 blk)
      (mat_right' (U_of sph2 s2) (block2 azero aadd ascale false false s1 s2 blk)).
Proof.
  intros [Hb H1]. unfold block2 at 1. rewrite axis_width_U. unfold r1add, r1scale, U_of.
  rewrite (block2_core sph1 sph2 (sh_T s1) (sh_T s2) (length (sh_n s2)) (length (concat (sh_n s2)))); auto.
  unfold U_left. f_equal. f_equal. unfold block2, axis_tr. rewrite <- concat_map. reflexivity.
Qed.
End TwoP.

(* ------------------------------------------------------------------ *)
(* Packaged hypotheses and the statements exported to Props/C09.v      *)
(* ------------------------------------------------------------------ *)
(* laws of the module of entries, relativised to the well-shaped entries P
   (P = fun _ => True for scalars) *)
Definition module_laws {F} (K : Fops F) {A} (azero : A) (aadd : A -> A -> A) (ascale : F -> A -> A)
           (P : A -> Prop) : Prop :=
  P azero /\ (forall x y, P x -> P y -> P (aadd x y)) /\ (forall t x, P x -> P (ascale t x)) /\
  (forall x, P x -> aadd azero x = x) /\ (forall x, P x -> aadd x azero = x) /\
  (forall x, P x -> ascale (f0 K) x = azero) /\ (forall x, P x -> ascale (f1 K) x = x).

(* satisfiable: the scalars themselves, over any field *)
Section MLF.
Context {F : Type} (K : Fops F) (Kf : is_field K).
Add Field KF_mlf : Kf.
Lemma module_laws_field : module_laws K (f0 K) (fadd K) (fmul K) (fun _ => True).
Proof. repeat split; auto; intros; ring. Qed.
End MLF.

Section Export1.
Context {F : Type} (K : Fops F).
Context {A : Type} (azero : A) (aadd : A -> A -> A) (ascale : F -> A -> A) (P : A -> Prop).
Hypothesis ML : module_laws K azero aadd ascale P.

Lemma one_mix_is_cart_transformed_L (l : list (@sh F * list (list A))) :
  Forall (shell_ok ascale P) l ->
  one_mix azero aadd ascale l = lin azero aadd ascale (Ubasis K ascale l) (one_cartesian ascale l).
Proof. destruct ML as (H1 & H2 & H3 & H4 & H5 & H6 & H7). now apply (one_mix_is_cart_transformed K azero aadd ascale P). Qed.
End Export1.

(* an instance of the shape hypothesis: one spherical shell with a 1 x 2 transform *)
Lemma shell_ok_example {F} (K : Fops F) (x y : F) :
  Forall (shell_ok (fmul K) (fun _ => True))
    [ (mkSh true [[f1 K; f1 K]] [[f1 K; f1 K]], [[x; y]]); (mkSh false [] [[f1 K]], [[x]]) ].
Proof.
  repeat constructor; cbn; try discriminate; intros _; repeat split; try discriminate; repeat constructor.
Qed.
