(* Proofs/EriSym8P.v — the EIGHT-FOLD SYMMETRY of the processed electron-repulsion blocks as a THEOREM:
   the hypothesis [sym8] of the four-index assembly theorems (Proofs/PermP.v: four_symm_is_concat,
   eri_integral_perm; Proofs/Block4FullP.v: eri_mixed_is_cart_transformed; Props/C11.v, Props/C09_block4.v)
   holds for OneBody.eri_integral's blocks [PermP.Beri]:

     the processed block (four norms, spherical transformations, merged axes) of a permuted shell quartet is the
     correspondingly transposed processed block of (s_i s_j | s_k s_l), as nested lists, for each of the seven
     permuted copies that base_four_symm.py writes,

   for every basis of shells with at least one segment, components of degree <= l, non-zero exponent sums, any
   assignment of coordinate types.  Ingredients: every entry of a processed block is one quadruple sum over the
   raw block (Block4FullP.block4_quadruple_sum), the order of the four summations is irrelevant over a field
   (qsum4_swap..), the raw blocks evaluated independently for the permuted quartets are the transposed raw block
   (EriOrientP.both_orientations_agree_eri_pk: the asymmetric recursion against the symmetric specification).

   Consequences (no symmetry hypothesis left): eri_mixed_is_cart_transformed_full (C09), eri_integral_perm_full
   (C11), eri_integral_is_concat. *)
From Coq Require Import List Arith Lia Bool Field.
From GB Require Import Base.Field Base.FNum Base.Tables Base.Blocks Model.Shell Model.Spherical Model.Assembly
  Model.Assembly14 Model.Overlap Model.TwoElec Model.OneBody
  Proofs.CoreSumP Proofs.BlockMatP Proofs.AssembledP Proofs.AssembledSphP Proofs.AssembledSphOverlapP
  Proofs.PermP Proofs.EriStructP Proofs.TwoElecP Proofs.EriOrientP Proofs.Block4FullP.
Import ListNotations.

(* ------------------------------------------------------------------ *)
(* A. rectangular four-index arrays: extensionality, exchange of two axes *)
(* ------------------------------------------------------------------ *)
Section Rect.
Context {A : Type} (azero : A).
Notation R4 := (list (list (list (list A)))).
Notation g4 := (Assembly14.get4 azero).

Lemma rect4_ext d0 d1 d2 d3 (X Y : R4) :
  rect4 d0 d1 d2 d3 X -> rect4 d0 d1 d2 d3 Y ->
  (forall x0 x1 x2 x3, x0 < d0 -> x1 < d1 -> x2 < d2 -> x3 < d3 -> g4 X x0 x1 x2 x3 = g4 Y x0 x1 x2 x3) ->
  X = Y.
Proof.
  intros [X0 XF] [Y0 YF] H. apply (list_ext_nth []); [congruence|]. intros x0 H0. rewrite X0 in H0.
  destruct (Forall_nth_in _ X [] x0 XF ltac:(lia)) as [X1 XF1].
  destruct (Forall_nth_in _ Y [] x0 YF ltac:(lia)) as [Y1 YF1].
  apply (list_ext_nth []); [congruence|]. intros x1 H1. rewrite X1 in H1.
  destruct (Forall_nth_in _ _ [] x1 XF1 ltac:(lia)) as [X2 XF2].
  destruct (Forall_nth_in _ _ [] x1 YF1 ltac:(lia)) as [Y2 YF2].
  apply (list_ext_nth []); [congruence|]. intros x2 H2. rewrite X2 in H2.
  pose proof (Forall_nth_in _ _ [] x2 XF2 ltac:(lia)) as X3.
  pose proof (Forall_nth_in _ _ [] x2 YF2 ltac:(lia)) as Y3. cbv beta in X3, Y3.
  apply (list_ext_nth azero); [congruence|]. intros x3 H3. rewrite X3 in H3.
  exact (H x0 x1 x2 x3 H0 H1 H2 H3).
Qed.

Lemma rect4_of_lshape d0 d1 d2 d3 (X : R4) :
  lshape (lshape (lshape (lshape (fun _ : A => True) d3) d2) d1) d0 X -> rect4 d0 d1 d2 d3 X.
Proof.
  intros H. unfold rect4.
  refine (lshape_impl _ _ _ _ _ H). intros x3. refine (lshape_impl _ _ _ _ _). intros x2.
  refine (lshape_impl _ _ _ _ _). intros x1 [H1 _]. exact H1.
Qed.

Lemma rect4_mk d0 d1 d2 d3 (f : nat -> nat -> nat -> nat -> A) :
  rect4 d0 d1 d2 d3 (mk d0 (fun x0 => mk d1 (fun x1 => mk d2 (fun x2 => mk d3 (fun x3 => f x0 x1 x2 x3))))).
Proof.
  split; [apply mk_length|]. apply Forall_mk'; intros x0 _.
  split; [apply mk_length|]. apply Forall_mk'; intros x1 _.
  split; [apply mk_length|]. apply Forall_mk'; intros x2 _. apply mk_length.
Qed.

(* exchange of the axes a, b of a rectangular array with positive dimensions *)
Lemma swapax_spec a b (blk : R4) d0 d1 d2 d3 :
  rect4 d0 d1 d2 d3 blk -> 0 < d0 -> 0 < d1 -> 0 < d2 ->
  let ds := swapl a b [d0; d1; d2; d3] 0 in
  rect4 (nth 0 ds 0) (nth 1 ds 0) (nth 2 ds 0) (nth 3 ds 0) (swapax azero a b blk) /\
  forall x0 x1 x2 x3, x0 < nth 0 ds 0 -> x1 < nth 1 ds 0 -> x2 < nth 2 ds 0 -> x3 < nth 3 ds 0 ->
    g4 (swapax azero a b blk) x0 x1 x2 x3
    = (let ix := swapl a b [x0; x1; x2; x3] 0 in g4 blk (nth 0 ix 0) (nth 1 ix 0) (nth 2 ix 0) (nth 3 ix 0)).
Proof.
  intros HR P0 P1 P2 ds. pose proof (rect4_dims _ _ _ _ _ HR P0 P1 P2) as Hd. split.
  - unfold swapax. rewrite Hd. fold ds. apply rect4_mk.
  - intros x0 x1 x2 x3 H0 H1 H2 H3. apply get4_swapax; rewrite Hd; assumption.
Qed.
End Rect.

(* ------------------------------------------------------------------ *)
(* B. the processed ERI block of a shell quartet, entry by entry        *)
(* ------------------------------------------------------------------ *)
Section Quartet.
Context {F : Type} (K : Fops F) (Kf : is_field K).
Add Field KFsym8 : Kf.
Local Open Scope F_scope.
Notation "0" := (f0 K) : F_scope.
Notation "1" := (f1 K) : F_scope.
Infix "+" := (fadd K) : F_scope.
Infix "*" := (fmul K) : F_scope.
Hypothesis Hapx : forall x : F, fapx K x = x.
Hypothesis char0 : forall n, ofnat K (S n) <> 0.

Notation g4 := (Assembly14.get4 (f0 K)).
Local Open Scope nat_scope.

Definition shK (s : shell F) : @sh F := mkSh (s_sph s) (shell_transform K s) (norm_cont K s).
Definition Bq (a b c d : shell F) : list (list (list (list F))) :=
  block4 (f0 K) (fadd K) (fmul K) (s_sph a) (s_sph b) (s_sph c) (s_sph d) (shK a) (shK b) (shK c) (shK d)
         (eri_block K a b c d).
Definition Ucf (s : shell F) (q c : nat) : F := ucoef K (s_sph s) (shell_transform K s) q c.

(* the quadruple sum an entry of the processed block stands for *)
Definition Eq (a b c d : shell F) (m1 q1 m2 q2 m3 q3 m4 q4 : nat) : F :=
  qsum4 K (ncomp a) (ncomp b) (ncomp c) (ncomp d) (fun c1 c2 c3 c4 =>
    (Ucf a q1 c1 * Ucf b q2 c2 * Ucf c q3 c3 * Ucf d q4 c4
     * (ncont K d m4 c4 * (ncont K c m3 c3 * (ncont K b m2 c2 * (ncont K a m1 c1
          * TwoElec.get8 K (eri_block K a b c d) m1 c1 m2 c2 m3 c3 m4 c4)))))%F).

Lemma Bq_shape a b c d : rect4 (odim a) (odim b) (odim c) (odim d) (Bq a b c d).
Proof.
  apply rect4_of_lshape. unfold Bq, odim. rewrite <- (osz_shell K a), <- (osz_shell K b), <- (osz_shell K c), <- (osz_shell K d).
  exact (block4_shape K (f0 K) (fadd K) (fmul K) _ _ _ _ (shK a) (shK b) (shK c) (shK d) _ _ _ _ _ _ _ _ _
           (norm_cont_nsh K a) (norm_cont_nsh K b) (norm_cont_nsh K c) (norm_cont_nsh K d) (eri_block_sh8 K a b c d)
           (fun _ => shell_transform_rows K a) (fun _ => shell_transform_rows K b)
           (fun _ => shell_transform_rows K c) (fun _ => shell_transform_rows K d)).
Qed.

Lemma Bq_entry a b c d m1 q1 m2 q2 m3 q3 m4 q4 :
  m1 < nseg a -> q1 < osize a -> m2 < nseg b -> q2 < osize b ->
  m3 < nseg c -> q3 < osize c -> m4 < nseg d -> q4 < osize d ->
  g4 (Bq a b c d) (m1 * osize a + q1) (m2 * osize b + q2) (m3 * osize c + q3) (m4 * osize d + q4)
  = Eq a b c d m1 q1 m2 q2 m3 q3 m4 q4.
Proof.
  intros H1 H2 H3 H4 H5 H6 H7 H8. unfold Bq, Eq.
  rewrite <- (osz_shell K a), <- (osz_shell K b), <- (osz_shell K c), <- (osz_shell K d) in *.
  etransitivity; [exact (block4_quadruple_sum K Kf _ _ _ _ (shK a) (shK b) (shK c) (shK d) _ _ _ _ _ _ _ _ _
           (norm_cont_nsh K a) (norm_cont_nsh K b) (norm_cont_nsh K c) (norm_cont_nsh K d) (eri_block_sh8 K a b c d)
           (fun _ => shell_transform_rows K a) (fun _ => shell_transform_rows K b)
           (fun _ => shell_transform_rows K c) (fun _ => shell_transform_rows K d)
           m1 q1 m2 q2 m3 q3 m4 q4 H1 H2 H3 H4 H5 H6 H7 H8)|].
  apply qsum4_ext. intros c1 c2 c3 c4 Hc1 Hc2 Hc3 Hc4.
  rewrite (block4_cart_entry K (f0 K) (fadd K) (fmul K) (shK a) (shK b) (shK c) (shK d) _ _ _ _ _ _ _ _ _
           (norm_cont_nsh K a) (norm_cont_nsh K b) (norm_cont_nsh K c) (norm_cont_nsh K d) (eri_block_sh8 K a b c d)
           m1 c1 m2 c2 m3 c3 m4 c4 H1 Hc1 H3 Hc2 H5 Hc3 H7 Hc4).
  reflexivity.
Qed.

(* hypotheses on a quartet *)
Definition comps_deg (s : shell F) : Prop := forall i, i < ncomp s -> compsum (nth i (comps_of s) (0, 0, 0)) <= s_l s.

Lemma raw_sym o a b c d m1 i1 m2 i2 m3 i3 m4 i4 :
  EriOrientP.exps_ok K a b c d -> comps_deg a -> comps_deg b -> comps_deg c -> comps_deg d ->
  m1 < nseg a -> i1 < ncomp a -> m2 < nseg b -> i2 < ncomp b ->
  m3 < nseg c -> i3 < ncomp c -> m4 < nseg d -> i4 < ncomp d ->
  TwoElec.get8 K (eri_block K (opick1 o a b c d) (opick2 o a b c d) (opick3 o a b c d) (opick4 o a b c d))
         (opick1 o m1 m2 m3 m4) (opick1 o i1 i2 i3 i4) (opick2 o m1 m2 m3 m4) (opick2 o i1 i2 i3 i4)
         (opick3 o m1 m2 m3 m4) (opick3 o i1 i2 i3 i4) (opick4 o m1 m2 m3 m4) (opick4 o i1 i2 i3 i4)
  = TwoElec.get8 K (eri_block K a b c d) m1 i1 m2 i2 m3 i3 m4 i4.
Proof.
  intros He Da Db Dc Dd H1 H2 H3 H4 H5 H6 H7 H8.
  apply (both_orientations_agree_eri_pk K Kf char0 o a b c d m1 i1 m2 i2 m3 i3 m4 i4 Hapx He).
  unfold idx_ok, ncomp in *. repeat split; auto.
Qed.

Section Gen.
Variables a b c d : shell F.
Hypothesis He : EriOrientP.exps_ok K a b c d.
Hypothesis Da : comps_deg a.
Hypothesis Db : comps_deg b.
Hypothesis Dc : comps_deg c.
Hypothesis Dd : comps_deg d.
Variables m1 q1 m2 q2 m3 q3 m4 q4 : nat.
Hypothesis H1 : m1 < nseg a.
Hypothesis H3 : m2 < nseg b.
Hypothesis H5 : m3 < nseg c.
Hypothesis H7 : m4 < nseg d.

Lemma Eq_ab : Eq b a c d m2 q2 m1 q1 m3 q3 m4 q4 = Eq a b c d m1 q1 m2 q2 m3 q3 m4 q4.
Proof.
  unfold Eq. etransitivity; [apply (qsum4_swap12 K Kf)|].
  apply qsum4_ext. intros c1 c2 c3 c4 Hc1 Hc2 Hc3 Hc4. cbv beta.
  rewrite (raw_sym O_bacd a b c d m1 c1 m2 c2 m3 c3 m4 c4 He Da Db Dc Dd H1 Hc1 H3 Hc2 H5 Hc3 H7 Hc4 : 
             TwoElec.get8 K (eri_block K b a c d) m2 c2 m1 c1 m3 c3 m4 c4 = _).
  ring.
Qed.

Lemma Eq_cd : Eq a b d c m1 q1 m2 q2 m4 q4 m3 q3 = Eq a b c d m1 q1 m2 q2 m3 q3 m4 q4.
Proof.
  unfold Eq. etransitivity; [apply (qsum4_swap34 K Kf)|].
  apply qsum4_ext. intros c1 c2 c3 c4 Hc1 Hc2 Hc3 Hc4. cbv beta.
  rewrite (raw_sym O_abdc a b c d m1 c1 m2 c2 m3 c3 m4 c4 He Da Db Dc Dd H1 Hc1 H3 Hc2 H5 Hc3 H7 Hc4 : 
             TwoElec.get8 K (eri_block K a b d c) m1 c1 m2 c2 m4 c4 m3 c3 = _).
  ring.
Qed.

Lemma Eq_el : Eq c d a b m3 q3 m4 q4 m1 q1 m2 q2 = Eq a b c d m1 q1 m2 q2 m3 q3 m4 q4.
Proof.
  unfold Eq.
  etransitivity; [apply (qsum4_swap23 K Kf)|].
  etransitivity; [apply (qsum4_swap12 K Kf)|].
  etransitivity; [apply (qsum4_swap34 K Kf)|].
  etransitivity; [apply (qsum4_swap23 K Kf)|].
  apply qsum4_ext. intros c1 c2 c3 c4 Hc1 Hc2 Hc3 Hc4. cbv beta.
  rewrite (raw_sym O_cdab a b c d m1 c1 m2 c2 m3 c3 m4 c4 He Da Db Dc Dd H1 Hc1 H3 Hc2 H5 Hc3 H7 Hc4 : 
             TwoElec.get8 K (eri_block K c d a b) m3 c3 m4 c4 m1 c1 m2 c2 = _).
  ring.
Qed.
End Gen.
End Quartet.

(* ------------------------------------------------------------------ *)
(* C. the eight-fold symmetry of the processed blocks of a basis        *)
(* ------------------------------------------------------------------ *)
Lemma dm_idx x M O : x < M * O -> x / O < M /\ x mod O < O /\ x = (x / O) * O + x mod O.
Proof.
  intros H. assert (HO : 0 < O) by nia. split; [|split].
  - apply Nat.div_lt_upper_bound; lia.
  - apply Nat.mod_upper_bound. lia.
  - rewrite (Nat.div_mod x O) at 1 by lia. lia.
Qed.

Section Sym8.
Context {F : Type} (K : Fops F) (Kf : is_field K).
Hypothesis Hapx : forall x : F, fapx K x = x.
Hypothesis char0 : forall n, ofnat K (S n) <> f0 K.
Variable bs : list (shell F).

(* every shell has a segment and components of degree <= l; all exponent sums are non-zero *)
Definition eri_basis_ok : Prop :=
  seg_basis bs /\ (forall s, In s bs -> comps_deg s) /\
  (forall a b c d, In a bs -> In b bs -> In c bs -> In d bs -> EriOrientP.exps_ok K a b c d).
Hypothesis OK : eri_basis_ok.

Notation g4 := (Assembly14.get4 (f0 K)).
Notation Bq' := (Bq K).
Notation Eq' := (Eq K).

Lemma odim_pos s : In s bs -> 0 < odim s.
Proof. intros Hs. unfold odim. pose proof (proj1 OK s Hs). pose proof (osize_pos s). nia. Qed.

Lemma Bq_get a b c d x0 x1 x2 x3 :
  x0 < odim a -> x1 < odim b -> x2 < odim c -> x3 < odim d ->
  g4 (Bq' a b c d) x0 x1 x2 x3
  = Eq' a b c d (x0 / osize a) (x0 mod osize a) (x1 / osize b) (x1 mod osize b)
                (x2 / osize c) (x2 mod osize c) (x3 / osize d) (x3 mod osize d).
Proof.
  intros H0 H1 H2 H3.
  destruct (dm_idx x0 _ _ H0) as (A1 & A2 & A3). destruct (dm_idx x1 _ _ H1) as (B1 & B2 & B3).
  destruct (dm_idx x2 _ _ H2) as (C1 & C2 & C3). destruct (dm_idx x3 _ _ H3) as (D1 & D2 & D3).
  rewrite A3 at 1. rewrite B3 at 1. rewrite C3 at 1. rewrite D3 at 1.
  now apply (Bq_entry K Kf).
Qed.

Section Q.
Variables a b c d : shell F.
Hypothesis Ia : In a bs.
Hypothesis Ib : In b bs.
Hypothesis Ic : In c bs.
Hypothesis Id : In d bs.
Let OKs := proj1 OK.
Let OKd := proj1 (proj2 OK).
Let OKe := proj2 (proj2 OK).

(* entries of the permuted blocks *)
Lemma G_ab x0 x1 x2 x3 : x0 < odim a -> x1 < odim b -> x2 < odim c -> x3 < odim d ->
  g4 (Bq' b a c d) x1 x0 x2 x3 = g4 (Bq' a b c d) x0 x1 x2 x3.
Proof.
  intros H0 H1 H2 H3. rewrite !Bq_get by assumption.
  destruct (dm_idx x0 _ _ H0) as (A1 & _). destruct (dm_idx x1 _ _ H1) as (B1 & _).
  destruct (dm_idx x2 _ _ H2) as (C1 & _). destruct (dm_idx x3 _ _ H3) as (D1 & _).
  apply (Eq_ab K Kf Hapx char0 a b c d (OKe a b c d Ia Ib Ic Id) (OKd a Ia) (OKd b Ib) (OKd c Ic) (OKd d Id)); assumption.
Qed.
Lemma G_cd x0 x1 x2 x3 : x0 < odim a -> x1 < odim b -> x2 < odim c -> x3 < odim d ->
  g4 (Bq' a b d c) x0 x1 x3 x2 = g4 (Bq' a b c d) x0 x1 x2 x3.
Proof.
  intros H0 H1 H2 H3. rewrite !Bq_get by assumption.
  destruct (dm_idx x0 _ _ H0) as (A1 & _). destruct (dm_idx x1 _ _ H1) as (B1 & _).
  destruct (dm_idx x2 _ _ H2) as (C1 & _). destruct (dm_idx x3 _ _ H3) as (D1 & _).
  apply (Eq_cd K Kf Hapx char0 a b c d (OKe a b c d Ia Ib Ic Id) (OKd a Ia) (OKd b Ib) (OKd c Ic) (OKd d Id)); assumption.
Qed.
Lemma G_el x0 x1 x2 x3 : x0 < odim a -> x1 < odim b -> x2 < odim c -> x3 < odim d ->
  g4 (Bq' c d a b) x2 x3 x0 x1 = g4 (Bq' a b c d) x0 x1 x2 x3.
Proof.
  intros H0 H1 H2 H3. rewrite !Bq_get by assumption.
  destruct (dm_idx x0 _ _ H0) as (A1 & _). destruct (dm_idx x1 _ _ H1) as (B1 & _).
  destruct (dm_idx x2 _ _ H2) as (C1 & _). destruct (dm_idx x3 _ _ H3) as (D1 & _).
  apply (Eq_el K Kf Hapx char0 a b c d (OKe a b c d Ia Ib Ic Id) (OKd a Ia) (OKd b Ib) (OKd c Ic) (OKd d Id)); assumption.
Qed.
End Q.

(* the four list-level laws *)
Section L.
Variables a b c d : shell F.
Hypothesis Ia : In a bs.
Hypothesis Ib : In b bs.
Hypothesis Ic : In c bs.
Hypothesis Id : In d bs.
Notation sw := (swapax (f0 K)).

Lemma L_ab : Bq' b a c d = sw 0 1 (Bq' a b c d).
Proof.
  destruct (swapax_spec (f0 K) 0 1 (Bq' a b c d) _ _ _ _ (Bq_shape K a b c d)
              (odim_pos a Ia) (odim_pos b Ib) (odim_pos c Ic)) as [S E]. cbv beta iota zeta delta [swapl mk map seq length nth Nat.eqb] in S, E.
  apply (rect4_ext (f0 K) _ _ _ _ _ _ (Bq_shape K b a c d) S).
  intros x0 x1 x2 x3 H0 H1 H2 H3. rewrite E by assumption. now apply G_ab.
Qed.

Lemma L_cd : Bq' a b d c = sw 2 3 (Bq' a b c d).
Proof.
  destruct (swapax_spec (f0 K) 2 3 (Bq' a b c d) _ _ _ _ (Bq_shape K a b c d)
              (odim_pos a Ia) (odim_pos b Ib) (odim_pos c Ic)) as [S E]. cbv beta iota zeta delta [swapl mk map seq length nth Nat.eqb] in S, E.
  apply (rect4_ext (f0 K) _ _ _ _ _ _ (Bq_shape K a b d c) S).
  intros x0 x1 x2 x3 H0 H1 H2 H3. rewrite E by assumption. now apply G_cd.
Qed.

Lemma L_el : Bq' c d a b = sw 0 2 (sw 1 3 (Bq' a b c d)).
Proof.
  destruct (swapax_spec (f0 K) 1 3 (Bq' a b c d) _ _ _ _ (Bq_shape K a b c d)
              (odim_pos a Ia) (odim_pos b Ib) (odim_pos c Ic)) as [S1 E1]. cbv beta iota zeta delta [swapl mk map seq length nth Nat.eqb] in S1, E1.
  destruct (swapax_spec (f0 K) 0 2 (sw 1 3 (Bq' a b c d)) _ _ _ _ S1
              (odim_pos a Ia) (odim_pos d Id) (odim_pos c Ic)) as [S2 E2]. cbv beta iota zeta delta [swapl mk map seq length nth Nat.eqb] in S2, E2.
  apply (rect4_ext (f0 K) _ _ _ _ _ _ (Bq_shape K c d a b) S2).
  intros x0 x1 x2 x3 H0 H1 H2 H3. rewrite E2 by assumption. rewrite E1 by assumption. now apply G_el.
Qed.
End L.

Lemma L_rev a b c d : In a bs -> In b bs -> In c bs -> In d bs ->
  Bq' d c b a = swapax (f0 K) 0 3 (swapax (f0 K) 1 2 (Bq' a b c d)).
Proof.
  intros Ia Ib Ic Id.
  destruct (swapax_spec (f0 K) 1 2 (Bq' a b c d) _ _ _ _ (Bq_shape K a b c d)
              (odim_pos a Ia) (odim_pos b Ib) (odim_pos c Ic)) as [S1 E1]. cbv beta iota zeta delta [swapl mk map seq length nth Nat.eqb] in S1, E1.
  destruct (swapax_spec (f0 K) 0 3 (swapax (f0 K) 1 2 (Bq' a b c d)) _ _ _ _ S1
              (odim_pos a Ia) (odim_pos c Ic) (odim_pos b Ib)) as [S2 E2]. cbv beta iota zeta delta [swapl mk map seq length nth Nat.eqb] in S2, E2.
  apply (rect4_ext (f0 K) _ _ _ _ _ _ (Bq_shape K d c b a) S2).
  intros x0 x1 x2 x3 H0 H1 H2 H3. rewrite E2 by assumption. rewrite E1 by assumption.
  (* (d c | b a) -> (b a | d c) -> (a b | d c) -> (a b | c d) *)
  rewrite (G_el b a d c Ib Ia Id Ic x2 x3 x0 x1) by assumption.
  rewrite (G_ab a b d c Ia Ib Id Ic x3 x2 x0 x1) by assumption.
  now apply G_cd.
Qed.

(* ---- the blocks of the basis ---- *)
Notation s_ k := (sh_at K bs k).

Lemma Beri_Bq i j k l : i < length bs -> j < length bs -> k < length bs -> l < length bs ->
  Beri K bs i j k l = Bq' (s_ i) (s_ j) (s_ k) (s_ l).
Proof.
  intros Hi Hj Hk Hl. unfold Beri, B4f, Bq, shK. cbv zeta.
  rewrite !(ess_nth K bs) by assumption. rewrite (ebf_eq K bs) by assumption. reflexivity.
Qed.

Theorem eri_sym8 : sym8 (f0 K) (length bs) (Beri K bs).
Proof.
  intros i j k l Hi Hj Hk Hl.
  assert (Ii : In (s_ i) bs) by (now apply nth_In). assert (Ij : In (s_ j) bs) by (now apply nth_In).
  assert (Ik : In (s_ k) bs) by (now apply nth_In). assert (Il : In (s_ l) bs) by (now apply nth_In).
  rewrite !Beri_Bq by assumption.
  repeat split.
  - now apply L_cd.
  - now apply L_ab.
  - rewrite <- (L_cd (s_ i) (s_ j) (s_ k) (s_ l)) by assumption. now apply L_ab.
  - now apply L_el.
  - rewrite <- (L_el (s_ i) (s_ j) (s_ k) (s_ l)) by assumption. now apply L_ab.
  - rewrite <- (L_el (s_ i) (s_ j) (s_ k) (s_ l)) by assumption. now apply L_cd.
  - now apply L_rev.
Qed.
End Sym8.

(* ------------------------------------------------------------------ *)
(* D. consequences: no symmetry hypothesis left                          *)
(* ------------------------------------------------------------------ *)
Section Full.
Context {F : Type} (K : Fops F) (Kf : is_field K).
Hypothesis Hapx : forall x : F, fapx K x = x.
Hypothesis char0 : forall n, ofnat K (S n) <> f0 K.
Variable bs : list (shell F).
Hypothesis OK : eri_basis_ok K bs.
Notation s_ k := (sh_at K bs k).
Notation n := (length bs).

Lemma eri_basis_ok_to_cart : eri_basis_ok K (map to_cart bs).
Proof.
  destruct OK as (C & D & E). split; [|split].
  - intros s Hs. apply in_map_iff in Hs. destruct Hs as [s0 [<- H0]]. exact (C s0 H0).
  - intros s Hs. apply in_map_iff in Hs. destruct Hs as [s0 [<- H0]]. exact (D s0 H0).
  - intros a b c d Ha Hb Hc Hd.
    apply in_map_iff in Ha. destruct Ha as [a0 [<- Ha0]]. apply in_map_iff in Hb. destruct Hb as [b0 [<- Hb0]].
    apply in_map_iff in Hc. destruct Hc as [c0 [<- Hc0]]. apply in_map_iff in Hd. destruct Hd as [d0 [<- Hd0]].
    exact (E a0 b0 c0 d0 Ha0 Hb0 Hc0 Hd0).
Qed.

Lemma Beri_shape4 : shape4 n (fun k => odim (s_ k)) (Beri K bs).
Proof.
  intros i j k l Hi Hj Hk Hl. rewrite (Beri_Bq K bs) by assumption. exact (Bq_shape K _ _ _ _).
Qed.

(* the store-and-concatenate assembly of base_four_symm.py is the plain concatenation of all n^4 blocks *)
Theorem eri_integral_is_concat : eri_integral K bs None false = four_concat n (Beri K bs).
Proof.
  rewrite eri_integral_chem.
  rewrite (four_symm_is_concat (f0 K) (fadd K) (fmul K) 2 (ess K bs) (ebf K bs)); rewrite ess_length; [reflexivity|].
  exact (eri_sym8 K Kf Hapx char0 bs OK).
Qed.

(* EVERY entry of the assembled ERI array: the quadruple sum over the raw block of its own shell quartet *)
Theorem eri_integral_entry i j k l m1 q1 m2 q2 m3 q3 m4 q4 :
  i < n -> j < n -> k < n -> l < n ->
  m1 < nseg (s_ i) -> q1 < osize (s_ i) -> m2 < nseg (s_ j) -> q2 < osize (s_ j) ->
  m3 < nseg (s_ k) -> q3 < osize (s_ k) -> m4 < nseg (s_ l) -> q4 < osize (s_ l) ->
  Assembly14.get4 (f0 K) (eri_integral K bs None false)
    (oidx K bs i m1 q1) (oidx K bs j m2 q2) (oidx K bs k m3 q3) (oidx K bs l m4 q4)
  = Eq K (s_ i) (s_ j) (s_ k) (s_ l) m1 q1 m2 q2 m3 q3 m4 q4.
Proof.
  intros Hi Hj Hk Hl H1 H2 H3 H4 H5 H6 H7 H8. rewrite eri_integral_is_concat.
  unfold oidx, ooff. rewrite <- !off_offs.
  rewrite (four_concat_entry (f0 K) n (fun t => odim (s_ t)) _ Beri_shape4 i j k l)
    by (try assumption; unfold odim; now apply idx_lt).
  rewrite (Beri_Bq K bs) by assumption. now apply (Bq_entry K Kf).
Qed.

(* C09: mixed basis = T (x) T (x) T (x) T applied to the all-Cartesian array *)
Theorem eri_mixed_is_cart_transformed_full i j k l m1 q1 m2 q2 m3 q3 m4 q4 :
  i < n -> j < n -> k < n -> l < n ->
  m1 < nseg (s_ i) -> q1 < osize (s_ i) -> m2 < nseg (s_ j) -> q2 < osize (s_ j) ->
  m3 < nseg (s_ k) -> q3 < osize (s_ k) -> m4 < nseg (s_ l) -> q4 < osize (s_ l) ->
  Assembly14.get4 (f0 K) (eri_integral K bs None false)
    (oidx K bs i m1 q1) (oidx K bs j m2 q2) (oidx K bs k m3 q3) (oidx K bs l m4 q4)
  = tsum K (f0 K) (fadd K) (fmul K) (s_sph (s_ i)) (shell_transform K (s_ i)) (ncomp (s_ i)) q1 (fun c1 =>
    tsum K (f0 K) (fadd K) (fmul K) (s_sph (s_ j)) (shell_transform K (s_ j)) (ncomp (s_ j)) q2 (fun c2 =>
    tsum K (f0 K) (fadd K) (fmul K) (s_sph (s_ k)) (shell_transform K (s_ k)) (ncomp (s_ k)) q3 (fun c3 =>
    tsum K (f0 K) (fadd K) (fmul K) (s_sph (s_ l)) (shell_transform K (s_ l)) (ncomp (s_ l)) q4 (fun c4 =>
      Assembly14.get4 (f0 K) (eri_integral K (map to_cart bs) None false)
        (gidx K bs i m1 c1) (gidx K bs j m2 c2) (gidx K bs k m3 c3) (gidx K bs l m4 c4))))).
Proof.
  apply (eri_mixed_is_cart_transformed K bs).
  - exact (eri_sym8 K Kf Hapx char0 bs OK).
  - rewrite <- (map_length to_cart bs). exact (eri_sym8 K Kf Hapx char0 (map to_cart bs) eri_basis_ok_to_cart).
Qed.

(* C11: reordering / selecting the shells only reorders the four basis-function indices *)
Theorem eri_integral_perm_full ds p :
  Forall (fun k => k < n) p ->
  let r := fun k => odim (s_ k) in
  forall x1 x2 x3 x4, x1 < length (iperm r p) -> x2 < length (iperm r p) ->
    x3 < length (iperm r p) -> x4 < length (iperm r p) ->
  Assembly14.get4 (f0 K) (eri_integral K (sel ds p bs) None false) x1 x2 x3 x4
  = Assembly14.get4 (f0 K) (eri_integral K bs None false)
      (nth x1 (iperm r p) 0) (nth x2 (iperm r p) 0) (nth x3 (iperm r p) 0) (nth x4 (iperm r p) 0).
Proof.
  intros Hp r. apply (eri_integral_perm K bs ds r p Beri_shape4 (eri_sym8 K Kf Hapx char0 bs OK) Hp).
Qed.
End Full.

(* ------------------------------------------------------------------ *)
(* the hypotheses are satisfiable: a mixed basis over Qc (spherical d shell, Cartesian p shell, s shell; two
   primitives each, Proofs/TwoElecP.ex_shell)                            *)
(* ------------------------------------------------------------------ *)
From Coq Require Import QArith Qcanon.

Definition ex_sph (s : shell Qc) : shell Qc :=
  mkShell Qc (s_l s) (s_x s) (s_y s) (s_z s) (s_exps s) (s_coeffs s) true (s_comps s) (s_labels s).
Definition ex_eri_basis : list (shell Qc) := [ex_sph ex_s2; ex_s1; ex_s3].

Definition ex_exps : list Qc := [qc_of 3 2; qc_of 1 4; qc_of 1 1; qc_of 1 2; qc_of 2 1].
Lemma ex_exps_in s x : In s ex_eri_basis -> In x (s_exps s) -> In x ex_exps.
Proof.
  intros [<-|[<-|[<-|[]]]] Hx; cbn [s_exps ex_sph ex_s1 ex_s2 ex_s3 ex_shell In ex_exps] in Hx |- *; tauto.
Qed.

Lemma ex_nz2 : forall x y, In x ex_exps -> In y ex_exps -> fadd KQ4 x y <> f0 KQ4.
Proof.
  assert (B : forallb (fun x => forallb (fun y => negb (Qeq_bool (fadd KQ4 x y) (f0 KQ4))) ex_exps) ex_exps = true)
    by (vm_compute; reflexivity).
  intros x y Hx Hy. rewrite forallb_forall in B. specialize (B x Hx). rewrite forallb_forall in B.
  specialize (B y Hy). apply qc_neq_of_bool. now destruct (Qeq_bool (fadd KQ4 x y) (f0 KQ4)).
Qed.
Lemma ex_nz4 : forall x y z w, In x ex_exps -> In y ex_exps -> In z ex_exps -> In w ex_exps ->
  fadd KQ4 (fadd KQ4 x y) (fadd KQ4 z w) <> f0 KQ4.
Proof.
  assert (B : forallb (fun x => forallb (fun y => forallb (fun z => forallb (fun w =>
                negb (Qeq_bool (fadd KQ4 (fadd KQ4 x y) (fadd KQ4 z w)) (f0 KQ4))) ex_exps) ex_exps) ex_exps) ex_exps = true)
    by (vm_compute; reflexivity).
  intros x y z w Hx Hy Hz Hw. rewrite forallb_forall in B. specialize (B x Hx). rewrite forallb_forall in B.
  specialize (B y Hy). rewrite forallb_forall in B. specialize (B z Hz). rewrite forallb_forall in B.
  specialize (B w Hw). apply qc_neq_of_bool.
  now destruct (Qeq_bool (fadd KQ4 (fadd KQ4 x y) (fadd KQ4 z w)) (f0 KQ4)).
Qed.

Lemma ex_eri_basis_ok : eri_basis_ok KQ4 ex_eri_basis.
Proof.
  split; [|split].
  - intros s [<-|[<-|[<-|[]]]]; vm_compute; lia.
  - intros s [<-|[<-|[<-|[]]]] i Hi; vm_compute in Hi;
      do 7 (destruct i as [|i]; [vm_compute; lia|]); lia.
  - intros a b c d Ha Hb Hc Hd. repeat split.
    + intros x y Hx Hy. apply ex_nz2; [exact (ex_exps_in a x Ha Hx)|exact (ex_exps_in b y Hb Hy)].
    + intros x y Hx Hy. apply ex_nz2; [exact (ex_exps_in c x Hc Hx)|exact (ex_exps_in d y Hd Hy)].
    + intros x y z w Hx Hy Hz Hw.
      apply ex_nz4; [exact (ex_exps_in a x Ha Hx)|exact (ex_exps_in b y Hb Hy)|exact (ex_exps_in c z Hc Hz)|exact (ex_exps_in d w Hd Hw)].
Qed.

Example ex_eri_full :
  is_field KQ4 /\ (forall x, fapx KQ4 x = x) /\ (forall n, ofnat KQ4 (S n) <> f0 KQ4) /\
  eri_basis_ok KQ4 ex_eri_basis /\ ototal KQ4 ex_eri_basis = 9%nat /\
  sym8 (f0 KQ4) 3%nat (Beri KQ4 ex_eri_basis).
Proof.
  split; [exact KQ4_field|]. split; [reflexivity|]. split; [exact orient_char0_ex|].
  split; [exact ex_eri_basis_ok|]. split; [vm_compute; reflexivity|].
  exact (eri_sym8 KQ4 KQ4_field (fun x => eq_refl) orient_char0_ex ex_eri_basis ex_eri_basis_ok).
Qed.
