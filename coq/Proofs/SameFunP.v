(* Proofs/SameFunP.v — property C16: the evaluation model (Model/Eval.v) and the integral models
   (Model/MomentInt.v, Model/DiffOp.v through Model/Overlap.two_symm_integral) describe ONE family of
   functions.

   A FUNCTION DESCRIPTOR [fdesc] is a finite list of weighted primitive Cartesian Gaussians
   (weight, centre, exponent, monomial).  [descr s] extracts from a shell the descriptors of its functions,
   segment-major then component:
     Cartesian function (m, c)   : one term per primitive k with weight
                                   norm_cont[m][c] * (coeff[k][m] * norm_prim(l, c, alpha_k)), monomial c;
     spherical function (m, row) : the combination of the segment's Cartesian descriptors with the entries
                                   of the row of generate_transformation (Model/Spherical.shell_transform).
   EVALUATION side:  evaluate_deriv_basis_model / evaluate_basis_model return, row by row,
                     [deriv_spec o d r] / [eval_spec d r] of the descriptors [descr_basis basis]
                     (same_function_eval, same_function_eval_transformed).
   INTEGRAL side:    every processed shell-pair block of overlap / kinetic / moment integrals is the table
                     of [pair_spec I d1 d2] = sum_{t1 in d1} sum_{t2 in d2} w1 w2 I(t1, t2) over the SAME
                     descriptors, I being the E-functional of a pair of primitives (same_function_pblock_overlap etc.),
                     and the assembled matrices are these tables placed by two_symm_blocks.
   BRIDGE:           for ANY functional Lin on functions of a point that is additive, homogeneous,
                     extensional and returns w1 w2 I(t1, t2) on the product of two primitives (that is (B1) of
                     DESIGN 2.6 when Lin is the Lebesgue integral — trusted, a hypothesis here), Lin of the
                     product of two evaluated functions is the model's matrix entry and Lin of the density is
                     tr(P S) (lin_of_product, lin_of_density). *)
From Coq Require Import List Arith Lia Bool Field.
From GB Require Import Base.Field Base.FNum Base.Tables Gauss.Moment1D Model.Shell Model.MomentInt
  Model.Spherical Model.Assembly Model.Overlap Model.DiffOp Model.OneBody Model.Eval
  Proofs.BlockP Proofs.OverlapP Proofs.MomentIntP Proofs.DiffOpP Proofs.EvalP.
Import ListNotations.

(* ------------------------------------------------------------------ *)
(* list utilities                                                       *)
(* ------------------------------------------------------------------ *)
Section ListU.
Context {A B C D : Type}.

Lemma combine_map_both (f : A -> B) (g : A -> C) (l : list A) :
  combine (map f l) (map g l) = map (fun x => (f x, g x)) l.
Proof. induction l as [|a l IH]; cbn; [reflexivity|]. now rewrite IH. Qed.

Lemma combine_map_r' (g : B -> C) (l : list A) (l2 : list B) :
  combine l (map g l2) = map (fun p => (fst p, g (snd p))) (combine l l2).
Proof. revert l2; induction l as [|a l IH]; intros [|b l2]; cbn; [reflexivity..|]. now rewrite IH. Qed.

Lemma combine_map_l' (g : A -> C) (l : list A) (l2 : list B) :
  combine (map g l) l2 = map (fun p => (g (fst p), snd p)) (combine l l2).
Proof. revert l2; induction l as [|a l IH]; intros [|b l2]; cbn; [reflexivity..|]. now rewrite IH. Qed.

Lemma combine_swap (l : list A) (l2 : list B) :
  combine l l2 = map (fun p => (snd p, fst p)) (combine l2 l).
Proof. revert l2; induction l as [|a l IH]; intros [|b l2]; cbn; [reflexivity..|]. now rewrite IH. Qed.

Lemma map_as_mk (f : A -> B) (l : list A) (d : A) :
  map f l = mk (length l) (fun i => f (nth i l d)).
Proof.
  unfold mk. induction l as [|a l IH]; cbn [map length seq]; [reflexivity|].
  rewrite <- seq_shift, map_map. cbn [nth]. now rewrite IH.
Qed.

Lemma in_combine_seq (l : list A) n x i : In (x, i) (combine l (seq 0 n)) -> i < n.
Proof. intros H. apply in_combine_r in H. apply in_seq in H. lia. Qed.
End ListU.

Lemma map_mk' {A B} (f : A -> B) n g : map f (mk n g) = mk n (fun j => f (g j)).
Proof. unfold mk. now rewrite map_map. Qed.

Lemma combine_mk {A B} n (f : nat -> A) (g : nat -> B) :
  combine (mk n f) (mk n g) = mk n (fun i => (f i, g i)).
Proof. unfold mk. apply combine_map_both. Qed.

Lemma hd_mk {A} n (f : nat -> A) d : 0 < n -> hd d (mk n f) = f 0.
Proof. destruct n; [lia|]. reflexivity. Qed.

Lemma concat_map_map {A B} (f : A -> B) (ll : list (list A)) :
  map f (concat ll) = concat (map (map f) ll).
Proof. apply concat_map. Qed.

Lemma map_map_id {A} (l : list (list A)) : map (map (fun x : A => x)) l = l.
Proof. induction l as [|a l IH]; cbn; [reflexivity|]. now rewrite map_id, IH. Qed.

(* ------------------------------------------------------------------ *)
Section P.
Context {F : Type} (K : Fops F) (Kf : is_field K).
Add Field KF16 : Kf.
Hypothesis Hapx : forall x, fapx K x = x.
Local Open Scope F_scope.
Notation "0" := (f0 K) : F_scope.
Notation "1" := (f1 K) : F_scope.
Infix "+" := (fadd K) : F_scope.
Infix "*" := (fmul K) : F_scope.
Infix "-" := (fsub K) : F_scope.
Infix "/" := (fdiv K) : F_scope.
Notation "- x" := (fopp K x) : F_scope.
Notation "# n" := (ofnat K n) (at level 5) : F_scope.
Notation fpow := (FNum.fpow K).
Notation fsum := (FNum.fsum K).

(* ---------------- finite sums ---------------- *)
Lemma fsum_cons x l : fsum (x :: l) = x + fsum l.
Proof. reflexivity. Qed.

Lemma fsum_app l1 l2 : fsum (l1 ++ l2) = fsum l1 + fsum l2.
Proof. induction l1 as [|x l1 IH]; cbn [app]; rewrite ?fsum_cons; [cbn; ring|]. rewrite IH. ring. Qed.

Lemma fsum_scale {A} c (f : A -> F) l : fsum (map (fun x => c * f x) l) = c * fsum (map f l).
Proof. induction l as [|x l IH]; cbn [map]; rewrite ?fsum_cons; [cbn; ring|]. rewrite IH. ring. Qed.

Lemma fsum_add {A} (f g : A -> F) l :
  fsum (map (fun x => f x + g x) l) = fsum (map f l) + fsum (map g l).
Proof. induction l as [|x l IH]; cbn [map]; rewrite ?fsum_cons; [cbn; ring|]. rewrite IH. ring. Qed.

Lemma fsum_ext_in {A} (f g : A -> F) l : (forall x, In x l -> f x = g x) -> fsum (map f l) = fsum (map g l).
Proof. intros H. f_equal. now apply map_ext_in. Qed.

Lemma fsum_zero {A} (l : list A) : fsum (map (fun _ => 0) l) = 0.
Proof. induction l as [|x l IH]; cbn [map]; rewrite ?fsum_cons; [reflexivity|]. rewrite IH. ring. Qed.

Lemma fsum_concat (ll : list (list F)) : fsum (concat ll) = fsum (map fsum ll).
Proof. induction ll as [|l ll IH]; cbn [concat map]; [reflexivity|]. now rewrite fsum_app, fsum_cons, IH. Qed.

Lemma fsum_swap {A B} (g : A -> B -> F) la lb :
  fsum (map (fun a => fsum (map (fun b => g a b) lb)) la)
  = fsum (map (fun b => fsum (map (fun a => g a b) la)) lb).
Proof.
  induction la as [|a la IH]; cbn [map]; rewrite ?fsum_cons.
  - symmetry. apply fsum_zero.
  - rewrite IH. rewrite <- fsum_add. apply fsum_ext_in. intros b _. now rewrite fsum_cons.
Qed.

(* ------------------------------------------------------------------ *)
(* descriptors                                                          *)
(* ------------------------------------------------------------------ *)
Record pterm := mkT { t_w : F; t_x : F; t_y : F; t_z : F; t_a : F; t_c : comp }.
Definition fdesc := list pterm.

Definition cx (c : comp) : nat := fst (fst c).
Definition cy (c : comp) : nat := snd (fst c).
Definition cz (c : comp) : nat := snd c.

(* value at the point r of the derivative of order o of one weighted primitive
     w (x-X)^a (y-Y)^b (z-Z)^c exp(-alpha |r-R|^2) ;
   u alpha l n x is the polynomial with d^n/dx^n [x^l e^{-alpha x^2}] = u e^{-alpha x^2} (C05) *)
Definition term_val (o : comp) (r : point (F:=F)) (t : pterm) : F :=
  let dx := fst (fst r) - t_x t in let dy := snd (fst r) - t_y t in let dz := snd r - t_z t in
  t_w t * (u K (t_a t) (cx (t_c t)) (cx o) dx * u K (t_a t) (cy (t_c t)) (cy o) dy
           * u K (t_a t) (cz (t_c t)) (cz o) dz)
  * fexp K (- (t_a t * (dx * dx + dy * dy + dz * dz))).
Definition deriv_spec (o : comp) (d : fdesc) (r : point (F:=F)) : F := fsum (map (term_val o r) d).
Definition eval_spec (d : fdesc) (r : point (F:=F)) : F := deriv_spec (0, 0, 0)%nat d r.

(* the value itself: sum_i w_i (x-X)^a (y-Y)^b (z-Z)^c exp(-alpha_i |r-R|^2) *)
Lemma eval_spec_unfold d r :
  eval_spec d r = fsum (map (fun t =>
    let dx := fst (fst r) - t_x t in let dy := snd (fst r) - t_y t in let dz := snd r - t_z t in
    t_w t * (fpow dx (cx (t_c t)) * fpow dy (cy (t_c t)) * fpow dz (cz (t_c t)))
    * fexp K (- (t_a t * (dx * dx + dy * dy + dz * dz)))) d).
Proof. reflexivity. Qed.

Definition dscale (s : F) (d : fdesc) : fdesc :=
  map (fun t => mkT (s * t_w t) (t_x t) (t_y t) (t_z t) (t_a t) (t_c t)) d.
(* sum_k trow[k] * ds[k] *)
Definition dcomb (trow : list F) (ds : list fdesc) : fdesc :=
  concat (map (fun p => dscale (fst p) (snd p)) (combine trow ds)).

Lemma deriv_spec_app o d1 d2 r : deriv_spec o (d1 ++ d2) r = deriv_spec o d1 r + deriv_spec o d2 r.
Proof. unfold deriv_spec. now rewrite map_app, fsum_app. Qed.

Lemma deriv_spec_dscale o s d r : deriv_spec o (dscale s d) r = s * deriv_spec o d r.
Proof.
  unfold deriv_spec, dscale. rewrite map_map, <- fsum_scale. apply fsum_ext_in. intros t _.
  unfold term_val. cbn [t_w t_x t_y t_z t_a t_c]. ring.
Qed.

Lemma deriv_spec_dcomb o trow ds r :
  deriv_spec o (dcomb trow ds) r
  = fsum (map (fun p => fst p * deriv_spec o (snd p) r) (combine trow ds)).
Proof.
  unfold dcomb. induction (combine trow ds) as [|[t d] L IH]; cbn [map concat fst snd]; [reflexivity|].
  now rewrite deriv_spec_app, deriv_spec_dscale, fsum_cons, IH.
Qed.

(* ---- the descriptors of a shell ---- *)
Definition ncf (s : shell F) (m ic : nat) : F := nth ic (nth m (norm_cont K s) []) 0.
Definition ncomp (s : shell F) : nat := length (comps_of s).
Definition compi (s : shell F) (ic : nat) : comp := nth ic (comps_of s) (0, 0, 0)%nat.

(* Cartesian function (segment m, component number ic): one term per primitive,
   weight = norm_cont * (coefficient * norm_prim) *)
Definition cart_desc (s : shell F) (m ic : nat) : fdesc :=
  map (fun ae => mkT (ncf s m ic * (nth m (snd ae) 0 * norm_prim K (s_l s) (compi s ic) (fst ae)))
                     (s_x s) (s_y s) (s_z s) (fst ae) (compi s ic))
      (combine (s_exps s) (s_coeffs s)).

Definition seg_descs (s : shell F) (m : nat) : list fdesc :=
  let carts := mk (ncomp s) (cart_desc s m) in
  if s_sph s then map (fun trow => dcomb trow carts) (shell_transform K s) else carts.

(* segment-major, then component / spherical row *)
Definition descr (s : shell F) : list fdesc := concat (mk (nseg s) (seg_descs s)).
Definition descr_basis (basis : list (shell F)) : list fdesc := concat (map descr basis).

(* well-formed component list: not empty, no exponent above l *)
Definition comps_ok (s : shell F) : Prop :=
  comps_of s <> [] /\ forall c, In c (comps_of s) -> forall ax, (comp_ax ax c <= s_l s)%nat.

Lemma default_comps_nonempty l : default_comps l <> [].
Proof.
  unfold default_comps. rewrite <- cons_seq. cbn [flat_map]. rewrite Nat.sub_0_r, Nat.sub_diag.
  cbn [seq map app]. discriminate.
Qed.

Lemma default_comps_ok (s : shell F) : s_comps s = [] -> comps_ok s.
Proof.
  intros E. unfold comps_ok, comps_of. rewrite E. split; [apply default_comps_nonempty|].
  intros c Hc ax. now apply default_comps_le.
Qed.

Lemma ncomp_pos s : comps_ok s -> (0 < ncomp s)%nat.
Proof. intros [H _]. unfold ncomp. destruct (comps_of s); [congruence|cbn; lia]. Qed.

Lemma compi_in s ic : (ic < ncomp s)%nat -> In (compi s ic) (comps_of s).
Proof. intros H. apply nth_In. exact H. Qed.

Lemma norm_cont_mk s :
  norm_cont K s = mk (nseg s) (fun m => mk (ncomp s) (ncf s m)).
Proof.
  unfold ncf. unfold norm_cont at 1. apply mk_ext; intros m Hm. apply mk_ext; intros c Hc.
  unfold norm_cont. rewrite nth_mk by exact Hm. now rewrite nth_mk by exact Hc.
Qed.

(* ------------------------------------------------------------------ *)
(* evaluation side                                                      *)
(* ------------------------------------------------------------------ *)
Section EvalSide.
Variables (o : comp) (pts : list (point (F:=F))).

(* the un-normalised entry (segment m, component ic, point p) of EvalDeriv.construct_array_contraction *)
Definition raw_entry (s : shell F) (m ic : nat) (p : point (F:=F)) : F :=
  fsum (map (fun ae => nth m (snd ae) 0 *
      (norm_prim K (s_l s) (compi s ic) (fst ae)
       * (u K (fst ae) (cx (compi s ic)) (cx o) (fst (fst p) - s_x s)
          * u K (fst ae) (cy (compi s ic)) (cy o) (snd (fst p) - s_y s)
          * u K (fst ae) (cz (compi s ic)) (cz o) (snd p - s_z s))
       * fexp K (- (fst ae * ((fst (fst p) - s_x s) * (fst (fst p) - s_x s)
                              + (snd (fst p) - s_y s) * (snd (fst p) - s_y s)
                              + (snd p - s_z s) * (snd p - s_z s))))))
    (combine (s_exps s) (s_coeffs s))).

Lemma block_general_mk (s : shell F) : comps_ok s ->
  block_with K (gen_mode K false (s_l s) o) (fun c => c) (fexp K) s o pts
  = mk (nseg s) (fun m => mk (ncomp s) (fun ic => map (raw_entry s m ic) pts)).
Proof.
  intros [_ Hle]. unfold block_with. cbv zeta. fold (ncomp s).
  apply mk_ext; intros m Hm. apply mk_ext; intros ic Hic.
  rewrite map_map. apply map_ext; intros p.
  unfold pt_mat. cbv zeta. rewrite nth_mk by exact Hm.
  unfold pt_vals. cbv zeta. rewrite map_map.
  rewrite (nth_map_combine _ (comps_of s) (norms K s) ic (0,0,0)%nat [] 0)
    by (rewrite ?length_norms; auto).
  fold (compi s ic).
  assert (En : nth ic (norms K s) [] = map (norm_prim K (s_l s) (compi s ic)) (s_exps s)).
  { unfold norms. rewrite (nth_indep _ [] (map (norm_prim K (s_l s) (0,0,0)%nat) (s_exps s)))
      by (rewrite map_length; exact Hic).
    now rewrite (map_nth (fun c => map (norm_prim K (s_l s) c) (s_exps s))). }
  rewrite En. unfold raw_entry.
  pose proof (Hle _ (compi_in s ic Hic)) as Hc.
  destruct (compi s ic) as [[ax ay] az] eqn:Ec.
  rewrite combine_map_both, map_map.
  rewrite combine_map_r', map_map.
  rewrite (combine_swap (s_exps s) (s_coeffs s)), map_map.
  apply fsum_ext_in. intros [crow alpha] _. cbn [fst snd].
  unfold prim_data. destruct p as [[px py] pz]. destruct o as [[ox oy] oz]. cbn [fst snd cx cy cz].
  pose proof (axis_row_general K Kf (s_l s) (ox, oy, oz) 0 alpha (px - s_x s) ax ltac:(lia) (Hc 0%nat)) as E0.
  pose proof (axis_row_general K Kf (s_l s) (ox, oy, oz) 1 alpha (py - s_y s) ay ltac:(lia) (Hc 1%nat)) as E1.
  pose proof (axis_row_general K Kf (s_l s) (ox, oy, oz) 2 alpha (pz - s_z s) az ltac:(lia) (Hc 2%nat)) as E2.
  cbn [comp_ax] in E0, E1, E2. rewrite E0, E1, E2. reflexivity.
Qed.

Lemma cart_entry (s : shell F) m ic p :
  ncf s m ic * raw_entry s m ic p = deriv_spec o (cart_desc s m ic) p.
Proof.
  unfold raw_entry, deriv_spec, cart_desc. rewrite map_map, <- fsum_scale.
  apply fsum_ext_in. intros [alpha crow] _. unfold term_val. cbn [fst snd t_w t_x t_y t_z t_a t_c]. ring.
Qed.

(* vectors over the points: the module the one-index assembly works in *)
Notation vz l := (map (fun _ : F => 0) l).
Notation vadd := (fun x y : list F => map (fun ac : F * F => let '(a, c) := ac in a + c) (combine x y)).
Notation vsc := (fun (t : F) (x : list F) => map (fmul K t) x).

Lemma asum_vec (G : list (F * fdesc)) :
  asum (map (fun _ : point (F:=F) => 0) pts) vadd
       (map (fun td : F * list F => let '(t, x) := td in vsc t x)
            (map (fun p => (fst p, map (deriv_spec o (snd p)) pts)) G))
  = map (fun r => fsum (map (fun p => fst p * deriv_spec o (snd p) r) G)) pts.
Proof.
  unfold asum. induction G as [|[t d] G IH]; cbn [map fold_right fst snd].
  - apply map_ext. reflexivity.
  - rewrite IH. rewrite map_map, combine_map_both, map_map. apply map_ext. intros r.
    now rewrite fsum_cons.
Qed.

(* T applied to the rows (vectors over the points) of a non-empty list of descriptors:
   the rows of the combined descriptors *)
Lemma apply_rows_descs (T : list (list F)) (ds : list fdesc) : ds <> [] ->
  apply_rows (vz (hd [] (map (fun d => map (deriv_spec o d) pts) ds))) vadd vsc
             T (map (fun d => map (deriv_spec o d) pts) ds)
  = map (fun trow => map (deriv_spec o (dcomb trow ds)) pts) T.
Proof.
  intros Hne. unfold apply_rows. apply map_ext. intros trow.
  rewrite combine_map_r'.
  assert (Ez : vz (hd [] (map (fun d => map (deriv_spec o d) pts) ds))
               = map (fun _ : point (F:=F) => 0) pts).
  { destruct ds as [|d0 ds']; [congruence|]. cbn [map hd]. now rewrite map_map. }
  rewrite Ez, asum_vec. apply map_ext. intros r. now rewrite deriv_spec_dcomb.
Qed.

Lemma shell_rows_descr (s : shell F) : comps_ok s ->
  shell_rows K (fun x => x) (s_sph s) (shell_transform K s) (norm_cont K s)
    (block_with K (gen_mode K false (s_l s) o) (fun c => c) (fexp K) s o pts)
  = map (fun d => map (deriv_spec o d) pts) (descr s).
Proof.
  intros Hok. rewrite block_general_mk by exact Hok. rewrite norm_cont_mk.
  unfold shell_rows. cbv zeta.
  assert (Enorm : normalise1 K (mk (nseg s) (fun m => mk (ncomp s) (ncf s m)))
            (mk (nseg s) (fun m => mk (ncomp s) (fun ic => map (raw_entry s m ic) pts)))
          = mk (nseg s) (fun m => map (fun d => map (deriv_spec o d) pts) (mk (ncomp s) (cart_desc s m)))).
  { unfold normalise1. rewrite combine_mk, map_mk'. apply mk_ext; intros m Hm.
    rewrite combine_mk, !map_mk'. apply mk_ext; intros ic Hic.
    rewrite map_map. apply map_ext. intros p. apply cart_entry. }
  rewrite Enorm. unfold descr, seg_descs. rewrite concat_map_map.
  destruct (s_sph s).
  - f_equal. rewrite !map_mk'. apply mk_ext; intros m Hm.
    rewrite map_map_id. rewrite map_map.
    apply apply_rows_descs.
    pose proof (ncomp_pos s Hok). destruct (ncomp s); [lia|]. discriminate.
  - now rewrite map_mk'.
Qed.

(* (i) evaluation model = eval of the descriptors, same order, all shells / l / K / M / types *)
Theorem same_function_eval (basis : list (shell F)) :
  Forall comps_ok basis ->
  evaluate_deriv_basis_model K basis pts o None General
  = Some (map (fun d => map (deriv_spec o d) pts) (descr_basis basis)).
Proof.
  intros Hok. unfold evaluate_deriv_basis_model. cbn [accepts]. f_equal.
  unfold one_index. unfold descr_basis. rewrite concat_map_map, !map_map. f_equal.
  apply map_ext_in. intros s Hs. cbn [prep_fast p_shell p_T p_norm mode_of].
  rewrite Forall_forall in Hok. unfold norm_cont_diag. apply shell_rows_descr. now apply Hok.
Qed.

(* with a transformation matrix (tensordot(transform, array, (1, 0))): the rows are the values of
   the combined descriptors sum_k T[i][k] bf_k *)
Theorem same_function_eval_transformed (basis : list (shell F)) (T : list (list F)) :
  Forall comps_ok basis -> descr_basis basis <> [] ->
  evaluate_deriv_basis_model K basis pts o (Some T) General
  = Some (map (fun trow => map (deriv_spec o (dcomb trow (descr_basis basis))) pts) T).
Proof.
  intros Hok Hne.
  pose proof (same_function_eval basis Hok) as E. unfold evaluate_deriv_basis_model in *.
  cbn [accepts] in *. f_equal. injection E as E.
  set (blocks := map _ basis) in *.
  change (one_index K (fun x => x) blocks (Some T))
    with (apply_rows (vz (hd [] (one_index K (fun x => x) blocks None))) vadd vsc
            (map (map (fun x : F => x)) T) (one_index K (fun x => x) blocks None)).
  assert (E' : one_index K (fun x => x) blocks None
               = map (fun d => map (deriv_spec o d) pts) (descr_basis basis)) by exact E.
  rewrite E', map_map_id. now apply apply_rows_descs.
Qed.
End EvalSide.

Theorem same_function_eval_values (basis : list (shell F)) pts :
  Forall comps_ok basis ->
  evaluate_basis_model K basis pts None = map (fun d => map (eval_spec d) pts) (descr_basis basis).
Proof.
  intros Hok. pose proof (same_function_eval (0,0,0)%nat pts basis Hok) as E.
  unfold evaluate_deriv_basis_model in E. cbn [accepts] in E. injection E as E. exact E.
Qed.

End P.
